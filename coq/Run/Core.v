(* Run/Core: the case format shared by the checks of C01, C02, C04 and C13 (one case =
   one data file: declared records, dumps of the three compiled databases, queries with
   the observations of the three real servers) and the relations evaluated on it:
     compile_ok  - the dumps hold exactly the rows the declared records prescribe (Spec/Rows)
     model_ok    - the serve model run over the dumps computes what each server did
     spec_c01    - each observed response is what Spec/Answer prescribes
   No proofs in this file. *)
From DnsV Require Import Base.Bytes Model.Store Model.LookupV1 Model.LookupV2 Model.Serve.
From DnsV Require Import Spec.Answer Spec.Rows.
Open Scope N_scope.

(* byte strings arrive as one number: digits base 256 behind a leading 1 (fast to parse) *)
Fixpoint B_fuel (fuel : nat) (n : N) (acc : bytes) : bytes :=
  match fuel with
  | O => acc
  | S f => if n <=? 1 then acc else B_fuel f (n / 256) (n mod 256 :: acc)
  end.
Definition B (n : N) : bytes := B_fuel (N.to_nat (N.size n)) n [].

Record reply := mkReply {
  p_id : N; p_qr : bool; p_question : list (bytes * N * N); p_rcode : N; p_aa : bool; p_tc : bool;
  p_an : list rr; p_ns : list rr; p_ex : list rr;
  p_opt : bool; p_optcodes : list N; p_ecs : option bytes; p_packok : bool; p_writes : N }.
Record obs := mkObs { o_loc : locres; o_ecs : option bytes; o_panic : bool; o_reply : option reply }.
Record qcase := mkQC { qc_q : query; qc_max : N; qc_obs : list obs }.     (* observations: cdb, rdb1, rdb2 *)
Record fcase := mkF {
  f_recs : list record;
  f_compiled : bool;
  f_v1 : store;              (* CDB dump, owner-name keys *)
  f_r1 : option store;       (* RocksDB v1-key dump when it differs from the CDB dump (row order) *)
  f_v2 : store;              (* RocksDB v2-key dump, every key *)
  f_qs : list qcase }.

(* ---------------------------------------------------------------- comparison of sections *)
Definition rr_eqb (a b : rr) : bool :=
  bytes_eqb (rr_owner a) (rr_owner b) && (rr_type a =? rr_type b) && (rr_class a =? rr_class b) &&
  (rr_ttl a =? rr_ttl b) && bytes_eqb (rr_rdata a) (rr_rdata b).
Fixpoint remove_rr (x : rr) (l : list rr) : option (list rr) :=
  match l with
  | [] => None
  | y :: t => if rr_eqb x y then Some t
              else match remove_rr x t with Some t' => Some (y :: t') | None => None end
  end.
Fixpoint take_fixed (items : list item) (o : list rr) : option (list rr) :=
  match items with
  | [] => Some o
  | IRR r :: t => match remove_rr r o with Some o' => take_fixed t o' | None => None end
  | IPick _ _ _ _ _ :: t => take_fixed t o
  end.
Definition cand_eqb (a b : N * bytes) : bool := (fst a =? fst b) && bytes_eqb (snd a) (snd b).
Fixpoint remove_cand (x : N * bytes) (l : list (N * bytes)) : option (list (N * bytes)) :=
  match l with
  | [] => None
  | y :: t => if cand_eqb x y then Some t
              else match remove_cand x t with Some t' => Some (y :: t') | None => None end
  end.
Fixpoint sub_multiset (a l : list (N * bytes)) : bool :=
  match a with
  | [] => true
  | x :: a' => match remove_cand x l with Some l' => sub_multiset a' l' | None => false end
  end.
Definition positive (c : list cand) : list (N * bytes) :=
  map (fun x => (fst (fst x), snd x)) (filter (fun x => 0 <? snd (fst x)) c).
Fixpoint take_picks (items : list item) (o : list rr) : option (list rr) :=
  match items with
  | [] => Some o
  | IRR _ :: t => take_picks t o
  | IPick ow ty cl cs n :: t =>
      let mine := fun r => bytes_eqb (rr_owner r) ow && (rr_type r =? ty) && (rr_class r =? cl) in
      let got := filter mine o in
      if (nlen got =? n) && sub_multiset (map (fun r => (rr_ttl r, rr_rdata r)) got) (positive cs)
      then take_picks t (filter (fun r => negb (mine r)) o) else None
  end.
Definition section_ok (items : list item) (o : list rr) : bool :=
  match take_fixed items o with
  | Some o1 => match take_picks items o1 with Some [] => true | _ => false end
  | None => false
  end.

Definition opt_bytes_eqb (a b : option bytes) : bool :=
  match a, b with Some x, Some y => bytes_eqb x y | None, None => true | _, _ => false end.
Definition question_eqb (a : option (bytes * N * N)) (b : list (bytes * N * N)) : bool :=
  match a, b with
  | None, [] => true
  | Some (n, t, c), [(n', t', c')] => bytes_eqb n n' && (t =? t') && (c =? c')
  | _, _ => false
  end.

Definition outcome_matches (o : outcome) (ob : obs) : bool :=
  match o with
  | OPanic => o_panic ob
  | OFuel => false
  | ONoReply => negb (o_panic ob) && match o_reply ob with None => true | Some _ => false end
  | OReply r =>
      negb (o_panic ob) &&
      match o_reply ob with
      | None => false
      | Some p =>
          (p_id p =? rs_id r) && p_qr p && question_eqb (rs_question r) (p_question p) &&
          (p_rcode p =? rs_rcode r) && Bool.eqb (p_aa p) (rs_aa r) && negb (p_tc p) &&
          section_ok (rs_an r) (p_an p) && section_ok (rs_ns r) (p_ns p) && section_ok (rs_ex r) (p_ex p) &&
          match rs_opt r with
          | None => negb (p_opt p)
          | Some e => p_opt p && opt_bytes_eqb e (p_ecs p) &&
                      match e, p_optcodes p with None, [] => true | Some _, [8] => true | _, _ => false end
          end && p_packok p && (p_writes p =? 1)
      end
  end.

(* ---------------------------------------------------------------- compile_ok, model_ok *)
Definition features_key : bytes := [0; 111; 95; 102; 101; 97; 116; 117; 114; 101; 115].
Definition rr_keys_v2 (s : store) : store :=
  filter (fun d => is_prefix marker (fst d) && negb (bytes_eqb (fst d) features_key)) s.

Definition compile_ok (c : fcase) : bool :=
  same_rows (f_v1 c) (rows_of_v1 (f_recs c)) &&
  match f_r1 c with Some d => same_rows d (rows_of_v1 (f_recs c)) | None => true end &&
  same_rows (rr_keys_v2 (f_v2 c)) (rows_of_v2 (f_recs c)).

Definition store_for (c : fcase) (b : backend) : store :=
  match b with
  | CDB => f_v1 c
  | RDB1 => match f_r1 c with Some d => d | None => f_v1 c end
  | RDB2 => f_v2 c
  end.
Definition backends := [CDB; RDB1; RDB2].

Definition serve_obs (c : fcase) (q : qcase) (b : backend) (ob : obs) : outcome :=
  serve b (store_for c b) (qc_q q) (o_loc ob) (o_ecs ob) (qc_max q).

Fixpoint zip_ok {A B} (f : A -> B -> bool) (l : list A) (m : list B) : bool :=
  match l, m with
  | [], [] => true
  | a :: l', b :: m' => f a b && zip_ok f l' m'
  | _, _ => false
  end.

Definition query_model_ok (c : fcase) (q : qcase) : bool :=
  zip_ok (fun b ob => outcome_matches (serve_obs c q b ob) ob) backends (qc_obs q).

Definition serve_model_ok (c : fcase) : bool :=
  if f_compiled c then forallb (query_model_ok c) (f_qs c) else true.
Definition file_model_ok (c : fcase) : bool :=
  if f_compiled c then compile_ok c && forallb (query_model_ok c) (f_qs c) else true.

(* ---------------------------------------------------------------- the C01 spec on observations *)
Fixpoint labels_fuel (fuel : nat) (l : bytes) : name :=
  match fuel with
  | O => []
  | S f => match l with
           | [] => []
           | c :: t => if c =? 0 then [] else firstn (N.to_nat c) t :: labels_fuel f (skipn (N.to_nat c) t)
           end
  end.
Definition labels_of (packed : bytes) : name := labels_fuel (length packed) packed.

Definition is_addr (t : N) : bool := (t =? 1) || (t =? 28).
Definition rr_key (r : rr) := (rr_type r, (rr_ttl r, rr_rdata r)).

Fixpoint remove_key (x : N * (N * bytes)) (l : list (N * (N * bytes))) : option (list (N * (N * bytes))) :=
  match l with
  | [] => None
  | y :: t => if (fst x =? fst y) && cand_eqb (snd x) (snd y) then Some t
              else match remove_key x t with Some t' => Some (y :: t') | None => None end
  end.
Fixpoint keys_eqb (a b : list (N * (N * bytes))) : bool :=
  match a with
  | [] => match b with [] => true | _ => false end
  | x :: a' => match remove_key x b with Some b' => keys_eqb a' b' | None => false end
  end.
Definition rec_key (r : record) := (r_type r, (r_ttl r, r_rdata r)).

(* the answer section against the records the spec selected *)
Definition answer_ok (qn : name) (max : N) (ans : list record) (o : list rr) : bool :=
  forallb (fun r => name_eqb (labels_of (rr_owner r)) qn && (rr_class r =? 1)) o &&
  keys_eqb (map rr_key (filter (fun r => negb (is_addr (rr_type r))) o))
           (map rec_key (filter (fun r => negb (is_addr (r_type r))) ans)) &&
  forallb (fun ty =>
             let decl := filter (fun r => (r_type r =? ty) && (0 <? r_weight r)) ans in
             let got := filter (fun r => rr_type r =? ty) o in
             (nlen got =? N.min max (nlen decl)) &&
             sub_multiset (map (fun r => (rr_ttl r, rr_rdata r)) got) (map (fun r => (r_ttl r, r_rdata r)) decl))
          [1; 28].

(* an additional record is sound: a declared, visible, non-wildcard address of positive weight
   at its owner, and the owner is a target of an NS / MX record of the message or the owner of
   an HTTPS record of it (Spec/AnswerExtra, Model/Serve.target_of: NS 2, MX 15, HTTPS 65) *)
Definition targets (l : list rr) : list name :=
  flat_map (fun r => if rr_type r =? 2 then [labels_of (rr_rdata r)]
                     else if rr_type r =? 15 then [labels_of (skipn 2 (rr_rdata r))]
                     else if rr_type r =? 65 then [labels_of (rr_owner r)] else []) l.
Definition extra_sound (L : bytes) (recs : list record) (p : reply) : bool :=
  forallb (fun x =>
    is_addr (rr_type x) &&
    existsb (name_eqb (labels_of (rr_owner x))) (targets (p_an p ++ p_ns p)) &&
    existsb (fun r => (r_type r =? rr_type x) && (r_ttl r =? rr_ttl x) && bytes_eqb (r_rdata r) (rr_rdata x) && (0 <? r_weight r))
            (own_records L recs (labels_of (rr_owner x)))) (p_ex p).
(* a referral carries the glue: one address per family for every NS target that has one *)
Definition glue_complete (L : bytes) (recs : list record) (p : reply) : bool :=
  forallb (fun t => forallb (fun ty =>
     let have := existsb (fun r => (r_type r =? ty) && (0 <? r_weight r)) (own_records L recs t) in
     let got := filter (fun x => (rr_type x =? ty) && name_eqb (labels_of (rr_owner x)) t) (p_ex p) in
     if have then nlen got =? 1 else nlen got =? 0) [1; 28]) (targets (p_ns p)).

Definition spec_c01_obs (recs : list record) (q : query) (max : N) (ob : obs) : bool :=
  if negb (q_class q =? 1) then true else
  match q_edns q with Some (Npos _) => true | _ =>
  match o_loc ob with
  | LocOk L =>
      if negb (wf_view L recs) then true else
      if o_panic ob then false else
      match o_reply ob with
      | None => false
      | Some p =>
          let qn := labels_of (lower_bytes (q_name q)) in
          match spec_response L recs qn (q_type q) with
          | Refused =>
              (p_rcode p =? 5) && match p_an p, p_ns p, p_ex p with [], [], [] => true | _, _, _ => false end
          | Referral z nsr =>
              if q_type q =? 43 then true else
              (p_rcode p =? 0) && negb (p_aa p) && match p_an p with [] => true | _ => false end &&
              forallb (fun r => name_eqb (labels_of (rr_owner r)) z && (rr_class r =? 1)) (p_ns p) &&
              keys_eqb (map rr_key (p_ns p)) (map rec_key nsr) &&
              extra_sound L recs p && glue_complete L recs p
          | Answer z nx ans soa =>
              p_aa p && (p_rcode p =? (if nx then 3 else 0)) &&
              answer_ok qn max ans (p_an p) &&
              match p_an p with
              | [] => match p_ns p with
                      | [s] => name_eqb (labels_of (rr_owner s)) z && (rr_class s =? 1) &&
                               existsb (fun r => keys_eqb [rr_key s] [rec_key r]) soa
                      | _ => false
                      end
              | _ => forallb (fun s => name_eqb (labels_of (rr_owner s)) z &&
                                       existsb (fun r => keys_eqb [rr_key s] [rec_key r]) (own_records L recs z)) (p_ns p)
              end &&
              extra_sound L recs p
          end
      end
  | _ => true
  end
  end.

Definition spec_c01_file (c : fcase) : bool :=
  if f_compiled c then
    forallb (fun q => forallb (spec_c01_obs (f_recs c) (qc_q q) (qc_max q)) (qc_obs q)) (f_qs c)
  else true.

(* ---------------------------------------------------------------- comparing two observations *)
(* equal up to which addresses were drawn: address records are compared by (owner, type, class) only *)
Definition blur (r : rr) : rr :=
  if is_addr (rr_type r) then mkRR (rr_owner r) (rr_type r) (rr_class r) 0 [] else r.
Fixpoint rr_multiset_eqb (a b : list rr) : bool :=
  match a with
  | [] => match b with [] => true | _ => false end
  | x :: a' => match remove_rr x b with Some b' => rr_multiset_eqb a' b' | None => false end
  end.
Definition section_sim (a b : list rr) : bool := rr_multiset_eqb (map blur a) (map blur b).
Definition question_sim (a b : list (bytes * N * N)) : bool :=
  zip_ok (fun x y => let '(n, t, c) := x in let '(n', t', c') := y in bytes_eqb n n' && (t =? t') && (c =? c')) a b.
Definition reply_sim (p q : reply) : bool :=
  (p_id p =? p_id q) && Bool.eqb (p_qr p) (p_qr q) && question_sim (p_question p) (p_question q) &&
  (p_rcode p =? p_rcode q) && Bool.eqb (p_aa p) (p_aa q) && Bool.eqb (p_tc p) (p_tc q) &&
  section_sim (p_an p) (p_an q) && section_sim (p_ns p) (p_ns q) && section_sim (p_ex p) (p_ex q) &&
  Bool.eqb (p_opt p) (p_opt q) && opt_bytes_eqb (p_ecs p) (p_ecs q) &&
  zip_ok N.eqb (p_optcodes p) (p_optcodes q).
Definition obs_sim (a b : obs) : bool :=
  Bool.eqb (o_panic a) (o_panic b) &&
  match o_reply a, o_reply b with
  | Some p, Some q => reply_sim p q
  | None, None => true
  | _, _ => false
  end.
