(* Run/C12: (1) sequential histories fed to a cache-enabled and a cache-disabled real
   handler: the model (Model/Cache.v, instantiated so that a body is the number of the
   event that computed it) predicts every hit / expiry / miss and from which earlier
   event a hit was copied; the specification compares the two handlers' responses.
   (2) schedules with the cache enabled: model and specification of Run/C05.v. *)
From DnsV Require Import Base.Bytes Model.Reload Model.Cache Run.C05.
Open Scope N_scope.

Definition rr := (bytes * bytes)%type.     (* owner name as written, rest (class type ttl rdata) *)
Record oresp := mkOR {
  or_present : bool;             (* the handler wrote a message *)
  or_rcode : N;
  or_flags : N;
  or_question : list rr;
  or_answer : list rr;
  or_ns : list rr;
  or_extra : list rr;            (* additional section without the OPT record *)
  or_opt : bytes                 (* the OPT record, empty if none *)
}.

Record hquery := mkHQ {
  hq_loc : N; hq_qtype : N; hq_qclass : N;
  hq_lname : bytes;              (* lower-cased name *)
  hq_refused : bool; hq_weighted : bool;     (* shape of the answer (static zone layout) *)
  hq_badvers : bool;             (* the request carries an EDNS version other than 0 *)
  hq_now : N;                    (* Unix time read just before the query *)
  hq_hit : bool; hq_expired : bool;          (* DNS_cache.hit / DNS_cache.expired counted by the cached handler *)
  hq_cached : oresp;             (* response of the handler with cache *)
  hq_plain : oresp               (* response of the handler without cache *)
}.

Inductive hevent :=
| HQuery (q : hquery)
| HReload (ok_cached ok_plain : bool)     (* Reload returned nil on the cached / uncached handler *)
| HEnv.                                   (* on-disk update: invisible to the cache wrapper *)

Record hcase := mkH { h_cap : nat; h_wrs : N; h_events : list hevent; h_err : bool }.

Inductive case := CSched (c : C05.case) | CHist (h : hcase).

(* ------------------------------------------------------------ model instance *)
(* content = number of successful reloads so far; a body is the number of the event whose
   computation produced it (passed in as the random draws); finish returns the body *)
Definition key_of_q (q : hquery) : key := mkKey (hq_loc q) (hq_qtype q) (hq_qclass q) (hq_lname q).

Fixpoint flag_of (sel : hquery -> bool) (evs : list hevent) (k : key) : bool :=
  match evs with
  | [] => false
  | HQuery q :: evs' => if bytes_eqb (key_string (key_of_q q)) (key_string k) then sel q else flag_of sel evs' k
  | _ :: evs' => flag_of sel evs' k
  end.

Definition m_serve (h : hcase) :=
  serve N N N (fun b => b) (fun _ r => q_from r) (fun _ _ _ rnd => rnd)
        (fun _ k => flag_of hq_weighted (h_events h) k) (fun _ k => flag_of hq_refused (h_events h) k)
        (fun b _ _ => b) (fun r => q_extra r =? 1) (fun _ => 0) (mkCC true (h_cap h) (h_wrs h)).

(* runs the history through the model; per event: None (no query) or (outcome, source event) *)
Fixpoint m_run (h : hcase) (i : N) (g : N) (c : cache N) (evs : list hevent) : list (option (outcome * N)) :=
  match evs with
  | [] => []
  | HQuery q :: evs' =>
      let r := mkReq (hq_loc q) (hq_lname q) (hq_qtype q) (hq_qclass q) (if hq_badvers q then 1 else 0) in
      let '(c', src, o) := m_serve h g c (hq_now q) i r in
      Some (o, src) :: m_run h (i + 1) g c' evs'
  | HReload ok _ :: evs' =>
      if ok then None :: m_run h (i + 1) (g + 1) [] evs' else None :: m_run h (i + 1) g c evs'
  | HEnv :: evs' => None :: m_run h (i + 1) g c evs'
  end.

Definition rr_eqb (a b : rr) : bool := bytes_eqb (fst a) (fst b) && bytes_eqb (snd a) (snd b).
Fixpoint rrs_eqb (f : rr -> rr -> bool) (a b : list rr) : bool :=
  match a, b with
  | [], [] => true
  | x :: a', y :: b' => f x y && rrs_eqb f a' b'
  | _, _ => false
  end.

(* the sections a cache entry holds: rcode, answer, authority, additional without OPT, exactly *)
Definition same_entry (a b : oresp) : bool :=
  (or_rcode a =? or_rcode b) && rrs_eqb rr_eqb (or_answer a) (or_answer b) &&
  rrs_eqb rr_eqb (or_ns a) (or_ns b) && rrs_eqb rr_eqb (or_extra a) (or_extra b).

Definition cached_at (h : hcase) (i : N) : option oresp :=
  match nth_error (h_events h) (N.to_nat i) with
  | Some (HQuery q) => Some (hq_cached q)
  | _ => None
  end.

Fixpoint hist_model_ok (h : hcase) (evs : list hevent) (pred : list (option (outcome * N))) : bool :=
  match evs, pred with
  | [], [] => true
  | HQuery q :: evs', Some (o, src) :: pred' =>
      (match o with
       | OHit => hq_hit q && negb (hq_expired q) &&
                 (* a hit returns the sections computed for the FIRST asker (its letter case included) *)
                 match cached_at h src with Some first => same_entry (hq_cached q) first | None => false end
       | OExpired => negb (hq_hit q) && hq_expired q
       | _ => negb (hq_hit q) && negb (hq_expired q)
       end) && hist_model_ok h evs' pred'
  | HReload a b :: evs', None :: pred' => Bool.eqb a b && hist_model_ok h evs' pred'
  | HEnv :: evs', None :: pred' => hist_model_ok h evs' pred'
  | _, _ => false
  end.

Definition model_ok (c : case) : bool :=
  match c with
  | CSched s => C05.model_ok s
  | CHist h => negb (h_err h) && hist_model_ok h (h_events h) (m_run h 0 0 [] (h_events h))
  end.

Definition model_out (c : case) :=
  match c with
  | CSched s => (C05.model_out s, [])
  | CHist h => (None, m_run h 0 0 [] (h_events h))
  end.

(* ------------------------------------------------------------ specification *)
Definition lower_byte (b : N) : N := if (65 <=? b) && (b <=? 90) then b + 32 else b.
Definition lower_bytes (l : bytes) : bytes := map lower_byte l.

(* equal up to the letter case of owner names *)
Definition rr_eq_case (a b : rr) : bool :=
  bytes_eqb (lower_bytes (fst a)) (lower_bytes (fst b)) && bytes_eqb (snd a) (snd b).

Definition resp_equiv (a b : oresp) : bool :=
  Bool.eqb (or_present a) (or_present b) &&
  (or_rcode a =? or_rcode b) && (or_flags a =? or_flags b) &&
  rrs_eqb rr_eqb (or_question a) (or_question b) &&
  rrs_eqb rr_eq_case (or_answer a) (or_answer b) &&
  rrs_eqb rr_eq_case (or_ns a) (or_ns b) &&
  rrs_eqb rr_eq_case (or_extra a) (or_extra b) &&
  bytes_eqb (or_opt a) (or_opt b).

(* with the cache enabled every query receives the response it receives without
   (answers without weighted selection, up to owner-name case) *)
Definition hist_spec_ok (h : hcase) : bool :=
  negb (h_err h) &&
  forallb (fun ev => match ev with
                     | HQuery q => or_present (hq_cached q) &&
                                   (hq_weighted q || resp_equiv (hq_cached q) (hq_plain q)) &&
                                   (* a response that contains a weighted draw (anywhere: answer or the address of
                                      any NS / MX target) is never served from the cache unless WRSTimeout > 0 *)
                                   negb (hq_weighted q && hq_hit q && (h_wrs h =? 0))
                     | HReload a b => Bool.eqb a b
                     | HEnv => true
                     end) (h_events h).

Definition spec_ok (c : case) : bool :=
  match c with
  | CSched s => C05.spec_ok s
  | CHist h => hist_spec_ok h
  end.
