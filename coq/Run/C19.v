(* Run/C19: evaluation of model and property on harness cases.
   Three kinds of case: a timed window history (raw sliding window or Stats.Get),
   one query observation of the real handler, one concurrent counter run. *)
From DnsV Require Export Base.Bytes Model.SWindow Model.Stats Model.Counters Spec.Window.
From DnsV Require Import Spec.Counters.
Open Scope Z_scope.

(* ---------- observations *)
Inductive wobs :=
| OAdd (t v : Z)                                   (* Add / AddSample at observed time t *)
| OTick (t : Z)                                    (* estimated cleaner tick *)
| ORead (t : Z) (vals : list Z)                    (* Samples() returned vals *)
| OGet (t : Z) (present : bool) (mn mx av : Z).    (* Stats.Get(): keys present?, .min .max .avg *)

Record olog := mkL {
  l_failed : bool;       (* LogFailed (true) or Log (false) *)
  l_same_as_sent : bool; (* the message argument equals, at call time, the message the writer got *)
  l_is_request : bool;   (* the message argument is the request *)
  l_after_write : bool   (* called after WriteMsg returned *)
}.
Record owrite := mkW { w_rcode : N; w_aa : bool; w_nans : N; w_ok : bool }.

Record qobs := mkObs {
  ob_deltas : list (ckey * Z);   (* nonzero counter deltas caused by this query, one entry per key *)
  ob_logs : list olog;
  ob_writes : list owrite;
  ob_located : bool;             (* the yield point after the location lookup was reached *)
  ob_via_ecs : bool;             (* db.EcsLocation on the request's client-subnet option gave the location *)
  ob_ret : N                     (* rcode returned by ServeDNSWithRCODE *)
}.

(* free-running class cleaner-race: blocks of equal samples added between two recorded
   instants, exports with the instants recorded around the call *)
Inductive robs :=
| RBlock (v n tb ta : Z)                           (* n samples of value v, added within [tb, ta] *)
| RRead (tb ta : Z) (rle : list (Z * Z)) (open : option (Z * Z * Z))
    (* Samples() called within [tb, ta], run-length encoded; open = (v, lo, hi): a block of
       value v was growing meanwhile, between lo and hi of its samples existed *)
| RGet (tb ta : Z) (present : bool) (mn mx av : Z). (* Stats.Get() within [tb, ta] *)

Inductive case :=
| CRace (raw : bool) (L : Z) (events : list robs)
| CWin (raw : bool) (L : Z) (events : list wobs)
| CQuery (q : qclass) (o : qobs)
| CConc (threads : list (list (ckey * Z))) (exports : list (list (list (ckey * Z)))) (final : list (ckey * Z)).

(* ---------- helpers *)
Fixpoint zlist_eqb (a b : list Z) : bool :=
  match a, b with
  | [], [] => true
  | x :: a', y :: b' => (x =? y) && zlist_eqb a' b'
  | _, _ => false
  end.

Definition to_event (o : wobs) : wevent :=
  match o with
  | OAdd t v => WAdd t v
  | OTick t => WTick t
  | ORead t _ => WRead t
  | OGet t _ _ _ _ => WRead t
  end.

Fixpoint monob_from (t0 : Z) (l : list wobs) : bool :=
  match l with
  | [] => true
  | o :: l' => let t := ev_time (to_event o) in (t0 <=? t) && monob_from t l'
  end.
Definition monob (l : list wobs) : bool :=
  match l with [] => true | o :: l' => monob_from (ev_time (to_event o)) l' end.

Definition triple_eqb (a : Z * Z * Z) (mn mx av : Z) : bool :=
  let '(x, y, z) := a in (x =? mn) && (y =? mx) && (z =? av).

(* ---------- window: correspondence *)
Fixpoint win_model (L : Z) (w : window) (l : list wobs) : bool :=
  match l with
  | [] => true
  | OAdd t v :: l' => win_model L (add L t v w) l'
  | OTick t :: l' => win_model L (tick t w) l'
  | ORead t vals :: l' => let (w', out) := samples t w in zlist_eqb out vals && win_model L w' l'
  | OGet _ _ _ _ _ :: _ => false
  end.

Fixpoint stats_model (L : Z) (st : wstate) (l : list wobs) : bool :=
  match l with
  | [] => true
  | OAdd t v :: l' => stats_model L (stats_add L t v st) l'
  | OTick t :: l' => stats_model L (stats_tick t st) l'
  | OGet t present mn mx av :: l' =>
      let (st', e) := stats_get t st in
      match e with
      | None => negb present
      | Some e => present && triple_eqb (export_triple e) mn mx av
      end && stats_model L st' l'
  | ORead _ _ :: _ => false
  end.

(* ---------- window: the property on the observations (no window state) *)
Fixpoint win_spec (L : Z) (past : list wevent) (l : list wobs) : bool :=
  match l with
  | [] => true
  | o :: l' =>
      match o with
      | ORead t vals => zlist_eqb (spec_samples L past t) vals
      | OGet t present mn mx av =>
          if has_add past then
            let live := spec_samples L past t in
            let '(smn, smx, sav) := spec_export live in
            present && (smn =? mn) && (smx =? mx) &&
            (* the average clause assumes the sum fits an int64 *)
            (if fits64b (list_sum live) then sav =? av else true)
          else negb present
      | _ => true
      end && win_spec L (past ++ [to_event o]) l'
  end.

(* ---------- cleaner race.
   The window model is sequential (Model/SWindow.v); this class checks that running
   against the real cleaner goroutine does not take the code outside it.  Blocks stand
   for n consecutive Add calls; a block is live for an export when even its first sample
   cannot have expired when the export returned (ta <= tb_block + L), expired when even
   its last sample had expired when the export started (ta_block + L < tb); an export
   that meets a block in neither state is undecided and not judged. *)
Fixpoint rle_eqb (a b : list (Z * Z)) : bool :=
  match a, b with
  | [], [] => true
  | (v, n) :: a', (w, m) :: b' => (v =? w) && (n =? m) && rle_eqb a' b'
  | _, _ => false
  end.

(* observed = expected, possibly followed by k samples of the growing block, lo <= k <= hi *)
Definition rle_matches (expected observed : list (Z * Z)) (open : option (Z * Z * Z)) : bool :=
  match open with
  | None => rle_eqb expected observed
  | Some (v, lo, hi) =>
      ((lo <=? 0) && rle_eqb expected observed)
      || existsb (fun k => rle_eqb (expected ++ [(v, k)]) observed)
                 (match rev observed with (w, k) :: _ => if (w =? v) && (lo <=? k) && (k <=? hi) && (0 <? k) then [k] else [] | [] => [] end)
  end.

Definition blocks_triple (bl : list (Z * Z)) : Z * Z * Z :=
  match bl with
  | [] => (0, 0, 0)
  | (v, _) :: r =>
      (list_min v (map fst r), list_max v (map fst r),
       Z.quot (list_sum (map (fun b => fst b * snd b) bl)) (list_sum (map snd bl)))
  end.

(* the blocks of the history that are live at an export within [tb, ta]; None = undecided *)
Fixpoint live_blocks (L tb ta : Z) (past : list robs) : option (list (Z * Z)) :=
  match past with
  | [] => Some []
  | RBlock v n btb bta :: past' =>
      match live_blocks L tb ta past' with
      | None => None
      | Some r =>
          if ta <=? btb + L then Some (if 0 <? n then (v, n) :: r else r)
          else if bta + L <? tb then Some r
          else None
      end
  | _ :: past' => live_blocks L tb ta past'
  end.

Fixpoint race_spec (L : Z) (past : list robs) (l : list robs) : bool :=
  match l with
  | [] => true
  | o :: l' =>
      match o with
      | RRead tb ta obs open =>
          match live_blocks L tb ta past with
          | Some exp => rle_matches exp obs open
          | None => true
          end
      | RGet tb ta present mn mx av =>
          match live_blocks L tb ta past with
          | Some exp => present && triple_eqb (blocks_triple exp) mn mx av
          | None => true
          end
      | RBlock _ _ _ _ => true
      end && race_spec L (past ++ [o]) l'
  end.

(* the sequential model lifted to blocks: state = blocks with the expiry instants of their
   first and last sample; an export drops the leading blocks that are entirely expired *)
Fixpoint drop_blocks (tb : Z) (st : list (Z * Z * Z * Z)) : list (Z * Z * Z * Z) :=
  match st with
  | (v, n, ef, el) :: st' => if el <? tb then drop_blocks tb st' else st
  | [] => []
  end.
Definition decided (ta : Z) (st : list (Z * Z * Z * Z)) : bool :=
  forallb (fun b => let '(_, _, ef, _) := b in ta <=? ef) st.
Definition block_vals (st : list (Z * Z * Z * Z)) : list (Z * Z) :=
  flat_map (fun b => let '(v, n, _, _) := b in if 0 <? n then [(v, n)] else []) st.

Fixpoint race_model (L : Z) (st : list (Z * Z * Z * Z)) (l : list robs) : bool :=
  match l with
  | [] => true
  | RBlock v n tb ta :: l' => race_model L (st ++ [(v, n, tb + L, ta + L)]) l'
  | RRead tb ta obs open :: l' =>
      let st' := drop_blocks tb st in
      (if decided ta st' then rle_matches (block_vals st') obs open else true) && race_model L st' l'
  | RGet tb ta present mn mx av :: l' =>
      let st' := drop_blocks tb st in
      (if decided ta st' then present && triple_eqb (blocks_triple (block_vals st')) mn mx av else true)
      && race_model L st' l'
  end.

(* ---------- queries *)
Definition delta (k : ckey) (d : list (ckey * Z)) : Z := cget k d.

Fixpoint cntz (k : ckey) (l : list ckey) : Z :=
  match l with [] => 0 | x :: l' => (if key_eqb k x then 1 else 0) + cntz k l' end.

Definition incs_match (incs : list ckey) (d : list (ckey * Z)) : bool :=
  forallb (fun kv => cntz (fst kv) incs =? snd kv) d &&
  forallb (fun k => existsb (fun kv => key_eqb k (fst kv)) d) incs.

Definition log_matches (m : logcall) (o : olog) : bool :=
  match m with
  | LogSent => negb (l_failed o) && l_same_as_sent o && l_after_write o
  | LogRequest => negb (l_failed o) && l_is_request o
  | LogFailedReq => l_failed o && l_is_request o
  end.

Definition write_matches (m : wr) (o : owrite) : bool :=
  match m with
  | WrBare => (w_rcode o =? RcodeServerFailure)%N
  | WrComposed rc aa n ok =>
      (w_rcode o =? rc)%N && Bool.eqb (w_aa o) aa && (w_nans o =? n)%N && Bool.eqb (w_ok o) ok
  end.

Fixpoint forall2b {A B} (f : A -> B -> bool) (a : list A) (b : list B) : bool :=
  match a, b with
  | [], [] => true
  | x :: a', y :: b' => f x y && forall2b f a' b'
  | _, _ => false
  end.

Definition query_model (q : qclass) (o : qobs) : bool :=
  let m := serve q in
  incs_match (o_incs m) (ob_deltas o)
  && forall2b log_matches (o_logs m) (ob_logs o)
  && forall2b write_matches (o_writes m) (ob_writes o)
  && (o_ret m =? ob_ret o)%N.

Definition b2z (b : bool) : Z := if b then 1 else 0.

(* the composed response really sent: the single successful write that is not a bare SERVFAIL *)
Definition obs_sent (o : qobs) : option owrite :=
  match ob_writes o with
  | [w] => if w_ok w && negb (w_rcode w =? RcodeServerFailure)%N then Some w else None
  | _ => None
  end.

Definition is_type_key (k : ckey) : bool := match k with KType _ => true | _ => false end.

Definition loc_key (l : loc_res) (via_ecs : bool) : ckey :=
  match l with LocOk _ id0 id1 => true_loc_class via_ecs id0 id1 | _ => KLocEmpty end.

Definition query_spec (qtype : N) (handled cache_on : bool) (loc : loc_res) (o : qobs) : bool :=
  let d := ob_deltas o in
  (* the query counter exactly once; nothing twice, nothing decremented *)
  (delta KQueries d =? 1)
  && forallb (fun kv => (0 <? snd kv) && (snd kv <=? 1)) d
  (* its type counter exactly once (a query is handled iff a DB reader could be acquired) and no other *)
  && (delta (KType qtype) d =? b2z handled)
  && forallb (fun kv => match fst kv with KType t => (t =? qtype)%N | _ => true end) d
  (* at most one message written *)
  && (length (ob_writes o) <=? 1)%nat
  (* outcome counters exactly as the response sent dictates; logger exactly once with it *)
  && match obs_sent o with
     | Some w =>
         (delta KNxdomain d =? b2z (w_rcode w =? RcodeNameError)%N)
         && (delta KRefused d =? b2z (w_rcode w =? RcodeRefused)%N)
         && (delta KBadvers d =? b2z (w_rcode w =? RcodeBadVers)%N)
         && (delta KNodata d =? b2z ((w_rcode w =? RcodeSuccess)%N && (w_nans w =? 0)%N))
         && (delta KNotAuthoritative d =? b2z (negb (w_aa w)))
         && match ob_logs o with
            | [l] => negb (l_failed l) && l_same_as_sent l && l_after_write l
            | _ => false
            end
     | None =>
         (delta KNxdomain d =? 0) && (delta KRefused d =? 0) && (delta KBadvers d =? 0)
         && (delta KNodata d =? 0) && (delta KNotAuthoritative d =? 0)
         && forallb (fun l => l_failed l) (ob_logs o)
     end
  (* one location class, one cache counter (cache enabled), iff a location was found *)
  && (delta KLocEcs d + delta KLocEmpty d + delta KLocDefault d + delta KLocFallback d
      + delta KLocResolver d =? b2z (ob_located o))
  && (delta KCacheHit d + delta KCacheExpired d + delta KCacheMissed d
      =? b2z (ob_located o && cache_on))
  (* and the location counter is the one of the query's location class *)
  && (if ob_located o then delta (loc_key loc (ob_via_ecs o)) d =? 1 else true).

(* ---------- concurrent counters *)
Definition to_op (kv : ckey * Z) : cop :=
  if snd kv =? 1 then OpInc (fst kv) else OpIncBy (fst kv) (snd kv).

Definition keys_of (threads : list (list (ckey * Z))) (final : list (ckey * Z)) : list ckey :=
  map fst (concat threads) ++ map fst final.

Definition conc_model (threads : list (list (ckey * Z))) (final : list (ckey * Z)) : bool :=
  let m := fst (crun [] (map to_op (concat threads))) in
  forallb (fun k => cget k m =? cget k final) (keys_of threads final).

Fixpoint sum_key (k : ckey) (l : list (ckey * Z)) : Z :=
  match l with [] => 0 | (k', v) :: l' => (if key_eqb k k' then v else 0) + sum_key k l' end.

Fixpoint snaps_mono (keys : list ckey) (prev : list (ckey * Z)) (l : list (list (ckey * Z))) : bool :=
  match l with
  | [] => true
  | s :: l' => forallb (fun k => cget k prev <=? cget k s) keys && snaps_mono keys s l'
  end.

Definition conc_spec (threads : list (list (ckey * Z))) (exports : list (list (list (ckey * Z))))
           (final : list (ckey * Z)) : bool :=
  let keys := keys_of threads final in
  forallb (fun k => cget k final =? sum_key k (concat threads)) keys
  && forallb (fun ex => snaps_mono keys [] ex
                        && forallb (fun s => forallb (fun k => cget k s <=? cget k final) (keys ++ map fst s)) ex)
             exports.

(* ---------- the two relations *)
Definition model_ok (c : case) : bool :=
  match c with
  | CRace _ L ev => race_model L [] ev
  | CWin true L ev => monob ev && win_model L [] ev
  | CWin false L ev => monob ev && stats_model L None ev
  | CQuery q o => query_model q o
  | CConc th ex fin => conc_model th fin
  end.

Definition spec_ok (c : case) : bool :=
  match c with
  | CRace _ L ev => (0 <? L) && race_spec L [] ev
  | CWin _ L ev => monob ev && (0 <? L) && win_spec L [] ev
  | CQuery q o => query_spec (q_qtype q) (q_reader_ok q) (q_cache_on q) (q_loc q) o
  | CConc th ex fin => conc_spec th ex fin
  end.

(* what the model computes, for replay files *)
Inductive mout :=
| MQuery (o : outcome)
| MWin (state : window)
| MStats (state : wstate)
| MConc (final : cmap)
| MRace (blocks : list (Z * Z * Z * Z)).   (* (value, count, first expiry, last expiry) left at the end *)

Definition model_out (c : case) : mout :=
  match c with
  | CWin true L ev => MWin (exec L (map to_event ev))
  | CWin false L ev => MStats (sexec L (map to_event ev))
  | CQuery q _ => MQuery (serve q)
  | CConc th _ _ => MConc (fst (crun [] (map to_op (concat th))))
  | CRace _ L ev => MRace (fold_left (fun st o => match o with
                                                  | RBlock v n tb ta => st ++ [(v, n, tb + L, ta + L)]
                                                  | RRead tb _ _ _ => drop_blocks tb st
                                                  | RGet tb _ _ _ _ _ => drop_blocks tb st
                                                  end) ev [])
  end.
