(* Run/C03: evaluation of model and property on harness cases.  One case = one
   input (subnet set, or data file + query) on one backend. *)
From DnsV Require Export Base.Bytes Base.Ip Spec.Lpm Model.Rearranger Model.Location.
Open Scope N_scope.

Inductive obs :=
| OLoc (m : mapid) (l : locid) (mask scope : N)
| ONil (scope : N)
| OErr | OPanic | OFuel.

Definition obs_eqb (a b : obs) : bool :=
  match a, b with
  | OLoc m l k s, OLoc m' l' k' s' => id_eqb m m' && id_eqb l l' && (k =? k') && (s =? s')
  | ONil s, ONil s' => s =? s'
  | OErr, OErr => true
  | OPanic, OPanic => true
  | _, _ => false
  end.

(* KPV1 / KPV2: the data file preprocessed first (% lines -> ! range-point lines), the
   preprocessed text compiled to RocksDB v1 / v2: the same database is expected *)
Inductive bk := KRr | KCdb | KCdbSep | KV1 | KV2 | KPV1 | KPV2.

(* names are given as label lists; the models get the packed form *)
Record query := mkQ { q_labels : list bytes; q_ecs : bool; q_ip : option N;
                      q_fam : N; q_src : N; q_plen : N }.
Definition q_name (q : query) : bytes := pack_labels (q_labels q).
Record case := mk { c_bk : bk; c_decls : list mapdecl; c_nets : list netline; c_qs : list (query * obs) }.
Definition c_maps (c : case) : list mapline :=
  map (fun d => mkMapline (md_kind d) (pack_labels (md_name d)) (md_wild d) (md_id d)) (c_decls c).

Definition err_obs (e : N) : obs := if e =? 1 then OPanic else if e =? 2 then OErr else OFuel.

(* ---- the same subnet declared with different locations: any one of them may win *)
Definition same_block (s t : subnet) : bool := (s_addr s =? s_addr t) && (s_len s =? s_len t).
Fixpoint choices (fuel : nat) (S : list subnet) : list (list subnet) :=
  match fuel with
  | O => [S]
  | Datatypes.S f =>
      match S with
      | [] => [[]]
      | s :: S' =>
          let rest := filter (fun t => negb (same_block s t && negb (id_eqb (s_loc s) (s_loc t)))) S' in
          map (cons s) (choices f rest) ++
          (if existsb (fun t => same_block s t && negb (id_eqb (s_loc s) (s_loc t))) S' then choices f S' else [])
      end
  end.

Definition q_addr (q : query) : N := match q_ip q with Some a => a | None => 0 end.

(* ---- model *)
Fixpoint dup_key (pts : list point) : bool :=
  match pts with
  | [] => false
  | p :: r => existsb (fun q => (p_ip p =? p_ip q) && (rp_mlen p =? rp_mlen q)) r || dup_key r
  end.
Definition rr_model (pts : result (list point)) (a plen : N) : obs :=
  match pts with
  | Err e => err_obs e
  | Ok pts =>
      if dup_key pts then OErr else   (* two records under one key: the lookup reports an error *)
      match pt_locate pts (clean_mask a plen) plen with
      | Some (l, k) => OLoc (0, 0) l k 0
      | None => ONil 0
      end
  end.

Definition backend_of (b : bk) : backend :=
  match b with KCdb => BCdb false | KCdbSep => BCdb true | KV1 | KPV1 => BV1 | _ => BV2 end.

Definition db_of (b : bk) (f : dfile) : result (list kv) :=
  match b with
  | KCdb | KCdbSep => match cdb_db f with Some d => Ok d | None => Err 2 end
  | KV1 | KPV1 => rdb_db isort false f
  | _ => rdb_db isort true f
  end.

Definition db_model (b : bk) (d : result (list kv)) (q : query) : obs :=
  match d with
  | Err e => err_obs e
  | Ok d =>
      if q_ecs q then
        match ecs_location (backend_of b) d (q_name q) (q_fam q) (q_src q) (q_addr q) with
        | Err e => err_obs e
        | Ok (Some l, sc) => OLoc (l_map l) (l_loc l) (l_mask l) sc
        | Ok (None, sc) => ONil sc
        end
      else
        match resolver_location (backend_of b) d (q_name q) (q_ip q) with
        | Err e => err_obs e
        | Ok l => OLoc (l_map l) (l_loc l) (l_mask l) 0
        end
  end.

(* per query: the outcomes the model allows (several only when a subnet is declared
   twice with different locations) *)
Definition model_out (c : case) : list (list obs) :=
  match c_bk c with
  | KRr => let S := map nl_net (c_nets c) in
           let ptss := map (rearrange isort) (choices (length S) S) in
           map (fun qo => map (fun pts => rr_model pts (q_addr (fst qo)) (q_plen (fst qo))) ptss) (c_qs c)
  | b => let d := db_of b (mkDfile (c_maps c) (c_nets c)) in
         map (fun qo => [db_model b d (fst qo)]) (c_qs c)
  end.

Fixpoint all_in (os : list (query * obs)) (ms : list (list obs)) : bool :=
  match os, ms with
  | [], [] => true
  | (_, o) :: os', m :: ms' => existsb (obs_eqb o) m && all_in os' ms'
  | _, _ => false
  end.

(* correspondence: the model computes what the implementation returned *)
Definition model_ok (c : case) : bool := all_in (c_qs c) (model_out c).

(* ---- the property, through the spec *)
Definition lpm_client (S : list subnet) (a plen : N) : option (locid * N) :=
  let a' := (a / blk_size plen) * blk_size plen in
  lpm S (fam a') a' plen.

Definition spec_q (c : case) (qo : query * obs) : list obs :=
  let q := fst qo in
  match c_bk c with
  | KRr =>
      let S := map nl_net (c_nets c) in
      map (fun S' => match lpm_client S' (q_addr q) (q_plen q) with
                     | Some (l, k) => OLoc (0, 0) l k 0
                     | None => ONil 0
                     end) (choices (length S) S)
  | _ =>
      match q_ip q with
      | None => [snd qo]        (* unparsable resolver address: outside the property *)
      | Some a =>
          if q_ecs q && negb ((q_fam q =? 1) || (q_fam q =? 2)) then [snd qo] else   (* no address: outside the property *)
          let mo := map_choice (c_decls c) (if q_ecs q then 56 else 77) (q_labels q) in
          let mid := match mo with Some m => m | None => (0, 0) end in
          let S := map nl_net (filter (fun n => id_eqb (nl_map n) mid) (c_nets c)) in
          let r := lpm_client S a (q_plen q) in
          if q_ecs q then
            if id_eqb mid (0, 0) then [ONil 0]
            else match r with
                 | Some (l, k) =>
                     if id_eqb l (0, 0) then [ONil (if q_fam q =? 2 then 48 else 24)]
                     else [OLoc mid l k (if q_fam q =? 1 then k - 96 else k)]
                 | None => [ONil (if q_fam q =? 2 then 48 else 24)]
                 end
          else match r with
               | Some (l, k) => [OLoc mid l k 0]
               | None => [OLoc mid (0, 0) 0 0]
               end
      end
  end.

Definition spec_out (c : case) : list (list obs) := map (spec_q c) (c_qs c).
Definition spec_ok (c : case) : bool := all_in (c_qs c) (spec_out c).
