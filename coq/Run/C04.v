(* Run/C04: a data file and an edit of it touching only records tagged with the locations in
   [edited].  model_ok = C01's relation on both files; spec_ok = for every query whose client
   was located (by the server itself) outside the edited locations, each backend gives the same
   response before and after the edit (up to which weighted addresses were drawn). *)
From DnsV Require Export Base.Bytes Model.Store Model.LookupV1 Model.LookupV2 Model.Serve Spec.Answer Spec.Rows Run.Core.
Open Scope N_scope.

Record case := mkP { c_edited : list bytes; c_before : fcase; c_after : fcase }.
Definition model_ok (c : case) : bool := file_model_ok (c_before c) && file_model_ok (c_after c).

Definition loc_eqb (a b : locres) : bool :=
  match a, b with
  | LocErr, LocErr => true | LocNil, LocNil => true
  | LocOk x, LocOk y => bytes_eqb x y
  | _, _ => false
  end.
Definition obs_unchanged (edited : list bytes) (a b : obs) : bool :=
  match o_loc a with
  | LocOk L => if existsb (bytes_eqb L) edited then true
               else loc_eqb (o_loc a) (o_loc b) && obs_sim a b
  | _ => loc_eqb (o_loc a) (o_loc b) && obs_sim a b
  end.
Definition query_unchanged (edited : list bytes) (q q' : qcase) : bool :=
  zip_ok (obs_unchanged edited) (qc_obs q) (qc_obs q').
Definition spec_ok (c : case) : bool :=
  if f_compiled (c_before c) && f_compiled (c_after c) then
    zip_ok (query_unchanged (c_edited c)) (f_qs (c_before c)) (f_qs (c_after c))
  else true.

Definition model_out (c : case) :=
  (compile_ok (c_before c), compile_ok (c_after c),
   bad_idx (query_model_ok (c_before c)) (f_qs (c_before c)),
   bad_idx (query_model_ok (c_after c)) (f_qs (c_after c))).
