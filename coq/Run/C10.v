(* Run/C10: evaluation of the Ecs model and of the property clauses on harness cases.
   One case = one query served by one real handler (backend x cache mode). *)
From DnsV Require Import Base.Bytes Base.Ip Spec.Lpm Model.Rearranger Model.Location Model.Ecs.
Open Scope N_scope.

Record case := mk {
  c_hit : bool;                           (* DNS_cache.hit was counted during the call *)
  c_inzone : bool;                        (* the name is at or below the served zone *)
  c_map8 : mapid; c_mapM : mapid;         (* maps declared for the name (exact, then nearest wildcard); (0,0) = none *)
  c_nets8 : list subnet; c_netsM : list subnet;   (* declared subnets of those maps *)
  c_hasopt : bool; c_ver : N; c_do : bool; c_udp : N; c_opts : list wopt;   (* the query's OPT as sent *)
  c_rip : N;                              (* resolver address *)
  c_parsed : bool;                        (* dns.Msg.Unpack accepted the query *)
  c_seen : option ecs;                    (* first client-subnet option as unpacked by miekg/dns *)
  (* the reply handed to the ResponseWriter *)
  o_reply : bool; o_rcode : N; o_opt : bool; o_ver : N; o_do : bool; o_udp : N;
  o_codes : list N; o_ecs : option ecs;
  o_loc : locid;                          (* location encoded in the answer address, (0,0) if no answer *)
  (* the reply packed and unpacked again *)
  w_ok : bool; w_opt : bool; w_codes : list N; w_ecs : option ecs;
  (* Go-side longest-prefix oracle over the declared subnets: (length in 128-bit terms, location) *)
  or_e : option (N * locid); or_r : option (N * locid);
  (* what GetLocationByMap found on this backend, read off Reader.EcsLocation /
     Reader.ResolverLocation: Some (Some (location, mask length)); Some None = no
     location; None = the lookup failed *)
  rd_e : option (option (locid * N)); rd_r : option (option (locid * N)) }.

(* ---------------------------------------------------------------- helpers *)

Definition ecs_eqb (a b : ecs) : bool :=
  (e_fam a =? e_fam b) && (e_src a =? e_src b) && (e_scope a =? e_scope b) && (e_addr a =? e_addr b).
Definition oecs_eqb (a b : option ecs) : bool :=
  match a, b with
  | None, None => true
  | Some x, Some y => ecs_eqb x y
  | _, _ => false
  end.
Definition is_some {A} (o : option A) : bool := match o with Some _ => true | None => false end.
Definition implb' (a b : bool) : bool := if a then b else true.

(* ---------------------------------------------------------------- correspondence *)

Definition nets_of (c : case) (m : mapid) : list subnet :=
  if id_eqb m (0, 0) then []
  else if id_eqb m (c_map8 c) then c_nets8 c
  else if id_eqb m (c_mapM c) then c_netsM c
  else [].

(* GetLocationByMap as observed on this backend: the correspondence checked here is
   location.go + handler.go given the driver's answers; that the drivers implement
   longest-prefix match is C03's correspondence, and is checked end to end by
   [spec_ok] against the independent oracle *)
Definition gl_of (c : case) (m : mapid) (cl : client) : result (option bytes * N) :=
  let r := if negb (id_eqb m (0, 0)) && id_eqb m (c_map8 c) then rd_e c else rd_r c in
  match r with
  | None => Err 2
  | Some (Some (loc, l)) => Ok (Some (loc_bytes loc), l)
  | Some None => Ok (None, 0)
  end.

(* the Coq spec function lpm agrees with the Go oracle on the declared subnets *)
Definition lpm_res (r : option (locid * N)) : option (N * locid) :=
  match r with Some (loc, l) => Some (l, loc) | None => None end.
Definition or_eqb (a b : option (N * locid)) : bool :=
  match a, b with
  | None, None => true
  | Some (l1, x1), Some (l2, x2) => (l1 =? l2) && id_eqb x1 x2
  | _, _ => false
  end.
Definition ecs_fam_of (s : ecs) : family :=
  if is_v4 (e_addr s) && (96 <=? (if e_fam s =? 1 then 96 + e_src s else e_src s)) then V4 else V6.
Definition oracle_ok (c : case) : bool :=
  or_eqb (lpm_res (lpm (c_netsM c) (fam (c_rip c)) (c_rip c) 128)) (or_r c) &&
  match c_seen c with
  | Some s =>
      if (e_fam s =? 1) || (e_fam s =? 2) then
        or_eqb (lpm_res (lpm (c_nets8 c) (ecs_fam_of s) (e_addr s) (if e_fam s =? 1 then 96 + e_src s else e_src s))) (or_e c)
      else true
  | None => true
  end.

(* rcodes of answers are outside the model: taken from the observation *)
Definition env_of (c : case) : env :=
  mkEnv (fun _ => if c_hit c then Some (o_rcode c) else None)
        (fun _ => if c_inzone c then Served (o_rcode c) else NotServed).

Definition query_of (c : case) : option query :=
  if c_hasopt c then
    match unpack_opts (c_opts c) with
    | Some os => Some (mkQuery (Some (mkEdns (c_ver c) (c_do c) (c_udp c) os)) (Some (c_rip c)))
    | None => None
    end
  else Some (mkQuery None (Some (c_rip c))).

Definition model_out (c : case) : option outcome :=
  match query_of c with
  | None => None
  | Some q => Some (serve (fm_of (c_map8 c)) (fm_of (c_mapM c)) (gl_of c) (env_of c) q)
  end.

Definition answers (c : case) : bool :=
  c_inzone c && (c_ver c =? 0) && ((o_rcode c =? 0) || (o_rcode c =? 3)).

Definition model_ok (c : case) : bool :=
  match query_of c with
  | None => negb (c_parsed c)
  | Some q =>
      c_parsed c && oecs_eqb (query_ecs q) (c_seen c) && oracle_ok c &&
      match serve (fm_of (c_map8 c)) (fm_of (c_mapM c)) (gl_of c) (env_of c) q with
      | NoReply => negb (o_reply c)
      | Reply r =>
          o_reply c && (r_rcode r =? o_rcode c) &&
          match r_edns r with
          | None => negb (o_opt c) && implb' (w_ok c) (negb (w_opt c))
          | Some o =>
              o_opt c && (ed_ver o =? o_ver c) && Bool.eqb (ed_do o) (o_do c) && (ed_udp o =? o_udp c) &&
              bytes_eqb (map opt_code (ed_opts o)) (o_codes c) &&
              oecs_eqb (find_ecs (ed_opts o)) (o_ecs c) &&
              (* wire view *)
              match find_ecs (ed_opts o) with
              | None => w_ok c && w_opt c && bytes_eqb (w_codes c) (o_codes c) && negb (is_some (w_ecs c))
              | Some e =>
                  match wire_view e with
                  | None => negb (w_ok c)
                  | Some we => w_ok c && w_opt c && bytes_eqb (w_codes c) (o_codes c) && oecs_eqb (Some we) (w_ecs c)
                  end
              end
          end &&
          implb' (answers c) (id_eqb (r_loc r) (o_loc c))
      end
  end.

(* ---------------------------------------------------------------- the property, clause by clause *)

(* the client's own prefix: length in 128-bit terms; 'address unchanged' on the wire
   means: equal to the query's address cut to its source prefix length (a well-formed
   option has no bits beyond it; EDNS0_SUBNET.pack zeroes them otherwise) *)
Definition client_plen (s : ecs) : N := if e_fam s =? 1 then 96 + e_src s else e_src s.

Definition count8 (l : list N) : nat := length (filter (fun x => x =? 8) l).

Definition spec_opt_iff (c : case) : bool :=
  Bool.eqb (o_opt c) (c_hasopt c) && w_ok c && Bool.eqb (w_opt c) (c_hasopt c).

Definition spec_ecs_iff_unchanged (c : case) : bool :=
  match c_seen c, o_ecs c with
  | None, None => (count8 (o_codes c) =? 0)%nat && negb (is_some (w_ecs c))
  | Some s, Some e =>
      (count8 (o_codes c) =? 1)%nat &&
      (e_fam e =? e_fam s) && (e_src e =? e_src s) && (e_addr e =? e_addr s) &&
      match w_ecs c with
      | Some w => (e_fam w =? e_fam s) && (e_src w =? e_src s) && (e_scope w =? e_scope e) &&
                  (e_addr w =? (if (e_fam s =? 1) || (e_fam s =? 2) then clean_mask (e_addr s) (client_plen s) else e_addr s))
      | None => false
      end
  | _, _ => false
  end.

Definition spec_scope (c : case) : bool :=
  match c_seen c, o_ecs c with
  | Some s, Some e =>
      let dflt := if e_fam s =? 2 then 48 else 24 in
      let expected :=
        if negb ((e_fam s =? 1) || (e_fam s =? 2)) then Some 0
        else if id_eqb (c_map8 c) (0, 0) then Some 0
        else match or_e c with
             | Some (len, loc) =>
                 if id_eqb loc (0, 0) then Some dflt
                 else if e_fam s =? 1 then (if (96 <=? len) && (len <=? 128) then Some (len - 96) else None)
                 else (if len <=? 128 then Some len else None)
             | None => Some dflt
             end in
      match expected with
      | Some x => (e_scope e =? x) && (if e_fam s =? 1 then x <=? 32 else x <=? 128)
      | None => false
      end
  | _, _ => true
  end.

Definition spec_fallback (c : case) : bool :=
  implb' (answers c)
    (let res := match or_r c with Some (_, loc) => loc | None => (0, 0) end in
     let expected :=
       match c_seen c with
       | Some s =>
           if ((e_fam s =? 1) || (e_fam s =? 2)) && negb (id_eqb (c_map8 c) (0, 0)) then
             match or_e c with
             | Some (_, loc) => if id_eqb loc (0, 0) then res else loc
             | None => res
             end
           else res
       | None => res
       end in
     id_eqb (o_loc c) expected).

Definition spec_ok (c : case) : bool :=
  if negb (c_parsed c) then true
  else o_reply c && spec_opt_iff c && spec_ecs_iff_unchanged c &&
       implb' (c_ver c =? 0) (spec_scope c) && spec_fallback c.
