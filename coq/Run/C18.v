(* Run/C18: evaluation of model and property on harness cases.
   Every input is emitted twice by the harness: kind KWire (acceptance, wire data, decoders,
   record row) and kind KRt (printing the stored list and parsing the print again). *)
From Coq Require Export Uint63.
From DnsV Require Export Model.Svcb Spec.SvcbWire.
Open Scope N_scope.

(* Transport encoding of byte strings in the generated case files: seven bytes per
   63-bit machine integer, least significant byte first, a 1 above the last byte
   (a list literal of N numerals costs about 25 times more to elaborate).  Used only
   to write the harness observations down; model and specification work on [bytes]. *)
Fixpoint unw (fuel : nat) (w : int) : bytes :=
  match fuel with
  | O => []
  | S f => if (w <=? 1)%uint63 then []
           else Z.to_N (Uint63.to_Z (w land 255)%uint63) :: unw f (w >> 8)%uint63
  end.
Definition bs (l : list int) : bytes := flat_map (unw 7) l.
(* n copies of a pattern, for the inputs at the 16-bit length limit *)
Definition rp (n : N) (p : bytes) : bytes := concat (repeat p (N.to_nat n)).

Inductive kind := KWire | KRt.

Record recobs := mkRec {
  rtype : N; rttl : N; rprio : N; rtarget : bytes;   (* fields of the H / B line *)
  rwild : bool;                                       (* owner written as *.example.com *)
  rerr : bool;                                        (* ConvertLn returned an error *)
  rrow : bytes }.                                     (* value of the single row *)

Record case := mk {
  ckind : kind;
  ctext : bytes;                           (* the parameter text *)
  cparse : list (bytes * option bytes);    (* observed net.ParseIP on the tokens that occur *)
  cprint : list (bytes * bytes);           (* observed net.IP.String on the stored addresses *)
  cb64d : list (bytes * option bytes);     (* observed base64 Decode *)
  cb64e : list (bytes * bytes);            (* observed base64 Encode *)
  cft : N;                                 (* FromText: 0 accepted, else error number *)
  cwire : bytes;                           (* ToWire *)
  ctt : N;                                 (* ToText: 0 returned, 1 panicked, 2 not run *)
  ctxt : bytes;                            (* ToText output *)
  crp : N;                                 (* FromText of ctxt: 0 accepted, else error number *)
  cwire2 : bytes;                          (* ToWire of the reparsed list *)
  cmk : N;                                 (* miekg/dns unpack of the RDATA: 0 ok, 1 refused, 2 not run *)
  cmkv : list sval;                        (* what miekg decoded *)
  cdecl : option (list sval);              (* what the generator meant to declare (structured cases) *)
  crec : option recobs }.

Fixpoint assoc {B} (l : list (bytes * B)) (k : bytes) (d : B) : B :=
  match l with [] => d | (k', v) :: t => if bytes_eqb k k' then v else assoc t k d end.

Definition orc_of (c : case) : oracles :=
  mkO (fun s => assoc (cparse c) s None) (fun a => assoc (cprint c) a [])
      (fun s => assoc (cb64d c) s None) (fun a => assoc (cb64e c) a []).

(* ---------------------------------------------------------------- correspondence *)
Definition rec_model_ok (c : case) (r : result (list param)) : bool :=
  match crec c with
  | None => true
  | Some o =>
    match r with
    | Err _ => rerr o
    | Ok l => negb (rerr o)
              && bytes_eqb (svcb_row (rtype o) (rttl o) (rprio o) (rwild o) (rtarget o) l) (rrow o)
    end
  end.

Definition model_ok (c : case) : bool :=
  let O := orc_of c in
  let r := from_text O (ctext c) in
  match ckind c with
  | KWire =>
    rec_model_ok c r &&
    match r with
    | Err e => (cft c =? e) && negb (e =? 0)
    | Ok l => (cft c =? 0) && bytes_eqb (to_wire l) (cwire c)
    end
  | KRt =>
    match r with
    | Err e => (cft c =? e) && negb (e =? 0)
    | Ok l =>
      (cft c =? 0) &&
      match to_text O l with
      | Err e => if e =? E_OOR then negb (ctt c =? 2) else ctt c =? 1
      | Ok s =>
        (ctt c =? 0) && bytes_eqb s (ctxt c) &&
        match from_text O s with
        | Err e => (crp c =? e) && negb (e =? 0)
        | Ok l2 => (crp c =? 0) && bytes_eqb (to_wire l2) (cwire2 c)
        end
      end
    end
  end.

Definition model_out (c : case) :=
  let O := orc_of c in
  let r := from_text O (ctext c) in
  (r, match r with Ok l => Some (to_wire l, to_text O l,
                                 match to_text O l with Ok s => Some (from_text O s) | Err _ => None end)
              | Err _ => None end).

(* ---------------------------------------------------------------- the property *)
(* RDATA part of a row: skip type2 ch1 ttl4 ttd8, read priority and the target name *)
Fixpoint skip_name (fuel : nat) (s : bytes) : option bytes :=
  match s with
  | [] => None
  | n :: t =>
    if n =? 0 then Some t
    else match fuel with O => None | S f => skip_name f (skipn (N.to_nat n) t) end
  end.
Definition row_params (row : bytes) : option (N * bytes) :=
  match skipn 15 row with
  | a :: b :: t => match skip_name (length t) t with Some p => Some (a * 256 + b, p) | None => None end
  | _ => None
  end.

Definition is_mapped16 (a : bytes) : bool := bytes_eqb (firstn 12 a) v4_prefix.
Definition has_mapped6 (d : list sval) : bool :=
  existsb (fun v => match v with VIp6 a => existsb is_mapped16 a | _ => false end) d.
Definition dup_keys_b (d : list sval) : bool := negb (nodup_b (map key_of d)).

Definition spec_ok (c : case) : bool :=
  let pip := fun s => assoc (cparse c) s None in
  let b64 := fun s => assoc (cb64d c) s None in
  (* a declared list whose mandatory parameter names a missing key, repeats a key or names
     itself (or that repeats a parameter key) is rejected *)
  (match cdecl c with
   | Some g => if mand_bad_b g || dup_keys_b g then negb (cft c =? 0) else true
   | None => true
   end) &&
  (if cft c =? 0 then
     match ckind c with
     | KWire =>
       match rfc_decode (cwire c) with
       | None => false
       | Some d =>
         (* the independent decoder recovers the declared keys and values ... *)
         (match declared pip b64 (ctext c) with Some d' => svals_eqb d d' | None => false end)
         && (match cdecl c with Some g => svals_eqb d (canon g) | None => true end)
         (* ... and so does miekg/dns, which in addition refuses v4-mapped ipv6 hints *)
         && (if cmk c =? 0 then svals_eqb d (cmkv c) else if cmk c =? 1 then has_mapped6 d else true)
         && (match crec c with
             | Some o => negb (rerr o) &&
                         match row_params (rrow o) with
                         | Some (p, w) => (p =? rprio o) && bytes_eqb w (cwire c)
                         | None => false
                         end
             | None => true
             end)
       end
     | KRt => (ctt c =? 0) && (crp c =? 0) && bytes_eqb (cwire2 c) (cwire c)
     end
   else true).
