(* Run/C20: evaluation of the chain model and of the property on harness cases.
   One case = one message sent to one listener of a running server over UDP or TCP,
   with the reply read from the socket, the message the bare database handler
   writes for the same request (same transport semantics, the listener's max
   answer), for UDP also the bare handler's message with TCP semantics (before
   truncation) with the length table Truncate works on, and whether the server
   still answered afterwards. *)
From DnsV Require Export Base.Bytes Model.Chain.
Open Scope N_scope.

Record sizes := mkSz { sz_ulen : N; sz_base : N; sz_opt : N; sz_inc : list N }.
Record obs := mkObs { o_msg : msg; o_wire : N }.
Record case := mk {
  c_cfg : config; c_env : env; c_req : msg;
  c_multi : bool;                      (* A/AAAA answers are a random choice among more addresses *)
  c_reply : option obs;                (* None: nothing came back *)
  c_bare : option obs;                 (* None: the handler wrote nothing *)
  c_full : option (obs * sizes);       (* UDP cases *)
  c_self : option sizes;               (* length table of the transport reply itself *)
  c_nwrites : N;                       (* messages the bare handler handed to its ResponseWriter *)
  c_extra : N;                         (* messages that arrived after the reply on the same socket *)
  c_alive : bool }.

(* ---------------------------------------------------------------- comparisons *)
Definition q_eqb (a b : question) : bool :=
  bytes_eqb (qname a) (qname b) && (qtype a =? qtype b) && (qclass a =? qclass b).
Definition rr_eqb (a b : rr) : bool :=
  bytes_eqb (rname a) (rname b) && (rtype a =? rtype b) && (rclass a =? rclass b) &&
  (rttl a =? rttl b) && bytes_eqb (rdata a) (rdata b).
Definition hdr_eqb (a b : header) : bool :=
  (hid a =? hid b) && Bool.eqb (hqr a) (hqr b) && (hopcode a =? hopcode b) && Bool.eqb (haa a) (haa b) &&
  Bool.eqb (htc a) (htc b) && Bool.eqb (hrd a) (hrd b) && Bool.eqb (hra a) (hra b) && Bool.eqb (hz a) (hz b) &&
  Bool.eqb (had a) (had b) && Bool.eqb (hcd a) (hcd b) && (hrcode a =? hrcode b).
Fixpoint list_eqb {A} (f : A -> A -> bool) (a b : list A) : bool :=
  match a, b with
  | [], [] => true
  | x :: a', y :: b' => f x y && list_eqb f a' b'
  | _, _ => false
  end.
(* owner names compare without regard to letter case (DNS names; a cached or
   compressed owner may come back in another case than the question's) *)
Definition rr_eqv (a b : rr) : bool :=
  bytes_eqb (lower (rname a)) (lower (rname b)) && (rtype a =? rtype b) && (rclass a =? rclass b) &&
  (rttl a =? rttl b) && bytes_eqb (rdata a) (rdata b).
Fixpoint remove_one (r : rr) (l : list rr) : option (list rr) :=
  match l with
  | [] => None
  | x :: t => if rr_eqv r x then Some t else option_map (cons x) (remove_one r t)
  end.
(* equal as multisets *)
Fixpoint perm_eqb (a b : list rr) : bool :=
  match a with
  | [] => match b with [] => true | _ => false end
  | x :: a' => match remove_one x b with Some b' => perm_eqb a' b' | None => false end
  end.
Definition mask_addr (multi : bool) (r : rr) : rr :=
  if multi && ((rtype r =? 1) || (rtype r =? 28)) then mkRR (rname r) (rtype r) (rclass r) (rttl r) [] else r.
(* same header, same question section (exact, in order), same records per section
   as multisets of (lower-cased owner, type, class, ttl, rdata) *)
Definition msg_eqv (multi : bool) (a b : msg) : bool :=
  hdr_eqb (mh a) (mh b) && list_eqb q_eqb (mq a) (mq b) &&
  perm_eqb (map (mask_addr multi) (man a)) (map (mask_addr multi) (man b)) &&
  perm_eqb (mns a) (mns b) && perm_eqb (mex a) (mex b).

(* ---------------------------------------------------------------- the length table as size functions *)
Definition zero_sizes := mkSz 0 0 0 [].
Definition t_ulen (s : sizes) (_ : msg) : N := sz_ulen s.
Definition t_base (s : sizes) (_ : msg) : N := sz_base s.
Definition t_rlen (s : sizes) (ctx : list rr) (_ : rr) : N := nth (length ctx) (sz_inc s) 0.
Definition t_optlen (s : sizes) (_ : rr) : N := sz_opt s.

Definition serve_const (b : option obs) : N -> env -> msg -> outcome :=
  fun _ _ _ => match b with Some o => Reply (o_msg o) | None => NoReply end.

Definition model_out (c : case) : outcome :=
  let s := match c_self c with Some s => s | None => zero_sizes end in
  server (t_ulen s) (t_base s) (t_rlen s) (t_optlen s) (serve_const (c_bare c)) (c_cfg c) (c_env c) (c_req c).

(* does the model send this request to the database handler? *)
Definition db_path (c : case) : bool :=
  accepted (c_cfg c) (c_req c) &&
  match mq (c_req c) with
  | [] => false
  | q :: _ => negb (any_refused (c_cfg c) q) && negb (whoami_matched (c_cfg c) q)
  end.

(* correspondence: the chain model, with the bare handler's message as the value of
   [serve], computes the transport reply; and the truncation model applied to the
   untruncated bare message with its length table computes the UDP reply *)
Definition model_ok (c : case) : bool :=
  match model_out c, c_reply c with
  | Panic, None => negb (c_alive c)
  | NoReply, None => c_alive c
  | Reply m, Some o =>
      (* the model's outcome is ONE reply: a second message on the socket is a break *)
      c_alive c && (c_extra c =? 0) && msg_eqv (c_multi c) m (o_msg o) &&
      (if db_path c then
         match c_bare c with Some b => o_wire b =? o_wire o | None => false end &&
         match c_full c with
         | Some (f, s) =>
             msg_eqv (c_multi c)
               (scrub (t_ulen s) (t_base s) (t_rlen s) (t_optlen s) (c_env c) (c_req c) (o_msg f)) (o_msg o)
         | None => true
         end
       else true)
  | _, _ => false
  end.

(* ---------------------------------------------------------------- the property, on the observations *)
Definition spec_accepts (cfg : config) (r : msg) : bool :=
  match accept cfg with
  | AcceptAll => true
  | AcceptDefault =>
      negb (hqr (mh r)) && ((hopcode (mh r) =? 0) || (hopcode (mh r) =? 4)) && (nlen (mq r) =? 1) &&
      (nlen (man r) <=? 1) && (nlen (mns r) <=? 1) && (nlen (mex r) <=? 2)
  end.

Definition is_failure (rc : N) : bool := (rc =? 1) || (rc =? 2) || (rc =? 4).
Definition no_records (m : msg) : bool :=
  match man m, mns m, mex m with [], [], [] => true | _, _, _ => false end.
Definition failure_reply (r m : msg) : bool :=
  hqr (mh m) && (hid (mh m) =? hid (mh r)) && is_failure (hrcode (mh m)) && no_records m.

Definition spec_hinfo (r : msg) (q : question) (m : msg) : bool :=
  hqr (mh m) && (hid (mh m) =? hid (mh r)) && (hrcode (mh m) =? 0) && negb (htc (mh m)) &&
  list_eqb q_eqb (mq m) [q] &&
  list_eqb rr_eqb (man m) [mkRR (qname q) 13 1 86400 [8; 82; 70; 67; 32; 56; 52; 56; 50; 0]] &&
  match mns m, mex m with [], [] => true | _, _ => false end.

Definition add_dot (s : bytes) : bytes := match rev s with 46 :: _ => s | _ => s ++ [46] end.
Definition spec_whoami_name (cfg : config) (q : question) : bool :=
  match whoami_flag cfg with
  | [] => false
  | d => bytes_eqb (lower (qname q)) (lower (add_dot d))
  end.
Definition cluster_rdata : bytes := 20 :: [99;108;117;115;116;101;114;32;110;111;116;97;118;97;105;108;97;98;108;101].
Definition spec_whoami_reply (e : env) (r : msg) (q : question) (m : msg) : bool :=
  hqr (mh m) && (hid (mh m) =? hid (mh r)) && (hrcode (mh m) =? 0) && haa (mh m) &&
  list_eqb q_eqb (mq m) [q] &&
  forallb (fun x => (rtype x =? 16) && bytes_eqb (rname x) (qname q) && (rttl x =? 0)) (man m) &&
  (if qtype q =? 16
   then (htc (mh m) || Nat.eqb (length (man m)) (4 + match ecs_str e with Some _ => 1 | None => 0 end)) &&
        match man m with x :: _ => bytes_eqb (rdata x) cluster_rdata | [] => htc (mh m) end
   else match man m with [] => true | _ => false end) &&
  match mns m with [] => true | _ => false end &&
  forallb (fun x => rtype x =? 41) (mex m).

Definition udp_size (r : msg) : N :=
  let s := match last_opt (mex r) with Some o => rclass o | None => 0 end in
  if s <? 512 then 512 else s.

Definition spec_ordinary (c : case) : bool :=
  match c_reply c, c_bare c with
  | None, None => true
  | Some o, Some b =>
      msg_eqv (c_multi c) (o_msg o) (o_msg b) && (o_wire o =? o_wire b) &&
      match proto (c_env c) with
      | Tcp => negb (htc (mh (o_msg o)))
      | Udp =>
          (o_wire o <=? udp_size (c_req c)) &&
          match c_full c with
          | Some (f, _) => msg_eqv (c_multi c) (o_msg o) (o_msg f) || htc (mh (o_msg o))
          | None => false
          end
      end
  | _, _ => false
  end.

(* every reply that comes back over UDP, whichever handler wrote it, is no longer
   than the size the client advertised (512 without EDNS or below 512) *)
Definition spec_udp_fits (c : case) : bool :=
  match proto (c_env c), c_reply c with
  | Udp, Some o => o_wire o <=? udp_size (c_req c)
  | _, _ => true
  end.

(* one query, at most one message: nothing follows the reply on the connection, and
   the database handler hands exactly one message to its writer when it answers *)
Definition spec_one_message (c : case) : bool :=
  (c_extra c =? 0) &&
  match c_bare c with Some _ => c_nwrites c =? 1 | None => c_nwrites c =? 0 end.

Definition spec_ok (c : case) : bool :=
  let cfg := c_cfg c in
  let r := c_req c in
  c_alive c && spec_udp_fits c && spec_one_message c &&
  if negb (spec_accepts cfg r) then
    match c_reply c with
    | None => hqr (mh r)
    | Some o => negb (hqr (mh r)) && failure_reply r (o_msg o)
    end
  else
    match mq r with
    | [] => match c_reply c with Some o => failure_reply r (o_msg o) | None => false end
    | q :: _ =>
        if refuse_any cfg && (qtype q =? 255) then
          match c_reply c with Some o => spec_hinfo r q (o_msg o) | None => false end
        else if spec_whoami_name cfg q then
          match c_reply c with Some o => spec_whoami_reply (c_env c) r q (o_msg o) | None => false end
        else spec_ordinary c
    end.
