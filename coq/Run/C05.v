(* Run/C05: a schedule replayed by the harness against the real handler is replayed on
   the model (correspondence), and the observations are checked against the property
   through a short specification that does not use the model.  Shared by C12. *)
From DnsV Require Import Base.Bytes Model.Reload.
Open Scope N_scope.

(* ------------------------------------------------------------ case *)
Record shape := mkShape { sh_refused : bool; sh_weighted : bool; sh_ans : bool; sh_extra : bool }.

Inductive tkind := KQ | KR | KE.
(* one thread of the case, in harness order: kind and its index among the threads of that kind *)
Record thread := mkT { t_kind : tkind; t_idx : nat }.

Record qobs := mkQO { o_done : bool; o_ans : list N; o_extra : list N; o_hit : bool }.

(* yield points as numbers: queries 1 acquired 2 located 3 cache_checked 4 auth_checked 5 answered
   6 before_cache_insert 7 before_write; reloads 11 reload_locked 12 reload_done 13 reload_swapped
   14 reload_purged; 99 done; 0 none (blocked) *)
Record ostep := mkO { s_t : nat; s_blocked : bool; s_point : N }.

Record case := mkCase {
  k_cfg : config;
  k_shapes : list (N * shape);     (* cache key -> shape of the answer *)
  k_disk : disk;
  k_p0 : N;
  k_threads : list thread;
  k_steps : list ostep;            (* effective schedule observed by the harness *)
  k_qobs : list qobs;              (* per query, in c_qs order *)
  k_robs : list N;                 (* per reload: 0 unfinished 1 ok 2 nokey 3 timeout 4 other error *)
  k_err : bool                     (* harness error (deadlock, failed environment step) *)
}.

Fixpoint shape_of (l : list (N * shape)) (k : N) : shape :=
  match l with
  | [] => mkShape false false false false
  | (k', s) :: l' => if k' =? k then s else shape_of l' k
  end.

Definition refusedf (c : case) (_ k : N) : bool := sh_refused (shape_of (k_shapes c) k).
Definition weightedf (c : case) (_ k : N) : bool := sh_weighted (shape_of (k_shapes c) k).

Definition tid_of (c : case) (n : nat) : option tid :=
  match nth_error (k_threads c) n with
  | Some (mkT KQ i) => Some (TQ i)
  | Some (mkT KR i) => Some (TR i)
  | Some (mkT KE i) => Some (TE i)
  | None => None
  end.

(* ------------------------------------------------------------ macro steps *)
Definition q_yield (pc : qpc) : bool :=
  match pc with QRLocked | QPinned | QHitWrite | QStart => false | _ => true end.
Definition r_yield (pc : rpc) : bool :=
  match pc with RLocked | RReloaded | RSwapped | RPurged | RDone _ => true | _ => false end.

Definition at_yield (st : state) (t : tid) : bool :=
  match t with
  | TQ j => match nth_error (st_qs st) j with Some q => q_yield (q_pc q) | None => true end
  | TR i => match nth_error (st_rs st) i with Some r => r_yield (r_pc r) | None => true end
  | _ => true
  end.

(* run thread t from its yield point to its next one; None = first action not enabled, or out of fuel *)
Fixpoint macro (c : case) (fuel : nat) (st : state) (t : tid) : option state :=
  match fuel with
  | O => None
  | S f =>
      match step (refusedf c) (weightedf c) (k_cfg c) st t with
      | None => None
      | Some st' => if at_yield st' t then Some st' else macro c f st' t
      end
  end.

(* the harness lets the goroutine of a timed-out db.Reload finish before the reload thread
   reports done: its late catch-up (if any) happens right there *)
Definition after_hook (c : case) (st : state) (t : tid) : state :=
  match t with
  | TR i =>
      match nth_error (st_rs st) i with
      | Some r => match r_pc r with
                  | RDone (Some FTimeout) => step_or_skip (refusedf c) (weightedf c) (k_cfg c) st (TL i)
                  | _ => st
                  end
      | None => st
      end
  | _ => st
  end.

Definition point_of (st : state) (t : tid) : N :=
  match t with
  | TQ j => match nth_error (st_qs st) j with
            | Some q => match q_pc q with
                        | QAcq => 1 | QLocated => 2 | QChecked => 3 | QAuth => 4 | QAnswered => 5
                        | QBeforeInsert => 6 | QBeforeWrite => 7 | QDone => 99 | _ => 0 end
            | None => 0 end
  | TR i => match nth_error (st_rs st) i with
            | Some r => match r_pc r with
                        | RLocked => 11 | RReloaded => 12 | RSwapped => 13 | RPurged => 14 | RDone _ => 99
                        | _ => 0 end
            | None => 0 end
  | _ => 99
  end.

(* replays the observed steps; false as soon as the model disagrees on enabledness or yield point *)
Fixpoint replay (c : case) (st : state) (l : list ostep) : option state :=
  match l with
  | [] => Some st
  | o :: l' =>
      match tid_of c (s_t o) with
      | None => None
      | Some t =>
          if s_blocked o then
            match step (refusedf c) (weightedf c) (k_cfg c) st t with
            | None => replay c st l'
            | Some _ => None          (* the implementation blocked where the model can move *)
            end
          else
            match macro c 8 st t with
            | None => None
            | Some st' => if point_of st' t =? s_point o then replay c (after_hook c st' t) l' else None
            end
      end
  end.

Definition stamps_of (sh : shape) (reads : list gen) : list N * list N :=
  match reads with
  | [_; _; a; e] => ((if sh_ans sh then [g_stamp a] else []), (if sh_extra sh then [g_stamp e] else []))
  | _ => ([], [])
  end.

Fixpoint list_eqb (a b : list N) : bool :=
  match a, b with
  | [], [] => true
  | x :: a', y :: b' => (x =? y) && list_eqb a' b'
  | _, _ => false
  end.

Definition q_matches (c : case) (q : qstate) (qs : qspec) (o : qobs) : bool :=
  match q_resp q with
  | None => negb (o_done o)
  | Some reads =>
      let (a, e) := stamps_of (shape_of (k_shapes c) (qs_key qs)) reads in
      o_done o && list_eqb a (o_ans o) && list_eqb e (o_extra o) && Bool.eqb (q_cached q) (o_hit o)
  end.

Definition r_matches (r : rstate) (o : N) : bool :=
  match r_pc r with
  | RDone None => o =? 1
  | RDone (Some FNoKey) => o =? 2
  | RDone (Some FTimeout) => o =? 3
  | RDone (Some _) => o =? 4
  | _ => o =? 0
  end.

Fixpoint all3 {A B C} (f : A -> B -> C -> bool) (a : list A) (b : list B) (c : list C) : bool :=
  match a, b, c with
  | [], [], [] => true
  | x :: a', y :: b', z :: c' => f x y z && all3 f a' b' c'
  | _, _, _ => false
  end.
Fixpoint all2 {A B} (f : A -> B -> bool) (a : list A) (b : list B) : bool :=
  match a, b with
  | [], [] => true
  | x :: a', y :: b' => f x y && all2 f a' b'
  | _, _ => false
  end.

Definition model_final (c : case) : option state :=
  replay c (init (k_cfg c) (k_disk c) (k_p0 c)) (k_steps c).

(* correspondence: the model, run on the schedule the harness observed, blocks where the
   implementation blocked, stops at the same yield points, and predicts the stamps of every
   response, the cache hits and the result of every Reload *)
Definition model_ok (c : case) : bool :=
  negb (k_err c) &&
  match model_final c with
  | None => false
  | Some st =>
      all3 (q_matches c) (st_qs st) (c_qs (k_cfg c)) (k_qobs c) &&
      all2 r_matches (st_rs st) (k_robs c)
  end.

(* what the model predicts, for replay files *)
Definition model_out (c : case) : option (list (option (list gen) * bool) * list rpc) :=
  match model_final c with
  | None => None
  | Some st => Some (map (fun q => (q_resp q, q_cached q)) (st_qs st), map r_pc (st_rs st))
  end.

(* ------------------------------------------------------------ specification on observations *)
(* Everything below uses only: the threads (kind, client, full/partial target), the initial disk,
   the environment steps, the order of the observed steps, Reload's return values and the stamps in
   the responses. *)

Fixpoint index_from {A} (n : N) (l : list A) : list (N * A) :=
  match l with [] => [] | x :: l' => (n, x) :: index_from (n + 1) l' end.

Definition steps_ix (c : case) : list (N * ostep) := index_from 1 (k_steps c).

(* first / last non-blocked step of harness thread n *)
Definition first_step (c : case) (n : nat) : option N :=
  match filter (fun p => Nat.eqb (s_t (snd p)) n && negb (s_blocked (snd p))) (steps_ix c) with
  | (i, _) :: _ => Some i
  | [] => None
  end.
Definition done_step (c : case) (n : nat) : option N :=
  match filter (fun p => Nat.eqb (s_t (snd p)) n && negb (s_blocked (snd p)) && (s_point (snd p) =? 99)) (steps_ix c) with
  | (i, _) :: _ => Some i
  | [] => None
  end.
(* the step in which db.Reload ran: the second non-blocked step of a reload thread *)
Definition open_step (c : case) (n : nat) : option N :=
  match filter (fun p => Nat.eqb (s_t (snd p)) n && negb (s_blocked (snd p))) (steps_ix c) with
  | _ :: (i, _) :: _ => Some i
  | _ => None
  end.

(* harness thread numbers of the threads of one kind, in order *)
Fixpoint threads_of (k : tkind) (n : nat) (l : list thread) : list nat :=
  match l with
  | [] => []
  | t :: l' =>
      let rest := threads_of k (S n) l' in
      match t_kind t, k with
      | KQ, KQ | KR, KR | KE, KE => n :: rest
      | _, _ => rest
      end
  end.

(* the disk as it was just before step number i: environment steps done earlier shadow the initial disk *)
Definition disk_at (c : case) (i : N) : disk :=
  fold_left (fun d (ne : nat * espec) =>
               match done_step c (fst ne) with
               | Some k => if k <? i then (es_path (snd ne), es_file (snd ne)) :: d else d
               | None => d
               end)
            (combine (threads_of KE 0 (k_threads c)) (c_es (k_cfg c)))
            (k_disk c).
(* environment steps are applied in the order of their step numbers: the fold above would apply
   them in thread order, so the generator never updates one path twice (checked by env_ok) *)
Fixpoint nodupN (l : list N) : bool :=
  match l with [] => true | x :: l' => negb (existsb (N.eqb x) l') && nodupN l' end.
Definition env_ok (c : case) : bool := nodupN (map es_path (c_es (k_cfg c))).

(* a successful reload: harness thread n, lock step, done step, path it switched to, stamp installed *)
Record install := mkI { i_lock : N; i_done : N; i_full : bool; i_path : N; i_stamp : N }.

(* successful reloads in the order in which they returned, each with the path it acted on
   (a partial reload acts on the path of the last successful full reload before it, or the
   initial path) and the stamp that path held on disk when db.Reload ran *)
Definition reload_rows (c : case) : list (N * (nat * rkind)) :=
  (* (done step, (harness thread, kind)) of the reloads that returned nil *)
  flat_map (fun x : nat * (rkind * N) =>
              let '(n, (kind, res)) := x in
              if res =? 1 then match done_step c n with Some dn => [(dn, (n, kind))] | None => [] end else [])
           (combine (threads_of KR 0 (k_threads c)) (combine (c_rs (k_cfg c)) (k_robs c))).

Fixpoint insert_row (r : N * (nat * rkind)) (l : list (N * (nat * rkind))) :=
  match l with
  | [] => [r]
  | x :: l' => if fst r <? fst x then r :: x :: l' else x :: insert_row r l'
  end.
Definition sort_rows (l : list (N * (nat * rkind))) := fold_right insert_row [] l.

Fixpoint installs_from (c : case) (cur : N) (rows : list (N * (nat * rkind))) : list install :=
  match rows with
  | [] => []
  | (dn, (n, kind)) :: rows' =>
      let path := match kind with Full p => p | Partial => cur end in
      let lk := match first_step c n with Some i => i | None => 0 end in
      let op := match open_step c n with Some i => i | None => 0 end in
      let stamp := match dlookup (disk_at c op) path with Some f => f_stamp f | None => 0 end in
      mkI lk dn (match kind with Full _ => true | Partial => false end) path stamp
        :: installs_from c (match kind with Full p => p | Partial => cur end) rows'
  end.

Definition installs (c : case) : list install := installs_from c (k_p0 c) (sort_rows (reload_rows c)).

Definition init_stamp (c : case) : N :=
  match dlookup (k_disk c) (k_p0 c) with Some f => f_stamp f | None => 0 end.

(* generation number (position in the install sequence, 0 = initial) of a stamp inside a window *)
Definition stamps_seq (c : case) : list (N * N) :=
  (0, init_stamp c) :: index_from 1 (map i_stamp (installs c)).

Definition count {A} (f : A -> bool) (l : list A) : N := N.of_nat (length (filter f l)).

(* window of generations a query may legitimately see: at least every reload that had returned
   when it took the read lock, at most every reload that had taken the write lock when it finished *)
Definition lo_of (c : case) (acq : N) : N := count (fun i => i_done i <? acq) (installs c).
Definition hi_of (c : case) (fin : N) : N := count (fun i => i_lock i <? fin) (installs c).

Definition gen_in_window (c : case) (lo hi s : N) : option N :=
  match filter (fun p => (lo <=? fst p) && (fst p <=? hi) && (snd p =? s)) (stamps_seq c) with
  | (k, _) :: _ => Some k
  | [] => None
  end.

(* when one stamp was installed twice (a reload that changed nothing) the latest candidate counts
   for the later query of a pair, the earliest for the earlier one *)
Definition gen_in_window_last (c : case) (lo hi s : N) : option N :=
  match rev (filter (fun p => (lo <=? fst p) && (fst p <=? hi) && (snd p =? s)) (stamps_seq c)) with
  | (k, _) :: _ => Some k
  | [] => None
  end.

Record qview := mkV { v_thread : nat; v_client : N; v_acq : N; v_fin : N; v_stamps : list N;
                      v_gens : list (option N); v_gens_last : list (option N) }.

Definition qviews (c : case) : list qview :=
  flat_map (fun x : nat * (qspec * qobs) =>
              let '(n, (qs, o)) := x in
              match first_step c n, done_step c n with
              | Some a, Some z =>
                  if o_done o then
                    let ss := o_ans o ++ o_extra o in
                    [mkV n (qs_client qs) a z ss (map (gen_in_window c (lo_of c a) (hi_of c z)) ss)
                         (map (gen_in_window_last c (lo_of c a) (hi_of c z)) ss)]
                  else []
              | _, _ => []
              end)
           (combine (threads_of KQ 0 (k_threads c)) (combine (c_qs (k_cfg c)) (k_qobs c))).

Definition all_some (l : list (option N)) : bool := forallb (fun x => match x with Some _ => true | None => false end) l.
Definition all_same (l : list N) : bool := match l with [] => true | x :: l' => forallb (N.eqb x) l' end.
Definition somes (l : list (option N)) : list N := flat_map (fun x => match x with Some k => [k] | None => [] end) l.

(* visible after return + failed reload is a no-op + no stale answer: every stamp of every
   response is a generation of the query's window *)
Definition window_ok (c : case) : bool := forallb (fun v => all_some (v_gens v)) (qviews c).
(* every response is computed from one generation *)
Definition single_ok (c : case) : bool := forallb (fun v => all_same (v_stamps v)) (qviews c).
(* generations seen by one client never go backwards *)
Definition monotone_ok (c : case) : bool :=
  forallb (fun v1 => forallb (fun v2 =>
     if (v_client v1 =? v_client v2) && (v_fin v1 <? v_acq v2)
     then forallb (fun g1 => forallb (fun g2 => g1 <=? g2) (somes (v_gens_last v2))) (somes (v_gens v1))
     else true) (qviews c)) (qviews c).
(* every thread finished: nothing deadlocked, every query got its response *)
Definition finished_ok (c : case) : bool :=
  negb (k_err c) && forallb o_done (k_qobs c) && forallb (fun r => negb (r =? 0)) (k_robs c).

Definition spec_ok (c : case) : bool :=
  env_ok c && finished_ok c && window_ok c && single_ok c && monotone_ok c.
