(* Run/C02: model_ok as C01 (dumps hold the declared rows; the serve model over the v1 dump
   with the v1 reader / over the v2 dump with the v2 reader computes what each server did);
   spec_ok = for every query the three servers' responses are pairwise equal (up to which
   of several weighted addresses were drawn). *)
From DnsV Require Export Base.Bytes Model.Store Model.LookupV1 Model.LookupV2 Model.Serve Spec.Answer Spec.Rows Run.Core.
Open Scope N_scope.

Definition case := fcase.
Definition model_ok (c : case) : bool := file_model_ok c.

Definition query_backends_agree (q : qcase) : bool :=
  match qc_obs q with
  | [a; b; c] => obs_sim a b && obs_sim a c && obs_sim b c
  | _ => false
  end.
Definition spec_ok (c : case) : bool :=
  if f_compiled c then forallb query_backends_agree (f_qs c) else true.

Definition model_out (c : case) :=
  (compile_ok c, bad_idx (query_model_ok c) (f_qs c), bad_idx query_backends_agree (f_qs c)).
