(* Run/C01: model_ok = the dumps hold the declared rows and the serve model over the dumps
   computes what each of the three servers did; spec_ok = every observed response is what
   Spec/Answer prescribes for the declared records. *)
From DnsV Require Export Base.Bytes Model.Store Model.LookupV1 Model.LookupV2 Model.Serve Spec.Answer Spec.Rows Run.Core.
Open Scope N_scope.

Definition case := fcase.
Definition model_ok (c : case) : bool := file_model_ok c.
Definition spec_ok (c : case) : bool := spec_c01_file c.

(* for replay files: what the model computes per query and backend *)
Definition model_out (c : case) :=
  (compile_ok c, map (fun q => map (fun b => serve b (store_for c b) (qc_q q)
       (match nth_error (qc_obs q) (match b with CDB => 0 | RDB1 => 1 | RDB2 => 2 end) with Some ob => o_loc ob | None => LocNil end)
       (match nth_error (qc_obs q) (match b with CDB => 0 | RDB1 => 1 | RDB2 => 2 end) with Some ob => o_ecs ob | None => None end)
       (qc_max q)) backends) (f_qs c)).
