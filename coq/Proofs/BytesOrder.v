(* The bytewise order (bytes.Compare, RocksDB's comparator) and SeekForPrev. *)
From DnsV Require Import Base.Bytes Base.Ip Model.Rearranger Model.Location.
From Coq Require Import Lia ZifyN ZifyBool.
Open Scope N_scope.

Lemma bcmp_refl : forall a, bcmp a a = Eq.
Proof. induction a as [|x a IH]; simpl; auto. rewrite N.compare_refl. exact IH. Qed.

Lemma bcmp_eq : forall a b, bcmp a b = Eq -> a = b.
Proof.
  induction a as [|x a IH]; destruct b as [|y b]; simpl; intro H; try discriminate; auto.
  destruct (x ?= y) eqn:E; try discriminate. apply N.compare_eq in E. subst. f_equal. auto.
Qed.

Lemma bcmp_antisym : forall a b, bcmp b a = CompOpp (bcmp a b).
Proof.
  induction a as [|x a IH]; destruct b as [|y b]; simpl; auto.
  rewrite (N.compare_antisym x y). destruct (x ?= y); simpl; auto.
Qed.

Lemma bcmp_lt_trans : forall a b c, bcmp a b = Lt -> bcmp b c = Lt -> bcmp a c = Lt.
Proof.
  induction a as [|x a IH]; destruct b as [|y b]; destruct c as [|z c]; simpl; intros H1 H2; try discriminate; auto.
  destruct (x ?= y) eqn:E1; destruct (y ?= z) eqn:E2; try discriminate.
  - apply N.compare_eq in E1, E2. subst. rewrite N.compare_refl. eauto.
  - apply N.compare_eq in E1. subst. rewrite E2. reflexivity.
  - apply N.compare_eq in E2. subst. rewrite E1. reflexivity.
  - rewrite N.compare_lt_iff in E1, E2.
    assert (H : (x ?= z) = Lt) by (rewrite N.compare_lt_iff; lia). rewrite H. reflexivity.
Qed.

Lemma bleb_iff : forall a b, bleb a b = true <-> bcmp a b <> Gt.
Proof. intros a b. unfold bleb. destruct (bcmp a b); split; intro H; auto; try discriminate; congruence. Qed.

Lemma bltb_iff : forall a b, bltb a b = true <-> bcmp a b = Lt.
Proof. intros a b. unfold bltb. destruct (bcmp a b); split; intro H; auto; discriminate. Qed.

Lemma bleb_refl : forall a, bleb a a = true.
Proof. intro a. apply bleb_iff. rewrite bcmp_refl. discriminate. Qed.

Lemma bleb_cases : forall a b, bleb a b = true <-> (a = b \/ bltb a b = true).
Proof.
  intros a b. unfold bleb, bltb. destruct (bcmp a b) eqn:E.
  - split; intro H; [left; apply bcmp_eq; exact E|reflexivity].
  - split; intro H; [right; reflexivity|reflexivity].
  - split; intro H; [discriminate H|].
    destruct H as [H|H]; [|discriminate H]. subst. rewrite bcmp_refl in E. discriminate E.
Qed.

Lemma bltb_trans : forall a b c, bltb a b = true -> bltb b c = true -> bltb a c = true.
Proof. intros a b c. rewrite !bltb_iff. apply bcmp_lt_trans. Qed.

Lemma bleb_trans : forall a b c, bleb a b = true -> bleb b c = true -> bleb a c = true.
Proof.
  intros a b c H1 H2. apply bleb_cases in H1. apply bleb_cases in H2. apply bleb_cases.
  destruct H1 as [->|H1]; destruct H2 as [->|H2]; auto. right. exact (bltb_trans _ _ _ H1 H2).
Qed.

Lemma bltb_not_leb : forall a b, bltb a b = true -> bleb b a = false.
Proof.
  intros a b H. apply bltb_iff in H. unfold bleb. rewrite (bcmp_antisym a b), H. reflexivity.
Qed.

Lemma bleb_total : forall a b, bleb a b = true \/ bltb b a = true.
Proof.
  intros a b. unfold bleb, bltb. rewrite (bcmp_antisym a b). destruct (bcmp a b); simpl; auto.
Qed.

Lemma bleb_antisym : forall a b, bleb a b = true -> bleb b a = true -> a = b.
Proof.
  intros a b H1 H2. apply bleb_cases in H1. destruct H1 as [|H1]; auto.
  rewrite (bltb_not_leb _ _ H1) in H2. discriminate.
Qed.

Lemma bcmp_app : forall p x y, bcmp (p ++ x) (p ++ y) = bcmp x y.
Proof. induction p as [|c p IH]; intros; simpl; auto. rewrite N.compare_refl. apply IH. Qed.

(* the keys that carry a given prefix form an interval of the order *)
Lemma prefix_interval : forall p k1 k2 k3, is_prefix p k1 = true -> is_prefix p k3 = true ->
  bleb k1 k2 = true -> bleb k2 k3 = true -> is_prefix p k2 = true.
Proof.
  induction p as [|c p IH]; intros k1 k2 k3 P1 P3 L12 L23; [reflexivity|].
  destruct k1 as [|c1 k1]; [discriminate P1|]. destruct k3 as [|c3 k3]; [discriminate P3|].
  cbn [is_prefix] in P1, P3. apply Bool.andb_true_iff in P1, P3. destruct P1 as [E1 P1], P3 as [E3 P3].
  apply N.eqb_eq in E1, E3. subst c1 c3.
  destruct k2 as [|c2 k2].
  - unfold bleb in L12. simpl in L12. discriminate L12.
  - unfold bleb in L12, L23. cbn [bcmp] in L12, L23. cbn [is_prefix].
    destruct (c ?= c2) eqn:C1.
    + apply N.compare_eq in C1. subst c2. rewrite N.compare_refl in L23. rewrite N.eqb_refl. cbn [andb].
      apply (IH k1 k2 k3); auto.
    + rewrite N.compare_lt_iff in C1.
      assert (C2 : (c2 ?= c) = Gt) by (apply N.compare_gt_iff; lia). rewrite C2 in L23. discriminate L23.
    + discriminate L12.
Qed.

Lemma is_prefix_app : forall p x, is_prefix p (p ++ x) = true.
Proof. induction p as [|c p IH]; intro x; simpl; auto. rewrite N.eqb_refl. simpl. apply IH. Qed.


(* SeekForPrev *)
Lemma seek_prev_aux_spec : forall db k best,
  (match best with Some (kb, _) => bleb kb k = true | None => True end) ->
  match seek_prev_aux best db k with
  | Some (k', v) => (In (k', v) db \/ best = Some (k', v)) /\ bleb k' k = true /\
                    (forall k'' v'', In (k'', v'') db -> bleb k'' k = true -> bleb k'' k' = true) /\
                    (match best with Some (kb, _) => bleb kb k' = true | None => True end)
  | None => best = None /\ forall k'' v'', In (k'', v'') db -> bleb k'' k = false
  end.
Proof.
  induction db as [|[k1 v1] db IH]; intros k best Hb.
  - cbn [seek_prev_aux]. destruct best as [[kb vb]|].
    + split; [right; reflexivity|]. split; [exact Hb|]. split; [intros ? ? []|apply bleb_refl].
    + split; [reflexivity|]. intros ? ? [].
  - cbn [seek_prev_aux]. destruct (bleb k1 k) eqn:E1.
    + assert (Step : forall nb vb, bleb nb k = true ->
                (match best with Some (kb, _) => bleb kb nb = true | None => True end) -> bleb k1 nb = true ->
                (nb = k1 /\ vb = v1 \/ best = Some (nb, vb)) ->
                match seek_prev_aux (Some (nb, vb)) db k with
                | Some (k', v) => (In (k', v) ((k1, v1) :: db) \/ best = Some (k', v)) /\ bleb k' k = true /\
                                  (forall k'' v'', In (k'', v'') ((k1, v1) :: db) -> bleb k'' k = true -> bleb k'' k' = true) /\
                                  (match best with Some (kb, _) => bleb kb k' = true | None => True end)
                | None => False
                end).
      { intros nb vb Hnb Hbn H1n Hor. specialize (IH k (Some (nb, vb)) Hnb).
        destruct (seek_prev_aux (Some (nb, vb)) db k) as [[k' v]|]; [|destruct IH as [C _]; discriminate C].
        destruct IH as [I1 [I2 [I3 I4]]]. split.
        { destruct I1 as [I1|I1]; [left; right; exact I1|]. inversion I1; subst.
          destruct Hor as [[-> ->]|Hor]; [left; left; reflexivity|right; exact Hor]. }
        split; [exact I2|]. split.
        { intros k'' v'' [Hin|Hin] Hk; [|exact (I3 k'' v'' Hin Hk)].
          inversion Hin; subst. exact (bleb_trans _ _ _ H1n I4). }
        destruct best as [[kb vb']|]; [|exact I]. exact (bleb_trans _ _ _ Hbn I4). }
      destruct best as [[kb vb]|].
      * destruct (bltb kb k1) eqn:E2.
        -- assert (Hb1 : bleb kb k1 = true) by (apply bleb_cases; auto).
           pose proof (Step k1 v1 E1 Hb1 (bleb_refl k1) (or_introl (conj eq_refl eq_refl))) as S.
           destruct (seek_prev_aux (Some (k1, v1)) db k) as [[k' v]|]; [exact S|contradiction].
        -- assert (H1b : bleb k1 kb = true).
           { destruct (bleb_total k1 kb) as [X|X]; auto. congruence. }
           pose proof (Step kb vb Hb (bleb_refl kb) H1b (or_intror eq_refl)) as S.
           destruct (seek_prev_aux (Some (kb, vb)) db k) as [[k' v]|]; [exact S|contradiction].
      * pose proof (Step k1 v1 E1 I (bleb_refl k1) (or_introl (conj eq_refl eq_refl))) as S.
        destruct (seek_prev_aux (Some (k1, v1)) db k) as [[k' v]|]; [|contradiction].
        destruct S as [S1 [S2 [S3 S4]]]. split; [|split; [exact S2|split; [exact S3|exact I]]].
        destruct S1 as [S1|S1]; [left; exact S1|discriminate S1].
    + specialize (IH k best Hb). destruct (seek_prev_aux best db k) as [[k' v]|].
      * destruct IH as [I1 [I2 [I3 I4]]]. split.
        { destruct I1 as [I1|I1]; [left; right; exact I1|right; exact I1]. }
        split; [exact I2|]. split; [|exact I4].
        intros k'' v'' [Hin|Hin] Hk; [|exact (I3 k'' v'' Hin Hk)]. inversion Hin; subst. congruence.
      * destruct IH as [I1 I2]. split; [exact I1|]. intros k'' v'' [Hin|Hin]; [|exact (I2 k'' v'' Hin)].
        inversion Hin; subst. exact E1.
Qed.

Lemma seek_prev_spec : forall db k,
  match seek_prev db k with
  | Some (k', v) => In (k', v) db /\ bleb k' k = true /\
                    (forall k'' v'', In (k'', v'') db -> bleb k'' k = true -> bleb k'' k' = true)
  | None => forall k'' v'', In (k'', v'') db -> bleb k'' k = false
  end.
Proof.
  intros db k. unfold seek_prev. pose proof (seek_prev_aux_spec db k None I) as S.
  change (@None (bytes * bytes)) with (@None kv) in S.
  revert S. destruct (seek_prev_aux None db k) as [[k' v]|]; intro S.
  - destruct S as [[S1|S1] [S2 [S3 _]]]; [|discriminate S1]. auto.
  - destruct S as [_ S]. exact S.
Qed.
