(* Proofs/ReloadLock: safety of every schedule of the small-step lock model
   (Model/ReloadLock), and what the write lock is needed for. *)
From DnsV Require Import Base.Bytes Spec.Handles Model.Refcount Proofs.Refcount Model.ReloadLock.
From Coq Require Import ZifyN ZifyNat ZifyBool.
Open Scope N_scope.

(* ------------------------------------------------------------------ the invariant of the shared state,
   generalised over the set [k] of wrappers that are meant to stay open (not destroyable):
   [served] between operations, [served; newDB] while a reload validates its candidate,
   [newDB] between f.Destroy() and the swap, nothing after shutdown *)
Definition inb (i : nat) (k : list nat) : bool := existsb (Nat.eqb i) k.

Record InvK (k : list nat) (s : state) : Prop := mkInvK {
  K_served : (served s < nw s)%nat;
  K_keep : forall i, inb i k = true -> (i < nw s)%nat;
  K_bk : forall i, (i < nw s)%nat -> (w_bk (ws s i) < nb s)%nat;
  K_inj : forall i j, (i < nw s)%nat -> (j < nw s)%nat -> w_bk (ws s i) = w_bk (ws s j) -> i = j;
  K_ref : forall i, (i < nw s)%nat -> w_ref (ws s i) = nheld i (readers s);
  K_des : forall i, (i < nw s)%nat -> w_destroyable (ws s i) = negb (inb i k);
  K_cl : forall i, (i < nw s)%nat ->
         bks s (w_bk (ws s i)) = if w_destroyable (ws s i) && (w_ref (ws s i) =? 0) then 1 else 0;
  K_orphan : forall b, (b < nb s)%nat -> (forall i, (i < nw s)%nat -> w_bk (ws s i) <> b) -> bks s b = 1;
  K_rd : forall r i, In (r, i) (readers s) -> (i < nw s)%nat;
  K_log : LogInv (log s) (bks s) (nb s) }.

Definition kdefault (s : state) : list nat := if shut s then [] else [served s].

Lemma invK_inv : forall s, InvK (kdefault s) s -> pending s = [] -> Inv s.
Proof.
  intros s [] Hp. constructor; auto.
  - intros i Hi. rewrite K_des0 by auto. unfold kdefault. destruct (shut s); cbn.
    + now rewrite orb_true_r.
    + now rewrite !orb_false_r.
  - rewrite Hp. easy.
Qed.

Lemma invK_ext : forall k k' s, InvK k s -> (forall i, inb i k' = inb i k) -> InvK k' s.
Proof.
  intros k k' s [] H. constructor; auto.
  - intros i Hi. rewrite H in Hi. auto.
  - intros i Hi. rewrite H. auto.
Qed.

Lemma invK_open_kept : forall k s i, InvK k s -> inb i k = true -> bks s (w_bk (ws s i)) = 0.
Proof.
  intros k s i HK Hi. pose proof (K_keep k s HK i Hi) as Hlt.
  rewrite (K_cl k s HK i Hlt), (K_des k s HK i Hlt), Hi. reflexivity.
Qed.

Lemma invK_pinned_open : forall k s r i, InvK k s -> In (r, i) (readers s) -> bks s (w_bk (ws s i)) = 0.
Proof.
  intros k s r i HK Hin. pose proof (K_rd k s HK _ _ Hin) as Hi.
  rewrite (K_cl k s HK _ Hi), (K_ref k s HK _ Hi). apply nheld_in in Hin.
  destruct (nheld i (readers s) =? 0) eqn:E; [lia|]. now rewrite andb_false_r.
Qed.

Lemma invK_set_log : forall k s l, InvK k s -> LogInv l (bks s) (nb s) -> InvK k (set_log l s).
Proof. intros k s l [] H. constructor; cbn; auto. Qed.

Lemma invK_touch : forall k s b o, InvK k s -> bks s b = 0 -> is_close o = false -> is_open o = false ->
  InvK k (touch b o s).
Proof. intros. apply invK_set_log; auto. apply LI_touch; auto. apply (K_log k s); auto. Qed.

Ltac ktouches := repeat (apply invK_touch; [|solve [cbn; auto]|reflexivity|reflexivity]).

Lemma invK_set_served : forall k s i, InvK k s -> (i < nw s)%nat -> InvK k (set_served i s).
Proof. intros k s i [] H. constructor; cbn; auto. Qed.

Lemma invK_set_shut : forall k s b, InvK k s -> InvK k (set_shut b s).
Proof. intros k s b []. constructor; cbn; auto. Qed.

Lemma invK_bks_le1 : forall k s b, InvK k s -> bks s b <= 1.
Proof.
  intros k s b HK. destruct (Nat.ltb_spec b (nb s)) as [Hb|Hb].
  - destruct (owner_dec (ws s) b (nw s)) as [(i & Hi & E)|H].
    + subst b. rewrite (K_cl k s HK i Hi). destruct (_ && _); lia.
    + rewrite (K_orphan k s HK b Hb H). lia.
  - destruct (K_log k s HK) as (_ & _ & _ & Hf). rewrite Hf by lia. lia.
Qed.

Lemma invK_acquire : forall k s r, InvK k s -> inb (served s) k = true -> InvK k (step (Acquire r) s).
Proof.
  intros k s r HK Hsk. pose proof (invK_open_kept k s _ HK Hsk) as Hopen.
  destruct HK as [Hsv Hkeep Hbk Hinj Href Hdes Hcl Horph Hrd Hlog].
  destruct s as [sv n w m bk rd pd sh lg]. cbn in *.
  constructor; cbn.
  - exact Hsv.
  - exact Hkeep.
  - intros i Hi. unfold fupd. destruct (Nat.eqb_spec i sv); subst; cbn; auto.
  - intros i j Hi Hj. unfold fupd. destruct (Nat.eqb_spec i sv); destruct (Nat.eqb_spec j sv); subst; cbn; intro E; auto.
  - intros i Hi. unfold fupd. destruct (Nat.eqb_spec i sv); subst; cbn.
    + rewrite Nat.eqb_refl, Href by auto. lia.
    + destruct (Nat.eqb_spec sv i); [congruence|]. rewrite Href by auto. lia.
  - intros i Hi. rewrite <- Hdes by auto. unfold fupd. destruct (Nat.eqb_spec i sv); subst; reflexivity.
  - intros i Hi. unfold fupd. destruct (Nat.eqb_spec i sv); subst; cbn; auto.
    rewrite Hdes, Hsk by auto. cbn. exact Hopen.
  - intros b Hb H. apply Horph; auto. intros i Hi. specialize (H i Hi). unfold fupd in H.
    destruct (Nat.eqb_spec i sv); subst; cbn in H; auto.
  - intros r' i [H|H]; [inversion H; subst; auto|eauto].
  - apply LI_touch; auto. apply LI_touch; auto.
Qed.

(* the locked tail of DataReader.Close *)
Lemma invK_unpin : forall k s r i, InvK k s -> lookup r (readers s) = Some i ->
  InvK k (let s1 := on_wrapper i w_reader_unpin s in set_readers (remove_r r (readers s1)) s1).
Proof.
  intros k s r i HK E.
  pose proof (lookup_in _ _ _ E) as Hin.
  pose proof (invK_pinned_open k s r i HK Hin) as Hopen.
  pose proof (nheld_in _ _ _ Hin) as Hpos.
  pose proof (nheld_remove_r _ _ _ E) as Hrem.
  destruct HK as [Hsv Hkeep Hbk Hinj Href Hdes Hcl Horph Hrd Hlog].
  destruct s as [sv n w m bk rd pd sh lg]. cbn in *.
  pose proof (Hrd _ _ Hin) as Hi.
  assert (Hdec : dec64 (w_ref (w i)) = nheld i (remove_r r rd)).
  { unfold dec64. rewrite Href by auto. rewrite (Hrem i) in *. rewrite Nat.eqb_refl in *.
    destruct (1 + nheld i (remove_r r rd) =? 0) eqn:Z; lia. }
  unfold on_wrapper, w_reader_unpin. cbn.
  destruct (w_destroyable (w i) && (dec64 (w_ref (w i)) =? 0)) eqn:C; cbn.
  - constructor; cbn.
    + exact Hsv.
    + exact Hkeep.
    + intros j Hj. unfold fupd. destruct (Nat.eqb_spec j i); subst; cbn; auto.
    + intros j l Hj Hl. unfold fupd. destruct (Nat.eqb_spec j i); destruct (Nat.eqb_spec l i); subst; cbn; intro X; auto.
    + intros j Hj. unfold fupd. destruct (Nat.eqb_spec j i); subst; cbn; auto.
      rewrite Href, (Hrem j) by auto. destruct (Nat.eqb_spec i j); [congruence|lia].
    + intros j Hj. rewrite <- Hdes by auto. unfold fupd. destruct (Nat.eqb_spec j i); subst; reflexivity.
    + intros j Hj. unfold fupd at 2 3 4. destruct (Nat.eqb_spec j i); subst; cbn.
      * rewrite fupd_eq, C, Hopen. reflexivity.
      * rewrite fupd_neq; auto.
    + intros b Hb H. assert (b <> w_bk (w i)).
      { intro X. apply (H i Hi). unfold fupd. rewrite Nat.eqb_refl. cbn. auto. }
      rewrite fupd_neq by auto. apply Horph; auto. intros j Hj. specialize (H j Hj). unfold fupd in H.
      destruct (Nat.eqb_spec j i); subst; cbn in H; auto.
    + intros r' j H. apply in_remove_r in H. eauto.
    + apply LI_close; auto.
  - constructor; cbn.
    + exact Hsv.
    + exact Hkeep.
    + intros j Hj. unfold fupd. destruct (Nat.eqb_spec j i); subst; cbn; auto.
    + intros j l Hj Hl. unfold fupd. destruct (Nat.eqb_spec j i); destruct (Nat.eqb_spec l i); subst; cbn; intro X; auto.
    + intros j Hj. unfold fupd. destruct (Nat.eqb_spec j i); subst; cbn; auto.
      rewrite Href, (Hrem j) by auto. destruct (Nat.eqb_spec i j); [congruence|lia].
    + intros j Hj. rewrite <- Hdes by auto. unfold fupd. destruct (Nat.eqb_spec j i); subst; reflexivity.
    + intros j Hj. unfold fupd. destruct (Nat.eqb_spec j i); subst; cbn; auto.
      rewrite C. exact Hopen.
    + intros b Hb H. apply Horph; auto. intros j Hj. specialize (H j Hj). unfold fupd in H.
      destruct (Nat.eqb_spec j i); subst; cbn in H; auto.
    + intros r' j H. apply in_remove_r in H. eauto.
    + exact Hlog.
Qed.

Definition kremove (i : nat) (k : list nat) : list nat := filter (fun j => negb (Nat.eqb j i)) k.

Lemma inb_kremove : forall i k j, inb j (kremove i k) = inb j k && negb (Nat.eqb j i).
Proof.
  intros i k j. unfold inb, kremove. induction k as [|a k IH]; cbn; [reflexivity|].
  destruct (Nat.eqb_spec a i); cbn.
  - subst. rewrite IH. destruct (Nat.eqb_spec j i); cbn; [now rewrite !andb_false_r|reflexivity].
  - rewrite IH. destruct (Nat.eqb_spec j a); cbn; [|reflexivity].
    subst. destruct (Nat.eqb_spec a i); [contradiction|reflexivity].
Qed.

(* DB.Destroy on a stored wrapper that has a backend of its own open or closed as the invariant says *)
Lemma invK_destroy : forall k s i, InvK k s -> (i < nw s)%nat -> inb i k = true ->
  InvK (kremove i k) (on_wrapper i w_destroy s).
Proof.
  intros k s i HK Hi Hik. pose proof (invK_open_kept k s i HK Hik) as Hopen.
  destruct HK as [Hsv Hkeep Hbk Hinj Href Hdes Hcl Horph Hrd Hlog].
  destruct s as [sv n w m bk rd pd sh lg]. cbn in *.
  unfold on_wrapper, w_destroy. cbn.
  destruct (w_ref (w i) =? 0) eqn:C; cbn.
  - constructor; cbn.
    + exact Hsv.
    + intros j Hj. rewrite inb_kremove in Hj. apply andb_prop in Hj. destruct Hj. auto.
    + intros j Hj. unfold fupd. destruct (Nat.eqb_spec j i); subst; cbn; auto.
    + intros j l Hj Hl. unfold fupd. destruct (Nat.eqb_spec j i); destruct (Nat.eqb_spec l i); subst; cbn; intro X; auto.
    + intros j Hj. unfold fupd. destruct (Nat.eqb_spec j i); subst; cbn; auto.
    + intros j Hj. rewrite inb_kremove. unfold fupd. destruct (Nat.eqb_spec j i) as [|ne]; subst; cbn.
      * now rewrite andb_false_r.
      * rewrite andb_true_r. auto.
    + intros j Hj. unfold fupd at 2 3 4. destruct (Nat.eqb_spec j i); subst; cbn.
      * rewrite fupd_eq, C, Hopen. reflexivity.
      * rewrite fupd_neq; auto.
    + intros b Hb H. assert (b <> w_bk (w i)).
      { intro X. apply (H i Hi). unfold fupd. rewrite Nat.eqb_refl. cbn. auto. }
      rewrite fupd_neq by auto. apply Horph; auto. intros j Hj. specialize (H j Hj). unfold fupd in H.
      destruct (Nat.eqb_spec j i); subst; cbn in H; auto.
    + exact Hrd.
    + apply LI_close; auto.
  - constructor; cbn.
    + exact Hsv.
    + intros j Hj. rewrite inb_kremove in Hj. apply andb_prop in Hj. destruct Hj. auto.
    + intros j Hj. unfold fupd. destruct (Nat.eqb_spec j i); subst; cbn; auto.
    + intros j l Hj Hl. unfold fupd. destruct (Nat.eqb_spec j i); destruct (Nat.eqb_spec l i); subst; cbn; intro X; auto.
    + intros j Hj. unfold fupd. destruct (Nat.eqb_spec j i); subst; cbn; auto.
    + intros j Hj. rewrite inb_kremove. unfold fupd. destruct (Nat.eqb_spec j i) as [|ne]; subst; cbn.
      * now rewrite andb_false_r.
      * rewrite andb_true_r. auto.
    + intros j Hj. unfold fupd. destruct (Nat.eqb_spec j i); subst; cbn; auto.
      rewrite C. exact Hopen.
    + intros b Hb H. apply Horph; auto. intros j Hj. specialize (H j Hj). unfold fupd in H.
      destruct (Nat.eqb_spec j i); subst; cbn in H; auto.
    + exact Hrd.
    + exact Hlog.
Qed.

Lemma inb_app : forall j k n, inb j (k ++ [n]) = inb j k || Nat.eqb j n.
Proof. intros. unfold inb. rewrite existsb_app. cbn. now rewrite orb_false_r. Qed.

(* the reload goroutine hands back a fresh backend and DB.Reload wraps it: newDB := &DB{dbi: newDBI} *)
Lemma invK_new_candidate : forall k s bf, InvK k s -> bks s bf = 0 -> (bf < nb s)%nat ->
  InvK (k ++ [nw s]) (add_wrapper (mkW (nb s) 0 false) (touch bf OpReloadRet (snd (alloc s)))).
Proof.
  intros k s bf HK Hopen Hbf.
  destruct HK as [Hsv Hkeep Hbk Hinj Href Hdes Hcl Horph Hrd Hlog].
  destruct s as [sv n w m bk rd pd sh lg]. cbn in *.
  constructor; cbn.
  - lia.
  - intros j Hj. rewrite inb_app in Hj. apply orb_prop in Hj. destruct Hj as [Hj|Hj].
    + apply Hkeep in Hj. lia.
    + apply Nat.eqb_eq in Hj. lia.
  - intros j Hj. unfold fupd. destruct (Nat.eqb_spec j n); [subst; cbn; lia|]. specialize (Hbk j). lia.
  - intros j l Hj Hl. pose proof (Hbk j) as Bj. pose proof (Hbk l) as Bl. unfold fupd.
    destruct (Nat.eqb_spec j n), (Nat.eqb_spec l n); subst; cbn; intro X; try lia; apply Hinj; auto; lia.
  - intros j Hj. unfold fupd.
    destruct (Nat.eqb_spec j n); [subst; cbn; symmetry; apply nheld_ge; auto|]. apply Href. lia.
  - intros j Hj. rewrite inb_app. unfold fupd. destruct (Nat.eqb_spec j n); [subst; cbn; now rewrite orb_true_r|].
    rewrite orb_false_r. apply Hdes. lia.
  - intros j Hj.
    destruct (Nat.eqb_spec j n); [subst; rewrite !(fupd_eq _ w n); cbn [w_bk w_ref w_destroyable]|].
    { rewrite fupd_eq. reflexivity. }
    rewrite !(fupd_neq _ w n) by auto.
    assert (j < n)%nat by lia. pose proof (Hbk j H).
    rewrite !fupd_neq by lia. auto.
  - intros b Hb H.
    assert (b <> m).
    { intro X. apply (H n); [lia|]. unfold fupd. rewrite Nat.eqb_refl. cbn. auto. }
    rewrite !fupd_neq by auto. apply Horph; [lia|]. intros j Hj. specialize (H j). unfold fupd in H.
    destruct (Nat.eqb_spec j n); [lia|]. apply H. lia.
  - intros r j H. apply Hrd in H. lia.
  - apply LI_touch; try reflexivity.
    + apply LI_alloc; auto.
    + unfold fupd. destruct (Nat.eqb_spec bf m); [lia|auto].
Qed.

Lemma invK_fupd_same : forall k s i v, InvK k s -> ws s i = v ->
  InvK k (set_ws (nw s) (fupd (ws s) i v) s).
Proof.
  intros k s i v [] Hv.
  assert (E : forall j, fupd (ws s) i v j = ws s j).
  { intro j. unfold fupd. destruct (Nat.eqb_spec j i); subst; auto. }
  constructor; cbn; auto.
  - intros j Hj. rewrite E. auto.
  - intros j l Hj Hl. rewrite !E. auto.
  - intros j Hj. rewrite E. auto.
  - intros j Hj. rewrite E. auto.
  - intros j Hj. rewrite !E. auto.
  - intros b Hb H. apply K_orphan0; auto. intros j Hj. rewrite <- E. auto.
Qed.

(* ValidateDbKey on the candidate wrapper, which nobody else can reach *)
Lemma invK_validate_st : forall k s i key, InvK k s -> inb i k = true -> w_ref (ws s i) = 0 ->
  InvK k (on_wrapper i (w_validate_st key) s).
Proof.
  intros k s i key HK Hik Href0.
  pose proof (invK_open_kept k s i HK Hik) as Hopen.
  pose proof (K_keep k s HK i Hik) as Hi.
  pose proof (K_des k s HK i Hi) as Hd. rewrite Hik in Hd. cbn in Hd.
  unfold on_wrapper, w_validate_st.
  destruct (ws s i) as [b r d] eqn:E. cbn in Href0, Hd, Hopen. subst r d.
  rewrite validate_fresh.
  assert (HK4 : InvK k (touches4 b s)) by (unfold touches4; ktouches; auto).
  apply (invK_fupd_same k (touches4 b s) i); auto.
Qed.

(* ------------------------------------------------------------------ the invariant of the small-step model *)
Definition wsec (th : thread) : bool :=
  match t_spec th, t_pc th with
  | TReload _, (PWLocked | PCalled | PRetSame | PRetNew | PValidOk | PValidFail | PDestroyed | PSwapped | PFailed) => true
  | TShutdown, (PWLocked | PDestroyed) => true
  | _, _ => false
  end.
Definition rsec (th : thread) : bool :=
  match t_spec th, t_pc th with TReader _, (PRLocked | PPinned) => true | _, _ => false end.
Definition holds (th : thread) : bool :=
  match t_spec th, t_pc th with TReader _, (PPinned | PHold _ | PFreed) => true | _, _ => false end.
Definition needs_open (th : thread) : bool :=
  match t_spec th, t_pc th with
  | TReader _, PRLocked => true
  | TReload _, _ => wsec th
  | TShutdown, PWLocked => true
  | _, _ => false
  end.

(* the wrappers that must stay open, as a function of where the lock holder is *)
Definition keep_th (th : thread) (s : state) : list nat :=
  match t_spec th, t_pc th with
  | TReload _, (PRetNew | PValidOk | PValidFail) => [served s; t_new th]
  | TReload _, PDestroyed => [t_new th]
  | _, _ => kdefault s
  end.
Definition keep_of (ss : sstate) : list nat :=
  match lk_w ss with Some h => keep_th (ths ss h) (sh ss) | None => kdefault (sh ss) end.

Definition local_ok (th : thread) (s : state) : Prop :=
  match t_spec th, t_pc th with
  | TReload _, (PCalled | PRetSame) => t_f th = served s
  | TReload _, (PRetNew | PValidOk | PValidFail) =>
      t_f th = served s /\ (t_new th < nw s)%nat /\ t_new th <> served s /\ w_ref (ws s (t_new th)) = 0
  | TReload _, PDestroyed => (t_new th < nw s)%nat
  | _, _ => True
  end.

Record SInv (ss : sstate) : Prop := mkSInv {
  S_cfg1 : late_lock ss = false;
  S_cfg2 : forall t, is_variant (t_spec (ths ss t)) = false;
  S_pend : pending (sh ss) = [];
  S_sh : InvK (keep_of ss) (sh ss);
  S_wsec : forall t, wsec (ths ss t) = true -> lk_w ss = Some t;
  S_rsec : forall t, rsec (ths ss t) = true -> In t (lk_r ss);
  S_excl : forall t, lk_w ss = Some t -> lk_r ss = [];
  S_held : forall t, holds (ths ss t) = true -> held t (sh ss) = true;
  S_noshut : forall t, needs_open (ths ss t) = true -> shut (sh ss) = false;
  S_local : forall t, lk_w ss = Some t -> local_ok (ths ss t) (sh ss);
  S_holder : forall h, lk_w ss = Some h -> wsec (ths ss h) = true }.

Lemma sinv_init : forall specs, no_variants specs = true -> SInv (sinit specs false).
Proof.
  intros specs Hnt. constructor; cbn; try easy.
  - intros t. unfold mk_ths. cbn. unfold no_variants in Hnt. rewrite forallb_forall in Hnt.
    destruct (Nat.ltb_spec t (length specs)) as [H|H].
    + apply negb_true_iff. apply Hnt. now apply nth_In.
    + now rewrite nth_overflow.
  - pose proof inv_init as [].
    constructor; auto; cbn in *.
    + intros i Hi. unfold inb in Hi. cbn in Hi. rewrite orb_false_r in Hi. apply Nat.eqb_eq in Hi. lia.
    + intros i Hi. destruct i; [reflexivity|lia].
  - intros t. unfold mk_ths, wsec. cbn. destruct (nth t specs TIdle); discriminate.
  - intros t. unfold mk_ths, rsec. cbn. destruct (nth t specs TIdle); discriminate.
  - intros t. unfold mk_ths, holds. cbn. destruct (nth t specs TIdle); discriminate.
Qed.

(* ------------------------------------------------------------------ frame facts *)
Lemma in_remove_tid : forall t l x, In x l -> x <> t -> In x (remove_tid t l).
Proof.
  induction l as [|a l IH]; cbn; intros x H Hne; [easy|].
  destruct (Nat.eqb_spec a t).
  - destruct H; [congruence|auto].
  - destruct H; [now left|right; auto].
Qed.

Lemma lookup_remove_r_other : forall t t' l, t' <> t -> lookup t' (remove_r t l) = lookup t' l.
Proof.
  induction l as [|[r i] l IH]; cbn; intros Hne; [reflexivity|].
  destruct (Nat.eqb_spec r t).
  - subst. destruct (Nat.eqb_spec t t'); [congruence|reflexivity].
  - cbn. rewrite IH by auto. reflexivity.
Qed.

Lemma keep_th_frame : forall th s s', served s' = served s -> shut s' = shut s -> keep_th th s' = keep_th th s.
Proof. intros th s s' H1 H2. unfold keep_th, kdefault. rewrite H1, H2. reflexivity. Qed.

Lemma local_ok_frame : forall th s s', served s' = served s -> nw s' = nw s ->
  (forall j, w_ref (ws s j) = 0 -> w_ref (ws s' j) = 0) -> local_ok th s -> local_ok th s'.
Proof.
  intros th s s' H1 H2 H3. unfold local_ok. rewrite H1, H2.
  destruct (t_spec th); auto. destruct (t_pc th); auto; intros (A & B & C & D); auto.
Qed.

Lemma holder_excl : forall ss t, SInv ss -> In t (lk_r ss) -> lk_w ss = None.
Proof.
  intros ss t HS Hin. destruct (lk_w ss) as [h|] eqn:E; [|reflexivity].
  rewrite (S_excl ss HS h E) in Hin. destruct Hin.
Qed.

Lemma sinv_upd_sh : forall ss t th' s',
  SInv ss ->
  is_variant (t_spec th') = false ->
  pending s' = [] ->
  InvK (keep_of (upd_sh ss t th' s')) s' ->
  (wsec th' = true -> lk_w ss = Some t) ->
  (rsec th' = true -> In t (lk_r ss)) ->
  (holds th' = true -> held t s' = true) ->
  (forall t', t' <> t -> held t' (sh ss) = true -> held t' s' = true) ->
  (forall t', needs_open (fupd (ths ss) t th' t') = true -> shut s' = false) ->
  (lk_w ss = Some t -> local_ok th' s') ->
  (forall h, h <> t -> lk_w ss = Some h -> local_ok (ths ss h) s') ->
  (lk_w ss = Some t -> wsec th' = true) ->
  SInv (upd_sh ss t th' s').
Proof.
  intros ss t th' s' HS Hto Hp HK Hw Hr Hh Hho Hno Hl Hlo Hhol.
  constructor; cbn [upd_sh sh lk_w lk_r ths late_lock]; auto.
  - apply (S_cfg1 ss HS).
  - intros t'. unfold fupd. destruct (Nat.eqb_spec t' t); auto. apply (S_cfg2 ss HS).
  - intros t'. unfold fupd. destruct (Nat.eqb_spec t' t); [subst; auto|]. apply (S_wsec ss HS).
  - intros t'. unfold fupd. destruct (Nat.eqb_spec t' t); [subst; auto|]. apply (S_rsec ss HS).
  - apply (S_excl ss HS).
  - intros t'. unfold fupd. destruct (Nat.eqb_spec t' t); [subst; auto|].
    intro H. apply Hho; auto. apply (S_held ss HS); auto.
  - intros h Hh'. unfold fupd. destruct (Nat.eqb_spec h t); [subst; auto|]. apply Hlo; auto.
  - intros h Hh'. unfold fupd. destruct (Nat.eqb_spec h t); [subst; auto|]. apply (S_holder ss HS h Hh').
Qed.

(* ------------------------------------------------------------------ reader steps *)
Lemma keep_of_reader : forall ss t th' s' k,
  t_spec (ths ss t) = TReader k -> t_spec th' = TReader k ->
  served s' = served (sh ss) -> shut s' = shut (sh ss) ->
  keep_of (upd_sh ss t th' s') = keep_of ss.
Proof.
  intros ss t th' s' k E1 E2 H1 H2. unfold keep_of, upd_sh. cbn [lk_w ths sh].
  destruct (lk_w ss) as [h|]; [|unfold kdefault; now rewrite H1, H2].
  unfold fupd. destruct (Nat.eqb_spec h t).
  - subst. unfold keep_th. rewrite E1, E2. unfold kdefault. now rewrite H1, H2.
  - apply keep_th_frame; auto.
Qed.

Lemma reader_not_sections : forall th k p, t_spec th = TReader k ->
  wsec (set_pc th p) = false.
Proof. intros th k p E. unfold wsec. cbn. rewrite E. reflexivity. Qed.

Lemma step_reader_touch : forall ss t k p' i o,
  SInv ss -> t_spec (ths ss t) = TReader k ->
  holds (ths ss t) = true -> holds (set_pc (ths ss t) p') = true -> rsec (set_pc (ths ss t) p') = false ->
  lookup t (readers (sh ss)) = Some i -> is_close o = false -> is_open o = false ->
  SInv (upd_sh ss t (set_pc (ths ss t) p') (touch (w_bk (ws (sh ss) i)) o (sh ss))).
Proof.
  intros ss t k p' i o HS Hsp Hh Hh' Hr' Hlk Hc Ho.
  assert (Hkeep : keep_of (upd_sh ss t (set_pc (ths ss t) p') (touch (w_bk (ws (sh ss) i)) o (sh ss))) = keep_of ss).
  { eapply keep_of_reader; eauto. }
  apply sinv_upd_sh; auto.
  - cbn. apply (S_cfg2 ss HS).
  - apply (S_pend ss HS).
  - rewrite Hkeep. apply invK_touch; auto; [apply (S_sh ss HS)|].
    eapply invK_pinned_open; [apply (S_sh ss HS)|]. eapply lookup_in; eauto.
  - rewrite (reader_not_sections _ k); [discriminate|auto].
  - rewrite Hr'. discriminate.
  - intros _. apply (S_held ss HS t Hh).
  - intros t'. unfold fupd. destruct (Nat.eqb_spec t' t).
    + subst. unfold needs_open. cbn. rewrite Hsp. unfold holds in Hh'. cbn in Hh'. rewrite Hsp in Hh'.
      destruct p'; try discriminate.
    + intro H. apply (S_noshut ss HS t' H).
  - intros _. unfold local_ok. cbn. now rewrite Hsp.
  - intros h Hne Hh2. apply (S_local ss HS h Hh2).
  - intro Hw. pose proof (S_holder ss HS t Hw) as X. unfold wsec in X. rewrite Hsp in X. discriminate.
Qed.

Lemma step_reader_rlock : forall ss t k,
  SInv ss -> t_spec (ths ss t) = TReader k -> t_pc (ths ss t) = PStart ->
  lk_w ss = None -> shut (sh ss) = false ->
  SInv (mkSS (sh ss) None (t :: lk_r ss) (fupd (ths ss) t (set_pc (ths ss t) PRLocked)) (late_lock ss)).
Proof.
  intros ss t k HS Hsp Hpc Hw Hsh.
  constructor; cbn [sh lk_w lk_r ths late_lock].
  - apply (S_cfg1 ss HS).
  - intros t'. unfold fupd. destruct (Nat.eqb_spec t' t); [subst; cbn|]; apply (S_cfg2 ss HS).
  - apply (S_pend ss HS).
  - pose proof (S_sh ss HS) as H. unfold keep_of in *. cbn [lk_w sh]. now rewrite Hw in H.
  - intros t'. unfold fupd. destruct (Nat.eqb_spec t' t).
    + subst. rewrite (reader_not_sections _ k); [discriminate|auto].
    + intro H. rewrite <- Hw. apply (S_wsec ss HS t' H).
  - intros t'. unfold fupd. destruct (Nat.eqb_spec t' t); [now left|]. intro H. right. apply (S_rsec ss HS t' H).
  - discriminate.
  - intros t'. unfold fupd. destruct (Nat.eqb_spec t' t).
    + subst. unfold holds. cbn. rewrite Hsp. discriminate.
    + apply (S_held ss HS).
  - intros t' _. exact Hsh.
  - discriminate.
  - discriminate.
Qed.

Lemma step_reader_acquire : forall ss t k,
  SInv ss -> t_spec (ths ss t) = TReader k -> t_pc (ths ss t) = PRLocked ->
  SInv (upd_sh ss t (set_pc (ths ss t) PPinned) (step (Acquire t) (sh ss))).
Proof.
  intros ss t k HS Hsp Hpc.
  assert (Hrs : rsec (ths ss t) = true) by (unfold rsec; now rewrite Hsp, Hpc).
  pose proof (S_rsec ss HS t Hrs) as Hin.
  pose proof (holder_excl ss t HS Hin) as Hw.
  assert (Hsh : shut (sh ss) = false).
  { apply (S_noshut ss HS t). unfold needs_open. now rewrite Hsp, Hpc. }
  assert (Hkeep : keep_of (upd_sh ss t (set_pc (ths ss t) PPinned) (step (Acquire t) (sh ss))) = keep_of ss).
  { eapply keep_of_reader; eauto. }
  pose proof (S_sh ss HS) as HK.
  assert (Hk1 : keep_of ss = [served (sh ss)]).
  { unfold keep_of, kdefault. now rewrite Hw, Hsh. }
  apply sinv_upd_sh.
  - exact HS.
  - cbn. apply (S_cfg2 ss HS).
  - cbn. apply (S_pend ss HS).
  - rewrite Hkeep. apply invK_acquire; auto. rewrite Hk1. unfold inb. cbn. now rewrite Nat.eqb_refl.
  - rewrite (reader_not_sections _ k); [discriminate|auto].
  - intros _. exact Hin.
  - intros _. unfold held. cbn. now rewrite Nat.eqb_refl.
  - intros t' Hne. unfold held. cbn. destruct (Nat.eqb_spec t t'); [congruence|auto].
  - intros t'. unfold fupd. destruct (Nat.eqb_spec t' t).
    + subst. unfold needs_open. cbn. rewrite Hsp. discriminate.
    + intro H. cbn. apply (S_noshut ss HS t' H).
  - rewrite Hw. discriminate.
  - rewrite Hw. discriminate.
  - rewrite Hw. discriminate.
Qed.

Lemma step_reader_runlock : forall ss t k,
  SInv ss -> t_spec (ths ss t) = TReader k -> t_pc (ths ss t) = PPinned ->
  SInv (mkSS (sh ss) (lk_w ss) (remove_tid t (lk_r ss)) (fupd (ths ss) t (set_pc (ths ss t) (PHold k))) (late_lock ss)).
Proof.
  intros ss t k HS Hsp Hpc.
  assert (Hrs : rsec (ths ss t) = true) by (unfold rsec; now rewrite Hsp, Hpc).
  pose proof (holder_excl ss t HS (S_rsec ss HS t Hrs)) as Hw.
  constructor; cbn [sh lk_w lk_r ths late_lock].
  - apply (S_cfg1 ss HS).
  - intros t'. unfold fupd. destruct (Nat.eqb_spec t' t); [subst; cbn|]; apply (S_cfg2 ss HS).
  - apply (S_pend ss HS).
  - pose proof (S_sh ss HS) as H. unfold keep_of in *. cbn [lk_w sh]. now rewrite Hw in *.
  - intros t'. unfold fupd. destruct (Nat.eqb_spec t' t).
    + subst. rewrite (reader_not_sections _ k); [discriminate|auto].
    + apply (S_wsec ss HS t').
  - intros t'. unfold fupd. destruct (Nat.eqb_spec t' t).
    + subst. unfold rsec. cbn. rewrite Hsp. discriminate.
    + intro H. apply in_remove_tid; auto. apply (S_rsec ss HS t' H).
  - rewrite Hw. discriminate.
  - intros t'. unfold fupd. destruct (Nat.eqb_spec t' t).
    + subst. intros _. apply (S_held ss HS t). unfold holds. now rewrite Hsp, Hpc.
    + apply (S_held ss HS).
  - intros t'. unfold fupd. destruct (Nat.eqb_spec t' t).
    + subst. unfold needs_open. cbn. rewrite Hsp. discriminate.
    + apply (S_noshut ss HS).
  - rewrite Hw. discriminate.
  - rewrite Hw. discriminate.
Qed.

Lemma step_reader_unpin : forall ss t k i,
  SInv ss -> t_spec (ths ss t) = TReader k -> t_pc (ths ss t) = PFreed ->
  lookup t (readers (sh ss)) = Some i ->
  SInv (upd_sh ss t (set_pc (ths ss t) PDone)
          (let s1 := on_wrapper i w_reader_unpin (sh ss) in set_readers (remove_r t (readers s1)) s1)).
Proof.
  intros ss t k i HS Hsp Hpc Hlk.
  set (s' := let s1 := on_wrapper i w_reader_unpin (sh ss) in set_readers (remove_r t (readers s1)) s1).
  pose proof (S_sh ss HS) as HK.
  pose proof (lookup_in _ _ _ Hlk) as Hin.
  pose proof (K_rd _ _ HK _ _ Hin) as Hi.
  assert (Hfr : served s' = served (sh ss) /\ shut s' = shut (sh ss) /\ nw s' = nw (sh ss) /\
                pending s' = pending (sh ss) /\ readers s' = remove_r t (readers (sh ss)) /\
                forall j, j <> i -> ws s' j = ws (sh ss) j).
  { subst s'. unfold on_wrapper, w_reader_unpin. destruct (sh ss). cbn.
    destruct (_ && _); cbn; repeat split; auto; intros j Hj; now rewrite fupd_neq. }
  destruct Hfr as (F1 & F2 & F3 & F4 & F5 & F6).
  assert (Hkeep : keep_of (upd_sh ss t (set_pc (ths ss t) PDone) s') = keep_of ss).
  { eapply keep_of_reader; eauto. }
  apply sinv_upd_sh.
  - exact HS.
  - cbn. apply (S_cfg2 ss HS).
  - rewrite F4. apply (S_pend ss HS).
  - rewrite Hkeep. subst s'. apply invK_unpin; auto.
  - rewrite (reader_not_sections _ k); [discriminate|auto].
  - unfold rsec. cbn. rewrite Hsp. discriminate.
  - unfold holds. cbn. rewrite Hsp. discriminate.
  - intros t' Hne. unfold held. rewrite F5, lookup_remove_r_other by auto. auto.
  - intros t'. unfold fupd. destruct (Nat.eqb_spec t' t).
    + subst. unfold needs_open. cbn. rewrite Hsp. discriminate.
    + intro H. rewrite F2. apply (S_noshut ss HS t' H).
  - intros _. unfold local_ok. cbn. now rewrite Hsp.
  - intros h Hne Hh. apply (local_ok_frame _ (sh ss)); auto; [|apply (S_local ss HS h Hh)].
    intros j Hj. rewrite F6; auto. intro X. subst j.
    rewrite (K_ref _ _ HK i Hi) in Hj. apply nheld_in in Hin. lia.
  - intro Hw. pose proof (S_holder ss HS t Hw) as X. unfold wsec in X. rewrite Hsp in X. discriminate.
Qed.

(* ------------------------------------------------------------------ write lock and unlock *)
Definition is_writer (sp : tspec) : bool :=
  match sp with TReload _ | TShutdown => true | _ => false end.

Lemma lock_free_true : forall ss, lock_free ss = true -> lk_w ss = None /\ lk_r ss = [].
Proof. intros ss H. unfold lock_free in H. destruct (lk_w ss); [discriminate|]. destruct (lk_r ss); [auto|discriminate]. Qed.

Lemma step_wlock : forall ss t,
  SInv ss -> is_writer (t_spec (ths ss t)) = true -> t_pc (ths ss t) = PStart ->
  lock_free ss = true -> shut (sh ss) = false ->
  SInv (mkSS (sh ss) (Some t) [] (fupd (ths ss) t (set_pc (ths ss t) PWLocked)) (late_lock ss)).
Proof.
  intros ss t HS Hsp Hpc Hlf Hsh. apply lock_free_true in Hlf. destruct Hlf as [Hw Hr].
  constructor; cbn [sh lk_w lk_r ths late_lock].
  - apply (S_cfg1 ss HS).
  - intros t'. unfold fupd. destruct (Nat.eqb_spec t' t); [subst; cbn|]; apply (S_cfg2 ss HS).
  - apply (S_pend ss HS).
  - pose proof (S_sh ss HS) as H. unfold keep_of in *. cbn [lk_w sh ths]. rewrite Hw in H.
    rewrite fupd_eq. unfold keep_th. cbn. destruct (t_spec (ths ss t)); auto.
  - intros t'. unfold fupd. destruct (Nat.eqb_spec t' t); [now subst|].
    intro H. pose proof (S_wsec ss HS t' H). congruence.
  - intros t'. unfold fupd. destruct (Nat.eqb_spec t' t).
    + subst. unfold rsec. cbn. destruct (t_spec (ths ss t)); discriminate.
    + intro H. rewrite <- Hr. apply (S_rsec ss HS t' H).
  - reflexivity.
  - intros t'. unfold fupd. destruct (Nat.eqb_spec t' t).
    + subst. unfold holds. cbn. destruct (t_spec (ths ss t)); discriminate.
    + apply (S_held ss HS).
  - intros t' _. exact Hsh.
  - intros h Hh. inversion Hh; subst h. rewrite fupd_eq. unfold local_ok. cbn.
    destruct (t_spec (ths ss t)); auto.
  - intros h Hh. inversion Hh; subst h. rewrite fupd_eq. unfold wsec. cbn.
    destruct (t_spec (ths ss t)); try discriminate; reflexivity.
Qed.

Lemma step_wunlock : forall ss t,
  SInv ss -> wsec (ths ss t) = true -> wsec (set_pc (ths ss t) PDone) = false ->
  keep_th (ths ss t) (sh ss) = kdefault (sh ss) ->
  SInv (mkSS (sh ss) None (lk_r ss) (fupd (ths ss) t (set_pc (ths ss t) PDone)) (late_lock ss)).
Proof.
  intros ss t HS Hws Hws' Hk. pose proof (S_wsec ss HS t Hws) as Hw.
  constructor; cbn [sh lk_w lk_r ths late_lock].
  - apply (S_cfg1 ss HS).
  - intros t'. unfold fupd. destruct (Nat.eqb_spec t' t); [subst; cbn|]; apply (S_cfg2 ss HS).
  - apply (S_pend ss HS).
  - pose proof (S_sh ss HS) as H. unfold keep_of in *. cbn [lk_w sh]. rewrite Hw in H. now rewrite <- Hk.
  - intros t'. unfold fupd. destruct (Nat.eqb_spec t' t); [subst; rewrite Hws'; discriminate|].
    intro H. pose proof (S_wsec ss HS t' H). congruence.
  - intros t'. unfold fupd. destruct (Nat.eqb_spec t' t).
    + subst. intro H. rewrite (S_excl ss HS t Hw). unfold rsec in *. cbn in H.
      unfold wsec in Hws. destruct (t_spec (ths ss t)); discriminate.
    + apply (S_rsec ss HS).
  - discriminate.
  - intros t'. unfold fupd. destruct (Nat.eqb_spec t' t).
    + subst. unfold holds. cbn. unfold wsec in Hws. destruct (t_spec (ths ss t)); discriminate.
    + apply (S_held ss HS).
  - intros t'. unfold fupd. destruct (Nat.eqb_spec t' t).
    + subst. unfold needs_open. cbn [set_pc t_spec t_pc]. destruct (t_spec (ths ss t)) eqn:E; try discriminate.
      change (wsec (set_pc (ths ss t) PDone) = true -> shut (sh ss) = false). rewrite Hws'. discriminate.
    + apply (S_noshut ss HS).
  - discriminate.
  - discriminate.
Qed.

(* ------------------------------------------------------------------ steps of the lock holder *)
Lemma others_not_needing : forall ss t t', SInv ss -> lk_w ss = Some t -> t' <> t ->
  needs_open (ths ss t') = false.
Proof.
  intros ss t t' HS Hw Hne. destruct (needs_open (ths ss t')) eqn:E; [|reflexivity]. exfalso.
  unfold needs_open in E. destruct (t_spec (ths ss t')) eqn:Esp; try discriminate.
  - destruct (t_pc (ths ss t')) eqn:Epc; try discriminate.
    assert (R : rsec (ths ss t') = true) by (unfold rsec; now rewrite Esp, Epc).
    pose proof (S_rsec ss HS t' R) as Hin. rewrite (S_excl ss HS t Hw) in Hin. destruct Hin.
  - pose proof (S_wsec ss HS t' E). congruence.
  - destruct (t_pc (ths ss t')) eqn:Epc; try discriminate.
    assert (W : wsec (ths ss t') = true) by (unfold wsec; now rewrite Esp, Epc).
    pose proof (S_wsec ss HS t' W). congruence.
Qed.

Lemma sinv_holder_step : forall ss t th' s',
  SInv ss -> lk_w ss = Some t ->
  is_variant (t_spec th') = false ->
  pending s' = [] -> readers s' = readers (sh ss) ->
  InvK (keep_th th' s') s' ->
  rsec th' = false -> holds th' = false ->
  (needs_open th' = true -> shut s' = false) ->
  local_ok th' s' ->
  wsec th' = true ->
  SInv (upd_sh ss t th' s').
Proof.
  intros ss t th' s' HS Hw Hto Hp Hrd HK Hr Hh Hno Hl Hws.
  apply sinv_upd_sh.
  - exact HS.
  - exact Hto.
  - exact Hp.
  - unfold keep_of. cbn [upd_sh lk_w ths sh]. rewrite Hw, fupd_eq. exact HK.
  - intros _. exact Hw.
  - rewrite Hr. discriminate.
  - rewrite Hh. discriminate.
  - intros t' Hne. unfold held. now rewrite Hrd.
  - intros t'. unfold fupd. destruct (Nat.eqb_spec t' t); [subst; auto|].
    rewrite (others_not_needing ss t t'); auto. discriminate.
  - intros _. exact Hl.
  - intros h Hne Hh'. congruence.
  - intros _. exact Hws.
Qed.

Lemma step_shutdown_destroy : forall ss t,
  SInv ss -> t_spec (ths ss t) = TShutdown -> t_pc (ths ss t) = PWLocked ->
  SInv (upd_sh ss t (set_pc (ths ss t) PDestroyed) (step Shutdown (sh ss))).
Proof.
  intros ss t HS Hsp Hpc.
  assert (W : wsec (ths ss t) = true) by (unfold wsec; now rewrite Hsp, Hpc).
  pose proof (S_wsec ss HS t W) as Hw.
  assert (Hsh : shut (sh ss) = false).
  { apply (S_noshut ss HS t). unfold needs_open. now rewrite Hsp, Hpc. }
  pose proof (S_sh ss HS) as HK. unfold keep_of in HK. rewrite Hw in HK.
  unfold keep_th in HK. rewrite Hsp in HK. unfold kdefault in HK. rewrite Hsh in HK.
  assert (Hfr : pending (step Shutdown (sh ss)) = pending (sh ss) /\
                readers (step Shutdown (sh ss)) = readers (sh ss) /\ shut (step Shutdown (sh ss)) = true).
  { cbn. unfold on_wrapper, w_destroy. destruct (sh ss). cbn. destruct (_ =? 0); cbn; auto. }
  destruct Hfr as (F1 & F2 & F3).
  apply sinv_holder_step; auto.
  - cbn. apply (S_cfg2 ss HS).
  - rewrite F1. apply (S_pend ss HS).
  - unfold keep_th. cbn [set_pc t_spec]. rewrite Hsp. unfold kdefault. rewrite F3.
    cbn [step]. apply invK_set_shut.
    apply (invK_ext (kremove (served (sh ss)) [served (sh ss)])).
    + apply invK_destroy; auto.
      * apply (K_served _ _ HK).
      * unfold inb. cbn. now rewrite Nat.eqb_refl.
    + intro i. cbn. rewrite Nat.eqb_refl. reflexivity.
  - unfold rsec. cbn. now rewrite Hsp.
  - unfold holds. cbn. now rewrite Hsp.
  - unfold needs_open. cbn. rewrite Hsp. discriminate.
  - unfold local_ok. cbn. now rewrite Hsp.
  - unfold wsec. cbn. now rewrite Hsp.
Qed.

(* ------------------------------------------------------------------ reload steps *)
Lemma reload_holder_facts : forall ss t c, SInv ss -> t_spec (ths ss t) = TReload c -> wsec (ths ss t) = true ->
  lk_w ss = Some t /\ shut (sh ss) = false /\ InvK (keep_th (ths ss t) (sh ss)) (sh ss) /\
  local_ok (ths ss t) (sh ss) /\ pending (sh ss) = [].
Proof.
  intros ss t c HS Hsp W. pose proof (S_wsec ss HS t W) as Hw. split; [|split; [|split; [|split]]]; auto.
  - apply (S_noshut ss HS t). unfold needs_open. rewrite Hsp. exact W.
  - pose proof (S_sh ss HS) as HK. unfold keep_of in HK. now rewrite Hw in HK.
  - apply (S_local ss HS t Hw).
  - apply (S_pend ss HS).
Qed.

Ltac holder_step HS Hw :=
  apply sinv_holder_step; [exact HS|exact Hw|first [reflexivity|cbn; apply (S_cfg2 _ HS)]| | | | | | |
    |unfold wsec; cbn; repeat match goal with H : t_spec _ = _ |- _ => rewrite H end;
     try match goal with |- context[cand_key ?c] => destruct (cand_key c) end; reflexivity].

Lemma inb1 : forall i, inb i [i] = true.
Proof. intro i. unfold inb. cbn. now rewrite Nat.eqb_refl. Qed.

Lemma step_reload_call : forall ss t c,
  SInv ss -> t_spec (ths ss t) = TReload c -> t_pc (ths ss t) = PWLocked ->
  SInv (upd_sh ss t (mkT (t_spec (ths ss t)) PCalled (served (sh ss)) (t_new (ths ss t)))
          (go_reload_begin (ws (sh ss) (served (sh ss))) (sh ss))).
Proof.
  intros ss t c HS Hsp Hpc.
  assert (W : wsec (ths ss t) = true) by (unfold wsec; now rewrite Hsp, Hpc).
  destruct (reload_holder_facts ss t c HS Hsp W) as (Hw & Hsh & HK & Hl & Hp).
  unfold keep_th in HK. rewrite Hsp, Hpc in HK. unfold kdefault in HK. rewrite Hsh in HK.
  holder_step HS Hw.
  - exact Hp.
  - reflexivity.
  - unfold keep_th. cbn. rewrite Hsp. unfold kdefault. cbn. rewrite Hsh.
    unfold go_reload_begin. apply invK_touch; auto. apply (invK_open_kept _ _ _ HK). apply inb1.
  - unfold rsec. cbn. now rewrite Hsp.
  - unfold holds. cbn. now rewrite Hsp.
  - intros _. exact Hsh.
  - unfold local_ok. cbn. now rewrite Hsp.
Qed.

Lemma step_reload_ret : forall ss t c ss',
  SInv ss -> t_spec (ths ss t) = TReload c -> t_pc (ths ss t) = PCalled ->
  sstep t ss = Some ss' -> SInv ss'.
Proof.
  intros ss t c ss' HS Hsp Hpc Hst.
  assert (W : wsec (ths ss t) = true) by (unfold wsec; now rewrite Hsp, Hpc).
  destruct (reload_holder_facts ss t c HS Hsp W) as (Hw & Hsh & HK & Hl & Hp).
  unfold keep_th in HK. rewrite Hsp, Hpc in HK. unfold kdefault in HK. rewrite Hsh in HK.
  unfold local_ok in Hl. rewrite Hsp, Hpc in Hl.
  pose proof (invK_open_kept _ _ _ HK (inb1 _)) as Hopen.
  pose proof (K_bk _ _ HK _ (K_served _ _ HK)) as Hlt.
  unfold sstep in Hst. rewrite Hsp, Hpc, Hl in Hst.
  destruct c as [k|k|].
  - (* fresh backend *)
    rewrite go_end_new in Hst.
    destruct (Nat.eqb_spec (nb (sh ss)) (w_bk (ws (sh ss) (served (sh ss))))) as [|Hne]; [lia|].
    inversion Hst; subst ss'; clear Hst.
    holder_step HS Hw.
    + exact Hp.
    + reflexivity.
    + unfold keep_th. cbn [t_spec t_pc t_new]. try rewrite Hsp.
      change (served (add_wrapper _ _)) with (served (sh ss)).
      change (nw (touch _ _ _)) with (nw (sh ss)).
      apply (invK_new_candidate [served (sh ss)]); auto.
    + unfold rsec. cbn. try rewrite Hsp; reflexivity.
    + unfold holds. cbn. now try rewrite Hsp.
    + intros _. exact Hsh.
    + unfold local_ok. cbn [t_spec t_pc t_new t_f]. try rewrite Hsp.
      change (nw (touch _ _ _)) with (nw (sh ss)). cbn.
      pose proof (K_served _ _ HK). repeat split; auto; try lia. now rewrite fupd_eq.
  - (* same backend *)
    cbn [go_reload_end] in Hst. rewrite Nat.eqb_refl in Hst. inversion Hst; subst ss'; clear Hst.
    holder_step HS Hw.
    + exact Hp.
    + reflexivity.
    + unfold keep_th. cbn. try rewrite Hsp. unfold kdefault. cbn. rewrite Hsh. apply invK_touch; auto.
    + unfold rsec. cbn. try rewrite Hsp; reflexivity.
    + unfold holds. cbn. now try rewrite Hsp.
    + intros _. exact Hsh.
    + unfold local_ok. cbn. now try rewrite Hsp.
  - (* open error *)
    cbn [go_reload_end] in Hst. inversion Hst; subst ss'; clear Hst.
    holder_step HS Hw.
    + exact Hp.
    + reflexivity.
    + unfold keep_th. cbn. try rewrite Hsp. unfold kdefault. cbn. rewrite Hsh. apply invK_touch; auto.
    + unfold rsec. cbn. try rewrite Hsp; reflexivity.
    + unfold holds. cbn. now try rewrite Hsp.
    + intros _. exact Hsh.
    + unfold local_ok. cbn. now try rewrite Hsp.
Qed.

Lemma step_reload_validate_same : forall ss t c ss',
  SInv ss -> t_spec (ths ss t) = TReload c -> t_pc (ths ss t) = PRetSame ->
  sstep t ss = Some ss' -> SInv ss'.
Proof.
  intros ss t c ss' HS Hsp Hpc Hst.
  assert (W : wsec (ths ss t) = true) by (unfold wsec; now rewrite Hsp, Hpc).
  destruct (reload_holder_facts ss t c HS Hsp W) as (Hw & Hsh & HK & Hl & Hp).
  unfold keep_th in HK. rewrite Hsp, Hpc in HK. unfold kdefault in HK. rewrite Hsh in HK.
  unfold local_ok in Hl. rewrite Hsp, Hpc in Hl.
  pose proof (invK_open_kept _ _ _ HK (inb1 _)) as Hopen.
  unfold sstep in Hst. rewrite Hsp, Hpc, Hl, validate_fresh in Hst.
  assert (HK4 : InvK [served (sh ss)] (touches4 (w_bk (ws (sh ss) (served (sh ss)))) (sh ss))).
  { unfold touches4. ktouches. auto. }
  destruct (cand_key c); inversion Hst; subst ss'; clear Hst.
  - holder_step HS Hw.
    + exact Hp.
    + reflexivity.
    + unfold keep_th. cbn. try rewrite Hsp. exact HK4.
    + unfold rsec; cbn; try rewrite Hsp; reflexivity.
    + unfold holds; cbn; try rewrite Hsp; reflexivity.
    + intros _. exact Hsh.
    + unfold local_ok. cbn. try rewrite Hsp. apply (K_served _ _ HK).
  - holder_step HS Hw.
    + exact Hp.
    + reflexivity.
    + unfold keep_th, kdefault. cbn. try rewrite Hsp. rewrite Hsh. exact HK4.
    + unfold rsec; cbn; try rewrite Hsp; reflexivity.
    + unfold holds; cbn; try rewrite Hsp; reflexivity.
    + intros _. exact Hsh.
    + unfold local_ok. cbn. now try rewrite Hsp.
Qed.

Lemma validate_st_frame : forall s i key, w_ref (ws s i) = 0 -> w_destroyable (ws s i) = false ->
  let s' := on_wrapper i (w_validate_st key) s in
  served s' = served s /\ nw s' = nw s /\ shut s' = shut s /\ pending s' = pending s /\
  readers s' = readers s /\ w_ref (ws s' i) = 0.
Proof.
  intros s i key Hr Hd. unfold on_wrapper, w_validate_st.
  destruct (ws s i) as [b r d] eqn:E. cbn in Hr, Hd. subst r d. rewrite validate_fresh.
  cbn. rewrite fupd_eq. cbn. repeat split; reflexivity.
Qed.

Lemma step_reload_validate_new : forall ss t c ss',
  SInv ss -> t_spec (ths ss t) = TReload c -> t_pc (ths ss t) = PRetNew ->
  sstep t ss = Some ss' -> SInv ss'.
Proof.
  intros ss t c ss' HS Hsp Hpc Hst.
  assert (W : wsec (ths ss t) = true) by (unfold wsec; now rewrite Hsp, Hpc).
  destruct (reload_holder_facts ss t c HS Hsp W) as (Hw & Hsh & HK & Hl & Hp).
  unfold keep_th in HK. rewrite Hsp, Hpc in HK.
  unfold local_ok in Hl. rewrite Hsp, Hpc in Hl. destruct Hl as (Lf & Ln & Lne & Lr).
  assert (Hin : inb (t_new (ths ss t)) [served (sh ss); t_new (ths ss t)] = true).
  { unfold inb. cbn. rewrite Nat.eqb_refl. now rewrite orb_true_r. }
  pose proof (K_des _ _ HK _ Ln) as Hd. rewrite Hin in Hd. cbn in Hd.
  destruct (validate_st_frame (sh ss) (t_new (ths ss t)) (cand_key c) Lr Hd) as (F1 & F2 & F3 & F4 & F5 & F6).
  pose proof (invK_validate_st _ _ _ (cand_key c) HK Hin Lr) as HK'.
  unfold sstep in Hst. rewrite Hsp, Hpc in Hst. inversion Hst; subst ss'; clear Hst.
  holder_step HS Hw.
  - rewrite F4. exact Hp.
  - exact F5.
  - unfold keep_th. cbn [set_pc t_spec t_pc t_new]. rewrite F1.
    destruct (cand_key c); cbn [t_pc]; rewrite Hsp; exact HK'.
  - unfold rsec. cbn. rewrite Hsp. destruct (cand_key c); reflexivity.
  - unfold holds. cbn. rewrite Hsp. destruct (cand_key c); reflexivity.
  - intros _. rewrite F3. exact Hsh.
  - unfold local_ok. cbn [set_pc t_spec t_pc t_new t_f]. rewrite F1, F2.
    rewrite Hsp. destruct (cand_key c); repeat split; auto.
Qed.

Lemma destroy_frame : forall s i,
  let s' := on_wrapper i w_destroy s in
  served s' = served s /\ nw s' = nw s /\ shut s' = shut s /\ pending s' = pending s /\ readers s' = readers s.
Proof.
  intros s i. unfold on_wrapper, w_destroy. destruct s. cbn. destruct (_ =? 0); cbn; repeat split; reflexivity.
Qed.

Lemma step_reload_destroy_cand : forall ss t c,
  SInv ss -> t_spec (ths ss t) = TReload c -> t_pc (ths ss t) = PValidFail ->
  SInv (upd_sh ss t (set_pc (ths ss t) PFailed) (on_wrapper (t_new (ths ss t)) w_destroy (sh ss))).
Proof.
  intros ss t c HS Hsp Hpc.
  assert (W : wsec (ths ss t) = true) by (unfold wsec; now rewrite Hsp, Hpc).
  destruct (reload_holder_facts ss t c HS Hsp W) as (Hw & Hsh & HK & Hl & Hp).
  unfold keep_th in HK. rewrite Hsp, Hpc in HK.
  unfold local_ok in Hl. rewrite Hsp, Hpc in Hl. destruct Hl as (Lf & Ln & Lne & Lr).
  destruct (destroy_frame (sh ss) (t_new (ths ss t))) as (F1 & F2 & F3 & F4 & F5).
  holder_step HS Hw.
  - rewrite F4. exact Hp.
  - exact F5.
  - unfold keep_th, kdefault. cbn [set_pc t_spec t_pc]. rewrite Hsp, F3, Hsh, F1.
    apply (invK_ext (kremove (t_new (ths ss t)) [served (sh ss); t_new (ths ss t)])).
    + apply invK_destroy; auto. unfold inb. cbn. rewrite Nat.eqb_refl. now rewrite orb_true_r.
    + intro i. rewrite inb_kremove. unfold inb. cbn.
      destruct (Nat.eqb_spec i (served (sh ss))); destruct (Nat.eqb_spec i (t_new (ths ss t))); subst; cbn; congruence.
  - unfold rsec. cbn. now rewrite Hsp.
  - unfold holds. cbn. now rewrite Hsp.
  - intros _. rewrite F3. exact Hsh.
  - unfold local_ok. cbn. now rewrite Hsp.
Qed.

Lemma step_reload_destroy_old : forall ss t c,
  SInv ss -> t_spec (ths ss t) = TReload c -> t_pc (ths ss t) = PValidOk ->
  SInv (upd_sh ss t (set_pc (ths ss t) PDestroyed) (on_wrapper (t_f (ths ss t)) w_destroy (sh ss))).
Proof.
  intros ss t c HS Hsp Hpc.
  assert (W : wsec (ths ss t) = true) by (unfold wsec; now rewrite Hsp, Hpc).
  destruct (reload_holder_facts ss t c HS Hsp W) as (Hw & Hsh & HK & Hl & Hp).
  unfold keep_th in HK. rewrite Hsp, Hpc in HK.
  unfold local_ok in Hl. rewrite Hsp, Hpc in Hl. destruct Hl as (Lf & Ln & Lne & Lr).
  rewrite Lf.
  destruct (destroy_frame (sh ss) (served (sh ss))) as (F1 & F2 & F3 & F4 & F5).
  holder_step HS Hw.
  - rewrite F4. exact Hp.
  - exact F5.
  - unfold keep_th. cbn [set_pc t_spec t_pc t_new]. rewrite Hsp.
    apply (invK_ext (kremove (served (sh ss)) [served (sh ss); t_new (ths ss t)])).
    + apply invK_destroy; auto; [apply (K_served _ _ HK)|]. unfold inb. cbn. now rewrite Nat.eqb_refl.
    + intro i. rewrite inb_kremove. unfold inb. cbn.
      destruct (Nat.eqb_spec i (served (sh ss))); destruct (Nat.eqb_spec i (t_new (ths ss t))); subst; cbn; congruence.
  - unfold rsec. cbn. now rewrite Hsp.
  - unfold holds. cbn. now rewrite Hsp.
  - intros _. rewrite F3. exact Hsh.
  - unfold local_ok. cbn [set_pc t_spec t_pc t_new]. rewrite Hsp, F2. exact Ln.
Qed.

Lemma step_reload_swap : forall ss t c,
  SInv ss -> t_spec (ths ss t) = TReload c -> t_pc (ths ss t) = PDestroyed ->
  SInv (upd_sh ss t (set_pc (ths ss t) PSwapped) (set_served (t_new (ths ss t)) (sh ss))).
Proof.
  intros ss t c HS Hsp Hpc.
  assert (W : wsec (ths ss t) = true) by (unfold wsec; now rewrite Hsp, Hpc).
  destruct (reload_holder_facts ss t c HS Hsp W) as (Hw & Hsh & HK & Hl & Hp).
  unfold keep_th in HK. rewrite Hsp, Hpc in HK.
  unfold local_ok in Hl. rewrite Hsp, Hpc in Hl.
  holder_step HS Hw.
  - exact Hp.
  - reflexivity.
  - unfold keep_th, kdefault. cbn. rewrite Hsp, Hsh. apply invK_set_served; auto.
  - unfold rsec. cbn. now rewrite Hsp.
  - unfold holds. cbn. now rewrite Hsp.
  - intros _. exact Hsh.
  - unfold local_ok. cbn. now rewrite Hsp.
Qed.

(* ------------------------------------------------------------------ every step, every schedule *)
Lemma sstep_inv : forall ss t ss', SInv ss -> sstep t ss = Some ss' -> SInv ss'.
Proof.
  intros ss t ss' HS Hst.
  pose proof (S_cfg1 ss HS) as Hll. pose proof (S_cfg2 ss HS t) as Hnt.
  destruct (t_spec (ths ss t)) as [|k|c|c| |k] eqn:Hsp; try discriminate Hnt.
  - unfold sstep in Hst. rewrite Hsp in Hst. discriminate.
  - (* reader *)
    destruct (t_pc (ths ss t)) as [| | |n| | | | | | | | | | | | |] eqn:Hpc;
      unfold sstep in Hst; rewrite Hsp, Hpc in Hst; try discriminate.
    + destruct (lk_w ss) eqn:Hw; [discriminate|]. destruct (shut (sh ss)) eqn:Hsh; [discriminate|].
      inversion Hst; subst ss'. eapply step_reader_rlock; eauto.
    + inversion Hst; subst ss'. eapply step_reader_acquire; eauto.
    + inversion Hst; subst ss'. eapply step_reader_runlock; eauto.
    + assert (Hh : holds (ths ss t) = true) by (unfold holds; now rewrite Hsp, Hpc).
      pose proof (S_held ss HS t Hh) as Hheld. unfold held in Hheld.
      destruct (lookup t (readers (sh ss))) as [i|] eqn:Hlk; [|discriminate].
      destruct n as [|j].
      * try rewrite Hlk in Hst. inversion Hst; subst ss'.
        eapply step_reader_touch; eauto; unfold holds, rsec; cbn; rewrite Hsp; reflexivity.
      * cbn [step] in Hst. try rewrite Hlk in Hst. inversion Hst; subst ss'.
        eapply step_reader_touch; eauto; unfold holds, rsec; cbn; rewrite Hsp; reflexivity.
    + destruct (lookup t (readers (sh ss))) as [i|] eqn:Hlk; [|discriminate].
      inversion Hst; subst ss'. eapply step_reader_unpin; eauto.
  - (* reload *)
    destruct (t_pc (ths ss t)) as [| | |n| | | | | | | | | | | | |] eqn:Hpc;
      try (unfold sstep in Hst; rewrite Hsp, Hpc in Hst; discriminate).
    + unfold sstep in Hst. rewrite Hsp, Hpc, Hll in Hst.
      destruct (shut (sh ss)) eqn:Hsh; [discriminate|].
      destruct (lock_free ss) eqn:Hlf; [|discriminate].
      inversion Hst; subst ss'. rewrite <- Hll. apply step_wlock; auto. now rewrite Hsp.
    + unfold sstep in Hst. rewrite Hsp, Hpc in Hst. inversion Hst; subst ss'.
      rewrite <- Hsp. eapply step_reload_call; eauto.
    + eapply step_reload_ret; eauto.
    + eapply step_reload_validate_same; eauto.
    + eapply step_reload_validate_new; eauto.
    + unfold sstep in Hst. rewrite Hsp, Hpc in Hst. inversion Hst; subst ss'.
      eapply step_reload_destroy_old; eauto.
    + unfold sstep in Hst. rewrite Hsp, Hpc in Hst. inversion Hst; subst ss'.
      eapply step_reload_destroy_cand; eauto.
    + unfold sstep in Hst. rewrite Hsp, Hpc, Hll in Hst. inversion Hst; subst ss'.
      eapply step_reload_swap; eauto.
    + (* unlock after the swap *)
      assert (W : wsec (ths ss t) = true) by (unfold wsec; now rewrite Hsp, Hpc).
      unfold sstep in Hst. rewrite Hsp, Hpc, (S_wsec ss HS t W), Nat.eqb_refl in Hst.
      inversion Hst; subst ss'. apply step_wunlock; auto.
      * unfold wsec. cbn. now rewrite Hsp.
      * unfold keep_th. now rewrite Hsp, Hpc.
    + (* unlock after a failure *)
      assert (W : wsec (ths ss t) = true) by (unfold wsec; now rewrite Hsp, Hpc).
      unfold sstep in Hst. rewrite Hsp, Hpc, (S_wsec ss HS t W), Nat.eqb_refl in Hst.
      inversion Hst; subst ss'. apply step_wunlock; auto.
      * unfold wsec. cbn. now rewrite Hsp.
      * unfold keep_th. now rewrite Hsp, Hpc.
  - (* shutdown *)
    destruct (t_pc (ths ss t)) as [| | |n| | | | | | | | | | | | |] eqn:Hpc;
      unfold sstep in Hst; rewrite Hsp, Hpc in Hst; try discriminate.
    + destruct (shut (sh ss)) eqn:Hsh; [discriminate|].
      destruct (lock_free ss) eqn:Hlf; [|discriminate].
      inversion Hst; subst ss'. apply step_wlock; auto. now rewrite Hsp.
    + inversion Hst; subst ss'. eapply step_shutdown_destroy; eauto.
    + inversion Hst; subst ss'. apply step_wunlock; auto.
      * unfold wsec. now rewrite Hsp, Hpc.
      * unfold wsec. cbn. now rewrite Hsp.
      * unfold keep_th. now rewrite Hsp.
Qed.

Lemma srun_inv : forall sched ss, SInv ss -> SInv (srun sched ss).
Proof.
  induction sched as [|t sched IH]; intros ss HS; [exact HS|].
  cbn. apply IH. unfold sstep_or_stay. destruct (sstep t ss) eqn:E; [eapply sstep_inv; eauto|exact HS].
Qed.

(* ------------------------------------------------------------------ what holds for every schedule *)
Lemma reachable_sinv : forall specs sched, no_variants specs = true ->
  SInv (srun sched (sinit specs false)).
Proof. intros. apply srun_inv. now apply sinv_init. Qed.

(* no call on a closed backend, no second Close - whatever the interleaving *)
Lemma smallstep_safe : forall specs sched, no_variants specs = true ->
  let ss := srun sched (sinit specs false) in
  no_use_after_close (log (sh ss)) /\ no_double_close (log (sh ss)).
Proof.
  intros specs sched Hnt ss. pose proof (S_sh ss (reachable_sinv specs sched Hnt)) as HK. split.
  - apply (K_log _ _ HK).
  - intro b. destruct (K_log _ _ HK) as (Hc & _). rewrite Hc. eapply invK_bks_le1; eauto.
Qed.

(* whenever nobody holds reloadMu for writing, the shared state satisfies the invariant of
   the ATOMIC model (Proofs/Refcount.Inv), hence the served and the pinned backends are
   open and every other backend ever opened has been closed exactly once *)
Lemma smallstep_lockfree_atomic : forall specs sched, no_variants specs = true ->
  let ss := srun sched (sinit specs false) in
  lk_w ss = None -> Inv (sh ss) /\ handles_ok (snap (sh ss)).
Proof.
  intros specs sched Hnt ss Hw. pose proof (reachable_sinv specs sched Hnt) as HS. fold ss in HS.
  assert (HI : Inv (sh ss)).
  { apply invK_inv; [|apply (S_pend ss HS)]. pose proof (S_sh ss HS) as HK. unfold keep_of in HK. now rewrite Hw in HK. }
  split; [exact HI|now apply inv_handles].
Qed.

Definition quiet (ss : sstate) : Prop := forall t, finished (ths ss t) = true.

Lemma smallstep_quiet_unlocked : forall specs sched, no_variants specs = true ->
  let ss := srun sched (sinit specs false) in quiet ss -> lk_w ss = None.
Proof.
  intros specs sched Hnt ss Hq. pose proof (reachable_sinv specs sched Hnt) as HS. fold ss in HS.
  destruct (lk_w ss) as [h|] eqn:E; [|reflexivity]. exfalso.
  pose proof (S_holder ss HS h E) as W. specialize (Hq h). unfold finished in Hq. unfold wsec in W.
  destruct (t_spec (ths ss h)); try discriminate; destruct (t_pc (ths ss h)); discriminate.
Qed.

(* no leak: when all threads have finished (or merely: the write lock is free) and no reader
   is held, every backend ever opened other than the served one - after shutdown that one
   too - has been closed exactly once *)
Lemma smallstep_no_leak : forall specs sched, no_variants specs = true ->
  let ss := srun sched (sinit specs false) in
  lk_w ss = None -> readers (sh ss) = [] ->
  forall b, openedb (log (sh ss)) b = true ->
    (shut (sh ss) = true \/ b <> w_bk (ws (sh ss) (served (sh ss)))) -> closes (log (sh ss)) b = 1.
Proof.
  intros specs sched Hnt ss Hw Hrd b Hop Hb.
  destruct (smallstep_lockfree_atomic specs sched Hnt Hw) as [_ Hh]. fold ss in Hh.
  apply (handles_no_leak (snap (sh ss))); auto.
  - cbn. unfold pinned. now rewrite Hrd.
  - cbn. destruct (shut (sh ss)); [discriminate|]. destruct Hb as [Hb|Hb]; [discriminate|]. congruence.
Qed.

(* the lock: while a thread holds reloadMu for writing it is inside Reload or Close, no
   other thread is between Lock and Unlock of Reload / Close, none is between RLock and
   RUnlock of AcquireReader, and the reader count is zero.  So between the sub-steps of a
   reload only use / release of readers that already hold a pin can happen. *)
Lemma smallstep_mutex : forall specs sched, no_variants specs = true ->
  let ss := srun sched (sinit specs false) in
  forall t, lk_w ss = Some t ->
    wsec (ths ss t) = true /\ (forall t', t' <> t -> wsec (ths ss t') = false) /\
    (forall t', rsec (ths ss t') = false) /\ lk_r ss = [].
Proof.
  intros specs sched Hnt ss t Hw. pose proof (reachable_sinv specs sched Hnt) as HS. fold ss in HS.
  repeat split.
  - apply (S_holder ss HS t Hw).
  - intros t' Hne. destruct (wsec (ths ss t')) eqn:E; [|reflexivity].
    pose proof (S_wsec ss HS t' E). congruence.
  - intros t'. destruct (rsec (ths ss t')) eqn:E; [|reflexivity].
    pose proof (S_rsec ss HS t' E) as Hin. rewrite (S_excl ss HS t Hw) in Hin. destruct Hin.
  - apply (S_excl ss HS t Hw).
Qed.

(* ------------------------------------------------------------------ the model is not vacuous *)
(* thread 0 reloads to a new backend, thread 1 wants a reader while that is going on: its
   RLock is refused twice (inside DBI.Reload, and between validation and f.Destroy()); after
   the Unlock it gets its reader - on the new backend 1; in the end backend 0 is closed once *)
Definition ex_specs : list tspec := [TReload (CNew true); TReader 1].
Definition ex_sched : list nat := [0; 0; 1; 0; 0; 1; 0; 0; 0; 1; 1; 1; 1; 1; 1]%nat.

Lemma smallstep_blocked_acquire_example :
  sstep 1 (srun [0; 0]%nat (sinit ex_specs false)) = None /\
  sstep 1 (srun [0; 0; 1; 0; 0]%nat (sinit ex_specs false)) = None /\
  pinned (sh (srun [0; 0; 1; 0; 0; 1; 0; 0; 0; 1; 1]%nat (sinit ex_specs false))) = [1%nat] /\
  (let ss := srun ex_sched (sinit ex_specs false) in
   quiet ss /\ closes (log (sh ss)) 0 = 1 /\ closes (log (sh ss)) 1 = 0 /\ readers (sh ss) = []).
Proof.
  vm_compute. repeat split; try reflexivity.
  intros t. destruct t as [|[|t]]; vm_compute; try reflexivity.
  destruct t as [|[|t]]; reflexivity.
Qed.

(* ------------------------------------------------------------------ it is the lock that does it *)
(* variant c06f: FBDNSDB.Reload takes the write lock only around the swap.  The reader gets
   in between f.Destroy() (which closed backend 0) and the swap: NewContext, ForEach and
   FreeContext on a closed backend, and a second Close when it releases. *)
Lemma smallstep_late_lock_refuted :
  exists specs sched, no_variants specs = true /\
    let ss := srun sched (sinit specs true) in
    ~ no_use_after_close (log (sh ss)) /\ ~ no_double_close (log (sh ss)).
Proof.
  exists ex_specs, [0; 0; 0; 0; 0; 1; 1; 1; 1; 1; 1; 0; 0]%nat. split; [reflexivity|]. split.
  - intro H. apply no_use_after_closeb_iff in H. vm_compute in H. discriminate.
  - intro H. apply no_double_closeb_iff in H. vm_compute in H. discriminate.
Qed.

(* F28 in this model: the reload goroutine of a timed-out reload is a reload sub-step that
   runs WITHOUT reloadMu.  Thread 0 times out inside DBI.Reload and unlocks; thread 1 reloads
   to a new backend and closes backend 0; then the abandoned call of thread 0 returns. *)
Lemma smallstep_f28_refuted :
  exists specs sched,
    ~ no_use_after_close (log (sh (srun sched (sinit specs false)))).
Proof.
  exists [TReloadTimeout CErr; TReload (CNew true)], [0; 0; 0; 1; 1; 1; 1; 1; 1; 1; 0]%nat.
  intro H. apply no_use_after_closeb_iff in H. vm_compute in H. discriminate.
Qed.

(* variant c06h: DataReader.Close decrements refCount atomically OUTSIDE DB.l and only then
   takes the lock to test destroyable && refCount = 0.  Thread 0 (the last reader of backend
   0) decrements to 0; thread 1 reloads to a new backend: f.Destroy() sees refCount = 0 and
   closes backend 0; then thread 0 takes the lock, finds the wrapper destroyable with
   refCount 0 and closes backend 0 a second time.  The release must be ONE critical section
   of DB.l (which is what every sub-step of TReader is). *)
Lemma smallstep_split_release_refuted :
  exists specs sched,
    let ss := srun sched (sinit specs false) in
    quiet ss /\ ~ no_double_close (log (sh ss)).
Proof.
  exists [TReaderSplit 0; TReload (CNew true)], [0; 0; 0; 0; 0; 1; 1; 1; 1; 1; 1; 1; 0]%nat. split.
  - intros t. destruct t as [|[|t]]; vm_compute; try reflexivity. destruct t as [|[|t]]; reflexivity.
  - intro H. apply no_double_closeb_iff in H. vm_compute in H. discriminate.
Qed.
