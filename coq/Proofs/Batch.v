(* Proofs about Model/Batch.v: getAffectedKeys returns the strictly sorted set of
   keys, integrate consumes both pair lists completely (its internal error is
   unreachable), ExecuteBatch acts per key as additions then deletions, and the
   store refines the map of lists over arbitrary operation histories. *)
From DnsV Require Import Model.Batch Spec.MapOfLists Proofs.MultiValue Proofs.MapOfLists Proofs.BytesOrder.
From Coq Require Import Permutation Sorted.
Open Scope N_scope.

(* ---------------------------------------------------------------- vocabulary *)

Definition key_le (x y : kv) : Prop := kle (fst x) (fst y).
(* what is assumed about sort.Slice with less = bytes.Compare(key i, key j) < 0 *)
Definition sort_ok (sort : list kv -> list kv) : Prop :=
  forall l, Permutation (sort l) l /\ Sorted key_le (sort l).
Definition SS (l : list kv) : Prop := StronglySorted key_le l.
Definition keysof (l : list kv) : list bytes := map fst l.
Definition ge_all (k : bytes) (l : list kv) : Prop := Forall (fun x => kle k (fst x)) l.
Definition kvs_ok (l : list kv) : Prop := Forall (fun p => okv (snd p)) l.

(* every stored value is a non-empty sequence of framed values *)
Definition store_ok (s : store) : Prop :=
  forall k d, s k = Some d -> exists vs, vs <> [] /\ Forall okv vs /\ d = encode vs.
(* abstraction: the list of values ForEach reads *)
Definition abs (s : store) : smap := fun k => fst (rdb_for_each s k).

Lemma sort_ok_SS : forall sort l, sort_ok sort -> SS (sort l).
Proof.
  intros sort l H. destruct (H l) as [_ S]. apply Sorted_StronglySorted; [|exact S].
  intros x y z. unfold key_le. apply kle_trans.
Qed.

Lemma SS_tail : forall x l, SS (x :: l) -> SS l.
Proof. intros x l H. inversion H; assumption. Qed.

Lemma SS_head : forall k v l, SS ((k, v) :: l) -> ge_all k l.
Proof. intros k v l H. inversion H; subst. assumption. Qed.

Lemma ge_all_trans : forall k k' l, kle k k' -> ge_all k' l -> ge_all k l.
Proof.
  intros k k' l H G. unfold ge_all in *. eapply Forall_impl; [|exact G].
  intros x Hx. simpl in Hx. eapply kle_trans; eassumption.
Qed.

(* ---------------------------------------------------------------- getAffectedKeys *)

Definition lb (last : option bytes) (k : bytes) : Prop :=
  match last with Some lk => klt lk k | None => True end.
Definition lbe_all (last : option bytes) (l : list kv) : Prop :=
  match last with Some lk => ge_all lk l | None => True end.

Lemma dup_head_true : forall l last, dup_head l last = true ->
  exists k v l', l = (k, v) :: l' /\ last = Some k.
Proof.
  intros [|[k v] l'] [lk|]; simpl; intro H; try discriminate.
  apply bytes_eqb_eq in H. subst. eauto.
Qed.

Lemma dup_head_false : forall k v l' last, dup_head ((k, v) :: l') last = false -> last <> Some k.
Proof.
  intros k v l' [lk|]; simpl; intro H; [|discriminate].
  apply bytes_eqb_neq in H. congruence.
Qed.

Lemma lbe_all_tail : forall last x l, lbe_all last (x :: l) -> lbe_all last l.
Proof. intros [lk|] x l H; simpl in *; [inversion H; assumption | exact I]. Qed.

(* a head that is not the last key is strictly above it *)
Lemma lb_of_head : forall last k v l, lbe_all last ((k, v) :: l) -> last <> Some k -> lb last k.
Proof.
  intros [lk|] k v l H N; simpl in *; [|exact I].
  inversion H; subst. simpl in *. apply kle_neq_klt; [assumption | congruence].
Qed.

Lemma lb_trans : forall last k k', lb last k -> klt k k' -> lb last k'.
Proof. intros [lk|] k k' H1 H2; simpl in *; [eapply klt_trans; eassumption | exact I]. Qed.

Lemma lb_neq : forall last k, lb last k -> last <> Some k.
Proof. intros [lk|] k H; simpl in *; [|discriminate]. intro E. inversion E; subst. exact (klt_irrefl k H). Qed.

Definition affected_post (a d : list kv) (last : option bytes) (ks : list bytes) : Prop :=
  StronglySorted klt ks /\ Forall (lb last) ks /\
  (forall k, In k ks <-> (In k (keysof a ++ keysof d) /\ last <> Some k)).

(* pushing the key k: what the recursive call on (a', d') with last = Some k returned, with k in front *)
Lemma affected_push : forall a d a' d' last k ks',
  lb last k ->
  affected_post a' d' (Some k) ks' ->
  (forall x, In x (keysof a ++ keysof d) <-> x = k \/ In x (keysof a' ++ keysof d')) ->
  affected_post a d last (k :: ks').
Proof.
  intros a d a' d' last k ks' L [S [F I]] M. unfold affected_post.
  assert (F' : Forall (lb last) ks').
  { eapply Forall_impl; [|exact F]. intros x Hx. simpl in Hx. eapply lb_trans; eassumption. }
  split; [constructor; assumption|]. split; [constructor; assumption|].
  intro x. split.
  - intros [E|H].
    + subst x. split; [apply M; left; reflexivity | apply lb_neq; assumption].
    + split.
      * apply I in H. apply M. right. tauto.
      * apply lb_neq. rewrite Forall_forall in F'. apply F'. assumption.
  - intros [H N]. apply M in H. destruct H as [E|H]; [left; congruence|].
    destruct (list_eq_dec N.eq_dec k x) as [E|E]; [left; assumption|].
    right. apply I. split; [assumption | congruence].
Qed.

Lemma affected_loop_spec : forall fuel a d last,
  (length a + length d < fuel)%nat -> SS a -> SS d -> lbe_all last a -> lbe_all last d ->
  exists ks, affected_loop fuel a d last = Some ks /\ affected_post a d last ks.
Proof.
  induction fuel as [|f IH]; intros a d last F Sa Sd La Ld; [lia|].
  cbn [affected_loop].
  destruct (dup_head a last) eqn:Da.
  { (* skip duplicate in addedPairs *)
    destruct (dup_head_true _ _ Da) as [k [v [a' [Ea El]]]]. subst a last. cbn [tl].
    destruct (IH a' d (Some k)) as [ks [R [S [Fl I]]]];
      [simpl in F; lia | eapply SS_tail; eassumption | assumption | eapply lbe_all_tail; eassumption | assumption |].
    exists ks. split; [exact R|]. split; [assumption|]. split; [assumption|]. intro x. split.
    - intro H. apply I in H. destruct H as [H N]. split; [|assumption]. simpl. right. assumption.
    - intros [H N]. apply I. split; [|assumption]. simpl in H. destruct H as [E|H]; [congruence | assumption]. }
  destruct (dup_head d last) eqn:Dd.
  { (* skip duplicate in deletedPairs *)
    destruct (dup_head_true _ _ Dd) as [k [v [d' [Ed El]]]]. subst d last. cbn [tl].
    destruct (IH a d' (Some k)) as [ks [R [S [Fl I]]]];
      [simpl in F; lia | assumption | eapply SS_tail; eassumption | assumption | eapply lbe_all_tail; eassumption |].
    exists ks. split; [exact R|]. split; [assumption|]. split; [assumption|]. intro x. split.
    - intro H. apply I in H. destruct H as [H N]. split; [|assumption].
      unfold keysof in *. simpl. rewrite in_app_iff in *. simpl. tauto.
    - intros [H N]. apply I. split; [|assumption].
      unfold keysof in *. simpl in H. rewrite in_app_iff in *. simpl in H. destruct H as [H|[E|H]]; [tauto | congruence | tauto]. }
  destruct a as [|[ka va] a'], d as [|[kd vd] d']; cbv beta iota.
  - (* both exhausted *)
    exists []. split; [reflexivity|]. split; [constructor|]. split; [constructor|]. intro x. simpl. tauto.
  - (* pushDeleted, addedPairs exhausted *)
    destruct (IH [] d' (Some kd)) as [ks [R P]];
      [simpl in *; lia | constructor | eapply SS_tail; eassumption | exact (Forall_nil _) | unfold lbe_all; eapply SS_head; eassumption |].
    rewrite R. exists (kd :: ks). split; [reflexivity|].
    eapply affected_push; [eapply lb_of_head; [eassumption | eapply dup_head_false; eassumption] | exact P |].
    intro x. unfold keysof. simpl. rewrite ?in_app_iff. simpl. intuition congruence.
  - (* pushAdded, deletedPairs exhausted *)
    destruct (IH a' [] (Some ka)) as [ks [R P]];
      [simpl in *; lia | eapply SS_tail; eassumption | constructor | unfold lbe_all; eapply SS_head; eassumption | exact (Forall_nil _) |].
    rewrite R. exists (ka :: ks). split; [reflexivity|].
    eapply affected_push; [eapply lb_of_head; [eassumption | eapply dup_head_false; eassumption] | exact P |].
    intro x. unfold keysof. simpl. rewrite ?in_app_iff. simpl. intuition congruence.
  - destruct (bltb ka kd) eqn:C.
    + (* pushAdded: ka < kd *)
      match goal with |- context [affected_loop _ ?x ?y ?z] => destruct (IH x y z) as [ks [R P]] end;
        [simpl in *; lia | eapply SS_tail; eassumption | assumption | unfold lbe_all; eapply SS_head; eassumption | |].
      { simpl. constructor; [simpl; apply klt_kle; exact C|].
        eapply ge_all_trans; [apply klt_kle; exact C | eapply SS_head; eassumption]. }
      rewrite R. exists (ka :: ks). split; [reflexivity|].
      eapply affected_push; [eapply lb_of_head; [eassumption | eapply dup_head_false; eassumption] | exact P |].
      intro x. unfold keysof. simpl. rewrite ?in_app_iff. simpl. intuition congruence.
    + (* pushDeleted: kd <= ka *)
      match goal with |- context [affected_loop _ ?x ?y ?z] => destruct (IH x y z) as [ks [R P]] end;
        [simpl in *; lia | assumption | eapply SS_tail; eassumption | | unfold lbe_all; eapply SS_head; eassumption |].
      { simpl. constructor; [simpl; exact C|].
        eapply ge_all_trans; [exact C | eapply SS_head; eassumption]. }
      rewrite R. exists (kd :: ks). split; [reflexivity|].
      eapply affected_push; [eapply lb_of_head; [eassumption | eapply dup_head_false; eassumption] | exact P |].
      intro x. unfold keysof. simpl. rewrite ?in_app_iff. simpl. intuition congruence.
Qed.

(* getAffectedKeys: defined (fuel suffices), strictly increasing, exactly the keys of the batch *)
Lemma affected_keys_spec : forall a d, SS a -> SS d ->
  exists ks, affected_keys a d = Some ks /\ StronglySorted klt ks /\
             (forall k, In k ks <-> In k (keysof a ++ keysof d)).
Proof.
  intros a d Sa Sd. unfold affected_keys.
  destruct (affected_loop_spec (S (length a + length d)) a d None) as [ks [R [S [_ I]]]];
    [lia | assumption | assumption | exact I | exact I |].
  exists ks. split; [exact R|]. split; [exact S|].
  intro k. rewrite I. split; [tauto | intro; split; [assumption | discriminate]].
Qed.

(* ---------------------------------------------------------------- integrate *)

(* the pairs whose key is not key *)
Definition other (key : bytes) (l : list kv) : list kv :=
  filter (fun x => negb (bytes_eqb (fst x) key)) l.

Lemma other_cons : forall key k v l,
  other key ((k, v) :: l) = if bytes_eqb k key then other key l else (k, v) :: other key l.
Proof. intros. unfold other. simpl. destruct (bytes_eqb k key); reflexivity. Qed.

Lemma Forall_filter' : forall {A} (P : A -> Prop) f l, Forall P l -> Forall P (filter f l).
Proof.
  intros A P f l H. rewrite Forall_forall in *. intros x Hx. apply filter_In in Hx. apply H. tauto.
Qed.

Lemma SS_filter : forall f l, SS l -> SS (filter f l).
Proof.
  induction l as [|x l IH]; intro H; simpl; [constructor|].
  inversion H; subst. destruct (f x); [constructor; [apply IH; assumption | apply Forall_filter'; assumption] | apply IH; assumption].
Qed.

Lemma in_other : forall key x l, In x (other key l) <-> In x l /\ fst x <> key.
Proof.
  intros. unfold other. rewrite filter_In. rewrite negb_true_iff. rewrite bytes_eqb_neq. tauto.
Qed.

Lemma none_with_key : forall key l, (forall x, In x l -> fst x <> key) -> other key l = l /\ vals_of key l = [].
Proof.
  induction l as [|[k v] l IH]; intro H; [split; reflexivity|].
  assert (E : bytes_eqb k key = false) by (apply bytes_eqb_neq; apply (H (k, v)); left; reflexivity).
  destruct IH as [I1 I2]; [intros x Hx; apply H; right; assumption|].
  rewrite other_cons, vals_of_cons, E. rewrite I1, I2. split; reflexivity.
Qed.

(* in a sorted list whose keys are all >= key, a head with another key means key does not occur *)
Lemma sorted_head_other : forall key k v l, SS ((k, v) :: l) -> ge_all key ((k, v) :: l) -> k <> key ->
  forall x, In x ((k, v) :: l) -> fst x <> key.
Proof.
  intros key k v l S G N x [E|Hx]; [subst; exact N|].
  intro E. apply N. apply kle_antisym.
  - pose proof (SS_head _ _ _ S) as Hh. unfold ge_all in Hh. rewrite Forall_forall in Hh.
    specialize (Hh x Hx). simpl in Hh. rewrite E in Hh. exact Hh.
  - inversion G; subst. assumption.
Qed.

Lemma ge_all_tail : forall key x l, ge_all key (x :: l) -> ge_all key l.
Proof. intros key x l H. inversion H; assumption. Qed.

Lemma consume_adds_spec : forall a key val, SS a -> ge_all key a ->
  consume_adds a key val = (other key a, val ++ encode (vals_of key a)).
Proof.
  induction a as [|[k v] a' IH]; intros key val S G.
  - simpl. rewrite app_nil_r. reflexivity.
  - cbn [consume_adds]. destruct (bytes_eqb k key) eqn:E.
    + rewrite IH by (eapply SS_tail || eapply ge_all_tail; eassumption).
      rewrite other_cons, vals_of_cons, E. rewrite append_values_encode. cbn [encode].
      rewrite app_nil_r, <- app_assoc. reflexivity.
    + apply bytes_eqb_neq in E.
      destruct (none_with_key key ((k, v) :: a') (sorted_head_other key k v a' S G E)) as [O V].
      rewrite O, V. cbn [encode]. rewrite app_nil_r. reflexivity.
Qed.

(* whatever the stored bytes are: if the deletions of key succeed, exactly the pairs of key are consumed *)
Lemma consume_dels_shape : forall d key val d1 val1, SS d -> ge_all key d ->
  consume_dels d key val = Ok (d1, val1) -> d1 = other key d.
Proof.
  induction d as [|[k v] d' IH]; intros key val d1 val1 S G H.
  - simpl in H. inversion H. reflexivity.
  - cbn [consume_dels] in H. destruct (bytes_eqb k key) eqn:E.
    + destruct (del_value val v) as [val'|e]; [|discriminate].
      rewrite other_cons, E. eapply IH; [eapply SS_tail; eassumption | eapply ge_all_tail; eassumption | exact H].
    + apply bytes_eqb_neq in E. inversion H; subst.
      destruct (none_with_key key ((k, v) :: d') (sorted_head_other key k v d' S G E)) as [O _]. symmetry. exact O.
Qed.

Lemma consume_dels_spec : forall d key vs, SS d -> ge_all key d -> Forall okv vs ->
  consume_dels d key (encode vs) =
  match remove_firsts (vals_of key d) vs with
  | Some vs' => Ok (other key d, encode vs')
  | None => Err E_NXVAL
  end.
Proof.
  induction d as [|[k v] d' IH]; intros key vs S G W.
  - reflexivity.
  - cbn [consume_dels]. rewrite other_cons, vals_of_cons. destruct (bytes_eqb k key) eqn:E.
    + rewrite del_value_encode by assumption. cbn [remove_firsts].
      destruct (remove_first v vs) as [vs1|] eqn:R; [|reflexivity].
      apply IH; [eapply SS_tail; eassumption | eapply ge_all_tail; eassumption | eapply remove_first_Forall; eassumption].
    + apply bytes_eqb_neq in E.
      destruct (none_with_key key ((k, v) :: d') (sorted_head_other key k v d' S G E)) as [O V].
      rewrite vals_of_cons in V. rewrite other_cons in O.
      apply bytes_eqb_neq in E. rewrite E in V, O. rewrite V, O. reflexivity.
Qed.

(* the keys list covers a sorted pair list: all its keys are >= the first key *)
Lemma covered_ge_all : forall k r (l : list kv), StronglySorted klt (k :: r) ->
  (forall x, In x l -> In (fst x) (k :: r)) -> ge_all k l.
Proof.
  intros k r l S C. unfold ge_all. rewrite Forall_forall. intros x Hx.
  destruct (C x Hx) as [E|I]; [rewrite E; apply kle_refl|].
  inversion S; subst. rewrite Forall_forall in H2. apply klt_kle. apply H2. assumption.
Qed.

Lemma covered_other : forall k r (l : list kv),
  (forall x, In x l -> In (fst x) (k :: r)) -> forall x, In x (other k l) -> In (fst x) r.
Proof.
  intros k r l C x Hx. apply in_other in Hx. destruct Hx as [Hx N].
  destruct (C x Hx) as [E|I]; [congruence | assumption].
Qed.

Lemma klt_head_notin : forall k r, StronglySorted klt (k :: r) -> ~ In k r.
Proof.
  intros k r S I. inversion S; subst. rewrite Forall_forall in H2. exact (klt_irrefl k (H2 k I)).
Qed.

Lemma sorted_NoDup : forall ks, StronglySorted klt ks -> NoDup ks.
Proof.
  induction ks as [|k r IH]; intro S; constructor.
  - apply klt_head_notin. assumption.
  - apply IH. inversion S; assumption.
Qed.

Lemma vals_of_other : forall k k' l, k' <> k -> vals_of k' (other k l) = vals_of k' l.
Proof.
  induction l as [|[k0 v] l IH]; intro N; [reflexivity|].
  rewrite other_cons. destruct (bytes_eqb k0 k) eqn:E.
  - apply bytes_eqb_eq in E. subst. rewrite vals_of_cons.
    assert (X : bytes_eqb k k' = false) by (apply bytes_eqb_neq; congruence). rewrite X. apply IH. assumption.
  - rewrite !vals_of_cons. rewrite IH by assumption. reflexivity.
Qed.

Lemma vals_of_okv : forall k l, kvs_ok l -> Forall okv (vals_of k l).
Proof.
  intros k l H. unfold vals_of. apply Forall_map. apply Forall_filter'. exact H.
Qed.

(* what integrate leaves in dbValues, key by key *)
Fixpoint spec_vals (old : smap) (A D : list kv) (keys : list bytes) : option (list (bytes * list bytes)) :=
  match keys with
  | [] => Some []
  | k :: r =>
      match batch_key (old k) k A D with
      | None => None
      | Some l => option_map (cons (k, l)) (spec_vals old A D r)
      end
  end.

Lemma spec_vals_other : forall old A D k r, ~ In k r ->
  spec_vals old (other k A) (other k D) r = spec_vals old A D r.
Proof.
  induction r as [|k' r IH]; intro N; [reflexivity|].
  cbn [spec_vals]. unfold batch_key.
  assert (X : k' <> k) by (intro E; apply N; left; congruence).
  rewrite !vals_of_other by assumption. rewrite IH by (intro I; apply N; right; assumption). reflexivity.
Qed.

Definition enc_out (out : list (bytes * list bytes)) : list (bytes * bytes) :=
  map (fun p => (fst p, encode (snd p))) out.

Lemma integrate_loop_spec : forall keys A D (old : smap),
  StronglySorted klt keys -> SS A -> SS D ->
  (forall x, In x A -> In (fst x) keys) -> (forall x, In x D -> In (fst x) keys) ->
  (forall k, Forall okv (old k)) -> kvs_ok A ->
  integrate_loop (map (fun k => (k, encode (old k))) keys) A D =
  match spec_vals old A D keys with
  | Some out => Ok (enc_out out, [], [])
  | None => Err E_NXVAL
  end.
Proof.
  induction keys as [|k r IH]; intros A D old S Sa Sd Ca Cd Wo Wa.
  - destruct A as [|x A]; [|destruct (Ca x (or_introl eq_refl))].
    destruct D as [|y D]; [|destruct (Cd y (or_introl eq_refl))]. reflexivity.
  - cbn [map integrate_loop spec_vals].
    rewrite consume_adds_spec by (assumption || eapply covered_ge_all; eassumption).
    rewrite <- encode_app.
    rewrite consume_dels_spec;
      [| assumption | eapply covered_ge_all; eassumption | apply Forall_app; split; [apply Wo | apply vals_of_okv; assumption]].
    fold (batch_key (old k) k A D).
    destruct (batch_key (old k) k A D) as [l|]; [|reflexivity].
    rewrite IH;
      [ | inversion S; assumption | apply SS_filter; assumption | apply SS_filter; assumption
        | eapply covered_other; eassumption | eapply covered_other; eassumption | assumption
        | apply Forall_filter'; assumption ].
    rewrite spec_vals_other by (apply klt_head_notin; assumption).
    destruct (spec_vals old A D r); reflexivity.
Qed.

(* for arbitrary stored bytes: when integrate's loops end without a deletion error, both pair
   lists have been consumed completely, so the internal error cannot be returned *)
Lemma integrate_loop_consumes_all : forall kvs A D out a2 d2,
  StronglySorted klt (map fst kvs) -> SS A -> SS D ->
  (forall x, In x A -> In (fst x) (map fst kvs)) -> (forall x, In x D -> In (fst x) (map fst kvs)) ->
  integrate_loop kvs A D = Ok (out, a2, d2) -> a2 = [] /\ d2 = [].
Proof.
  induction kvs as [|[k val] r IH]; intros A D out a2 d2 S Sa Sd Ca Cd H.
  - destruct A as [|x A]; [|destruct (Ca x (or_introl eq_refl))].
    destruct D as [|y D]; [|destruct (Cd y (or_introl eq_refl))]. simpl in H. inversion H. split; reflexivity.
  - cbn [integrate_loop] in H. cbn [map fst] in *.
    rewrite consume_adds_spec in H by (assumption || eapply covered_ge_all; eassumption).
    destruct (consume_dels D k (val ++ encode (vals_of k A))) as [[d1 val2]|e] eqn:E; [|discriminate].
    apply consume_dels_shape in E; [| assumption | eapply covered_ge_all; eassumption]. subst d1.
    destruct (integrate_loop r (other k A) (other k D)) as [[[out' a3] d3]|e] eqn:E2; [|discriminate].
    inversion H; subst.
    eapply (IH (other k A) (other k D)); [inversion S; eassumption | apply SS_filter; assumption | apply SS_filter; assumption
               | eapply covered_other; eassumption | eapply covered_other; eassumption | exact E2].
Qed.

Lemma spec_vals_some : forall old A D keys out, spec_vals old A D keys = Some out ->
  map fst out = keys /\ forall k l, In (k, l) out -> batch_key (old k) k A D = Some l.
Proof.
  induction keys as [|k r IH]; intros out H; cbn [spec_vals] in H.
  - inversion H. split; [reflexivity | intros ? ? []].
  - destruct (batch_key (old k) k A D) as [l|] eqn:E; [|discriminate].
    destruct (spec_vals old A D r) as [out'|]; [|discriminate]. inversion H; subst.
    destruct (IH out' eq_refl) as [I1 I2]. split; [simpl; congruence|].
    intros k' l' [X|X]; [inversion X; subst; assumption | apply I2; assumption].
Qed.

Lemma spec_vals_none : forall old A D keys, spec_vals old A D keys = None ->
  exists k, batch_key (old k) k A D = None.
Proof.
  induction keys as [|k r IH]; intro H; cbn [spec_vals] in H; [discriminate|].
  destruct (batch_key (old k) k A D) as [l|] eqn:E; [|exists k; assumption].
  destruct (spec_vals old A D r); [discriminate|]. apply IH. reflexivity.
Qed.

(* ---------------------------------------------------------------- the store *)

Lemma put_eq : forall s k v, put s k v k = Some v.
Proof. intros. unfold put. rewrite bytes_eqb_refl. reflexivity. Qed.
Lemma put_neq : forall s k v k', k' <> k -> put s k v k' = s k'.
Proof. intros. unfold put. apply bytes_eqb_neq in H. rewrite H. reflexivity. Qed.
Lemma delete_eq : forall s k, delete s k k = None.
Proof. intros. unfold delete. rewrite bytes_eqb_refl. reflexivity. Qed.
Lemma delete_neq : forall s k k', k' <> k -> delete s k k' = s k'.
Proof. intros. unfold delete. apply bytes_eqb_neq in H. rewrite H. reflexivity. Qed.

Lemma abs_ext : forall s s' k, s k = s' k -> abs s k = abs s' k.
Proof. intros. unfold abs, rdb_for_each, get_or_nil. rewrite H. reflexivity. Qed.

Lemma abs_none : forall s k, s k = None -> abs s k = [].
Proof. intros s k H. unfold abs, rdb_for_each, get_or_nil. rewrite H. reflexivity. Qed.

Lemma abs_some : forall s k vs, Forall okv vs -> s k = Some (encode vs) -> abs s k = vs.
Proof.
  intros s k vs W H. unfold abs, rdb_for_each, get_or_nil. rewrite H.
  rewrite for_each_data_encode by assumption. reflexivity.
Qed.

(* under the invariant the stored bytes are the framing of the abstract list *)
Lemma store_ok_get : forall s k, store_ok s ->
  get_or_nil s k = encode (abs s k) /\ Forall okv (abs s k) /\ (s k = None <-> abs s k = []).
Proof.
  intros s k H. destruct (s k) as [d|] eqn:E.
  - destruct (H k d E) as [vs [N [W D]]]. subst d.
    rewrite (abs_some s k vs W E). unfold get_or_nil. rewrite E.
    split; [reflexivity|]. split; [assumption|]. split; [discriminate | intro; contradiction].
  - rewrite (abs_none s k E). unfold get_or_nil. rewrite E. split; [reflexivity|]. split; [constructor | tauto].
Qed.

Lemma write_batch_notin : forall kvs s k, ~ In k (map fst kvs) -> write_batch s kvs k = s k.
Proof.
  unfold write_batch. induction kvs as [|[k0 v0] r IH]; intros s k N; [reflexivity|].
  cbn [fold_left]. rewrite IH by (intro I; apply N; right; assumption).
  assert (X : k <> k0) by (intro E; apply N; left; simpl; congruence).
  destruct (nlen v0 =? 0); [apply delete_neq | apply put_neq]; assumption.
Qed.

Lemma write_batch_in : forall kvs s k v, NoDup (map fst kvs) -> In (k, v) kvs ->
  write_batch s kvs k = if nlen v =? 0 then None else Some v.
Proof.
  induction kvs as [|[k0 v0] r IH]; intros s k v N I; [destruct I|].
  inversion N; subst. destruct I as [E|I].
  - inversion E; subst. unfold write_batch. cbn [fold_left]. fold (write_batch (if nlen v =? 0 then delete s k else put s k v) r).
    rewrite write_batch_notin by assumption.
    destruct (nlen v =? 0); [apply delete_eq | apply put_eq].
  - unfold write_batch. cbn [fold_left]. apply IH; assumption.
Qed.
