(* Proofs about Model/Batch.v: getAffectedKeys returns the strictly sorted set of
   keys, integrate consumes both pair lists completely (its internal error is
   unreachable), ExecuteBatch acts per key as additions then deletions, and the
   store refines the map of lists over arbitrary operation histories. *)
From DnsV Require Import Model.Batch Spec.MapOfLists Proofs.MultiValue Proofs.MapOfLists Proofs.KeyOrder.
From Coq Require Import Permutation Sorted.
Open Scope N_scope.

(* ---------------------------------------------------------------- vocabulary *)

Definition key_le (x y : kv) : Prop := kle (fst x) (fst y).
(* what is assumed about sort.Slice with less = bytes.Compare(key i, key j) < 0 *)
Definition sort_ok (sort : list kv -> list kv) : Prop :=
  forall l, Permutation (sort l) l /\ Sorted key_le (sort l).
Definition SS (l : list kv) : Prop := StronglySorted key_le l.
Definition keysof (l : list kv) : list bytes := map fst l.
Definition ge_all (k : bytes) (l : list kv) : Prop := Forall (fun x => kle k (fst x)) l.
Definition kvs_ok (l : list kv) : Prop := Forall (fun p => okv (snd p)) l.

(* every stored value is a non-empty sequence of framed values *)
Definition store_ok (s : store) : Prop :=
  forall k d, s k = Some d -> exists vs, vs <> [] /\ Forall okv vs /\ d = encode vs.
(* abstraction: the list of values ForEach reads *)
Definition abs (s : store) : smap := fun k => fst (rdb_for_each s k).

Lemma sort_ok_SS : forall sort l, sort_ok sort -> SS (sort l).
Proof.
  intros sort l H. destruct (H l) as [_ S]. apply Sorted_StronglySorted; [|exact S].
  intros x y z. unfold key_le. apply kle_trans.
Qed.

Lemma SS_tail : forall x l, SS (x :: l) -> SS l.
Proof. intros x l H. inversion H; assumption. Qed.

Lemma SS_head : forall k v l, SS ((k, v) :: l) -> ge_all k l.
Proof. intros k v l H. inversion H; subst. assumption. Qed.

Lemma ge_all_trans : forall k k' l, kle k k' -> ge_all k' l -> ge_all k l.
Proof.
  intros k k' l H G. unfold ge_all in *. eapply Forall_impl; [|exact G].
  intros x Hx. simpl in Hx. eapply kle_trans; eassumption.
Qed.

(* ---------------------------------------------------------------- getAffectedKeys *)

Definition lb (last : option bytes) (k : bytes) : Prop :=
  match last with Some lk => klt lk k | None => True end.
Definition lbe_all (last : option bytes) (l : list kv) : Prop :=
  match last with Some lk => ge_all lk l | None => True end.

Lemma dup_head_true : forall l last, dup_head l last = true ->
  exists k v l', l = (k, v) :: l' /\ last = Some k.
Proof.
  intros [|[k v] l'] [lk|]; simpl; intro H; try discriminate.
  apply bytes_eqb_eq in H. subst. eauto.
Qed.

Lemma dup_head_false : forall k v l' last, dup_head ((k, v) :: l') last = false -> last <> Some k.
Proof.
  intros k v l' [lk|]; simpl; intro H; [|discriminate].
  apply bytes_eqb_neq in H. congruence.
Qed.

Lemma lbe_all_tail : forall last x l, lbe_all last (x :: l) -> lbe_all last l.
Proof. intros [lk|] x l H; simpl in *; [inversion H; assumption | exact I]. Qed.

(* a head that is not the last key is strictly above it *)
Lemma lb_of_head : forall last k v l, lbe_all last ((k, v) :: l) -> last <> Some k -> lb last k.
Proof.
  intros [lk|] k v l H N; simpl in *; [|exact I].
  inversion H; subst. simpl in *. apply kle_neq_klt; [assumption | congruence].
Qed.

Lemma lb_trans : forall last k k', lb last k -> klt k k' -> lb last k'.
Proof. intros [lk|] k k' H1 H2; simpl in *; [eapply klt_trans; eassumption | exact I]. Qed.

Lemma lb_neq : forall last k, lb last k -> last <> Some k.
Proof. intros [lk|] k H; simpl in *; [|discriminate]. intro E. inversion E; subst. exact (klt_irrefl k H). Qed.

Definition affected_post (a d : list kv) (last : option bytes) (ks : list bytes) : Prop :=
  StronglySorted klt ks /\ Forall (lb last) ks /\
  (forall k, In k ks <-> (In k (keysof a ++ keysof d) /\ last <> Some k)).

(* pushing the key k: what the recursive call on (a', d') with last = Some k returned, with k in front *)
Lemma affected_push : forall a d a' d' last k ks',
  lb last k ->
  affected_post a' d' (Some k) ks' ->
  (forall x, In x (keysof a ++ keysof d) <-> x = k \/ In x (keysof a' ++ keysof d')) ->
  affected_post a d last (k :: ks').
Proof.
  intros a d a' d' last k ks' L [S [F I]] M. unfold affected_post.
  assert (F' : Forall (lb last) ks').
  { eapply Forall_impl; [|exact F]. intros x Hx. simpl in Hx. eapply lb_trans; eassumption. }
  split; [constructor; assumption|]. split; [constructor; assumption|].
  intro x. split.
  - intros [E|H].
    + subst x. split; [apply M; left; reflexivity | apply lb_neq; assumption].
    + split.
      * apply I in H. apply M. right. tauto.
      * apply lb_neq. rewrite Forall_forall in F'. apply F'. assumption.
  - intros [H N]. apply M in H. destruct H as [E|H]; [left; congruence|].
    destruct (list_eq_dec N.eq_dec k x) as [E|E]; [left; assumption|].
    right. apply I. split; [assumption | congruence].
Qed.

Lemma affected_loop_spec : forall fuel a d last,
  (length a + length d < fuel)%nat -> SS a -> SS d -> lbe_all last a -> lbe_all last d ->
  exists ks, affected_loop fuel a d last = Some ks /\ affected_post a d last ks.
Proof.
  induction fuel as [|f IH]; intros a d last F Sa Sd La Ld; [lia|].
  cbn [affected_loop].
  destruct (dup_head a last) eqn:Da.
  { (* skip duplicate in addedPairs *)
    destruct (dup_head_true _ _ Da) as [k [v [a' [Ea El]]]]. subst a last. cbn [tl].
    destruct (IH a' d (Some k)) as [ks [R [S [Fl I]]]];
      [simpl in F; lia | eapply SS_tail; eassumption | assumption | eapply lbe_all_tail; eassumption | assumption |].
    exists ks. split; [exact R|]. split; [assumption|]. split; [assumption|]. intro x. split.
    - intro H. apply I in H. destruct H as [H N]. split; [|assumption]. simpl. right. assumption.
    - intros [H N]. apply I. split; [|assumption]. simpl in H. destruct H as [E|H]; [congruence | assumption]. }
  destruct (dup_head d last) eqn:Dd.
  { (* skip duplicate in deletedPairs *)
    destruct (dup_head_true _ _ Dd) as [k [v [d' [Ed El]]]]. subst d last. cbn [tl].
    destruct (IH a d' (Some k)) as [ks [R [S [Fl I]]]];
      [simpl in F; lia | assumption | eapply SS_tail; eassumption | assumption | eapply lbe_all_tail; eassumption |].
    exists ks. split; [exact R|]. split; [assumption|]. split; [assumption|]. intro x. split.
    - intro H. apply I in H. destruct H as [H N]. split; [|assumption].
      unfold keysof in *. simpl. rewrite in_app_iff in *. simpl. tauto.
    - intros [H N]. apply I. split; [|assumption].
      unfold keysof in *. simpl in H. rewrite in_app_iff in *. simpl in H. destruct H as [H|[E|H]]; [tauto | congruence | tauto]. }
  destruct a as [|[ka va] a'], d as [|[kd vd] d']; cbv beta iota.
  - (* both exhausted *)
    exists []. split; [reflexivity|]. split; [constructor|]. split; [constructor|]. intro x. simpl. tauto.
  - (* pushDeleted, addedPairs exhausted *)
    destruct (IH [] d' (Some kd)) as [ks [R P]];
      [simpl in *; lia | constructor | eapply SS_tail; eassumption | exact (Forall_nil _) | unfold lbe_all; eapply SS_head; eassumption |].
    rewrite R. exists (kd :: ks). split; [reflexivity|].
    eapply affected_push; [eapply lb_of_head; [eassumption | eapply dup_head_false; eassumption] | exact P |].
    intro x. unfold keysof. simpl. rewrite ?in_app_iff. simpl. intuition congruence.
  - (* pushAdded, deletedPairs exhausted *)
    destruct (IH a' [] (Some ka)) as [ks [R P]];
      [simpl in *; lia | eapply SS_tail; eassumption | constructor | unfold lbe_all; eapply SS_head; eassumption | exact (Forall_nil _) |].
    rewrite R. exists (ka :: ks). split; [reflexivity|].
    eapply affected_push; [eapply lb_of_head; [eassumption | eapply dup_head_false; eassumption] | exact P |].
    intro x. unfold keysof. simpl. rewrite ?in_app_iff. simpl. intuition congruence.
  - destruct (bltb ka kd) eqn:C.
    + (* pushAdded: ka < kd *)
      match goal with |- context [affected_loop _ ?x ?y ?z] => destruct (IH x y z) as [ks [R P]] end;
        [simpl in *; lia | eapply SS_tail; eassumption | assumption | unfold lbe_all; eapply SS_head; eassumption | |].
      { simpl. constructor; [simpl; apply klt_kle; exact C|].
        eapply ge_all_trans; [apply klt_kle; exact C | eapply SS_head; eassumption]. }
      rewrite R. exists (ka :: ks). split; [reflexivity|].
      eapply affected_push; [eapply lb_of_head; [eassumption | eapply dup_head_false; eassumption] | exact P |].
      intro x. unfold keysof. simpl. rewrite ?in_app_iff. simpl. intuition congruence.
    + (* pushDeleted: kd <= ka *)
      match goal with |- context [affected_loop _ ?x ?y ?z] => destruct (IH x y z) as [ks [R P]] end;
        [simpl in *; lia | assumption | eapply SS_tail; eassumption | | unfold lbe_all; eapply SS_head; eassumption |].
      { simpl. constructor; [simpl; exact C|].
        eapply ge_all_trans; [exact C | eapply SS_head; eassumption]. }
      rewrite R. exists (kd :: ks). split; [reflexivity|].
      eapply affected_push; [eapply lb_of_head; [eassumption | eapply dup_head_false; eassumption] | exact P |].
      intro x. unfold keysof. simpl. rewrite ?in_app_iff. simpl. intuition congruence.
Qed.

(* getAffectedKeys: defined (fuel suffices), strictly increasing, exactly the keys of the batch *)
Lemma affected_keys_spec : forall a d, SS a -> SS d ->
  exists ks, affected_keys a d = Some ks /\ StronglySorted klt ks /\
             (forall k, In k ks <-> In k (keysof a ++ keysof d)).
Proof.
  intros a d Sa Sd. unfold affected_keys.
  destruct (affected_loop_spec (S (length a + length d)) a d None) as [ks [R [S [_ I]]]];
    [lia | assumption | assumption | exact I | exact I |].
  exists ks. split; [exact R|]. split; [exact S|].
  intro k. rewrite I. split; [tauto | intro; split; [assumption | discriminate]].
Qed.

(* ---------------------------------------------------------------- integrate *)

(* the pairs whose key is not key *)
Definition other (key : bytes) (l : list kv) : list kv :=
  filter (fun x => negb (bytes_eqb (fst x) key)) l.

Lemma other_cons : forall key k v l,
  other key ((k, v) :: l) = if bytes_eqb k key then other key l else (k, v) :: other key l.
Proof. intros. unfold other. simpl. destruct (bytes_eqb k key); reflexivity. Qed.

Lemma Forall_filter' : forall {A} (P : A -> Prop) f l, Forall P l -> Forall P (filter f l).
Proof.
  intros A P f l H. rewrite Forall_forall in *. intros x Hx. apply filter_In in Hx. apply H. tauto.
Qed.

Lemma SS_filter : forall f l, SS l -> SS (filter f l).
Proof.
  induction l as [|x l IH]; intro H; simpl; [constructor|].
  inversion H; subst. destruct (f x); [constructor; [apply IH; assumption | apply Forall_filter'; assumption] | apply IH; assumption].
Qed.

Lemma in_other : forall key x l, In x (other key l) <-> In x l /\ fst x <> key.
Proof.
  intros. unfold other. rewrite filter_In. rewrite negb_true_iff. rewrite bytes_eqb_neq. tauto.
Qed.

Lemma none_with_key : forall key l, (forall x, In x l -> fst x <> key) -> other key l = l /\ vals_of key l = [].
Proof.
  induction l as [|[k v] l IH]; intro H; [split; reflexivity|].
  assert (E : bytes_eqb k key = false) by (apply bytes_eqb_neq; apply (H (k, v)); left; reflexivity).
  destruct IH as [I1 I2]; [intros x Hx; apply H; right; assumption|].
  rewrite other_cons, vals_of_cons, E. rewrite I1, I2. split; reflexivity.
Qed.

(* in a sorted list whose keys are all >= key, a head with another key means key does not occur *)
Lemma sorted_head_other : forall key k v l, SS ((k, v) :: l) -> ge_all key ((k, v) :: l) -> k <> key ->
  forall x, In x ((k, v) :: l) -> fst x <> key.
Proof.
  intros key k v l S G N x [E|Hx]; [subst; exact N|].
  intro E. apply N. apply kle_antisym.
  - pose proof (SS_head _ _ _ S) as Hh. unfold ge_all in Hh. rewrite Forall_forall in Hh.
    specialize (Hh x Hx). simpl in Hh. rewrite E in Hh. exact Hh.
  - inversion G; subst. assumption.
Qed.

Lemma ge_all_tail : forall key x l, ge_all key (x :: l) -> ge_all key l.
Proof. intros key x l H. inversion H; assumption. Qed.

Lemma consume_adds_spec : forall a key val, SS a -> ge_all key a ->
  consume_adds a key val = (other key a, val ++ encode (vals_of key a)).
Proof.
  induction a as [|[k v] a' IH]; intros key val S G.
  - simpl. rewrite app_nil_r. reflexivity.
  - cbn [consume_adds]. destruct (bytes_eqb k key) eqn:E.
    + rewrite IH by (eapply SS_tail || eapply ge_all_tail; eassumption).
      rewrite other_cons, vals_of_cons, E. rewrite append_values_encode. cbn [encode].
      rewrite app_nil_r, <- app_assoc. reflexivity.
    + apply bytes_eqb_neq in E.
      destruct (none_with_key key ((k, v) :: a') (sorted_head_other key k v a' S G E)) as [O V].
      rewrite O, V. cbn [encode]. rewrite app_nil_r. reflexivity.
Qed.

(* whatever the stored bytes are: if the deletions of key succeed, exactly the pairs of key are consumed *)
Lemma consume_dels_shape : forall d key val d1 val1, SS d -> ge_all key d ->
  consume_dels d key val = Ok (d1, val1) -> d1 = other key d.
Proof.
  induction d as [|[k v] d' IH]; intros key val d1 val1 S G H.
  - simpl in H. inversion H. reflexivity.
  - cbn [consume_dels] in H. destruct (bytes_eqb k key) eqn:E.
    + destruct (del_value val v) as [val'|e]; [|discriminate].
      rewrite other_cons, E. eapply IH; [eapply SS_tail; eassumption | eapply ge_all_tail; eassumption | exact H].
    + apply bytes_eqb_neq in E. inversion H; subst.
      destruct (none_with_key key ((k, v) :: d') (sorted_head_other key k v d' S G E)) as [O _]. symmetry. exact O.
Qed.

Lemma consume_dels_spec : forall d key vs, SS d -> ge_all key d -> Forall okv vs ->
  consume_dels d key (encode vs) =
  match remove_firsts (vals_of key d) vs with
  | Some vs' => Ok (other key d, encode vs')
  | None => Err E_NXVAL
  end.
Proof.
  induction d as [|[k v] d' IH]; intros key vs S G W.
  - reflexivity.
  - cbn [consume_dels]. rewrite other_cons, vals_of_cons. destruct (bytes_eqb k key) eqn:E.
    + rewrite del_value_encode by assumption. cbn [remove_firsts].
      destruct (remove_first v vs) as [vs1|] eqn:R; [|reflexivity].
      apply IH; [eapply SS_tail; eassumption | eapply ge_all_tail; eassumption | eapply remove_first_Forall; eassumption].
    + apply bytes_eqb_neq in E.
      destruct (none_with_key key ((k, v) :: d') (sorted_head_other key k v d' S G E)) as [O V].
      rewrite vals_of_cons in V. rewrite other_cons in O.
      apply bytes_eqb_neq in E. rewrite E in V, O. rewrite V, O. reflexivity.
Qed.

(* the keys list covers a sorted pair list: all its keys are >= the first key *)
Lemma covered_ge_all : forall k r (l : list kv), StronglySorted klt (k :: r) ->
  (forall x, In x l -> In (fst x) (k :: r)) -> ge_all k l.
Proof.
  intros k r l S C. unfold ge_all. rewrite Forall_forall. intros x Hx.
  destruct (C x Hx) as [E|I]; [rewrite E; apply kle_refl|].
  inversion S; subst. rewrite Forall_forall in H2. apply klt_kle. apply H2. assumption.
Qed.

Lemma covered_other : forall k r (l : list kv),
  (forall x, In x l -> In (fst x) (k :: r)) -> forall x, In x (other k l) -> In (fst x) r.
Proof.
  intros k r l C x Hx. apply in_other in Hx. destruct Hx as [Hx N].
  destruct (C x Hx) as [E|I]; [congruence | assumption].
Qed.

Lemma klt_head_notin : forall k r, StronglySorted klt (k :: r) -> ~ In k r.
Proof.
  intros k r S I. inversion S; subst. rewrite Forall_forall in H2. exact (klt_irrefl k (H2 k I)).
Qed.

Lemma sorted_NoDup : forall ks, StronglySorted klt ks -> NoDup ks.
Proof.
  induction ks as [|k r IH]; intro S; constructor.
  - apply klt_head_notin. assumption.
  - apply IH. inversion S; assumption.
Qed.

Lemma vals_of_other : forall k k' l, k' <> k -> vals_of k' (other k l) = vals_of k' l.
Proof.
  induction l as [|[k0 v] l IH]; intro N; [reflexivity|].
  rewrite other_cons. destruct (bytes_eqb k0 k) eqn:E.
  - apply bytes_eqb_eq in E. subst. rewrite vals_of_cons.
    assert (X : bytes_eqb k k' = false) by (apply bytes_eqb_neq; congruence). rewrite X. apply IH. assumption.
  - rewrite !vals_of_cons. rewrite IH by assumption. reflexivity.
Qed.

Lemma vals_of_okv : forall k l, kvs_ok l -> Forall okv (vals_of k l).
Proof.
  intros k l H. unfold vals_of. apply Forall_map. apply Forall_filter'. exact H.
Qed.

(* what integrate leaves in dbValues, key by key *)
Fixpoint spec_vals (old : smap) (A D : list kv) (keys : list bytes) : option (list (bytes * list bytes)) :=
  match keys with
  | [] => Some []
  | k :: r =>
      match batch_key (old k) k A D with
      | None => None
      | Some l => option_map (cons (k, l)) (spec_vals old A D r)
      end
  end.

Lemma spec_vals_other : forall old A D k r, ~ In k r ->
  spec_vals old (other k A) (other k D) r = spec_vals old A D r.
Proof.
  induction r as [|k' r IH]; intro N; [reflexivity|].
  cbn [spec_vals]. unfold batch_key.
  assert (X : k' <> k) by (intro E; apply N; left; congruence).
  rewrite !vals_of_other by assumption. rewrite IH by (intro I; apply N; right; assumption). reflexivity.
Qed.

Definition enc_out (out : list (bytes * list bytes)) : list (bytes * bytes) :=
  map (fun p => (fst p, encode (snd p))) out.

Lemma integrate_loop_spec : forall keys A D (old : smap),
  StronglySorted klt keys -> SS A -> SS D ->
  (forall x, In x A -> In (fst x) keys) -> (forall x, In x D -> In (fst x) keys) ->
  (forall k, Forall okv (old k)) -> kvs_ok A ->
  integrate_loop (map (fun k => (k, encode (old k))) keys) A D =
  match spec_vals old A D keys with
  | Some out => Ok (enc_out out, [], [])
  | None => Err E_NXVAL
  end.
Proof.
  induction keys as [|k r IH]; intros A D old S Sa Sd Ca Cd Wo Wa.
  - destruct A as [|x A]; [|destruct (Ca x (or_introl eq_refl))].
    destruct D as [|y D]; [|destruct (Cd y (or_introl eq_refl))]. reflexivity.
  - cbn [map integrate_loop spec_vals].
    rewrite consume_adds_spec by (assumption || eapply covered_ge_all; eassumption).
    rewrite <- encode_app.
    rewrite consume_dels_spec;
      [| assumption | eapply covered_ge_all; eassumption | apply Forall_app; split; [apply Wo | apply vals_of_okv; assumption]].
    fold (batch_key (old k) k A D).
    destruct (batch_key (old k) k A D) as [l|]; [|reflexivity].
    rewrite IH;
      [ | inversion S; assumption | apply SS_filter; assumption | apply SS_filter; assumption
        | eapply covered_other; eassumption | eapply covered_other; eassumption | assumption
        | apply Forall_filter'; assumption ].
    rewrite spec_vals_other by (apply klt_head_notin; assumption).
    destruct (spec_vals old A D r); reflexivity.
Qed.

(* for arbitrary stored bytes: when integrate's loops end without a deletion error, both pair
   lists have been consumed completely, so the internal error cannot be returned *)
Lemma integrate_loop_consumes_all : forall kvs A D out a2 d2,
  StronglySorted klt (map fst kvs) -> SS A -> SS D ->
  (forall x, In x A -> In (fst x) (map fst kvs)) -> (forall x, In x D -> In (fst x) (map fst kvs)) ->
  integrate_loop kvs A D = Ok (out, a2, d2) -> a2 = [] /\ d2 = [].
Proof.
  induction kvs as [|[k val] r IH]; intros A D out a2 d2 S Sa Sd Ca Cd H.
  - destruct A as [|x A]; [|destruct (Ca x (or_introl eq_refl))].
    destruct D as [|y D]; [|destruct (Cd y (or_introl eq_refl))]. simpl in H. inversion H. split; reflexivity.
  - cbn [integrate_loop] in H. cbn [map fst] in *.
    rewrite consume_adds_spec in H by (assumption || eapply covered_ge_all; eassumption).
    destruct (consume_dels D k (val ++ encode (vals_of k A))) as [[d1 val2]|e] eqn:E; [|discriminate].
    apply consume_dels_shape in E; [| assumption | eapply covered_ge_all; eassumption]. subst d1.
    destruct (integrate_loop r (other k A) (other k D)) as [[[out' a3] d3]|e] eqn:E2; [|discriminate].
    inversion H; subst.
    eapply (IH (other k A) (other k D)); [inversion S; eassumption | apply SS_filter; assumption | apply SS_filter; assumption
               | eapply covered_other; eassumption | eapply covered_other; eassumption | exact E2].
Qed.

Lemma spec_vals_some : forall old A D keys out, spec_vals old A D keys = Some out ->
  map fst out = keys /\ forall k l, In (k, l) out -> batch_key (old k) k A D = Some l.
Proof.
  induction keys as [|k r IH]; intros out H; cbn [spec_vals] in H.
  - inversion H. split; [reflexivity | intros ? ? []].
  - destruct (batch_key (old k) k A D) as [l|] eqn:E; [|discriminate].
    destruct (spec_vals old A D r) as [out'|]; [|discriminate]. inversion H; subst.
    destruct (IH out' eq_refl) as [I1 I2]. split; [simpl; congruence|].
    intros k' l' [X|X]; [inversion X; subst; assumption | apply I2; assumption].
Qed.

Lemma spec_vals_none : forall old A D keys, spec_vals old A D keys = None ->
  exists k, batch_key (old k) k A D = None.
Proof.
  induction keys as [|k r IH]; intro H; cbn [spec_vals] in H; [discriminate|].
  destruct (batch_key (old k) k A D) as [l|] eqn:E; [|exists k; assumption].
  destruct (spec_vals old A D r); [discriminate|]. apply IH. reflexivity.
Qed.

(* ---------------------------------------------------------------- the store *)

Lemma put_eq : forall s k v, put s k v k = Some v.
Proof. intros. unfold put. rewrite bytes_eqb_refl. reflexivity. Qed.
Lemma put_neq : forall s k v k', k' <> k -> put s k v k' = s k'.
Proof. intros. unfold put. apply bytes_eqb_neq in H. rewrite H. reflexivity. Qed.
Lemma delete_eq : forall s k, delete s k k = None.
Proof. intros. unfold delete. rewrite bytes_eqb_refl. reflexivity. Qed.
Lemma delete_neq : forall s k k', k' <> k -> delete s k k' = s k'.
Proof. intros. unfold delete. apply bytes_eqb_neq in H. rewrite H. reflexivity. Qed.

Lemma abs_ext : forall s s' k, s k = s' k -> abs s k = abs s' k.
Proof. intros. unfold abs, rdb_for_each, get_or_nil. rewrite H. reflexivity. Qed.

Lemma abs_none : forall s k, s k = None -> abs s k = [].
Proof. intros s k H. unfold abs, rdb_for_each, get_or_nil. rewrite H. reflexivity. Qed.

Lemma abs_some : forall s k vs, Forall okv vs -> s k = Some (encode vs) -> abs s k = vs.
Proof.
  intros s k vs W H. unfold abs, rdb_for_each, get_or_nil. rewrite H.
  rewrite for_each_data_encode by assumption. reflexivity.
Qed.

(* under the invariant the stored bytes are the framing of the abstract list *)
Lemma store_ok_get : forall s k, store_ok s ->
  get_or_nil s k = encode (abs s k) /\ Forall okv (abs s k) /\ (s k = None <-> abs s k = []).
Proof.
  intros s k H. destruct (s k) as [d|] eqn:E.
  - destruct (H k d E) as [vs [N [W D]]]. subst d.
    rewrite (abs_some s k vs W E). unfold get_or_nil. rewrite E.
    split; [reflexivity|]. split; [assumption|]. split; [discriminate | intro; contradiction].
  - rewrite (abs_none s k E). unfold get_or_nil. rewrite E. split; [reflexivity|]. split; [constructor | tauto].
Qed.

Lemma write_batch_notin : forall kvs s k, ~ In k (map fst kvs) -> write_batch s kvs k = s k.
Proof.
  unfold write_batch. induction kvs as [|[k0 v0] r IH]; intros s k N; [reflexivity|].
  cbn [fold_left]. rewrite IH by (intro I; apply N; right; assumption).
  assert (X : k <> k0) by (intro E; apply N; left; simpl; congruence).
  destruct (nlen v0 =? 0); [apply delete_neq | apply put_neq]; assumption.
Qed.

Lemma write_batch_in : forall kvs s k v, NoDup (map fst kvs) -> In (k, v) kvs ->
  write_batch s kvs k = if nlen v =? 0 then None else Some v.
Proof.
  induction kvs as [|[k0 v0] r IH]; intros s k v N I; [destruct I|].
  inversion N; subst. destruct I as [E|I].
  - inversion E; subst. unfold write_batch. cbn [fold_left]. fold (write_batch (if nlen v =? 0 then delete s k else put s k v) r).
    rewrite write_batch_notin by assumption.
    destruct (nlen v =? 0); [apply delete_eq | apply put_eq].
  - unfold write_batch. cbn [fold_left]. apply IH; assumption.
Qed.

(* ---------------------------------------------------------------- ExecuteBatch *)

Lemma sort_nil : forall sort, sort_ok sort -> sort [] = [].
Proof.
  intros sort H. destruct (H []) as [P _]. apply Permutation_sym in P. apply Permutation_nil in P. exact P.
Qed.

Lemma kvs_ok_perm : forall l l', Permutation l l' -> kvs_ok l -> kvs_ok l'.
Proof.
  intros l l' P H. unfold kvs_ok in *. rewrite Forall_forall in *. intros x Hx.
  apply H. eapply Permutation_in; [apply Permutation_sym; exact P | exact Hx].
Qed.

Lemma vals_of_notin : forall k l, ~ In k (keysof l) -> vals_of k l = [].
Proof.
  intros k l N. apply none_with_key. intros x Hx E. apply N. unfold keysof. rewrite <- E. apply in_map. assumption.
Qed.

Lemma nlen_encode_cons : forall v l, (nlen (encode (v :: l)) =? 0) = false.
Proof.
  intros. apply N.eqb_neq. cbn [encode]. rewrite nlen_app, nlen_chunk. lia.
Qed.

Definition batch_post (sort : list kv -> list kv) (s : store) (adds dels : list kv) (r : result store) : Prop :=
  match r with
  | Ok s' => store_ok s' /\ forall k, batch_key (abs s k) k (sort adds) (sort dels) = Some (abs s' k)
  | Err e => e = E_NXVAL /\ exists k, batch_key (abs s k) k (sort adds) (sort dels) = None
  end.

Lemma batch_body : forall sort s adds dels, sort_ok sort -> store_ok s -> kvs_ok adds ->
  batch_post sort s adds dels
    (match affected_keys (sort adds) (sort dels) with
     | None => Err E_FUEL
     | Some keys =>
         match integrate (map (fun k => (k, get_or_nil s k)) keys) (sort adds) (sort dels) with
         | Err e => Err e
         | Ok vals => Ok (write_batch s vals)
         end
     end).
Proof.
  intros sort s adds dels HS Hs Ha.
  set (A := sort adds). set (D := sort dels).
  assert (SA : SS A) by (apply sort_ok_SS; assumption).
  assert (SD : SS D) by (apply sort_ok_SS; assumption).
  assert (WA : kvs_ok A) by (eapply kvs_ok_perm; [apply Permutation_sym; apply (HS adds) | assumption]).
  destruct (affected_keys_spec A D SA SD) as [keys [R [S I]]]. rewrite R.
  assert (M : map (fun k => (k, get_or_nil s k)) keys = map (fun k => (k, encode (abs s k))) keys).
  { apply map_ext. intro k. rewrite (proj1 (store_ok_get s k Hs)). reflexivity. }
  rewrite M. unfold integrate.
  rewrite (integrate_loop_spec keys A D (abs s)); try assumption.
  2:{ intros x Hx. apply I. apply in_or_app. left. unfold keysof. apply in_map. assumption. }
  2:{ intros x Hx. apply I. apply in_or_app. right. unfold keysof. apply in_map. assumption. }
  2:{ intro k. apply (store_ok_get s k Hs). }
  destruct (spec_vals (abs s) A D keys) as [out|] eqn:SV.
  - destruct (spec_vals_some _ _ _ _ _ SV) as [K1 K2].
    assert (K3 : map fst (enc_out out) = keys).
    { unfold enc_out. rewrite map_map. simpl. exact K1. }
    assert (ND : NoDup (map fst (enc_out out))) by (rewrite K3; apply sorted_NoDup; assumption).
    (* what the new store holds for an affected key *)
    assert (IN : forall k, In k keys -> exists l, batch_key (abs s k) k A D = Some l /\ Forall okv l /\
                  write_batch s (enc_out out) k = if nlen (encode l) =? 0 then None else Some (encode l)).
    { intros k Hk. rewrite <- K1 in Hk. apply in_map_iff in Hk. destruct Hk as [[k' l] [E Hin]]. simpl in E. subst k'.
      exists l. split; [apply K2; assumption|]. split.
      - eapply remove_firsts_Forall; [|apply (K2 k l Hin)].
        apply Forall_app. split; [apply (store_ok_get s k Hs) | apply vals_of_okv; assumption].
      - apply write_batch_in; [assumption|]. unfold enc_out. apply in_map_iff. exists (k, l). split; [reflexivity | assumption]. }
    assert (OUT : forall k, ~ In k keys -> write_batch s (enc_out out) k = s k).
    { intros k Hk. apply write_batch_notin. rewrite K3. assumption. }
    cbn [batch_post]. fold A D. split.
    + (* the invariant *)
      intros k d Hd. destruct (in_dec (list_eq_dec N.eq_dec) k keys) as [Hk|Hk].
      * destruct (IN k Hk) as [l [_ [W E]]]. rewrite E in Hd.
        destruct l as [|v l]; [simpl in Hd; discriminate|].
        rewrite nlen_encode_cons in Hd. inversion Hd; subst.
        exists (v :: l). split; [discriminate|]. split; [assumption | reflexivity].
      * rewrite (OUT k Hk) in Hd. apply (Hs k d Hd).
    + intro k. destruct (in_dec (list_eq_dec N.eq_dec) k keys) as [Hk|Hk].
      * destruct (IN k Hk) as [l [B [W E]]]. rewrite B. f_equal.
        destruct l as [|v l].
        -- simpl in E. symmetry. apply abs_none. assumption.
        -- rewrite nlen_encode_cons in E. symmetry. apply abs_some; assumption.
      * rewrite (abs_ext _ s k (OUT k Hk)). unfold batch_key.
        assert (NA : ~ In k (keysof A)) by (intro X; apply Hk; apply I; apply in_or_app; left; assumption).
        assert (NDl : ~ In k (keysof D)) by (intro X; apply Hk; apply I; apply in_or_app; right; assumption).
        rewrite (vals_of_notin k A NA), (vals_of_notin k D NDl). simpl. rewrite app_nil_r. reflexivity.
  - cbn [batch_post]. fold A D. split; [reflexivity|]. apply (spec_vals_none _ _ _ _ SV).
Qed.

(* ExecuteBatch, key by key: the old values, then the batch's additions to the key in the
   order the sort left them, then its deletions; or an error and no write at all *)
Lemma execute_batch_perkey : forall sort s adds dels, sort_ok sort -> store_ok s -> kvs_ok adds ->
  match execute_batch sort s adds dels with
  | Ok s' => store_ok s' /\ forall k, remove_firsts (vals_of k (sort dels)) (abs s k ++ vals_of k (sort adds)) = Some (abs s' k)
  | Err e => e = E_NXVAL /\ exists k, remove_firsts (vals_of k (sort dels)) (abs s k ++ vals_of k (sort adds)) = None
  end.
Proof.
  intros sort s adds dels HS Hs Ha.
  change (batch_post sort s adds dels (execute_batch sort s adds dels)).
  unfold execute_batch. destruct adds as [|a0 adds']; [destruct dels as [|d0 dels']|].
  - cbn [batch_post]. split; [assumption|]. intro k. rewrite (sort_nil sort HS). unfold batch_key. simpl.
    rewrite app_nil_r. reflexivity.
  - apply batch_body; assumption.
  - apply batch_body; assumption.
Qed.

(* for arbitrary stored bytes: the internal error of integrate, the model's fuel error and the
   Panic outcome are unreachable; ExecuteBatch fails only with a deletion error *)
Lemma consume_dels_err : forall d key val e, consume_dels d key val = Err e -> e = E_UEOF \/ e = E_NXVAL.
Proof.
  induction d as [|[k v] d' IH]; intros key val e H; simpl in H; [discriminate|].
  destruct (bytes_eqb k key); [|discriminate].
  pose proof (del_value_total val v) as T. destruct (del_value val v) as [val'|e'].
  - eapply IH; eassumption.
  - inversion H; subst. assumption.
Qed.

Lemma integrate_loop_err : forall kvs A D e, integrate_loop kvs A D = Err e -> e = E_UEOF \/ e = E_NXVAL.
Proof.
  induction kvs as [|[k val] r IH]; intros A D e H; simpl in H; [discriminate|].
  destruct (consume_adds A k val) as [a1 val1].
  destruct (consume_dels D k val1) as [[d1 val2]|e'] eqn:E.
  - destruct (integrate_loop r a1 d1) as [[[out a2] d2]|e''] eqn:E2; [discriminate|].
    inversion H; subst. eapply IH; eassumption.
  - inversion H; subst. eapply consume_dels_err; eassumption.
Qed.

Lemma execute_batch_errors : forall sort s adds dels e, sort_ok sort ->
  execute_batch sort s adds dels = Err e -> e = E_UEOF \/ e = E_NXVAL.
Proof.
  intros sort s adds dels e HS H.
  assert (B : match affected_keys (sort adds) (sort dels) with
              | None => Err E_FUEL
              | Some keys =>
                  match integrate (map (fun k => (k, get_or_nil s k)) keys) (sort adds) (sort dels) with
                  | Err e => Err e
                  | Ok vals => Ok (write_batch s vals)
                  end
              end = Err e).
  { unfold execute_batch in H. destruct adds; [destruct dels; [discriminate|]|]; exact H. }
  clear H.
  destruct (affected_keys_spec (sort adds) (sort dels) (sort_ok_SS sort adds HS) (sort_ok_SS sort dels HS)) as [keys [R [S I]]].
  rewrite R in B. unfold integrate in B.
  set (kvs := map (fun k => (k, get_or_nil s k)) keys) in *.
  assert (KM : map fst kvs = keys).
  { unfold kvs. rewrite map_map. simpl. apply map_id. }
  destruct (integrate_loop kvs (sort adds) (sort dels)) as [[[out a2] d2]|e'] eqn:E.
  - destruct (integrate_loop_consumes_all kvs (sort adds) (sort dels) out a2 d2) as [X Y]; try assumption.
    + rewrite KM. assumption.
    + apply sort_ok_SS; assumption.
    + apply sort_ok_SS; assumption.
    + intros x Hx. rewrite KM. apply I. apply in_or_app. left. unfold keysof. apply in_map. assumption.
    + intros x Hx. rewrite KM. apply I. apply in_or_app. right. unfold keysof. apply in_map. assumption.
    + subst a2 d2. discriminate.
  - assert (X : e' = e) by congruence. subst e'. eapply integrate_loop_err; eassumption.
Qed.

(* ---------------------------------------------------------------- Add, Del, reads *)

Lemma add_refines : forall s k v, store_ok s -> okv v ->
  store_ok (add s k v) /\ smap_eq (abs (add s k v)) (m_add (abs s) k v).
Proof.
  intros s k v Hs Hv. destruct (store_ok_get s k Hs) as [G [W _]].
  assert (E : add s k v = put s k (encode (abs s k ++ [v]))).
  { unfold add. rewrite append_values_encode, G, <- encode_app. reflexivity. }
  assert (W' : Forall okv (abs s k ++ [v])) by (apply Forall_app; split; [assumption | constructor; [assumption | constructor]]).
  rewrite E. split.
  - intros k' d Hd. destruct (list_eq_dec N.eq_dec k' k) as [X|X].
    + subst. rewrite put_eq in Hd. inversion Hd; subst. exists (abs s k ++ [v]).
      split; [intro Z; apply app_eq_nil in Z; destruct Z; discriminate|]. split; [assumption | reflexivity].
    + rewrite put_neq in Hd by assumption. apply (Hs k' d Hd).
  - intro k'. unfold m_add. destruct (list_eq_dec N.eq_dec k' k) as [X|X].
    + subst. rewrite m_set_eq. apply abs_some; [assumption | apply put_eq].
    + rewrite m_set_neq by assumption. apply abs_ext. apply put_neq. assumption.
Qed.

(* Del: fails exactly when the key (ErrNXKey) or the value (ErrNXVal) is absent, else removes one value;
   the key disappears with its last value *)
Lemma del_refines : forall s k v, store_ok s ->
  match del s k v with
  | Ok s' => store_ok s' /\ exists m', m_del (abs s) k v = Some m' /\ smap_eq (abs s') m'
  | Err e => m_del (abs s) k v = None /\
             ((e = E_NXKEY /\ abs s k = []) \/ (e = E_NXVAL /\ abs s k <> []))
  end.
Proof.
  intros s k v Hs. unfold del, m_del. destruct (s k) as [d|] eqn:E.
  - destruct (Hs k d E) as [vs [NE [W D]]]. subst d.
    rewrite (abs_some s k vs W E). rewrite del_value_encode by assumption.
    destruct (remove_first v vs) as [vs'|] eqn:R.
    + assert (W' : Forall okv vs') by (eapply remove_first_Forall; eassumption).
      destruct vs' as [|v' vs'].
      * cbn [encode nlen length N.of_nat N.eqb]. split.
        -- intros k' d Hd. destruct (list_eq_dec N.eq_dec k' k) as [X|X].
           ++ subst. rewrite delete_eq in Hd. discriminate.
           ++ rewrite delete_neq in Hd by assumption. apply (Hs k' d Hd).
        -- eexists. split; [reflexivity|]. intro k'. destruct (list_eq_dec N.eq_dec k' k) as [X|X].
           ++ subst. rewrite m_set_eq. apply abs_none. apply delete_eq.
           ++ rewrite m_set_neq by assumption. apply abs_ext. apply delete_neq. assumption.
      * rewrite nlen_encode_cons. split.
        -- intros k' d Hd. destruct (list_eq_dec N.eq_dec k' k) as [X|X].
           ++ subst. rewrite put_eq in Hd. inversion Hd; subst. exists (v' :: vs').
              split; [discriminate|]. split; [assumption | reflexivity].
           ++ rewrite put_neq in Hd by assumption. apply (Hs k' d Hd).
        -- eexists. split; [reflexivity|]. intro k'. destruct (list_eq_dec N.eq_dec k' k) as [X|X].
           ++ subst. rewrite m_set_eq. apply abs_some; [assumption | apply put_eq].
           ++ rewrite m_set_neq by assumption. apply abs_ext. apply put_neq. assumption.
    + split; [reflexivity|]. right. split; [reflexivity | assumption].
  - rewrite (abs_none s k E). simpl. split; [reflexivity|]. left. split; reflexivity.
Qed.

(* reading a key yields precisely the values present *)
Lemma reads_refine : forall s k, store_ok s ->
  rdb_for_each s k = (m_for_each (abs s) k, 0) /\
  rdb_find s k = match m_find (abs s) k with Some v => Ok v | None => Err E_EOF end.
Proof.
  intros s k Hs. destruct (store_ok_get s k Hs) as [G [W _]].
  unfold rdb_find, m_find, m_for_each. rewrite G.
  split.
  - unfold abs at 1. unfold rdb_for_each. rewrite G.
    rewrite for_each_data_encode by assumption. reflexivity.
  - rewrite find_data_encode by assumption. destruct (abs s k); reflexivity.
Qed.

(* ---------------------------------------------------------------- one step, whole histories *)

(* values that fit the length prefix *)
Definition op_ok (o : op) : Prop :=
  match o with
  | OAdd _ v => okv v
  | OBatch adds _ => kvs_ok adds
  | _ => True
  end.

Definition failed (e : N) : bool := negb (e =? 0).

(* ExecuteBatch against the specification: the batch's additions in the order the sort left
   them, then its deletions (their order is irrelevant), in one step *)
Lemma execute_batch_refines : forall sort s adds dels, sort_ok sort -> store_ok s -> kvs_ok adds ->
  match execute_batch sort s adds dels with
  | Ok s' => store_ok s' /\ exists m', m_batch (abs s) (sort adds) dels = Some m' /\ smap_eq (abs s') m'
  | Err e => e = E_NXVAL /\ m_batch (abs s) (sort adds) dels = None
  end.
Proof.
  intros sort s adds dels HS Hs Ha.
  pose proof (execute_batch_perkey sort s adds dels HS Hs Ha) as P.
  assert (PD : Permutation (sort dels) dels) by apply (HS dels).
  destruct (execute_batch sort s adds dels) as [s'|e].
  - destruct P as [Hs' K]. split; [assumption|].
    destruct (m_batch_of_perkey (abs s) (sort adds) dels (abs s')) as [m' [E Q]].
    + intro k. rewrite <- (batch_key_perm_dels _ _ _ _ _ PD). apply K.
    + exists m'. split; [assumption|]. intro k. symmetry. apply Q.
  - destruct P as [E [k K]]. split; [assumption|].
    apply (m_batch_none_of_perkey _ _ _ k). rewrite <- (batch_key_perm_dels _ _ _ _ _ PD). exact K.
Qed.

Lemma step_refines : forall sort s o, sort_ok sort -> store_ok s -> op_ok o ->
  let s' := fst (model_step sort s o) in
  let e := snd (model_step sort s o) in
  store_ok s' /\
  smap_eq (abs s') (fst (spec_step sort (abs s) o)) /\
  snd (spec_step sort (abs s) o) = failed e /\
  (e = 0 \/ e = E_NXKEY \/ e = E_NXVAL) /\
  (e <> 0 -> s' = s).
Proof.
  intros sort s o HS Hs Ho. destruct o as [k v|k v|adds dels| | | |c]; cbn [model_step spec_step].
  - destruct (add_refines s k v Hs Ho) as [A B]. cbn [fst snd].
    refine (conj A (conj B (conj eq_refl (conj (or_introl eq_refl) _)))). intro X; contradiction.
  - pose proof (del_refines s k v Hs) as P. destruct (del s k v) as [s'|e]; cbn [fst snd].
    + destruct P as [A [m' [B C]]]. rewrite B. cbn [fst snd].
      refine (conj A (conj C (conj eq_refl (conj (or_introl eq_refl) _)))). intro X; contradiction.
    + destruct P as [B C]. rewrite B. cbn [fst snd].
      assert (Z : e = E_NXKEY \/ e = E_NXVAL) by (destruct C as [[C _]|[C _]]; [left | right]; assumption).
      refine (conj Hs (conj (fun k' => eq_refl) (conj _ (conj (or_intror Z) (fun _ => eq_refl))))).
      destruct Z; subst; reflexivity.
  - pose proof (execute_batch_refines sort s adds dels HS Hs Ho) as P.
    destruct (execute_batch sort s adds dels) as [s'|e]; cbn [fst snd].
    + destruct P as [A [m' [B C]]]. rewrite B. cbn [fst snd].
      refine (conj A (conj C (conj eq_refl (conj (or_introl eq_refl) _)))). intro X; contradiction.
    + destruct P as [E B]. rewrite B. cbn [fst snd]. subst e.
      refine (conj Hs (conj (fun k' => eq_refl) (conj eq_refl (conj (or_intror (or_intror eq_refl)) (fun _ => eq_refl))))).
  - cbn [fst snd].
    refine (conj Hs (conj (fun k' => eq_refl) (conj eq_refl (conj (or_introl eq_refl) (fun _ => eq_refl))))).
  - cbn [fst snd].
    refine (conj Hs (conj (fun k' => eq_refl) (conj eq_refl (conj (or_introl eq_refl) (fun _ => eq_refl))))).
  - cbn [fst snd].
    refine (conj Hs (conj (fun k' => eq_refl) (conj eq_refl (conj (or_introl eq_refl) (fun _ => eq_refl))))).
  - cbn [fst snd].
    refine (conj Hs (conj (fun k' => eq_refl) (conj eq_refl (conj (or_introl eq_refl) (fun _ => eq_refl))))).
Qed.

(* a session boundary (Close, open the same directory again) and Backup + Restore are the
   identity on store and map.  That is true by definition of the model: what the boundary does to
   the bytes on disk (flush, tombstones meeting older versions, the backup engine) is RocksDB's
   and is covered only by the differential run, which reads every key after every boundary. *)
Lemma boundary_is_identity : forall sort s ord m,
  model_step sort s OReopen = (s, 0) /\ spec_step ord m OReopen = (m, false) /\
  model_step sort s OBackupRestore = (s, 0) /\ spec_step ord m OBackupRestore = (m, false).
Proof. intros. repeat split. Qed.

Lemma model_run_cons : forall sort s o r,
  model_run sort s (o :: r) =
  (fst (model_run sort (fst (model_step sort s o)) r),
   snd (model_step sort s o) :: snd (model_run sort (fst (model_step sort s o)) r)).
Proof.
  intros. cbn [model_run]. destruct (model_step sort s o) as [s1 e]. cbn [fst snd].
  destruct (model_run sort s1 r). reflexivity.
Qed.

Lemma spec_run_cons : forall ord m o r,
  spec_run ord m (o :: r) =
  (fst (spec_run ord (fst (spec_step ord m o)) r),
   snd (spec_step ord m o) :: snd (spec_run ord (fst (spec_step ord m o)) r)).
Proof.
  intros. cbn [spec_run]. destruct (spec_step ord m o) as [m1 e]. cbn [fst snd].
  destruct (spec_run ord m1 r). reflexivity.
Qed.

(* unbounded histories: from related states, the store after any sequence of operations
   abstracts to the specification's map, step by step with the same failures *)
Theorem run_refines : forall sort, sort_ok sort -> forall ops s m,
  store_ok s -> smap_eq (abs s) m -> Forall op_ok ops ->
  store_ok (fst (model_run sort s ops)) /\
  smap_eq (abs (fst (model_run sort s ops))) (fst (spec_run sort m ops)) /\
  map failed (snd (model_run sort s ops)) = snd (spec_run sort m ops) /\
  Forall (fun e => e = 0 \/ e = E_NXKEY \/ e = E_NXVAL) (snd (model_run sort s ops)).
Proof.
  intros sort HS. induction ops as [|o r IH]; intros s m Hs Hm Ho.
  - cbn. repeat split; try assumption. constructor.
  - inversion Ho as [|? ? Ho1 Hor]; subst.
    rewrite model_run_cons, spec_run_cons. cbn [fst snd].
    destruct (step_refines sort s o HS Hs Ho1) as [A [B [C [D _]]]].
    destruct (spec_step_ext sort (abs s) m o Hm) as [X Y].
    destruct (IH (fst (model_step sort s o)) (fst (spec_step sort m o)) A) as [I1 [I2 [I3 I4]]];
      [intro k; rewrite B; apply Y | assumption |].
    repeat split; try assumption.
    + cbn [map]. rewrite I3. f_equal. rewrite <- X. symmetry. exact C.
    + constructor; assumption.
Qed.

Lemma store_ok_empty : store_ok empty_store.
Proof. intros k d H. discriminate. Qed.

Lemma abs_empty : smap_eq (abs empty_store) m_empty.
Proof. intro k. reflexivity. Qed.

(* ---------------------------------------------------------------- the hypotheses are satisfiable *)

Lemma kv_insert_perm : forall x l, Permutation (kv_insert x l) (x :: l).
Proof.
  induction l as [|y l IH]; simpl; [apply Permutation_refl|].
  destruct (bltb (fst y) (fst x)); [|apply Permutation_refl].
  eapply Permutation_trans; [apply perm_skip; exact IH | apply perm_swap].
Qed.

Lemma kv_insert_sorted : forall x l, SS l -> SS (kv_insert x l).
Proof.
  induction l as [|y l IH]; intro S; simpl; [constructor; constructor|].
  inversion S; subst. destruct (bltb (fst y) (fst x)) eqn:C.
  - constructor; [apply IH; assumption|].
    assert (F : Forall (key_le y) (x :: l)) by (constructor; [apply klt_kle; exact C | assumption]).
    rewrite Forall_forall in *. intros z Hz. apply F. eapply Permutation_in; [apply kv_insert_perm | exact Hz].
  - constructor; [assumption|]. constructor; [exact C|].
    eapply Forall_impl; [|eassumption]. intros z Hz. unfold key_le in *. eapply kle_trans; [exact C | exact Hz].
Qed.

(* insertion sort by key is an admissible sort *)
Lemma sort_ok_isort : sort_ok kv_isort.
Proof.
  intro l. unfold kv_isort. induction l as [|x l [P S]]; simpl; [split; constructor|]. split.
  - eapply Permutation_trans; [apply kv_insert_perm | apply perm_skip; assumption].
  - apply StronglySorted_Sorted. apply kv_insert_sorted. apply Sorted_StronglySorted; [|assumption].
    intros a b c. unfold key_le. apply kle_trans.
Qed.

(* a sort that reverses the order of equal keys is admissible too (sort.Slice is not stable) *)
Fixpoint kv_insert_after (x : kv) (l : list kv) : list kv :=
  match l with
  | [] => [x]
  | y :: l' => if bltb (fst x) (fst y) then x :: l else y :: kv_insert_after x l'
  end.
Definition kv_rsort (l : list kv) : list kv := fold_right kv_insert_after [] l.

Lemma kv_insert_after_perm : forall x l, Permutation (kv_insert_after x l) (x :: l).
Proof.
  induction l as [|y l IH]; simpl; [apply Permutation_refl|].
  destruct (bltb (fst x) (fst y)); [apply Permutation_refl|].
  eapply Permutation_trans; [apply perm_skip; exact IH | apply perm_swap].
Qed.

Lemma kv_insert_after_sorted : forall x l, SS l -> SS (kv_insert_after x l).
Proof.
  induction l as [|y l IH]; intro S; simpl; [constructor; constructor|].
  inversion S; subst. destruct (bltb (fst x) (fst y)) eqn:C.
  - constructor; [assumption|]. constructor; [apply klt_kle; exact C|].
    eapply Forall_impl; [|eassumption]. intros z Hz. unfold key_le in *. eapply kle_trans; [apply klt_kle; exact C | exact Hz].
  - constructor; [apply IH; assumption|].
    assert (F : Forall (key_le y) (x :: l)) by (constructor; [exact C | assumption]).
    rewrite Forall_forall in *. intros z Hz. apply F. eapply Permutation_in; [apply kv_insert_after_perm | exact Hz].
Qed.

Lemma sort_ok_rsort : sort_ok kv_rsort.
Proof.
  intro l. unfold kv_rsort. induction l as [|x l [P S]]; simpl; [split; constructor|]. split.
  - eapply Permutation_trans; [apply kv_insert_after_perm | apply perm_skip; assumption].
  - apply StronglySorted_Sorted. apply kv_insert_after_sorted. apply Sorted_StronglySorted; [|assumption].
    intros a b c. unfold key_le. apply kle_trans.
Qed.

(* the two sorts give different stores on the same batch: the order of two additions to one key *)
Example sorts_differ :
  let adds := [([97], [1]); ([97], [2])] in
  (match execute_batch kv_isort empty_store adds [] with Ok s => abs s [97] | Err _ => [] end) = [[1]; [2]] /\
  (match execute_batch kv_rsort empty_store adds [] with Ok s => abs s [97] | Err _ => [] end) = [[2]; [1]].
Proof. vm_compute. split; reflexivity. Qed.

(* a history with a failing batch in the middle: nothing of that batch is visible afterwards *)
Definition example_ops : list op :=
  [OAdd [97] [1]; OAdd [97] [];
   OBatch [([98], [2]); ([97], [3])] [([97], [1]); ([98], [9])];   (* fails: 9 is not under b *)
   OBatch [([98], [2]); ([97], [3]); ([98], [2])] [([97], [1]); ([98], [2])];
   ODel [97] [7]; ODel [99] [7]; ODel [97] []].

Example history_example :
  snd (model_run kv_isort empty_store example_ops) = [0; 0; E_NXVAL; 0; E_NXVAL; E_NXKEY; 0] /\
  map (abs (fst (model_run kv_isort empty_store example_ops))) [[97]; [98]; [99]] = [[[3]]; [[2]]; []].
Proof. split; vm_compute; reflexivity. Qed.

Example history_example_ok : Forall op_ok example_ops.
Proof.
  unfold example_ops. repeat (constructor; try exact I); unfold okv, nlen; simpl; lia.
Qed.

(* ---------------------------------------------------------------- summary statements *)

(* ExecuteBatch against the batch in the order it was handed over: same failure; on success
   every key keeps its surviving old values in place and holds, behind them, the same values
   as "all additions, then all deletions" - in an order the sort decides *)
Theorem batch_is_adds_then_dels : forall sort s adds dels, sort_ok sort -> store_ok s -> kvs_ok adds ->
  Permutation (sort adds) adds /\
  match execute_batch sort s adds dels with
  | Ok s' =>
      store_ok s' /\
      (exists m1, m_batch (abs s) (sort adds) dels = Some m1 /\ smap_eq (abs s') m1) /\
      (exists m', m_batch (abs s) adds dels = Some m' /\
         forall k, upto_new (length (remove_avail (vals_of k dels) (abs s k))) (m' k) (abs s' k))
  | Err e => e = E_NXVAL /\ m_batch (abs s) adds dels = None
  end.
Proof.
  intros sort s adds dels HS Hs Ha. split; [apply (HS adds)|].
  pose proof (execute_batch_refines sort s adds dels HS Hs Ha) as P.
  pose proof (m_batch_perm_adds (abs s) adds (sort adds) dels (Permutation_sym (proj1 (HS adds)))) as Q.
  destruct (execute_batch sort s adds dels) as [s'|e].
  - destruct P as [Hs' [m1 [E C]]]. split; [assumption|]. split; [exists m1; split; assumption|].
    rewrite E in Q. destruct (m_batch (abs s) adds dels) as [m'|]; [|contradiction].
    exists m'. split; [reflexivity|]. intro k. rewrite (C k). apply Q.
  - destruct P as [E B]. split; [assumption|]. rewrite B in Q.
    destruct (m_batch (abs s) adds dels); [contradiction | reflexivity].
Qed.

(* with a sort that keeps the order of additions to one key (a stable sort) the result is exactly
   "all additions, then all deletions" *)
Theorem batch_exact_if_key_order_kept : forall sort s adds dels, sort_ok sort -> store_ok s -> kvs_ok adds ->
  (forall k, vals_of k (sort adds) = vals_of k adds) ->
  match execute_batch sort s adds dels with
  | Ok s' => exists m', m_batch (abs s) adds dels = Some m' /\ smap_eq (abs s') m'
  | Err e => m_batch (abs s) adds dels = None
  end.
Proof.
  intros sort s adds dels HS Hs Ha K.
  pose proof (execute_batch_refines sort s adds dels HS Hs Ha) as P.
  pose proof (m_batch_same_key_order (abs s) adds (sort adds) dels K) as Q.
  destruct (execute_batch sort s adds dels) as [s'|e].
  - destruct P as [_ [m1 [E C]]]. rewrite E in Q. destruct (m_batch (abs s) adds dels) as [m'|]; [|contradiction].
    exists m'. split; [reflexivity|]. intro k. rewrite (C k). symmetry. apply Q.
  - destruct P as [_ B]. rewrite B in Q. destruct (m_batch (abs s) adds dels); [contradiction | reflexivity].
Qed.

(* but not for every admissible sort: two additions to one key may come out swapped *)
Theorem batch_exact_order_refuted :
  exists sort, sort_ok sort /\
  exists adds s', execute_batch sort empty_store adds [] = Ok s' /\
  exists m', m_batch (abs empty_store) adds [] = Some m' /\ abs s' [97] <> m' [97].
Proof.
  exists kv_rsort. split; [apply sort_ok_rsort|].
  exists [([97], [1]); ([97], [2])]. eexists. split; [reflexivity|].
  eexists. split; [reflexivity|]. vm_compute. discriminate.
Qed.

(* a batch that fails changes nothing, in the store and in the map; the failure does not depend on
   the order of the additions *)
Theorem failed_batch_noop : forall sort s adds dels, sort_ok sort -> store_ok s -> kvs_ok adds ->
  snd (model_step sort s (OBatch adds dels)) <> 0 ->
  fst (model_step sort s (OBatch adds dels)) = s /\
  snd (model_step sort s (OBatch adds dels)) = E_NXVAL /\
  m_batch (abs s) adds dels = None /\
  fst (spec_step sort (abs s) (OBatch adds dels)) = abs s.
Proof.
  intros sort s adds dels HS Hs Ha F.
  pose proof (batch_is_adds_then_dels sort s adds dels HS Hs Ha) as [_ P].
  pose proof (execute_batch_refines sort s adds dels HS Hs Ha) as Q.
  cbn [model_step spec_step] in *.
  destruct (execute_batch sort s adds dels) as [s'|e]; cbn [fst snd] in *; [contradiction F; reflexivity|].
  destruct P as [E B]. destruct Q as [_ B']. rewrite B'. cbn [fst]. repeat split; assumption.
Qed.

(* integrate consumes both pair lists: with sorted pair lists and the strictly sorted keys that
   cover them, the loops leave nothing, whatever bytes are stored *)
Theorem integrate_consumes_all : forall sort s adds dels, sort_ok sort ->
  (forall e, execute_batch sort s adds dels = Err e -> e = E_UEOF \/ e = E_NXVAL) /\
  (forall keys, affected_keys (sort adds) (sort dels) = Some keys ->
     forall out a2 d2,
       integrate_loop (map (fun k => (k, get_or_nil s k)) keys) (sort adds) (sort dels) = Ok (out, a2, d2) ->
       a2 = [] /\ d2 = []) /\
  affected_keys (sort adds) (sort dels) <> None.
Proof.
  intros sort s adds dels HS. split; [intros e H; eapply execute_batch_errors; eassumption|].
  destruct (affected_keys_spec (sort adds) (sort dels) (sort_ok_SS sort adds HS) (sort_ok_SS sort dels HS)) as [keys [R [S I]]].
  split; [|rewrite R; discriminate].
  intros keys' R' out a2 d2 H. rewrite R in R'. inversion R'; subst keys'.
  assert (KM : map fst (map (fun k => (k, get_or_nil s k)) keys) = keys) by (rewrite map_map; simpl; apply map_id).
  eapply (integrate_loop_consumes_all _ (sort adds) (sort dels)); [| apply sort_ok_SS; assumption | apply sort_ok_SS; assumption | | | exact H].
  - rewrite KM. assumption.
  - intros x Hx. rewrite KM. apply I. apply in_or_app. left. unfold keysof. apply in_map. assumption.
  - intros x Hx. rewrite KM. apply I. apply in_or_app. right. unfold keysof. apply in_map. assumption.
Qed.

(* the property over unbounded histories, from the empty store *)
Theorem refines_map_of_lists : forall sort, sort_ok sort -> forall ops, Forall op_ok ops ->
  let r := model_run sort empty_store ops in
  let sp := spec_run sort m_empty ops in
  store_ok (fst r) /\
  smap_eq (abs (fst r)) (fst sp) /\
  map failed (snd r) = snd sp /\
  Forall (fun e => e = 0 \/ e = E_NXKEY \/ e = E_NXVAL) (snd r) /\
  (forall k, rdb_for_each (fst r) k = (m_for_each (fst sp) k, 0) /\
             rdb_find (fst r) k = match m_find (fst sp) k with Some v => Ok v | None => Err E_EOF end).
Proof.
  intros sort HS ops Ho. cbv zeta.
  destruct (run_refines sort HS ops empty_store m_empty store_ok_empty abs_empty Ho) as [A [B [C D]]].
  repeat split; try assumption.
  - rewrite (proj1 (reads_refine _ k A)). unfold m_for_each. rewrite B. reflexivity.
  - rewrite (proj2 (reads_refine _ k A)). unfold m_find. rewrite B. reflexivity.
Qed.

(* ---------------------------------------------------------------- backups into one directory *)

Definition bstate_ok (st : store * option store) : Prop :=
  store_ok (fst st) /\ match snd st with Some b => store_ok b | None => True end.
Definition bstate_rel (st : store * option store) (sp : bmap) : Prop :=
  smap_eq (abs (fst st)) (fst sp) /\
  match snd st, snd sp with
  | Some b, Some bm => smap_eq (abs b) bm
  | None, None => True
  | _, _ => False
  end.

Lemma bstep_refines : forall sort st sp o, sort_ok sort -> bstate_ok st -> bstate_rel st sp -> op_ok o ->
  bstate_ok (fst (model_bstep sort st o)) /\
  bstate_rel (fst (model_bstep sort st o)) (fst (spec_bstep sort sp o)) /\
  snd (spec_bstep sort sp o) = failed (snd (model_bstep sort st o)) /\
  (let e := snd (model_bstep sort st o) in e = 0 \/ e = E_NXKEY \/ e = E_NXVAL \/ e = E_OTHER) /\
  (snd (model_bstep sort st o) <> 0 -> fst (model_bstep sort st o) = st).
Proof.
  intros sort [s b] [m bm] o HS [Hs Hb] [Rm Rb] Ho. cbn [fst snd] in *.
  assert (BASE : forall o', op_ok o' ->
    let r := model_step sort s o' in let q := spec_step sort m o' in
    bstate_ok (fst r, b) /\ bstate_rel (fst r, b) (fst q, bm) /\ snd q = failed (snd r) /\
    (snd r = 0 \/ snd r = E_NXKEY \/ snd r = E_NXVAL \/ snd r = E_OTHER) /\ (snd r <> 0 -> (fst r, b) = (s, b))).
  { intros o' Ho'. cbv zeta.
    destruct (step_refines sort s o' HS Hs Ho') as [A [B [C [D E]]]].
    destruct (spec_step_ext sort (abs s) m o' Rm) as [X Y].
    split; [split; assumption|]. split; [split; [intro k; cbn [fst]; rewrite B; apply Y | exact Rb]|].
    split; [rewrite <- X; exact C|].
    split; [destruct D as [D|[D|D]]; auto|]. intro F. rewrite (E F). reflexivity. }
  destruct o as [k v|k v|adds dels| | | |c].
  1-5: (cbn [model_bstep spec_bstep];
        match goal with |- context [model_step _ _ ?o'] => specialize (BASE o' Ho) end;
        cbv zeta in BASE;
        destruct (model_step _ _ _) as [s' e]; destruct (spec_step _ _ _) as [m' f];
        cbn [fst snd] in *; exact BASE).
  - (* OBackup: the snapshot becomes the current store / map *)
    cbn [model_bstep spec_bstep fst snd].
    split; [split; assumption|]. split; [split; assumption|]. split; [reflexivity|].
    split; [left; reflexivity | intro F; contradiction].
  - (* ORestore: the latest snapshot *)
    cbn [model_bstep spec_bstep]. destruct b as [bs|], bm as [bmm|]; try contradiction; cbn [fst snd].
    + split; [split; [destruct c; assumption | assumption]|].
      split; [split; [destruct c; assumption | assumption]|]. split; [reflexivity|].
      split; [left; reflexivity | intro F; contradiction].
    + split; [split; [assumption | exact I]|]. split; [split; [assumption | exact I]|]. split; [reflexivity|].
      split; [right; right; right; reflexivity | intro F; reflexivity].
Qed.

Lemma model_brun_cons : forall sort st o r,
  model_brun sort st (o :: r) =
  (fst (model_brun sort (fst (model_bstep sort st o)) r),
   snd (model_bstep sort st o) :: snd (model_brun sort (fst (model_bstep sort st o)) r)).
Proof.
  intros. cbn [model_brun]. destruct (model_bstep sort st o) as [st1 e]. cbn [fst snd].
  destruct (model_brun sort st1 r). reflexivity.
Qed.

Lemma spec_brun_cons : forall ord st o r,
  spec_brun ord st (o :: r) =
  (fst (spec_brun ord (fst (spec_bstep ord st o)) r),
   snd (spec_bstep ord st o) :: snd (spec_brun ord (fst (spec_bstep ord st o)) r)).
Proof.
  intros. cbn [spec_brun]. destruct (spec_bstep ord st o) as [st1 e]. cbn [fst snd].
  destruct (spec_brun ord st1 r). reflexivity.
Qed.

(* unbounded histories with backups and restores: store and latest snapshot abstract to the
   specification's map and latest snapshot, with the same failures *)
Theorem brun_refines : forall sort, sort_ok sort -> forall ops st sp,
  bstate_ok st -> bstate_rel st sp -> Forall op_ok ops ->
  bstate_ok (fst (model_brun sort st ops)) /\
  bstate_rel (fst (model_brun sort st ops)) (fst (spec_brun sort sp ops)) /\
  map failed (snd (model_brun sort st ops)) = snd (spec_brun sort sp ops) /\
  Forall (fun e => e = 0 \/ e = E_NXKEY \/ e = E_NXVAL \/ e = E_OTHER) (snd (model_brun sort st ops)).
Proof.
  intros sort HS. induction ops as [|o r IH]; intros st sp Hs Hr Ho.
  - cbn. repeat split; try apply Hs; try apply Hr. constructor.
  - inversion Ho as [|? ? Ho1 Hor]; subst.
    rewrite model_brun_cons, spec_brun_cons. cbn [fst snd].
    destruct (bstep_refines sort st sp o HS Hs Hr Ho1) as [A [B [C [D _]]]].
    destruct (IH _ _ A B Hor) as [I1 [I2 [I3 I4]]].
    split; [assumption|]. split; [assumption|]. split.
    + cbn [map]. rewrite I3, C. reflexivity.
    + constructor; assumption.
Qed.

(* only OBackup changes the snapshot: whatever else happens in between, a restore yields the
   map as of the latest backup *)
Lemma snapshot_kept : forall ord ops m b, Forall (fun o => o <> OBackup) ops ->
  snd (fst (spec_brun ord (m, b) ops)) = b.
Proof.
  induction ops as [|o r IH]; intros m b H; [reflexivity|].
  inversion H as [|? ? H1 Hr]; subst. rewrite spec_brun_cons. cbn [fst].
  destruct o as [k v|k v|adds dels| | | |c]; try (exfalso; apply H1; reflexivity); cbn [spec_bstep].
  1-5: (destruct (spec_step ord m _) as [m' f]; cbn [fst]; apply IH; assumption).
  destruct b as [bm|]; cbn [fst]; apply IH; assumption.
Qed.

Theorem restore_yields_latest_backup : forall ord ops m0 b0 cont,
  Forall (fun o => o <> OBackup) ops ->
  let m := fst (fst (spec_bstep ord (m0, b0) OBackup)) in          (* the map when the backup is taken *)
  let st := fst (spec_brun ord (m0, b0) (OBackup :: ops)) in        (* ... and after any later operations *)
  m = m0 /\ spec_restored st = Some m0 /\
  spec_bstep ord st (ORestore cont) = ((if cont then m0 else fst st, Some m0), false).
Proof.
  intros ord ops m0 b0 cont H. cbv zeta. rewrite spec_brun_cons. cbn [spec_bstep fst snd].
  pose proof (snapshot_kept ord ops m0 (Some m0) H) as K.
  destruct (fst (spec_brun ord (m0, Some m0) ops)) as [m1 b1] eqn:E. cbn [snd fst] in *. subst b1.
  unfold spec_restored. cbn [snd]. repeat split.
Qed.

(* the property over unbounded histories including backups into one directory and restores *)
Theorem refines_map_of_lists_b : forall sort, sort_ok sort -> forall ops, Forall op_ok ops ->
  let r := model_brun sort (empty_store, None) ops in
  let sp := spec_brun sort (m_empty, None) ops in
  store_ok (fst (fst r)) /\
  smap_eq (abs (fst (fst r))) (fst (fst sp)) /\
  (match snd (fst r), spec_restored (fst sp) with          (* what a restore would show *)
   | Some b, Some bm => store_ok b /\ smap_eq (abs b) bm
   | None, None => True
   | _, _ => False
   end) /\
  map failed (snd r) = snd sp /\
  Forall (fun e => e = 0 \/ e = E_NXKEY \/ e = E_NXVAL \/ e = E_OTHER) (snd r) /\
  (forall k, rdb_for_each (fst (fst r)) k = (m_for_each (fst (fst sp)) k, 0) /\
             rdb_find (fst (fst r)) k = match m_find (fst (fst sp)) k with Some v => Ok v | None => Err E_EOF end).
Proof.
  intros sort HS ops Ho. cbv zeta.
  destruct (brun_refines sort HS ops (empty_store, None) (m_empty, None)) as [[A1 A2] [[B1 B2] [C D]]].
  - split; [apply store_ok_empty | exact I].
  - split; [apply abs_empty | exact I].
  - assumption.
  - split; [assumption|]. split; [assumption|]. split.
    { unfold spec_restored. destruct (snd (fst (model_brun sort (empty_store, None) ops))),
        (snd (fst (spec_brun sort (m_empty, None) ops))); try contradiction; [split; assumption | exact I]. }
    split; [assumption|]. split; [assumption|]. intro k. split.
    + rewrite (proj1 (reads_refine _ k A1)). unfold m_for_each. rewrite B1. reflexivity.
    + rewrite (proj2 (reads_refine _ k A1)). unfold m_find. rewrite B1. reflexivity.
Qed.
