(* C13 for the closest-key (v2) reader, part 3: IsAuthoritative, FindAnswer and serve over a
   database that satisfies the decidable guard wf_store_v2 (Proofs/NoPanicV2Walk) never panic and
   never run out of fuel on a wire-valid query name and a two-byte location (the Go type of a
   location id is [2]byte).  Rows are unconstrained: a panic inside a row callback is recovered
   by rdb.ForEach.  The per-request cache enters through Proofs/CtxFind (every walk of a
   request precedes its exact reads, so the cache holds only FindClosest entries when a walk
   starts).
   Also: the guard holds for the database compiled from any records whose owner labels are
   non-empty (Spec/Rows.rows_of_v2), and it is needed - a store with a reversed name that is not
   well formed (owner label of 259 bytes: the compiler writes byte(len) and the whole label)
   makes the model panic, as the real server does. *)
From DnsV Require Import Base.Bytes Model.Store Model.LookupV1 Model.LookupV2 Model.Serve Spec.Answer Spec.Rows.
From DnsV Require Import Proofs.Compile Proofs.ZoneCut Proofs.NxDomain Proofs.Reverse Proofs.NoPanic.
From DnsV Require Import Proofs.Store Proofs.Ctx Proofs.CtxFind Proofs.SortedStore.
From DnsV Require Import Proofs.NoPanicV2Names Proofs.NoPanicV2Walk.
From Coq Require Import ZifyN ZifyNat ZifyBool.
Ltac Zify.zify_post_hook ::= Z.div_mod_to_equations.
Open Scope N_scope.

Lemma wf_store_v2_parts : forall st, wf_store_v2 st = true ->
  uniq st /\ (forall k v, In (k, v) st -> key_ok k = true).
Proof.
  intros st H. unfold wf_store_v2 in H. apply andb_prop in H as [H1 H2].
  split; [apply keys_once_uniq; exact H1|].
  intros k v Hin. rewrite forallb_forall in H2. exact (H2 (k, v) Hin).
Qed.

(* the zone cut a walk returns: empty (never happens, harmless) or a packed valid name *)
Definition zcP (zc : bytes) : Prop :=
  zc = [] \/ exists n', zc = pack n' /\ nm_ok n' /\ nlen (pack n') <= 255.

(* records whose owner is a valid name: their additional-section targets are valid names *)
Definition item_ok (i : item) : Prop :=
  match i with IRR r => vname (rr_owner r) | IPick _ _ _ _ _ => True end.

Lemma target_vname : forall it name, item_ok it -> target_of it = Some name -> vname name.
Proof.
  intros [r|o t c cs k] name Hi H; cbn [target_of] in H; [|discriminate].
  destruct (rr_type r =? 2).
  - destruct (parse_name (rr_rdata r)) as [[nm rest]|] eqn:E; [|discriminate].
    inversion H; subst. eapply parse_name_vname; eauto.
  - destruct (rr_type r =? 15).
    + destruct (parse_name (skipn 2 (rr_rdata r))) as [[nm rest]|] eqn:E; [|discriminate].
      inversion H; subst. eapply parse_name_vname; eauto.
    + destruct (rr_type r =? 65); [|discriminate]. inversion H; subst. exact Hi.
Qed.

Lemma iter_rows_inv : forall {S} (I : S -> Prop) (f : cb S),
  (forall s r, I s -> I (fst (f s r))) -> forall rows s, I s -> I (fst (iter_rows f rows s)).
Proof.
  intros S I f Hf. induction rows as [|r t IH]; intros s H; [exact H|]. cbn [iter_rows].
  pose proof (Hf s r H) as H1. destruct (f s r) as [s' stt]. cbn [fst] in H1.
  destruct stt; [apply IH; exact H1 | exact H1 | exact H1].
Qed.
Lemma for_each_v2_inv : forall {S} (I : S -> Prop) (f : cb S) st c key s,
  (forall s r, I s -> I (fst (f s r))) -> I s -> I (fst (fst (for_each_v2 st c key f s))).
Proof.
  intros S I f st c key s Hf H. unfold for_each_v2. destruct (get_v2 st c key) as [rows c1].
  pose proof (iter_rows_inv I f Hf rows s H) as H1. destruct (iter_rows f rows s) as [s' stt]. exact H1.
Qed.
Lemma for_each_rr_v2_inv : forall {S} (I : S -> Prop) (f : cb S) st c name loc s s' e c',
  (forall s r, I s -> I (fst (f s r))) -> I s ->
  for_each_rr_v2 st c name loc f s = Val (s', e, c') -> I s'.
Proof.
  intros S I f st c name loc s s' e c' Hf H E. unfold for_each_rr_v2 in E.
  destruct (rev_into name (zeros (length name + 2))) as [d| |]; cbn [bind] in E; try discriminate.
  set (base := marker ++ firstn (length name) d) in *.
  assert (H1 : I (fst (fst (if is_loc0 loc then (s, false, c) else for_each_v2 st c (base ++ loc) f s)))).
  { destruct (is_loc0 loc); [exact H | apply for_each_v2_inv; assumption]. }
  destruct (if is_loc0 loc then (s, false, c) else for_each_v2 st c (base ++ loc) f s) as [[s1 e1] c1].
  cbn [fst] in H1. destruct e1.
  - inversion E; subst. exact H1.
  - pose proof (for_each_v2_inv I f st c1 (base ++ loc0) s1 Hf H1) as H2.
    destruct (for_each_v2 st c1 (base ++ loc0) f s1) as [[s2 e2] c2]. inversion E; subst. exact H2.
Qed.

Section V2.
Variable st : store.
Hypothesis Hwf : wf_store_v2 st = true.
Let U : uniq st := proj1 (wf_store_v2_parts st Hwf).
Let Hkeys := proj2 (wf_store_v2_parts st Hwf).

(* ---------------------------------------------------------------- find *)
Lemma find_val : forall (n : name) (l0 l1 : N) (P : Type) (parse : cb P)
    (pre : P -> bytes -> N -> res (P * bool)) (post : P -> P * bool) (J : P -> nat -> Prop) p c,
  nm_ok n -> nm64 n -> nlen (pack n) <= 255 ->
  (forall p j j', J p j -> (j' <= j)%nat -> J p j') ->
  (forall p j, (j <= length (rev n))%nat -> J p j ->
     exists p1 ok, pre p (pack (rev n)) (nlen (pfx (rev n) j) + 1) = Val (p1, ok) /\ J p1 j) ->
  (forall p j r, J p j -> J (fst (parse p r)) j) ->
  (forall p j, J p j -> J (fst (post p)) j) ->
  closest_sound st c -> J p (length (rev n)) ->
  exists p' c' j', find st P parse pre post (pack n) [l0; l1] p c = Val (p', c') /\
                   closest_sound st c' /\ (j' <= length (rev n))%nat /\ J p' j'.
Proof.
  intros n l0 l1 P parse pre post J p c Hn H64 Hlen Jm Jpre Jparse Jpost Hc HJ.
  set (R := rev n) in *.
  assert (HR : nm_ok R) by (apply Forall_rev; exact Hn).
  assert (HR64 : nm64 R) by (apply Forall_rev; exact H64).
  assert (HRlen : nlen (pack R) <= 255) by (unfold R; rewrite nlen_pack_rev; exact Hlen).
  pose proof (find_cache_free st U P parse pre post (pack n) [l0; l1] p c Hc) as A.
  unfold find_pure in A. rewrite (reverse_zone_name_gen n Hn Hlen) in A. cbn [bind] in A. fold R in A.
  destruct (walk_val st Hkeys R HR HR64 HRlen l0 l1 P parse pre post J Jm Jpre Jparse Jpost
              (length (pack n) + 2) (length R) (marker ++ pack R ++ [0; 0]) (nlen (marker ++ pack R ++ [0; 0])) p [0; 0; 0])
    as [p' [j' [E [Hj' J']]]].
  - lia.
  - unfold R. rewrite rev_length. pose proof (length_pack_ge n). lia.
  - rewrite pfx_all, pack_body, <- !app_assoc. reflexivity.
  - cbn [length]. lia.
  - rewrite pfx_all, !nlen_app, nlen_pack. change (nlen marker) with 2. change (nlen [0; 0]) with 2. lia.
  - lia.
  - exact HJ.
  - rewrite pfx_all, <- nlen_pack in E. rewrite E in A.
    destruct (find st P parse pre post (pack n) [l0; l1] p c) as [[p2 c2]| |]; cbn in A; try contradiction.
    destruct A as [-> A2]. exists p', c2, j'. auto.
Qed.

(* ---------------------------------------------------------------- IsAuthoritative *)
Lemma zone_cut_slice : forall (n : name) j0, (j0 <= length n)%nat ->
  slice_from (pack n) (nlen (pack n) - (nlen (pfx (rev n) j0) + 1)) = Val (pack (skipn (length n - j0) n)).
Proof.
  intros n j0 H. set (k := (length n - j0)%nat).
  assert (E1 : nlen (pfx (rev n) j0) = nlen (body (skipn k n))).
  { unfold pfx. rewrite firstn_rev. fold k. unfold nlen. rewrite length_body_rev. reflexivity. }
  rewrite E1, (pack_pfx n k), nlen_app, nlen_pack.
  apply slice_from_app. lia.
Qed.

Lemma is_auth_v2_val : forall (n : name) l0 l1 c,
  nm_ok n -> nm64 n -> nlen (pack n) <= 255 -> closest_sound st c ->
  exists ar c1, is_authoritative_v2 st c (pack n) [l0; l1] = Val (ar, c1) /\
                closest_sound st c1 /\ a_err ar = false /\ zcP (a_zc ar).
Proof.
  intros n l0 l1 c Hn H64 Hlen Hc. unfold is_authoritative_v2.
  set (J := fun (s : auth2_state) (_ : nat) =>
              snd s = 0 \/ exists j0, (j0 <= length (rev n))%nat /\ snd s = nlen (pfx (rev n) j0) + 1).
  match goal with |- context [find st ?P ?pa ?pr ?po _ _ ?p0 _] =>
    destruct (find_val n l0 l1 P pa pr po J p0 c Hn H64 Hlen) as [p' [c' [j' [E [Hc' [_ J']]]]]] end.
  - intros p j j' H _. exact H.
  - intros [[ns auth] z] j Hj _. eexists _, _. split; [reflexivity|]. right. exists j. split; [exact Hj | reflexivity].
  - intros [[ns auth] z] j r H. cbn beta iota. destruct (auth_cb (ns, auth) r) as [[ns' auth'] stt]. exact H.
  - intros [[ns auth] z] j H. exact H.
  - exact Hc.
  - left. reflexivity.
  - rewrite E. cbn [bind]. destruct p' as [[ns auth] z]. unfold J in J'. cbn [snd] in J'.
    destruct J' as [->|[j0 [Hj0 ->]]].
    + assert (C : (nlen (pack n) <? 0) = false) by lia. rewrite C.
      unfold slice_from. rewrite N.sub_0_r, N.leb_refl. cbn [bind].
      eexists _, _. split; [reflexivity|]. split; [exact Hc'|]. split; [reflexivity|].
      left. cbn [a_zc]. rewrite to_nat_nlen. apply skipn_all.
    + pose proof (pfx_le (rev n) j0) as Hle. rewrite nlen_pack_rev in Hle.
      assert (C : (nlen (pack n) <? nlen (pfx (rev n) j0) + 1) = false) by lia. rewrite C.
      rewrite rev_length in Hj0. rewrite (zone_cut_slice n j0 Hj0). cbn [bind].
      eexists _, _. split; [reflexivity|]. split; [exact Hc'|]. split; [reflexivity|].
      right. cbn [a_zc]. exists (skipn (length n - j0) n). split; [reflexivity|].
      split; [apply nm_ok_skipn; exact Hn|].
      rewrite (pack_pfx n (length n - j0)), nlen_app in Hlen. lia.
Qed.

(* ---------------------------------------------------------------- FindAnswer *)
Lemma wrs_items_ok : forall o c m t cs, Forall item_ok (wrs_items o c m t cs).
Proof. intros. unfold wrs_items. destruct (npick m cs =? 0); repeat constructor. Qed.

Lemma fa_cb_ok : forall qname qtype wild (s : fa_state) r, vname qname ->
  Forall item_ok (snd (fst s)) -> Forall item_ok (snd (fst (fst (fa_cb qname qtype wild s r)))).
Proof.
  intros qname qtype wild [[w an] found] r Hq H. unfold fa_cb. cbn [fst snd] in *.
  destruct (extract_rr r wild) as [[h|]| |]; try exact H.
  destruct ((h_type h =? 5) || (h_type h =? qtype) || (qtype =? 255)); [|exact H].
  destruct ((h_type h =? 1) || (h_type h =? 28)).
  - destruct (wrs_add h r w); exact H.
  - destruct (slice_from r (h_off h)); try exact H. cbn [fst snd].
    apply Forall_app. split; [exact H|]. constructor; [exact Hq | constructor].
Qed.

Lemma find_answer_v2_val : forall (n : name) ctrl qname qtype l0 l1 max c,
  nm_ok n -> nm64 n -> nlen (pack n) <= 255 -> vname qname -> closest_sound st c ->
  exists an found c1, find_answer_v2 st c (pack n) ctrl qname qtype [l0; l1] max = Val (an, found, c1) /\
                      closest_sound st c1 /\ Forall item_ok an.
Proof.
  intros n ctrl qname qtype l0 l1 max c Hn H64 Hlen Hq Hc. unfold find_answer_v2.
  set (J := fun (s : fa2_state) (j : nat) =>
              (exists jl, (j <= jl <= length (rev n))%nat /\ snd s = nlen (pfx (rev n) jl) + 1) /\
              Forall item_ok (snd (fst (fst (fst s))))).
  match goal with |- context [find st ?P ?pa ?pr ?po _ _ ?p0 _] =>
    destruct (find_val n l0 l1 P pa pr po J p0 c Hn H64 Hlen) as [p' [c' [j' [E [Hc' [_ J']]]]]] end.
  - intros p j j' [[jl [H1 H2]] H3] Hj. split; [exists jl; split; [lia | exact H2] | exact H3].
  - intros [[fs wild] last] j Hj [[jl [H1 H2]] H3]. cbn [snd fst] in H2, H3. subst last. cbn beta iota.
    destruct (nlen (pfx (rev n) j) + 1 <? nlen ctrl).
    + eexists _, _. split; [reflexivity|]. split; [exists jl; split; [exact H1 | reflexivity] | exact H3].
    + destruct (pre_fa_spec (rev n) j jl) as [b Eb]; [lia|]. rewrite Eb. cbn [bind].
      destruct b; eexists _, _; (split; [reflexivity|]).
      * split; [exists j; split; [lia | reflexivity] | exact H3].
      * split; [exists jl; split; [exact H1 | reflexivity] | exact H3].
  - intros [[fs wild] last] j r [[jl [H1 H2]] H3]. cbn beta iota. cbn [fst snd] in *.
    pose proof (fa_cb_ok qname qtype wild fs r Hq H3) as H4.
    destruct (fa_cb qname qtype wild fs r) as [fs' stt]. cbn [fst snd] in *.
    split; [exists jl; auto | exact H4].
  - intros [[fs wild] last] j [[jl [H1 H2]] H3]. cbn beta iota. cbn [fst snd] in *.
    destruct (snd fs); cbn [fst snd]; (split; [exists jl; auto | exact H3]).
  - exact Hc.
  - split; [|constructor]. exists (length (rev n)). split; [lia|]. cbn [snd].
    rewrite pfx_all, <- nlen_pack, nlen_pack_rev. reflexivity.
  - rewrite E. cbn [bind]. destruct p' as [[fs wild] last]. destruct J' as [_ H3]. cbn [fst snd] in H3.
    destruct fs as [[w an] found]. cbn [fa_finish fst snd] in *.
    eexists _, _, _. split; [reflexivity|]. split; [exact Hc'|].
    apply Forall_app. split; [exact H3|]. apply Forall_app. split; apply wrs_items_ok.
Qed.

(* ---------------------------------------------------------------- serve *)
Let rd := reader_v2 st.

Lemma additional_v2_val : forall recs loc qc m c, Forall item_ok recs ->
  exists m' c', additional ctx rd recs loc qc m c = Val (m', c') /\ m_an m' = m_an m /\ m_ns m' = m_ns m.
Proof.
  induction recs as [|it t IH]; intros loc qc m c H; cbn [additional]; [eexists _, _; split; [reflexivity | split; reflexivity]|].
  inversion H as [|? ? Hi Ht]; subst.
  destruct (target_of it) as [name|] eqn:Et; [|apply IH; exact Ht].
  destruct (negb (has_record m name 1) || negb (has_record m name 28)); [|apply IH; exact Ht].
  unfold rd at 1, reader_v2 at 1. cbn [rd_rr].
  destruct (for_each_rr_v2_vname st c (lower_bytes name) loc
              (add_cb (negb (has_record m name 1)) (negb (has_record m name 28))) wrs_empty
              (vname_lower name (target_vname it name Hi Et))) as [[[w e] c1] E].
  rewrite E. cbn [bind].
  match goal with |- context [additional ctx rd t loc qc ?mm c1] => destruct (IH loc qc mm c1 Ht) as [m' [c' [E' [A1 A2]]]] end.
  exists m', c'. split; [exact E' | split; [exact A1 | exact A2]].
Qed.

Lemma soa_cb_ok : forall zname (s : bool * list item) r, vname zname ->
  Forall item_ok (snd s) -> Forall item_ok (snd (fst (soa_cb zname s r))).
Proof.
  intros zname [soa acc] r Hz H. unfold soa_cb. cbn [fst snd] in *.
  destruct (extract_rr r false) as [[h|]| |]; try exact H.
  destruct (negb soa && (h_type h =? 6)); [|exact H].
  destruct (slice_from r (h_off h)); try exact H. cbn [fst snd].
  apply Forall_app. split; [exact H|]. constructor; [exact Hz | constructor].
Qed.
Lemma ns_cb_ok : forall zname cls (s : list item) r, vname zname ->
  Forall item_ok s -> Forall item_ok (fst (ns_cb zname cls s r)).
Proof.
  intros zname cls acc r Hz H. unfold ns_cb.
  destruct (extract_rr r false) as [[h|]| |]; try exact H.
  destruct (h_type h =? 2); [|exact H].
  destruct (parse_name (skipn (N.to_nat (h_off h)) r)) as [[nm rest]|]; [|exact H]. cbn [fst].
  apply Forall_app. split; [exact H|]. constructor; [exact Hz | constructor].
Qed.

Lemma serve_sections_v2_ok : forall q ecs loc auth zc an rcode c,
  zcP zc -> Forall item_ok an ->
  ok_outcome (serve_sections ctx rd q ecs loc auth zc an rcode c).
Proof.
  intros q ecs loc auth zc an rcode c Hzc Han. unfold serve_sections.
  destruct (parse_name zc) as [[zname rest]|] eqn:Ez; [|apply ok_servfail].
  assert (Hzn : vname zname) by (eapply parse_name_vname; eauto).
  destruct Hzc as [->|[n' [-> [Hn' Hl']]]]; [discriminate|].
  assert (Hns : exists nsec c4,
    (if auth && (item_count an =? 0) then
       '(s, _, c4) <- rd_rr ctx rd (bool * list item)%type c (pack n') loc (soa_cb zname) (false, []) ;;
       Val (snd s, c4)
     else if negb auth && negb (has_record (mkMsg an [] []) zname 2) then
       '(s, e, c4) <- rd_rr ctx rd (list item) c (pack n') loc (ns_cb zname (q_class q)) [] ;;
       Val ((if e : bool then [] else s), c4)
     else Val ([], c)) = Val (nsec, c4) /\ Forall item_ok nsec).
  { destruct (auth && (item_count an =? 0)).
    - unfold rd, reader_v2. cbn [rd_rr].
      destruct (for_each_rr_v2_pack st c n' loc (soa_cb zname) (false, []) Hn' Hl') as [[[s e] c4] E].
      rewrite E. cbn [bind]. eexists _, _. split; [reflexivity|].
      apply (for_each_rr_v2_inv (fun s : bool * list item => Forall item_ok (snd s)) (soa_cb zname)
               st c (pack n') loc (false, []) s e c4); [|constructor | exact E].
      intros s0 r H. apply soa_cb_ok; assumption.
    - destruct (negb auth && negb (has_record (mkMsg an [] []) zname 2)); [|eexists _, _; split; [reflexivity | constructor]].
      unfold rd, reader_v2. cbn [rd_rr].
      destruct (for_each_rr_v2_pack st c n' loc (ns_cb zname (q_class q)) [] Hn' Hl') as [[[s e] c4] E].
      rewrite E. cbn [bind]. eexists _, _. split; [reflexivity|].
      destruct e; [constructor|].
      apply (for_each_rr_v2_inv (fun s : list item => Forall item_ok s) (ns_cb zname (q_class q))
               st c (pack n') loc [] s false c4); [|constructor | exact E].
      intros s0 r H. apply ns_cb_ok; assumption. }
  destruct Hns as [nsec [c4 [E Hnsec]]]. rewrite E. cbn [lift].
  destruct (additional_v2_val (m_an (mkMsg an nsec [])) loc (q_class q) (mkMsg an nsec []) c4 Han) as [m1 [c5 [E1 [A1 A2]]]].
  rewrite E1. cbn [bind].
  assert (Hns1 : Forall item_ok (m_ns m1)) by (rewrite A2; exact Hnsec).
  destruct (additional_v2_val (m_ns m1) loc (q_class q) m1 c5 Hns1) as [m2 [c6 [E2 _]]].
  rewrite E2. cbn [lift]. apply ok_reply.
Qed.

Lemma serve_answer_v2_ok : forall q ecs (n : name) l0 l1 max ar c,
  nm_ok n -> nm64 n -> nlen (pack n) <= 255 -> vname (q_name q) -> zcP (a_zc ar) -> closest_sound st c ->
  ok_outcome (serve_answer ctx rd q ecs [l0; l1] max (pack n) ar c).
Proof.
  intros q ecs n l0 l1 max ar c Hn H64 Hlen Hq Hzc Hc. unfold serve_answer.
  destruct (a_auth ar).
  - unfold rd at 1, reader_v2 at 1. cbn [rd_answer].
    destruct (find_answer_v2_val n (a_zc ar) (q_name q) (q_type q) l0 l1 max c Hn H64 Hlen Hq Hc)
      as [an [found [c1 [E [Hc1 Han]]]]].
    rewrite E. cbn [bind lift]. apply serve_sections_v2_ok; assumption.
  - cbn [lift]. apply serve_sections_v2_ok; [exact Hzc | constructor].
Qed.

Lemma serve_ds_v2_val : forall q (n : name) l0 l1 ar c,
  nm_ok n -> nm64 n -> nlen (pack n) <= 255 -> zcP (a_zc ar) -> closest_sound st c ->
  exists r, serve_ds ctx rd q [l0; l1] (pack n) ar c = Val r /\
            match r with Some (ar', c2) => zcP (a_zc ar') /\ closest_sound st c2 | None => True end.
Proof.
  intros q n l0 l1 ar c Hn H64 Hlen Hzc Hc. unfold serve_ds.
  destruct (negb (a_auth ar) && (q_type q =? 43)); [|eexists; split; [reflexivity | split; assumption]].
  destruct n as [|l p].
  - change (pack []) with ([0] : bytes). cbn [idx nth_error N.to_nat bind N.eqb].
    eexists; split; [reflexivity | split; assumption].
  - rewrite pack_cons. cbn [app]. unfold idx. cbn [nth_error N.to_nat bind].
    inversion Hn as [|? ? Hl Hp]; subst. inversion H64 as [|? ? Hl64 Hp64]; subst.
    assert (E0 : (nlen l =? 0) = false) by (destruct l; [contradiction | rewrite nlen_cons; lia]).
    rewrite E0.
    assert (Hb : b8 (nlen l + 1) = nlen l + 1) by (unfold b8; apply N.mod_small; lia). rewrite Hb.
    change (nlen l :: l ++ pack p) with ((nlen l :: l) ++ pack p).
    rewrite (slice_from_app (nlen l :: l) (pack p)) by (rewrite nlen_cons; lia). cbn [bind].
    unfold rd at 1, reader_v2 at 1. cbn [rd_auth].
    assert (Hlp : nlen (pack p) <= 255) by (rewrite pack_cons, nlen_app in Hlen; lia).
    destruct (is_auth_v2_val p l0 l1 c Hp Hp64 Hlp Hc) as [ar2 [c2 [E [Hc2 [He Hz2]]]]].
    rewrite E. cbn [bind]. rewrite He.
    eexists; split; [reflexivity|]. cbn [a_zc]. split; assumption.
Qed.

Lemma serve_v2_ok : forall q l0 l1 ecs max,
  wnP (q_name q) -> nlen (q_name q) <= 255 ->
  ok_outcome (serve_with ctx rd [] q (LocOk [l0; l1]) ecs max).
Proof.
  intros q l0 l1 ecs max Hw Hlen. unfold serve_with.
  assert (Hq : vname (q_name q)) by (split; assumption).
  destruct (wnP_pack _ (wnP_lower _ Hw)) as [n [En [Hn H64]]].
  assert (Hnl : nlen (pack n) <= 255) by (rewrite <- En, nlen_lower; exact Hlen).
  assert (main : ok_outcome
    (lift (rd_auth ctx rd [] (lower_bytes (q_name q)) [l0; l1])
       (fun x => let '(ar, c1) := x in
          if a_err ar then servfail q
          else if negb (a_ns ar) && negb (a_auth ar)
               then OReply (mkResp (q_id q) (question_of q) 5 false [] [] [] (opt_of q ecs))
               else lift (serve_ds ctx rd q [l0; l1] (lower_bytes (q_name q)) ar c1)
                      (fun r => match r with
                                | Some (ar', c2) => serve_answer ctx rd q ecs [l0; l1] max (lower_bytes (q_name q)) ar' c2
                                | None => servfail q
                                end)))).
  { rewrite En. unfold rd at 1, reader_v2 at 1. cbn [rd_auth].
    destruct (is_auth_v2_val n l0 l1 [] Hn H64 Hnl (closest_sound_nil st)) as [ar [c1 [E [Hc1 [He Hz]]]]].
    rewrite E. cbn [lift]. rewrite He.
    destruct (negb (a_ns ar) && negb (a_auth ar)); [apply ok_reply|].
    destruct (serve_ds_v2_val q n l0 l1 ar c1 Hn H64 Hnl Hz Hc1) as [r [Er Hr]].
    rewrite Er. cbn [lift]. destruct r as [[ar' c2]|]; [|apply ok_servfail].
    destruct Hr as [Hz' Hc2]. apply serve_answer_v2_ok; assumption. }
  destruct (q_edns q) as [[|p]|]; [exact main | apply ok_reply | exact main].
Qed.
End V2.

(* the location FindLocation returned: nil, an error, or a two-byte id *)
Definition loc_wf (l : locres) : Prop :=
  match l with LocOk id => length id = 2%nat | _ => True end.

(* C13 for RocksDB with v2 keys *)
Theorem serve_no_panic_v2 : forall st q locr ecs max,
  wf_store_v2 st = true -> wire_name (q_name q) = true -> loc_wf locr ->
  serve RDB2 st q locr ecs max <> OPanic /\ serve RDB2 st q locr ecs max <> OFuel.
Proof.
  intros st q locr ecs max Hwf Hw Hl. unfold wire_name in Hw. apply andb_prop in Hw as [Hw1 Hw2].
  assert (Hp : wnP (q_name q)) by (eexists; exact Hw1).
  assert (Hlen : nlen (q_name q) <= 255) by lia.
  unfold serve. destruct locr as [| |id].
  - unfold serve_with. destruct (q_edns q) as [[|p]|]; split; discriminate.
  - unfold serve_with. destruct (q_edns q) as [[|p]|]; split; discriminate.
  - cbn [loc_wf] in Hl. destruct id as [|l0 [|l1 [|]]]; try discriminate.
    apply serve_v2_ok; assumption.
Qed.

(* ---------------------------------------------------------------- the guard holds for compiled databases *)
Lemma rname_ok_build : forall (M : name) (l2 : bytes) fuel, nm_ok M -> length l2 = 2%nat ->
  (length M < fuel)%nat -> rname_ok fuel (pack M ++ l2) = true.
Proof.
  induction M as [|x M IH]; intros l2 fuel HM Hl Hf; (destruct fuel as [|fuel]; [lia|]).
  - change (pack []) with ([0] : bytes). cbn [app rname_ok N.eqb]. unfold nlen. rewrite Hl. reflexivity.
  - inversion HM as [|? ? Hx HM']; subst. rewrite pack_cons. cbn [app rname_ok].
    assert (E0 : (nlen x =? 0) = false) by (destruct x; [contradiction | rewrite nlen_cons; lia]).
    rewrite E0, <- app_assoc.
    assert (E1 : (nlen x <=? nlen (x ++ pack M ++ l2)) = true) by (rewrite nlen_app; lia).
    rewrite E1. cbn [andb]. rewrite to_nat_nlen, skipn_app_len. apply IH; [exact HM' | exact Hl | cbn [length] in Hf; lia].
Qed.

Lemma is_prefix_marker_app : forall x, is_prefix marker (marker ++ x) = true.
Proof. reflexivity. Qed.

Lemma key_ok_rr : forall (M : name) (l2 : bytes), nm_ok M -> length l2 = 2%nat ->
  key_ok (marker ++ pack M ++ l2) = true.
Proof.
  intros M l2 HM Hl. unfold key_ok. rewrite rr_marker_eq, is_prefix_marker_app.
  change (skipn 2 (marker ++ pack M ++ l2)) with (pack M ++ l2).
  assert (Hr : rname_ok (S (length (marker ++ pack M ++ l2))) (pack M ++ l2) = true).
  { apply rname_ok_build; [exact HM | exact Hl|]. pose proof (length_pack_ge M). rewrite !app_length. lia. }
  revert Hr. destruct (pack M ++ l2) as [|c t] eqn:E.
  - destruct M; cbn in E; discriminate.
  - intros Hr. rewrite Hr. apply orb_true_r.
Qed.

(* store_add / store_of keep every key once and add only the keys they are given *)
Lemma has_key_store_add : forall s k v k', has_key (store_add s k v) k' = has_key s k' || bytes_eqb k k'.
Proof.
  induction s as [|[k0 vs] t IH]; intros k v k'; cbn [store_add has_key].
  - rewrite orb_false_r. reflexivity.
  - destruct (bytes_eqb k0 k) eqn:E; cbn [has_key].
    + apply bytes_eqb_eq in E. subst. destruct (bytes_eqb k k'), (has_key t k'); reflexivity.
    + rewrite IH, orb_assoc. reflexivity.
Qed.
Lemma keys_once_store_add : forall s k v, keys_once s = true -> keys_once (store_add s k v) = true.
Proof.
  induction s as [|[k0 vs] t IH]; intros k v H; cbn [store_add]; [reflexivity|].
  cbn [keys_once] in H. apply andb_prop in H as [H1 H2].
  destruct (bytes_eqb k0 k) eqn:E; cbn [keys_once].
  - rewrite H1, H2. reflexivity.
  - assert (E' : bytes_eqb k k0 = false).
    { destruct (bytes_eqb k k0) eqn:X; [|reflexivity]. apply bytes_eqb_eq in X. subst. rewrite bytes_eqb_refl in E. discriminate. }
    rewrite has_key_store_add, E', orb_false_r, H1, (IH k v H2). reflexivity.
Qed.
Lemma keys_store_add : forall s k v k1 v1, In (k1, v1) (store_add s k v) -> k1 = k \/ exists v0, In (k1, v0) s.
Proof.
  induction s as [|[k0 vs] t IH]; intros k v k1 v1 H; cbn [store_add] in H.
  - destruct H as [H|[]]. inversion H; subst. left. reflexivity.
  - destruct (bytes_eqb k0 k) eqn:E.
    + destruct H as [H|H]; [inversion H; subst; right; exists vs; left; reflexivity | right; exists v1; right; exact H].
    + destruct H as [H|H]; [inversion H; subst; right; exists v1; left; reflexivity|].
      destruct (IH _ _ _ _ H) as [->|[v0 H0]]; [left; reflexivity | right; exists v0; right; exact H0].
Qed.

Lemma store_of_wf : forall (kvs : list (bytes * bytes)) s,
  keys_once s = true -> (forall k v, In (k, v) s -> key_ok k = true) ->
  (forall kv, In kv kvs -> key_ok (fst kv) = true) ->
  let s' := fold_left (fun s kv => store_add s (fst kv) (snd kv)) kvs s in
  keys_once s' = true /\ (forall k v, In (k, v) s' -> key_ok k = true).
Proof.
  induction kvs as [|[k0 v0] t IH]; intros s H1 H2 H3; cbn [fold_left]; [split; assumption|].
  apply IH.
  - apply keys_once_store_add. exact H1.
  - intros k v Hin. destruct (keys_store_add _ _ _ _ _ Hin) as [->|[v1 Hv1]].
    + exact (H3 (k0, v0) (or_introl eq_refl)).
    + exact (H2 k v1 Hv1).
  - intros kv Hin. apply H3. right. exact Hin.
Qed.

(* every database compiled (Spec/Rows, v2 layout) from records whose owner labels are non-empty
   and whose location tags are two bytes long satisfies the guard - in particular every database
   compiled from a well-formed data file (labels of 1..63 bytes: Proofs/ZoneCut.wf_recs) *)
Definition owners_ok (recs : list record) : Prop :=
  forall r, In r recs -> nm_ok (r_owner r) /\ match r_loc r with Some l => length l = 2%nat | None => True end.

Theorem compiled_store_wf : forall recs, owners_ok recs ->
  wf_store_v2 (store_of (rows_of_v2 recs)) = true.
Proof.
  intros recs H. unfold wf_store_v2, store_of.
  destruct (store_of_wf (rows_of_v2 recs) [] eq_refl) as [A B].
  - intros k v [].
  - intros kv Hin. unfold rows_of_v2 in Hin. apply in_map_iff in Hin as [r [<- Hr]]. cbn [fst].
    destruct (H r Hr) as [Ho Hl]. unfold key_v2. rewrite rpack_pack_rev.
    apply (key_ok_rr (rev (r_owner r)) (loc_bytes r)); [apply Forall_rev; exact Ho|].
    unfold loc_bytes. destruct (r_loc r); [exact Hl | reflexivity].
  - rewrite A. cbn [andb]. apply forallb_forall. intros [k v] Hin. exact (B k v Hin).
Qed.

Lemma wf_recs_owners_ok : forall recs, wf_recs recs -> owners_ok recs.
Proof.
  intros recs W r Hin. unfold wf_recs in W. rewrite Forall_forall in W.
  destruct (W r Hin) as (_ & _ & _ & Ho & Hl). split.
  - unfold nm_ok. eapply Forall_impl; [|exact Ho]. intros l [[H1 _] _] X. subst. cbn in H1. lia.
  - destruct (r_loc r) as [l|]; [|exact I]. destruct Hl as [a [b [-> _]]]. reflexivity.
Qed.

Theorem wf_recs_store_wf : forall recs, wf_recs recs -> wf_store_v2 (store_of (rows_of_v2 recs)) = true.
Proof. intros recs W. apply compiled_store_wf, wf_recs_owners_ok. exact W. Qed.

(* a sorted dump whose keys have the right shape (what the harness hands over) satisfies the guard *)
Lemma sorted_store_wf : forall st, sorted_keys st = true -> forallb (fun kv => key_ok (fst kv)) st = true ->
  wf_store_v2 st = true.
Proof. intros st H1 H2. unfold wf_store_v2. rewrite (sorted_keys_once st H1), H2. reflexivity. Qed.

(* ---------------------------------------------------------------- the guard is needed *)
(* the compiler validates no owner names: a label of 259 bytes ("com", a zero byte, 255 more
   bytes) is written as length byte 3 followed by all 259 bytes, so the key's name part starts
   with the reversed query name of "com." including its final zero.  findCommonLongestPrefix
   then returns the whole length and the next round slices the key buffer beyond its capacity
   (confirmed on the real server: runtime error: slice bounds out of range [:10] with capacity 9) *)
Definition overlong_key : bytes := [0; 111] ++ [3; 99; 111; 109] ++ repeat 0 256 ++ [0] ++ [0; 0].
Definition overlong_store : store :=
  [(overlong_key, [[0; 1; 61; 0; 0; 0; 60; 0; 0; 0; 0; 0; 0; 0; 0; 0; 0; 0; 1; 1; 2; 3; 4]]);
   ([0; 111; 95; 102; 101; 97; 116; 117; 114; 101; 115], [[0; 0; 0; 2]])].

Theorem no_panic_v2_needs_guard :
  exists st q locr ecs max,
    sorted_keys st = true /\ wire_name (q_name q) = true /\ loc_wf locr /\
    wf_store_v2 st = false /\ serve RDB2 st q locr ecs max = OPanic.
Proof.
  exists overlong_store, (mkQ 9 [3; 99; 111; 109; 0] 1 1 None), (LocOk [0; 1]), None, 1.
  vm_compute. repeat split; reflexivity.
Qed.

(* ---------------------------------------------------------------- all three backends *)
Theorem serve_no_panic : forall b st q locr ecs max,
  (b = RDB2 -> wf_store_v2 st = true /\ loc_wf locr) -> wire_name (q_name q) = true ->
  serve b st q locr ecs max <> OPanic /\ serve b st q locr ecs max <> OFuel.
Proof.
  intros b st q locr ecs max Hg Hw. destruct b.
  - apply serve_no_panic_v1; [discriminate | exact Hw].
  - apply serve_no_panic_v1; [discriminate | exact Hw].
  - destruct (Hg eq_refl) as [H1 H2]. apply serve_no_panic_v2; assumption.
Qed.
