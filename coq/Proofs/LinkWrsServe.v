(* Proofs/LinkWrsServe: C11 x C01 - the weighted sample (Model/Wrs.v, Proofs/Wrs.v) run inside the
   served response (Model/Serve.v, C01_response_is_spec).  [realise] (Model/ComposeMore.v) replaces
   every IPick item of a response by the records Wrs.Add / Wrs.record select under a key
   assignment; this file proves what the realised response holds, as a function of the declared
   records (Spec/Answer.spec_response, Spec/AnswerExtra.addr_records). *)
From DnsV Require Import Base.Bytes Model.Store Model.LookupV1 Model.Serve.
From DnsV Require Import Spec.Answer Spec.Rows Spec.AnswerExtra.
From DnsV Require Import Proofs.Compile Proofs.Referral Proofs.SoaAuth Proofs.AnswerItems Proofs.AuthSections Proofs.FileLevel.
From DnsV Require Model.Wrs Proofs.Wrs.
From DnsV Require Import Model.ComposeMore.
From Coq Require Import Lia Permutation ZifyN ZifyNat ZifyBool.
Open Scope N_scope.

(* ------------------------------------------------------------------ lists *)
Lemma sub_multiset : forall {X} (l l' : list X), NoDup l -> incl l l' ->
  exists rest, Permutation (l ++ rest) l'.
Proof.
  intros X l. induction l as [|x l IH]; intros l' ND I.
  - exists l'. apply Permutation_refl.
  - inversion ND as [|? ? Nx ND']; subst.
    assert (Hx : In x l') by (apply I; left; reflexivity).
    destruct (in_split x l' Hx) as (l1 & l2 & ->).
    destruct (IH (l1 ++ l2) ND') as (rest & P).
    { intros y Hy. assert (Hy' : In y (l1 ++ x :: l2)) by (apply I; right; exact Hy).
      apply in_app_or in Hy'. apply in_or_app. destruct Hy' as [Hy'|[Hy'|Hy']]; [left; exact Hy'| |right; exact Hy'].
      subst y. contradiction. }
    exists rest. cbn [app]. eapply Permutation_trans; [apply perm_skip; exact P|]. apply Permutation_middle.
Qed.

Lemma index_from_ge : forall {X} (l : list X) i p, In p (index_from i l) -> (i <= fst p)%nat.
Proof.
  intros X l. induction l as [|x l IH]; intros i p H; [contradiction|].
  destruct H as [<-|H]; [cbn; lia|]. apply IH in H. lia.
Qed.

Lemma index_from_nodup : forall {X} (l : list X) i, NoDup (index_from i l).
Proof.
  intros X l. induction l as [|x l IH]; intros i; cbn [index_from]; constructor; [|apply IH].
  intros H. apply index_from_ge in H. cbn in H. lia.
Qed.

(* reading the candidates back through their indices *)
Lemma index_from_nth : forall {X Y} (f : X -> Y) (d : X) (l pre : list X),
  map (fun p => nth (fst p) (pre ++ l) d) (index_from (length pre) (map f l)) = l /\
  forall p, In p (index_from (length pre) (map f l)) -> snd p = f (nth (fst p) (pre ++ l) d).
Proof.
  intros X Y f d l. induction l as [|a t IH]; intros pre; cbn [map index_from]; [split; [reflexivity|contradiction]|].
  destruct (IH (pre ++ [a])) as (E & I). rewrite app_length in E, I. cbn [length] in E, I.
  rewrite Nat.add_1_r, <- app_assoc in E, I. cbn [app] in E, I.
  split.
  - cbn [fst]. rewrite nth_middle. f_equal. exact E.
  - intros p [<-|H]; [cbn [fst snd]; rewrite nth_middle; reflexivity|]. apply I. exact H.
Qed.

Lemma index_from_count : forall {X} (w : X -> bool) (g : nat * X -> bool) (l : list X) i,
  (forall p, g p = w (snd p)) ->
  length (filter g (index_from i l)) = length (filter w l).
Proof.
  intros X w g l. induction l as [|a t IH]; intros i Hg; [reflexivity|].
  cbn [index_from filter]. rewrite Hg. cbn [snd]. destruct (w a); cbn [length]; rewrite (IH (S i) Hg); reflexivity.
Qed.

(* ------------------------------------------------------------------ one pick *)
Definition rr_of_rec (owner : bytes) (cls : N) (r : record) : rr :=
  mkRR owner (r_type r) cls (r_ttl r) (r_rdata r).
Definition posw (r : record) : bool := 0 <? r_weight r.

(* [chosen] are pairwise distinct records among [fam] (a sub-multiset: [fam] is [chosen] and the rest),
   all of positive weight, and exactly min(max, number of positive weights in [fam]) many *)
Definition family_sound (max : N) (fam chosen : list record) : Prop :=
  (exists rest, Permutation (chosen ++ rest) fam) /\
  Forall (fun r => 0 < r_weight r) chosen /\
  nlen chosen = N.min max (nlen (filter posw fam)).

Lemma family_sound_perm : forall max fam fam' chosen, Permutation fam fam' ->
  family_sound max fam chosen -> family_sound max fam' chosen.
Proof.
  intros max fam fam' chosen P ((rest & R) & F & Ln). split; [|split].
  - exists rest. eapply Permutation_trans; [exact R|exact P].
  - exact F.
  - rewrite Ln. unfold nlen. rewrite (Proofs.Wrs.filter_length_perm posw fam fam' P). reflexivity.
Qed.

Lemma count_cands : forall rs : list record,
  length (filter (fun c : cand => 0 <? snd (fst c)) (map cand_of rs)) = length (filter posw rs).
Proof.
  induction rs as [|r t IH]; [reflexivity|]. cbn [map filter].
  change (snd (fst (cand_of r))) with (r_weight r). change (posw r) with (0 <? r_weight r).
  destruct (0 <? r_weight r); cbn [length]; rewrite IH; reflexivity.
Qed.

Definition dflt_rec : record := mkRec [] false None 0 0 0 [].

Section Pick.
Variable K : Type.
Variable klt : K -> K -> bool.
Variable kpos : K -> bool.
Hypothesis klt_irrefl : forall a, klt a a = false.
Hypothesis klt_trans : forall a b c, klt a b = true -> klt b c = true -> klt a c = true.
Hypothesis kzero_below : forall z a, kpos z = false -> kpos a = true -> klt z a = true.
Variable keyof : N -> N -> K.
Hypothesis keyof_pos : forall u w, u <= Model.Wrs.maxU32 -> kpos (keyof u w) = Model.Wrs.dk_pos (u, w).

Definition drows (d : nat -> N) (ty : N) (cands : list cand) : list (Proofs.Wrs.drow payload) :=
  map (fun p => Proofs.Wrs.mkD payload ty (d (fst p)) (cand_weight (snd p)) p) (index_from 0 cands).

Lemma pick_rows_drows : forall d ty cands,
  pick_rows K keyof d ty cands = map (Proofs.Wrs.to_row K payload keyof) (drows d ty cands).
Proof. intros. unfold pick_rows, drows. rewrite map_map. reflexivity. Qed.

(* C11_bounded_sound_outside_F18 on the candidates of one pick, read back as declared records *)
Lemma realise_pick_sound : forall (max : Z) d owner ty cls (rs : list record),
  (1 <= max)%Z -> ty = 1 \/ ty = 28 ->
  (forall j, 0 < d j < Model.Wrs.maxU32) ->
  Forall (fun r => r_type r = ty) rs ->
  exists chosen,
    realise_pick K klt kpos keyof max d owner ty cls (map cand_of rs) = map (rr_of_rec owner cls) chosen /\
    (exists rest, Permutation (chosen ++ rest) rs) /\
    Forall (fun r => 0 < r_weight r) chosen /\
    length chosen = Nat.min (Z.to_nat max) (length (filter posw rs)).
Proof.
  intros max d owner ty cls rs Hmax Hty Hd Hrs.
  set (cands := map cand_of rs).
  destruct (Proofs.Wrs.bounded_sound_outside_F18 K klt kpos payload klt_irrefl klt_trans kzero_below keyof keyof_pos
              (drows d ty cands) max ty Hmax) as (res & Hrec & Hsound & Hnd & Hlen).
  { exact Hty. }
  { unfold drows. rewrite map_map. cbn [Proofs.Wrs.dpay]. rewrite map_id. apply index_from_nodup. }
  { unfold drows. apply Forall_forall. intros x Hx. apply in_map_iff in Hx as (p & <- & _).
    unfold Proofs.Wrs.in_open_range. cbn [Proofs.Wrs.du]. apply Hd. }
  destruct (index_from_nth cand_of dflt_rec rs []) as (Enth & Isnd). cbn [length app] in Enth, Isnd.
  fold cands in Enth, Isnd.
  set (g := fun p : payload => nth (fst p) rs dflt_rec).
  assert (Enth' : map g (index_from 0 cands) = rs) by exact Enth.
  assert (Isnd' : forall p, In p (index_from 0 cands) -> snd p = cand_of (g p)) by exact Isnd.
  clear Enth Isnd. rename Enth' into Enth. rename Isnd' into Isnd.
  assert (Hin : forall p, In p (map snd res) -> In p (index_from 0 cands) /\ 0 < cand_weight (snd p)).
  { intros p Hp. apply in_map_iff in Hp as (it & <- & Hit).
    destruct (Hsound it Hit) as (dd & Hdd & _ & Hpay & Hw).
    unfold drows in Hdd. apply in_map_iff in Hdd as (p & <- & Hp). cbn [Proofs.Wrs.dpay Proofs.Wrs.dw] in Hpay, Hw.
    rewrite <- Hpay. split; assumption. }
  destruct (sub_multiset (map snd res) (index_from 0 cands) Hnd) as (restP & HP).
  { intros p Hp. apply (Hin p Hp). }
  exists (map g (map snd res)). split; [|split; [|split]].
  - unfold realise_pick, Model.Wrs.recs_or_nil. rewrite pick_rows_drows. fold cands. rewrite Hrec.
    rewrite !map_map. apply map_ext_in. intros it Hit.
    assert (Hp : In (snd it) (map snd res)) by (apply in_map; exact Hit).
    destruct (Hin _ Hp) as (Hi & _). pose proof (Isnd _ Hi) as Es.
    unfold rr_of_rec, cand_ttl, cand_addr. rewrite Es. unfold cand_of. cbn [fst snd].
    f_equal. symmetry. rewrite Forall_forall in Hrs. apply Hrs.
    rewrite <- Enth. apply in_map_iff. exists (snd it). split; [reflexivity|exact Hi].
  - exists (map g restP). rewrite <- map_app.
    eapply Permutation_trans; [apply Permutation_map; exact HP|]. rewrite Enth. apply Permutation_refl.
  - apply Forall_forall. intros r Hr. apply in_map_iff in Hr as (p & <- & Hp).
    destruct (Hin p Hp) as (Hi & Hw). rewrite (Isnd _ Hi) in Hw. exact Hw.
  - rewrite !map_length. etransitivity; [exact Hlen|]. f_equal.
    unfold drows. rewrite <- (map_length (Proofs.Wrs.dpay payload)).
    assert (Ef : forall l, map (Proofs.Wrs.dpay payload)
                (filter (fun dd => (Proofs.Wrs.dq payload dd =? ty) && (0 <? Proofs.Wrs.dw payload dd))
                   (map (fun p => Proofs.Wrs.mkD payload ty (d (fst p)) (cand_weight (snd p)) p) l)) =
                filter (fun p : payload => (ty =? ty) && (0 <? cand_weight (snd p))) l).
    { induction l as [|a l IHl]; [reflexivity|]. cbn [map filter Proofs.Wrs.dq Proofs.Wrs.dw].
      destruct ((ty =? ty) && (0 <? cand_weight (snd a))); cbn [map Proofs.Wrs.dpay]; rewrite IHl; reflexivity. }
    rewrite Ef.
    etransitivity; [apply (index_from_count (fun c : cand => 0 <? cand_weight c)); intros p; rewrite N.eqb_refl; reflexivity|].
    exact (count_cands rs).
Qed.

(* the items Wrs.ARecord / AAAARecord contribute (none when no record would be served) *)
Lemma realise_wrs_items : forall ds i owner cls (max : N) ty (rs : list record),
  ty = 1 \/ ty = 28 ->
  (forall i j, 0 < ds i j < Model.Wrs.maxU32) ->
  Forall (fun r => r_type r = ty) rs ->
  exists chosen,
    realise_from K klt kpos keyof (Z.of_N max) ds i (wrs_items owner cls max ty (map cand_of rs)) =
      map (rr_of_rec owner cls) chosen /\
    family_sound max rs chosen.
Proof.
  intros ds i owner cls max ty rs Hty Hd Hrs. unfold wrs_items.
  assert (Enp : npick max (map cand_of rs) = N.min max (nlen (filter posw rs))).
  { unfold npick, npos, nlen. f_equal. f_equal. exact (count_cands rs). }
  destruct (npick max (map cand_of rs) =? 0) eqn:E0.
  - exists []. split; [reflexivity|]. split; [exists rs; apply Permutation_refl|]. split; [constructor|].
    apply N.eqb_eq in E0. rewrite <- Enp, E0. reflexivity.
  - apply N.eqb_neq in E0.
    assert (Hmax : (1 <= Z.of_N max)%Z) by (rewrite Enp in E0; lia).
    destruct (realise_pick_sound (Z.of_N max) (ds i) owner ty cls rs Hmax Hty (Hd i) Hrs) as (chosen & E & R & F & Ln).
    exists chosen. split; [|split; [exact R|split; [exact F|]]].
    + cbn [realise_from realise_item]. rewrite app_nil_r. exact E.
    + unfold nlen. rewrite Ln. lia.
Qed.
End Pick.

(* ------------------------------------------------------------------ keys of items and records *)
Lemma item_is_key : forall t ty j, item_is t ty j = true <-> item_key j = (t, ty).
Proof.
  intros t ty j. destruct j as [r|o ty' c cs k]; cbn [item_is item_key]; rewrite andb_true_iff, N.eqb_eq, bytes_eqb_eq;
    split; [intros [-> ->]; reflexivity|intros E; inversion E; split; reflexivity
           |intros [-> ->]; reflexivity|intros E; inversion E; split; reflexivity].
Qed.

Lemma existsb_item_is_false : forall t ty l, existsb (item_is t ty) l = false ->
  forall j, In j l -> item_key j <> (t, ty).
Proof.
  intros t ty l H j Hj E. apply item_is_key in E.
  assert (X : existsb (item_is t ty) l = true) by (apply existsb_exists; exists j; split; assumption).
  rewrite H in X. discriminate.
Qed.

Lemma has_record_false : forall an ns ex t ty, has_record (mkMsg an ns ex) t ty = false ->
  forall j, In j (an ++ ns ++ ex) -> item_key j <> (t, ty).
Proof.
  intros an ns ex t ty H j Hj. unfold has_record in H. cbn [m_an m_ns m_ex] in H.
  apply orb_false_iff in H as [H Hx]. apply orb_false_iff in H as [Ha Hn].
  apply in_app_or in Hj as [Hj|Hj]; [exact (existsb_item_is_false _ _ _ Ha j Hj)|].
  apply in_app_or in Hj as [Hj|Hj]; [exact (existsb_item_is_false _ _ _ Hn j Hj)|exact (existsb_item_is_false _ _ _ Hx j Hj)].
Qed.

Lemma nodup_snoc : forall {X} (l : list X) x, NoDup l -> ~ In x l -> NoDup (l ++ [x]).
Proof.
  intros X l x ND Nx. apply (Permutation_NoDup (l := x :: l)); [apply Permutation_cons_append|].
  constructor; assumption.
Qed.

(* the additional section never repeats an (owner, type) of the message *)
Lemma extras_keys : forall recs L qc an ns ex, extras_sound recs L qc an ns ex ->
  NoDup (map item_key ex) /\
  forall i, In i ex -> forall j, In j (an ++ ns) -> item_key j <> item_key i.
Proof.
  intros recs L qc an ns ex H. induction H as [|pre i Hp [ND IH] (t & ty & cands & -> & _ & _ & Hr & _)].
  - split; [constructor|contradiction].
  - pose proof (has_record_false an ns pre t ty Hr) as Hk. split.
    + rewrite map_app. cbn [map item_key]. apply nodup_snoc; [exact ND|].
      intros Hin. apply in_map_iff in Hin as (j & Ej & Hj). apply (Hk j); [|exact Ej].
      apply in_or_app. right. apply in_or_app. right. exact Hj.
    + intros i Hi j Hj. apply in_app_or in Hi as [Hi|[<-|[]]]; [exact (IH i Hi j Hj)|].
      cbn [item_key]. apply Hk. rewrite app_assoc. apply in_or_app. left. exact Hj.
Qed.

Section Sections.
Variable K : Type.
Variable klt : K -> K -> bool.
Variable kpos : K -> bool.
Hypothesis klt_irrefl : forall a, klt a a = false.
Hypothesis klt_trans : forall a b c, klt a b = true -> klt b c = true -> klt a c = true.
Hypothesis kzero_below : forall z a, kpos z = false -> kpos a = true -> klt z a = true.
Variable keyof : N -> N -> K.
Hypothesis keyof_pos : forall u w, u <= Model.Wrs.maxU32 -> kpos (keyof u w) = Model.Wrs.dk_pos (u, w).

Notation rfrom := (realise_from K klt kpos keyof).

Lemma realise_from_app : forall max ds l1 l2 i,
  rfrom max ds i (l1 ++ l2) = rfrom max ds i l1 ++ rfrom max ds (i + length l1) l2.
Proof.
  intros max ds l1 l2. induction l1 as [|a t IH]; intros i; cbn [app realise_from length].
  - rewrite Nat.add_0_r. reflexivity.
  - rewrite IH, app_assoc, Nat.add_succ_comm. reflexivity.
Qed.

Lemma realise_from_irr : forall max ds (f : record -> rr) l i,
  rfrom max ds i (map (fun r => IRR (f r)) l) = map f l.
Proof.
  intros max ds f l. induction l as [|a t IH]; intros i; cbn [map realise_from realise_item app]; [reflexivity|].
  rewrite IH. reflexivity.
Qed.

(* a realised record has the (owner, type) of its item *)
Lemma realise_keys : forall max ds l i r, In r (rfrom max ds i l) -> exists j, In j l /\ item_key j = rr_key r.
Proof.
  intros max ds l. induction l as [|a t IH]; intros i r H; cbn [realise_from] in H; [contradiction|].
  apply in_app_or in H as [H|H].
  - exists a. split; [left; reflexivity|]. destruct a as [r0|o ty c cs k]; cbn [realise_item] in H.
    + destruct H as [<-|[]]. reflexivity.
    + unfold realise_pick in H. apply in_map_iff in H as (p & <- & _). reflexivity.
  - destruct (IH _ _ H) as (j & Hj & E). exists j. split; [right; exact Hj|exact E].
Qed.

Lemma type_filter_forall : forall ty (l : list record), Forall (fun r => r_type r = ty) (filter (fun r => r_type r =? ty) l).
Proof. intros ty l. apply Forall_forall. intros r Hr. apply filter_In in Hr as [_ E]. apply N.eqb_eq. exact E. Qed.

Lemma item_count_app : forall a b, item_count (a ++ b) = item_count a + item_count b.
Proof.
  induction a as [|i a IH]; intros b; cbn [app item_count fold_right]; [reflexivity|].
  fold (item_count (a ++ b)). fold (item_count a). rewrite IH. destruct i; lia.
Qed.

Lemma item_count_irr : forall (f : record -> rr) l, item_count (map (fun r => IRR (f r)) l) = nlen l.
Proof.
  intros f l. induction l as [|a t IH]; [reflexivity|]. cbn [map item_count fold_right].
  fold (item_count (map (fun r => IRR (f r)) t)). rewrite IH. unfold nlen. cbn [length]. lia.
Qed.

Lemma item_count_wrs_items : forall o cls max ty c, item_count (wrs_items o cls max ty c) = npick max c.
Proof.
  intros. unfold wrs_items. destruct (npick max c =? 0) eqn:E; cbn [item_count fold_right]; [apply N.eqb_eq in E|]; lia.
Qed.

Lemma npick_cands : forall max (rs : list record), npick max (map cand_of rs) = N.min max (nlen (filter posw rs)).
Proof. intros. unfold npick, npos, nlen. f_equal. f_equal. exact (count_cands rs). Qed.

(* the answer section of an authoritative reply, realised *)
Lemma realise_answer_items : forall ds qname (max : N) ord,
  (forall i j, 0 < ds i j < Model.Wrs.maxU32) ->
  exists chosen4 chosen6,
    rfrom (Z.of_N max) ds 0 (answer_items qname max ord) =
      map (rr_of_rec qname 1) (filter (fun r => negb (is_addr_rec r)) ord ++ chosen4 ++ chosen6) /\
    family_sound max (filter (fun r => r_type r =? 1) ord) chosen4 /\
    family_sound max (filter (fun r => r_type r =? 28) ord) chosen6 /\
    nlen (rfrom (Z.of_N max) ds 0 (answer_items qname max ord)) = item_count (answer_items qname max ord).
Proof.
  intros ds qname max ord Hd. unfold answer_items. rewrite !realise_from_app.
  set (i1 := (0 + length (map (item_of qname) (filter (fun r => negb (is_addr_rec r)) ord)))%nat).
  set (c4 := wrs_items qname 1 max 1 (map cand_of (filter (fun r => r_type r =? 1) ord))).
  destruct (realise_wrs_items K klt kpos klt_irrefl klt_trans kzero_below keyof keyof_pos ds i1 qname 1 max 1
              (filter (fun r => r_type r =? 1) ord) (or_introl eq_refl) Hd (type_filter_forall 1 ord)) as (ch4 & E4 & F4).
  destruct (realise_wrs_items K klt kpos klt_irrefl klt_trans kzero_below keyof keyof_pos ds (i1 + length c4)%nat qname 1 max 28
              (filter (fun r => r_type r =? 28) ord) (or_intror eq_refl) Hd (type_filter_forall 28 ord)) as (ch6 & E6 & F6).
  fold c4 in E4. rewrite E4, E6. unfold item_of. rewrite (realise_from_irr (Z.of_N max) ds (rr_of_rec qname 1)).
  exists ch4, ch6. split; [rewrite !map_app; reflexivity|]. split; [exact F4|]. split; [exact F6|].
  rewrite !item_count_app, (item_count_irr (rr_of_rec qname 1)). unfold c4. rewrite !item_count_wrs_items, !npick_cands.
  destruct F4 as (_ & _ & L4). destruct F6 as (_ & _ & L6). rewrite <- L4, <- L6.
  unfold nlen. rewrite !app_length, !map_length. lia.
Qed.

(* ---------------------------------------------------------------- the additional section, realised *)
Definition ex_rr (qc : N) (c : bytes * N * record) : rr :=
  mkRR (fst (fst c)) (snd (fst c)) qc (r_ttl (snd c)) (r_rdata (snd c)).

Lemma realise_extras : forall recs L qc an ns ex ds,
  (forall i j, 0 < ds i j < Model.Wrs.maxU32) ->
  extras_sound recs L qc an ns ex ->
  exists chosen : list (bytes * N * record),
    rfrom 1 ds 0 ex = map (ex_rr qc) chosen /\
    map fst chosen = map item_key ex /\
    Forall (fun c => (snd (fst c) = 1 \/ snd (fst c) = 28) /\
                     In (snd c) (addr_records L recs (fst (fst c)) (snd (fst c))) /\
                     0 < r_weight (snd c) /\
                     exists it, In it (an ++ ns) /\ target_of it = Some (fst (fst c))) chosen.
Proof.
  intros recs L qc an ns ex ds Hd H.
  induction H as [|pre i Hp (chosen & E & Ek & F) (t & ty & cands & -> & Hty & Htg & _ & Hn & rs & -> & P)].
  - exists []. split; [reflexivity|]. split; [reflexivity|constructor].
  - assert (Hrs : Forall (fun r => r_type r = ty) rs).
    { apply Forall_forall. intros r Hr. apply (Permutation_in _ P) in Hr. unfold addr_records in Hr.
      apply filter_In in Hr as [_ Hr]. apply andb_true_iff in Hr as [Hr _]. apply andb_true_iff in Hr as [_ Hr].
      apply N.eqb_eq. exact Hr. }
    destruct (realise_pick_sound K klt kpos klt_irrefl klt_trans kzero_below keyof keyof_pos 1 (ds (0 + length pre)%nat)
                t ty qc rs ltac:(lia) Hty (Hd _) Hrs) as (ch & Ec & (rest & R) & Fw & Ln).
    rewrite npick_cands in Hn.
    assert (L1 : length ch = 1%nat) by (unfold nlen in Hn; rewrite Ln; lia).
    destruct ch as [|r [|r2 ch]]; try discriminate L1.
    assert (Hin : In r rs) by (apply (Permutation_in _ R); left; reflexivity).
    assert (Hrt : r_type r = ty) by (rewrite Forall_forall in Hrs; exact (Hrs r Hin)).
    exists (chosen ++ [(t, ty, r)]). split; [|split].
    + rewrite realise_from_app, E. cbn [realise_from realise_item]. rewrite app_nil_r, Ec, map_app.
      cbn [map]. unfold ex_rr, rr_of_rec. cbn [fst snd]. rewrite Hrt. reflexivity.
    + rewrite !map_app, Ek. reflexivity.
    + apply Forall_app. split; [exact F|]. constructor; [|constructor]. cbn [fst snd].
      split; [exact Hty|]. split; [|split; [inversion Fw; assumption|exact Htg]].
      apply (Permutation_in _ P). exact Hin.
Qed.
End Sections.

(* ================================================================== the realised response *)
(* the additional section with the picks drawn.  [chosen]: (target, family, declared record) per record *)
Definition extras_realised_sound (L : bytes) (recs : list record) (qc : N) (an ns : list item) (y : cresponse) : Prop :=
  exists chosen : list (bytes * N * record),
    c_ex y = map (ex_rr qc) chosen /\
    NoDup (map fst chosen) /\
    Forall (fun c => let t := fst (fst c) in let ty := snd (fst c) in let r := snd c in
              (ty = 1 \/ ty = 28) /\
              In r (addr_records L recs t ty) /\
              0 < r_weight r /\
              (exists it, In it (an ++ ns) /\ target_of it = Some t) /\
              (forall r', In r' (c_an y ++ c_ns y) -> rr_key r' <> (t, ty))) chosen.

Definition ns_rr (zname : bytes) (cls : N) (r : record) : rr := mkRR zname 2 cls (r_ttl r) (r_rdata r).
Definition soa_rr (zname : bytes) (r : record) : rr := mkRR zname 6 1 (r_ttl r) (r_rdata r).

Definition served_addresses_sound (L : bytes) (recs : list record) (n : name) (q : query) (ecs : option ecsval)
           (max : N) (x : response) (y : cresponse) : Prop :=
  c_id y = q_id q /\ c_question y = question_of q /\ c_rcode y = rs_rcode x /\ c_aa y = rs_aa x /\
  match spec_response L recs n (q_type q) with
  | Refused => c_rcode y = 5 /\ c_an y = [] /\ c_ns y = [] /\ c_ex y = [] /\ nlen (c_an y) = item_count (rs_an x)
  | Referral z nsr =>
      q_type q <> 43 ->
      c_rcode y = 0 /\ c_an y = [] /\ nlen (c_an y) = item_count (rs_an x) /\
      (exists ord, Permutation ord nsr /\ c_ns y = map (ns_rr (pack z) (q_class q)) ord) /\
      extras_realised_sound L recs (q_class q) (rs_an x) (rs_ns x) y
  | Answer z nx ans soa =>
      c_rcode y = (if nx then 3 else 0) /\ (ans <> [] -> c_rcode y = 0) /\
      nlen (c_an y) = item_count (rs_an x) /\
      (exists others chosen4 chosen6,
         c_an y = map (rr_of_rec (q_name q) 1) (others ++ chosen4 ++ chosen6) /\
         Permutation others (filter (fun r => negb (is_addr_rec r)) ans) /\
         family_sound max (of_type 1 ans) chosen4 /\
         family_sound max (of_type 28 ans) chosen6) /\
      (match c_an y with
       | [] => exists r, In r soa /\ c_ns y = [soa_rr (pack z) r]
       | _ => c_ns y = []
       end) /\
      extras_realised_sound L recs (q_class q) (rs_an x) (rs_ns x) y
  end.

Lemma answer_nonempty_found : forall L recs n qtype z nx ans soa,
  spec_response L recs n qtype = Answer z nx ans soa -> ans <> [] -> nx = false.
Proof.
  intros L recs n qtype z nx ans soa H Hne. unfold spec_response in H.
  destruct (zone_cut L recs n) as [z'|]; [|discriminate].
  destruct (negb (authoritative L recs z')); [discriminate|]. inversion H; subst.
  destruct (source_records L recs z n); [exfalso; apply Hne; reflexivity|reflexivity].
Qed.

Section Main.
Variable K : Type.
Variable klt : K -> K -> bool.
Variable kpos : K -> bool.
Hypothesis klt_irrefl : forall a, klt a a = false.
Hypothesis klt_trans : forall a b c, klt a b = true -> klt b c = true -> klt a c = true.
Hypothesis kzero_below : forall z a, kpos z = false -> kpos a = true -> klt z a = true.
Variable keyof : N -> N -> K.
Hypothesis keyof_pos : forall u w, u <= Model.Wrs.maxU32 -> kpos (keyof u w) = Model.Wrs.dk_pos (u, w).

Lemma extras_realised : forall L recs qc an ns ex (dr : draws) max (x : response),
  (forall s i j, 0 < dr s i j < Model.Wrs.maxU32) ->
  rs_an x = an -> rs_ns x = ns -> rs_ex x = ex ->
  extras_sound recs L qc an ns ex ->
  extras_realised_sound L recs qc an ns (realise K klt kpos keyof dr max x).
Proof.
  intros L recs qc an ns ex dr max x Hd <- <- <- H.
  destruct (realise_extras K klt kpos klt_irrefl klt_trans kzero_below keyof keyof_pos recs L qc _ _ _ (dr sec_ex) (Hd sec_ex) H)
    as (chosen & E & Ek & F).
  destruct (extras_keys recs L qc _ _ _ H) as (ND & Hk).
  exists chosen. split; [exact E|]. split; [rewrite Ek; exact ND|].
  rewrite Forall_forall in F. apply Forall_forall. intros c Hc. destruct (F c Hc) as (F1 & F2 & F3 & F4).
  cbn zeta. split; [exact F1|]. split; [exact F2|]. split; [exact F3|]. split; [exact F4|].
  intros r' Hr' Er'.
  assert (Hi : exists i, In i (rs_ex x) /\ item_key i = fst c).
  { assert (Hf : In (fst c) (map item_key (rs_ex x))) by (rewrite <- Ek; apply in_map; exact Hc).
    apply in_map_iff in Hf as (i & Ei & Hi). exists i. split; assumption. }
  destruct Hi as (i & Hi & Ei).
  assert (Hj : exists j, In j (rs_an x ++ rs_ns x) /\ item_key j = rr_key r').
  { cbn [c_an c_ns realise] in Hr'. apply in_app_or in Hr' as [Hr'|Hr'];
      destruct (realise_keys K klt kpos keyof _ _ _ _ _ Hr') as (j & Hj & Ej); exists j; (split; [|exact Ej]);
      apply in_or_app; [left|right]; exact Hj. }
  destruct Hj as (j & Hj & Ej).
  apply (Hk i Hi j Hj). rewrite Ei, Ej, Er'. destruct c as ((t, ty), r). reflexivity.
Qed.

Lemma irr_only_ns : forall max ds f (ord : list record),
  realise_from K klt kpos keyof max ds 0 (map (fun r => IRR (f r)) ord) = map f ord.
Proof. intros. apply realise_from_irr. Qed.

(* C11 x C01: what the served response holds once the picks are drawn *)
Theorem realise_refines : forall L recs n q ecs max x (dr : draws),
  response_refines L recs n q ecs max x ->
  (forall s i j, 0 < dr s i j < Model.Wrs.maxU32) ->
  served_addresses_sound L recs n q ecs max x (realise K klt kpos keyof dr max x).
Proof.
  intros L recs n q ecs max x dr (Hid & Hq & H) Hd. unfold served_addresses_sound.
  split; [exact Hid|]. split; [exact Hq|]. split; [reflexivity|]. split; [reflexivity|].
  destruct (spec_response L recs n (q_type q)) as [|z nsr|z nx ans soa] eqn:Es.
  - destruct H as (H1 & H2 & H3 & H4 & H5 & H6). cbn [realise c_an c_ns c_ex c_rcode]. rewrite H3, H4, H5.
    split; [exact H1|]. repeat split.
  - intros N43. destruct (H N43) as (H1 & H2 & H3 & (ord & P & H4) & H5 & H6).
    cbn [realise c_an c_ns c_rcode]. split; [exact H1|]. split; [rewrite H3; reflexivity|]. split; [rewrite H3; reflexivity|]. split.
    + exists ord. split; [exact P|]. rewrite H4. unfold ns_item. apply (irr_only_ns _ _ (ns_rr (pack z) (q_class q))).
    + exact (extras_realised L recs (q_class q) _ _ _ dr max x Hd eq_refl eq_refl eq_refl H5).
  - destruct H as (H1 & H2 & (ord & P & H3) & H4 & H5 & H6).
    destruct (realise_answer_items K klt kpos klt_irrefl klt_trans kzero_below keyof keyof_pos (dr sec_an) (q_name q) max ord (Hd sec_an))
      as (ch4 & ch6 & Ean & F4 & F6 & Ecount).
    assert (Ecan : c_an (realise K klt kpos keyof dr max x) =
                   map (rr_of_rec (q_name q) 1) (filter (fun r => negb (is_addr_rec r)) ord ++ ch4 ++ ch6)).
    { cbn [realise c_an]. rewrite H3. exact Ean. }
    assert (Ecnt : nlen (c_an (realise K klt kpos keyof dr max x)) = item_count (rs_an x)).
    { cbn [realise c_an]. rewrite H3. exact Ecount. }
    split; [exact H1|]. split.
    { intros Hne. cbn [realise c_rcode]. rewrite H1, (answer_nonempty_found _ _ _ _ _ _ _ _ Es Hne). reflexivity. }
    split; [exact Ecnt|]. split.
    { exists (filter (fun r => negb (is_addr_rec r)) ord), ch4, ch6. split; [exact Ecan|].
      split; [apply perm_filter; exact P|].
      split; [exact (family_sound_perm _ _ _ _ (perm_filter _ _ _ P) F4)|exact (family_sound_perm _ _ _ _ (perm_filter _ _ _ P) F6)]. }
    split.
    { destruct (item_count (rs_an x) =? 0) eqn:E0.
      - apply N.eqb_eq in E0. rewrite E0 in Ecnt.
        destruct (c_an (realise K klt kpos keyof dr max x)) as [|a t]; [|unfold nlen in Ecnt; cbn [length] in Ecnt; lia].
        destruct H4 as (r & Hr & E). exists r. split; [exact Hr|]. cbn [realise c_ns]. rewrite E. reflexivity.
      - apply N.eqb_neq in E0.
        destruct (c_an (realise K klt kpos keyof dr max x)) as [|a t]; [unfold nlen in Ecnt; cbn [length] in Ecnt; lia|].
        cbn [realise c_ns]. rewrite H4. reflexivity. }
    exact (extras_realised L recs (q_class q) _ _ _ dr max x Hd eq_refl eq_refl eq_refl H5).
Qed.
End Main.

(* ------------------------------------------------------------------ one record per family and target:
   the counting form of C11_additional_section_one_per_family, on the realised message *)
Definition kcount (t : bytes) (ty : N) (l : list rr) : nat :=
  length (filter (fun r => bytes_eqb (rr_owner r) t && (rr_type r =? ty)) l).

Lemma kcount_app : forall t ty a b, kcount t ty (a ++ b) = (kcount t ty a + kcount t ty b)%nat.
Proof. intros. unfold kcount. rewrite filter_app, app_length. reflexivity. Qed.

Lemma keyb_spec : forall t ty r, bytes_eqb (rr_owner r) t && (rr_type r =? ty) = true <-> rr_key r = (t, ty).
Proof.
  intros t ty r. unfold rr_key. rewrite andb_true_iff, bytes_eqb_eq, N.eqb_eq. split; [intros [-> ->]; reflexivity|].
  intros E. inversion E. split; reflexivity.
Qed.

Lemma kcount_zero : forall t ty l, (forall r, In r l -> rr_key r <> (t, ty)) -> kcount t ty l = 0%nat.
Proof.
  intros t ty l H. unfold kcount. induction l as [|a l IH]; [reflexivity|]. cbn [filter].
  destruct (bytes_eqb (rr_owner a) t && (rr_type a =? ty)) eqn:E.
  - apply keyb_spec in E. exfalso. exact (H a (or_introl eq_refl) E).
  - apply IH. intros r Hr. apply H. right. exact Hr.
Qed.

Lemma kcount_pos : forall t ty l, (0 < kcount t ty l)%nat -> exists r, In r l /\ rr_key r = (t, ty).
Proof.
  intros t ty l. unfold kcount. induction l as [|a l IH]; cbn [filter length]; [lia|].
  destruct (bytes_eqb (rr_owner a) t && (rr_type a =? ty)) eqn:E.
  - intros _. exists a. split; [left; reflexivity|apply keyb_spec; exact E].
  - intros H. destruct (IH H) as (r & Hr & Er). exists r. split; [right; exact Hr|exact Er].
Qed.

Lemma kcount_nodup : forall t ty l, NoDup (map rr_key l) -> (kcount t ty l <= 1)%nat.
Proof.
  intros t ty l. induction l as [|a l IH]; intros ND; [cbn; lia|]. cbn [map] in ND. inversion ND as [|? ? Na ND']; subst.
  unfold kcount. cbn [filter]. destruct (bytes_eqb (rr_owner a) t && (rr_type a =? ty)) eqn:E.
  - apply keyb_spec in E. cbn [length]. fold (kcount t ty l). rewrite kcount_zero; [lia|].
    intros r Hr Er. apply Na. rewrite E, <- Er. apply in_map. exact Hr.
  - apply IH. exact ND'.
Qed.

Theorem realised_one_per_family : forall L recs qc an ns y,
  extras_realised_sound L recs qc an ns y ->
  forall t ty, (kcount t ty (c_an y ++ c_ns y ++ c_ex y) <= Nat.max 1 (kcount t ty (c_an y ++ c_ns y)))%nat.
Proof.
  intros L recs qc an ns y (chosen & E & ND & F) t ty. rewrite app_assoc, kcount_app.
  assert (Ek : map rr_key (c_ex y) = map fst chosen).
  { rewrite E, map_map. apply map_ext. intros ((t0, ty0), r). reflexivity. }
  assert (H1 : (kcount t ty (c_ex y) <= 1)%nat) by (apply kcount_nodup; rewrite Ek; exact ND).
  destruct (kcount t ty (c_an y ++ c_ns y)) as [|m] eqn:Em; [lia|].
  assert (H0 : kcount t ty (c_ex y) = 0%nat).
  { apply kcount_zero. intros r Hr Er.
    assert (Hp : (0 < kcount t ty (c_an y ++ c_ns y))%nat) by lia.
    destruct (kcount_pos _ _ _ Hp) as (r' & Hr' & Er').
    assert (Hc : In (rr_key r) (map fst chosen)) by (rewrite <- Ek; apply in_map; exact Hr).
    apply in_map_iff in Hc as (c & Ec & Hc). rewrite Forall_forall in F. destruct (F c Hc) as (_ & _ & _ & _ & Hno).
    cbn zeta in Hno. apply (Hno r' Hr'). rewrite Er', <- Er, <- Ec. destruct c as ((a, b), c). reflexivity. }
  lia.
Qed.

(* ================================================================== composition with C01 *)
From DnsV Require Import Proofs.ZoneCut Proofs.V2Store Proofs.AuthSectionsV2.
From DnsV Require Model.Compose Proofs.Compose.

Section Composed.
Variable K : Type.
Variable klt : K -> K -> bool.
Variable kpos : K -> bool.
Hypothesis klt_irrefl : forall a, klt a a = false.
Hypothesis klt_trans : forall a b c, klt a b = true -> klt b c = true -> klt a c = true.
Hypothesis kzero_below : forall z a, kpos z = false -> kpos a = true -> klt z a = true.
Variable keyof : N -> N -> K.
Hypothesis keyof_pos : forall u w, u <= Model.Wrs.maxU32 -> kpos (keyof u w) = Model.Wrs.dk_pos (u, w).

(* label-by-label reader (CDB, RocksDB v1 keys) over the compiled store: C01_response_is_spec *)
Theorem served_addresses_sound_v1 : forall b recs L, wf_recs recs -> Forall wf_ns_rdata recs -> length L = 2%nat ->
  b <> RDB2 -> wf_view L recs = true -> forall q n ecs max x (dr : draws),
  wf_name n -> nlen (pack n) <= 255 -> lower_bytes (q_name q) = pack n ->
  (q_edns q = None \/ q_edns q = Some 0) ->
  serve b (store_v1 recs) q (LocOk L) ecs max = OReply x ->
  (forall s i j, 0 < dr s i j < Model.Wrs.maxU32) ->
  served_addresses_sound L recs n q ecs max x (realise K klt kpos keyof dr max x).
Proof.
  intros b recs L W WN HL Hb V q n ecs max x dr Hn Hl Hq He Hs Hd.
  apply (realise_refines K klt kpos klt_irrefl klt_trans kzero_below keyof keyof_pos); [|exact Hd].
  exact (response_is_spec_v1 b recs L W WN HL Hb V q n ecs max x Hn Hl Hq He Hs).
Qed.

(* closest-key reader (RocksDB v2 keys): C01_response_is_spec_v2 *)
Theorem served_addresses_sound_v2 : forall recs L, wf_recs recs -> Forall wf_ns_rdata recs -> length L = 2%nat ->
  wf_view L recs = true -> forall q n ecs max x (dr : draws),
  wf_name n -> nlen (pack n) <= 255 -> lower_bytes (q_name q) = pack n ->
  (q_edns q = None \/ q_edns q = Some 0) ->
  serve RDB2 (store_v2 recs) q (LocOk L) ecs max = OReply x ->
  (forall s i j, 0 < dr s i j < Model.Wrs.maxU32) ->
  served_addresses_sound L recs n q ecs max x (realise K klt kpos keyof dr max x).
Proof.
  intros recs L W WN HL V q n ecs max x dr Hn Hl Hq He Hs Hd.
  apply (realise_refines K klt kpos klt_irrefl klt_trans kzero_below keyof keyof_pos); [|exact Hd].
  exact (response_is_spec_v2 recs L W WN HL V q n ecs max x Hn Hl Hq He Hs).
Qed.

(* every database form of Proofs/Compose.gen_declares: the two row-level compilations and everything
   the modelled compilers produce from the TEXT of a well-formed data file (C01_file_level: CDB from any
   record stream, RocksDB by builder or batches in either key layout) *)
Theorem served_addresses_sound_gen : forall g L recs, Proofs.Compose.gen_declares g L recs ->
  forall q n ecs max x (dr : draws),
  wf_name n -> nlen (pack n) <= 255 -> lower_bytes (q_name q) = pack n ->
  (q_edns q = None \/ q_edns q = Some 0) ->
  serve (Model.Compose.g_backend g) (Model.Compose.g_store g) q (LocOk L) ecs max = OReply x ->
  (forall s i j, 0 < dr s i j < Model.Wrs.maxU32) ->
  served_addresses_sound L recs n q ecs max x (realise K klt kpos keyof dr max x).
Proof.
  intros g L recs D q n ecs max x dr Hn Hl Hq He Hs Hd.
  apply (realise_refines K klt kpos klt_irrefl klt_trans kzero_below keyof keyof_pos); [|exact Hd].
  exact (Proofs.Compose.declares_serves g L recs D q n ecs max x Hn Hl Hq He Hs).
Qed.
End Composed.

(* ================================================================== one Wrs per pick versus Go's one Wrs per target
   db.AdditionalSectionForRecords uses ONE Wrs{MaxAnswers: 1} per NS / MX target for both families
   (Model/Wrs.additional: rows of a family are added only if that family is wanted; the AAAA record is
   emitted before the A record).  [realise] runs one Wrs per IPick, i.e. per family.  Since Wrs.Add touches
   only the slots of the record's own family the two agree: the realised AAAA and A picks of a target are what
   Model/Wrs.additional returns on the target's rows (the AAAA candidates and the A candidates with their keys,
   in any interleaving that keeps the order inside a family - here AAAA rows first) - so
   C11_additional_max_one speaks about the realised records verbatim. *)
Section PairAdditional.
Variable K : Type.
Variable klt : K -> K -> bool.
Variable kpos : K -> bool.
Variable keyof : N -> N -> K.

Lemma fam_items_app : forall q (a b : list (Model.Wrs.row K payload)),
  Model.Wrs.fam_items q (a ++ b) = Model.Wrs.fam_items q a ++ Model.Wrs.fam_items q b.
Proof. intros. unfold Model.Wrs.fam_items. rewrite filter_app, map_app. reflexivity. Qed.

Lemma fam_items_pick_other : forall d ty q c, ty <> q ->
  Model.Wrs.fam_items q (pick_rows K keyof d ty c) = [].
Proof.
  intros d ty q c Hne. unfold pick_rows, Model.Wrs.fam_items.
  induction (index_from 0 c) as [|p l IH]; [reflexivity|]. cbn [map filter Model.Wrs.rq].
  apply N.eqb_neq in Hne. rewrite Hne. exact IH.
Qed.

Lemma recs_feed_family : forall max d ty c, ty = 1 \/ ty = 28 ->
  Model.Wrs.recs_or_nil kpos (Model.Wrs.feed klt max (pick_rows K keyof d ty c)) ty =
  map snd (Model.Wrs.live kpos (Model.Wrs.run klt max (Model.Wrs.fam_items ty (pick_rows K keyof d ty c)))).
Proof.
  intros max d ty c Hty. destruct (Proofs.Wrs.feed_spec K klt payload max (pick_rows K keyof d ty c)) as (_ & H4 & H6 & _).
  unfold Model.Wrs.recs_or_nil, Model.Wrs.records.
  destruct Hty; subst ty; cbn [N.eqb Pos.eqb Model.Wrs.TypeA Model.Wrs.TypeAAAA]; [rewrite H4|rewrite H6]; reflexivity.
Qed.

Theorem pick_pair_is_additional : forall d6 d4 t qc c6 c4 (want4 want6 : bool) r6 r4 wt,
  Model.Wrs.additional klt kpos want4 want6 (pick_rows K keyof d6 28 c6 ++ pick_rows K keyof d4 1 c4) = (r6, r4, wt) ->
  (if want6 then realise_pick K klt kpos keyof 1 d6 t 28 qc c6 else []) =
    map (fun p : payload => mkRR t 28 qc (cand_ttl (snd p)) (cand_addr (snd p))) r6 /\
  (if want4 then realise_pick K klt kpos keyof 1 d4 t 1 qc c4 else []) =
    map (fun p : payload => mkRR t 1 qc (cand_ttl (snd p)) (cand_addr (snd p))) r4.
Proof.
  intros d6 d4 t qc c6 c4 want4 want6 r6 r4 wt H. unfold Model.Wrs.additional in H.
  destruct (want4 || want6) eqn:Ew.
  2:{ inversion H; subst. destruct want4, want6; try discriminate. split; reflexivity. }
  rewrite Proofs.Wrs.add_parse_fold in H.
  set (rows := pick_rows K keyof d6 28 c6 ++ pick_rows K keyof d4 1 c4) in *.
  set (flt := filter _ rows) in H.
  change (Proofs.Wrs.fed_from K klt payload (Model.Wrs.wrs_new 1) flt) with (Model.Wrs.feed klt 1 flt) in H.
  destruct (Proofs.Wrs.feed_spec K klt payload 1 flt) as (_ & H4 & H6 & _).
  unfold Model.Wrs.recs_or_nil, Model.Wrs.records in H. cbn [N.eqb Pos.eqb Model.Wrs.TypeA Model.Wrs.TypeAAAA] in H.
  rewrite H4, H6 in H. unfold flt in H.
  rewrite !Proofs.Wrs.fam_items_filter_want in H by (auto). cbn [N.eqb Pos.eqb Model.Wrs.TypeA Model.Wrs.TypeAAAA] in H.
  assert (E6 : Model.Wrs.fam_items 28 rows = Model.Wrs.fam_items 28 (pick_rows K keyof d6 28 c6)).
  { unfold rows. rewrite fam_items_app, (fam_items_pick_other d4 1 28 c4) by discriminate. apply app_nil_r. }
  assert (E4 : Model.Wrs.fam_items 1 rows = Model.Wrs.fam_items 1 (pick_rows K keyof d4 1 c4)).
  { unfold rows. rewrite fam_items_app, (fam_items_pick_other d6 28 1 c6) by discriminate. reflexivity. }
  change Model.Wrs.TypeAAAA with 28 in H. change Model.Wrs.TypeA with 1 in H.
  rewrite E6, E4 in H. inversion H; subst r6 r4. clear H.
  unfold realise_pick. rewrite !recs_feed_family by auto.
  split; [destruct want6|destruct want4]; reflexivity.
Qed.
End PairAdditional.
