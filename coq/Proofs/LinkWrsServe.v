(* Proofs/LinkWrsServe: C11 x C01 - the weighted sample (Model/Wrs.v, Proofs/Wrs.v) run inside the
   served response (Model/Serve.v, C01_response_is_spec).  [realise] (Model/ComposeMore.v) replaces
   every IPick item of a response by the records Wrs.Add / Wrs.record select under a key
   assignment; this file proves what the realised response holds, as a function of the declared
   records (Spec/Answer.spec_response, Spec/AnswerExtra.addr_records). *)
From DnsV Require Import Base.Bytes Model.Store Model.LookupV1 Model.Serve.
From DnsV Require Import Spec.Answer Spec.Rows Spec.AnswerExtra.
From DnsV Require Import Proofs.Compile Proofs.AnswerItems Proofs.AuthSections Proofs.FileLevel.
From DnsV Require Model.Wrs Proofs.Wrs.
From DnsV Require Import Model.ComposeMore.
From Coq Require Import Lia Permutation ZifyN ZifyNat ZifyBool.
Open Scope N_scope.

(* ------------------------------------------------------------------ lists *)
Lemma sub_multiset : forall {X} (l l' : list X), NoDup l -> incl l l' ->
  exists rest, Permutation (l ++ rest) l'.
Proof.
  intros X l. induction l as [|x l IH]; intros l' ND I.
  - exists l'. apply Permutation_refl.
  - inversion ND as [|? ? Nx ND']; subst.
    assert (Hx : In x l') by (apply I; left; reflexivity).
    destruct (in_split x l' Hx) as (l1 & l2 & ->).
    destruct (IH (l1 ++ l2) ND') as (rest & P).
    { intros y Hy. assert (Hy' : In y (l1 ++ x :: l2)) by (apply I; right; exact Hy).
      apply in_app_or in Hy'. apply in_or_app. destruct Hy' as [Hy'|[Hy'|Hy']]; [left; exact Hy'| |right; exact Hy'].
      subst y. contradiction. }
    exists rest. cbn [app]. eapply Permutation_trans; [apply perm_skip; exact P|]. apply Permutation_middle.
Qed.

Lemma index_from_ge : forall {X} (l : list X) i p, In p (index_from i l) -> (i <= fst p)%nat.
Proof.
  intros X l. induction l as [|x l IH]; intros i p H; [contradiction|].
  destruct H as [<-|H]; [cbn; lia|]. apply IH in H. lia.
Qed.

Lemma index_from_nodup : forall {X} (l : list X) i, NoDup (index_from i l).
Proof.
  intros X l. induction l as [|x l IH]; intros i; cbn [index_from]; constructor; [|apply IH].
  intros H. apply index_from_ge in H. cbn in H. lia.
Qed.

(* reading the candidates back through their indices *)
Lemma index_from_nth : forall {X Y} (f : X -> Y) (d : X) (l pre : list X),
  map (fun p => nth (fst p) (pre ++ l) d) (index_from (length pre) (map f l)) = l /\
  forall p, In p (index_from (length pre) (map f l)) -> snd p = f (nth (fst p) (pre ++ l) d).
Proof.
  intros X Y f d l. induction l as [|a t IH]; intros pre; cbn [map index_from]; [split; [reflexivity|contradiction]|].
  destruct (IH (pre ++ [a])) as (E & I). rewrite app_length in E, I. cbn [length] in E, I.
  rewrite Nat.add_1_r, <- app_assoc in E, I. cbn [app] in E, I.
  split.
  - cbn [fst]. rewrite nth_middle. f_equal. exact E.
  - intros p [<-|H]; [cbn [fst snd]; rewrite nth_middle; reflexivity|]. apply I. exact H.
Qed.

Lemma index_from_count : forall {X} (w : X -> bool) (g : nat * X -> bool) (l : list X) i,
  (forall p, g p = w (snd p)) ->
  length (filter g (index_from i l)) = length (filter w l).
Proof.
  intros X w g l. induction l as [|a t IH]; intros i Hg; [reflexivity|].
  cbn [index_from filter]. rewrite Hg. cbn [snd]. destruct (w a); cbn [length]; rewrite (IH (S i) Hg); reflexivity.
Qed.

(* ------------------------------------------------------------------ one pick *)
Definition rr_of_rec (owner : bytes) (cls : N) (r : record) : rr :=
  mkRR owner (r_type r) cls (r_ttl r) (r_rdata r).
Definition posw (r : record) : bool := 0 <? r_weight r.

(* [chosen] are pairwise distinct records among [fam] (a sub-multiset: [fam] is [chosen] and the rest),
   all of positive weight, and exactly min(max, number of positive weights in [fam]) many *)
Definition family_sound (max : N) (fam chosen : list record) : Prop :=
  (exists rest, Permutation (chosen ++ rest) fam) /\
  Forall (fun r => 0 < r_weight r) chosen /\
  nlen chosen = N.min max (nlen (filter posw fam)).

Lemma family_sound_perm : forall max fam fam' chosen, Permutation fam fam' ->
  family_sound max fam chosen -> family_sound max fam' chosen.
Proof.
  intros max fam fam' chosen P ((rest & R) & F & Ln). split; [|split].
  - exists rest. eapply Permutation_trans; [exact R|exact P].
  - exact F.
  - rewrite Ln. unfold nlen. rewrite (Proofs.Wrs.filter_length_perm posw fam fam' P). reflexivity.
Qed.

Lemma count_cands : forall rs : list record,
  length (filter (fun c : cand => 0 <? snd (fst c)) (map cand_of rs)) = length (filter posw rs).
Proof.
  induction rs as [|r t IH]; [reflexivity|]. cbn [map filter].
  change (snd (fst (cand_of r))) with (r_weight r). change (posw r) with (0 <? r_weight r).
  destruct (0 <? r_weight r); cbn [length]; rewrite IH; reflexivity.
Qed.

Definition dflt_rec : record := mkRec [] false None 0 0 0 [].

Section Pick.
Variable K : Type.
Variable klt : K -> K -> bool.
Variable kpos : K -> bool.
Hypothesis klt_irrefl : forall a, klt a a = false.
Hypothesis klt_trans : forall a b c, klt a b = true -> klt b c = true -> klt a c = true.
Hypothesis kzero_below : forall z a, kpos z = false -> kpos a = true -> klt z a = true.
Variable keyof : N -> N -> K.
Hypothesis keyof_pos : forall u w, u <= Model.Wrs.maxU32 -> kpos (keyof u w) = Model.Wrs.dk_pos (u, w).

Definition drows (d : nat -> N) (ty : N) (cands : list cand) : list (Proofs.Wrs.drow payload) :=
  map (fun p => Proofs.Wrs.mkD payload ty (d (fst p)) (cand_weight (snd p)) p) (index_from 0 cands).

Lemma pick_rows_drows : forall d ty cands,
  pick_rows K keyof d ty cands = map (Proofs.Wrs.to_row K payload keyof) (drows d ty cands).
Proof. intros. unfold pick_rows, drows. rewrite map_map. reflexivity. Qed.

(* C11_bounded_sound_outside_F18 on the candidates of one pick, read back as declared records *)
Lemma realise_pick_sound : forall (max : Z) d owner ty cls (rs : list record),
  (1 <= max)%Z -> ty = 1 \/ ty = 28 ->
  (forall j, 0 < d j < Model.Wrs.maxU32) ->
  Forall (fun r => r_type r = ty) rs ->
  exists chosen,
    realise_pick K klt kpos keyof max d owner ty cls (map cand_of rs) = map (rr_of_rec owner cls) chosen /\
    (exists rest, Permutation (chosen ++ rest) rs) /\
    Forall (fun r => 0 < r_weight r) chosen /\
    length chosen = Nat.min (Z.to_nat max) (length (filter posw rs)).
Proof.
  intros max d owner ty cls rs Hmax Hty Hd Hrs.
  set (cands := map cand_of rs).
  destruct (Proofs.Wrs.bounded_sound_outside_F18 K klt kpos payload klt_irrefl klt_trans kzero_below keyof keyof_pos
              (drows d ty cands) max ty Hmax) as (res & Hrec & Hsound & Hnd & Hlen).
  { exact Hty. }
  { unfold drows. rewrite map_map. cbn [Proofs.Wrs.dpay]. rewrite map_id. apply index_from_nodup. }
  { unfold drows. apply Forall_forall. intros x Hx. apply in_map_iff in Hx as (p & <- & _).
    unfold Proofs.Wrs.in_open_range. cbn [Proofs.Wrs.du]. apply Hd. }
  destruct (index_from_nth cand_of dflt_rec rs []) as (Enth & Isnd). cbn [length app] in Enth, Isnd.
  fold cands in Enth, Isnd.
  set (g := fun p : payload => nth (fst p) rs dflt_rec).
  assert (Enth' : map g (index_from 0 cands) = rs) by exact Enth.
  assert (Isnd' : forall p, In p (index_from 0 cands) -> snd p = cand_of (g p)) by exact Isnd.
  clear Enth Isnd. rename Enth' into Enth. rename Isnd' into Isnd.
  assert (Hin : forall p, In p (map snd res) -> In p (index_from 0 cands) /\ 0 < cand_weight (snd p)).
  { intros p Hp. apply in_map_iff in Hp as (it & <- & Hit).
    destruct (Hsound it Hit) as (dd & Hdd & _ & Hpay & Hw).
    unfold drows in Hdd. apply in_map_iff in Hdd as (p & <- & Hp). cbn [Proofs.Wrs.dpay Proofs.Wrs.dw] in Hpay, Hw.
    rewrite <- Hpay. split; assumption. }
  destruct (sub_multiset (map snd res) (index_from 0 cands) Hnd) as (restP & HP).
  { intros p Hp. apply (Hin p Hp). }
  exists (map g (map snd res)). split; [|split; [|split]].
  - unfold realise_pick, Model.Wrs.recs_or_nil. rewrite pick_rows_drows. fold cands. rewrite Hrec.
    rewrite !map_map. apply map_ext_in. intros it Hit.
    assert (Hp : In (snd it) (map snd res)) by (apply in_map; exact Hit).
    destruct (Hin _ Hp) as (Hi & _). pose proof (Isnd _ Hi) as Es.
    unfold rr_of_rec, cand_ttl, cand_addr. rewrite Es. unfold cand_of. cbn [fst snd].
    f_equal. symmetry. rewrite Forall_forall in Hrs. apply Hrs.
    rewrite <- Enth. apply in_map_iff. exists (snd it). split; [reflexivity|exact Hi].
  - exists (map g restP). rewrite <- map_app.
    eapply Permutation_trans; [apply Permutation_map; exact HP|]. rewrite Enth. apply Permutation_refl.
  - apply Forall_forall. intros r Hr. apply in_map_iff in Hr as (p & <- & Hp).
    destruct (Hin p Hp) as (Hi & Hw). rewrite (Isnd _ Hi) in Hw. exact Hw.
  - rewrite !map_length. etransitivity; [exact Hlen|]. f_equal.
    unfold drows. rewrite <- (map_length (Proofs.Wrs.dpay payload)).
    assert (Ef : forall l, map (Proofs.Wrs.dpay payload)
                (filter (fun dd => (Proofs.Wrs.dq payload dd =? ty) && (0 <? Proofs.Wrs.dw payload dd))
                   (map (fun p => Proofs.Wrs.mkD payload ty (d (fst p)) (cand_weight (snd p)) p) l)) =
                filter (fun p : payload => (ty =? ty) && (0 <? cand_weight (snd p))) l).
    { induction l as [|a l IHl]; [reflexivity|]. cbn [map filter Proofs.Wrs.dq Proofs.Wrs.dw].
      destruct ((ty =? ty) && (0 <? cand_weight (snd a))); cbn [map Proofs.Wrs.dpay]; rewrite IHl; reflexivity. }
    rewrite Ef.
    etransitivity; [apply (index_from_count (fun c : cand => 0 <? cand_weight c)); intros p; rewrite N.eqb_refl; reflexivity|].
    exact (count_cands rs).
Qed.

(* the items Wrs.ARecord / AAAARecord contribute (none when no record would be served) *)
Lemma realise_wrs_items : forall ds i owner cls (max : N) ty (rs : list record),
  ty = 1 \/ ty = 28 ->
  (forall i j, 0 < ds i j < Model.Wrs.maxU32) ->
  Forall (fun r => r_type r = ty) rs ->
  exists chosen,
    realise_from K klt kpos keyof (Z.of_N max) ds i (wrs_items owner cls max ty (map cand_of rs)) =
      map (rr_of_rec owner cls) chosen /\
    family_sound max rs chosen.
Proof.
  intros ds i owner cls max ty rs Hty Hd Hrs. unfold wrs_items.
  assert (Enp : npick max (map cand_of rs) = N.min max (nlen (filter posw rs))).
  { unfold npick, npos, nlen. f_equal. f_equal. exact (count_cands rs). }
  destruct (npick max (map cand_of rs) =? 0) eqn:E0.
  - exists []. split; [reflexivity|]. split; [exists rs; apply Permutation_refl|]. split; [constructor|].
    apply N.eqb_eq in E0. rewrite <- Enp, E0. reflexivity.
  - apply N.eqb_neq in E0.
    assert (Hmax : (1 <= Z.of_N max)%Z) by (rewrite Enp in E0; lia).
    destruct (realise_pick_sound (Z.of_N max) (ds i) owner ty cls rs Hmax Hty (Hd i) Hrs) as (chosen & E & R & F & Ln).
    exists chosen. split; [|split; [exact R|split; [exact F|]]].
    + cbn [realise_from realise_item]. rewrite app_nil_r. exact E.
    + unfold nlen. rewrite Ln. lia.
Qed.
End Pick.
