(* TextNames: the text form of names (putdomtext) and what is read back from it.
   Main facts: Bquote is compositional at '.', so putdomtext o d = Bquote (nn d) where
   nn d is d without its empty labels (the root "." stays), hence by C17
   normname o d = nn d; nn keeps the non-empty labels, so wire names and keys agree. *)
From DnsV Require Import Model.Text Proofs.Utf8 Proofs.Quote Proofs.TextBase.
From Coq Require Import ZifyN ZifyNat ZifyBool.
Ltac Zify.zify_post_hook ::= Z.div_mod_to_equations.
Open Scope N_scope.

Definition nodot (x : bytes) : Prop := contains 46 x = false.
Definition ne46 (x : N) : Prop := x <> 46.

Lemma nodot_Forall : forall x, nodot x <-> Forall ne46 x.
Proof. intros. apply contains_false_Forall. Qed.

(* ------------------------------------------------------------------ UTF-8 look-ahead stops at '.' *)
Lemma decode_rune_app46 : forall s X, s <> [] -> decode_rune (s ++ 46 :: X) = decode_rune s.
Proof.
  intros s X Ne. destruct s as [|b0 t]; [congruence|]. cbn [app]. unfold decode_rune.
  destruct (b0 <? 128); [reflexivity|].
  assert (C : cont 46 = false) by reflexivity.
  destruct ((194 <=? b0) && (b0 <=? 223)).
  { destruct t as [|b1 t]; cbn [app]; [rewrite C|]; reflexivity. }
  destruct ((224 <=? b0) && (b0 <=? 239)).
  { destruct t as [|b1 [|b2 t]]; cbn [app].
    - destruct X; [reflexivity|]. destruct (b0 =? 224); reflexivity.
    - rewrite C, andb_false_r. reflexivity.
    - reflexivity. }
  destruct ((240 <=? b0) && (b0 <=? 244)).
  { destruct t as [|b1 [|b2 [|b3 t]]]; cbn [app].
    - destruct X as [|x [|y X]]; try reflexivity. destruct (b0 =? 240); reflexivity.
    - destruct X; [reflexivity|]. rewrite C, andb_false_r. reflexivity.
    - rewrite C, andb_false_r. reflexivity.
    - reflexivity. }
  reflexivity.
Qed.

Lemma decode_rune_width : forall b0 t r w, 128 <= b0 -> decode_rune (b0 :: t) = (r, w) ->
  (1 <= w <= length (b0 :: t))%nat.
Proof.
  intros b0 t r w H D. apply decode_rune_spec in D; [|assumption].
  destruct D as [[-> _]|(Hw & _ & _ & Hl & Hs)]; [cbn [length]; lia|].
  split; [lia|]. rewrite Hs at 1. rewrite app_length. lia.
Qed.

Section Names.
Variable o : toracles.
Let pr := o_isprint o.

(* ------------------------------------------------------------------ quote_body *)
Lemma quote_body_nil : forall f, quote_body pr f [] = [].
Proof. destruct f; reflexivity. Qed.

Lemma quote_body_fuel : forall f1 f2 s, (length s <= f1)%nat -> (length s <= f2)%nat ->
  quote_body pr f1 s = quote_body pr f2 s.
Proof.
  induction f1; intros f2 s L1 L2.
  - destruct s; [|cbn in L1; lia]. rewrite !quote_body_nil. reflexivity.
  - destruct s as [|b0 t]; [rewrite !quote_body_nil; reflexivity|].
    destruct f2 as [|f2]; [cbn in L2; lia|]. cbn [length] in L1, L2.
    cbn [quote_body].
    destruct (N.ltb_spec b0 128).
    + cbv beta iota. cbn [skipn]. rewrite (IHf1 f2 t) by lia. reflexivity.
    + destruct (decode_rune (b0 :: t)) as [r w] eqn:D.
      pose proof (decode_rune_width b0 t r w ltac:(lia) D) as [W1 W2].
      cbv beta iota.
      assert (length (skipn w (b0 :: t)) <= length t)%nat by (rewrite skipn_length; cbn [length]; lia).
      rewrite (IHf1 f2 t) by lia. rewrite (IHf1 f2 (skipn w (b0 :: t))) by lia. reflexivity.
Qed.

Lemma quote_body_app46 : forall n a b, (length a <= n)%nat ->
  quote_body pr (length (a ++ 46 :: b)) (a ++ 46 :: b) =
  quote_body pr (length a) a ++ 46 :: quote_body pr (length b) b.
Proof.
  induction n; intros a b L.
  - destruct a; [|cbn in L; lia]. reflexivity.
  - destruct a as [|b0 t]; [reflexivity|]. cbn [length] in L.
    cbn [app length quote_body].
    destruct (N.ltb_spec b0 128).
    + cbv beta iota. cbn [skipn]. rewrite (IHn t b) by lia.
      destruct (Nat.eqb 1 1 && (b0 =? rune_error)).
      * rewrite <- !app_comm_cons, <- app_assoc. reflexivity.
      * rewrite <- app_assoc. reflexivity.
    + change (b0 :: t ++ 46 :: b) with ((b0 :: t) ++ 46 :: b).
      rewrite decode_rune_app46 by discriminate.
      destruct (decode_rune (b0 :: t)) as [r w] eqn:D.
      pose proof (decode_rune_width b0 t r w ltac:(lia) D) as [W1 W2].
      cbv beta iota. destruct (Nat.eqb w 1 && (r =? rune_error)).
      * rewrite (IHn t b) by lia. rewrite <- !app_comm_cons, <- app_assoc. reflexivity.
      * rewrite <- app_assoc. f_equal.
        rewrite skipn_app. replace (w - length (b0 :: t))%nat with 0%nat by lia. cbn [skipn].
        set (a' := skipn w (b0 :: t)).
        assert (La : (length a' <= length t)%nat) by (unfold a'; rewrite skipn_length; cbn [length]; lia).
        rewrite (quote_body_fuel _ (length (a' ++ 46 :: b))) by (rewrite !app_length; cbn [length]; lia).
        rewrite (quote_body_fuel (length t) (length a') a') by lia.
        apply IHn. lia.
Qed.

(* ------------------------------------------------------------------ the rewriting passes *)
Lemma U_dot : forall n x y, (length x <= n)%nat -> U (x ++ 46 :: y) = U x ++ 46 :: U y.
Proof.
  induction n; intros x y L.
  - destruct x; [|cbn in L; lia]. cbn [app]. rewrite U_cons by (left; lia). reflexivity.
  - destruct x as [|c [|c2 x']].
    + cbn [app]. rewrite U_cons by (left; lia). reflexivity.
    + cbn [app]. rewrite U_cons by (right; cbn [hd]; lia). rewrite U_cons by (left; lia). reflexivity.
    + cbn [length] in L. destruct ((c =? 92) && (c2 =? 34)) eqn:E.
      * apply andb_true_iff in E. destruct E as [E1 E2]. apply N.eqb_eq in E1, E2. subst.
        cbn [app]. rewrite !U_esc. rewrite IHn by lia. reflexivity.
      * change ((c :: c2 :: x') ++ 46 :: y) with (c :: (c2 :: x') ++ 46 :: y).
        rewrite U_cons by (cbn [app hd]; lia).
        rewrite IHn by (cbn [length]; lia).
        rewrite (U_cons c (c2 :: x')) by (cbn [hd]; lia). reflexivity.
Qed.

Lemma bquote_app46 : forall a b, bquote pr (a ++ 46 :: b) = bquote pr a ++ 46 :: bquote pr b.
Proof.
  intros a b. rewrite !bquote_eq. rewrite (quote_body_app46 (length a)) by lia.
  rewrite rw_app. change (rw (46 :: quote_body pr (length b) b)) with (46 :: rw (quote_body pr (length b) b)).
  apply (U_dot (length (rw (quote_body pr (length a) a)))). lia.
Qed.

(* ------------------------------------------------------------------ Bquote adds no '.' *)
Lemma hexdigit_ne46 : forall n, n < 16 -> ne46 (hexdigit n).
Proof. intros n H. unfold ne46, hexdigit. destruct (n <? 10); lia. Qed.

Lemma hex2_ne46 : forall b, Forall ne46 (hex2 b).
Proof. intros. unfold hex2. repeat constructor; apply hexdigit_ne46, mod16_lt. Qed.
Lemma hex4_ne46 : forall b, Forall ne46 (hex4 b).
Proof. intros. unfold hex4. repeat constructor; apply hexdigit_ne46, mod16_lt. Qed.
Lemma hex8_ne46 : forall b, Forall ne46 (hex8 b).
Proof. intros. unfold hex8. apply Forall_app. split; [repeat constructor; apply hexdigit_ne46, mod16_lt|apply hex4_ne46]. Qed.

Lemma escaped_rune_ne46 : forall r, r <> 46 -> (r < 128 \/ (128 <= r /\ valid_rune r = true)) ->
  Forall ne46 (escaped_rune pr r).
Proof.
  intros r N46 Hr. unfold escaped_rune.
  destruct ((r =? 34) || (r =? 92)); [repeat constructor; unfold ne46; lia|].
  destruct (is_print pr r).
  { destruct Hr as [Hr|[Hr Hv]].
    - unfold encode_rune. destruct (N.ltb_spec r 128); [|lia]. repeat constructor. exact N46.
    - destruct (encode_rune_bytes r Hr Hv) as [F _]. eapply Forall_impl; [|exact F]. unfold ne46. intros; lia. }
  repeat match goal with
  | |- context [if ?a =? ?b then _ else _] => destruct (a =? b); [repeat constructor; unfold ne46; lia|]
  end.
  destruct ((r <? 32) || (r =? 127)).
  { constructor; [unfold ne46; lia|]. constructor; [unfold ne46; lia|]. apply hex2_ne46. }
  destruct (negb (valid_rune r)).
  { constructor; [unfold ne46; lia|]. constructor; [unfold ne46; lia|]. apply hex4_ne46. }
  destruct (r <? 65536).
  - constructor; [unfold ne46; lia|]. constructor; [unfold ne46; lia|]. apply hex4_ne46.
  - constructor; [unfold ne46; lia|]. constructor; [unfold ne46; lia|]. apply hex8_ne46.
Qed.

Lemma Forall_skipn : forall {A} (P : A -> Prop) n l, Forall P l -> Forall P (skipn n l).
Proof. induction n; intros l H; [exact H|]. destruct l; [constructor|]. inversion H; subst. apply IHn. assumption. Qed.

Lemma quote_body_nodot : forall f s, wf_bytes s -> Forall ne46 s -> Forall ne46 (quote_body pr f s).
Proof.
  induction f; intros s W D; [constructor|].
  destruct s as [|b0 t]; [constructor|].
  inversion W as [|? ? Hb Wt]; subst. inversion D as [|? ? Db Dt]; subst.
  cbn [quote_body].
  destruct (N.ltb_spec b0 128).
  - cbv beta iota. destruct (N.eqb_spec b0 rune_error) as [E|_]; [unfold rune_error in E; lia|].
    rewrite andb_false_r. apply Forall_app. split; [apply escaped_rune_ne46; [exact Db|left; assumption]|].
    apply IHf; assumption.
  - destruct (decode_rune (b0 :: t)) as [r w] eqn:E. apply decode_rune_spec in E; [|lia].
    destruct E as [[-> ->]|(Hw & Hr & Hv & Hl & Hs)].
    + cbv beta iota. cbn [Nat.eqb andb]. rewrite N.eqb_refl.
      constructor; [unfold ne46; lia|]. constructor; [unfold ne46; lia|].
      apply Forall_app. split; [apply hex2_ne46|]. apply IHf; assumption.
    + cbv beta iota. destruct (Nat.eqb_spec w 1); [lia|]. cbn [andb].
      apply Forall_app. split; [apply escaped_rune_ne46; [lia|right; split; assumption]|].
      apply IHf; apply Forall_skipn; assumption.
Qed.

Lemma rw_ne46 : forall s, Forall ne46 s -> Forall ne46 (rw s).
Proof.
  induction 1; [constructor|]. unfold rw in *. cbn [flat_map]. apply Forall_app. split; [|assumption].
  unfold rw1. destruct (x =? 44); [repeat constructor; unfold ne46; lia|].
  destruct (x =? 58); [repeat constructor; unfold ne46; lia|]. repeat constructor. assumption.
Qed.

Lemma U_Forall : forall (P : N -> Prop) n s, (length s <= n)%nat -> Forall P s -> Forall P (U s).
Proof.
  induction n; intros s L H.
  - destruct s; [constructor|cbn in L; lia].
  - destruct s as [|c [|c2 s']]; [constructor|exact H|].
    cbn [length] in L. inversion H as [|? ? Hc H']; subst. inversion H' as [|? ? Hc2 H'']; subst.
    destruct ((c =? 92) && (c2 =? 34)) eqn:E.
    + apply andb_true_iff in E. destruct E as [E1 E2]. apply N.eqb_eq in E1, E2. subst c c2.
      rewrite U_esc. constructor; [assumption|]. apply IHn; [lia|assumption].
    + rewrite U_cons by (cbn [hd]; lia).
      constructor; [assumption|]. apply IHn; [cbn [length]; lia|assumption].
Qed.

Lemma bquote_nodot : forall l, wf_bytes l -> nodot l -> nodot (bquote pr l).
Proof.
  intros l W D. apply nodot_Forall. rewrite bquote_eq. apply nodot_Forall in D.
  eapply U_Forall; [apply le_n|]. apply rw_ne46. apply quote_body_nodot; assumption.
Qed.

Lemma bquote_nil : bquote pr [] = [].
Proof. reflexivity. Qed.

Lemma bquote_nil_inv : forall l, wf_bytes l -> bquote pr l = [] -> l = [].
Proof.
  intros l W E. pose proof (bquote_roundtrip pr l W) as R. rewrite E in R. cbn in R. congruence.
Qed.

(* ------------------------------------------------------------------ labels *)
Definition labels (d : bytes) : list bytes := split_on 46 d [].
Definition ne_labels (d : bytes) : list bytes := filter nonempty (labels d).
Definition dropdots (d : bytes) : bytes := joinb 46 (ne_labels d).
(* the name read back from the text form of d *)
Definition nn (d : bytes) : bytes := if bytes_eqb d [46] then [46] else dropdots d.

Lemma split_on_ne : forall c s cur, split_on c s cur <> [].
Proof. induction s; intros cur; cbn [split_on]; [discriminate|]. destruct (a =? c); [discriminate|apply IHs]. Qed.

Lemma join_split : forall c s cur, joinb c (split_on c s cur) = rev cur ++ s.
Proof.
  induction s; intros cur; cbn [split_on].
  - cbn [joinb]. rewrite app_nil_r. reflexivity.
  - destruct (N.eqb_spec a c).
    + subst. pose proof (split_on_ne c s []) as Ne. specialize (IHs []).
      destruct (split_on c s []) eqn:E; [congruence|].
      change (joinb c (rev cur :: b :: l)) with (rev cur ++ c :: joinb c (b :: l)). rewrite IHs. reflexivity.
    + rewrite IHs. cbn [rev]. rewrite <- app_assoc. reflexivity.
Qed.

Lemma join_labels : forall d, joinb 46 (labels d) = d.
Proof. intros. unfold labels. rewrite join_split. reflexivity. Qed.

Lemma split_nodot : forall s cur, nodot (rev cur) -> Forall nodot (split_on 46 s cur).
Proof.
  induction s; intros cur H; cbn [split_on]; [repeat constructor; assumption|].
  destruct (N.eqb_spec a 46).
  - constructor; [assumption|]. apply IHs. reflexivity.
  - apply IHs. cbn [rev]. unfold nodot in *. rewrite contains_app, H. cbn [contains].
    destruct (N.eqb_spec a 46); [contradiction|reflexivity].
Qed.

Lemma labels_nodot : forall d, Forall nodot (labels d).
Proof. intros. apply split_nodot. reflexivity. Qed.

Lemma labels_ne : forall d, labels d <> [].
Proof. intros. apply split_on_ne. Qed.

Lemma labels_join : forall ls, ls <> [] -> Forall nodot ls -> labels (joinb 46 ls) = ls.
Proof. intros ls Ne F. unfold labels. rewrite joinb_join_sep. apply split_join; assumption. Qed.

Lemma labels_cons : forall p x, nodot p -> labels (p ++ 46 :: x) = p :: labels x.
Proof.
  intros p x H. unfold labels. rewrite split_on_nosep by exact H. cbn [split_on]. rewrite N.eqb_refl.
  rewrite app_nil_r, rev_involutive. reflexivity.
Qed.

Lemma wf_bytes_app : forall a b, wf_bytes a -> wf_bytes b -> wf_bytes (a ++ b).
Proof. intros. apply Forall_app. split; assumption. Qed.

Lemma split_wf : forall s cur, wf_bytes s -> wf_bytes cur -> Forall wf_bytes (split_on 46 s cur).
Proof.
  induction s; intros cur Ws Wc; cbn [split_on].
  - repeat constructor. apply Forall_rev. assumption.
  - inversion Ws; subst. destruct (a =? 46).
    + constructor; [apply Forall_rev; assumption|]. apply IHs; [assumption|constructor].
    + apply IHs; [assumption|constructor; assumption].
Qed.

Lemma labels_wf : forall d, wf_bytes d -> Forall wf_bytes (labels d).
Proof. intros. apply split_wf; [assumption|constructor]. Qed.

Lemma joinb_wf : forall ls, Forall wf_bytes ls -> wf_bytes (joinb 46 ls).
Proof.
  induction 1 as [|x t Hx Ht IH]; [constructor|]. cbn [joinb]. destruct t; [assumption|].
  apply wf_bytes_app; [assumption|]. constructor; [lia|assumption].
Qed.

Lemma Forall_filter : forall {A} (P : A -> Prop) f l, Forall P l -> Forall P (filter f l).
Proof. induction 1; cbn [filter]; [constructor|]. destruct (f x); [constructor|]; assumption. Qed.

(* Bquote distributes over the labels *)
Lemma bquote_joinb : forall ls, bquote pr (joinb 46 ls) = joinb 46 (map (bquote pr) ls).
Proof.
  induction ls as [|x t IH]; [reflexivity|]. destruct t as [|y t']; [reflexivity|].
  change (joinb 46 (x :: y :: t')) with (x ++ 46 :: joinb 46 (y :: t')).
  rewrite bquote_app46, IH. reflexivity.
Qed.

Lemma labels_bquote : forall d, wf_bytes d -> labels (bquote pr d) = map (bquote pr) (labels d).
Proof.
  intros d W. rewrite <- (join_labels d) at 1. rewrite bquote_joinb. apply labels_join.
  - pose proof (labels_ne d). destruct (labels d); [congruence|discriminate].
  - apply Forall_map. pose proof (labels_wf d W) as Wl. pose proof (labels_nodot d) as Dl.
    induction Wl; inversion Dl; subst; constructor; [apply bquote_nodot; assumption|auto].
Qed.

(* ------------------------------------------------------------------ putdomtext *)
Definition wf_name (d : bytes) : Prop :=
  wf_bytes d /\ Forall (fun s => (length s < 256)%nat) (labels (bquote pr d)).

Lemma wf_nameb_spec : forall d, wf_nameb o d = true -> wf_name d.
Proof.
  intros d H. unfold wf_nameb in H. apply andb_true_iff in H. destruct H as [H1 H2]. split.
  - apply wf_bytesb_spec. assumption.
  - rewrite forallb_forall in H2. apply Forall_forall. intros x Hx. apply H2 in Hx. apply Nat.ltb_lt. assumption.
Qed.

Lemma trunc_label_id : forall s, (length s < 256)%nat -> trunc_label s = s.
Proof.
  intros s H. unfold trunc_label, nlen. rewrite N.mod_small by lia. rewrite Nat2N.id. apply firstn_all.
Qed.

Lemma map_id_Forall : forall {A} (f : A -> A) (P : A -> Prop) l, (forall x, P x -> f x = x) -> Forall P l -> map f l = l.
Proof. induction 2; cbn [map]; [reflexivity|]. rewrite H, IHForall by assumption. reflexivity. Qed.

Lemma filter_map_bquote : forall ls, Forall wf_bytes ls ->
  filter nonempty (map (bquote pr) ls) = map (bquote pr) (filter nonempty ls).
Proof.
  induction 1 as [|x t Hx Ht IH]; [reflexivity|]. cbn [map filter]. rewrite IH.
  destruct x as [|c x'].
  - reflexivity.
  - destruct (bquote pr (c :: x')) eqn:E.
    + apply bquote_nil_inv in E; [discriminate|assumption].
    + cbn [nonempty map]. rewrite E. reflexivity.
Qed.

Lemma bytes_eqb_eq : forall a b, bytes_eqb a b = true <-> a = b.
Proof.
  induction a; destruct b; cbn [bytes_eqb]; split; intros H; try reflexivity; try discriminate.
  - apply andb_true_iff in H. destruct H as [H1 H2]. apply N.eqb_eq in H1. apply IHa in H2. subst. reflexivity.
  - inversion H; subst. rewrite N.eqb_refl. apply IHa. reflexivity.
Qed.

Lemma dropdots_wf : forall d, wf_bytes d -> wf_bytes (dropdots d).
Proof. intros. apply joinb_wf. apply Forall_filter. apply labels_wf. assumption. Qed.

Lemma nn_wf : forall d, wf_bytes d -> wf_bytes (nn d).
Proof. intros d W. unfold nn. destruct (bytes_eqb d [46]); [repeat constructor; lia|apply dropdots_wf; assumption]. Qed.

Lemma putdomtext_eq : forall d, wf_name d -> putdomtext o d = bquote pr (nn d).
Proof.
  intros d [W L]. unfold putdomtext, nn. destruct (bytes_eqb d [46]); [reflexivity|].
  fold pr. fold (labels (bquote pr d)).
  rewrite (map_id_Forall trunc_label _ _ trunc_label_id L).
  rewrite labels_bquote by assumption. rewrite filter_map_bquote by (apply labels_wf; assumption).
  unfold dropdots, ne_labels. rewrite bquote_joinb. reflexivity.
Qed.

Lemma unq_bquote : forall b, wf_bytes b -> unq (bquote pr b) = b.
Proof. intros b W. unfold unq. rewrite bquote_roundtrip by assumption. reflexivity. Qed.

Lemma normname_eq : forall d, wf_name d -> normname o d = nn d.
Proof.
  intros d H. unfold normname. rewrite putdomtext_eq by assumption. apply unq_bquote. apply nn_wf. apply H.
Qed.

Lemma putdomtext_nosep : forall d, wf_name d -> nocomma (putdomtext o d) /\ nocolon (putdomtext o d).
Proof.
  intros d H. rewrite putdomtext_eq by assumption.
  destruct (bquote_no_separator pr (nn d) (nn_wf d (proj1 H))) as (A & B & _). split; assumption.
Qed.

(* ------------------------------------------------------------------ nn keeps the non-empty labels *)
Lemma filter_idem : forall {A} (f : A -> bool) l, filter f (filter f l) = filter f l.
Proof.
  induction l; [reflexivity|]. cbn [filter]. destruct (f a) eqn:E; [cbn [filter]; rewrite E, IHl; reflexivity|assumption].
Qed.

Lemma ne_labels_dropdots : forall d, ne_labels (dropdots d) = ne_labels d.
Proof.
  intros d. unfold dropdots. set (L := ne_labels d). unfold ne_labels at 1.
  destruct L as [|x t] eqn:E.
  - reflexivity.
  - rewrite labels_join.
    + rewrite <- E. unfold L, ne_labels. apply filter_idem.
    + discriminate.
    + rewrite <- E. unfold L, ne_labels. apply Forall_filter. apply labels_nodot.
Qed.

Lemma ne_labels_nn : forall d, ne_labels (nn d) = ne_labels d.
Proof.
  intros d. unfold nn. destruct (bytes_eqb d [46]) eqn:E.
  - apply bytes_eqb_eq in E. subst. reflexivity.
  - apply ne_labels_dropdots.
Qed.

Lemma joinb_ne_not_dot : forall ls, Forall (fun s => s <> []) ls -> Forall nodot ls -> joinb 46 ls <> [46].
Proof.
  intros ls Ne D E. destruct ls as [|x [|y t]].
  - discriminate E.
  - cbn [joinb] in E. subst. inversion D; subst. discriminate H1.
  - inversion Ne; subst. destruct x as [|c x']; [congruence|].
    change (joinb 46 ((c :: x') :: y :: t)) with (c :: x' ++ 46 :: joinb 46 (y :: t)) in E.
    inversion E. destruct x'; discriminate.
Qed.

Lemma filter_nonempty_ne : forall ls, Forall (fun s : bytes => s <> []) (filter nonempty ls).
Proof.
  induction ls; cbn [filter]; [constructor|]. destruct a; cbn [nonempty]; [assumption|constructor; [discriminate|assumption]].
Qed.

Lemma dropdots_not_dot : forall d, dropdots d <> [46].
Proof.
  intros d. apply joinb_ne_not_dot; [apply filter_nonempty_ne|]. apply Forall_filter, labels_nodot.
Qed.

Lemma nn_idem : forall d, nn (nn d) = nn d.
Proof.
  intros d. destruct (bytes_eqb d [46]) eqn:E.
  - apply bytes_eqb_eq in E. subst. reflexivity.
  - assert (Hn : nn d = dropdots d) by (unfold nn; rewrite E; reflexivity). rewrite Hn.
    unfold nn. destruct (bytes_eqb (dropdots d) [46]) eqn:E2.
    + apply bytes_eqb_eq in E2. exfalso. eapply dropdots_not_dot. exact E2.
    + unfold dropdots at 1. rewrite ne_labels_dropdots. reflexivity.
Qed.

Lemma Forall_map_filter : forall {A B} (P : B -> Prop) (f : A -> B) g l,
  Forall P (map f l) -> Forall P (map f (filter g l)).
Proof.
  induction l; intros H; [constructor|]. cbn [map filter] in *. inversion H; subst.
  destruct (g a); [constructor|]; auto.
Qed.

Lemma nn_wf_name : forall d, wf_name d -> wf_name (nn d).
Proof.
  intros d [W L]. split; [apply nn_wf; assumption|].
  rewrite labels_bquote in L by assumption.
  rewrite labels_bquote by (apply nn_wf; assumption).
  unfold nn. destruct (bytes_eqb d [46]) eqn:E.
  - cbn. constructor; [cbn; lia|]. constructor; [cbn; lia|constructor].
  - unfold dropdots. destruct (ne_labels d) as [|x t] eqn:En.
    + cbn. constructor; [cbn; lia|constructor].
    + rewrite labels_join; [|discriminate|rewrite <- En; apply Forall_filter, labels_nodot].
      rewrite <- En. unfold ne_labels. apply Forall_map_filter. assumption.
Qed.

Lemma text_nn : forall d, wf_name d -> putdomtext o (nn d) = putdomtext o d.
Proof.
  intros d H. rewrite !putdomtext_eq by (try apply nn_wf_name; assumption). rewrite nn_idem. reflexivity.
Qed.

(* ------------------------------------------------------------------ wire names *)
Lemma flat_map_ne : forall {B} (g : bytes -> list B) l, g [] = [] ->
  flat_map g (filter nonempty l) = flat_map g l.
Proof.
  intros B g l H. induction l; [reflexivity|]. cbn [filter flat_map].
  destruct a; cbn [nonempty]; [rewrite H; assumption|cbn [flat_map]; rewrite IHl; reflexivity].
Qed.

Lemma flat_map_rev_ne : forall {B} (g : bytes -> list B) l, g [] = [] ->
  flat_map g (rev (filter nonempty l)) = flat_map g (rev l).
Proof.
  intros B g l H. induction l; [reflexivity|]. cbn [filter rev].
  destruct a; cbn [nonempty].
  - rewrite flat_map_app. cbn [flat_map]. rewrite H, !app_nil_r. assumption.
  - cbn [rev]. rewrite !flat_map_app, IHl. reflexivity.
Qed.

Lemma putdom_ne : forall d, putdom d = flat_map put_label (ne_labels d) ++ [0].
Proof. intros. unfold putdom, ne_labels. fold (labels d). rewrite flat_map_ne by reflexivity. reflexivity. Qed.

Lemma putdom_nn : forall d, putdom (nn d) = putdom d.
Proof. intros. rewrite !putdom_ne, ne_labels_nn. reflexivity. Qed.

(* a prefix of dot-free labels in front of a name *)
Lemma putdom_prefix_nn : forall p d, nodot p -> putdom (p ++ 46 :: nn d) = putdom (p ++ 46 :: d).
Proof.
  intros p d H. rewrite !putdom_ne. unfold ne_labels. rewrite !labels_cons by assumption.
  cbn [filter]. fold (ne_labels (nn d)). fold (ne_labels d). rewrite ne_labels_nn. reflexivity.
Qed.

(* ------------------------------------------------------------------ wildcard owners *)
Lemma is_wild_spec : forall d, is_wild d = true -> d = 42 :: 46 :: skipn 2 d.
Proof.
  intros d H. destruct d as [|a [|b t]]; try discriminate H. cbn [is_wild] in H.
  apply andb_true_iff in H. destruct H as [H1 H2]. apply N.eqb_eq in H1, H2. subst. reflexivity.
Qed.

Lemma bquote_star : bquote pr [42] = [42].
Proof. reflexivity. Qed.

Lemma getdom_wildtext : forall w d, wf_name d -> wild_okb o w d = true ->
  getdom (wildtext o w d) = (nn d, w).
Proof.
  intros w d H K. unfold wildtext, getdom. rewrite putdomtext_eq by assumption.
  destruct w.
  - change ([42; 46] ++ bquote pr (nn d)) with (bquote pr [42] ++ 46 :: bquote pr (nn d)).
    rewrite <- bquote_app46. rewrite unq_bquote.
    + reflexivity.
    + constructor; [lia|]. constructor; [lia|]. apply nn_wf, H.
  - cbn [app]. rewrite unq_bquote by (apply nn_wf, H).
    unfold wild_okb in K. cbn [orb] in K. rewrite normname_eq in K by assumption.
    destruct (is_wild (nn d)); [discriminate K|reflexivity].
Qed.

Lemma wildtext_nosep : forall w d, wf_name d -> nocomma (wildtext o w d) /\ nocolon (wildtext o w d).
Proof.
  intros w d H. destruct (putdomtext_nosep d H) as [A B]. unfold wildtext. destruct w; cbn [app].
  - split; [apply (nocomma_app [42; 46])|apply (nocolon_app [42; 46])]; try assumption; reflexivity.
  - split; assumption.
Qed.

Lemma wildtext_nn : forall w d, wf_name d -> wildtext o w (nn d) = wildtext o w d.
Proof. intros. unfold wildtext. rewrite text_nn by assumption. reflexivity. Qed.

Lemma wild_ok_nn : forall w d, wf_name d -> wild_okb o w d = true -> wild_okb o w (nn d) = true.
Proof.
  intros w d H K. unfold wild_okb in *. destruct w; [reflexivity|]. cbn [orb] in *.
  rewrite normname_eq in * by (try apply nn_wf_name; assumption). rewrite nn_idem. assumption.
Qed.

(* map owners: the "*." prefix is tested on the name itself *)
Lemma skipn2_nn_wild : forall d, is_wild d = true -> is_wild (nn d) = true ->
  ne_labels (skipn 2 (nn d)) = ne_labels (skipn 2 d).
Proof.
  intros d H1 H2. pose proof (ne_labels_nn d) as E.
  rewrite (is_wild_spec _ H1) in E at 2. rewrite (is_wild_spec _ H2) in E at 1.
  unfold ne_labels in E.
  pose proof (labels_cons [42] (skipn 2 (nn d)) eq_refl) as A1. cbn [app] in A1.
  pose proof (labels_cons [42] (skipn 2 d) eq_refl) as A2. cbn [app] in A2.
  rewrite A1, A2 in E. cbn [filter nonempty] in E. unfold ne_labels. congruence.
Qed.

End Names.

Section Lower.

(* toLowerASCII: compositional at '.', adds no '.' *)
Lemma ascii_lower_46 : forall c, c <> 46 -> ascii_lower c <> 46.
Proof. intros c H. unfold ascii_lower. destruct ((65 <=? c) && (c <=? 90)) eqn:E; lia. Qed.

Lemma Hlow_dot : forall a b, to_lower (a ++ 46 :: b) = to_lower a ++ 46 :: to_lower b.
Proof. intros. unfold to_lower. rewrite map_app. reflexivity. Qed.

Lemma Hlow_nodot : forall a, nodot a -> nodot (to_lower a).
Proof.
  intros a H. apply nodot_Forall. apply nodot_Forall in H. unfold to_lower. apply Forall_map.
  eapply Forall_impl; [|exact H]. intros c Hc. apply ascii_lower_46. exact Hc.
Qed.

Lemma lower_joinb : forall ls, to_lower (joinb 46 ls) = joinb 46 (map to_lower ls).
Proof.
  induction ls as [|x t IH]; [reflexivity|]. destruct t as [|y t']; [reflexivity|].
  change (joinb 46 (x :: y :: t')) with (x ++ 46 :: joinb 46 (y :: t')).
  rewrite Hlow_dot, IH. reflexivity.
Qed.

Lemma labels_lower : forall d, labels (to_lower d) = map to_lower (labels d).
Proof.
  intros d. rewrite <- (join_labels d) at 1. rewrite lower_joinb. apply labels_join.
  - pose proof (labels_ne d). destruct (labels d); [congruence|discriminate].
  - apply Forall_map. eapply Forall_impl; [|apply labels_nodot]. intros a Ha. apply Hlow_nodot. assumption.
Qed.

Lemma flat_map_map : forall {A B C} (f : A -> B) (g : B -> list C) l, flat_map g (map f l) = flat_map (fun x => g (f x)) l.
Proof. induction l; [reflexivity|]. cbn [map flat_map]. rewrite IHl. reflexivity. Qed.

Lemma putdom_lower_nn : forall d, putdom (to_lower (nn d)) = putdom (to_lower d).
Proof.
  intros d. unfold putdom. fold (labels (to_lower (nn d))). fold (labels (to_lower d)).
  rewrite !labels_lower, !flat_map_map.
  rewrite <- (flat_map_ne _ (labels (nn d))) by reflexivity.
  rewrite <- (flat_map_ne _ (labels d)) by reflexivity.
  fold (ne_labels (nn d)). fold (ne_labels d). rewrite ne_labels_nn. reflexivity.
Qed.

Lemma putrevdom_lower_nn : forall d, putrevdom (to_lower (nn d)) = putrevdom (to_lower d).
Proof.
  intros d. unfold putrevdom. fold (labels (to_lower (nn d))). fold (labels (to_lower d)).
  rewrite !labels_lower, <- !map_rev, !flat_map_map.
  rewrite <- (flat_map_rev_ne _ (labels (nn d))) by reflexivity.
  rewrite <- (flat_map_rev_ne _ (labels d)) by reflexivity.
  fold (ne_labels (nn d)). fold (ne_labels d). rewrite ne_labels_nn. reflexivity.
Qed.

Lemma key_nn : forall v2 d lo, domainkey v2 (nn d) lo = domainkey v2 d lo.
Proof. intros. unfold domainkey. rewrite putdom_lower_nn, putrevdom_lower_nn. reflexivity. Qed.

Lemma putdom_lower_ne : forall x y, ne_labels x = ne_labels y -> putdom (to_lower x) = putdom (to_lower y).
Proof.
  intros x y E. unfold putdom. fold (labels (to_lower x)). fold (labels (to_lower y)).
  rewrite !labels_lower, !flat_map_map.
  rewrite <- (flat_map_ne _ (labels x)) by reflexivity.
  rewrite <- (flat_map_ne _ (labels y)) by reflexivity.
  fold (ne_labels x). fold (ne_labels y). rewrite E. reflexivity.
Qed.

Lemma putrevdom_lower_ne : forall x y, ne_labels x = ne_labels y -> putrevdom (to_lower x) = putrevdom (to_lower y).
Proof.
  intros x y E. unfold putrevdom. fold (labels (to_lower x)). fold (labels (to_lower y)).
  rewrite !labels_lower, <- !map_rev, !flat_map_map.
  rewrite <- (flat_map_rev_ne _ (labels x)) by reflexivity.
  rewrite <- (flat_map_rev_ne _ (labels y)) by reflexivity.
  fold (ne_labels x). fold (ne_labels y). rewrite E. reflexivity.
Qed.

Lemma mapkey_nn : forall v2 m d, is_wild (nn d) = is_wild d -> mapkey v2 m (nn d) = mapkey v2 m d.
Proof.
  intros v2 m d E. unfold mapkey. rewrite E. destruct (is_wild d) eqn:W.
  - rewrite (putdom_lower_ne _ _ (skipn2_nn_wild d W E)), (putrevdom_lower_ne _ _ (skipn2_nn_wild d W E)). reflexivity.
  - rewrite putdom_lower_nn, putrevdom_lower_nn. reflexivity.
Qed.

End Lower.
