(* Proofs/CdbFind: the reader ([find_loop], [find], [next_all] of Model/Cdb.v) on a table
   that satisfies the writer invariant of Proofs/CdbTable.v returns the matching
   entries of the table in insertion order, then EOF. *)
From DnsV Require Import Base.Bytes Model.Cdb Proofs.CdbTable.
From Coq Require Import Lia ZifyN ZifyNat ZifyBool Sorted.
Open Scope N_scope.

Section Find.
Variable H : bytes -> N.
Variable img : image.
Variable key : bytes.
Variable T : list slot.
Variable E : list slot.
Variable m : nat.
Let h := H key.
Let i := h mod 256.
Hypothesis m_pos : (0 < m)%nat.
Hypothesis m_32 : N.of_nat m < 4294967296.
Hypothesis HT : tab_at img i = T.
Hypothesis HI : Inv m T E.
Hypothesis Hnz : Forall (fun a => snd a <> 0) E.
Hypothesis Hrec : forall e, In e E -> exists p, rec_at (irecs img) (snd e) = Some p.

Definition mt (e : slot) : bool :=
  (fst e =? h) && match rec_at (irecs img) (snd e) with
                  | Some (k', _) => (blen k' =? blen key) && bytes_eqb key k'
                  | None => false
                  end.
Definition val (e : slot) : bytes :=
  match rec_at (irecs img) (snd e) with Some (_, v) => v | None => [] end.

Let s : nat := N.to_nat ((h / 256) mod N.of_nat m).
Definition slotd (x : nat) : slot := sl T (cpos m s x).

Lemma s_lt : (s < m)%nat.
Proof. unfold s. assert (N.of_nat m <> 0) by lia. pose proof (N.mod_lt (h / 256) _ H0). lia. Qed.

Lemma mt_st : forall e, mt e = true -> st m e = s.
Proof.
  unfold mt, st, s. intros e He. apply andb_true_iff in He. destruct He as [He _].
  apply N.eqb_eq in He. rewrite He. reflexivity.
Qed.

(* number of consecutive occupied slots from distance j on, at most rem *)
Fixpoint run (j : nat) (rem : nat) : nat :=
  match rem with
  | O => O
  | S r => if snd (slotd j) =? 0 then O else S (run (S j) r)
  end.
Definition scan (j rem : nat) : list slot := map slotd (seq j (run j rem)).

Lemma scan_S : forall j r,
  scan j (S r) = if snd (slotd j) =? 0 then [] else slotd j :: scan (S j) r.
Proof. intros. unfold scan. simpl. destruct (snd (slotd j) =? 0); reflexivity. Qed.

Lemma run_le : forall r j, (run j r <= r)%nat.
Proof. induction r; simpl; intros. lia. destruct (snd (slotd j) =? 0). lia. specialize (IHr (S j)). lia. Qed.

Lemma run_occ : forall r j x, (j <= x)%nat -> (x < j + run j r)%nat -> snd (slotd x) <> 0.
Proof.
  induction r; simpl; intros j x H1 H2. lia.
  destruct (N.eqb_spec (snd (slotd j)) 0). lia.
  destruct (Nat.eqb_spec x j). subst; auto.
  apply (IHr (S j)); lia.
Qed.

Lemma run_stop : forall r j, (run j r < r)%nat -> snd (slotd (j + run j r)) = 0.
Proof.
  induction r; simpl; intros j Hr. lia.
  destruct (N.eqb_spec (snd (slotd j)) 0).
  - rewrite Nat.add_0_r. auto.
  - replace (j + S (run (S j) r))%nat with (S j + run (S j) r)%nat by lia. apply IHr. lia.
Qed.

Definition ctx_at (j : nat) : ctx := mkCtx (N.of_nat j) h (N.of_nat (cpos m s j)) i (N.of_nat m).

Lemma slotd_in : forall x, (x <= m)%nat -> snd (slotd x) <> 0 -> In (slotd x) E.
Proof.
  intros. apply (inv_in m T E HI). apply cpos_lt; auto using s_lt. exact H1.
Qed.

Lemma find_loop_step : forall j r, (j < m)%nat ->
  find_loop img key (ctx_at j) (S r) =
    if snd (slotd j) =? 0 then (Eof, ctx_at j)
    else if mt (slotd j) then (Found (val (slotd j)), ctx_at (S j))
         else find_loop img key (ctx_at (S j)) r.
Proof.
  intros j r Hj. cbn [find_loop].
  change (c_tab (ctx_at j)) with i. rewrite HT.
  change (c_kpos (ctx_at j)) with (N.of_nat (cpos m s j)).
  rewrite slot_at_sl. rewrite Nat2N.id. fold (slotd j).
  assert (Hc : mkCtx (c_loop (ctx_at j) + 1) (c_khash (ctx_at j))
                 (if N.of_nat (cpos m s j) + 1 =? c_hslots (ctx_at j) then 0 else N.of_nat (cpos m s j) + 1)
                 i (c_hslots (ctx_at j)) = ctx_at (S j)).
  { unfold ctx_at. simpl. f_equal; try lia.
    rewrite (cpos_S m s j) by (auto using s_lt).
    destruct (N.eqb_spec (N.of_nat (cpos m s j) + 1) (N.of_nat m));
      destruct (Nat.eqb_spec (cpos m s j + 1) m); lia. }
  destruct (slotd j) as [h' pos] eqn:Es. simpl snd.
  destruct (N.eqb_spec pos 0); auto.
  rewrite Hc.
  unfold mt, val. simpl fst. simpl snd. change (c_khash (ctx_at j)) with h.
  destruct (N.eqb_spec h' h); simpl; auto.
  destruct (rec_at (irecs img) pos) as [[k' v]|] eqn:Er.
  - destruct ((blen k' =? blen key) && bytes_eqb key k'); auto.
  - exfalso. assert (In (slotd j) E).
    { apply slotd_in. lia. rewrite Es. auto. }
    destruct (Hrec _ H0) as [p Hp]. rewrite Es in Hp. simpl in Hp. congruence.
Qed.

Lemma find_loop_spec : forall r j, (j + r = m)%nat ->
  (filter mt (scan j r) = [] /\ exists c', find_loop img key (ctx_at j) r = (Eof, c')) \/
  (exists e rest j', filter mt (scan j r) = e :: rest /\
                     find_loop img key (ctx_at j) r = (Found (val e), ctx_at j') /\
                     (j < j')%nat /\ (j' <= m)%nat /\ filter mt (scan j' (m - j')) = rest).
Proof.
  induction r; intros j Hj.
  - left. split; auto. simpl. eauto.
  - rewrite find_loop_step by lia. rewrite scan_S.
    destruct (snd (slotd j) =? 0).
    + left. split; auto. eauto.
    + simpl filter. destruct (mt (slotd j)) eqn:Em.
      * right. exists (slotd j), (filter mt (scan (S j) r)), (S j).
        repeat split; auto; try lia. replace (m - S j)%nat with r by lia. auto.
      * destruct (IHr (S j) ltac:(lia)) as [[H1 H2]|[e [rest [j' [H1 [H2 [H3 [H4 H5]]]]]]]].
        -- left. auto.
        -- right. exists e, rest, j'. repeat split; auto; lia.
Qed.

Lemma find_is_loop : forall j c, (j <= m)%nat ->
  (c = ctx_at j /\ (0 < j)%nat) \/ (j = 0%nat /\ c_loop c = 0) ->
  find H img key c = find_loop img key (ctx_at j) (m - j).
Proof.
  intros j c Hj [[-> Hp]|[-> Hl]]; unfold find.
  - change (c_loop (ctx_at j)) with (N.of_nat j).
    destruct (N.eqb_spec (N.of_nat j) 0); try lia.
    change (c_hslots (ctx_at j)) with (N.of_nat m).
    replace (N.to_nat (N.of_nat m - N.of_nat j)) with (m - j)%nat by lia. auto.
  - rewrite Hl. simpl. fold h. fold i. rewrite HT.
    assert (nlen T = N.of_nat m) by (unfold nlen; rewrite (inv_len m T E HI); auto).
    rewrite H0. destruct (N.eqb_spec (N.of_nat m) 0); try lia.
    rewrite Nat2N.id. rewrite Nat.sub_0_r.
    f_equal. unfold ctx_at. f_equal. rewrite cpos_0 by apply s_lt. unfold s. rewrite N2Nat.id. auto.
Qed.

Lemma next_all_spec : forall fuel j c, (j <= m)%nat ->
  (c = ctx_at j /\ (0 < j)%nat) \/ (j = 0%nat /\ c_loop c = 0) ->
  (length (filter mt (scan j (m - j))) < fuel)%nat ->
  next_all H img key c fuel = Ok (map val (filter mt (scan j (m - j)))).
Proof.
  induction fuel; intros j c Hj Hc Hf. lia.
  simpl next_all. rewrite (find_is_loop j c Hj Hc).
  destruct (find_loop_spec (m - j) j ltac:(lia)) as [[H1 [c' H2]]|[e [rest [j' [H1 [H2 [H3 [H4 H5]]]]]]]].
  - rewrite H2, H1. auto.
  - rewrite H2, H1. rewrite H1 in Hf. simpl in Hf.
    rewrite (IHfuel j' (ctx_at j')); auto; try lia.
    + rewrite H5. simpl. auto.
    + left. split; auto. lia.
    + rewrite H5. lia.
Qed.

(* the scan from the start slot sees exactly the matching entries, in insertion order *)
Let R (a b : slot) : Prop := forall d d', at_dist m T s a d -> at_dist m T s b d' -> (d < d')%nat.

Lemma slotd_at : forall x, (x < run 0 m)%nat -> at_dist m T s (slotd x) x.
Proof.
  intros x Hx. pose proof (run_le m 0). split; [lia|]. split; auto.
  intros j Hj. unfold occ. fold (slotd j). apply (run_occ m 0); lia.
Qed.

Lemma scan_matches : filter mt (scan 0 m) = filter mt E.
Proof.
  pose proof s_lt as Hs.
  assert (Huniq : forall x d, (x < run 0 m)%nat -> at_dist m T s (slotd x) d -> d = x).
  { intros x d Hx Hd. apply (at_dist_unique m m_pos m_32 T E s (slotd x)); auto.
    - apply (run_occ m 0); lia.
    - apply slotd_at; auto. }
  apply (sorted_unique R).
  - intros a Ha Hr. apply filter_In in Ha. destruct Ha as [Ha _].
    unfold scan in Ha. apply in_map_iff in Ha. destruct Ha as [x [<- Hx]]. apply in_seq in Hx.
    specialize (Hr x x (slotd_at x ltac:(lia)) (slotd_at x ltac:(lia))). lia.
  - intros a b Ha Hb Hab Hba.
    apply filter_In in Ha. destruct Ha as [Ha _]. apply filter_In in Hb. destruct Hb as [Hb _].
    unfold scan in Ha, Hb. apply in_map_iff in Ha, Hb.
    destruct Ha as [x [<- Hx]]. destruct Hb as [y [<- Hy]]. apply in_seq in Hx, Hy.
    specialize (Hab x y (slotd_at x ltac:(lia)) (slotd_at y ltac:(lia))).
    specialize (Hba y x (slotd_at y ltac:(lia)) (slotd_at x ltac:(lia))). lia.
  - apply StronglySorted_filter. unfold scan. apply StronglySorted_map_seq.
    intros x y Hx Hxy Hy d d' Hd Hd'.
    rewrite (Huniq x d) by (auto; lia). rewrite (Huniq y d') by (auto; lia). auto.
  - assert (S1 : StronglySorted (fun e e' => st m e = st m e' ->
                 forall d d', at_dist m T (st m e) e d -> at_dist m T (st m e') e' d' -> (d < d')%nat)
                 (filter mt E)).
    { apply StronglySorted_filter. apply (inv_order m T E HI). }
    revert S1. apply StronglySorted_weaken.
    intros a b Ha Hb Hab d d' Hd Hd'.
    apply filter_In in Ha, Hb. destruct Ha as [_ Ha]. destruct Hb as [_ Hb].
    apply mt_st in Ha, Hb. apply Hab; congruence.
  - intros x. rewrite !filter_In. split; intros [Hx Hm]; split; auto.
    + unfold scan in Hx. apply in_map_iff in Hx. destruct Hx as [y [<- Hy]]. apply in_seq in Hy.
      pose proof (run_le m 0). apply slotd_in. lia. apply (run_occ m 0); lia.
    + destruct (inv_dist m T E HI x Hx) as [d Hd]. rewrite (mt_st x Hm) in Hd.
      assert (Hxnz : snd x <> 0) by (rewrite Forall_forall in Hnz; auto).
      assert (Hlt : (d < run 0 m)%nat).
      { destruct (Nat.ltb_spec d (run 0 m)); auto. exfalso.
        destruct Hd as [H1 [H2 H3]].
        assert (Hr : (run 0 m < m)%nat) by lia.
        pose proof (run_stop m 0 Hr) as Hz. simpl in Hz.
        destruct (Nat.eqb_spec d (run 0 m)).
        - subst d. unfold slotd in Hz. rewrite H2 in Hz. auto.
        - specialize (H3 (run 0 m) ltac:(lia)). apply H3. exact Hz. }
      destruct Hd as [H1 [H2 H3]].
      unfold scan. apply in_map_iff. exists d. split; auto. apply in_seq. lia.
Qed.

(* FindStart on any context, then FindNext until EOF *)
Theorem find_all_table : forall c fuel, c_loop c = 0 -> (length (filter mt E) < fuel)%nat ->
  next_all H img key c fuel = Ok (map val (filter mt E)).
Proof.
  intros c fuel Hc Hf. rewrite <- scan_matches in *.
  pose proof (next_all_spec fuel 0%nat c ltac:(lia) (or_intror (conj eq_refl Hc))) as Hn.
  rewrite Nat.sub_0_r in Hn. apply Hn. exact Hf.
Qed.

End Find.
