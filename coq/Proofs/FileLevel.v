(* FileLevel (C01 end to end): from the TEXT of a data file to the served responses.

     lines f --parse_line (C09)--> records --convert (C09 codec)--> key/value pairs
       --compiler pipeline (C07: builder / batches / CDB stream, any schedule)--> database
       --dump--> store --serve (C01 / C02 readers)--> response   ~   spec_response (declared records of f)

   Composition of: C07 losslessness (the database holds, under every key, the multiset of values the
   line-by-line codec emits), Proofs/DeclaredLink (the codec's pairs of a line are the rows Spec/Rows
   prescribes for the records the line DECLARES, or auxiliary keys), Proofs/SpecPerm.reorder (an order
   of the declared records in which the store holds them row for row), Proofs/ReadsNames (the v1 reader
   reads name keys only) resp. C02's v2_store (the v2 reader tolerates foreign keys), and
   C01_response_is_spec / C02_v2_equals_v1_any_store. *)
From DnsV Require Import Model.Compile Spec.MapOfLists Proofs.MultiValue Proofs.MapOfLists Proofs.Batch Proofs.CompilePipe.
From DnsV Require Import Model.Text Model.Preproc.
From DnsV Require Import Model.Store Model.LookupV1 Model.LookupV2 Model.Serve Spec.Answer Spec.Rows Spec.AnswerExtra Spec.Declared.
From DnsV Require Import Proofs.Answer Proofs.Compile Proofs.ZoneCut Proofs.Referral Proofs.SoaAuth Proofs.AnswerItems Proofs.AuthSections.
From DnsV Require Import Proofs.Ctx Proofs.RevOrder Proofs.SeekSkip Proofs.V2Store Proofs.V2Serve.
From DnsV Require Import Proofs.DeclaredLink Proofs.DeclaredWf Proofs.ReadsNames Proofs.SpecPerm.
From Coq Require Import Permutation ZifyN ZifyNat ZifyBool.
Open Scope N_scope.

(* ---------------------------------------------------------------- the statement *)
(* what C01_response_is_spec concludes about a reply x to query q (lower-cased name n) from a client
   in location L, for declared records recs *)
Definition response_refines (L : bytes) (recs : list Answer.record) (n : name) (q : query)
           (ecs : option ecsval) (max : N) (x : response) : Prop :=
  rs_id x = q_id q /\ rs_question x = question_of q /\
  match spec_response L recs n (q_type q) with
  | Refused =>
      rs_rcode x = 5 /\ rs_aa x = false /\ rs_an x = [] /\ rs_ns x = [] /\ rs_ex x = [] /\ rs_opt x = opt_of q ecs
  | Referral z nsr =>
      q_type q <> 43 ->
      rs_rcode x = 0 /\ rs_aa x = false /\ rs_an x = [] /\
      (exists ord, Permutation ord nsr /\ rs_ns x = map (ns_item (pack z) (q_class q)) ord) /\
      extras_sound recs L (q_class q) (rs_an x) (rs_ns x) (rs_ex x) /\ rs_opt x = opt_of q ecs
  | Answer z nx ans soa =>
      rs_rcode x = (if nx then 3 else 0) /\ rs_aa x = true /\
      (exists ord, Permutation ord ans /\ rs_an x = answer_items (q_name q) max ord) /\
      (if item_count (rs_an x) =? 0 then exists r, In r soa /\ rs_ns x = [soa_item (pack z) r] else rs_ns x = []) /\
      extras_sound recs L (q_class q) (rs_an x) (rs_ns x) (rs_ex x) /\ rs_opt x = opt_of q ecs
  end.

Lemma response_refines_perm : forall L recs recs' n q ecs max x, Permutation recs recs' ->
  response_refines L recs' n q ecs max x -> response_refines L recs n q ecs max x.
Proof.
  intros L recs recs' n q ecs max x P (H1 & H2 & H3). split; [exact H1|]. split; [exact H2|].
  exact (response_clause_perm L recs recs' P n q ecs max x H3).
Qed.

(* ---------------------------------------------------------------- key families *)
(* every key of a dnsrocks database that is not the key of an owner name: client subnets \000%,
   maps \000M \0008, range points \000\000\000!, prefix sets \000/ \0004 \0006, features \000o_features *)
Definition foreign_keyb (k : bytes) : bool :=
  is_prefix [0; 37] k || is_prefix [0; 77] k || is_prefix [0; 56] k || is_prefix [0; 0; 0; 33] k ||
  is_prefix [0; 47] k || is_prefix [0; 52] k || is_prefix [0; 54] k || is_prefix [0; 111; 95] k.

Lemma aux_foreign : forall k, aux_keyb k = true -> foreign_keyb k = true.
Proof.
  intros k H. unfold aux_keyb in H. unfold foreign_keyb.
  destruct (is_prefix [0; 37] k), (is_prefix [0; 77] k), (is_prefix [0; 56] k), (is_prefix [0; 0; 0; 33] k);
    cbn in *; try reflexivity; discriminate.
Qed.

(* the client locations for which no v1 name key L ++ name can fall into a foreign family: the
   second-level marker bytes are excluded.  \000% is a real collision ([loc_guard_needed] below): the
   short key of the subnet line %lo,0.0.0.0/8,\001x is \000% \001 x \000 = \000% ++ the packed name x. ,
   so for a client whose location id were \000% the label-by-label reader would take the subnet's
   value for a row of the name x.  The map keys \000M / \0008 ++ name ++ = or * cannot collide (packed
   names are prefix free) and \000/ \0004 \0006 \000o_features cannot either (too short / a label
   length 95); they are excluded to keep the proof to a comparison of two bytes. *)
Definition loc_okb (L : bytes) : bool :=
  match L with
  | [a; b] => negb ((a =? 0) && existsb (N.eqb b) [37; 77; 56; 47; 52; 54; 111])
  | _ => false
  end.

Lemma pname_head : forall z, pname z -> z = [0] \/ exists c t, z = c :: t /\ 1 <= c <= 63.
Proof.
  intros z (t & Ht & _ & ->). destruct t as [|l p]; [left; reflexivity|]. right.
  inversion Ht as [|? ? Hl _]; subst. unfold lab_ok in Hl. rewrite pack_cons. cbn [app]. eauto.
Qed.

Lemma probed_not_foreign : forall L z, loc_okb L = true -> pname z ->
  foreign_keyb (L ++ z) = false /\ foreign_keyb (loc0 ++ z) = false.
Proof.
  intros L z HL Hz. destruct L as [|a [|b [|]]]; try discriminate HL. unfold loc_okb in HL.
  assert (Hab : a <> 0 \/ (b <> 37 /\ b <> 77 /\ b <> 56 /\ b <> 47 /\ b <> 52 /\ b <> 54 /\ b <> 111)).
  { cbn [existsb] in HL. lia. }
  clear HL. unfold foreign_keyb, loc0. cbn [app].
  destruct (pname_head z Hz) as [->|(c & t & -> & Hc)]; cbn [is_prefix]; split; try reflexivity.
  - destruct Hab as [Ha|Hb]; lia.
  - destruct (is_prefix [33] t); destruct Hab as [Ha|Hb]; lia.
  - destruct (is_prefix [33] t); lia.
Qed.

(* v2: the foreign families are foreign in C02's sense, name keys are not *)
Lemma foreign_v2 : forall k, foreign_keyb k = true -> foreign k.
Proof.
  intros k H. unfold foreign, marker.
  destruct (is_prefix [0; 111] k) eqn:E; [|left; reflexivity]. right.
  destruct k as [|k0 [|k1 t]]; [discriminate E | cbn [is_prefix] in E; rewrite andb_false_r in E; discriminate E |]. cbn [is_prefix] in E.
  apply andb_true_iff in E as [E0 E1]. apply andb_true_iff in E1 as [E1 _].
  apply N.eqb_eq in E0, E1. subst k0 k1.
  destruct t as [|c t']; [cbn in H; discriminate H|].
  assert (E : c = 95).
  { unfold foreign_keyb in H. cbn [is_prefix] in H. destruct (is_prefix [33] t'); lia. }
  subst c. exists 95, t'. split; [reflexivity | lia].
Qed.
Lemma bkey_not_foreign : forall y ly, name_ok y -> foreign_keyb (bkey y ly) = false.
Proof.
  intros y ly Hy. unfold bkey, marker, foreign_keyb.
  destruct y as [|l p]; cbn [Reverse.body flat_map app is_prefix]; [reflexivity|].
  inversion Hy as [|? ? Hl _]; subst. unfold lab_ok in Hl.
  destruct (is_prefix [33] (l ++ Reverse.body p ++ 0 :: ly)); lia.
Qed.

(* ---------------------------------------------------------------- the codec of C07, instantiated *)
Section File.
Variable o : toracles.
Variable serial : N.
Variable nornet : bool.          (* Codec.NoRnetOutput *)
Variable v2 : bool.              (* Codec.Features.UseV2Keys *)
Variable accum : list bytes -> list (bytes * bytes).    (* Codec.Acc.MarshalMap: prefix sets, range points *)
Variable feature : list (bytes * bytes).                (* Codec.Features.MarshalMap *)

(* Codec.ConvertLn: DecodeLn, then MarshalMap *)
Definition conv_line (l : bytes) : result (list (bytes * bytes)) :=
  rbind (parse_line o serial l) (fun r => Ok (convert v2 nornet r)).

(* well-formed data file: every line parses and its record passes the DNS-side guard of Spec/Declared *)
Definition wf_line_dns (l : bytes) : bool :=
  match parse_line o serial l with Ok r => dns_okb r | Err _ => false end.
Definition wf_file (f : list bytes) : bool := forallb wf_line_dns f.

Definition parsed (f : list bytes) : list Text.record :=
  flat_map (fun l => match parse_line o serial l with Ok r => [r] | Err _ => [] end) f.
(* the declared records of the file, in file order *)
Definition declared_file (f : list bytes) : list Answer.record := flat_map declared (parsed f).

(* the accumulator's and the feature records sit under foreign keys *)
Definition side_ok (f : list bytes) : Prop :=
  Forall (fun kv => foreign_keyb (fst kv) = true) (accum f ++ feature).

Lemma wf_file_accepted : forall f, wf_file f = true -> accepted bytes conv_line f = true.
Proof.
  intros f H. unfold accepted, wf_file in *. rewrite forallb_forall in *. intros l Hl. specialize (H l Hl).
  unfold accepts, conv_line, wf_line_dns in *. destruct (parse_line o serial l); [reflexivity | discriminate].
Qed.

Lemma wf_file_parsed : forall f, wf_file f = true -> Forall (fun r => dns_okb r = true) (parsed f).
Proof.
  induction f as [|l t IH]; intros H; [constructor|]. cbn [wf_file forallb] in H. apply andb_true_iff in H as [H1 H2].
  unfold parsed. cbn [flat_map]. unfold wf_line_dns in H1. destruct (parse_line o serial l) as [r|e]; [|discriminate].
  cbn [app]. constructor; [exact H1 | apply IH; exact H2].
Qed.

Lemma vals_of_foreign_nil : forall k l, foreign_keyb k = false ->
  Forall (fun kv : bytes * bytes => foreign_keyb (fst kv) = true) l -> vals_of k l = [].
Proof.
  intros k l Hk H. induction H as [|[k0 v0] t H0 Ht IH]; [reflexivity|]. rewrite vals_of_cons.
  destruct (bytes_eqb k0 k) eqn:E; [|exact IH]. apply Proofs.Compile.bytes_eqb_eq in E. subst k0. cbn [fst] in H0. congruence.
Qed.

Lemma declared_file_cons : forall l t r, parse_line o serial l = Ok r ->
  declared_file (l :: t) = declared r ++ declared_file t.
Proof. intros l t r E. unfold declared_file, parsed. cbn [flat_map]. rewrite E. reflexivity. Qed.
Lemma recs_of_line : forall l r, parse_line o serial l = Ok r -> recs_of bytes conv_line l = convert v2 nornet r.
Proof. intros l r E. unfold recs_of, conv_line. rewrite E. reflexivity. Qed.

(* under a key that is not foreign, the codec's pairs of the file are the rows of its declared records *)
Lemma line_vals : forall f k, wf_file f = true -> foreign_keyb k = false ->
  vals_of k (flat_map (recs_of bytes conv_line) f) = vals_of k (rows_of v2 (declared_file f)).
Proof.
  induction f as [|l t IH]; intros k H Hk; [rewrite rows_of_nil; reflexivity|].
  cbn [wf_file forallb] in H. apply andb_true_iff in H as [H1 H2]. unfold wf_line_dns in H1.
  destruct (parse_line o serial l) as [r|e] eqn:E; [|discriminate].
  rewrite (declared_file_cons l t r E). cbn [flat_map]. rewrite (recs_of_line l r E).
  rewrite rows_of_app, !vals_of_app. f_equal; [|apply IH; assumption].
  destruct (convert_rows_or_aux v2 nornet r H1) as [E0|[E1 E2]]; [rewrite E0; reflexivity|].
  rewrite E1, rows_of_nil. apply vals_of_foreign_nil; [exact Hk|].
  apply Forall_forall. intros kv Hin. rewrite forallb_forall in E2. apply aux_foreign. apply E2. exact Hin.
Qed.

Lemma spec_compile_names : forall f k, wf_file f = true -> side_ok f -> foreign_keyb k = false ->
  spec_compile bytes conv_line accum feature f k = vals_of k (rows_of v2 (declared_file f)).
Proof.
  intros f k H S Hk. unfold spec_compile, records. rewrite vals_of_app, (line_vals f k H Hk).
  rewrite (vals_of_foreign_nil k (accum f ++ feature) Hk S). apply app_nil_r.
Qed.

(* every pair the codec emits is a row of a declared record or sits under a foreign key *)
Lemma records_keys : forall f kv, wf_file f = true -> side_ok f ->
  In kv (records bytes conv_line accum feature f) ->
  In kv (rows_of v2 (declared_file f)) \/ foreign_keyb (fst kv) = true.
Proof.
  intros f kv H S Hin. unfold records in Hin. apply in_app_or in Hin as [Hin|Hin].
  2:{ right. unfold side_ok in S. rewrite Forall_forall in S. apply S. exact Hin. }
  clear S. revert H Hin. induction f as [|l t IH]; intros H Hin; [destruct Hin|].
  cbn [wf_file forallb] in H. apply andb_true_iff in H as [H1 H2]. unfold wf_line_dns in H1.
  destruct (parse_line o serial l) as [r|e] eqn:E; [|discriminate].
  rewrite (declared_file_cons l t r E), rows_of_app. cbn [flat_map] in Hin. rewrite (recs_of_line l r E) in Hin.
  apply in_app_or in Hin as [Hin|Hin].
  - destruct (convert_rows_or_aux v2 nornet r H1) as [E0|[E1 E2]].
    + left. apply in_or_app. left. rewrite <- E0. exact Hin.
    + right. rewrite forallb_forall in E2. apply aux_foreign, E2. exact Hin.
  - destruct (IH H2 Hin) as [X|X]; [|right; exact X]. left. apply in_or_app. right. exact X.
Qed.
End File.

(* ---------------------------------------------------------------- stores that hold the compiled multisets *)
Lemma loc_okb_len : forall L, loc_okb L = true -> length L = 2%nat.
Proof. intros L H. destruct L as [|a [|b [|]]]; try discriminate H. reflexivity. Qed.

Lemma rows_vals : forall k l, rows_for k l = vals_of k l.
Proof. reflexivity. Qed.

Lemma vals_of_in : forall k v (l : list (bytes * bytes)), In v (vals_of k l) -> In (k, v) l.
Proof.
  intros k v l H. unfold vals_of in H. apply in_map_iff in H as [[k' v'] [E H]]. apply filter_In in H as [H1 H2].
  cbn [fst snd] in *. apply Proofs.Compile.bytes_eqb_eq in H2. subst. exact H1.
Qed.

Section Core.
Variable o : toracles.
Variable serial : N.
Variable nornet : bool.
Variable accum : list bytes -> list (bytes * bytes).
Variable feature : list (bytes * bytes).
Variable f : list bytes.
Hypothesis WF : wf_file o serial f = true.
Hypothesis SIDE : side_ok accum feature f.
Let recs := declared_file o serial f.

Lemma recs_wf : wf_recs recs /\ Forall wf_ns_rdata recs.
Proof. apply declared_file_wf. apply wf_file_parsed. exact WF. Qed.

(* the label-by-label reader (CDB, RocksDB v1 keys) over ANY store that holds, under every key, the
   multiset of values the v1 codec emits for the file *)
Theorem file_store_v1 : forall b (st : Model.Store.store) L,
  (forall k, Permutation (get st k) (spec_compile bytes (conv_line o serial nornet false) accum feature f k)) ->
  b <> RDB2 -> loc_okb L = true -> wf_view L recs = true ->
  forall q n ecs max x, wf_name n -> nlen (pack n) <= 255 -> lower_bytes (q_name q) = pack n ->
  (q_edns q = None \/ q_edns q = Some 0) ->
  serve b st q (LocOk L) ecs max = OReply x -> response_refines L recs n q ecs max x.
Proof.
  intros b st L H Hb HLk V q n ecs max x Hn Hlen Hq He Hs.
  destruct recs_wf as [W Wn]. pose proof (loc_okb_len L HLk) as HL.
  destruct (reorder key_v1 (fun k => negb (foreign_keyb k)) recs (get st)) as (recs' & P & G).
  { intros k Hk. apply negb_true_iff in Hk. eapply Permutation_trans; [apply H|].
    rewrite (spec_compile_names o serial nornet false accum feature f k WF SIDE Hk).
    fold recs. change (rows_of false recs) with (rows_of_v1 recs). rewrite <- rows_vals, rows_for_v1. apply Permutation_refl. }
  assert (A : agree_names L st (store_v1 recs')).
  { intros z Hz. destruct (probed_not_foreign L z HLk Hz) as [F1 F2].
    rewrite !get_compiled. split; apply G; apply negb_true_iff; assumption. }
  rewrite (serve_v1_reads_names b st (store_v1 recs') L q n ecs max Hb A (wf_name_ok n Hn) Hlen Hq) in Hs.
  apply (response_refines_perm L recs recs' n q ecs max x P).
  apply (response_is_spec_v1 b recs' L (wf_recs_perm _ _ P W) (wf_ns_perm _ _ P Wn) HL Hb); try assumption.
  rewrite <- (wf_view_perm L recs recs' P). exact V.
Qed.

(* the closest-key reader (RocksDB v2 keys) over ANY store that holds every key once, no key without
   values, and under every key the multiset of values the v2 codec emits for the file *)
Theorem file_store_v2 : forall (st : Model.Store.store) L,
  uniq st -> (forall k v, In (k, v) st -> v <> []) ->
  (forall k, Permutation (get st k) (spec_compile bytes (conv_line o serial nornet true) accum feature f k)) ->
  length L = 2%nat -> wf_view L recs = true ->
  forall q n ecs max x, wf_name n -> nlen (pack n) <= 255 -> lower_bytes (q_name q) = pack n ->
  (q_edns q = None \/ q_edns q = Some 0) ->
  serve RDB2 st q (LocOk L) ecs max = OReply x -> response_refines L recs n q ecs max x.
Proof.
  intros st L U NE H HL V q n ecs max x Hn Hlen Hq He Hs.
  destruct recs_wf as [W Wn].
  destruct (reorder key_v2 (fun k => negb (foreign_keyb k)) recs (get st)) as (recs' & P & G).
  { intros k Hk. apply negb_true_iff in Hk. eapply Permutation_trans; [apply H|].
    rewrite (spec_compile_names o serial nornet true accum feature f k WF SIDE Hk).
    fold recs. change (rows_of true recs) with (rows_of_v2 recs). rewrite <- rows_vals, rows_for_v2. apply Permutation_refl. }
  pose proof (wf_recs_perm _ _ P W) as W'.
  assert (V2 : v2_store recs' st).
  { split.
    - exact U.
    - intros k v Hin. pose proof (NE k v Hin) as Hv. rewrite <- (U k v Hin) in Hv.
      assert (Hsc : spec_compile bytes (conv_line o serial nornet true) accum feature f k <> []).
      { intros X. pose proof (H k) as Hp. rewrite X in Hp. apply Permutation_sym, Permutation_nil in Hp. contradiction. }
      unfold spec_compile in Hsc.
      destruct (vals_of k (records bytes (conv_line o serial nornet true) accum feature f)) as [|v' t] eqn:Ev; [contradiction|].
      assert (Hin' : In (k, v') (records bytes (conv_line o serial nornet true) accum feature f)).
      { apply vals_of_in. rewrite Ev. left. reflexivity. }
      destruct (records_keys o serial nornet true accum feature f (k, v') WF SIDE Hin') as [X|X].
      + left. fold recs in X. change (rows_of true recs) with (rows_of_v2 recs) in X. unfold rows_of_v2 in X.
        apply in_map_iff in X as [r [Er Hr]]. inversion Er; subst.
        unfold wf_recs in W. rewrite Forall_forall in W. destruct (wf_rec_owner_ok r (W r Hr)) as [Ho Hl].
        exists (rev (r_owner r)), (loc_bytes r). split; [apply name_ok_rev; exact Ho|]. split; [exact Hl | apply key_v2_bkey].
      + right. apply foreign_v2. exact X.
    - intros y ly Hy Hly. rewrite rows_for_v2. apply G. apply negb_true_iff. apply bkey_not_foreign. exact Hy. }
  pose proof (wf_view_perm L recs recs' P) as EV. rewrite EV in V.
  rewrite (serve_v2_equals_v1 recs' L st W' HL V2 V q n ecs max Hn Hlen Hq) in Hs.
  apply (response_refines_perm L recs recs' n q ecs max x P).
  apply (response_is_spec_v1 RDB1 recs' L W' (wf_ns_perm _ _ P Wn) HL ltac:(discriminate) V); assumption.
Qed.
End Core.

(* ---------------------------------------------------------------- from C07's databases to stores *)
(* a RocksDB database (C07 / C15: key -> stored bytes) as the readers see it: the list enumerates the
   keys that are present, each once, with the chunks ReadNextChunk hands out (what an iterator over
   the database yields; the order of the keys is irrelevant here) *)
Definition rdb_dump (db : Model.Batch.store) (st : Model.Store.store) : Prop :=
  NoDup (map fst st) /\ forall k v, In (k, v) st <-> (db k <> None /\ v = vals db k).

Lemma get_in_or_nil : forall (st : Model.Store.store) k,
  (exists v, In (k, v) st /\ get st k = v) \/ (get st k = [] /\ forall v, ~ In (k, v) st).
Proof.
  induction st as [|[k0 v0] t IH]; intros k; [right; split; [reflexivity | intros v []]|]. cbn [get].
  destruct (bytes_eqb k0 k) eqn:E.
  - apply Proofs.Compile.bytes_eqb_eq in E. subst k0. left. exists v0. split; [left; reflexivity | reflexivity].
  - destruct (IH k) as [(v & Hin & Hg)|(Hg & Hn)].
    + left. exists v. split; [right; exact Hin | exact Hg].
    + right. split; [exact Hg|]. intros v [X|X]; [inversion X; subst; rewrite Proofs.Compile.bytes_eqb_refl in E; discriminate | exact (Hn v X)].
Qed.

Lemma dump_store : forall db st, store_ok db -> rdb_dump db st ->
  uniq st /\ (forall k v, In (k, v) st -> v <> []) /\ (forall k, get st k = vals db k).
Proof.
  intros db st OK [ND D]. pose proof (nodup_uniq st ND) as U. split; [exact U|]. split.
  - intros k v Hin X. apply D in Hin as [Hk Ev]. subst v.
    destruct (store_ok_get db k OK) as (_ & _ & Hn). apply Hk. apply Hn. exact X.
  - intros k. destruct (get_in_or_nil st k) as [(v & Hin & Hg)|(Hg & Hn)].
    + rewrite Hg. apply D in Hin. tauto.
    + rewrite Hg. destruct (db k) as [d|] eqn:E.
      * exfalso. apply (Hn (vals db k)). apply D. split; [congruence | reflexivity].
      * symmetry. apply (abs_none db k E).
Qed.

Section Pipelines.
Variable o : toracles.
Variable serial : N.
Variable nornet : bool.
Variable accum : list bytes -> list (bytes * bytes).
Variable feature : list (bytes * bytes).
Variable f : list bytes.
Hypothesis WF : wf_file o serial f = true.
Hypothesis SIDE : side_ok accum feature f.
Let recs := declared_file o serial f.

(* RocksDB with v1 keys, compiled by the builder or in batches, any setting and schedule *)
Theorem file_level_rdb_v1 : forall db st L,
  feature <> [] -> kvs_ok (records bytes (conv_line o serial nornet false) accum feature f) ->
  rdb_compilation bytes (conv_line o serial nornet false) accum feature f db -> rdb_dump db st ->
  loc_okb L = true -> wf_view L recs = true ->
  forall q n ecs max x, wf_name n -> nlen (pack n) <= 255 -> lower_bytes (q_name q) = pack n ->
  (q_edns q = None \/ q_edns q = Some 0) ->
  serve RDB1 st q (LocOk L) ecs max = OReply x -> response_refines L recs n q ecs max x.
Proof.
  intros db st L NF KV C D HL V.
  destruct (rdb_compilation_lossless bytes (conv_line o serial nornet false) accum feature f db NF KV C) as [OK Hv].
  destruct (dump_store db st OK D) as (_ & _ & Hg).
  apply (file_store_v1 o serial nornet accum feature f WF SIDE RDB1 st L); try assumption; [|discriminate].
  intros k. rewrite Hg. apply Hv.
Qed.

(* RocksDB with v2 keys *)
Theorem file_level_rdb_v2 : forall db st L,
  feature <> [] -> kvs_ok (records bytes (conv_line o serial nornet true) accum feature f) ->
  rdb_compilation bytes (conv_line o serial nornet true) accum feature f db -> rdb_dump db st ->
  length L = 2%nat -> wf_view L recs = true ->
  forall q n ecs max x, wf_name n -> nlen (pack n) <= 255 -> lower_bytes (q_name q) = pack n ->
  (q_edns q = None \/ q_edns q = Some 0) ->
  serve RDB2 st q (LocOk L) ecs max = OReply x -> response_refines L recs n q ecs max x.
Proof.
  intros db st L NF KV C D HL V.
  destruct (rdb_compilation_lossless bytes (conv_line o serial nornet true) accum feature f db NF KV C) as [OK Hv].
  destruct (dump_store db st OK D) as (U & NE & Hg).
  apply (file_store_v2 o serial nornet accum feature f WF SIDE st L); try assumption.
  intros k. rewrite Hg. apply Hv.
Qed.

(* CDB: the Put sequence is any stream of the codec's records; the file read back gives, for a key,
   its values in stream order (C16) - [st] is any store with these rows *)
Theorem file_level_cdb : forall stream kvs st L,
  Permutation stream (records bytes (conv_line o serial nornet false) accum feature f) ->
  compile_cdb bytes (conv_line o serial nornet false) f stream = Ok kvs ->
  (forall k, get st k = vals_of k kvs) ->
  loc_okb L = true -> wf_view L recs = true ->
  forall q n ecs max x, wf_name n -> nlen (pack n) <= 255 -> lower_bytes (q_name q) = pack n ->
  (q_edns q = None \/ q_edns q = Some 0) ->
  serve CDB st q (LocOk L) ecs max = OReply x -> response_refines L recs n q ecs max x.
Proof.
  intros stream kvs st L P C Hg HL V.
  destruct (cdb_lossless bytes (conv_line o serial nornet false) accum feature f stream
              (wf_file_accepted o serial nornet false f WF) P) as [E Hv].
  rewrite E in C. inversion C; subst kvs.
  apply (file_store_v1 o serial nornet accum feature f WF SIDE CDB st L); try assumption; [|discriminate].
  intros k. rewrite Hg. apply Hv.
Qed.
End Pipelines.

(* the row-level store of a key/value stream (Proofs/Compile.store_of: rows under their key in
   arrival order) is such a store *)
Lemma store_of_rows : forall kvs k, get (store_of kvs) k = vals_of k kvs.
Proof. intros. apply get_store_of. Qed.

(* ---------------------------------------------------------------- every compilation has a dump *)
Definition bytes_dec : forall a b : bytes, {a = b} + {a <> b} := list_eq_dec N.eq_dec.
Definition dump_of_keys (db : Model.Batch.store) (keys : list bytes) : Model.Store.store :=
  map (fun k => (k, vals db k))
      (filter (fun k => match db k with Some _ => true | None => false end) (nodup bytes_dec keys)).

Lemma dump_of_keys_ok : forall db keys, (forall k, db k <> None -> In k keys) -> rdb_dump db (dump_of_keys db keys).
Proof.
  intros db keys H. unfold rdb_dump, dump_of_keys. split.
  - rewrite map_map. cbn [fst]. rewrite map_id. apply NoDup_filter, NoDup_nodup.
  - intros k v. rewrite in_map_iff. split.
    + intros (k' & E & Hin). inversion E; subst. apply filter_In in Hin as [_ Hin].
      split; [|reflexivity]. destruct (db k); [discriminate | discriminate Hin].
    + intros [Hk ->]. exists k. split; [reflexivity|]. apply filter_In. split.
      * apply nodup_In. apply H. exact Hk.
      * destruct (db k); [reflexivity | contradiction].
Qed.

(* the keys of a compiled database are keys of the codec's records, so the enumeration over them is a dump *)
Lemma compiled_support : forall (line : Type) conv accum feature (f : list line) db,
  store_ok db -> (forall k, Permutation (vals db k) (spec_compile line conv accum feature f k)) ->
  forall k, db k <> None -> In k (map fst (records line conv accum feature f)).
Proof.
  intros line conv accum feature f db OK Hv k Hk.
  destruct (store_ok_get db k OK) as (_ & _ & Hn).
  assert (Hne : vals db k <> []) by (intros X; apply Hk, Hn; exact X).
  specialize (Hv k). unfold spec_compile in Hv.
  destruct (vals_of k (records line conv accum feature f)) as [|v t] eqn:E.
  - apply Permutation_sym, Permutation_nil in Hv. contradiction.
  - apply in_map_iff. exists (k, v). split; [reflexivity|]. apply vals_of_in. rewrite E. left. reflexivity.
Qed.

Theorem rdb_dump_exists : forall (line : Type) conv accum feature (f : list line) db,
  feature <> [] -> kvs_ok (records line conv accum feature f) -> rdb_compilation line conv accum feature f db ->
  rdb_dump db (dump_of_keys db (map fst (records line conv accum feature f))).
Proof.
  intros line conv accum feature f db NF KV C.
  destruct (rdb_compilation_lossless line conv accum feature f db NF KV C) as [OK Hv].
  apply dump_of_keys_ok. apply (compiled_support line conv accum feature f db OK Hv).
Qed.

(* ---------------------------------------------------------------- the side records of the real codec *)
(* an accumulator that marshals records of the unserved line types (range points: Model/Preproc.compile
   hands the Rearranger's points to convert) and the features record of Model/Preproc satisfy [side_ok] *)
Lemma feature_kv_foreign : forall v2, foreign_keyb (fst (feature_kv v2)) = true.
Proof. intros. reflexivity. Qed.

Theorem side_ok_unserved : forall v2 nornet' (pts : list bytes -> list Text.record) f,
  Forall (fun r => served r = false) (pts f) ->
  side_ok (fun f => flat_map (convert v2 nornet') (pts f)) [feature_kv v2] f.
Proof.
  intros v2 nornet' pts f H. unfold side_ok. apply Forall_app. split.
  - induction H as [|r t Hr Ht IH]; [constructor|]. cbn [flat_map]. apply Forall_app. split; [|exact IH].
    destruct (convert_unserved v2 nornet' r Hr) as [_ E]. rewrite forallb_forall in E.
    apply Forall_forall. intros kv Hin. apply aux_foreign, E. exact Hin.
  - constructor; [apply feature_kv_foreign | constructor].
Qed.

(* the guard [loc_okb] is needed for v1 keys: a subnet line whose short key is a name key under location \000% *)
Lemma loc_guard_needed :
  let r := RNet [97; 98] (v4pre ++ [0; 0; 0; 0]) 104 [1; 120] in     (* %ab,0.0.0.0/8,\001x *)
  In ([0; 37] ++ pack [[120]], [97; 98]) (convert false false r) /\
  pname (pack [[120]]) /\ loc_okb [0; 37] = false.
Proof.
  cbv zeta. split; [vm_compute; left; reflexivity|]. split; [|reflexivity].
  exists [[120]]. split; [constructor; [unfold lab_ok, nlen; cbn; lia | constructor]|]. split; [vm_compute; discriminate | reflexivity].
Qed.
