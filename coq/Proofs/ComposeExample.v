(* Proofs/ComposeExample: the composed statements (Proofs/Compose.v, Proofs/ComposeChain.v) are not vacuous.
   Generation 1: the six-line data file of Proofs/FileLevelExample.v compiled as a (reversed) CDB stream;
   generation 2: the same declared records in the v2 key layout; clients 1 (location ab in generation 1,
   none in generation 2) and 9 (no location).  A history with a miss, a hit that carries the first
   asker's spelling, an unlocated client, an unsupported EDNS version, a reload and an expiry; one
   listener with refuse-any and whoami on top. *)
From DnsV Require Import Base.Bytes Model.Store Model.LookupV1 Model.LookupV2 Model.Serve.
From DnsV Require Model.Cache Proofs.Cache Model.Chain Proofs.Chain.
From DnsV Require Import Spec.Answer Spec.Rows Spec.Declared Proofs.Compile Proofs.V2Store Model.Compile Model.Preproc.
From DnsV Require Import Proofs.ZoneCut Proofs.NoPanic Proofs.DeclaredWf Proofs.FileLevel Proofs.FileLevelExample.
From Coq Require Import Lia Permutation.
From DnsV Require Import Model.Compose Proofs.Compose Proofs.ComposeChain.
Open Scope N_scope.

Definition y_stream : list (bytes * bytes) :=
  rev (records bytes (conv_line x_o 7 false false) x_accum [feature_kv false] x_file).
Definition y_locf1 (r : Cache.request) : locres :=
  if Cache.q_from r =? 1 then LocOk x_L else LocNil.
Definition y_locf2 (r : Cache.request) : locres :=
  if Cache.q_from r =? 9 then LocErr else LocOk [0; 0].
Definition y_g1 : gen := mkGen CDB (store_of y_stream) y_locf1.
Definition y_g2 : gen := mkGen RDB2 (store_v2 x_recs) y_locf2.

Definition y_Foo : bytes := [3; 70; 111; 111; 7; 101; 120; 97; 109; 112; 108; 101; 3; 99; 111; 109; 0].
Definition y_foo : bytes := [3; 102; 111; 111; 7; 101; 120; 97; 109; 112; 108; 101; 3; 99; 111; 109; 0].
Definition y_FOO : bytes := [3; 70; 79; 79; 7; 101; 120; 97; 109; 112; 108; 101; 3; 99; 111; 109; 0].
Definition y_www : bytes := [3; 119; 119; 119; 7; 101; 120; 97; 109; 112; 108; 101; 3; 99; 111; 109; 0].

Definition y_hist : list (Cache.event gen) :=
  [Cache.EQuery gen 100 1 (Cache.mkReq 1 y_Foo 16 1 (extra_of 1 None));        (* TXT Foo.example.com: miss *)
   Cache.EQuery gen 101 1 (Cache.mkReq 1 y_foo 16 1 (extra_of 2 (Some 0)));    (* TXT foo.example.com + OPT: hit, owner Foo *)
   Cache.EQuery gen 102 1 (Cache.mkReq 1 y_www 1 1 (extra_of 3 None));         (* A www: one candidate, cached *)
   Cache.EQuery gen 103 1 (Cache.mkReq 9 y_foo 16 1 (extra_of 4 None));        (* no location: no reply, although the key is cached for client 1 *)
   Cache.EQuery gen 104 1 (Cache.mkReq 1 y_foo 16 1 (extra_of 5 (Some 1)));    (* EDNS version 1: BADVERS *)
   Cache.EReload gen y_g2;
   Cache.EQuery gen 105 1 (Cache.mkReq 1 y_FOO 16 1 (extra_of 6 None));        (* after the reload: miss, owner FOO *)
   Cache.EQuery gen 2000 1 (Cache.mkReq 1 y_www 1 1 (extra_of 7 None));        (* generation 2 locates client 1 nowhere: NODATA + SOA *)
   Cache.EQuery gen 2001 1 (Cache.mkReq 1 y_www 1 1 (extra_of 8 None));        (* hit *)
   Cache.EQuery gen 4000 1 (Cache.mkReq 1 y_www 1 1 (extra_of 9 None))].       (* expired *)
Definition y_cfg : Cache.cconfig := Cache.mkCC true 2 0.

Definition item_owner (i : item) : bytes := match i with IRR r => rr_owner r | IPick o _ _ _ _ => o end.
(* id, rcode, owners of the answer section, size of the authority section, OPT *)
Definition digest (o : outcome) : option (N * N * list bytes * N * option (option ecsval)) :=
  match o with
  | OReply x => Some (rs_id x, rs_rcode x, map item_owner (rs_an x), nlen (rs_ns x), rs_opt x)
  | _ => None
  end.

Lemma y_g1_declares : gen_declares y_g1 x_L x_recs.
Proof.
  destruct file_level_example as (WF & _ & S1 & _ & LO & V & _ & _ & _ & _ & ED & _ & _ & _ & CC).
  cbv zeta in CC. destruct CC as (CC & _).
  apply (GD_file_cdb y_g1 x_L x_recs x_o 7 false x_accum [feature_kv false] x_file y_stream y_stream).
  - reflexivity.
  - symmetry. exact ED.
  - exact WF.
  - exact S1.
  - unfold y_stream. apply Permutation_sym, Permutation_rev.
  - exact CC.
  - intros k. apply store_of_rows.
  - exact LO.
  - rewrite <- ED. exact V.
Qed.

Lemma y_g2_declares : gen_declares y_g2 [0; 0] x_recs.
Proof.
  destruct file_level_example as (WF & _ & _ & _ & _ & _ & _ & _ & _ & _ & ED & _).
  destruct (declared_file_wf _ (wf_file_parsed x_o 7 x_file WF)) as (W1 & W2).
  change (flat_map declared (parsed x_o 7 x_file)) with (declared_file x_o 7 x_file) in W1, W2.
  rewrite ED in W1, W2.
  apply GD_rows_v2; auto; try (vm_compute; reflexivity).
Qed.

Lemma y_hist_wire : hist_wire y_hist.
Proof. unfold hist_wire, y_hist. repeat (constructor; [cbn; try exact I; split; reflexivity|]). constructor. Qed.

Lemma y_hist_max : hist_max 1 y_hist.
Proof. unfold hist_max, y_hist. repeat (constructor; [cbn; try exact I; reflexivity|]). constructor. Qed.

Lemma y_hist_wire_names : hist_wire_names y_hist.
Proof.
  unfold hist_wire_names, hist_ok, y_hist.
  repeat (constructor; [cbn; try exact I; unfold req_ok, wire_asked; cbn; repeat split; reflexivity|]). constructor.
Qed.

Example cached_handler_example :
  hist_wire y_hist /\ hist_max 1 y_hist /\ gen_declares y_g1 x_L x_recs /\ gen_declares y_g2 [0; 0] x_recs /\
  map (fun x => (snd x, digest (snd (fst x) (Some [7; 7])))) (htrace y_cfg (y_g1, []) y_hist) =
  [(Cache.OMiss, Some (1, 0, [y_Foo], 0, None));
   (Cache.OHit, Some (2, 0, [y_Foo], 0, Some (Some [7; 7])));
   (Cache.OMiss, Some (3, 0, [y_www], 0, None));
   (Cache.OOff, None);
   (Cache.OOff, Some (5, 16, [], 0, Some None));
   (Cache.OMiss, Some (6, 0, [y_FOO], 0, None));
   (Cache.OMiss, Some (7, 0, [], 1, None));
   (Cache.OHit, Some (8, 0, [], 1, None));
   (Cache.OExpired, Some (9, 0, [], 1, None))] /\
  (* the second response carries the second asker's id and question, and the first asker's spelling *)
  (exists x, snd (fst (nth 1 (htrace y_cfg (y_g1, []) y_hist) (y_g1, 0, Cache.mkReq 0 [] 0 0 0, fun _ => ONoReply, Cache.OOff))) None = OReply x /\
             rs_question x = Some (y_foo, 16, 1) /\
             rs_an x = [IRR (mkRR y_Foo 16 1 120 [5; 104; 101; 108; 108; 111])]) /\
  spec_response x_L x_recs x_n1 16 =
    Answer [x_example; x_com] false [nth 4 x_recs (mkRec [] false None 0 0 0 [])] [nth 0 x_recs (mkRec [] false None 0 0 0 [])] /\
  lower_bytes y_foo = pack x_n1 /\ lower_bytes y_Foo = lower_bytes y_foo.
Proof.
  split; [exact y_hist_wire|]. split; [exact y_hist_max|]. split; [exact y_g1_declares|]. split; [exact y_g2_declares|].
  split; [vm_compute; reflexivity|].
  split; [eexists; split; [vm_compute; reflexivity|split; reflexivity]|].
  split; [vm_compute; reflexivity|]. split; vm_compute; reflexivity.
Qed.

(* ------------------------------------------------------------------ the relation cannot be "equal up to owner case"
   z. SOA, NS; m.z. MX 10 m.z. and one A record.  ANY M.z. computes an additional A record for the MX target
   m.z. (db.HasRecord compares the target with the owner M.z. as asked, case-sensitively); ANY m.z. finds the
   address already in the answer and adds none.  Neither answer is weighted, so the first is cached and
   served to the second asker: with the cache the reply to ANY m.z. has an additional record, without it
   has none.  Both refine the statement (the additional section of an authoritative answer is only
   required to be sound) - but hypothesis (a) of C12_cached_equals_uncached does not hold for Serve.serve
   with [beq] = equality up to the letter case of owner names. *)
Definition z_recs : list Answer.record :=
  [mkRec [[122]] false None 6 60 0 [0; 0; 0; 0; 0; 1; 0; 0; 0; 2; 0; 0; 0; 3; 0; 0; 0; 4; 0; 0; 0; 5];
   mkRec [[122]] false None 2 60 0 [1; 110; 1; 122; 0];
   mkRec [[109]; [122]] false None 15 60 0 [0; 10; 1; 109; 1; 122; 0];
   mkRec [[109]; [122]] false None 1 30 1 [192; 0; 2; 7]].
Definition z_g : gen := mkGen CDB (store_v1 z_recs) (fun _ => LocOk [0; 0]).
Definition z_Mz : bytes := [1; 77; 1; 122; 0].
Definition z_mz : bytes := [1; 109; 1; 122; 0].
Definition z_hist : list (Cache.event gen) :=
  [Cache.EQuery gen 100 1 (Cache.mkReq 1 z_Mz 255 1 (extra_of 1 None));
   Cache.EQuery gen 101 1 (Cache.mkReq 1 z_mz 255 1 (extra_of 2 None))].
Definition extras (o : outcome) : list item := match o with OReply x => rs_ex x | _ => [] end.

Example case_variant_not_owner_case :
  map (fun x => (snd x, extras (snd (fst x) None))) (htrace y_cfg (z_g, []) z_hist) =
    [(Cache.OMiss, [IPick z_mz 1 1 [(30, 1, [192; 0; 2; 7])] 1]);
     (Cache.OHit, [IPick z_mz 1 1 [(30, 1, [192; 0; 2; 7])] 1])] /\
  extras (plain_serve 1 z_g (Cache.mkReq 1 z_mz 255 1 (extra_of 2 None)) None) = [] /\
  weightedf 1 z_g (Cache.mkKey 0 255 1 z_mz) = false /\
  lower_bytes z_Mz = lower_bytes z_mz.
Proof. repeat split; vm_compute; reflexivity. Qed.

(* ------------------------------------------------------------------ the cache key does not hold the max answer
   z. SOA + NS, w.z. with two A records; WRSTimeout 60, so the weighted answer is cached.  A w.z. arrives
   with max answer 2 (two addresses served), then with max answer 1: the hit serves two addresses, the
   uncached handler one.  This is why, for listeners with different max answers, a hit is only known to
   answer for the max answer of the query the entry was computed for. *)
Definition w_recs : list Answer.record :=
  [mkRec [[122]] false None 6 60 0 [0; 0; 0; 0; 0; 1; 0; 0; 0; 2; 0; 0; 0; 3; 0; 0; 0; 4; 0; 0; 0; 5];
   mkRec [[122]] false None 2 60 0 [1; 110; 1; 122; 0];
   mkRec [[119]; [122]] false None 1 30 1 [192; 0; 2; 7];
   mkRec [[119]; [122]] false None 1 30 1 [192; 0; 2; 8]].
Definition w_g : gen := mkGen CDB (store_v1 w_recs) (fun _ => LocOk [0; 0]).
Definition w_wz : bytes := [1; 119; 1; 122; 0].
Definition w_cfg : Cache.cconfig := Cache.mkCC true 4 60.
Definition w_hist : list (Cache.event gen) :=
  [Cache.EQuery gen 100 2 (Cache.mkReq 1 w_wz 1 1 (extra_of 1 None));
   Cache.EQuery gen 101 1 (Cache.mkReq 1 w_wz 1 1 (extra_of 2 None))].
Definition served (o : outcome) : N := match o with OReply x => item_count (rs_an x) | _ => 0 end.

Example max_answer_shared_through_cache :
  map (fun x => (snd (fst (fst (fst x))), snd x, served (snd (fst x) None))) (htrace w_cfg (w_g, []) w_hist) =
    [(2, Cache.OMiss, 2); (1, Cache.OHit, 2)] /\
  served (plain_serve 1 w_g (Cache.mkReq 1 w_wz 1 1 (extra_of 2 None)) None) = 1 /\
  weightedf 1 w_g (Cache.mkKey 0 1 1 w_wz) = true.
Proof. repeat split; vm_compute; reflexivity. Qed.

(* ------------------------------------------------------------------ a listener on top *)
(* toy bridge: names without escapes split at the dots; requester 1; no ECS; records rendered with their
   wire owner, the first n candidates of a pick *)
Fixpoint toy_labels (s cur : bytes) : list bytes :=
  match s with
  | [] => match cur with [] => [] | _ => [rev cur] end
  | c :: t => if c =? 46 then rev cur :: toy_labels t [] else toy_labels t (c :: cur)
  end.
Definition toy_wire (s : bytes) : bytes := flat_map (fun l => nlen l :: l) (toy_labels s []) ++ [0].
Definition toy_rrs (i : item) : list Chain.rr :=
  match i with
  | IRR r => [Chain.mkRR (rr_owner r) (rr_type r) (rr_class r) (rr_ttl r) (rr_rdata r)]
  | IPick o ty cl cands n => map (fun c => Chain.mkRR o ty cl (fst (fst c)) (snd c)) (firstn (N.to_nat n) cands)
  end.
Definition toy_render (e : Chain.env) (r : Chain.msg) (o : outcome) : Chain.outcome :=
  match o with
  | OReply x =>
      Chain.Reply (Chain.mkM (Chain.mkH (rs_id x) true 0 (rs_aa x) false false false false false false (rs_rcode x))
                             (Chain.mq r) (flat_map toy_rrs (rs_an x)) (flat_map toy_rrs (rs_ns x)) (flat_map toy_rrs (rs_ex x)))
  | ONoReply => Chain.NoReply
  | _ => Chain.Panic
  end.
Definition toy_bridge : bridge :=
  mkBridge (fun nm => let w := toy_wire nm in if wire_name w then Some w else None)
           (fun _ _ => 1) (fun _ _ _ => None) toy_render.

Lemma toy_wire_ok : wire_ok toy_bridge.
Proof.
  intros nm w H. cbn in H. destruct (wire_name (toy_wire nm)) eqn:E; [|discriminate].
  inversion H. subst w. exact E.
Qed.
Lemma toy_render_ok : render_ok toy_bridge.
Proof. intros e r o H. cbn in H. destruct o; try discriminate; auto. Qed.

Definition y_whoami_flag : bytes := [87; 104; 111; 65; 109; 73; 46; 101; 120; 97; 109; 112; 108; 101; 46; 99; 111; 109].   (* WhoAmI.example.com *)
Definition y_lcfg : Chain.config := Chain.mkCfg y_whoami_flag true Chain.AcceptDefault 1.
Definition y_foo_text : bytes := [102; 111; 111; 46; 101; 120; 97; 109; 112; 108; 101; 46; 99; 111; 109; 46].               (* foo.example.com. *)
Definition y_whoami_text : bytes := [119; 104; 111; 97; 109; 105; 46; 101; 120; 97; 109; 112; 108; 101; 46; 99; 111; 109; 46].
Definition y_server (st : hstate) :=
  whole_server Chain.ex_ulen Chain.ex_base Chain.ex_rlen Chain.ex_optlen toy_bridge y_cfg (fst st) (snd st) 101
               y_lcfg (Chain.ex_env Chain.Tcp).
(* the state after the first query of y_hist (TXT Foo.example.com asked, cached) *)
Definition y_st1 : hstate := hfinal y_cfg (y_g1, []) (firstn 1 y_hist).

Example whole_server_example :
  wire_ok toy_bridge /\ render_ok toy_bridge /\
  (* TXT foo.example.com. : the database handler answers from the cache, owner as first asked *)
  (exists m, y_server y_st1 (Chain.ex_query y_foo_text 16 []) = Chain.Reply m /\
             Chain.man m = [Chain.mkRR y_Foo 16 1 120 [5; 104; 101; 108; 108; 111]] /\
             Chain.haa (Chain.mh m) = true /\ Chain.hid (Chain.mh m) = 4660) /\
  Chain.any_refused y_lcfg (Chain.mkQ y_foo_text 16 1) = false /\
  Chain.whoami_matched y_lcfg (Chain.mkQ y_foo_text 16 1) = false /\
  (* ANY under refusal: HINFO, the database handler is not consulted *)
  (exists m, y_server y_st1 (Chain.ex_query y_foo_text 255 []) = Chain.Reply m /\
             Chain.man m = [Chain.mkRR y_foo_text 13 1 86400 Chain.hinfo_rdata]) /\
  (* the whoami name: its own TXT records *)
  (exists m, y_server y_st1 (Chain.ex_query y_whoami_text 16 []) = Chain.Reply m /\ length (Chain.man m) = 4%nat) /\
  (* no question: FORMERR from the accept step, not a panic *)
  (exists m, y_server y_st1 (Chain.mkM (Chain.mkH 7 false 0 false false true false false false false 0) [] [] [] []) = Chain.Reply m /\
             Chain.hrcode (Chain.mh m) = 1).
Proof.
  split; [exact toy_wire_ok|]. split; [exact toy_render_ok|].
  split; [eexists; split; [vm_compute; reflexivity|repeat split; reflexivity]|].
  split; [vm_compute; reflexivity|]. split; [vm_compute; reflexivity|].
  split; [eexists; split; [vm_compute; reflexivity|reflexivity]|].
  split; [eexists; split; [vm_compute; reflexivity|reflexivity]|].
  eexists; split; [vm_compute; reflexivity|reflexivity].
Qed.
