(* Proofs about Model/Ecs.v (property C10). *)
From DnsV Require Import Base.Bytes Base.Ip Spec.Lpm Model.Rearranger Model.Location Model.Ecs.
From Coq Require Import ZifyN ZifyNat ZifyBool.
Open Scope N_scope.

Definition is_some {A} (o : option A) : bool := match o with Some _ => true | None => false end.

(* ---------------------------------------------------------------- arithmetic of blocks *)

Lemma blk_size_pos : forall l, blk_size l <> 0.
Proof. intro l. unfold blk_size. apply N.pow_nonzero. discriminate. Qed.

Lemma blk_size_split : forall l p, l <= p -> p <= 128 ->
  blk_size l = blk_size p * 2 ^ (p - l).
Proof.
  intros l p Hl Hp. unfold blk_size. rewrite <- N.pow_add_r. f_equal. lia.
Qed.

(* cutting an address to p bits does not change its block of any length l <= p *)
Lemma div_clean_mask : forall a l p, l <= p -> p <= 128 ->
  clean_mask a p / blk_size l = a / blk_size l.
Proof.
  intros a l p Hl Hp. unfold clean_mask.
  rewrite (blk_size_split l p Hl Hp).
  assert (HB : blk_size p <> 0) by apply blk_size_pos.
  assert (HC : 2 ^ (p - l) <> 0) by (apply N.pow_nonzero; discriminate).
  rewrite <- !N.div_div by assumption.
  rewrite N.div_mul by assumption. reflexivity.
Qed.

Lemma clean_mask_128 : forall a, clean_mask a 128 = a.
Proof.
  intro a. unfold clean_mask, blk_size. replace (128 - 128) with 0 by lia.
  rewrite N.pow_0_r, N.div_1_r, N.mul_1_r. reflexivity.
Qed.

(* ---------------------------------------------------------------- lpm *)

Lemma eligible_clean_mask : forall f a p s, p <= 128 ->
  eligible f (clean_mask a p) p s = eligible f a p s.
Proof.
  intros f a p s Hp. unfold eligible, Lpm.contains.
  destruct (s_len s <=? p) eqn:E.
  - apply N.leb_le in E. rewrite div_clean_mask by assumption. reflexivity.
  - rewrite !Bool.andb_false_r. reflexivity.
Qed.

Lemma lpm_clean_mask : forall S f a p, p <= 128 ->
  lpm S f (clean_mask a p) p = lpm S f a p.
Proof.
  induction S as [|s S IH]; intros f a p Hp; simpl; [reflexivity|].
  rewrite IH by assumption. rewrite eligible_clean_mask by assumption. reflexivity.
Qed.

(* what lpm returns is a declared, eligible subnet ... *)
Lemma lpm_sound : forall S f a p loc len, lpm S f a p = Some (loc, len) ->
  exists s, In s S /\ eligible f a p s = true /\ s_loc s = loc /\ s_len s = len.
Proof.
  induction S as [|s S IH]; intros f a p loc len H; simpl in H; [discriminate|].
  destruct (eligible f a p s) eqn:E.
  - destruct (lpm S f a p) as [[l0 n0]|] eqn:R.
    + destruct (n0 <? s_len s) eqn:C1.
      * inversion H; subst. exists s. simpl. auto.
      * destruct (n0 =? s_len s) eqn:C2.
        -- inversion H; subst. exists s. simpl. auto.
        -- inversion H; subst. destruct (IH f a p loc len R) as [s' [Hin Hs']].
           exists s'. simpl. auto.
    + inversion H; subst. exists s. simpl. auto.
  - destruct (IH f a p loc len H) as [s' [Hin Hs']]. exists s'. simpl. auto.
Qed.

(* ... no eligible declared subnet is longer ... *)
Lemma lpm_longest : forall S f a p loc len, lpm S f a p = Some (loc, len) ->
  forall s, In s S -> eligible f a p s = true -> s_len s <= len.
Proof.
  induction S as [|s S IH]; intros f a p loc len H s' Hin He; simpl in *; [contradiction|].
  destruct (eligible f a p s) eqn:E.
  - destruct (lpm S f a p) as [[l0 n0]|] eqn:R.
    + destruct (n0 <? s_len s) eqn:C1.
      * inversion H; subst. destruct Hin as [->|Hin]; [lia|].
        specialize (IH f a p l0 n0 R s' Hin He). apply N.ltb_lt in C1. lia.
      * destruct (n0 =? s_len s) eqn:C2.
        -- inversion H; subst. destruct Hin as [->|Hin]; [lia|].
           specialize (IH f a p l0 n0 R s' Hin He). apply N.eqb_eq in C2. lia.
        -- inversion H; subst. destruct Hin as [->|Hin].
           ++ apply N.ltb_ge in C1. exact C1.
           ++ exact (IH f a p loc len R s' Hin He).
    + inversion H; subst. destruct Hin as [->|Hin]; [lia|].
      exfalso. clear IH H. revert s' Hin He R. induction S as [|t S IHS]; intros; simpl in *; [contradiction|].
      destruct (eligible f a p t) eqn:Et.
      * destruct (lpm S f a p) as [[? ?]|]; [destruct (n <? s_len t); [discriminate|destruct (n =? s_len t); discriminate]|discriminate].
      * destruct Hin as [->|Hin]; [congruence|]. eapply IHS; eauto.
  - destruct Hin as [->|Hin]; [congruence|]. exact (IH f a p loc len H s' Hin He).
Qed.

(* ... and None means that no declared subnet is eligible *)
Lemma lpm_none : forall S f a p, lpm S f a p = None ->
  forall s, In s S -> eligible f a p s = false.
Proof.
  induction S as [|s S IH]; intros f a p H s' Hin; simpl in *; [contradiction|].
  destruct (eligible f a p s) eqn:E.
  - destruct (lpm S f a p) as [[l0 n0]|]; [|discriminate].
    destruct (n0 <? s_len s); [discriminate|]. destruct (n0 =? s_len s); discriminate.
  - destruct Hin as [->|Hin]; [exact E|]. exact (IH f a p H s' Hin).
Qed.

Lemma eligible_bounds : forall f a p s, eligible f a p s = true ->
  s_len s <= p /\ (f = V4 -> 96 <= s_len s).
Proof.
  intros f a p s H. unfold eligible in H.
  apply Bool.andb_true_iff in H. destruct H as [H Hc].
  apply Bool.andb_true_iff in H. destruct H as [Hf Hl].
  apply N.leb_le in Hl. split; [exact Hl|].
  intros Hv4; subst f. unfold sfam in Hf.
  destruct (is_v4 (s_addr s) && (96 <=? s_len s)) eqn:E; [|discriminate].
  apply Bool.andb_true_iff in E. destruct E as [_ E]. apply N.leb_le in E. exact E.
Qed.

(* ---------------------------------------------------------------- replies: OPT and options *)

Section Handler.
  Variable fm8 fmM : result (option bytes).
  Variable gl : mapid -> client -> result (option bytes * N).

  Definition no_backend_error (ev : env) : Prop := forall id, auth ev id <> AuthErr.

  Definition echo_opts (e : option ecs) : list eopt := match e with Some x => [OEcs x] | None => [] end.

  Lemma sad_fresh : forall req rc e id,
    size_and_do req (mkReply rc (fresh_opt req e) id) =
    mkReply rc (match req with
                | None => None
                | Some o => Some (mkEdns 0 (ed_do o) (ed_udp o) (echo_opts e))
                end) id.
  Proof. intros [o|] rc e id; reflexivity. Qed.

  (* shape of every reply outside the BADVERS path *)
  Lemma serve_shape : forall ev q r,
    badvers q = false -> no_backend_error ev ->
    serve fm8 fmM gl ev q = Reply r ->
    exists e loc, find_client_location fm8 fmM gl q = Ok (e, loc) /\
      r_loc r = l_loc loc /\
      r_edns r = match q_edns q with
                 | None => None
                 | Some o => Some (mkEdns 0 (ed_do o) (ed_udp o) (echo_opts e))
                 end.
  Proof.
    intros ev q r Hb Hne H. unfold serve in H. rewrite Hb in H.
    destruct (find_client_location fm8 fmM gl q) as [[e loc]|] eqn:F; [|discriminate].
    exists e, loc. split; [reflexivity|].
    destruct (cache_hit ev (l_loc loc)).
    - rewrite sad_fresh in H. inversion H; subst. simpl. auto.
    - destruct (auth ev (l_loc loc)) eqn:A.
      + exfalso. exact (Hne _ A).
      + rewrite sad_fresh in H. inversion H; subst. simpl. auto.
      + rewrite sad_fresh in H. inversion H; subst. simpl. auto.
  Qed.

  Lemma serve_badvers : forall ev q r, badvers q = true ->
    serve fm8 fmM gl ev q = Reply r ->
    exists o, q_edns q = Some o /\ r_rcode r = 16 /\
      r_edns r = Some (mkEdns 0 (ed_do o) (ed_udp o) []).
  Proof.
    intros ev q r Hb H. unfold serve in H. rewrite Hb in H.
    unfold badvers in Hb. destruct (q_edns q) as [o|] eqn:Q; [|discriminate].
    exists o. split; [reflexivity|]. simpl in H. inversion H; subst. simpl. auto.
  Qed.

  (* C10_opt_iff *)
  Theorem opt_iff : forall ev q r, no_backend_error ev ->
    serve fm8 fmM gl ev q = Reply r ->
    is_some (r_edns r) = is_some (q_edns q).
  Proof.
    intros ev q r Hne H. destruct (badvers q) eqn:Hb.
    - destruct (serve_badvers ev q r Hb H) as [o [Q [_ E]]]. rewrite Q, E. reflexivity.
    - destruct (serve_shape ev q r Hb Hne H) as [e [loc [_ [_ E]]]]. rewrite E.
      destruct (q_edns q); reflexivity.
  Qed.

  (* FindLocation hands back the request's own option with only the scope rewritten *)
  Lemma find_client_location_ecs : forall q e' loc,
    find_client_location fm8 fmM gl q = Ok (e', loc) ->
    match query_ecs q with
    | None => e' = None
    | Some e => exists lo sc, ecs_location fm8 gl e = Ok (lo, sc) /\ e' = Some (set_scope e sc)
    end.
  Proof.
    intros q e' loc H. unfold find_client_location in H.
    destruct (query_ecs q) as [e|].
    - destruct (ecs_location fm8 gl e) as [[lo sc]|] eqn:EL; simpl in H; [|discriminate].
      exists lo, sc. split; [reflexivity|].
      destruct lo as [l|].
      + destruct (id_eqb (l_loc l) (0, 0)).
        * destruct (resolver_location fmM gl (q_rip q)); simpl in H; [|discriminate]. inversion H; reflexivity.
        * inversion H; reflexivity.
      + destruct (resolver_location fmM gl (q_rip q)); simpl in H; [|discriminate]. inversion H; reflexivity.
    - destruct (resolver_location fmM gl (q_rip q)); simpl in H; [|discriminate]. inversion H; reflexivity.
  Qed.

  Lemma query_ecs_none_of_noopt : forall q, q_edns q = None -> query_ecs q = None.
  Proof. intros q H. unfold query_ecs. rewrite H. reflexivity. Qed.

  (* C10_ecs_iff_and_unchanged *)
  Theorem ecs_iff_and_unchanged : forall ev q r,
    badvers q = false -> no_backend_error ev ->
    serve fm8 fmM gl ev q = Reply r ->
    match query_ecs q, reply_ecs r with
    | None, None => True
    | Some e, Some e' =>
        e_fam e' = e_fam e /\ e_src e' = e_src e /\ e_addr e' = e_addr e /\
        (exists o, r_edns r = Some o /\ ed_opts o = [OEcs e'])
    | _, _ => False
    end.
  Proof.
    intros ev q r Hb Hne H.
    destruct (serve_shape ev q r Hb Hne H) as [e' [loc [F [_ E]]]].
    pose proof (find_client_location_ecs q e' loc F) as HE.
    unfold reply_ecs. rewrite E.
    destruct (q_edns q) as [o|] eqn:Q.
    - destruct (query_ecs q) as [e|].
      + destruct HE as [lo [sc [_ ->]]]. simpl. repeat split; try reflexivity.
        eexists. split; reflexivity.
      + subst e'. simpl. exact I.
    - rewrite (query_ecs_none_of_noopt q Q). exact I.
  Qed.

  (* C10_ecs_iff_outside_finding: the only replies whose ECS presence differs from the
     query's are BADVERS replies to queries that carried the option *)
  Theorem ecs_iff_outside_finding : forall ev q r,
    ~ (badvers q = true /\ query_ecs q <> None) -> no_backend_error ev ->
    serve fm8 fmM gl ev q = Reply r ->
    is_some (reply_ecs r) = is_some (query_ecs q).
  Proof.
    intros ev q r Hn Hne H. destruct (badvers q) eqn:Hb.
    - destruct (serve_badvers ev q r Hb H) as [o [Q [_ E]]].
      unfold reply_ecs. rewrite E. simpl.
      destruct (query_ecs q) eqn:QE; [|reflexivity].
      exfalso. apply Hn. split; [reflexivity|discriminate].
    - pose proof (ecs_iff_and_unchanged ev q r Hb Hne H) as P.
      destruct (query_ecs q), (reply_ecs r); simpl; try reflexivity; contradiction.
  Qed.
End Handler.

(* C10_ecs_iff_refuted: EDNS version 1 query with ECS 1.2.3.0/24 is answered BADVERS
   with an OPT record that has no client-subnet option (finding F21) *)
Definition f21_query : query :=
  mkQuery (Some (mkEdns 1 false 1232 [OEcs (mkEcs 1 24 0 (first_v4 + 16909056))])) (Some (first_v4 + 3405803785)).
Definition any_env : env := mkEnv (fun _ => None) (fun _ => Served 0).

Theorem ecs_iff_refuted : exists fm8 fmM gl ev q r,
  no_backend_error ev /\ serve fm8 fmM gl ev q = Reply r /\
  r_rcode r = 16 /\ is_some (r_edns r) = true /\
  is_some (query_ecs q) = true /\ is_some (reply_ecs r) = false.
Proof.
  exists (Ok None), (Ok None), (fun _ _ => Ok (None, 0)), any_env, f21_query.
  eexists. split; [intros id; simpl; discriminate|].
  split; [reflexivity|]. simpl. repeat split; reflexivity.
Qed.

(* ---------------------------------------------------------------- what a client parses *)

(* the client's own prefix in 128-bit terms *)
Definition ecs_plen (e : ecs) : N := if e_fam e =? 1 then 96 + e_src e else e_src e.

Theorem wire_view_unchanged : forall e w, wire_view e = Some w ->
  e_fam w = e_fam e /\ e_src w = e_src e /\ e_scope w = e_scope e /\
  ((e_fam e = 1 \/ e_fam e = 2) -> e_addr w = clean_mask (e_addr e) (ecs_plen e)).
Proof.
  intros e w H. unfold wire_view in H. unfold ecs_plen.
  destruct (e_fam e =? 0) eqn:F0.
  - destruct (e_src e =? 0) eqn:S0; [|discriminate]. inversion H; subst; simpl.
    apply N.eqb_eq in F0. apply N.eqb_eq in S0. repeat split; try congruence.
    intros [X|X]; rewrite X in F0; discriminate.
  - destruct (e_fam e =? 1) eqn:F1.
    + destruct ((32 <? e_src e) || (32 <? e_scope e) || negb (is_v4 (e_addr e))); [discriminate|].
      inversion H; subst; simpl. apply N.eqb_eq in F1. repeat split; try congruence.
    + destruct (e_fam e =? 2) eqn:F2; [|discriminate].
      destruct ((128 <? e_src e) || (128 <? e_scope e)); [discriminate|].
      inversion H; subst; simpl. apply N.eqb_eq in F2. repeat split; try congruence.
Qed.

(* ---------------------------------------------------------------- scope and deciding location *)

(* options as miekg/dns unpacks them *)
Definition wf_ecs (e : ecs) : Prop :=
  (e_fam e = 0 /\ e_src e = 0) \/
  (e_fam e = 1 /\ e_src e <= 32 /\ is_v4 (e_addr e) = true) \/
  (e_fam e = 2 /\ e_src e <= 128 /\ e_addr e < two128).

(* the family the client prefix is matched in: an IPv4 client is an IPv4 or v4-mapped
   address disclosed with at least the 96 prefix bits *)
Definition ecs_family (e : ecs) : family := if is_v4 (e_addr e) && (96 <=? ecs_plen e) then V4 else V6.

(* the IPNets the handler hands to GetLocationByMap: an address below 2^128 under a
   128-bit mask, or an IPv4 (v4-mapped) address under a 32-bit mask *)
Definition wf_client (c : client) : Prop :=
  exists a, c_ip c = Some a /\ a < two128 /\
    ((c_bits c = 128 /\ c_ones c <= 128) \/ (c_bits c = 32 /\ c_ones c <= 32 /\ is_v4 a = true)).

Definition map_of (mo : option bytes) : N * N := match mo with Some b => two_bytes b | None => (0, 0) end.

Section Scope.
  Variable nets : mapid -> list subnet.         (* declared subnets per map *)
  Variable premask : bool.                      (* the driver searches from the network address *)
  Variable fm8 fmM : result (option bytes).
  Variable gl : mapid -> client -> result (option bytes * N).
  (* C03: GetLocationByMap is longest-prefix match *)
  Hypothesis gl_is_lpm : forall m c, wf_client c -> exists r, gl m c = Ok r /\
    hit_of r = lpm (nets m) (cfam c) (search_addr premask c) (eff_plen c).

  Definition loc_of_lpm (m : mapid) (r : option (locid * N)) : location :=
    match r with Some (loc, l) => mkLocation m l loc | None => mkLocation m 0 (0, 0) end.

  Lemma find_location_lpm : forall fm mo c, wf_client c -> fm = Ok mo ->
    find_location fm (fun m => gl m c) =
    Ok (loc_of_lpm (map_of mo) (lpm (nets (map_of mo)) (cfam c) (search_addr premask c) (eff_plen c))).
  Proof.
    intros fm mo c Hc ->. unfold find_location, rbind. cbv zeta.
    destruct (gl_is_lpm (map_of mo) c Hc) as [r [G Hh]]. unfold map_of in *. rewrite G.
    rewrite <- Hh. unfold hit_of. destruct r as [[b|] n]; reflexivity.
  Qed.

  (* the client handed to the driver for a well-formed option of family 1 or 2 *)
  Lemma ecs_client_lpm : forall S e, wf_ecs e -> (e_fam e = 1 \/ e_fam e = 2) ->
    let c := ecs_client (e_fam e) (e_src e) (e_addr e) in
    lpm S (cfam c) (search_addr premask c) (eff_plen c) =
    lpm S (ecs_family e) (e_addr e) (ecs_plen e).
  Proof.
    intros S e Hwf Hf c.
    assert (Hplen : eff_plen c = ecs_plen e /\ ecs_plen e <= 128 /\ cfam c = ecs_family e /\
                    (search_addr premask c = e_addr e \/ search_addr premask c = clean_mask (e_addr e) (ecs_plen e))).
    { unfold c, ecs_client, cfam, eff_plen, ecs_family, ecs_plen, search_addr, c_size, c_isv4, c_masked, c_addr.
      destruct Hwf as [[F _]|[[F [Hs Hv]]|[F [Hs _]]]].
      - destruct Hf as [X|X]; rewrite X in F; discriminate.
      - rewrite F. change (1 =? 2) with false. change (1 =? 1) with true. cbv iota.
        cbn [c_ip c_bits c_ones]. rewrite Hv. change (32 =? 32) with true. cbn [andb].
        assert (E : (32 <? e_src e) = false) by (apply N.ltb_ge; lia). rewrite E.
        assert (E2 : (96 <=? e_src e + 96) = true) by (apply N.leb_le; lia). rewrite E2.
        assert (E3 : (96 <=? 96 + e_src e) = true) by (apply N.leb_le; lia). rewrite E3.
        split; [lia|]. split; [lia|]. split; [reflexivity|].
        destruct premask; [right|left]; reflexivity.
      - rewrite F. change (2 =? 2) with true. change (2 =? 1) with false. cbv iota.
        cbn [c_ip c_bits c_ones]. change (128 =? 32) with false.
        assert (E : (128 <? e_src e) = false) by (apply N.ltb_ge; lia). rewrite E.
        rewrite Bool.andb_false_r. rewrite N.add_0_r.
        split; [reflexivity|]. split; [lia|]. split; [reflexivity|].
        destruct premask; [right|left]; reflexivity. }
    destruct Hplen as [P1 [P2 [P3 P4]]]. rewrite P1, P3.
    destruct P4 as [->| ->]; [reflexivity|]. apply lpm_clean_mask. exact P2.
  Qed.

  (* the scope the property prescribes *)
  Definition expected_scope (m : mapid) (e : ecs) : N :=
    let dflt := if e_fam e =? 2 then 48 else 24 in
    if negb ((e_fam e =? 1) || (e_fam e =? 2)) then 0
    else if id_eqb m (0, 0) then 0
    else match lpm (nets m) (ecs_family e) (e_addr e) (ecs_plen e) with
         | Some (loc, len) => if id_eqb loc (0, 0) then dflt
                              else if e_fam e =? 1 then len - 96 else len
         | None => dflt
         end.

  (* the location id the ECS option yields, (0,0) if none *)
  Definition ecs_decides (m : mapid) (e : ecs) : locid :=
    if negb ((e_fam e =? 1) || (e_fam e =? 2)) then (0, 0)
    else if id_eqb m (0, 0) then (0, 0)
    else match lpm (nets m) (ecs_family e) (e_addr e) (ecs_plen e) with
         | Some (loc, _) => loc
         | None => (0, 0)
         end.

  Lemma wf_plen : forall e, wf_ecs e -> ecs_plen e <= 128.
  Proof.
    intros e [[F S]|[[F [S _]]|[F [S _]]]]; unfold ecs_plen; rewrite F.
    - change (0 =? 1) with false. cbv iota. lia.
    - change (1 =? 1) with true. cbv iota. lia.
    - change (2 =? 1) with false. cbv iota. lia.
  Qed.

  Lemma ecs_location_spec : forall e mo, fm8 = Ok mo -> wf_ecs e ->
    exists lo, ecs_location fm8 gl e = Ok (lo, expected_scope (map_of mo) e) /\
      match lo with
      | Some l => l_loc l = ecs_decides (map_of mo) e /\ l_loc l <> (0, 0)
      | None => True
      end /\
      (lo = None -> id_eqb (ecs_decides (map_of mo) e) (0, 0) = true).
  Proof.
    intros e mo Hfm Hwf. unfold ecs_location, expected_scope, ecs_decides.
    destruct (negb ((e_fam e =? 1) || (e_fam e =? 2))) eqn:NF.
    - exists None. repeat split; auto.
    - assert (Hf : e_fam e = 1 \/ e_fam e = 2).
      { apply Bool.negb_false_iff in NF. apply Bool.orb_true_iff in NF.
        destruct NF as [X|X]; apply N.eqb_eq in X; auto. }
      assert (Hc : wf_client (ecs_client (e_fam e) (e_src e) (e_addr e))).
      { unfold wf_client, ecs_client. exists (e_addr e). cbn [c_ip c_bits c_ones].
        split; [reflexivity|].
        destruct Hwf as [[F _]|[[F [S V]]|[F [S B]]]].
        - destruct Hf as [X|X]; rewrite X in F; discriminate.
        - rewrite F. change (1 =? 2) with false. cbv iota. split.
          + unfold is_v4 in V. apply Bool.andb_true_iff in V. destruct V as [_ V]. apply N.ltb_lt in V.
            assert (C2 : after_v4 < two128) by (vm_compute; reflexivity). lia.
          + right. auto.
        - rewrite F. change (2 =? 2) with true. cbv iota. split; [exact B|]. left. auto. }
      rewrite (find_location_lpm fm8 mo _ Hc Hfm). cbn [rbind].
      rewrite (ecs_client_lpm (nets (map_of mo)) e Hwf Hf).
      unfold ecs_scope.
      destruct (lpm (nets (map_of mo)) (ecs_family e) (e_addr e) (ecs_plen e)) as [[loc len]|] eqn:L;
        cbn [loc_of_lpm l_map l_loc l_mask].
      + destruct (id_eqb (map_of mo) (0, 0)) eqn:M0.
        * exists None. repeat split; auto.
        * destruct (id_eqb loc (0, 0)) eqn:L0; cbn [negb].
          -- exists None. repeat split; auto.
          -- destruct (lpm_sound _ _ _ _ _ _ L) as [s [_ [He [_ Hl]]]].
             destruct (eligible_bounds _ _ _ _ He) as [B1 B2].
             pose proof (wf_plen e Hwf) as B3.
             eexists. split.
             ++ f_equal. f_equal.
                destruct (e_fam e =? 1) eqn:F1.
                ** assert (HV : ecs_family e = V4).
                   { unfold ecs_family. apply N.eqb_eq in F1.
                     destruct Hwf as [[F _]|[[F [S V]]|[F _]]]; try (rewrite F in F1; discriminate).
                     rewrite V. unfold ecs_plen. rewrite F. change (1 =? 1) with true. cbv iota.
                     assert (E : (96 <=? 96 + e_src e) = true) by (apply N.leb_le; lia). rewrite E. reflexivity. }
                   specialize (B2 HV). subst len.
                   replace (s_len s + 256 - 96) with ((s_len s - 96) + 1 * 256) by lia.
                   rewrite N.mod_add by discriminate. apply N.mod_small. lia.
                ** subst len. apply N.mod_small. lia.
             ++ cbn [l_loc]. split; [split; [reflexivity|]|discriminate].
                intro X. rewrite X in L0. discriminate.
      + destruct (id_eqb (map_of mo) (0, 0)) eqn:M0.
        * exists None. repeat split; auto.
        * change (id_eqb (0, 0) (0, 0)) with true. cbn [negb]. exists None. repeat split; auto.
  Qed.

  (* the resolver's location id: longest-prefix match of the full address in its map *)
  Definition resolver_decides (m : mapid) (a : N) : locid :=
    match lpm (nets m) (fam a) a 128 with Some (loc, _) => loc | None => (0, 0) end.

  Lemma resolver_location_spec : forall a mo, a < two128 -> fmM = Ok mo ->
    exists l, resolver_location fmM gl (Some a) = Ok l /\ l_loc l = resolver_decides (map_of mo) a.
  Proof.
    intros a mo Ha Hfm. unfold resolver_location, resolver_decides.
    assert (Hc : wf_client (resolver_client (Some a))).
    { unfold wf_client, resolver_client. exists a. destruct (is_v4 a) eqn:V; cbn [c_ip c_bits c_ones].
      - split; [reflexivity|]. split; [exact Ha|]. right. split; [reflexivity|]. split; [lia|reflexivity].
      - split; [reflexivity|]. split; [exact Ha|]. left. split; [reflexivity|lia]. }
    rewrite (find_location_lpm fmM mo _ Hc Hfm).
    eexists. split; [reflexivity|].
    assert (E : lpm (nets (map_of mo)) (cfam (resolver_client (Some a)))
                    (search_addr premask (resolver_client (Some a))) (eff_plen (resolver_client (Some a)))
                = lpm (nets (map_of mo)) (fam a) a 128).
    { unfold resolver_client, fam. destruct (is_v4 a) eqn:V.
      - unfold cfam, eff_plen, search_addr, c_size, c_isv4, c_masked, c_addr. cbn [c_ip c_bits c_ones].
        rewrite V. change (32 <? 32) with false. change (32 =? 32) with true. cbn [andb]. cbv iota.
        change (32 + 96) with 128. change (96 + 32) with 128. change (96 <=? 128) with true. cbv iota.
        destruct premask; [rewrite clean_mask_128|]; reflexivity.
      - unfold cfam, eff_plen, search_addr, c_size, c_isv4, c_masked, c_addr. cbn [c_ip c_bits c_ones].
        rewrite V. change (128 <? 128) with false. change (128 =? 32) with false. cbn [andb]. cbv iota.
        change (128 + 0) with 128.
        destruct premask; [rewrite clean_mask_128|]; reflexivity. }
    rewrite E. destruct (lpm (nets (map_of mo)) (fam a) a 128) as [[loc l]|]; reflexivity.
  Qed.

  (* the location that decides the answer *)
  Definition decides (m8 mM : mapid) (q : query) (rip : N) : locid :=
    match query_ecs q with
    | Some e => if id_eqb (ecs_decides m8 e) (0, 0) then resolver_decides mM rip else ecs_decides m8 e
    | None => resolver_decides mM rip
    end.

  Lemma find_client_location_spec : forall q mo8 moM rip,
    fm8 = Ok mo8 -> fmM = Ok moM -> q_rip q = Some rip -> rip < two128 ->
    (forall e, query_ecs q = Some e -> wf_ecs e) ->
    exists e' loc, find_client_location fm8 fmM gl q = Ok (e', loc) /\
      l_loc loc = decides (map_of mo8) (map_of moM) q rip /\
      e' = match query_ecs q with
           | Some e => Some (set_scope e (expected_scope (map_of mo8) e))
           | None => None
           end.
  Proof.
    intros q mo8 moM rip H8 HM Hr Hlt Hwf. unfold find_client_location, decides. rewrite Hr.
    destruct (resolver_location_spec rip moM Hlt HM) as [lr [RL RD]].
    destruct (query_ecs q) as [e|].
    - destruct (ecs_location_spec e mo8 H8 (Hwf e eq_refl)) as [lo [EL [P1 P2]]].
      rewrite EL. simpl. destruct lo as [l|].
      + destruct P1 as [D NZ].
        assert (Z : id_eqb (l_loc l) (0, 0) = false).
        { destruct (l_loc l) as [x y]. unfold id_eqb; simpl.
          destruct (x =? 0) eqn:X; destruct (y =? 0) eqn:Y; simpl; auto.
          apply N.eqb_eq in X. apply N.eqb_eq in Y. subst. exfalso. apply NZ. reflexivity. }
        rewrite Z. rewrite <- D. rewrite Z. eexists _, _. split; [reflexivity|]. split; reflexivity.
      + rewrite RL. simpl. rewrite (P2 eq_refl). eexists _, _. split; [reflexivity|]. split; [exact RD|reflexivity].
    - rewrite RL. simpl. eexists _, _. split; [reflexivity|]. split; [exact RD|reflexivity].
  Qed.

  (* C10_scope_truthful *)
  Theorem scope_truthful : forall ev q r e mo8 moM rip,
    fm8 = Ok mo8 -> fmM = Ok moM -> q_rip q = Some rip -> rip < two128 ->
    badvers q = false -> no_backend_error ev ->
    query_ecs q = Some e -> wf_ecs e ->
    serve fm8 fmM gl ev q = Reply r ->
    exists e', reply_ecs r = Some e' /\
      e_scope e' = expected_scope (map_of mo8) e /\
      (e_fam e = 1 -> e_scope e' <= 32) /\ (e_fam e = 2 -> e_scope e' <= 128).
  Proof.
    intros ev q r e mo8 moM rip H8 HM Hr Hlt Hb Hne Hq Hwf H.
    destruct (serve_shape fm8 fmM gl ev q r Hb Hne H) as [e' [loc [F [_ E]]]].
    destruct (find_client_location_spec q mo8 moM rip H8 HM Hr Hlt) as [e2 [loc2 [F2 [_ E2]]]].
    { intros e0 He0. rewrite Hq in He0. inversion He0; subst. exact Hwf. }
    rewrite F in F2. injection F2 as Ee El. rewrite <- Ee in E2. rewrite Hq in E2.
    assert (Q : exists o, q_edns q = Some o).
    { unfold query_ecs in Hq. destruct (q_edns q); [eauto|discriminate]. }
    destruct Q as [o Q]. unfold reply_ecs. rewrite E, Q, E2. simpl.
    eexists. split; [reflexivity|]. simpl. split; [reflexivity|].
    unfold expected_scope.
    pose proof (wf_plen e Hwf) as B3.
    split; intro Ff; rewrite Ff; simpl.
    - destruct (id_eqb (map_of mo8) (0, 0)); [lia|].
      destruct (lpm (nets (map_of mo8)) (ecs_family e) (e_addr e) (ecs_plen e)) as [[lc len]|] eqn:L; [|lia].
      destruct (id_eqb lc (0, 0)); [lia|].
      destruct (lpm_sound _ _ _ _ _ _ L) as [s [_ [He [_ Hl]]]].
      destruct (eligible_bounds _ _ _ _ He) as [B1 _].
      unfold ecs_plen in *. rewrite Ff in *. simpl in *.
      destruct Hwf as [[F0 _]|[[_ [S _]]|[F0 _]]]; try (rewrite F0 in Ff; discriminate). lia.
    - destruct (id_eqb (map_of mo8) (0, 0)); [lia|].
      destruct (lpm (nets (map_of mo8)) (ecs_family e) (e_addr e) (ecs_plen e)) as [[lc len]|] eqn:L; [|lia].
      destruct (id_eqb lc (0, 0)); [lia|].
      destruct (lpm_sound _ _ _ _ _ _ L) as [s [_ [He [_ Hl]]]].
      destruct (eligible_bounds _ _ _ _ He) as [B1 _]. lia.
  Qed.

  (* C10_fallback_to_resolver: the location handed to the cache key and to the answer
     lookup is the one the ECS option yields, and the resolver's when it yields none *)
  Theorem fallback_to_resolver : forall ev q r mo8 moM rip,
    fm8 = Ok mo8 -> fmM = Ok moM -> q_rip q = Some rip -> rip < two128 ->
    badvers q = false -> no_backend_error ev ->
    (forall e, query_ecs q = Some e -> wf_ecs e) ->
    serve fm8 fmM gl ev q = Reply r ->
    r_loc r = decides (map_of mo8) (map_of moM) q rip.
  Proof.
    intros ev q r mo8 moM rip H8 HM Hr Hlt Hb Hne Hwf H.
    destruct (serve_shape fm8 fmM gl ev q r Hb Hne H) as [e' [loc [F [RL _]]]].
    destruct (find_client_location_spec q mo8 moM rip H8 HM Hr Hlt Hwf) as [e2 [loc2 [F2 [D _]]]].
    rewrite F in F2. inversion F2; subst. rewrite RL. exact D.
  Qed.

  (* a query is always answered when the lookups do not fail *)
  Theorem always_replies : forall ev q mo8 moM rip,
    fm8 = Ok mo8 -> fmM = Ok moM -> q_rip q = Some rip -> rip < two128 ->
    (forall e, query_ecs q = Some e -> wf_ecs e) ->
    exists r, serve fm8 fmM gl ev q = Reply r.
  Proof.
    intros ev q mo8 moM rip H8 HM Hr Hlt Hwf. unfold serve.
    destruct (badvers q); [eauto|].
    destruct (find_client_location_spec q mo8 moM rip H8 HM Hr Hlt Hwf) as [e2 [loc2 [F2 _]]].
    rewrite F2. destruct (cache_hit ev (l_loc loc2)); [eauto|].
    destruct (auth ev (l_loc loc2)); eauto.
  Qed.
End Scope.

(* gl_lpm satisfies the hypothesis of the Scope section *)
Lemma gl_lpm_is_lpm : forall nets premask m c, wf_client c -> exists r, gl_lpm nets premask m c = Ok r /\
  hit_of r = lpm (nets m) (cfam c) (search_addr premask c) (eff_plen c).
Proof.
  intros nets premask m c _. unfold gl_lpm.
  destruct (lpm (nets m) (cfam c) (search_addr premask c) (eff_plen c)) as [[[x y] l]|].
  - eexists. split; [reflexivity|]. reflexivity.
  - eexists. split; [reflexivity|]. reflexivity.
Qed.

(* ---------------------------------------------------------------- wire options are well-formed *)

Lemma be_val_app : forall l acc, fold_left (fun a b => a * 256 + b) l acc =
  acc * 256 ^ N.of_nat (length l) + be_val l.
Proof.
  unfold be_val. induction l as [|x l IH]; intros acc.
  - simpl. lia.
  - cbn [fold_left length]. rewrite IH. rewrite (IH (0 * 256 + x)).
    rewrite Nat2N.inj_succ, N.pow_succ_r'. lia.
Qed.

Lemma be_val_bound : forall l, wf_bytes l -> be_val l < 256 ^ N.of_nat (length l).
Proof.
  induction l as [|x l IH]; intro H.
  - unfold be_val. simpl. lia.
  - inversion H; subst. unfold be_val. cbn [fold_left length]. rewrite be_val_app.
    specialize (IH H3). rewrite Nat2N.inj_succ, N.pow_succ_r'.
    assert (0 < 256 ^ N.of_nat (length l)) by (apply N.neq_0_lt_0, N.pow_nonzero; discriminate).
    nia.
Qed.

Lemma Forall_firstn' : forall (P : N -> Prop) n l, Forall P l -> Forall P (firstn n l).
Proof.
  induction n as [|n IH]; intros l H; simpl; [constructor|].
  destruct l as [|x l]; [constructor|]. inversion H; subst. constructor; auto.
Qed.

Lemma pad_to_wf : forall n l, wf_bytes l -> wf_bytes (pad_to n l) /\ length (pad_to n l) = n.
Proof.
  intros n l H. unfold pad_to. split.
  - apply Forall_firstn'. apply Forall_app. split; [exact H|].
    apply Forall_forall. intros x Hx. apply repeat_spec in Hx. subst. lia.
  - rewrite firstn_length, app_length, repeat_length. lia.
Qed.

Theorem unpack_ecs_wf : forall f s sc ab e, wf_bytes ab -> unpack_ecs f s sc ab = Some e -> wf_ecs e.
Proof.
  intros f s sc ab e Hb H. unfold unpack_ecs in H.
  destruct (f =? 0) eqn:F0.
  - destruct (s =? 0) eqn:S0; [|discriminate].
    remember first_v4 as v eqn:Hv. inversion H; subst e. left. cbn [e_fam e_src]. auto.
  - destruct (f =? 1) eqn:F1.
    + destruct ((32 <? s) || (32 <? sc)) eqn:B; [discriminate|].
      remember (first_v4 + be_val (pad_to 4 ab)) as v eqn:Hv. inversion H; subst e.
      right; left. cbn [e_fam e_src e_addr]. apply Bool.orb_false_iff in B. destruct B as [B _]. apply N.ltb_ge in B.
      split; [reflexivity|]. split; [exact B|].
      destruct (pad_to_wf 4 ab Hb) as [W L]. pose proof (be_val_bound _ W) as BV. rewrite L in BV.
      assert (P4 : 256 ^ N.of_nat 4 = 4294967296) by (vm_compute; reflexivity). rewrite P4 in BV.
      assert (C1 : first_v4 = 281470681743360) by (vm_compute; reflexivity).
      assert (C2 : after_v4 = 281474976710656) by (vm_compute; reflexivity).
      unfold is_v4. rewrite C2. rewrite C1 in Hv. subst v.
      apply Bool.andb_true_iff. split; [apply N.leb_le|apply N.ltb_lt]; lia.
    + destruct (f =? 2) eqn:F2; [|discriminate].
      destruct ((128 <? s) || (128 <? sc)) eqn:B; [discriminate|].
      remember (be_val (pad_to 16 ab)) as v eqn:Hv. inversion H; subst e.
      right; right. cbn [e_fam e_src e_addr]. apply Bool.orb_false_iff in B. destruct B as [B _]. apply N.ltb_ge in B.
      split; [reflexivity|]. split; [exact B|].
      destruct (pad_to_wf 16 ab Hb) as [W L]. pose proof (be_val_bound _ W) as BV. rewrite L in BV.
      assert (P16 : 256 ^ N.of_nat 16 = two128) by (vm_compute; reflexivity). rewrite P16 in BV.
      subst v. exact BV.
Qed.

(* ---------------------------------------------------------------- non-vacuity *)

(* map e1: 10.0.0.0/8 -> (1,1), 10.1.0.0/16 -> (1,2), 0.0.0.0/0 -> (1,3), ::/0 -> (1,4),
   2001:db8::/32 -> (1,5); map e2: 10.0.0.0/8 -> (2,1); resolver map m1: 0.0.0.0/0 -> (0,1), ::/0 -> (0,2) *)
Definition ex_nets (m : mapid) : list subnet :=
  if id_eqb m (101, 49) then
    [mkSubnet (first_v4 + 167772160) 104 (1, 1); mkSubnet (first_v4 + 167837696) 112 (1, 2);
     mkSubnet first_v4 96 (1, 3); mkSubnet 0 0 (1, 4); mkSubnet (536939960 * 2 ^ 96) 32 (1, 5)]
  else if id_eqb m (101, 50) then [mkSubnet (first_v4 + 167772160) 104 (2, 1)]
  else if id_eqb m (109, 49) then [mkSubnet first_v4 96 (0, 1); mkSubnet 0 0 (0, 2)]
  else [].
Definition ex_serve (premask : bool) (m8 : mapid) (q : query) : outcome :=
  serve (fm_of m8) (fm_of (109, 49)) (gl_lpm ex_nets premask) any_env q.
(* a query from resolver 203.0.113.9 with a cookie and an ECS option *)
Definition ex_query (fam src scope addr : N) : query :=
  mkQuery (Some (mkEdns 0 true 1232 [OOther 10 [1; 2]; OEcs (mkEcs fam src scope addr)])) (Some (first_v4 + 3405803785)).
Definition scope_loc (o : outcome) : option (N * N * N * N * locid) :=
  match o with
  | Reply r => match reply_ecs r with
               | Some e => Some (e_fam e, e_src e, e_scope e, e_addr e, r_loc r)
               | None => None
               end
  | NoReply => None
  end.

Example ecs_example : forall premask,
  (* 10.1.2.0/24 (query scope 9): 10.1.0.0/16 decides, scope 16 *)
  scope_loc (ex_serve premask (101, 49) (ex_query 1 24 9 (first_v4 + 167838208))) =
    Some (1, 24, 16, first_v4 + 167838208, (1, 2)) /\
  (* 10.1.2.0/12: only 10.0.0.0/8 is not longer than the prefix, scope 8 *)
  scope_loc (ex_serve premask (101, 49) (ex_query 1 12 0 (first_v4 + 167838208))) =
    Some (1, 12, 8, first_v4 + 167838208, (1, 1)) /\
  (* 192.0.2.0/24: the IPv4 default route decides, scope 0 *)
  scope_loc (ex_serve premask (101, 49) (ex_query 1 24 0 (first_v4 + 3221225984))) =
    Some (1, 24, 0, first_v4 + 3221225984, (1, 3)) /\
  (* 2001:db8:1::/48: 2001:db8::/32 decides, scope 32 *)
  scope_loc (ex_serve premask (101, 49) (ex_query 2 48 0 (536939960 * 2 ^ 96 + 2 ^ 80))) =
    Some (2, 48, 32, 536939960 * 2 ^ 96 + 2 ^ 80, (1, 5)) /\
  (* ::ffff:10.1.2.0/120 in family 2: an IPv4 client, 10.1.0.0/16 = /112 decides *)
  scope_loc (ex_serve premask (101, 49) (ex_query 2 120 0 (first_v4 + 167838208))) =
    Some (2, 120, 112, first_v4 + 167838208, (1, 2)) /\
  (* ::ffff:10.1.2.0/80 in family 2: an IPv6 prefix, ::/0 decides *)
  scope_loc (ex_serve premask (101, 49) (ex_query 2 80 0 (first_v4 + 167838208))) =
    Some (2, 80, 0, first_v4 + 167838208, (1, 4)) /\
  (* map e2, 11.0.0.0/8: no subnet matches, default scope 24, the resolver map decides *)
  scope_loc (ex_serve premask (101, 50) (ex_query 1 8 0 (first_v4 + 184549376))) =
    Some (1, 8, 24, first_v4 + 184549376, (0, 1)) /\
  scope_loc (ex_serve premask (101, 50) (ex_query 2 48 0 (536939960 * 2 ^ 96))) =
    Some (2, 48, 48, 536939960 * 2 ^ 96, (0, 1)) /\
  (* no client-subnet map: scope 0, the resolver map decides *)
  scope_loc (ex_serve premask (0, 0) (ex_query 1 24 17 (first_v4 + 167838208))) =
    Some (1, 24, 0, first_v4 + 167838208, (0, 1)) /\
  (* family 0: scope 0, the resolver map decides *)
  scope_loc (ex_serve premask (101, 49) (ex_query 0 0 5 first_v4)) =
    Some (0, 0, 0, first_v4, (0, 1)) /\
  (* the hypotheses of the Scope section hold for this backend *)
  (forall m c, wf_client c -> exists r, gl_lpm ex_nets premask m c = Ok r /\
     hit_of r = lpm (ex_nets m) (cfam c) (search_addr premask c) (eff_plen c)) /\
  wf_ecs (mkEcs 1 24 9 (first_v4 + 167838208)).
Proof.
  intro premask.
  repeat match goal with |- _ /\ _ => split end.
  1-10: destruct premask; vm_compute; reflexivity.
  - apply gl_lpm_is_lpm.
  - right; left. cbn [e_fam e_src e_addr]. split; [reflexivity|]. split; [discriminate|]. vm_compute. reflexivity.
Qed.

Lemma lpm_is_longest_declared : forall S f a p loc len, lpm S f a p = Some (loc, len) ->
  (exists s, In s S /\ eligible f a p s = true /\ s_loc s = loc /\ s_len s = len) /\
  (forall s, In s S -> eligible f a p s = true -> s_len s <= len).
Proof.
  intros S f a p loc len H. split; [exact (lpm_sound S f a p loc len H)|exact (lpm_longest S f a p loc len H)].
Qed.

(* ---------------------------------------------------------------- connection to C03 *)

(* the shape in which C03 states that a driver is longest-prefix match
   (Proofs/Location.v: cdb_is_lpm, same right-hand side for RocksDB): literal copies of
   its [client_plen] and [lpm_result], so that those theorems apply as they are *)
Definition c03_client_plen (a bits ones plen : N) : Prop :=
  (bits = 128 /\ ones <= 128 /\ plen = ones) \/
  (bits = 32 /\ ones <= 32 /\ is_v4 a = true /\ plen = 96 + ones).
Definition c03_lpm_result (r : option (locid * N)) : option bytes * N :=
  match r with Some (l, k) => (Some (loc_bytes l), k) | None => (None, 0) end.

Lemma first_v4_val : first_v4 = 65535 * 4294967296.
Proof. vm_compute. reflexivity. Qed.
Lemma after_v4_val : after_v4 = 65536 * 4294967296.
Proof. vm_compute. reflexivity. Qed.

Lemma is_v4_div : forall a, is_v4 a = (a / 4294967296 =? 65535).
Proof.
  intro a. unfold is_v4. rewrite first_v4_val, after_v4_val.
  pose proof (N.div_mod a 4294967296 ltac:(discriminate)) as D.
  pose proof (N.mod_lt a 4294967296 ltac:(discriminate)) as M.
  destruct (a / 4294967296 =? 65535) eqn:E.
  - apply N.eqb_eq in E. apply Bool.andb_true_iff. split; [apply N.leb_le|apply N.ltb_lt]; lia.
  - apply N.eqb_neq in E. apply Bool.andb_false_iff.
    destruct (N.lt_ge_cases (a / 4294967296) 65535) as [L|G].
    + left. apply N.leb_gt. lia.
    + right. apply N.ltb_ge. lia.
Qed.

Lemma blk_size_96 : blk_size 96 = 4294967296.
Proof. vm_compute. reflexivity. Qed.

Lemma is_v4_clean_mask : forall a l, l <= 128 ->
  is_v4 (clean_mask a l) = is_v4 a && (96 <=? l).
Proof.
  intros a l Hl. destruct (96 <=? l) eqn:E.
  - apply N.leb_le in E. rewrite Bool.andb_true_r. rewrite !is_v4_div.
    rewrite <- blk_size_96. rewrite div_clean_mask by assumption. reflexivity.
  - apply N.leb_gt in E. rewrite Bool.andb_false_r.
    rewrite is_v4_div. apply N.eqb_neq. unfold clean_mask.
    (* a multiple of 2^(128-l) = 2^33 * 2^(95-l) is an even multiple of 2^32 *)
    assert (B : blk_size l = 2 ^ (95 - l) * 8589934592).
    { unfold blk_size. change 8589934592 with (2 ^ 33). rewrite <- N.pow_add_r. f_equal. lia. }
    rewrite B. set (y := a / (2 ^ (95 - l) * 8589934592) * 2 ^ (95 - l)).
    replace (a / (2 ^ (95 - l) * 8589934592) * (2 ^ (95 - l) * 8589934592)) with ((y * 2) * 4294967296) by (unfold y; lia).
    rewrite N.div_mul by discriminate. lia.
Qed.

Theorem c03_shape_suffices : forall (nets : mapid -> list subnet) (gl : mapid -> client -> result (option bytes * N)),
  (forall m a bits ones plen, a < two128 -> c03_client_plen a bits ones plen ->
     gl m (mkClient (Some a) bits ones) =
     Ok (c03_lpm_result (lpm (nets m) (fam (clean_mask a plen)) (clean_mask a plen) plen))) ->
  forall m c, wf_client c -> exists r, gl m c = Ok r /\
    hit_of r = lpm (nets m) (cfam c) (search_addr true c) (eff_plen c).
Proof.
  intros nets gl H m c [a [Hip [Ha Hc]]]. destruct c as [ip bits ones]. cbn [c_ip c_bits c_ones] in *. subst ip.
  assert (HR : forall x, hit_of (c03_lpm_result x) = x).
  { intros [[[l1 l2] k]|]; reflexivity. }
  destruct Hc as [[-> Ho]|[-> [Ho V]]].
  - rewrite (H m a 128 ones ones Ha) by (left; auto).
    eexists. split; [reflexivity|]. rewrite HR.
    unfold cfam, eff_plen, search_addr, c_size, c_isv4, c_masked, c_addr. cbn [c_ip c_bits c_ones].
    assert (E : (128 <? ones) = false) by (apply N.ltb_ge; lia). rewrite E.
    change (128 =? 32) with false. rewrite Bool.andb_false_r. rewrite N.add_0_r.
    unfold fam. rewrite is_v4_clean_mask by assumption. reflexivity.
  - rewrite (H m a 32 ones (96 + ones) Ha) by (right; auto).
    eexists. split; [reflexivity|]. rewrite HR.
    unfold cfam, eff_plen, search_addr, c_size, c_isv4, c_masked, c_addr. cbn [c_ip c_bits c_ones].
    assert (E : (32 <? ones) = false) by (apply N.ltb_ge; lia). rewrite E.
    change (32 =? 32) with true. rewrite V. cbn [andb].
    replace (ones + 96) with (96 + ones) by lia.
    unfold fam. rewrite is_v4_clean_mask by lia. rewrite V.
    assert (E2 : (96 <=? 96 + ones) = true) by (apply N.leb_le; lia). rewrite E2. reflexivity.
Qed.
