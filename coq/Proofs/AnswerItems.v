(* C01 for the v1 reader over the compiled store: the contents of the answer section of an
   authoritative reply are exactly the declared records of name and type (or CNAME) - own records,
   else those of the covering wildcard - with their TTL and rdata; addresses appear as the
   candidate list (ttl, weight, address) with the number served. *)
From DnsV Require Import Base.Bytes Model.Store Model.LookupV1 Model.LookupV2 Model.Serve Spec.Answer Spec.Rows.
From DnsV Require Import Proofs.Answer Proofs.Compile Proofs.Shape Proofs.ZoneCut Proofs.Refused Proofs.NxDomain Proofs.SoaAuth.
From Coq Require Import ZifyN ZifyNat ZifyBool Permutation.
Open Scope N_scope.

Definition sel (qtype : N) (r : record) : bool := (r_type r =? 5) || (r_type r =? qtype) || (qtype =? 255).
Definition is_addr_rec (r : record) : bool := (r_type r =? 1) || (r_type r =? 28).
Definition item_of (qname : bytes) (r : record) : item := IRR (mkRR qname (r_type r) 1 (r_ttl r) (r_rdata r)).
Definition cand_of (r : record) : cand := (r_ttl r, r_weight r, r_rdata r).

(* what the rows of a list of records do to the state of FindAnswer's callback *)
Definition fa_apply (qname : bytes) (qtype : N) (wild : bool) (rs : list record) (s : fa_state) : fa_state :=
  let m := filter (fun r => Bool.eqb wild (r_wild r) && sel qtype r) rs in
  let '(w, an, found) := s in
  (mkWrs (w4 w ++ map cand_of (filter (fun r => r_type r =? 1) m))
         (w6 w ++ map cand_of (filter (fun r => r_type r =? 28) m)),
   an ++ map (item_of qname) (filter (fun r => negb (is_addr_rec r)) m),
   found || existsb (fun r => Bool.eqb wild (r_wild r)) rs).

Lemma fa_apply_nil : forall qname qtype wild s, fa_apply qname qtype wild [] s = s.
Proof. intros. destruct s as [[[a b] an] f]. unfold fa_apply. cbn. rewrite !app_nil_r, orb_false_r. reflexivity. Qed.

Lemma fa_apply_cons : forall qname qtype wild r t s,
  fa_apply qname qtype wild (r :: t) s = fa_apply qname qtype wild t (fa_apply qname qtype wild [r] s).
Proof.
  intros. destruct s as [[[a b] an] f]. unfold fa_apply. cbn [filter existsb].
  destruct (Bool.eqb wild (r_wild r) && sel qtype r); cbn [filter map app w4 w6 existsb].
  - destruct (r_type r =? 1); destruct (r_type r =? 28); destruct (negb (is_addr_rec r));
      cbn [map app]; rewrite <- ?app_assoc, ?app_nil_r, ?orb_false_r, ?orb_assoc; reflexivity.
  - rewrite ?app_nil_r, ?orb_false_r, ?orb_assoc. reflexivity.
Qed.

Lemma iter_fa_rows_full : forall qname qtype wild rs s, Forall wf_rec rs ->
  iter_rows (fa_cb qname qtype wild) (map row_of rs) s = (fa_apply qname qtype wild rs s, Cont).
Proof.
  induction rs as [|r t IH]; intros s Wf; cbn [map iter_rows].
  - rewrite fa_apply_nil. reflexivity.
  - inversion Wf as [|? ? Wr Wt]; subst. rewrite fa_apply_cons.
    assert (E : fa_cb qname qtype wild s (row_of r) = (fa_apply qname qtype wild [r] s, Cont)).
    { destruct s as [[w an] found]. unfold fa_cb.
      destruct (extract_row_of r wild Wr) as [E1 E2]. rewrite E1.
      unfold fa_apply. cbn [filter existsb]. rewrite orb_false_r.
      destruct (Bool.eqb wild (r_wild r)) eqn:EW; cbn [andb].
      - unfold wrs_add. rewrite E2. cbn [bind].
        change (h_type (head_of r)) with (r_type r). change (h_ttl (head_of r)) with (r_ttl r).
        change (h_weight (head_of r)) with (if (r_type r =? 1) || (r_type r =? 28) then r_weight r else 0).
        fold (sel qtype r). destruct w as [a4 a6]. rewrite orb_true_r.
        destruct (sel qtype r); cbn [filter map app w4 w6].
        + unfold is_addr_rec. destruct (r_type r =? 1) eqn:T1; cbn [orb negb filter map app].
          * rewrite !app_nil_r. assert (T28 : (r_type r =? 28) = false) by lia. rewrite T28. cbn [filter map app].
            rewrite app_nil_r. reflexivity.
          * destruct (r_type r =? 28) eqn:T28; cbn [negb filter map app]; rewrite ?app_nil_r; reflexivity.
        + rewrite !app_nil_r. reflexivity.
      - cbn [filter map app w4 w6]. rewrite !app_nil_r, orb_false_r. destruct w; reflexivity. }
    rewrite E. apply IH. exact Wt.
Qed.

Lemma fa_apply_app : forall qname qtype wild a bs s,
  fa_apply qname qtype wild (a ++ bs) s = fa_apply qname qtype wild bs (fa_apply qname qtype wild a s).
Proof.
  induction a as [|r t IH]; intros bs s; cbn [app].
  - rewrite fa_apply_nil. reflexivity.
  - rewrite fa_apply_cons, IH, <- fa_apply_cons. reflexivity.
Qed.

Lemma fa_apply_found : forall qname qtype wild rs s,
  snd (fa_apply qname qtype wild rs s) = snd s || existsb (fun r => Bool.eqb wild (r_wild r)) rs.
Proof. intros. destruct s as [[w an] f]. reflexivity. Qed.

Section V1.
Variable b : backend.
Variable recs : list record.
Variable L : bytes.
Hypothesis W : wf_recs recs.
Hypothesis HL : length L = 2%nat.
Let st := store_v1 recs.

(* the records under the keys probed for name m, in the order the reader meets them *)
Definition ordered_at (m : name) : list record :=
  (if is_loc0 L then [] else filter (fun r => bytes_eqb (key_v1 r) (L ++ pack m)) recs) ++
  filter (fun r => bytes_eqb (key_v1 r) (loc0 ++ pack m)) recs.

Lemma scan_fa_key_full : forall key qname qtype wild s,
  for_each_v1 b st key (fa_cb qname qtype wild) s =
    (fa_apply qname qtype wild (filter (fun r => bytes_eqb (key_v1 r) key) recs) s, false).
Proof.
  intros. unfold for_each_v1, st, store_v1. rewrite get_store_of, rows_for_v1, iter_fa_rows_full; [reflexivity|].
  apply Forall_filter. exact W.
Qed.

Lemma fa_step_full : forall m qname qtype wild s,
  fst (for_each_v1 b st (loc0 ++ pack m) (fa_cb qname qtype wild)
         (if is_loc0 L then s else fst (for_each_v1 b st (L ++ pack m) (fa_cb qname qtype wild) s))) =
  fa_apply qname qtype wild (ordered_at m) s.
Proof.
  intros. unfold ordered_at. rewrite !scan_fa_key_full. cbn [fst].
  destruct (is_loc0 L); cbn [app fst]; [reflexivity | rewrite fa_apply_app; reflexivity].
Qed.

(* DataReader.FindAnswer's loop: the final state *)
Lemma find_ans_state : forall m fuel wild apex qname qtype s,
  wf_name m -> wf_name apex -> snd s = false -> (length (pack m) < fuel)%nat ->
  find_ans_v1 b st fuel (pack m) (pack apex) qname qtype L wild s =
    Val (if kind_at recs L wild m then fa_apply qname qtype wild (ordered_at m) s
         else match covering_wildcard L recs apex m with
              | Some a => fa_apply qname qtype true (ordered_at a) s
              | None => s
              end).
Proof.
  induction m as [|l p IH]; intros fuel wild apex qname qtype s Hm Ha Hs Hf;
    (destruct fuel as [|fuel]; [lia|]); cbn [find_ans_v1].
  - destruct (fa_step b recs L W HL [] qname qtype wild s Hm) as [F Fu]. rewrite Hs in F. cbn [orb] in F.
    rewrite fa_step_full in *.
    assert (C : covering_wildcard L recs apex [] = None) by (cbn; destruct apex; reflexivity). rewrite C.
    rewrite <- F. destruct (snd (fa_apply qname qtype wild (ordered_at []) s)) eqn:E; [reflexivity|].
    rewrite (Fu eq_refl). destruct (bytes_eqb (pack []) (pack apex)); reflexivity.
  - destruct (fa_step b recs L W HL (l :: p) qname qtype wild s Hm) as [F Fu]. rewrite Hs in F. cbn [orb] in F.
    rewrite fa_step_full in *. rewrite <- F.
    destruct (snd (fa_apply qname qtype wild (ordered_at (l :: p)) s)) eqn:E; [reflexivity|].
    rewrite (Fu eq_refl). cbn [covering_wildcard].
    rewrite (name_eqb_pack (l :: p) apex Hm Ha).
    destruct (name_eqb (l :: p) apex); [reflexivity|].
    inversion Hm as [|? ? Hl Hp]; subst. destruct Hl as [[Hl1 Hl2] _].
    rewrite pack_cons. cbn [app]. unfold idx. cbn [N.to_nat nth_error bind].
    assert (Ez : (nlen l =? 0) = false) by lia. rewrite Ez.
    assert (Hb8 : b8 (nlen l + 1) = nlen l + 1) by (unfold b8; apply N.mod_small; lia). rewrite Hb8.
    change (nlen l :: l ++ pack p) with ([nlen l] ++ l ++ pack p).
    rewrite (slice_mid [nlen l] l (pack p)) by (unfold nlen; cbn [length]; lia). cbn [bind].
    rewrite wildsafe_same. destruct (wildsafe_label l); cbn [negb]; [|reflexivity].
    change ([nlen l] ++ l ++ pack p) with ((nlen l :: l) ++ pack p).
    rewrite (slice_from_app (nlen l :: l) (pack p)) by (rewrite nlen_cons; lia). cbn [bind].
    rewrite (IH fuel true apex qname qtype s Hp Ha Hs) by (rewrite pack_cons, app_length in Hf; cbn [length] in Hf; lia).
    rewrite (kind_wild recs L p). destruct (nonempty (wild_records L recs p)); reflexivity.
Qed.
End V1.

Lemma perm_filter_disjoint : forall {A} (p q : A -> bool) l,
  (forall x, In x l -> p x && q x = false) ->
  Permutation (filter p l ++ filter q l) (filter (fun x => p x || q x) l).
Proof.
  induction l as [|x l IH]; intros D; cbn [filter app]; [constructor|].
  assert (D' : forall y, In y l -> p y && q y = false) by (intros; apply D; right; assumption).
  pose proof (D x (or_introl eq_refl)) as Dx.
  destruct (p x) eqn:Px; cbn [orb app].
  - destruct (q x); [discriminate|]. constructor. apply IH. exact D'.
  - destruct (q x); cbn [app].
    + eapply Permutation_trans; [apply Permutation_sym, Permutation_middle|]. constructor. apply IH. exact D'.
    + apply IH. exact D'.
Qed.

Lemma filter_ext_in' : forall {A} (f g : A -> bool) l, (forall x, In x l -> f x = g x) -> filter f l = filter g l.
Proof.
  induction l as [|x l IH]; intros H; cbn [filter]; [reflexivity|].
  rewrite (H x (or_introl eq_refl)), IH; [reflexivity | intros y Hy; apply H; right; exact Hy].
Qed.

Section Perm.
Variable recs : list record.
Variable L : bytes.
Hypothesis W : wf_recs recs.
Hypothesis HL : length L = 2%nat.

(* the reader meets exactly the visible records of the name, possibly in another order *)
Lemma ordered_perm : forall (k : record -> bool) m, wf_name m ->
  Permutation (filter k (ordered_at recs L m))
              (filter (fun r => (visible L r && name_eqb (r_owner r) m) && k r) recs).
Proof.
  intros k m Hm. unfold ordered_at. rewrite filter_app.
  assert (T : filter (fun r => (visible L r && name_eqb (r_owner r) m) && k r) recs =
              filter (fun r => (bytes_eqb (key_v1 r) (L ++ pack m) && k r) || (bytes_eqb (key_v1 r) (loc0 ++ pack m) && k r)) recs).
  { apply filter_ext_in'. intros r Hin. rewrite <- (probed_iff recs L W HL r m Hin Hm).
    destruct (bytes_eqb (key_v1 r) (L ++ pack m)), (bytes_eqb (key_v1 r) (loc0 ++ pack m)), (k r); reflexivity. }
  rewrite T. destruct (is_loc0 L) eqn:EL.
  - apply bytes_eqb_eq in EL. subst L. cbn [filter app]. rewrite <- filter_and.
    erewrite filter_ext_in'; [apply Permutation_refl|]. intros r _. cbn beta.
    destruct (bytes_eqb (key_v1 r) (loc0 ++ pack m) && k r); reflexivity.
  - rewrite <- !filter_and. apply perm_filter_disjoint. intros r _.
    destruct (bytes_eqb (key_v1 r) (L ++ pack m)) eqn:E1; [|reflexivity].
    destruct (bytes_eqb (key_v1 r) (loc0 ++ pack m)) eqn:E2; [|destruct (k r); reflexivity].
    exfalso. apply bytes_eqb_eq in E1. apply bytes_eqb_eq in E2. rewrite E1 in E2.
    apply app2_inj in E2 as [E2 _]; [|exact HL | reflexivity]. subst L. discriminate.
Qed.

Definition src_ordered (z n : name) : list record :=
  if nonempty (own_records L recs n) then filter (fun r => negb (r_wild r)) (ordered_at recs L n)
  else match covering_wildcard L recs z n with
       | Some a => filter r_wild (ordered_at recs L a)
       | None => []
       end.

Lemma ancestor_cover_wf : forall z n a, wf_name n -> covering_wildcard L recs z n = Some a -> wf_name a.
Proof.
  induction n as [|l p IH]; intros a Hn H; cbn [covering_wildcard] in H.
  - destruct (name_eqb [] z); discriminate.
  - destruct (name_eqb (l :: p) z); [discriminate|]. destruct (negb (wildsafe_label l)); [discriminate|].
    inversion Hn; subst.
    destruct (nonempty (wild_records L recs p)); [inversion H; subst; assumption | eapply IH; eauto].
Qed.

Lemma src_ordered_perm : forall z n, wf_name n -> Permutation (src_ordered z n) (source_records L recs z n).
Proof.
  intros z n Hn. unfold src_ordered, source_records.
  destruct (nonempty (own_records L recs n)).
  - eapply Permutation_trans; [apply ordered_perm; exact Hn|]. unfold own_records.
    replace (filter (fun r => visible L r && negb (r_wild r) && name_eqb (r_owner r) n) recs)
      with (filter (fun r => (visible L r && name_eqb (r_owner r) n) && negb (r_wild r)) recs);
      [apply Permutation_refl|].
    apply filter_ext_in'. intros r _. destruct (visible L r), (r_wild r), (name_eqb (r_owner r) n); reflexivity.
  - destruct (covering_wildcard L recs z n) as [a|] eqn:E; [|constructor].
    eapply Permutation_trans; [apply ordered_perm; eapply ancestor_cover_wf; eauto|]. unfold wild_records.
    replace (filter (fun r => visible L r && r_wild r && name_eqb (r_owner r) a) recs)
      with (filter (fun r => (visible L r && name_eqb (r_owner r) a) && r_wild r) recs);
      [apply Permutation_refl|].
    apply filter_ext_in'. intros r _. destruct (visible L r), (r_wild r), (name_eqb (r_owner r) a); reflexivity.
Qed.
End Perm.

Lemma serve_sections_an : forall C (rd : reader C) q ecs loc auth zc an rcode c x zn rest,
  parse_name zc = Some (zn, rest) ->
  serve_sections C rd q ecs loc auth zc an rcode c = OReply x -> rs_an x = an.
Proof.
  intros C rd q ecs loc auth zc an rcode c x zn rest P H. unfold serve_sections in H. rewrite P in H.
  apply lift_reply in H as [[nsec c4] [_ H]]. apply lift_reply in H as [[m2 c6] [E2 H]].
  inversion H; subst x. cbn [rs_an]. clear H.
  destruct (additional C rd (m_an (mkMsg an nsec [])) loc (q_class q) (mkMsg an nsec []) c4) as [[m1 c5]| |] eqn:E3;
    cbn [bind] in E2; try discriminate.
  apply additional_keeps in E3. apply additional_keeps in E2. destruct E3 as [E3 _], E2 as [E2 _].
  rewrite E2, E3. reflexivity.
Qed.

Section Ans.
Variable b : backend.
Variable recs : list record.
Variable L : bytes.
Hypothesis W : wf_recs recs.
Hypothesis HL : length L = 2%nat.
Hypothesis Hb : b <> RDB2.
Hypothesis V : wf_view L recs = true.

Definition answer_of (qname : bytes) (qtype max : N) (src : list record) : list item :=
  let m := filter (sel qtype) src in
  map (item_of qname) (filter (fun r => negb (is_addr_rec r)) m) ++
  wrs_items qname 1 max 1 (map cand_of (filter (fun r => r_type r =? 1) m)) ++
  wrs_items qname 1 max 28 (map cand_of (filter (fun r => r_type r =? 28) m)).

Lemma fa_finish_apply : forall qname qtype max wild rs (kf : record -> bool),
  (forall r, Bool.eqb wild (r_wild r) = kf r) ->
  fst (fa_finish qname max (fa_apply qname qtype wild rs (wrs_empty, [], false))) =
  answer_of qname qtype max (filter kf rs).
Proof.
  intros qname qtype max wild rs kf Hk. unfold fa_apply, fa_finish, answer_of. cbn [w4 w6 wrs_empty app fst].
  assert (E : filter (fun r => Bool.eqb wild (r_wild r) && sel qtype r) rs = filter (sel qtype) (filter kf rs)).
  { rewrite <- filter_and. apply filter_ext_in'. intros r _. rewrite Hk. reflexivity. }
  rewrite E. reflexivity.
Qed.

(* the answer section of an authoritative reply: exactly the declared records of name and type
   (or CNAME; every type for ANY) among the name's own visible records, else among those of the
   covering wildcard, with owner = the name as queried, class IN, declared TTL and rdata *)
Theorem answer_exactly_declared_v1 : forall q n z ecs max x,
  wf_name n -> nlen (pack n) <= 255 -> lower_bytes (q_name q) = pack n ->
  (q_edns q = None \/ q_edns q = Some 0) ->
  zone_cut L recs n = Some z -> authoritative L recs z = true ->
  serve b (store_v1 recs) q (LocOk L) ecs max = OReply x ->
  rs_an x = answer_of (q_name q) (q_type q) max (src_ordered recs L z n) /\
  Permutation (src_ordered recs L z n) (source_records L recs z n).
Proof.
  intros q n z ecs max x Hn Hlen Hq Hv Hz Ha H.
  split; [|apply src_ordered_perm; assumption].
  destruct (ancestor_wf z n (proj1 (zone_cut_sound L recs n z Hz)) Hn) as [Hzw Hzl].
  assert (SV : serve b (store_v1 recs) q (LocOk L) ecs max =
              lift (rd_auth unit (reader_v1 b (store_v1 recs)) tt (pack n) L)
                (fun x => let '(ar, c1) := x in
                   if a_err ar then servfail q
                   else if negb (a_ns ar) && negb (a_auth ar) then refused_reply q ecs
                   else lift (serve_ds unit (reader_v1 b (store_v1 recs)) q L (pack n) ar c1)
                          (fun r => match r with
                                    | Some (ar', c2) => serve_answer unit (reader_v1 b (store_v1 recs)) q ecs L max (pack n) ar' c2
                                    | None => servfail q
                                    end))).
  { destruct b; [| |contradiction]; unfold serve, serve_with; rewrite Hq; destruct Hv as [E|E]; rewrite E; reflexivity. }
  rewrite SV in H. clear SV. unfold reader_v1 at 1 in H. cbn [rd_auth] in H. unfold is_authoritative_v1 in H.
  rewrite (is_auth_walk b recs L W HL n (S (length (pack n))) Hn V (Nat.lt_succ_diag_r _)), Hz, Ha in H.
  cbn [bind lift a_err a_ns a_auth negb andb] in H.
  unfold serve_ds in H. cbn [a_auth negb andb lift] in H.
  unfold serve_answer in H. cbn [a_auth a_zc] in H.
  unfold reader_v1 at 1 in H. cbn [rd_answer] in H. unfold find_answer_v1 in H.
  rewrite (find_ans_state b recs L W HL n (S (length (pack n))) false z (q_name q) (q_type q) (wrs_empty, [], false)
             Hn Hzw eq_refl (Nat.lt_succ_diag_r _)) in H.
  cbn [bind] in H.
  match type of H with context [fa_finish ?a ?m ?s] => destruct (fa_finish a m s) as [an found] eqn:EF end.
  cbn [bind lift] in H.
  apply (serve_sections_an _ _ _ _ _ _ _ _ _ _ _ _ _ (parse_name_pack z Hzw ltac:(lia))) in H.
  rewrite H. clear H.
  assert (Ean : an = fst (fa_finish (q_name q) max
            (if kind_at recs L false n then fa_apply (q_name q) (q_type q) false (ordered_at recs L n) (wrs_empty, [], false)
             else match covering_wildcard L recs z n with
                  | Some a => fa_apply (q_name q) (q_type q) true (ordered_at recs L a) (wrs_empty, [], false)
                  | None => (wrs_empty, [], false)
                  end))) by (rewrite EF; reflexivity).
  rewrite Ean. clear Ean EF. unfold src_ordered. rewrite <- (kind_own recs L n).
  destruct (kind_at recs L false n).
  - apply fa_finish_apply. intros r. destruct (r_wild r); reflexivity.
  - destruct (covering_wildcard L recs z n) as [a|].
    + apply fa_finish_apply. intros r. destruct (r_wild r); reflexivity.
    + unfold fa_finish, answer_of. cbn [w4 w6 wrs_empty filter map app fst]. rewrite !wrs_items_nil. reflexivity.
Qed.
End Ans.

(* scope of a wildcard, read off the spec: the covering wildcard a of n is a strict ancestor of n
   with visible wildcard records, every label stripped on the way is wild-safe, no name on the way
   (n itself and the names strictly between n and a) is the zone apex or has wildcard records
   of a closer ancestor - so the walk never leaves the zone and takes the nearest wildcard *)
Lemma covering_wildcard_scope : forall L recs apex n a,
  covering_wildcard L recs apex n = Some a ->
  exists labs, labs <> [] /\ n = labs ++ a /\ Forall (fun l => wildsafe_label l = true) labs /\
    nonempty (wild_records L recs a) = true /\
    (forall k, (k < length labs)%nat -> name_eqb (skipn k n) apex = false) /\
    (forall k, (0 < k < length labs)%nat -> nonempty (wild_records L recs (skipn k n)) = false).
Proof.
  induction n as [|l p IH]; intros a H; cbn [covering_wildcard] in H.
  - destruct (name_eqb [] apex); discriminate.
  - destruct (name_eqb (l :: p) apex) eqn:EA; [discriminate|].
    destruct (wildsafe_label l) eqn:EW; cbn [negb] in H; [|discriminate].
    destruct (nonempty (wild_records L recs p)) eqn:EN.
    + inversion H; subst a. exists [l]. repeat split; try discriminate; auto.
      * intros k Hk. cbn [length] in Hk. assert (k = 0)%nat by lia. subst. exact EA.
      * intros k Hk. cbn [length] in Hk. lia.
    + destruct (IH a H) as (labs & H1 & H2 & H3 & H4 & H5 & H6).
      exists (l :: labs). repeat split; try discriminate.
      * rewrite H2. reflexivity.
      * constructor; assumption.
      * exact H4.
      * intros k Hk. destruct k as [|k]; [exact EA|]. cbn [skipn]. apply H5. cbn [length] in Hk. lia.
      * intros k Hk. destruct k as [|k]; [lia|]. cbn [skipn]. cbn [length] in Hk.
        destruct k as [|k]; [exact EN|]. apply H6. lia.
Qed.
