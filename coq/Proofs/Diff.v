(* Proofs about Model/Diff.v (property C08): applying the line diff A -> B to a
   database compiled from A gives a database compiled from B (multiset algebra per
   key: M(A) - M(A\B) + M(B\A) = M(B), additions before deletions inside a key),
   chains of diffs, and the failure cases: a diff fails exactly when a line is
   malformed / rejected or some key would lose more than it holds, and then nothing
   is written. *)
From DnsV Require Import Model.Diff Spec.MapOfLists Proofs.MultiValue Proofs.MapOfLists Proofs.KeyOrder Proofs.Batch Proofs.CompilePipe.
From Coq Require Import Permutation Sorted ZifyN ZifyNat ZifyBool.
Open Scope N_scope.

(* ---------------------------------------------------------------- multisets of values *)

(* D is contained in L as a multiset *)
Definition msub (D L : list bytes) : Prop := exists R, Permutation L (D ++ R).

Lemma remove_firsts_some_perm : forall D L R, remove_firsts D L = Some R -> Permutation L (D ++ R).
Proof.
  induction D as [|v D IH]; intros L R H; simpl in H.
  - inversion H; subst. apply Permutation_refl.
  - destruct (remove_first v L) as [L1|] eqn:E; [|discriminate].
    destruct (remove_first_split v L L1 E) as [a [b [E1 [E2 _]]]]. subst.
    simpl. eapply Permutation_trans; [apply Permutation_sym; apply Permutation_middle|].
    constructor. apply IH. assumption.
Qed.

Lemma remove_firsts_complete : forall D L, msub D L -> exists R, remove_firsts D L = Some R.
Proof.
  induction D as [|v D IH]; intros L [R0 P]; simpl.
  - eexists. reflexivity.
  - assert (I : In v L) by (eapply Permutation_in; [apply Permutation_sym; exact P | left; reflexivity]).
    apply remove_first_in in I. destruct (remove_first v L) as [L1|] eqn:E; [|congruence].
    destruct (remove_first_split v L L1 E) as [a [b [E1 [E2 _]]]]. subst.
    apply IH. exists R0. simpl in P. apply Permutation_sym in P.
    apply Permutation_sym. eapply Permutation_cons_app_inv. exact P.
Qed.

Lemma remove_firsts_none_not_sub : forall D L, remove_firsts D L = None -> ~ msub D L.
Proof. intros D L H M. destruct (remove_firsts_complete D L M) as [R E]. congruence. Qed.

Lemma msub_perm : forall D D' L L', Permutation D D' -> Permutation L L' -> msub D L -> msub D' L'.
Proof.
  intros D D' L L' PD PL [R P]. exists R.
  eapply Permutation_trans; [apply Permutation_sym; exact PL|].
  eapply Permutation_trans; [exact P|]. apply Permutation_app_tail. assumption.
Qed.

(* ---------------------------------------------------------------- the scanner loop *)

Section Diff.
  Variable conv : bytes -> result (list kv).
  Variable sort : list kv -> list kv.
  Hypothesis HS : sort_ok sort.

  Local Notation recs_of := (recs_of bytes conv).

  (* a line ApplyDiff gets through: empty, comment, or + / - with an argument the codec accepts *)
  Definition line_ok (l : bytes) : Prop :=
    match l with
    | [] => True
    | c :: arg => c = 35 \/ ((c = 43 \/ c = 45) /\ exists x, conv arg = Ok x)
    end.

  Definition adds_of (lines : list bytes) : list kv :=
    flat_map (fun l => match l with c :: arg => if c =? 43 then recs_of arg else [] | [] => [] end) lines.
  Definition dels_of (lines : list bytes) : list kv :=
    flat_map (fun l => match l with c :: arg => if c =? 45 then recs_of arg else [] | [] => [] end) lines.

  Lemma collect_ok : forall lines a d, Forall line_ok lines ->
    collect conv lines a d = Ok (a ++ adds_of lines, d ++ dels_of lines).
  Proof.
    induction lines as [|l r IH]; intros a d F.
    - simpl. rewrite !app_nil_r. reflexivity.
    - inversion F as [|x y Hl Hr]; subst. destruct l as [|c arg].
      + cbn [collect]. rewrite IH by assumption. reflexivity.
      + cbn [collect]. unfold adds_of, dels_of in *. cbn [flat_map].
        destruct Hl as [C | [C [x Ex]]].
        * subst c. simpl. rewrite IH by assumption. reflexivity.
        * unfold Compile.recs_of. rewrite Ex. destruct C; subst c; simpl; rewrite IH by assumption;
            rewrite <- ?app_assoc; simpl; rewrite ?app_nil_r; reflexivity.
  Qed.

  Lemma collect_err : forall lines a d e, collect conv lines a d = Err e ->
    (e = E_CONV \/ e = E_BADOP) /\ exists l, In l lines /\ ~ line_ok l.
  Proof.
    induction lines as [|l r IH]; intros a d e H; [discriminate|].
    destruct l as [|c arg]; cbn [collect] in H.
    - destruct (IH _ _ _ H) as [E [l [I N]]]. split; [assumption|]. exists l. split; [right; assumption | assumption].
    - destruct (c =? 35) eqn:C1.
      { destruct (IH _ _ _ H) as [E [l [I N]]]. split; [assumption|]. exists l. split; [right; assumption | assumption]. }
      destruct (c =? 43) eqn:C2.
      { destruct (conv arg) as [x|e'] eqn:Ec.
        - destruct (IH _ _ _ H) as [E [l [I N]]]. split; [assumption|]. exists l. split; [right; assumption | assumption].
        - inversion H; subst. split; [left; reflexivity|]. exists (c :: arg). split; [left; reflexivity|].
          intros [X | [_ [x Ex]]]; [lia | congruence]. }
      destruct (c =? 45) eqn:C3.
      { destruct (conv arg) as [x|e'] eqn:Ec.
        - destruct (IH _ _ _ H) as [E [l [I N]]]. split; [assumption|]. exists l. split; [right; assumption | assumption].
        - inversion H; subst. split; [left; reflexivity|]. exists (c :: arg). split; [left; reflexivity|].
          intros [X | [_ [x Ex]]]; [lia | congruence]. }
      inversion H; subst. split; [right; reflexivity|]. exists (c :: arg). split; [left; reflexivity|].
      intros [X | [[X | X] _]]; lia.
  Qed.

  Lemma collect_ok_inv : forall lines a d r, collect conv lines a d = Ok r -> Forall line_ok lines.
  Proof.
    induction lines as [|l0 rest IH]; intros a d r C; [constructor|].
    destruct l0 as [|c arg]; cbn [collect] in C.
    - constructor; [exact Logic.I | eapply IH; eassumption].
    - destruct (c =? 35) eqn:C1.
      { constructor; [left; lia | eapply IH; eassumption]. }
      destruct (c =? 43) eqn:C2.
      { destruct (conv arg) as [y|] eqn:Ec; [|discriminate].
        constructor; [right; split; [left; lia | eauto] | eapply IH; eassumption]. }
      destruct (c =? 45) eqn:C3.
      { destruct (conv arg) as [y|] eqn:Ec; [|discriminate].
        constructor; [right; split; [right; lia | eauto] | eapply IH; eassumption]. }
      discriminate.
  Qed.

  Lemma adds_of_perm : forall l l', Permutation l l' -> Permutation (adds_of l) (adds_of l').
  Proof. intros. apply Permutation_flat_map. assumption. Qed.
  Lemma dels_of_perm : forall l l', Permutation l l' -> Permutation (dels_of l) (dels_of l').
  Proof. intros. apply Permutation_flat_map. assumption. Qed.

  Lemma adds_of_app : forall a b, adds_of (a ++ b) = adds_of a ++ adds_of b.
  Proof. intros. apply flat_map_app. Qed.
  Lemma dels_of_app : forall a b, dels_of (a ++ b) = dels_of a ++ dels_of b.
  Proof. intros. apply flat_map_app. Qed.

  Lemma adds_of_plus : forall ls, adds_of (map (cons 43) ls) = flat_map recs_of ls.
  Proof. induction ls as [|l r IH]; [reflexivity|]. unfold adds_of in *. simpl. rewrite IH. reflexivity. Qed.
  Lemma adds_of_minus : forall ls, adds_of (map (cons 45) ls) = [].
  Proof. induction ls as [|l r IH]; [reflexivity|]. unfold adds_of in *. simpl. assumption. Qed.
  Lemma dels_of_minus : forall ls, dels_of (map (cons 45) ls) = flat_map recs_of ls.
  Proof. induction ls as [|l r IH]; [reflexivity|]. unfold dels_of in *. simpl. rewrite IH. reflexivity. Qed.
  Lemma dels_of_plus : forall ls, dels_of (map (cons 43) ls) = [].
  Proof. induction ls as [|l r IH]; [reflexivity|]. unfold dels_of in *. simpl. assumption. Qed.

  (* ---------------------------------------------------------------- one diff on any store *)

  (* when every line is readable: the diff succeeds iff every key holds, after the additions,
     all the values that are to be deleted; then M(after) + M(deleted) = M(before) + M(added) *)
  Lemma apply_diff_cases : forall db d, store_ok db -> Forall line_ok d -> kvs_ok (adds_of d) ->
    match apply_diff conv sort db d with
    | Ok db' => store_ok db' /\
                forall k, Permutation (vals db' k ++ vals_of k (dels_of d)) (vals db k ++ vals_of k (adds_of d))
    | Err e => e = E_NXVAL /\ exists k, ~ msub (vals_of k (dels_of d)) (vals db k ++ vals_of k (adds_of d))
    end.
  Proof.
    intros db d S F W. unfold apply_diff. rewrite (collect_ok d [] [] F). cbn [app].
    pose proof (execute_batch_perkey sort db (adds_of d) (dels_of d) HS S W) as E.
    assert (PA : forall k, Permutation (vals_of k (sort (adds_of d))) (vals_of k (adds_of d))).
    { intro k. apply vals_of_perm. destruct (HS (adds_of d)); assumption. }
    assert (PD : forall k, Permutation (vals_of k (sort (dels_of d))) (vals_of k (dels_of d))).
    { intro k. apply vals_of_perm. destruct (HS (dels_of d)); assumption. }
    destruct (execute_batch sort db (adds_of d) (dels_of d)) as [db'|e].
    - destruct E as [S' H]. split; [assumption|]. intro k.
      pose proof (remove_firsts_some_perm _ _ _ (H k)) as P. change (abs db k) with (vals db k) in P.
      change (abs db' k) with (vals db' k) in P.
      eapply Permutation_trans; [apply Permutation_app_comm|].
      eapply Permutation_trans; [apply Permutation_app_tail; apply Permutation_sym; apply PD|].
      eapply Permutation_trans; [apply Permutation_sym; exact P|].
      apply Permutation_app_head. apply PA.
    - destruct E as [E1 [k H]]. split; [assumption|]. exists k. intro M.
      apply (remove_firsts_none_not_sub _ _ H). change (abs db k) with (vals db k).
      eapply msub_perm; [apply Permutation_sym; apply PD | | exact M].
      apply Permutation_app_head. apply Permutation_sym. apply PA.
  Qed.

  Lemma apply_diff_applicable : forall db d, store_ok db -> Forall line_ok d -> kvs_ok (adds_of d) ->
    ((exists db', apply_diff conv sort db d = Ok db') <->
     forall k, msub (vals_of k (dels_of d)) (vals db k ++ vals_of k (adds_of d))).
  Proof.
    intros db d S F W. pose proof (apply_diff_cases db d S F W) as C. split.
    - intros [db' E] k. rewrite E in C. destruct C as [_ H]. exists (vals db' k).
      eapply Permutation_trans; [apply Permutation_sym; apply H | apply Permutation_app_comm].
    - intro H. destruct (apply_diff conv sort db d) as [db'|e]; [eauto|].
      destruct C as [_ [k N]]. exfalso. apply N. apply H.
  Qed.

  (* a failing diff: the store is as before, and the failure is one of the three kinds *)
  Lemma all_or_nothing : forall db d e, store_ok db ->
    (Forall line_ok d -> kvs_ok (adds_of d)) ->
    apply_diff conv sort db d = Err e ->
    fst (apply_diff_effect conv sort db d) = db /\
    (((e = E_CONV \/ e = E_BADOP) /\ exists l, In l d /\ ~ line_ok l) \/
     (Forall line_ok d /\ e = E_NXVAL /\
      exists k, ~ msub (vals_of k (dels_of d)) (vals db k ++ vals_of k (adds_of d)))).
  Proof.
    intros db d e S W H. split; [unfold apply_diff_effect; rewrite H; reflexivity|].
    destruct (collect conv d [] []) as [[a x]|e'] eqn:C.
    - right.
      assert (F : Forall line_ok d) by (eapply collect_ok_inv; eassumption).
      pose proof (apply_diff_cases db d S F (W F)) as X. rewrite H in X. destruct X as [E K].
      split; [assumption|]. split; assumption.
    - left. unfold apply_diff in H. rewrite C in H. inversion H; subst. eapply collect_err. eassumption.
  Qed.

  (* a malformed or rejected line fails the diff whatever the other lines are *)
  Lemma bad_line_fails : forall db d, (exists l, In l d /\ ~ line_ok l) -> exists e, apply_diff conv sort db d = Err e.
  Proof.
    intros db d [l [I N]]. unfold apply_diff.
    destruct (collect conv d [] []) as [[a x]|e] eqn:C; [|eauto].
    exfalso. apply N. pose proof (collect_ok_inv _ _ _ _ C) as F. rewrite Forall_forall in F. apply F. assumption.
  Qed.
End Diff.

(* ---------------------------------------------------------------- a diff between two files *)

Section Recompile.
  Variable conv : bytes -> result (list kv).
  Variable feature : list kv.
  Variable sort : list kv -> list kv.
  Hypothesis HS : sort_ok sort.

  (* PREPROCESSED files: the subnet lines have been replaced by range point lines, so every
     line is converted on its own and the accumulator emits nothing *)
  Definition no_accum : list bytes -> list kv := fun _ => [].
  Local Notation records := (records bytes conv no_accum feature).
  Local Notation recs_of := (recs_of bytes conv).
  Local Notation accepted := (accepted bytes conv).

  (* db is a compilation of file f (C07: what the builder and the batch compiler produce) *)
  Definition compiled (f : list bytes) (db : store) : Prop :=
    store_ok db /\ forall k, Permutation (vals db k) (vals_of k (records f)).

  (* d holds, in any order, a '-' line for every line of a sub-multiset dm of A and a '+' line for
     every line of dp, where A = dm + C and B = dp + C: for C the common lines this is the diff
     A\B, B\A; nothing else is in d *)
  Definition is_line_diff (A B d : list bytes) : Prop :=
    exists dm dp C, Permutation A (dm ++ C) /\ Permutation B (dp ++ C) /\
                    Permutation d (map (cons 45) dm ++ map (cons 43) dp).

  Lemma accepted_all : forall f, accepted f = true -> forall l, In l f -> exists x, conv l = Ok x.
  Proof.
    intros f H l I. unfold Compile.accepted in H. rewrite forallb_forall in H. specialize (H l I).
    unfold accepts in H. destruct (conv l) as [x|]; [eauto | discriminate].
  Qed.

  Lemma records_split : forall f a c, Permutation f (a ++ c) -> forall k,
    Permutation (vals_of k (records f)) (vals_of k (flat_map recs_of a) ++ vals_of k (flat_map recs_of c) ++ vals_of k feature).
  Proof.
    intros f a c P k. unfold Compile.records, no_accum. simpl. rewrite vals_of_app.
    rewrite app_assoc. apply Permutation_app_tail. rewrite <- vals_of_app. apply vals_of_perm.
    rewrite <- flat_map_app. apply Permutation_flat_map. assumption.
  Qed.

  Lemma diff_is_recompile : forall A B d dbA,
    accepted A = true -> accepted B = true -> kvs_ok (records B) ->
    is_line_diff A B d -> compiled A dbA ->
    exists db', apply_diff conv sort dbA d = Ok db' /\ compiled B db'.
  Proof.
    intros A B d dbA HA HB WB [dm [dp [C [PA [PB PD]]]]] [SA VA].
    (* every line of the diff is readable *)
    assert (F : Forall (line_ok conv) d).
    { apply Forall_forall. intros l I. apply (Permutation_in _ PD) in I. apply in_app_or in I.
      destruct I as [I | I]; apply in_map_iff in I; destruct I as [x [E I]]; subst l; right.
      - split; [right; reflexivity|]. apply (accepted_all A HA).
        eapply Permutation_in; [apply Permutation_sym; exact PA | apply in_or_app; left; assumption].
      - split; [left; reflexivity|]. apply (accepted_all B HB).
        eapply Permutation_in; [apply Permutation_sym; exact PB | apply in_or_app; left; assumption]. }
    assert (EA : Permutation (adds_of conv d) (flat_map recs_of dp)).
    { eapply Permutation_trans; [apply adds_of_perm; exact PD|].
      rewrite adds_of_app, adds_of_minus, adds_of_plus. apply Permutation_refl. }
    assert (ED : Permutation (dels_of conv d) (flat_map recs_of dm)).
    { eapply Permutation_trans; [apply dels_of_perm; exact PD|].
      rewrite dels_of_app, dels_of_minus, dels_of_plus, app_nil_r. apply Permutation_refl. }
    assert (W : kvs_ok (adds_of conv d)).
    { eapply kvs_ok_perm; [apply Permutation_sym; exact EA|].
      assert (X : kvs_ok (flat_map recs_of B)).
      { unfold kvs_ok, Compile.records in *. apply Forall_app in WB. destruct WB; assumption. }
      assert (Y : Permutation (flat_map recs_of B) (flat_map recs_of dp ++ flat_map recs_of C)).
      { rewrite <- flat_map_app. apply Permutation_flat_map. assumption. }
      pose proof (kvs_ok_perm _ _ Y X) as Z. unfold kvs_ok in Z. apply Forall_app in Z. destruct Z; assumption. }
    pose proof (apply_diff_cases conv sort HS dbA d SA F W) as Cs.
    (* key by key: before = dm + C + feature *)
    assert (Before : forall k, Permutation (vals dbA k ++ vals_of k (adds_of conv d))
              (vals_of k (dels_of conv d) ++ (vals_of k (flat_map recs_of C) ++ vals_of k feature) ++ vals_of k (flat_map recs_of dp))).
    { intro k. rewrite app_assoc. apply Permutation_app; [|apply vals_of_perm; assumption].
      eapply Permutation_trans; [apply VA|]. eapply Permutation_trans; [apply (records_split A dm C PA k)|].
      apply Permutation_app_tail. apply vals_of_perm. apply Permutation_sym. assumption. }
    destruct (apply_diff conv sort dbA d) as [db'|e].
    - destruct Cs as [S' H]. exists db'. split; [reflexivity|]. split; [assumption|]. intro k.
      eapply Permutation_trans; [|apply Permutation_sym; apply (records_split B dp C PB k)].
      specialize (H k). specialize (Before k).
      assert (X : Permutation (vals_of k (dels_of conv d) ++ vals db' k)
                    (vals_of k (dels_of conv d) ++ (vals_of k (flat_map recs_of C) ++ vals_of k feature) ++ vals_of k (flat_map recs_of dp))).
      { eapply Permutation_trans; [apply Permutation_app_comm|]. eapply Permutation_trans; [exact H | exact Before]. }
      apply Permutation_app_inv_l in X. eapply Permutation_trans; [exact X|]. apply Permutation_app_comm.
    - exfalso. destruct Cs as [_ [k N]]. apply N. eexists. apply Before.
  Qed.

  (* hence the same map as any compilation of B *)
  Lemma diff_equals_fresh_compile : forall A B d dbA dbB,
    accepted A = true -> accepted B = true -> kvs_ok (records B) ->
    is_line_diff A B d -> compiled A dbA -> compiled B dbB ->
    exists db', apply_diff conv sort dbA d = Ok db' /\ forall k, Permutation (vals db' k) (vals dbB k).
  Proof.
    intros A B d dbA dbB HA HB WB D CA [_ VB].
    destruct (diff_is_recompile A B d dbA HA HB WB D CA) as [db' [E [_ V]]].
    exists db'. split; [assumption|]. intro k. eapply Permutation_trans; [apply V | apply Permutation_sym; apply VB].
  Qed.

  (* chains: A, then (d1, B1), (d2, B2), ... *)
  Fixpoint chain_ok (A : list bytes) (steps : list (list bytes * list bytes)) : Prop :=
    match steps with
    | [] => True
    | (d, B) :: r => accepted B = true /\ kvs_ok (records B) /\ is_line_diff A B d /\ chain_ok B r
    end.

  (* the file the chain ends with *)
  Definition final_file (A : list bytes) (steps : list (list bytes * list bytes)) : list bytes :=
    fold_left (fun _ s => snd s) steps A.

  Lemma diff_chain : forall steps A db, accepted A = true -> compiled A db -> chain_ok A steps ->
    exists db', apply_chain conv sort db (map fst steps) = Ok db' /\ compiled (final_file A steps) db'.
  Proof.
    induction steps as [|[d B] r IH]; intros A db HA CA H.
    - exists db. split; [reflexivity | assumption].
    - destruct H as [HB [WB [D R]]]. cbn [map fst apply_chain].
      destruct (diff_is_recompile A B d db HA HB WB D CA) as [db1 [E C1]]. rewrite E.
      destruct (IH B db1 HB C1 R) as [db' [E' C']]. exists db'. split; [assumption|].
      exact C'.
  Qed.

  (* the databases the compilers of C07 produce from a preprocessed file are compilations *)
  Lemma compiled_by_rdb : forall f db, feature <> [] -> kvs_ok (records f) ->
    rdb_compilation bytes conv no_accum feature f db -> compiled f db.
  Proof. intros f db NF W C. apply (rdb_compilation_lossless bytes conv no_accum feature f db NF W C). Qed.
End Recompile.

(* ---------------------------------------------------------------- the hypotheses are satisfiable *)

(* a codec on two byte lines: line [k; v] gives the record [k] -> [v]; k = 0 is rejected *)
Definition ex2_conv (l : bytes) : result (list kv) :=
  match l with
  | [k; v] => if k =? 0 then Err 1 else Ok [([k], [v])]
  | _ => Err 1
  end.

Lemma diff_example :
  let A := [[1; 10]; [2; 20]; [1; 11]] in
  let B := [[2; 21]; [1; 11]; [1; 11]] in
  let d := [[43; 2; 21]; [45; 1; 10]; [35; 7]; [45; 2; 20]; []; [43; 1; 11]] in
  let feature := [([0; 111], [1; 0; 0; 0])] in
  sort_ok kv_isort /\ accepted bytes ex2_conv A = true /\ accepted bytes ex2_conv B = true /\
  kvs_ok (records bytes ex2_conv no_accum feature B) /\ is_line_diff A B (filter (fun l => match l with 43 :: _ | 45 :: _ => true | _ => false end) d) /\
  exists dbA, compile_builder bytes ex2_conv kv_isort 1 2 A (records bytes ex2_conv no_accum feature A) = Ok dbA /\
    compiled ex2_conv feature A dbA /\
    (exists db', apply_diff ex2_conv kv_isort dbA d = Ok db' /\
                 vals db' [1] = [[11]; [11]] /\ vals db' [2] = [[21]] /\ vals db' [0; 111] = [[1; 0; 0; 0]]) /\
    apply_diff ex2_conv kv_isort dbA [[45; 3; 3]] = Err E_NXVAL /\
    apply_diff ex2_conv kv_isort dbA [[43; 1; 12]; [45; 1; 10]; [45; 1; 10]] = Err E_NXVAL /\
    apply_diff ex2_conv kv_isort dbA [[43; 2; 5]; [42; 1]] = Err E_BADOP /\
    apply_diff ex2_conv kv_isort dbA [[45; 1; 10]; [43; 0; 1]] = Err E_CONV.
Proof.
  cbv zeta. split; [apply sort_ok_isort|]. split; [reflexivity|]. split; [reflexivity|].
  split; [repeat constructor|]. split.
  { exists [[1; 10]; [2; 20]], [[2; 21]; [1; 11]], [[1; 11]]. simpl.
    split; [apply Permutation_refl|]. split; [apply Permutation_refl|].
    eapply perm_trans; [apply perm_swap|]. apply perm_skip. apply perm_swap. }
  eexists. split; [vm_compute; reflexivity|]. split.
  { apply compiled_by_rdb; [discriminate | repeat constructor|].
    eapply by_builder with (sort := kv_isort) (min_size := 1) (nb := 2%nat);
      [apply sort_ok_isort | lia | lia | apply Permutation_refl | vm_compute; reflexivity]. }
  split; [eexists; split; [vm_compute; reflexivity|]; vm_compute; repeat split|].
  repeat split; vm_compute; reflexivity.
Qed.
