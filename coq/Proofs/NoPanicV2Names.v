(* C13 for the closest-key (v2) reader, part 1: names and the byte-level routines of
   db/answer_sorted.go on well-formed inputs.
   - a wire-valid name is  pack n  for a list n of non-empty labels shorter than 64 bytes;
   - reverseZoneNameToBuffer (Go byte index) on such a name of at most 255 bytes, into a buffer
     with any number of spare bytes behind the name (generalises Proofs/Reverse, which asks for
     lower-case labels and two spare bytes at most);
   - getLengthWithoutLastLabel, findCommonLongestPrefix and the wild-safety scan of FindAnswer's
     pre-iteration check never index out of range on reversed packed names and return label
     boundaries;
   - the order argument: a key that SeekForPrev can return for the probe of a label prefix of the
     reversed query name shares FEWER labels with the query than the probe has (unless it is the
     probe's own name), so the walk's length strictly decreases. *)
From DnsV Require Import Base.Bytes Model.Store Model.LookupV1 Model.LookupV2 Spec.Answer Spec.Rows.
From DnsV Require Import Proofs.Compile Proofs.ZoneCut Proofs.NxDomain Proofs.Reverse Proofs.NoPanic.
From Coq Require Import ZifyN ZifyNat ZifyBool.
Ltac Zify.zify_post_hook ::= Z.div_mod_to_equations.
Open Scope N_scope.

(* ---------------------------------------------------------------- label lists *)
Definition nm_ok (n : name) : Prop := Forall (fun l : label => l <> []) n.       (* stored names *)
Definition nm64 (n : name) : Prop := Forall (fun l : label => nlen l < 64) n.    (* query names *)

Lemma nm_ok_app : forall a b, nm_ok (a ++ b) <-> nm_ok a /\ nm_ok b.
Proof. intros. unfold nm_ok. apply Forall_app. Qed.
Lemma nm_ok_firstn : forall k n, nm_ok n -> nm_ok (firstn k n).
Proof. intros k n H. rewrite <- (firstn_skipn k n) in H. apply nm_ok_app in H. tauto. Qed.
Lemma nm_ok_skipn : forall k n, nm_ok n -> nm_ok (skipn k n).
Proof. intros k n H. rewrite <- (firstn_skipn k n) in H. apply nm_ok_app in H. tauto. Qed.
Lemma nm64_skipn : forall k n, nm64 n -> nm64 (skipn k n).
Proof. intros k n H. unfold nm64 in *. rewrite <- (firstn_skipn k n) in H. apply Forall_app in H. tauto. Qed.

Lemma body_app : forall a b, body (a ++ b) = body a ++ body b.
Proof. intros. unfold body. apply flat_map_app. Qed.
Lemma body_cons : forall (l : label) p, body (l :: p) = (nlen l :: l) ++ body p.
Proof. reflexivity. Qed.
Lemma pack_app : forall a b, pack (a ++ b) = body a ++ pack b.
Proof. intros. rewrite !pack_body, body_app, <- app_assoc. reflexivity. Qed.
Lemma length_body_rev : forall n, length (body (rev n)) = length (body n).
Proof.
  induction n as [|l p IH]; [reflexivity|]. cbn [rev]. rewrite body_app, app_length, IH.
  rewrite (body_cons l p), (body_cons l []). rewrite !app_length. cbn [body flat_map length]. lia.
Qed.
Lemma nlen_pack : forall n, nlen (pack n) = nlen (body n) + 1.
Proof. intros. rewrite pack_body, nlen_app. reflexivity. Qed.
Lemma nlen_pack_rev : forall n, nlen (pack (rev n)) = nlen (pack n).
Proof. intros. rewrite !nlen_pack. unfold nlen. rewrite length_body_rev. reflexivity. Qed.
Lemma rpack_pack_rev : forall n, rpack n = pack (rev n).
Proof. reflexivity. Qed.

(* ---------------------------------------------------------------- wire-valid names are packed label lists *)
Lemma wire_fuel_pack : forall f l, wire_name_fuel f l = true -> exists n, l = pack n /\ nm_ok n /\ nm64 n.
Proof.
  induction f as [|f IH]; intros l H; [discriminate|].
  destruct l as [|c t]; [discriminate|]. cbn [wire_name_fuel] in H.
  destruct (c =? 0) eqn:E.
  - apply N.eqb_eq in E. subst c. destruct t; [|discriminate]. exists []. repeat split; constructor.
  - apply andb_prop in H as [H H3]. apply andb_prop in H as [H1 H2].
    destruct (IH _ H3) as [n' [E' [O1 O2]]].
    assert (Hl : nlen (firstn (N.to_nat c) t) = c).
    { unfold nlen in *. rewrite firstn_length. lia. }
    exists (firstn (N.to_nat c) t :: n'). split; [|split].
    + rewrite pack_cons, Hl. cbn [app]. rewrite <- E', firstn_skipn. reflexivity.
    + constructor; [|exact O1]. intros X. rewrite X in Hl. cbn in Hl. lia.
    + constructor; [|exact O2]. lia.
Qed.
Lemma wnP_pack : forall l, wnP l -> exists n, l = pack n /\ nm_ok n /\ nm64 n.
Proof. intros l [f H]. eapply wire_fuel_pack; eauto. Qed.

Lemma wnP_lower : forall l, wnP l -> wnP (lower_bytes l).
Proof. intros l [f H]. exists f. apply wire_name_lower. exact H. Qed.
Lemma nlen_lower : forall l, nlen (lower_bytes l) = nlen l.
Proof. intros. unfold lower_bytes. apply nlen_map. Qed.

(* a valid name: what the checked routines below accept *)
Definition vname (l : bytes) : Prop := wnP l /\ nlen l <= 255.
Lemma vname_lower : forall l, vname l -> vname (lower_bytes l).
Proof. intros l [H1 H2]. split; [apply wnP_lower; exact H1 | rewrite nlen_lower; exact H2]. Qed.

(* dns.UnpackDomainName yields valid names only *)
Lemma parse_fuel_wire : forall f l acc nm r, parse_name_fuel f l acc = Some (nm, r) ->
  exists s, nm = acc ++ s /\ wnP s.
Proof.
  induction f as [|f IH]; intros l acc nm r H; [discriminate|].
  destruct l as [|c t]; [discriminate|]. cbn [parse_name_fuel] in H.
  destruct (c =? 0) eqn:E.
  - inversion H; subst. exists [0]. split; [reflexivity|]. exists 1%nat. reflexivity.
  - destruct (64 <=? c) eqn:E1; [discriminate|]. destruct (nlen t <? c) eqn:E2; [discriminate|].
    destruct (IH _ _ _ _ H) as [s [Es [fs Hs]]].
    exists (c :: firstn (N.to_nat c) t ++ s). split; [rewrite Es, <- app_assoc; reflexivity|].
    exists (S fs). cbn [wire_name_fuel]. rewrite E.
    assert (Hl : length (firstn (N.to_nat c) t) = N.to_nat c) by (unfold nlen in *; rewrite firstn_length; lia).
    assert (A1 : (c <? 64) = true) by lia. rewrite A1.
    assert (A2 : (c <=? nlen (firstn (N.to_nat c) t ++ s)) = true) by (unfold nlen; rewrite app_length; lia).
    rewrite A2. cbn [andb].
    rewrite skipn_app, Hl, Nat.sub_diag, skipn_all2 by lia. exact Hs.
Qed.
Lemma parse_name_vname : forall l nm r, parse_name l = Some (nm, r) -> vname nm.
Proof.
  intros l nm r H. unfold parse_name in H.
  destruct (parse_name_fuel (S (length l)) l []) as [[n0 r0]|] eqn:E; [|discriminate].
  destruct (nlen n0 <=? 255) eqn:E2; [|discriminate]. inversion H; subst.
  destruct (parse_fuel_wire _ _ _ _ _ E) as [s [Es Hs]]. cbn [app] in Es. subst. split; [exact Hs | lia].
Qed.

(* ---------------------------------------------------------------- reverseZoneNameToBuffer *)
Lemma rev_loop_pack_gen : forall (rest : name) fuel (T : bytes),
  nm_ok rest -> (length rest < fuel)%nat -> (length (pack rest) - 1 <= 255)%nat ->
  rev_loop fuel (pack rest) (N.of_nat (length (pack rest) - 1)) (zeros (length (pack rest) - 1) ++ T) =
    Val (body (rev rest) ++ T).
Proof.
  induction rest as [|l p IH]; intros fuel T Hw Hf Hlen; (destruct fuel as [|fuel]; [lia|]).
  - reflexivity.
  - inversion Hw as [|? ? Hl Hp]; subst.
    assert (Hl1 : 1 <= nlen l) by (destruct l; [contradiction | rewrite nlen_cons; lia]).
    cbn [rev_loop]. rewrite pack_cons. cbn [app]. unfold idx. cbn [N.to_nat nth_error bind].
    assert (Ez : (nlen l =? 0) = false) by lia. rewrite Ez.
    pose proof (length_pack_ge p) as Hp1.
    rewrite pack_cons in Hlen. cbn [app length] in Hlen. rewrite app_length in Hlen.
    assert (Hi : (length (nlen l :: l ++ pack p) - 1 = length l + length (pack p))%nat) by (cbn [length]; rewrite app_length; lia).
    rewrite Hi. set (i := (length l + length (pack p))%nat) in *.
    assert (Hb1 : b8 (N.of_nat i + 256 - nlen l) = N.of_nat (i - length l)).
    { unfold b8, nlen in *. lia. }
    rewrite Hb1.
    assert (Hb2 : b8 (nlen l + 1) = nlen l + 1) by (unfold b8, nlen in *; apply N.mod_small; lia). rewrite Hb2.
    change (nlen l :: l ++ pack p) with ([nlen l] ++ l ++ pack p).
    rewrite (slice_mid [nlen l] l (pack p)) by (unfold nlen; cbn [length]; lia). cbn [bind].
    destruct (rev_step_buf i l T (nlen l)) as [d1 [C1 C2]]; [lia|].
    rewrite C1. cbn [bind].
    assert (Hb3 : b8 (N.of_nat (i - length l) + 255) = N.of_nat (i - length l - 1)).
    { unfold b8. lia. }
    rewrite Hb3, C2. cbn [bind].
    change ([nlen l] ++ l ++ pack p) with ((nlen l :: l) ++ pack p).
    rewrite (slice_from_app (nlen l :: l) (pack p)) by (rewrite nlen_cons; lia). cbn [bind].
    replace (i - length l - 1)%nat with (length (pack p) - 1)%nat by lia.
    rewrite (IH fuel ((nlen l :: l) ++ T) Hp); [| cbn [length] in Hf; lia | lia].
    cbn [rev]. unfold body. rewrite flat_map_app. cbn [flat_map app]. rewrite app_nil_r, <- !app_assoc. reflexivity.
Qed.

Lemma upd_zeros : forall (i n : nat), (i < n)%nat -> upd (zeros n) (N.of_nat i) 0 = Val (zeros n).
Proof.
  intros i n H. unfold upd.
  assert (E : (N.of_nat i <? nlen (zeros n)) = true) by (unfold nlen; rewrite zeros_length; lia).
  rewrite E, Nat2N.id. f_equal.
  replace (N.to_nat (N.of_nat i + 1)) with (i + 1)%nat by lia.
  assert (Z : zeros n = zeros i ++ [0] ++ zeros (n - i - 1)).
  { change [0] with (zeros 1). rewrite <- !zeros_app. f_equal. lia. }
  rewrite Z. rewrite (firstn_zeros_app i i) by lia.
  assert (Sk : skipn (i + 1) (zeros i ++ [0] ++ zeros (n - i - 1)) = zeros (n - i - 1)).
  { rewrite app_assoc. change [0] with (zeros 1). rewrite <- zeros_app. apply skipn_zeros_app. }
  rewrite Sk. reflexivity.
Qed.

(* the routine on a buffer with k spare bytes behind the name *)
Theorem rev_into_gen : forall n k, nm_ok n -> nlen (pack n) <= 255 ->
  rev_into (pack n) (zeros (length (pack n) + k)) = Val (rpack n ++ zeros k).
Proof.
  intros n k Hn Hlen. unfold rev_into.
  pose proof (length_pack_ge n) as Hp.
  assert (Hb : b8 (nlen (pack n) + 255) = N.of_nat (length (pack n) - 1)) by (unfold b8, nlen in *; lia).
  rewrite Hb, upd_zeros by lia. cbn [bind].
  replace (length (pack n) + k)%nat with ((length (pack n) - 1) + S k)%nat by lia.
  rewrite zeros_app.
  rewrite (rev_loop_pack_gen n (S (length (pack n))) (zeros (S k)) Hn); [| lia | unfold nlen in Hlen; lia].
  unfold rpack. rewrite pack_body, <- app_assoc. reflexivity.
Qed.

Lemma reverse_zone_name_gen : forall n, nm_ok n -> nlen (pack n) <= 255 ->
  reverse_zone_name (pack n) = Val (pack (rev n)).
Proof.
  intros n Hn Hlen. unfold reverse_zone_name.
  replace (length (pack n)) with (length (pack n) + 0)%nat by lia.
  rewrite (rev_into_gen n 0 Hn Hlen). cbn [zeros repeat]. rewrite app_nil_r. reflexivity.
Qed.

(* ForEachResourceRecord of the sorted reader never panics on a valid name, whatever the store,
   the cache and the callback *)
Lemma for_each_rr_v2_pack : forall {S} st c n loc (f : cb S) s, nm_ok n -> nlen (pack n) <= 255 ->
  exists r, for_each_rr_v2 st c (pack n) loc f s = Val r.
Proof.
  intros S st c n loc f s Hn Hlen.
  unfold for_each_rr_v2. rewrite (rev_into_gen n 2 Hn Hlen). cbn [bind].
  destruct (if is_loc0 loc then (s, false, c) else for_each_v2 st c _ f s) as [[s1 e1] c1].
  destruct e1; eexists; reflexivity.
Qed.
Lemma for_each_rr_v2_vname : forall {S} st c l loc (f : cb S) s, vname l ->
  exists r, for_each_rr_v2 st c l loc f s = Val r.
Proof.
  intros S st c l loc f s [Hw Hlen]. destruct (wnP_pack l Hw) as [n [-> [Hn _]]].
  apply for_each_rr_v2_pack; assumption.
Qed.

(* ---------------------------------------------------------------- boundaries of a packed name *)
(* R is the list of labels in key order (outermost first); the reversed query name is pack R *)
Definition pfx (R : name) (j : nat) : bytes := body (firstn j R).

Lemma pfx_eq : forall R j, pfx R j = body (firstn j R).
Proof. reflexivity. Qed.
Lemma pfx_0 : forall R, pfx R 0 = [].
Proof. reflexivity. Qed.
Lemma pfx_all : forall R, pfx R (length R) = body R.
Proof. intros. unfold pfx. rewrite firstn_all. reflexivity. Qed.
Lemma firstn_split : forall {A} (c j : nat) (R : list A), (c <= j)%nat ->
  firstn j R = firstn c R ++ firstn (j - c) (skipn c R).
Proof.
  induction c as [|c IH]; intros j R H.
  - cbn [firstn skipn app]. rewrite Nat.sub_0_r. reflexivity.
  - destruct j as [|j]; [lia|]. destruct R as [|x R].
    + cbn [firstn skipn app]. rewrite firstn_nil. reflexivity.
    + cbn [firstn skipn app]. f_equal. rewrite (IH j R) by lia. reflexivity.
Qed.
Lemma pfx_split : forall R j c, (c <= j)%nat -> exists Y, pfx R j = pfx R c ++ Y.
Proof.
  intros R j c H. unfold pfx. exists (body (firstn (j - c) (skipn c R))).
  rewrite <- body_app, <- firstn_split by exact H. reflexivity.
Qed.
Lemma pack_pfx : forall R j, pack R = pfx R j ++ pack (skipn j R).
Proof. intros. unfold pfx. rewrite <- pack_app, firstn_skipn. reflexivity. Qed.
Lemma pfx_le : forall R j, nlen (pfx R j) + 1 <= nlen (pack R).
Proof. intros. rewrite (pack_pfx R j), nlen_app. pose proof (length_pack_ge (skipn j R)). unfold nlen. lia. Qed.
Lemma pfx_S : forall R j x, nth_error R j = Some x -> pfx R (S j) = pfx R j ++ nlen x :: x.
Proof.
  intros R j x H. rewrite !pfx_eq.
  assert (E : firstn (S j) R = firstn j R ++ [x]).
  { revert R H. induction j as [|j IH]; intros [|y R] H; try discriminate.
    - inversion H; subst. reflexivity.
    - cbn [nth_error] in H. rewrite (firstn_cons (S j) y R), (IH R H), (firstn_cons j y R). reflexivity. }
  rewrite E, body_app. cbn. rewrite app_nil_r. reflexivity.
Qed.
Lemma skipn_nth : forall {A} (R : list A) j, (j < length R)%nat -> exists x, nth_error R j = Some x /\ skipn j R = x :: skipn (S j) R.
Proof.
  intros A R j. revert R. induction j as [|j IH]; intros [|y R] H; cbn [length] in H; try lia.
  - exists y. split; reflexivity.
  - destruct (IH R) as [x [E1 E2]]; [lia|]. exists x. split; [exact E1 | exact E2].
Qed.
Lemma pfx_nil_iff : forall R j, (j <= length R)%nat -> (nlen (pfx R j) = 0 <-> j = 0%nat).
Proof.
  intros R j H. split; intros E; [|subst; reflexivity].
  destruct j as [|j]; [reflexivity|]. exfalso.
  destruct (skipn_nth R 0) as [x [E1 _]]; [lia|].
  destruct R as [|y R]; [discriminate|]. unfold pfx in E. cbn [firstn] in E. rewrite body_cons in E.
  cbn [app] in E. rewrite nlen_cons in E. lia.
Qed.

(* ---------------------------------------------------------------- getLengthWithoutLastLabel *)
Lemma glwll_walk : forall (D A E : name) last fuel,
  nlen (pack (A ++ D ++ E)) <= 255 -> (length D < fuel)%nat ->
  glwll_loop fuel (pack (A ++ D ++ E)) (nlen (body (A ++ D))) (nlen (body A)) last =
    Val (match D with [] => last | _ => nlen (body (A ++ removelast D)) end + 1).
Proof.
  induction D as [|x D IH]; intros A E last fuel Hlen Hf; (destruct fuel as [|fuel]; [lia|]); cbn [glwll_loop].
  - rewrite app_nil_r. rewrite N.ltb_irrefl. reflexivity.
  - assert (L : (nlen (body A) <? nlen (body (A ++ x :: D))) = true).
    { rewrite body_app, body_cons, !nlen_app, nlen_cons. lia. }
    rewrite L.
    assert (I : idx (pack (A ++ (x :: D) ++ E)) (nlen (body A)) = Val (nlen x)).
    { rewrite pack_app. cbn [app]. rewrite pack_cons. cbn [app]. apply idx_app. reflexivity. }
    rewrite I. cbn [bind].
    assert (Hb : b8 (nlen (body A) + b8 (nlen x + 1)) = nlen (body (A ++ [x]))).
    { rewrite body_app, nlen_app. cbn [body flat_map]. rewrite app_nil_r, nlen_cons.
      rewrite pack_app in Hlen. cbn [app] in Hlen. rewrite pack_cons, !nlen_app, nlen_cons in Hlen.
      unfold b8. lia. }
    rewrite Hb.
    replace (A ++ (x :: D) ++ E) with ((A ++ [x]) ++ D ++ E) in * by (rewrite <- app_assoc; reflexivity).
    replace (A ++ x :: D) with ((A ++ [x]) ++ D) by (rewrite <- app_assoc; reflexivity).
    rewrite (IH (A ++ [x]) E (nlen (body A)) fuel Hlen) by (cbn [length] in Hf; lia).
    destruct D as [|y D]; [cbn [removelast]; rewrite app_nil_r; reflexivity|].
    f_equal. f_equal. f_equal. f_equal. cbn [removelast]. rewrite <- app_assoc. reflexivity.
Qed.

Lemma glwll_spec : forall R j, nlen (pack R) <= 255 -> (1 <= j <= length R)%nat ->
  get_length_without_last_label (pack R) (nlen (pfx R j) + 1) = Val (nlen (pfx R (j - 1)) + 1).
Proof.
  intros R j Hlen Hj. unfold get_length_without_last_label.
  pose proof (pfx_le R j) as Hle.
  assert (Hb : b8 (b8 (nlen (pfx R j) + 1) + 255) = nlen (pfx R j)) by (unfold b8; lia).
  rewrite Hb.
  assert (Hr : R = [] ++ firstn j R ++ skipn j R) by (cbn [app]; rewrite firstn_skipn; reflexivity).
  rewrite Hr at 1.
  change (nlen (pfx R j)) with (nlen (body ([] ++ firstn j R))).
  change 0 with (nlen (body [])) at 1.
  rewrite glwll_walk; [| rewrite <- Hr; exact Hlen | rewrite firstn_length; pose proof (length_pack_ge R); unfold nlen in *; lia].
  cbn [app].
  destruct (firstn j R) as [|y D] eqn:E.
  - exfalso. assert (X : length (firstn j R) = 0%nat) by (rewrite E; reflexivity). rewrite firstn_length in X. lia.
  - rewrite <- E. replace j with (S (j - 1)) at 1 by lia. rewrite removelast_firstn by lia. reflexivity.
Qed.

(* ---------------------------------------------------------------- findCommonLongestPrefix *)
Fixpoint fclp_val (R M : name) : N :=
  match R, M with
  | [], [] => 1
  | x :: r, y :: m => if bytes_eqb x y then nlen x + 1 + fclp_val r m else 0
  | _, _ => 0
  end.

Lemma fclp_inner_spec : forall (x y P1 P2 S1 S2 : bytes),
  length x = length y -> nlen P1 = nlen P2 ->
  fclp_inner (length x) (P1 ++ x ++ S1) (P2 ++ y ++ S2) (nlen P1) = Val (bytes_eqb x y).
Proof.
  induction x as [|a x IH]; intros y P1 P2 S1 S2 Hl HP; destruct y as [|b y]; try discriminate; [reflexivity|].
  cbn [length fclp_inner app].
  rewrite (idx_app P1 a (x ++ S1)) by reflexivity. rewrite (idx_app P2 b (y ++ S2)) by exact HP.
  cbn [bind bytes_eqb]. destruct (a =? b) eqn:E; [|reflexivity]. cbn [andb].
  replace (P1 ++ a :: x ++ S1) with ((P1 ++ [a]) ++ x ++ S1) by (rewrite <- app_assoc; reflexivity).
  replace (P2 ++ b :: y ++ S2) with ((P2 ++ [b]) ++ y ++ S2) by (rewrite <- app_assoc; reflexivity).
  replace (nlen P1 + 1) with (nlen (P1 ++ [a])) by (rewrite nlen_app; reflexivity).
  apply IH; [cbn [length] in Hl; lia | rewrite !nlen_app, HP; reflexivity].
Qed.

Lemma bytes_eqb_len : forall a b, bytes_eqb a b = true -> length a = length b.
Proof. intros a b H. apply bytes_eqb_eq in H. subst. reflexivity. Qed.

Lemma fclp_loop_spec : forall (R M : name) P fuel,
  nm_ok R -> nm_ok M -> (length R + 1 < fuel)%nat ->
  fclp_loop fuel (P ++ pack R) (P ++ pack M) (nlen P) = Val (nlen P + fclp_val R M).
Proof.
  induction R as [|x r IH]; intros M P fuel HR HM Hf; (destruct fuel as [|fuel]; [lia|]); cbn [fclp_loop].
  - assert (L : (nlen P <? nlen (P ++ pack [])) && (nlen P <? nlen (P ++ pack M)) = true).
    { rewrite !nlen_app, !nlen_pack. lia. }
    rewrite L. change (pack []) with ([0] : bytes).
    rewrite (idx_app P 0 []) by reflexivity. cbn [bind].
    destruct M as [|y m].
    + change (pack []) with ([0] : bytes). rewrite (idx_app P 0 []) by reflexivity. cbn [bind N.eqb negb fclp_inner N.to_nat].
      destruct fuel as [|fuel]; [lia|]. cbn [fclp_loop].
      assert (L2 : (nlen P + 0 + 1 <? nlen (P ++ [0])) = false) by (rewrite nlen_app; cbn; lia).
      rewrite L2. cbn [andb fclp_val]. f_equal. lia.
    + rewrite pack_cons. cbn [app]. rewrite (idx_app P (nlen y) (y ++ pack m)) by reflexivity. cbn [bind].
      inversion HM as [|? ? Hy Hm]; subst.
      assert (Ny : (0 =? nlen y) = false) by (destruct y; [contradiction | rewrite nlen_cons; lia]).
      rewrite Ny. cbn [negb fclp_val]. f_equal. lia.
  - assert (L : (nlen P <? nlen (P ++ pack (x :: r))) && (nlen P <? nlen (P ++ pack M)) = true).
    { rewrite !nlen_app, !nlen_pack. lia. }
    rewrite L. rewrite pack_cons. cbn [app]. rewrite (idx_app P (nlen x) (x ++ pack r)) by reflexivity. cbn [bind].
    inversion HR as [|? ? Hx Hr]; subst.
    assert (Nx : 1 <= nlen x) by (destruct x; [contradiction | rewrite nlen_cons; lia]).
    destruct M as [|y m].
    + change (pack []) with ([0] : bytes). rewrite (idx_app P 0 []) by reflexivity. cbn [bind].
      assert (E0 : (nlen x =? 0) = false) by lia. rewrite E0. cbn [negb fclp_val]. f_equal. lia.
    + rewrite pack_cons. cbn [app]. rewrite (idx_app P (nlen y) (y ++ pack m)) by reflexivity. cbn [bind].
      inversion HM as [|? ? Hy Hm]; subst.
      destruct (nlen x =? nlen y) eqn:El; cbn [negb].
      * apply N.eqb_eq in El.
        assert (Hl : length x = length y) by (unfold nlen in El; lia).
        replace (N.to_nat (nlen x)) with (length x) by (unfold nlen; lia).
        replace (P ++ nlen x :: x ++ pack r) with ((P ++ [nlen x]) ++ x ++ pack r) by (rewrite <- app_assoc; reflexivity).
        replace (P ++ nlen y :: y ++ pack m) with ((P ++ [nlen y]) ++ y ++ pack m) by (rewrite <- app_assoc; reflexivity).
        replace (nlen P + 1) with (nlen (P ++ [nlen x])) by (rewrite nlen_app; reflexivity).
        rewrite (fclp_inner_spec x y (P ++ [nlen x]) (P ++ [nlen y]) (pack r) (pack m) Hl) by (rewrite !nlen_app; reflexivity).
        cbn [bind fclp_val]. destruct (bytes_eqb x y) eqn:Exy; [|f_equal; lia].
        apply bytes_eqb_eq in Exy. subst y.
        replace ((P ++ [nlen x]) ++ x ++ pack r) with ((P ++ nlen x :: x) ++ pack r)
          by (rewrite <- !app_assoc; reflexivity).
        replace ((P ++ [nlen x]) ++ x ++ pack m) with ((P ++ nlen x :: x) ++ pack m)
          by (rewrite <- !app_assoc; reflexivity).
        replace (nlen P + nlen x + 1) with (nlen (P ++ nlen x :: x)) by (rewrite nlen_app, nlen_cons; lia).
        rewrite (IH m (P ++ nlen x :: x) fuel Hr Hm) by (cbn [length] in Hf; lia).
        f_equal. rewrite nlen_app, nlen_cons. lia.
      * cbn [fclp_val]. destruct (bytes_eqb x y) eqn:Exy; [|f_equal; lia].
        apply bytes_eqb_eq in Exy. subst y. rewrite N.eqb_refl in El. discriminate.
Qed.

Lemma fclp_spec : forall R M, nm_ok R -> nm_ok M ->
  find_common_longest_prefix (pack R) (pack M) = Val (fclp_val R M).
Proof.
  intros R M HR HM. unfold find_common_longest_prefix.
  assert (Hf : (length R + 1 < S (length (pack R)))%nat) by (pose proof (length_pack_ge R); lia).
  exact (fclp_loop_spec R M [] _ HR HM Hf).
Qed.

(* ---------------------------------------------------------------- the order argument *)
Lemma bcmp_app_l : forall p x y, bcmp (p ++ x) (p ++ y) = bcmp x y.
Proof. induction p as [|c p IH]; intros; cbn [app bcmp]; [reflexivity|]. rewrite N.compare_refl. apply IH. Qed.

(* the stored name M lies at or before the probe for the first j labels of R, and is not that
   prefix itself: M and R have fewer than j labels in common *)
Lemma fclp_below : forall (R M : name) (j : nat) (l2 loc : bytes),
  nm_ok R -> nm_ok M -> (j <= length R)%nat -> body (firstn j R) <> body M ->
  bcmp (pack M ++ l2) (pack (firstn j R) ++ loc) <> Gt ->
  exists c, (c < j)%nat /\ fclp_val R M = nlen (pfx R c).
Proof.
  induction R as [|x r IH]; intros M j l2 loc HR HM Hj Hne Hle.
  - destruct j; [|cbn in Hj; lia]. destruct M as [|y m]; [contradiction Hne; reflexivity|].
    exfalso. apply Hle. inversion HM as [|? ? Hy _]; subst.
    rewrite pack_cons. cbn [firstn app bcmp]. change (pack []) with ([0] : bytes). cbn [app bcmp].
    destruct y; [contradiction|]. rewrite nlen_cons.
    assert (Cg : (1 + nlen y ?= 0) = Gt) by (apply N.compare_gt_iff; lia). rewrite Cg. reflexivity.
  - destruct j as [|j].
    + destruct M as [|y m]; [contradiction Hne; reflexivity|].
      exfalso. apply Hle. inversion HM as [|? ? Hy _]; subst.
      rewrite pack_cons. cbn [firstn app bcmp]. change (pack []) with ([0] : bytes). cbn [app bcmp].
    destruct y; [contradiction|]. rewrite nlen_cons.
    assert (Cg : (1 + nlen y ?= 0) = Gt) by (apply N.compare_gt_iff; lia). rewrite Cg. reflexivity.
    + destruct M as [|y m]; [exists 0%nat; split; [lia | reflexivity]|].
      cbn [fclp_val]. destruct (bytes_eqb x y) eqn:E; [|exists 0%nat; split; [lia | reflexivity]].
      apply bytes_eqb_eq in E. subst y.
      inversion HR as [|? ? Hx Hr]; subst. inversion HM as [|? ? _ Hm]; subst.
      cbn [firstn] in Hne, Hle. rewrite !pack_cons, <- !app_assoc, bcmp_app_l in Hle.
      destruct (IH m j l2 loc Hr Hm) as [c [Hc Ec]]; [cbn [length] in Hj; lia | | exact Hle |].
      * intros X. apply Hne. rewrite !body_cons, X. reflexivity.
      * exists (S c). split; [lia|]. rewrite Ec. unfold pfx. cbn [firstn]. rewrite body_cons, nlen_app, nlen_cons. lia.
Qed.

(* ---------------------------------------------------------------- the wild-safety scan *)
Lemma pre_fa_walk : forall (D A E : name) fuel,
  (length D < fuel)%nat ->
  exists b, pre_fa_loop fuel (pack (A ++ D ++ E)) (nlen (body A) + 1) (nlen (body (A ++ D)) + 1) = Val b.
Proof.
  induction D as [|x D IH]; intros A E fuel Hf; (destruct fuel as [|fuel]; [lia|]); cbn [pre_fa_loop].
  - rewrite app_nil_r, N.ltb_irrefl. eexists; reflexivity.
  - assert (L : (nlen (body A) + 1 <? nlen (body (A ++ x :: D)) + 1) = true).
    { rewrite body_app, body_cons, !nlen_app, nlen_cons. lia. }
    rewrite L.
    assert (Z : (nlen (body A) + 1 =? 0) = false) by lia. rewrite Z.
    replace (nlen (body A) + 1 - 1) with (nlen (body A)) by lia.
    assert (I : idx (pack (A ++ (x :: D) ++ E)) (nlen (body A)) = Val (nlen x)).
    { rewrite pack_app. cbn [app]. rewrite pack_cons. cbn [app]. apply idx_app. reflexivity. }
    rewrite I. cbn [bind].
    assert (Sl : slice (pack (A ++ (x :: D) ++ E)) (nlen (body A) + 1) (nlen (body A) + 1 + nlen x) = Val x).
    { rewrite pack_app. cbn [app]. rewrite pack_cons. cbn [app].
      replace (body A ++ nlen x :: x ++ pack (D ++ E)) with ((body A ++ [nlen x]) ++ x ++ pack (D ++ E))
        by (rewrite <- app_assoc; reflexivity).
      apply slice_mid; rewrite nlen_app; reflexivity. }
    rewrite Sl. cbn [bind]. destruct (negb (wildsafe x)); [eexists; reflexivity|].
    replace (A ++ (x :: D) ++ E) with ((A ++ [x]) ++ D ++ E) by (rewrite <- app_assoc; reflexivity).
    replace (A ++ x :: D) with ((A ++ [x]) ++ D) by (rewrite <- app_assoc; reflexivity).
    replace (nlen (body A) + 1 + nlen x + 1) with (nlen (body (A ++ [x])) + 1).
    + apply IH. cbn [length] in Hf. lia.
    + rewrite body_app, nlen_app. cbn [body flat_map]. rewrite app_nil_r, nlen_cons. lia.
Qed.

Lemma pre_fa_spec : forall R j jl, (j <= jl <= length R)%nat ->
  exists b, pre_fa_loop (S (length (pack R))) (pack R) (nlen (pfx R j) + 1) (nlen (pfx R jl) + 1) = Val b.
Proof.
  intros R j jl H.
  assert (Hr : R = firstn j R ++ firstn (jl - j) (skipn j R) ++ skipn (jl - j) (skipn j R))
    by (rewrite firstn_skipn, firstn_skipn; reflexivity).
  assert (Hjl : firstn jl R = firstn j R ++ firstn (jl - j) (skipn j R)) by (apply firstn_split; lia).
  destruct (pre_fa_walk (firstn (jl - j) (skipn j R)) (firstn j R) (skipn (jl - j) (skipn j R)) (S (length (pack R)))) as [b Hb].
  { rewrite firstn_length. pose proof (length_pack_ge R). rewrite skipn_length. lia. }
  exists b. rewrite <- Hr, <- Hjl in Hb. exact Hb.
Qed.
