(* C04 for the label-by-label (v1) reader: serve consults the store only through
   get (L ++ name) and get ([0;0] ++ name), L the client's location.  Two stores that agree
   on those keys give the same outcome - whatever else (rows of other locations) differs. *)
From DnsV Require Import Base.Bytes Model.Store Model.LookupV1 Model.LookupV2 Model.Serve.
Open Scope N_scope.

Lemma lift_ext : forall {A} (r : res A) (k k' : A -> outcome),
  (forall a, k a = k' a) -> lift r k = lift r k'.
Proof. intros A r k k' H. destruct r; cbn; [apply H | reflexivity | reflexivity]. Qed.

Definition agree_on (L : bytes) (st st' : store) : Prop :=
  forall n, get st (L ++ n) = get st' (L ++ n) /\ get st (loc0 ++ n) = get st' (loc0 ++ n).

Section Ext.
Variable b : backend.
Variables st st' : store.
Variable L : bytes.
Hypothesis A : agree_on L st st'.

Lemma for_each_v1_L : forall {S} n (f : cb S) s, for_each_v1 b st (L ++ n) f s = for_each_v1 b st' (L ++ n) f s.
Proof. intros. unfold for_each_v1. rewrite (proj1 (A n)). reflexivity. Qed.
Lemma for_each_v1_0 : forall {S} n (f : cb S) s, for_each_v1 b st (loc0 ++ n) f s = for_each_v1 b st' (loc0 ++ n) f s.
Proof. intros. unfold for_each_v1. rewrite (proj2 (A n)). reflexivity. Qed.

Lemma for_each_rr_v1_ext : forall {S} n (f : cb S) s, for_each_rr_v1 b st n L f s = for_each_rr_v1 b st' n L f s.
Proof.
  intros. unfold for_each_rr_v1. rewrite for_each_v1_L.
  destruct (if is_loc0 L then (s, false) else for_each_v1 b st' (L ++ n) f s) as [s1 e1].
  destruct e1; [reflexivity|]. apply for_each_v1_0.
Qed.

Lemma is_auth_v1_ext : forall fuel zc ns auth, is_auth_v1 b st fuel zc L ns auth = is_auth_v1 b st' fuel zc L ns auth.
Proof.
  induction fuel as [|fuel IH]; intros; [reflexivity|]. cbn [is_auth_v1].
  rewrite for_each_v1_L.
  destruct (if is_loc0 L then (ns, auth, false) else for_each_v1 b st' (L ++ zc) auth_cb (ns, auth)) as [[ns1 auth1] e1].
  destruct e1; [reflexivity|]. rewrite for_each_v1_0.
  destruct (if auth1 && ns1 then (ns1, auth1, false) else for_each_v1 b st' (loc0 ++ zc) auth_cb (ns1, auth1)) as [[ns2 auth2] e2].
  destruct e2; [reflexivity|]. destruct ns2; [reflexivity|].
  destruct (idx zc 0) as [z0| |]; cbn [bind]; try reflexivity.
  destruct (z0 =? 0); [reflexivity|].
  destruct (slice_from zc (b8 (1 + z0))) as [zc'| |]; cbn [bind]; try reflexivity. apply IH.
Qed.

Lemma find_ans_v1_ext : forall fuel q ctrl qname qtype wild s,
  find_ans_v1 b st fuel q ctrl qname qtype L wild s = find_ans_v1 b st' fuel q ctrl qname qtype L wild s.
Proof.
  induction fuel as [|fuel IH]; intros; [reflexivity|]. cbn [find_ans_v1].
  rewrite for_each_v1_L, for_each_v1_0.
  set (s2 := fst (for_each_v1 b st' (loc0 ++ q) (fa_cb qname qtype wild)
                    (if is_loc0 L then s else fst (for_each_v1 b st' (L ++ q) (fa_cb qname qtype wild) s)))).
  destruct (snd s2); [reflexivity|]. destruct (bytes_eqb q ctrl); [reflexivity|].
  destruct (idx q 0) as [q0| |]; cbn [bind]; try reflexivity.
  destruct (q0 =? 0); [reflexivity|].
  destruct (slice q 1 (b8 (q0 + 1))) as [lab| |]; cbn [bind]; try reflexivity.
  destruct (negb (wildsafe lab)); [reflexivity|].
  destruct (slice_from q (b8 (q0 + 1))) as [q'| |]; cbn [bind]; try reflexivity. apply IH.
Qed.

Let rd := reader_v1 b st.
Let rd' := reader_v1 b st'.

Lemma additional_ext : forall recs qc m c, additional unit rd recs L qc m c = additional unit rd' recs L qc m c.
Proof.
  induction recs as [|it t IH]; intros; cbn [additional]; [reflexivity|].
  destruct (target_of it) as [name|]; [|apply IH].
  destruct (negb (has_record m name 1) || negb (has_record m name 28)); [|apply IH].
  unfold rd at 1, rd' at 1, reader_v1 at 1 2. cbn [rd_rr]. rewrite for_each_rr_v1_ext.
  destruct (for_each_rr_v1 b st' (lower_bytes name) L _ wrs_empty) as [w e]. cbn [bind]. apply IH.
Qed.

Lemma serve_sections_ext : forall q ecs auth zc an rcode c,
  serve_sections unit rd q ecs L auth zc an rcode c = serve_sections unit rd' q ecs L auth zc an rcode c.
Proof.
  intros. unfold serve_sections. destruct (parse_name zc) as [[zname rest]|]; [|reflexivity].
  assert (E : (if auth && (item_count an =? 0)
       then ' (s, _, c4) <- rd_rr unit rd (bool * list item) c zc L (soa_cb zname) (false, []);; Val (snd s, c4)
       else if negb auth && negb (has_record (mkMsg an [] []) zname 2)
            then ' (s, e, c4) <- rd_rr unit rd (list item) c zc L (ns_cb zname (q_class q)) [];; Val (if e : bool then [] else s, c4)
            else Val ([], c)) =
      (if auth && (item_count an =? 0)
       then ' (s, _, c4) <- rd_rr unit rd' (bool * list item) c zc L (soa_cb zname) (false, []);; Val (snd s, c4)
       else if negb auth && negb (has_record (mkMsg an [] []) zname 2)
            then ' (s, e, c4) <- rd_rr unit rd' (list item) c zc L (ns_cb zname (q_class q)) [];; Val (if e : bool then [] else s, c4)
            else Val ([], c))).
  { unfold rd, rd', reader_v1; cbn [rd_rr]. rewrite !for_each_rr_v1_ext. reflexivity. }
  rewrite E. apply lift_ext. intros [nsec c4]. f_equal.
  rewrite additional_ext.
  destruct (additional unit rd' (m_an (mkMsg an nsec [])) L (q_class q) (mkMsg an nsec []) c4) as [[m1 c5]| |];
    cbn [bind]; [apply additional_ext | reflexivity | reflexivity].
Qed.

Lemma serve_answer_ext : forall q ecs max packed ar c,
  serve_answer unit rd q ecs L max packed ar c = serve_answer unit rd' q ecs L max packed ar c.
Proof.
  intros. unfold serve_answer.
  assert (E : rd_answer unit rd c packed (a_zc ar) (q_name q) (q_type q) L max =
              rd_answer unit rd' c packed (a_zc ar) (q_name q) (q_type q) L max).
  { unfold rd, rd', reader_v1; cbn [rd_answer]. unfold find_answer_v1. rewrite find_ans_v1_ext. reflexivity. }
  rewrite E. apply lift_ext. intros [[an rcode] c3]. apply serve_sections_ext.
Qed.

Lemma serve_ds_ext : forall q packed ar c, serve_ds unit rd q L packed ar c = serve_ds unit rd' q L packed ar c.
Proof.
  intros. unfold serve_ds. destruct (negb (a_auth ar) && (q_type q =? 43)); [|reflexivity].
  destruct (idx packed 0) as [p0| |]; cbn [bind]; try reflexivity.
  destruct (p0 =? 0); [reflexivity|].
  destruct (slice_from packed (b8 (p0 + 1))) as [rest| |]; cbn [bind]; try reflexivity.
  unfold rd, rd', reader_v1; cbn [rd_auth]. unfold is_authoritative_v1. rewrite is_auth_v1_ext. reflexivity.
Qed.

Lemma serve_with_ext : forall q ecs max,
  serve_with unit rd tt q (LocOk L) ecs max = serve_with unit rd' tt q (LocOk L) ecs max.
Proof.
  intros. unfold serve_with.
  assert (E : rd_auth unit rd tt (lower_bytes (q_name q)) L = rd_auth unit rd' tt (lower_bytes (q_name q)) L).
  { unfold rd, rd', reader_v1; cbn [rd_auth]. unfold is_authoritative_v1. rewrite is_auth_v1_ext. reflexivity. }
  rewrite E.
  assert (K : forall x : authres * unit,
    (let '(ar, c1) := x in
       if a_err ar then servfail q
       else if negb (a_ns ar) && negb (a_auth ar)
            then OReply (mkResp (q_id q) (question_of q) 5 false [] [] [] (opt_of q ecs))
            else lift (serve_ds unit rd q L (lower_bytes (q_name q)) ar c1)
                   (fun r => match r with
                             | Some (ar', c2) => serve_answer unit rd q ecs L max (lower_bytes (q_name q)) ar' c2
                             | None => servfail q
                             end)) =
    (let '(ar, c1) := x in
       if a_err ar then servfail q
       else if negb (a_ns ar) && negb (a_auth ar)
            then OReply (mkResp (q_id q) (question_of q) 5 false [] [] [] (opt_of q ecs))
            else lift (serve_ds unit rd' q L (lower_bytes (q_name q)) ar c1)
                   (fun r => match r with
                             | Some (ar', c2) => serve_answer unit rd' q ecs L max (lower_bytes (q_name q)) ar' c2
                             | None => servfail q
                             end))).
  { intros [ar c1]. destruct (a_err ar); [reflexivity|].
    destruct (negb (a_ns ar) && negb (a_auth ar)); [reflexivity|].
    rewrite serve_ds_ext. apply lift_ext. intros [[ar' c2]|]; [apply serve_answer_ext | reflexivity]. }
  destruct (q_edns q) as [[|p]|]; [|reflexivity|]; apply lift_ext; exact K.
Qed.
End Ext.

(* C04 for CDB and RocksDB with v1 keys, at the level of stores *)
Theorem serve_v1_reads_only_visible : forall b st st' L q ecs max,
  b <> RDB2 -> agree_on L st st' ->
  serve b st q (LocOk L) ecs max = serve b st' q (LocOk L) ecs max.
Proof.
  intros b st st' L q ecs max Hb A. destruct b; [| |contradiction]; unfold serve; apply serve_with_ext; exact A.
Qed.

(* ---------------------------------------------------------------- from records to stores *)
From DnsV Require Import Spec.Answer Spec.Rows Proofs.Answer Proofs.Compile.

(* C04 for the v1 reader over compiled stores: an edit that keeps the view of location L
   (adds / changes / deletes only records tagged with other locations) changes no outcome
   for a client the server maps to L *)
Theorem foreign_edit_invisible_v1 : forall b recs recs' L q ecs max,
  b <> RDB2 -> wf_locs recs -> wf_locs recs' -> length L = 2%nat -> same_view L recs recs' ->
  serve b (store_v1 recs) q (LocOk L) ecs max = serve b (store_v1 recs') q (LocOk L) ecs max.
Proof.
  intros b recs recs' L q ecs max Hb W W' HL SV.
  apply serve_v1_reads_only_visible; [exact Hb|].
  intros n. split; eapply same_view_agree; eauto.
Qed.
