(* ClientLink (GAP 2 of the end-to-end statement): the handler model with its OWN location lookup
   (Model/Handler.v: find_client_location of Model/Ecs.v over FindMap / GetLocationByMap of
   Model/Location.v, then serve of Model/Serve.v on the same database) refines
   spec_response (declared_file f) q (client_view f q client) - for every database the C07 compilers
   produce from the text of a well-formed data file, CDB, RocksDB v1 keys, RocksDB v2 keys.

   Route: Proofs/ClientDbFacts.v says what the codec's records hold under map / subnet / prefix-set
   keys; here that is carried to the two database views (RocksDB: listing of the multi-value store,
   every such key holds ONE framed chunk; CDB: the Put stream read by first match), the C03 theorems
   (map choice v1 / v2 / cdb, RocksDB driver = lpm via GAP 1, CDB loop = lpm) give FindMap and
   GetLocationByMap, C10's find_client_location_spec gives the location FindLocation returns, which is
   Spec/ClientLocation.client_view (Proofs/ClientSpecLink.v), and C01_file_level (closed, GAP 1)
   finishes. *)
From DnsV Require Import Base.Bytes Base.Ip Spec.Lpm Model.Rearranger Model.Location Model.Ecs.
From DnsV Require Import Model.Compile Spec.MapOfLists Proofs.MultiValue Proofs.MapOfLists Proofs.Batch Proofs.CompilePipe.
From DnsV Require Import Model.Text Model.Preproc Model.Accum Model.Handler Spec.ClientLocation.
From DnsV Require Import Model.Store Model.LookupV1 Model.LookupV2 Model.Serve Spec.Answer Spec.Rows Spec.AnswerExtra Spec.Declared.
From DnsV Require Import Proofs.ZoneCut Proofs.RevOrder Proofs.V2Store Proofs.ReadsNames.
From DnsV Require Import Proofs.Lpm Proofs.Location Proofs.Rearranger Proofs.RdbLocate Proofs.SquashKeys Proofs.MapV2.
From DnsV Require Import Proofs.Ecs Proofs.LinkEcsLpm Proofs.LinkRdbDb Proofs.LinkRdbModel.
From DnsV Require Import Proofs.DeclaredLink Proofs.DeclaredWf Proofs.FileLevel Proofs.AccumLink.
From DnsV Require Import Proofs.ClientSpecLink Proofs.ClientDbFacts.
From Coq Require Import Lia Permutation Sorted ZifyN ZifyNat ZifyBool.
Open Scope N_scope.

(* ---------------------------------------------------------------- the location view of a database *)
Lemma lget_hd : forall (l : list (bytes * bytes)) K, Location.get l K = hd_error (vals_of K l).
Proof.
  induction l as [|[k v] t IH]; intros K; [reflexivity|]. cbn [Location.get]. rewrite vals_of_cons.
  destruct (bytes_eqb k K); [reflexivity | apply IH].
Qed.

Lemma perm_single : forall (l : list bytes) v, Permutation l [v] -> l = [v].
Proof. intros l v P. apply Permutation_sym, Permutation_length_1_inv in P. exact P. Qed.

(* CDB: the Put stream, read by first match *)
Lemma stream_single : forall R stream K v, Permutation stream R -> vals_of K R = [v] -> Location.get stream K = Some v.
Proof.
  intros R stream K v P E. rewrite lget_hd. pose proof (vals_of_perm K _ _ P) as Q. rewrite E in Q.
  rewrite (perm_single _ _ Q). reflexivity.
Qed.
Lemma stream_none : forall R stream K, Permutation stream R -> vals_of K R = [] -> Location.get stream K = None.
Proof.
  intros R stream K P E. rewrite lget_hd. pose proof (vals_of_perm K _ _ P) as Q. rewrite E in Q.
  apply Permutation_sym, Permutation_nil in Q. rewrite Q. reflexivity.
Qed.

(* RocksDB: the listing of a multi-value store *)
Lemma grouped_in_single : forall R dbl K v, grouped R dbl -> vals_of K R = [v] -> In (K, mv1 v) dbl.
Proof.
  intros R dbl K v [_ G2] E. destruct (G2 K) as (vs & P & Hin); [rewrite E; discriminate|].
  rewrite E in P. rewrite (perm_single _ _ P), encode_one in Hin. exact Hin.
Qed.
Lemma grouped_only : forall R dbl K w, grouped R dbl -> In (K, w) dbl ->
  vals_of K R <> [] /\ forall v, vals_of K R = [v] -> w = mv1 v.
Proof.
  intros R dbl K w [G1 _] Hin. destruct (G1 K w Hin) as (vs & NE & P & ->). split.
  - intros Z. rewrite Z in P. apply Permutation_sym, Permutation_nil in P. contradiction.
  - intros v E. rewrite E in P. rewrite (perm_single _ _ P). apply encode_one.
Qed.
Lemma grouped_single : forall R dbl K v, grouped R dbl -> vals_of K R = [v] -> Location.get dbl K = Some (mv1 v).
Proof.
  intros R dbl K v G E. rewrite lget_hd.
  destruct (vals_of K dbl) as [|w t] eqn:V.
  - exfalso. pose proof (grouped_in_single R dbl K v G E) as Hin. apply vals_of_In in Hin. rewrite V in Hin. destruct Hin.
  - cbn [hd_error]. f_equal. assert (Hin : In (K, w) dbl) by (apply vals_of_In; rewrite V; left; reflexivity).
    destruct (grouped_only R dbl K w G Hin) as [_ X]. exact (X v E).
Qed.
Lemma grouped_none : forall R dbl K, grouped R dbl -> vals_of K R = [] -> Location.get dbl K = None.
Proof.
  intros R dbl K G E. rewrite lget_hd. destruct (vals_of K dbl) as [|w t] eqn:V; [reflexivity|]. exfalso.
  assert (Hin : In (K, w) dbl) by (apply vals_of_In; rewrite V; left; reflexivity).
  destruct (grouped_only R dbl K w G Hin) as [X _]. exact (X E).
Qed.

(* ---------------------------------------------------------------- keys told apart by their second byte *)
Definition byte1 (k : bytes) : N := nth 1 k 0.
Lemma vals_of_byte1 : forall K (l : list (bytes * bytes)), (forall k v, In (k, v) l -> byte1 k <> byte1 K) -> vals_of K l = [].
Proof. intros K l H. apply vals_of_none. intros k v Hin E. apply (H k v Hin). rewrite E. reflexivity. Qed.

Lemma mkey_byte1 : forall v2 kind n wild, byte1 (mkey v2 kind n wild) = kind.
Proof. reflexivity. Qed.
Lemma net_key_byte1 : forall m a l, byte1 (net_key m a l) = 37.
Proof. reflexivity. Qed.
Lemma rp_key_byte1 : forall m p, byte1 (rp_key m p) = 0.
Proof. reflexivity. Qed.

Lemma accum_rdb_byte1 : forall sort o serial f k v, In (k, v) (accum_rdb sort o serial f) -> byte1 k = 0.
Proof.
  intros sort o serial f k v H. rewrite accum_rdb_unfold in H.
  destruct (rp_accum sort _ _) as [acc|e] eqn:E; [|destruct H].
  destruct (rp_accum_keys sort _ _ acc k v E H) as (m & pts & p & _ & _ & _ & -> & _). apply rp_key_byte1.
Qed.
Lemma accum_cdb_byte1 : forall o serial f k v, In (k, v) (accum_cdb o serial f) -> byte1 k = 47 \/ byte1 k = 52 \/ byte1 k = 54.
Proof.
  intros o serial f k v H. unfold accum_cdb, prefix_recs in H. cbn [In] in H.
  destruct H as [H|[H|[H|[]]]]; inversion H; subst; cbn; auto.
Qed.
Lemma feature_byte1 : forall v2 k v, In (k, v) [feature_kv v2] -> byte1 k = 111.
Proof. intros v2 k v [H|[]]. inversion H. reflexivity. Qed.

(* ---------------------------------------------------------------- the guards on the file *)
Definition loc_file_okb (o : toracles) (serial : N) (f : list bytes) : bool := forallb loc_rec_okb (parsed o serial f).
(* the locations the subnet lines name are usable as v1 key prefixes (FileLevel.loc_okb: not one of the
   seven two-byte markers; \000% is a real collision) *)
Definition subnet_locs_okb (o : toracles) (serial : N) (f : list bytes) : bool :=
  forallb (fun l => loc_okb (view_bytes l)) (subnet_locs (parsed o serial f)).

Lemma loc_file_no_rp : forall o serial f, loc_file_okb o serial f = true -> no_rp_lines o serial f = true.
Proof.
  intros o serial f H. unfold loc_file_okb, no_rp_lines in *. rewrite forallb_forall in *. intros r Hr. specialize (H r Hr).
  destruct r; try reflexivity. discriminate H.
Qed.

Lemma lines_convert : forall o serial nornet v2 f, wf_file o serial f = true ->
  flat_map (recs_of bytes (conv_line o serial nornet v2)) f = flat_map (convert v2 nornet) (parsed o serial f).
Proof.
  intros o serial nornet v2 f. unfold parsed. induction f as [|l t IH]; intros WF; [reflexivity|].
  cbn [wf_file forallb] in WF. apply andb_true_iff in WF as [W1 W2]. unfold wf_line_dns in W1.
  cbn [flat_map]. unfold recs_of at 1, conv_line at 1. destruct (parse_line o serial l) as [r|e]; [|discriminate W1].
  cbn [rbind app flat_map]. rewrite (IH W2). reflexivity.
Qed.

(* ---------------------------------------------------------------- what the records of the file hold *)
Section Records.
Variable sort : list point -> list point.
Variable o : toracles.
Variable serial : N.
Variable f : list bytes.
Hypothesis WF : wf_file o serial f = true.
Hypothesis LOK : loc_file_okb o serial f = true.
Let rs := parsed o serial f.
Hypothesis ONCE : maps_once rs.

Lemma rs_ok : Forall (fun r => dns_okb r = true) rs.
Proof. exact (wf_file_parsed o serial f WF). Qed.
Lemma rs_loc : Forall (fun r => loc_rec_okb r = true) rs.
Proof. apply Forall_forall. unfold loc_file_okb in LOK. rewrite forallb_forall in LOK. exact LOK. Qed.

(* the two codec configurations *)
Definition R_rdb (v2 : bool) := records bytes (conv_line o serial true v2) (accum_rdb sort o serial) [feature_kv v2] f.
Definition R_cdb := records bytes (conv_line o serial false false) (accum_cdb o serial) [feature_kv false] f.

Lemma kind_cases : forall kind, kind = 77 \/ kind = 56 -> kind <> 0 /\ kind <> 47 /\ kind <> 52 /\ kind <> 54 /\ kind <> 111 /\ kind <> 37.
Proof. intros kind [->| ->]; repeat split; discriminate. Qed.

(* map keys: the map id of the declaration, once *)
Lemma R_rdb_map_vals : forall v2 kind wild n, kind = 77 \/ kind = 56 -> wf_labelsb n = true ->
  vals_of (mkey v2 kind n wild) (R_rdb v2) =
  match lookup_decl (declared_maps rs) kind wild n with Some id => [mapid_bytes id] | None => [] end.
Proof.
  intros v2 kind wild n Hk Wn. destruct (kind_cases kind Hk) as (K0 & _ & _ & _ & K111 & _).
  unfold R_rdb, records. rewrite !vals_of_app, (lines_convert o serial true v2 f WF). fold rs.
  rewrite (lines_map_vals rs rs_ok rs_loc v2 true kind wild n Hk Wn), (once_vals _ kind wild n ONCE).
  rewrite (vals_of_byte1 _ (accum_rdb sort o serial f)), (vals_of_byte1 _ [feature_kv v2]), !app_nil_r; [reflexivity | |].
  - intros k v H. rewrite (feature_byte1 v2 k v H), mkey_byte1. congruence.
  - intros k v H. rewrite (accum_rdb_byte1 sort o serial f k v H), mkey_byte1. congruence.
Qed.

Lemma R_cdb_map_vals : forall kind wild n, kind = 77 \/ kind = 56 -> wf_labelsb n = true ->
  vals_of (mkey false kind n wild) R_cdb =
  match lookup_decl (declared_maps rs) kind wild n with Some id => [mapid_bytes id] | None => [] end.
Proof.
  intros kind wild n Hk Wn. destruct (kind_cases kind Hk) as (_ & K47 & K52 & K54 & K111 & _).
  unfold R_cdb, records. rewrite !vals_of_app, (lines_convert o serial false false f WF). fold rs.
  rewrite (lines_map_vals rs rs_ok rs_loc false false kind wild n Hk Wn), (once_vals _ kind wild n ONCE).
  rewrite (vals_of_byte1 _ (accum_cdb o serial f)), (vals_of_byte1 _ [feature_kv false]), !app_nil_r; [reflexivity | |].
  - intros k v H. rewrite (feature_byte1 false k v H), mkey_byte1. congruence.
  - intros k v H. rewrite mkey_byte1. destruct (accum_cdb_byte1 o serial f k v H) as [X|[X|X]]; rewrite X; congruence.
Qed.

(* v2: every record under the marker of a map kind is the record of a declaration *)
Lemma R_rdb_map_only : forall k v kind, kind = 77 \/ kind = 56 -> In (k, v) (R_rdb true) -> is_prefix [0; kind] k = true ->
  exists d, In d (declared_maps rs) /\ md_kind d = kind /\ k = mkey true kind (md_name d) (md_wild d) /\ wf_labelsb (md_name d) = true.
Proof.
  intros k v kind Hk Hin Hp. destruct (kind_cases kind Hk) as (K0 & _ & _ & _ & K111 & _).
  assert (B : byte1 k = kind).
  { destruct k as [|a [|b t]]; cbn [is_prefix] in Hp; [discriminate Hp | rewrite andb_false_r in Hp; discriminate Hp |].
    apply andb_true_iff in Hp as [_ Hp]. apply andb_true_iff in Hp as [Hp _]. apply N.eqb_eq in Hp. cbn. congruence. }
  unfold R_rdb, records in Hin. apply in_app_or in Hin as [Hin|Hin].
  - rewrite (lines_convert o serial true true f WF) in Hin.
    exact (lines_map_only_v2 rs rs_ok rs_loc true k v kind Hk Hin Hp).
  - exfalso. apply in_app_or in Hin as [Hin|Hin].
    + rewrite (accum_rdb_byte1 sort o serial f k v Hin) in B. congruence.
    + rewrite (feature_byte1 true k v Hin) in B. congruence.
Qed.

(* CDB subnet keys: the location of the subnet (address, length) of the map, if declared *)
Lemma R_cdb_net_vals : forall m a len, a < two128 -> wf_subnets (declared_subnets rs m) ->
  vals_of (net_key m a len) R_cdb =
  match List.find (fun s => (s_addr s =? a) && (s_len s =? len)) (declared_subnets rs m) with
  | Some s => [Rearranger.loc_bytes (s_loc s)] | None => [] end.
Proof.
  intros m a len Ha Hw. unfold R_cdb, records. rewrite !vals_of_app, (lines_convert o serial false false f WF). fold rs.
  rewrite (lines_net_vals rs rs_ok rs_loc m a len Ha), (wf_net_vals _ a len Hw).
  rewrite (vals_of_byte1 _ (accum_cdb o serial f)), (vals_of_byte1 _ [feature_kv false]), !app_nil_r; [reflexivity | |].
  - intros k v H. rewrite (feature_byte1 false k v H), net_key_byte1. discriminate.
  - intros k v H. rewrite net_key_byte1. destruct (accum_cdb_byte1 o serial f k v H) as [X|[X|X]]; rewrite X; discriminate.
Qed.

(* CDB prefix-set keys *)
Lemma R_cdb_prefix_vals :
  vals_of [0; 47] R_cdb = [prefix_set (fun _ => true) (net_dfile rs)] /\
  vals_of [0; 52] R_cdb = [prefix_set (fun s => is_v4 (s_addr s)) (net_dfile rs)] /\
  vals_of [0; 54] R_cdb = [prefix_set (fun s => negb (is_v4 (s_addr s))) (net_dfile rs)].
Proof.
  assert (Z : forall c, vals_of [0; c] (flat_map (convert false false) rs) = []).
  { intros c. apply vals_of_none. intros k v Hin E. pose proof (lines_keys_long rs rs_ok rs_loc false k v Hin) as L. subst k. cbn in L. lia. }
  unfold R_cdb, records. rewrite !vals_of_app, (lines_convert o serial false false f WF). fold rs.
  rewrite !Z. cbn [app]. unfold accum_cdb, prefix_recs. change (parsed_lines o serial f) with rs.
  generalize (prefix_set (fun _ => true) (net_dfile rs)) (prefix_set (fun s => is_v4 (s_addr s)) (net_dfile rs))
             (prefix_set (fun s => negb (is_v4 (s_addr s))) (net_dfile rs)).
  intros P0 P4 P6. repeat split; reflexivity.
Qed.
End Records.
