(* Proofs/LinkWrsGlueExample: the exact glue of a referral is not vacuous (vm_compute). *)
From DnsV Require Import Base.Bytes Model.Store Model.LookupV1 Model.Serve.
From DnsV Require Import Spec.Answer Spec.Rows Spec.AnswerExtra Proofs.Compile.
From DnsV Require Model.Wrs.
From DnsV Require Import Model.ComposeMore Proofs.LinkWrsServe Proofs.LinkWrsServeExample Proofs.LinkWrsGlue.
Open Scope N_scope.

(* zone z. delegates s.z. to a.s.z. (an A record of weight 1, an AAAA record of weight 0) and to b.o. (no address) *)
Definition g_recs : list record :=
  [mkRec [[122]] false None 6 60 0 e_soa;
   mkRec [[122]] false None 2 60 0 [1; 110; 1; 122; 0];
   mkRec [[115]; [122]] false None 2 60 0 [1; 97; 1; 115; 1; 122; 0];
   mkRec [[115]; [122]] false None 2 60 0 [1; 98; 1; 111; 0];
   mkRec [[97]; [115]; [122]] false None 1 30 1 [192; 0; 2; 1];
   mkRec [[97]; [115]; [122]] false None 28 30 0 [1; 2; 3; 4; 5; 6; 7; 8; 9; 10; 11; 12; 13; 14; 15; 16]].
Definition g_q : query := mkQ 9 [1; 119; 1; 115; 1; 122; 0] 1 1 None.       (* A w.s.z. *)
Definition g_n : name := [[119]; [115]; [122]].
Definition g_z : name := [[115]; [122]].
Definition g_y : cresponse :=
  mkCResp 9 (Some ([1; 119; 1; 115; 1; 122; 0], 1, 1)) 0 false []
    [mkRR [1; 115; 1; 122; 0] 2 1 60 [1; 97; 1; 115; 1; 122; 0]; mkRR [1; 115; 1; 122; 0] 2 1 60 [1; 98; 1; 111; 0]]
    [mkRR [1; 97; 1; 115; 1; 122; 0] 1 1 30 [192; 0; 2; 1]] None.

Example referral_glue_example :
  wf_view e_L g_recs = true /\ lower_bytes (q_name g_q) = pack g_n /\
  zone_cut e_L g_recs g_n = Some g_z /\ authoritative e_L g_recs g_z = false /\
  (forall x, serve CDB (store_v1 g_recs) g_q (LocOk e_L) None 2 = OReply x ->
     realise N Model.Wrs.rk_lt Model.Wrs.rk_pos draw_key e_dr 2 x = g_y) /\
  has_pos_addr e_L g_recs [1; 97; 1; 115; 1; 122; 0] 1 = true /\
  has_pos_addr e_L g_recs [1; 97; 1; 115; 1; 122; 0] 28 = false /\
  has_pos_addr e_L g_recs [1; 98; 1; 111; 0] 1 = false /\
  kcount [1; 97; 1; 115; 1; 122; 0] 1 (c_ex g_y) = 1%nat /\
  kcount [1; 97; 1; 115; 1; 122; 0] 28 (c_ex g_y) = 0%nat /\
  kcount [1; 98; 1; 111; 0] 1 (c_ex g_y) = 0%nat.
Proof.
  split; [vm_compute; reflexivity|]. split; [vm_compute; reflexivity|]. split; [vm_compute; reflexivity|].
  split; [vm_compute; reflexivity|].
  split; [intros x H; vm_compute in H; inversion H; subst x; vm_compute; reflexivity|].
  vm_compute. repeat split; reflexivity.
Qed.

(* the same referral through Model/Wrs.additional_section (Proofs/LinkWrsAdditional.v): names coded by gcode; the
   message before the loop holds the two NS records of s.z.; the loop returns one record, the A record of a.s.z.
   (candidate 0 of its pick), which is the realised additional section *)
From DnsV Require Import Proofs.Referral Proofs.Glue Proofs.LinkWrsAdditional.

Definition g_m0 : msg := mkMsg [] (map (ns_item (pack g_z) 1) (ns_of_cut g_recs e_L g_z)) [].
Definition g_ts : list bytes := map r_rdata (ns_of_cut g_recs e_L g_z).
Definition g_tr : list (bytes * N * payload) := [([1; 97; 1; 115; 1; 122; 0], 1, (0%nat, (30, 1, [192; 0; 2; 1])))].

Example referral_additional_section_example :
  g_ts = [[1; 97; 1; 115; 1; 122; 0]; [1; 98; 1; 111; 0]] /\
  gtriples g_recs e_L 1 N Model.Wrs.rk_lt Model.Wrs.rk_pos draw_key (e_dr sec_ex) g_m0 g_ts = g_tr /\
  fst (Model.Wrs.additional_section Model.Wrs.rk_lt Model.Wrs.rk_pos (msg_code gcode g_m0)
         (trows g_recs e_L 1 N draw_key gcode (e_dr sec_ex) g_m0 g_ts)) = (map (enc gcode) g_tr, false) /\
  c_ex g_y = map (triple_rr 1) g_tr /\
  msg_code gcode g_m0 = [(gcode [1; 115; 1; 122; 0], 2); (gcode [1; 115; 1; 122; 0], 2)].
Proof. vm_compute. repeat split; reflexivity. Qed.
