(* Proofs/Refcount: the invariant of Model/Refcount and the C06 theorems. *)
From DnsV Require Import Base.Bytes Spec.Handles Model.Refcount.
From Coq Require Import ZifyN ZifyNat ZifyBool.
Open Scope N_scope.

(* ------------------------------------------------------------------ basics *)
Ltac feq :=
  repeat match goal with
  | |- context[Nat.eqb ?a ?b] => destruct (Nat.eqb_spec a b); subst
  | H : context[Nat.eqb ?a ?b] |- _ => destruct (Nat.eqb_spec a b); subst
  end.

Lemma fupd_eq : forall A (f : nat -> A) i v, fupd f i v i = v.
Proof. intros. unfold fupd. now rewrite Nat.eqb_refl. Qed.
Lemma fupd_neq : forall A (f : nat -> A) i v j, j <> i -> fupd f i v j = f j.
Proof. intros. unfold fupd. destruct (Nat.eqb_spec j i); congruence. Qed.

(* number of held readers that pin wrapper i *)
Fixpoint nheld (i : nat) (rs : list (nat * nat)) : N :=
  match rs with
  | [] => 0
  | (_, j) :: t => (if Nat.eqb j i then 1 else 0) + nheld i t
  end.

Lemma nheld_in : forall i rs r, In (r, i) rs -> 1 <= nheld i rs.
Proof.
  induction rs as [|[r' j] t IH]; cbn; intros r H; [easy|].
  destruct H as [H|H]. { inversion H; subst. rewrite Nat.eqb_refl. lia. }
  specialize (IH _ H). destruct (Nat.eqb j i); lia.
Qed.

Lemma nheld_pos_in : forall i rs, 1 <= nheld i rs -> exists r, In (r, i) rs.
Proof.
  induction rs as [|[r' j] t IH]; cbn; intros H; [lia|].
  destruct (Nat.eqb_spec j i).
  - subst. exists r'. now left.
  - destruct IH as [r Hr]; [lia|]. exists r. now right.
Qed.

Lemma lookup_in : forall r rs i, lookup r rs = Some i -> In (r, i) rs.
Proof.
  induction rs as [|[r' j] t IH]; cbn; intros i H; [easy|].
  destruct (Nat.eqb_spec r' r).
  - inversion H; subst. now left.
  - right. auto.
Qed.

Lemma in_remove_r : forall r rs p, In p (remove_r r rs) -> In p rs.
Proof.
  induction rs as [|[r' j] t IH]; cbn; intros p H; [easy|].
  destruct (Nat.eqb r' r); [now right|].
  destruct H; [now left|right; auto].
Qed.

Lemma nheld_remove_r : forall r rs i, lookup r rs = Some i ->
  forall j, nheld j rs = (if Nat.eqb i j then 1 else 0) + nheld j (remove_r r rs).
Proof.
  induction rs as [|[r' k] t IH]; cbn; intros i H j; [easy|].
  destruct (Nat.eqb_spec r' r).
  - inversion H; subst. reflexivity.
  - cbn. rewrite (IH _ H j). lia.
Qed.

Lemma in_remove_nth : forall A (l : list A) i x, In x (remove_nth i l) -> In x l.
Proof.
  induction l as [|a t IH]; intros [|i] x H; cbn in *; auto.
  destruct H; [now left|right; eauto].
Qed.

(* ------------------------------------------------------------------ the log *)
Definition LogInv (lg : list event) (bk : nat -> N) (n : nat) : Prop :=
  (forall b, closes lg b = bk b) /\
  (forall b, openedb lg b = true <-> (b < n)%nat) /\
  no_use_after_close lg /\
  (forall b, (n <= b)%nat -> bk b = 0).

Lemma LI_touch : forall lg bk n b o, LogInv lg bk n ->
  bk b = 0 -> is_close o = false -> is_open o = false -> LogInv ((b, o) :: lg) bk n.
Proof.
  intros lg bk n b o (Hc & Ho & Hu & Hf) Hb Hcl Hop. repeat split.
  - intro b'. cbn. rewrite Hcl, andb_false_r. apply Hc.
  - cbn. rewrite Hop, andb_false_r. apply Ho.
  - cbn. rewrite Hop, andb_false_r. apply Ho.
  - intros _. now rewrite Hc.
  - exact Hu.
  - exact Hf.
Qed.

Lemma LI_close : forall lg bk n b, LogInv lg bk n -> (b < n)%nat ->
  LogInv ((b, OpClose) :: lg) (fupd bk b (bk b + 1)) n.
Proof.
  intros lg bk n b (Hc & Ho & Hu & Hf) Hb. repeat split.
  - intro b'. cbn [closes]. change (is_close OpClose) with true. unfold fupd. rewrite Hc.
    destruct (Nat.eqb_spec b b'); destruct (Nat.eqb_spec b' b); subst; try congruence; cbn [andb]; lia.
  - cbn. rewrite andb_false_r. apply Ho.
  - cbn. rewrite andb_false_r. apply Ho.
  - cbn. discriminate.
  - exact Hu.
  - intros b' Hb'. unfold fupd. destruct (Nat.eqb_spec b' b); [lia|]. auto.
Qed.

Lemma LI_alloc : forall lg bk n, LogInv lg bk n ->
  LogInv ((n, OpOpen) :: lg) (fupd bk n 0) (S n).
Proof.
  intros lg bk n (Hc & Ho & Hu & Hf). repeat split.
  - intro b'. cbn. rewrite andb_false_r. unfold fupd. rewrite Hc.
    destruct (Nat.eqb_spec b' n); subst; auto. rewrite Hf; lia.
  - cbn. intro H. destruct (Nat.eqb_spec n b); cbn in H; [lia|]. apply Ho in H. lia.
  - cbn. intro H. destruct (Nat.eqb_spec n b); cbn; [easy|]. apply Ho. lia.
  - intros _. rewrite Hc. apply Hf. lia.
  - exact Hu.
  - intros b' Hb'. unfold fupd. destruct (Nat.eqb_spec b' n); [lia|]. apply Hf. lia.
Qed.

(* ------------------------------------------------------------------ the invariant *)
Record Inv (s : state) : Prop := mkInv {
  I_served : (served s < nw s)%nat;
  I_bk : forall i, (i < nw s)%nat -> (w_bk (ws s i) < nb s)%nat;
  I_inj : forall i j, (i < nw s)%nat -> (j < nw s)%nat -> w_bk (ws s i) = w_bk (ws s j) -> i = j;
  I_ref : forall i, (i < nw s)%nat -> w_ref (ws s i) = nheld i (readers s);
  I_des : forall i, (i < nw s)%nat -> w_destroyable (ws s i) = negb (Nat.eqb i (served s)) || shut s;
  I_cl : forall i, (i < nw s)%nat ->
         bks s (w_bk (ws s i)) = if w_destroyable (ws s i) && (w_ref (ws s i) =? 0) then 1 else 0;
  I_orphan : forall b, (b < nb s)%nat -> (forall i, (i < nw s)%nat -> w_bk (ws s i) <> b) -> bks s b = 1;
  I_rd : forall r i, In (r, i) (readers s) -> (i < nw s)%nat;
  I_pend : forall p, In p (pending s) -> p = served s /\ shut s = false;
  I_log : LogInv (log s) (bks s) (nb s) }.

Lemma inv_init : Inv init.
Proof.
  constructor; cbn.
  - lia.
  - intros; lia.
  - intros; lia.
  - reflexivity.
  - intros i Hi. destruct i; [reflexivity|lia].
  - reflexivity.
  - intros b Hb H. exfalso. apply (H 0%nat); lia.
  - easy.
  - easy.
  - unfold LogInv. split; [|split; [|split]]; cbn; try easy.
    + intro b. now rewrite andb_false_r.
    + intro b. destruct b; cbn; split; intro H; try easy; lia.
Qed.
Lemma served_open : forall s, Inv s -> shut s = false -> bks s (w_bk (ws s (served s))) = 0.
Proof.
  intros s HI Hs. rewrite (I_cl s HI _ (I_served s HI)), (I_des s HI _ (I_served s HI)), Nat.eqb_refl, Hs.
  reflexivity.
Qed.

Lemma step_acquire : forall s r, Inv s -> ok_op s (Acquire r) = true -> Inv (step (Acquire r) s).
Proof.
  intros s r HI Hok. pose proof (served_open s HI) as Hopen.
  destruct HI as [Hsv Hbk Hinj Href Hdes Hcl Horph Hrd Hpend Hlog].
  destruct s as [sv n w m bk rd pd sh lg]. cbn in *.
  apply andb_prop in Hok. destruct Hok as [Hsh _]. apply negb_true_iff in Hsh. subst sh.
  specialize (Hopen eq_refl).
  constructor; cbn.
  - exact Hsv.
  - intros i Hi. unfold fupd. destruct (Nat.eqb_spec i sv); subst; cbn; auto.
  - intros i j Hi Hj. unfold fupd. destruct (Nat.eqb_spec i sv); destruct (Nat.eqb_spec j sv); subst; cbn; intro E; auto.
  - intros i Hi. unfold fupd. destruct (Nat.eqb_spec i sv); subst; cbn.
    + rewrite Nat.eqb_refl, Href by auto. lia.
    + destruct (Nat.eqb_spec sv i); [congruence|]. rewrite Href by auto. lia.
  - intros i Hi. rewrite <- Hdes by auto. unfold fupd. destruct (Nat.eqb_spec i sv); subst; reflexivity.
  - intros i Hi. unfold fupd. destruct (Nat.eqb_spec i sv); subst; cbn; auto.
    rewrite Hdes by auto. rewrite Nat.eqb_refl. cbn. exact Hopen.
  - intros b Hb H. apply Horph; auto. intros i Hi. specialize (H i Hi). unfold fupd in H.
    destruct (Nat.eqb_spec i sv); subst; cbn in H; auto.
  - intros r' i [H|H]; [inversion H; subst; auto|eauto].
  - exact Hpend.
  - apply LI_touch; auto. apply LI_touch; auto.
Qed.

Lemma nheld_ge : forall n rs, (forall r i, In (r, i) rs -> (i < n)%nat) -> nheld n rs = 0.
Proof.
  induction rs as [|[r j] t IH]; cbn; intros H; [easy|].
  rewrite IH by (intros; eapply H; right; eauto).
  assert (j < n)%nat by (eapply H; left; eauto).
  destruct (Nat.eqb_spec j n); [lia|reflexivity].
Qed.

Lemma pinned_open : forall s r i, Inv s -> In (r, i) (readers s) -> bks s (w_bk (ws s i)) = 0.
Proof.
  intros s r i HI Hin. pose proof (I_rd s HI _ _ Hin) as Hi.
  rewrite (I_cl s HI _ Hi), (I_ref s HI _ Hi). apply nheld_in in Hin.
  destruct (nheld i (readers s) =? 0) eqn:E; [lia|]. now rewrite andb_false_r.
Qed.

Lemma inv_set_log : forall s l, Inv s -> LogInv l (bks s) (nb s) -> Inv (set_log l s).
Proof. intros s l [] H. constructor; cbn; auto. Qed.

Lemma inv_touch : forall s b o, Inv s -> bks s b = 0 -> is_close o = false -> is_open o = false ->
  Inv (touch b o s).
Proof. intros. apply inv_set_log; auto. apply LI_touch; auto. apply I_log; auto. Qed.

Lemma inv_set_pending : forall s l, Inv s -> (forall p, In p l -> p = served s /\ shut s = false) ->
  Inv (set_pending l s).
Proof. intros s l [] H. constructor; cbn; auto. Qed.

Lemma step_use : forall s r, Inv s -> ok_op s (Use r) = true -> Inv (step (Use r) s).
Proof.
  intros s r HI Hok. cbn in *. unfold held in Hok.
  destruct (lookup r (readers s)) as [i|] eqn:E; [|discriminate].
  apply inv_touch; auto. eapply pinned_open; eauto using lookup_in.
Qed.

Lemma step_release : forall s r, Inv s -> ok_op s (Release r) = true -> Inv (step (Release r) s).
Proof.
  intros s r HI Hok. cbn in Hok. unfold held in Hok. unfold step.
  destruct (lookup r (readers s)) as [i|] eqn:E; [|discriminate].
  pose proof (lookup_in _ _ _ E) as Hin.
  pose proof (pinned_open s r i HI Hin) as Hopen.
  pose proof (nheld_in _ _ _ Hin) as Hpos.
  pose proof (nheld_remove_r _ _ _ E) as Hrem.
  destruct HI as [Hsv Hbk Hinj Href Hdes Hcl Horph Hrd Hpend Hlog].
  destruct s as [sv n w m bk rd pd sh lg]. cbn in *.
  pose proof (Hrd _ _ Hin) as Hi.
  assert (Hdec : dec64 (w_ref (w i)) = nheld i (remove_r r rd)).
  { unfold dec64. rewrite Href by auto. rewrite (Hrem i) in *. rewrite Nat.eqb_refl in *.
    destruct (1 + nheld i (remove_r r rd) =? 0) eqn:Z; lia. }
  unfold on_wrapper, w_reader_close. cbn.
  destruct (w_destroyable (w i) && (dec64 (w_ref (w i)) =? 0)) eqn:C; cbn.
  - (* last reader of a destroyable wrapper: the backend is closed *)
    constructor; cbn.
    + exact Hsv.
    + intros j Hj. unfold fupd. destruct (Nat.eqb_spec j i); subst; cbn; auto.
    + intros j k Hj Hk. unfold fupd. destruct (Nat.eqb_spec j i); destruct (Nat.eqb_spec k i); subst; cbn; intro X; auto.
    + intros j Hj. unfold fupd. destruct (Nat.eqb_spec j i); subst; cbn; auto.
      rewrite Href, (Hrem j) by auto. destruct (Nat.eqb_spec i j); [congruence|lia].
    + intros j Hj. rewrite <- Hdes by auto. unfold fupd. destruct (Nat.eqb_spec j i); subst; reflexivity.
    + intros j Hj. unfold fupd at 2 3 4. destruct (Nat.eqb_spec j i); subst; cbn.
      * rewrite fupd_eq, C, Hopen. reflexivity.
      * rewrite fupd_neq; auto.
    + intros b Hb H. assert (b <> w_bk (w i)).
      { intro X. apply (H i Hi). unfold fupd. rewrite Nat.eqb_refl. cbn. auto. }
      rewrite fupd_neq by auto. apply Horph; auto. intros j Hj. specialize (H j Hj). unfold fupd in H.
      destruct (Nat.eqb_spec j i); subst; cbn in H; auto.
    + intros r' j H. apply in_remove_r in H. eauto.
    + exact Hpend.
    + apply LI_close; auto. apply LI_touch; auto.
  - constructor; cbn.
    + exact Hsv.
    + intros j Hj. unfold fupd. destruct (Nat.eqb_spec j i); subst; cbn; auto.
    + intros j k Hj Hk. unfold fupd. destruct (Nat.eqb_spec j i); destruct (Nat.eqb_spec k i); subst; cbn; intro X; auto.
    + intros j Hj. unfold fupd. destruct (Nat.eqb_spec j i); subst; cbn; auto.
      rewrite Href, (Hrem j) by auto. destruct (Nat.eqb_spec i j); [congruence|lia].
    + intros j Hj. rewrite <- Hdes by auto. unfold fupd. destruct (Nat.eqb_spec j i); subst; reflexivity.
    + intros j Hj. unfold fupd. destruct (Nat.eqb_spec j i); subst; cbn; auto.
      rewrite C. exact Hopen.
    + intros b Hb H. apply Horph; auto. intros j Hj. specialize (H j Hj). unfold fupd in H.
      destruct (Nat.eqb_spec j i); subst; cbn in H; auto.
    + intros r' j H. apply in_remove_r in H. eauto.
    + exact Hpend.
    + apply LI_touch; auto.
Qed.

Lemma step_shutdown : forall s, Inv s -> ok_op s Shutdown = true -> Inv (step Shutdown s).
Proof.
  intros s HI Hok. cbn in Hok. apply andb_prop in Hok. destruct Hok as [Hsh Hnp].
  apply negb_true_iff in Hsh. pose proof (served_open s HI Hsh) as Hopen.
  destruct HI as [Hsv Hbk Hinj Href Hdes Hcl Horph Hrd Hpend Hlog].
  destruct s as [sv n w m bk rd pd sh lg]. cbn in *. subst sh.
  unfold no_pending in Hnp. cbn in Hnp. destruct pd; [|discriminate].
  unfold on_wrapper, w_destroy. cbn.
  destruct (w_ref (w sv) =? 0) eqn:C; cbn.
  - constructor; cbn.
    + exact Hsv.
    + intros j Hj. unfold fupd. destruct (Nat.eqb_spec j sv); subst; cbn; auto.
    + intros j k Hj Hk. unfold fupd. destruct (Nat.eqb_spec j sv); destruct (Nat.eqb_spec k sv); subst; cbn; intro X; auto.
    + intros j Hj. unfold fupd. destruct (Nat.eqb_spec j sv); subst; cbn; auto.
    + intros j Hj. rewrite orb_true_r. unfold fupd. destruct (Nat.eqb_spec j sv) as [|ne]; subst; cbn; auto.
      rewrite Hdes by auto. apply Nat.eqb_neq in ne. now rewrite ne.
    + intros j Hj. unfold fupd at 2 3 4. destruct (Nat.eqb_spec j sv); subst; cbn.
      * rewrite fupd_eq, C, Hopen. reflexivity.
      * rewrite fupd_neq; auto.
    + intros b Hb H. assert (b <> w_bk (w sv)).
      { intro X. apply (H sv Hsv). unfold fupd. rewrite Nat.eqb_refl. cbn. auto. }
      rewrite fupd_neq by auto. apply Horph; auto. intros j Hj. specialize (H j Hj). unfold fupd in H.
      destruct (Nat.eqb_spec j sv); subst; cbn in H; auto.
    + exact Hrd.
    + easy.
    + apply LI_close; auto.
  - constructor; cbn.
    + exact Hsv.
    + intros j Hj. unfold fupd. destruct (Nat.eqb_spec j sv); subst; cbn; auto.
    + intros j k Hj Hk. unfold fupd. destruct (Nat.eqb_spec j sv); destruct (Nat.eqb_spec k sv); subst; cbn; intro X; auto.
    + intros j Hj. unfold fupd. destruct (Nat.eqb_spec j sv); subst; cbn; auto.
    + intros j Hj. rewrite orb_true_r. unfold fupd. destruct (Nat.eqb_spec j sv) as [|ne]; subst; cbn; auto.
      rewrite Hdes by auto. apply Nat.eqb_neq in ne. now rewrite ne.
    + intros j Hj. unfold fupd. destruct (Nat.eqb_spec j sv); subst; cbn; auto.
      rewrite C. exact Hopen.
    + intros b Hb H. apply Horph; auto. intros j Hj. specialize (H j Hj). unfold fupd in H.
      destruct (Nat.eqb_spec j sv); subst; cbn in H; auto.
    + exact Hrd.
    + easy.
    + exact Hlog.
Qed.

(* a candidate backend that is opened by the reload goroutine and closed again
   without ever getting a wrapper (both timeout orders) *)
Lemma inv_orphan_cand : forall s bf, Inv s -> bks s bf = 0 -> (bf < nb s)%nat ->
  Inv (bclose (nb s) (touch bf OpReloadRet (snd (alloc s)))).
Proof.
  intros s bf HI Hopen Hbf.
  destruct HI as [Hsv Hbk Hinj Href Hdes Hcl Horph Hrd Hpend Hlog].
  destruct s as [sv n w m bk rd pd sh lg]. cbn in *.
  constructor; cbn; auto.
  - intros i Hi. specialize (Hbk i Hi). lia.
  - intros i Hi. specialize (Hbk i Hi). unfold fupd. destruct (Nat.eqb_spec (w_bk (w i)) m); [lia|]. auto.
  - intros b Hb H. unfold fupd. rewrite Nat.eqb_refl. destruct (Nat.eqb_spec b m); [reflexivity|].
    apply Horph; auto. lia.
  - apply LI_close; [|lia]. apply LI_touch; try reflexivity.
    + apply LI_alloc; auto.
    + unfold fupd. destruct (Nat.eqb_spec bf m); [lia|auto].
Qed.

Lemma go_end_new : forall f k s,
  go_reload_end f (CNew k) s = (Some (nb s), touch (w_bk f) OpReloadRet (snd (alloc s))).
Proof. reflexivity. Qed.

Lemma served_bk_lt : forall s, Inv s -> (w_bk (ws s (served s)) < nb s)%nat.
Proof. intros s HI. apply (I_bk s HI). apply (I_served s HI). Qed.

(* closing the fresh candidate after the goroutine produced it, from a state in
   which backend bf is open *)
Lemma inv_cand_closed : forall s f c, Inv s -> bks s (w_bk f) = 0 -> (w_bk f < nb s)%nat ->
  Inv (let '(local, s1) := go_reload_end f c s in
       match local with
       | Some b' => if negb (Nat.eqb b' (w_bk f)) then bclose b' s1 else s1
       | None => s1
       end).
Proof.
  intros s f c HI Hopen Hlt. destruct c as [k|k|].
  - rewrite go_end_new. destruct (Nat.eqb_spec (nb s) (w_bk f)); [lia|]. cbn [negb].
    apply inv_orphan_cand; auto.
  - cbn [go_reload_end]. rewrite Nat.eqb_refl. cbn [negb]. apply inv_touch; auto.
  - cbn [go_reload_end]. apply inv_touch; auto.
Qed.

Lemma step_timeout_pub : forall s c, Inv s -> ok_op s (ReloadTimeoutPub c) = true ->
  Inv (step (ReloadTimeoutPub c) s).
Proof.
  intros s c HI Hok. cbn in Hok. apply negb_true_iff in Hok.
  pose proof (served_open s HI Hok) as Hopen. pose proof (served_bk_lt s HI) as Hlt.
  unfold step, reload_timeout_pub, go_reload_begin.
  apply (inv_cand_closed (touch (w_bk (ws s (served s))) OpReload s)); auto.
  apply inv_touch; auto.
Qed.

Lemma step_timeout_first : forall s, Inv s -> ok_op s ReloadTimeoutFirst = true ->
  Inv (step ReloadTimeoutFirst s).
Proof.
  intros s HI Hok. cbn in Hok. apply negb_true_iff in Hok.
  pose proof (served_open s HI Hok) as Hopen.
  unfold step, reload_timeout_first, go_reload_begin.
  apply inv_set_pending.
  - apply inv_touch; auto.
  - cbn. intros p Hp. apply in_app_or in Hp. destruct Hp as [Hp|[Hp|[]]].
    + apply (I_pend s HI); auto.
    + auto.
Qed.

Lemma step_late : forall s i c, Inv s -> ok_op s (LateComplete i c) = true ->
  Inv (step (LateComplete i c) s).
Proof.
  intros s i c HI Hok. unfold step, late_complete.
  destruct (nth_error (pending s) i) as [p|] eqn:E; [|exact HI].
  apply nth_error_In in E. destruct (I_pend s HI p E) as [-> Hsh].
  pose proof (served_open s HI Hsh) as Hopen. pose proof (served_bk_lt s HI) as Hlt.
  pose proof (inv_cand_closed s (ws s (served s)) c HI Hopen Hlt) as H.
  destruct (go_reload_end (ws s (served s)) c s) as [local s1] eqn:G.
  assert (Hsame : pending s1 = pending s /\ served s1 = served s /\ shut s1 = shut s).
  { destruct c; cbn in G; inversion G; subst; cbn; auto. }
  destruct Hsame as (Hp & Hs1 & Hs2).
  set (s2 := match local with
             | Some b' => if negb (Nat.eqb b' (w_bk (ws s (served s)))) then bclose b' s1 else s1
             | None => s1 end) in *.
  assert (Hsame2 : pending s2 = pending s /\ served s2 = served s /\ shut s2 = shut s).
  { subst s2. destruct local as [b'|]; [destruct (negb _)|]; cbn; auto. }
  destruct Hsame2 as (Hp2 & Hs21 & Hs22).
  apply inv_set_pending; auto.
  intros q Hq. apply in_remove_nth in Hq. rewrite Hp2 in Hq. rewrite Hs21, Hs22. apply (I_pend s HI); auto.
Qed.

Ltac touches := repeat (apply inv_touch; [|solve [cbn; auto]|reflexivity|reflexivity]).

Definition touches4 (b : nat) (s : state) : state :=
  touch b OpFreeContext (touch b OpForEach (touch b OpFinder (touch b OpNewContext s))).

Lemma validate_fresh : forall b k s,
  w_validate (mkW b 0 false) k s = (mkW b 0 false, touches4 b s, k).
Proof. reflexivity. Qed.

Lemma inv_touches4 : forall s b, Inv s -> bks s b = 0 -> Inv (touches4 b s).
Proof. intros. unfold touches4. touches. auto. Qed.

Lemma step_reload_err : forall s, Inv s -> ok_op s (Reload CErr) = true -> Inv (step (Reload CErr) s).
Proof.
  intros s HI Hok. cbn in Hok. apply negb_true_iff in Hok.
  pose proof (served_open s HI Hok) as Hopen.
  unfold step, reload_main, go_reload_begin. cbn [go_reload_end].
  touches. auto.
Qed.

Lemma step_reload_same : forall s k, Inv s -> ok_op s (Reload (CSame k)) = true ->
  Inv (step (Reload (CSame k)) s).
Proof.
  intros s k HI Hok. assert (Hsh : shut s = false) by (destruct k; cbn in Hok; now apply negb_true_iff in Hok).
  pose proof (served_open s HI Hsh) as Hopen.
  unfold step, reload_main, go_reload_begin. cbn [go_reload_end]. rewrite Nat.eqb_refl.
  rewrite validate_fresh. apply inv_touches4; [touches; auto|exact Hopen].
Qed.

Ltac norm_state x :=
  eval lazy beta iota zeta delta [set_served add_wrapper touches4 touch bclose set_log set_bks set_ws
     set_readers set_pending set_shut alloc
     served nw ws nb bks readers pending shut log fst snd] in x.
Ltac st_norm := match goal with |- Inv ?x => let y := norm_state x in change (Inv y) end.

Lemma step_reload_new : forall s k, Inv s -> ok_op s (Reload (CNew k)) = true ->
  Inv (step (Reload (CNew k)) s).
Proof.
  intros s k HI Hok.
  assert (Hsh : shut s = false).
  { destruct k; cbn in Hok; [apply andb_prop in Hok; destruct Hok as [Hok _]|]; now apply negb_true_iff in Hok. }
  pose proof (served_open s HI Hsh) as Hopen. pose proof (served_bk_lt s HI) as Hlt.
  unfold step, reload_main, go_reload_begin. rewrite go_end_new.
  change (nb (touch (w_bk (ws s (served s))) OpReload s)) with (nb s).
  destruct (Nat.eqb_spec (nb s) (w_bk (ws s (served s)))) as [|Hne]; [lia|]. clear Hne.
  unfold w_validate_or_destroy. rewrite validate_fresh.
  destruct HI as [Hsv Hbk Hinj Href Hdes Hcl Horph Hrd Hpend Hlog].
  destruct s as [sv n w m bk rd pd sh lg]. cbn in *. subst sh.
  destruct k.
  - unfold no_pending in Hok; cbn in Hok. destruct pd; [|discriminate]. clear Hok Hpend.
    match goal with |- Inv (set_served ?a (on_wrapper ?b ?f ?x)) =>
      let y := norm_state x in change (Inv (set_served a (on_wrapper b f y))) end.
    unfold on_wrapper, w_destroy. cbn [ws w_ref w_bk w_destroyable]. rewrite (fupd_neq _ w n _ sv) by lia.
    destruct (w_ref (w sv) =? 0) eqn:C; st_norm.
    + (* the old wrapper has no readers: its backend is closed now *)
      constructor; cbn [served nw ws nb bks readers pending shut log].
      * lia.
      * intros j Hj. unfold fupd. destruct (Nat.eqb_spec j sv); [subst; cbn; lia|].
        destruct (Nat.eqb_spec j n); [subst; cbn; lia|]. specialize (Hbk j). lia.
      * intros j k Hj Hk. pose proof (Hbk j) as Bj. pose proof (Hbk k) as Bk. unfold fupd.
        destruct (Nat.eqb_spec j sv), (Nat.eqb_spec k sv), (Nat.eqb_spec j n), (Nat.eqb_spec k n);
          subst; cbn; intro X; try lia; apply Hinj; auto; lia.
      * intros j Hj. unfold fupd. destruct (Nat.eqb_spec j sv); [subst; cbn; auto|].
        destruct (Nat.eqb_spec j n); [subst; cbn; symmetry; apply nheld_ge; auto|]. apply Href. lia.
      * intros j Hj. unfold fupd. destruct (Nat.eqb_spec j sv) as [|ne]; [subst; cbn|].
        { destruct (Nat.eqb_spec sv n); [lia|reflexivity]. }
        destruct (Nat.eqb_spec j n); [subst; cbn; reflexivity|].
        rewrite Hdes by lia. apply Nat.eqb_neq in ne. now rewrite ne.
      * intros j Hj.
        destruct (Nat.eqb_spec j sv); [subst; rewrite !(fupd_eq _ (fupd w n _)); cbn [w_bk w_ref w_destroyable]|].
        { rewrite fupd_eq, C. rewrite (fupd_neq _ bk m) by lia. rewrite Hopen. reflexivity. }
        rewrite !(fupd_neq _ (fupd w n _) sv) by auto.
        destruct (Nat.eqb_spec j n); [subst; rewrite !(fupd_eq _ w n); cbn [w_bk w_ref w_destroyable]|].
        { rewrite (fupd_neq _ _ (w_bk (w sv))) by lia. rewrite fupd_eq. reflexivity. }
        rewrite !(fupd_neq _ w n) by auto.
        assert (j < n)%nat by lia. pose proof (Hbk j H).
        rewrite fupd_neq by (intro X; apply n0; apply Hinj; auto).
        rewrite fupd_neq by lia. auto.
      * intros b Hb H. assert (b <> w_bk (w sv)).
        { intro X. apply (H sv); [lia|]. unfold fupd. rewrite Nat.eqb_refl. cbn. auto. }
        assert (b <> m).
        { intro X. apply (H n); [lia|]. unfold fupd. destruct (Nat.eqb_spec n sv); [lia|].
          rewrite Nat.eqb_refl. cbn. auto. }
        rewrite !fupd_neq by auto. apply Horph; [lia|]. intros j Hj. specialize (H j). unfold fupd in H.
        destruct (Nat.eqb_spec j sv); [subst; auto|]. destruct (Nat.eqb_spec j n); [lia|]. apply H. lia.
      * intros r j H. apply Hrd in H. lia.
      * easy.
      * apply LI_close; [|lia]. repeat (apply LI_touch; [| |reflexivity|reflexivity]).
        { apply LI_alloc. apply LI_touch; auto. }
        all: unfold fupd; rewrite ?Nat.eqb_refl; auto.
        destruct (Nat.eqb_spec (w_bk (w sv)) m); [lia|auto].
    + (* the old wrapper is still pinned: it is only marked destroyable *)
      constructor; cbn [served nw ws nb bks readers pending shut log].
      * lia.
      * intros j Hj. unfold fupd. destruct (Nat.eqb_spec j sv); [subst; cbn; lia|].
        destruct (Nat.eqb_spec j n); [subst; cbn; lia|]. specialize (Hbk j). lia.
      * intros j k Hj Hk. pose proof (Hbk j) as Bj. pose proof (Hbk k) as Bk. unfold fupd.
        destruct (Nat.eqb_spec j sv), (Nat.eqb_spec k sv), (Nat.eqb_spec j n), (Nat.eqb_spec k n);
          subst; cbn; intro X; try lia; apply Hinj; auto; lia.
      * intros j Hj. unfold fupd. destruct (Nat.eqb_spec j sv); [subst; cbn; auto|].
        destruct (Nat.eqb_spec j n); [subst; cbn; symmetry; apply nheld_ge; auto|]. apply Href. lia.
      * intros j Hj. unfold fupd. destruct (Nat.eqb_spec j sv) as [|ne]; [subst; cbn|].
        { destruct (Nat.eqb_spec sv n); [lia|reflexivity]. }
        destruct (Nat.eqb_spec j n); [subst; cbn; reflexivity|].
        rewrite Hdes by lia. apply Nat.eqb_neq in ne. now rewrite ne.
      * intros j Hj.
        destruct (Nat.eqb_spec j sv); [subst; rewrite !(fupd_eq _ (fupd w n _)); cbn [w_bk w_ref w_destroyable]|].
        { rewrite C. rewrite (fupd_neq _ bk m) by lia. rewrite Hopen. reflexivity. }
        rewrite !(fupd_neq _ (fupd w n _) sv) by auto.
        destruct (Nat.eqb_spec j n); [subst; rewrite !(fupd_eq _ w n); cbn [w_bk w_ref w_destroyable]|].
        { rewrite fupd_eq. reflexivity. }
        rewrite !(fupd_neq _ w n) by auto.
        assert (j < n)%nat by lia. pose proof (Hbk j H).
        rewrite fupd_neq by lia. auto.
      * intros b Hb H.
        assert (b <> m).
        { intro X. apply (H n); [lia|]. unfold fupd. destruct (Nat.eqb_spec n sv); [lia|].
          rewrite Nat.eqb_refl. cbn. auto. }
        rewrite !fupd_neq by auto. apply Horph; [lia|]. intros j Hj. specialize (H j). unfold fupd in H.
        destruct (Nat.eqb_spec j sv); [subst; cbn in H; apply H; lia|]. destruct (Nat.eqb_spec j n); [lia|]. apply H. lia.
      * intros r j H. apply Hrd in H. lia.
      * easy.
      * repeat (apply LI_touch; [| |reflexivity|reflexivity]).
        { apply LI_alloc. apply LI_touch; auto. }
        all: unfold fupd; rewrite ?Nat.eqb_refl; auto.
        destruct (Nat.eqb_spec (w_bk (w sv)) m); [lia|auto].
  - (* validation failed on a fresh backend: newDB.Destroy() closes it, f stays *)
    clear Hok. st_norm.
    constructor; cbn [served nw ws nb bks readers pending shut log].
    + lia.
    + intros j Hj. unfold fupd. destruct (Nat.eqb_spec j n); [subst; cbn; lia|]. specialize (Hbk j). lia.
    + intros j k Hj Hk. pose proof (Hbk j) as Bj. pose proof (Hbk k) as Bk. unfold fupd.
      destruct (Nat.eqb_spec j n), (Nat.eqb_spec k n); subst; cbn; intro X; try lia; apply Hinj; auto; lia.
    + intros j Hj. unfold fupd.
      destruct (Nat.eqb_spec j n); [subst; cbn; symmetry; apply nheld_ge; auto|]. apply Href. lia.
    + intros j Hj. unfold fupd.
      destruct (Nat.eqb_spec j n); [subst; cbn|apply Hdes; lia].
      destruct (Nat.eqb_spec n sv); [lia|reflexivity].
    + intros j Hj.
      destruct (Nat.eqb_spec j n); [subst; rewrite !(fupd_eq _ w n); cbn [w_bk w_ref w_destroyable]|].
      { rewrite !fupd_eq. reflexivity. }
      rewrite !(fupd_neq _ w n) by auto.
      assert (j < n)%nat by lia. pose proof (Hbk j H).
      rewrite !fupd_neq by lia. auto.
    + intros b Hb H.
      assert (b <> m).
      { intro X. apply (H n); [lia|]. unfold fupd. rewrite Nat.eqb_refl. cbn. auto. }
      rewrite !fupd_neq by auto. apply Horph; [lia|]. intros j Hj. specialize (H j). unfold fupd in H.
      destruct (Nat.eqb_spec j n); [lia|]. apply H. lia.
    + intros r j H. apply Hrd in H. lia.
    + exact Hpend.
    + apply LI_close; [|lia]. repeat (apply LI_touch; [| |reflexivity|reflexivity]).
      { apply LI_alloc. apply LI_touch; auto. }
      all: unfold fupd; rewrite ?Nat.eqb_refl; auto.
      destruct (Nat.eqb_spec (w_bk (w sv)) m); [lia|auto].
Qed.

(* ------------------------------------------------------------------ a whole query in one step *)
Definition touch_all (b : nat) (mid : list N) (s : state) : state :=
  fold_left (fun s o => touch b o s) mid s.

Lemma touch_all_frame : forall b mid s,
  ws (touch_all b mid s) = ws s /\ nw (touch_all b mid s) = nw s /\ bks (touch_all b mid s) = bks s.
Proof.
  intros b mid. unfold touch_all. induction mid as [|o mid IH]; intros s; cbn; [auto|].
  destruct (IH (touch b o s)) as (A & B & C). rewrite A, B, C. auto.
Qed.

Lemma inv_touch_all : forall b mid s, Inv s -> bks s b = 0 ->
  forallb (fun o => negb (is_close o) && negb (is_open o)) mid = true -> Inv (touch_all b mid s).
Proof.
  intros b mid. unfold touch_all. induction mid as [|o mid IH]; intros s HI Hb Hm; cbn; [exact HI|].
  cbn in Hm. apply andb_prop in Hm. destruct Hm as [Ho Hm]. apply andb_prop in Ho. destruct Ho as [H1 H2].
  apply negb_true_iff in H1. apply negb_true_iff in H2.
  apply IH; auto. apply inv_touch; auto.
Qed.

Lemma inv_fupd_same : forall s i v, Inv s -> ws s i = v -> Inv (set_ws (nw s) (fupd (ws s) i v) s).
Proof.
  intros s i v [] Hv.
  assert (E : forall j, fupd (ws s) i v j = ws s j).
  { intro j. unfold fupd. destruct (Nat.eqb_spec j i); subst; auto. }
  constructor; cbn; auto.
  - intros j Hj. rewrite E. auto.
  - intros j l Hj Hl. rewrite !E. auto.
  - intros j Hj. rewrite E. auto.
  - intros j Hj. rewrite E. auto.
  - intros j Hj. rewrite !E. auto.
  - intros b Hb H. apply I_orphan0; auto. intros j Hj. rewrite <- E. auto.
Qed.

Lemma dec64_succ : forall n, dec64 (n + 1) = n.
Proof. intro n. unfold dec64. destruct (n + 1 =? 0) eqn:E; lia. Qed.

Lemma step_query : forall s mid, Inv s -> ok_op s (Query mid) = true -> Inv (step (Query mid) s).
Proof.
  intros s mid HI Hok. cbn in Hok. apply andb_prop in Hok. destruct Hok as [Hsh Hmid].
  apply negb_true_iff in Hsh. pose proof (served_open s HI Hsh) as Hopen.
  pose proof (I_des s HI _ (I_served s HI)) as Hd. rewrite Nat.eqb_refl, Hsh in Hd. cbn in Hd.
  unfold step, on_wrapper, w_query, w_new_reader, w_reader_close.
  destruct (ws s (served s)) as [b r d] eqn:E. cbn in Hd, Hopen. subst d.
  cbn [w_bk w_ref w_destroyable w_set_ref andb].
  set (s3 := touch b OpFreeContext
               (fold_left (fun s0 o => touch b o s0) mid (touch b OpFinder (touch b OpNewContext s)))).
  assert (HI3 : Inv s3).
  { subst s3. apply inv_touch; try reflexivity.
    - apply (inv_touch_all b mid); auto. touches. auto.
    - destruct (touch_all_frame b mid (touch b OpFinder (touch b OpNewContext s))) as (_ & _ & C).
      unfold touch_all in C. rewrite C. exact Hopen. }
  assert (Hws : ws s3 = ws s /\ nw s3 = nw s).
  { subst s3. destruct (touch_all_frame b mid (touch b OpFinder (touch b OpNewContext s))) as (A & B & _).
    unfold touch_all in A, B. cbn [touch set_log ws nw]. rewrite A, B. auto. }
  destruct Hws as [W1 W2].
  apply inv_fupd_same; auto.
  rewrite W1, E. cbn. now rewrite dec64_succ.
Qed.

(* ------------------------------------------------------------------ all steps, all histories *)
Lemma step_inv : forall o s, Inv s -> ok_op s o = true -> Inv (step o s).
Proof.
  intros o s HI Hok. destruct o as [r|r|r|c|c| |i c| |mid].
  - now apply step_acquire.
  - now apply step_use.
  - now apply step_release.
  - destruct c as [k|k|]; [now apply step_reload_new|now apply step_reload_same|now apply step_reload_err].
  - now apply step_timeout_pub.
  - now apply step_timeout_first.
  - now apply step_late.
  - now apply step_shutdown.
  - now apply step_query.
Qed.

Lemma run_inv : forall ops s, Inv s -> wf_hist s ops = true -> Inv (run ops s).
Proof.
  induction ops as [|o t IH]; intros s HI Hwf; [exact HI|].
  cbn in Hwf. apply andb_prop in Hwf. destruct Hwf as [Hok Hwf].
  cbn. apply IH; auto. now apply step_inv.
Qed.

Lemma reachable_inv : forall ops, wf_hist init ops = true -> Inv (run ops init).
Proof. intros. apply run_inv; auto. apply inv_init. Qed.

(* ------------------------------------------------------------------ what the invariant gives *)
Lemma owner_dec : forall (w : nat -> wrapper) b n,
  (exists i, (i < n)%nat /\ w_bk (w i) = b) \/ (forall i, (i < n)%nat -> w_bk (w i) <> b).
Proof.
  induction n as [|n IH].
  - right. intros; lia.
  - destruct IH as [(i & Hi & E)|H].
    + left. exists i. split; [lia|auto].
    + destruct (Nat.eq_dec (w_bk (w n)) b) as [E|E].
      * left. exists n. split; [lia|auto].
      * right. intros i Hi. destruct (Nat.eq_dec i n); [subst; auto|apply H; lia].
Qed.

Lemma inv_bks_le1 : forall s b, Inv s -> bks s b <= 1.
Proof.
  intros s b HI. destruct (Nat.ltb_spec b (nb s)) as [Hb|Hb].
  - destruct (owner_dec (ws s) b (nw s)) as [(i & Hi & E)|H].
    + subst b. rewrite (I_cl s HI i Hi). destruct (_ && _); lia.
    + rewrite (I_orphan s HI b Hb H). lia.
  - destruct (I_log s HI) as (_ & _ & _ & Hf). rewrite Hf by lia. lia.
Qed.

Lemma in_pinned : forall s b, In b (pinned s) <-> exists r i, In (r, i) (readers s) /\ w_bk (ws s i) = b.
Proof.
  intros s b. unfold pinned. rewrite in_map_iff. split.
  - intros ([r i] & E & Hin). exists r, i. auto.
  - intros (r & i & Hin & E). exists (r, i). auto.
Qed.

Lemma inv_no_uac : forall s, Inv s -> no_use_after_close (log s).
Proof. intros s HI. apply (I_log s HI). Qed.

Lemma inv_no_double_close : forall s, Inv s -> no_double_close (log s).
Proof.
  intros s HI b. destruct (I_log s HI) as (Hc & _). rewrite Hc. now apply inv_bks_le1.
Qed.

Lemma inv_handles : forall s, Inv s -> handles_ok (snap s).
Proof.
  intros s HI. destruct (I_log s HI) as (Hc & Ho & _ & _). split; cbn [snap sn_log].
  - intros b [Hs|Hp].
    + cbn in Hs. destruct (shut s) eqn:Hsh; [discriminate|]. inversion Hs; subst b. split.
      * apply Ho. now apply served_bk_lt.
      * rewrite Hc. now apply served_open.
    + cbn in Hp. apply in_pinned in Hp. destruct Hp as (r & i & Hin & <-). split.
      * apply Ho. apply (I_bk s HI). apply (I_rd s HI _ _ Hin).
      * rewrite Hc. eapply pinned_open; eauto.
  - intros b Hop Hnn. apply Ho in Hop. rewrite Hc.
    destruct (owner_dec (ws s) b (nw s)) as [(i & Hi & E)|H].
    + subst b. rewrite (I_cl s HI i Hi).
      destruct (w_destroyable (ws s i)) eqn:D.
      * destruct (w_ref (ws s i) =? 0) eqn:R; [reflexivity|]. exfalso. apply Hnn. right. cbn.
        apply in_pinned. rewrite (I_ref s HI i Hi) in R.
        destruct (nheld_pos_in i (readers s)) as [r Hr]; [lia|]. eauto.
      * exfalso. apply Hnn. left. cbn. rewrite (I_des s HI i Hi) in D.
        apply orb_false_iff in D. destruct D as [D1 D2]. rewrite D2.
        apply negb_false_iff, Nat.eqb_eq in D1. now subst i.
    + apply (I_orphan s HI b Hop H).
Qed.

Lemma handles_no_leak : forall sn, handles_ok sn -> no_leak sn.
Proof.
  intros sn [_ H2] Hq b Hop Hns. apply H2; auto. intros [X|X]; [auto|]. rewrite Hq in X. destruct X.
Qed.

(* ------------------------------------------------------------------ the C06 theorems *)
Lemma no_use_after_close_all : forall ops, wf_hist init ops = true ->
  no_use_after_close (log (run ops init)).
Proof. intros. now apply inv_no_uac, reachable_inv. Qed.

Lemma no_double_close_all : forall ops, wf_hist init ops = true ->
  no_double_close (log (run ops init)).
Proof. intros. now apply inv_no_double_close, reachable_inv. Qed.

Lemma open_iff_needed_all : forall ops, wf_hist init ops = true ->
  handles_ok (snap (run ops init)).
Proof. intros. now apply inv_handles, reachable_inv. Qed.

(* quiescent: no reader holds anything and no timed-out reload is still in flight.
   Every backend ever opened, except the served one, has been closed exactly once;
   after shutdown the served one too. *)
Lemma no_leak_all : forall ops, wf_hist init ops = true ->
  let s := run ops init in
  quiescent s ->
  forall b, openedb (log s) b = true ->
    (shut s = true \/ b <> w_bk (ws s (served s))) -> closes (log s) b = 1.
Proof.
  intros ops Hwf s [Hq _] b Hop Hb.
  apply (handles_no_leak (snap s)); auto.
  - apply open_iff_needed_all; auto.
  - cbn. unfold pinned. fold s. now rewrite Hq.
  - cbn. fold s. destruct (shut s); [discriminate|]. destruct Hb as [Hb|Hb]; [discriminate|]. congruence.
Qed.

(* refcounts count the held readers, at every reachable state *)
Lemma refcount_exact_all : forall ops, wf_hist init ops = true ->
  let s := run ops init in
  forall i, (i < nw s)%nat -> w_ref (ws s i) = nheld i (readers s).
Proof. intros ops Hwf s i Hi. apply (I_ref s (reachable_inv ops Hwf) i Hi). Qed.

(* ------------------------------------------------------------------ the boolean twins of Spec/Handles
   (Run/C06 evaluates these on the event log observed from the Go code) *)
Lemma no_use_after_closeb_iff : forall l, no_use_after_closeb l = true <-> no_use_after_close l.
Proof.
  induction l as [|[b o] t IH]; cbn; [easy|].
  rewrite andb_true_iff, IH, orb_true_iff, N.eqb_eq.
  split; intros [H1 H2]; split; auto.
  - intros Hc. destruct H1; [congruence|auto].
  - destruct (is_close o); [now left|right; auto].
Qed.

Lemma closes_pos_in : forall l b, 1 <= closes l b -> exists o, In (b, o) l.
Proof.
  induction l as [|[b' o] t IH]; cbn; intros b H; [lia|].
  destruct (Nat.eqb_spec b' b).
  - subst. exists o. now left.
  - cbn in H. destruct (IH b) as [o' Ho']; [lia|]. exists o'. now right.
Qed.

Lemma no_double_closeb_iff : forall l, no_double_closeb l = true <-> no_double_close l.
Proof.
  intros l. unfold no_double_closeb, no_double_close. rewrite forallb_forall. split.
  - intros H b. destruct (N.leb_spec (closes l b) 1) as [|Hgt]; [auto|].
    destruct (closes_pos_in l b) as [o Ho]; [lia|]. specialize (H _ Ho). cbn in H.
    apply N.leb_le in H. lia.
  - intros H e _. apply N.leb_le. apply H.
Qed.

Lemma openedb_in : forall l b, openedb l b = true <-> In (b, OpOpen) l.
Proof.
  intros l b. unfold openedb. rewrite existsb_exists. split.
  - intros ([b' o] & Hin & H). cbn in H. apply andb_prop in H. destruct H as [H1 H2].
    apply Nat.eqb_eq in H1. apply N.eqb_eq in H2. subst. exact Hin.
  - intros H. exists (b, OpOpen). split; auto. cbn. now rewrite Nat.eqb_refl.
Qed.

Lemma neededb_iff : forall sn b, neededb sn b = true <-> needed sn b.
Proof.
  intros sn b. unfold neededb, needed. rewrite orb_true_iff, existsb_exists. split.
  - intros [H|(x & Hin & H)].
    + left. destruct (sn_served sn); [|discriminate]. apply Nat.eqb_eq in H. now subst.
    + right. apply Nat.eqb_eq in H. now subst.
  - intros [H|H].
    + left. rewrite H. apply Nat.eqb_refl.
    + right. exists b. split; auto. apply Nat.eqb_refl.
Qed.

Lemma handles_okb_iff : forall sn, handles_okb sn = true <-> handles_ok sn.
Proof.
  intros sn. unfold handles_okb, handles_ok. rewrite !andb_true_iff, !forallb_forall. split.
  - intros [[H1 H2] H3]. split.
    + intros b Hn. assert (Hop : openedb (sn_log sn) b = true).
      { destruct Hn as [Hn|Hn]; [now rewrite Hn in H1|auto]. }
      split; auto. apply openedb_in in Hop. specialize (H3 _ Hop). cbn in H3.
      apply neededb_iff in Hn. rewrite Hn in H3. now apply N.eqb_eq in H3.
    + intros b Hop Hnn. apply openedb_in in Hop. specialize (H3 _ Hop). cbn in H3.
      destruct (neededb sn b) eqn:E; [apply neededb_iff in E; contradiction|]. now apply N.eqb_eq in H3.
  - intros [H1 H2]. repeat split.
    + destruct (sn_served sn) as [b|] eqn:E; auto. apply H1. now left.
    + intros b Hb. apply H1. now right.
    + intros [b o] Hin. cbn. destruct (is_open o) eqn:O; [|reflexivity]. cbn.
      apply N.eqb_eq in O. subst o. apply openedb_in in Hin.
      destruct (neededb sn b) eqn:E; apply N.eqb_eq.
      * apply H1. now apply neededb_iff.
      * apply H2; auto. intro X. apply neededb_iff in X. congruence.
Qed.

(* ------------------------------------------------------------------ refutation beyond the guard:
   a reload times out while DBI.Reload is still running on the served backend;
   before that call returns, a second reload succeeds with a new backend and
   DB.Reload destroys the old wrapper, which (no readers) closes the backend the
   first goroutine is still working on.  Only the in-flight clause of the guard
   is dropped (wf_hist_weak). *)
Definition inflight_witness : list op := [ReloadTimeoutFirst; Reload (CNew true); LateComplete 0 CErr].

Lemma inflight_reload_refuted :
  exists ops, wf_hist_weak init ops = true /\ ~ no_use_after_close (log (run ops init)).
Proof.
  exists inflight_witness. split; [vm_compute; reflexivity|].
  intro H. apply no_use_after_closeb_iff in H. vm_compute in H. discriminate.
Qed.

(* the same race with shutdown instead of a second reload *)
Lemma inflight_shutdown_refuted :
  exists ops, wf_hist_weak init ops = true /\ ~ no_use_after_close (log (run ops init)).
Proof.
  exists [ReloadTimeoutFirst; Shutdown; LateComplete 0 (CSame true)]. split; [vm_compute; reflexivity|].
  intro H. apply no_use_after_closeb_iff in H. vm_compute in H. discriminate.
Qed.

(* ------------------------------------------------------------------ the guard is satisfiable by long, non-trivial histories *)
Definition example_history : list op :=
  [Acquire 0; Use 0; Reload (CNew true); Acquire 1; Use 0; Use 1; Reload (CSame true);
   Reload (CSame false); Reload CErr; Reload (CNew false); Acquire 2; ReloadTimeoutPub (CNew true);
   ReloadTimeoutFirst; Use 2; Release 0; ReloadTimeoutFirst; LateComplete 1 (CNew true); Acquire 0;
   LateComplete 0 (CSame true); Reload (CNew true); Use 1; Release 1; Use 0; Reload (CNew true);
   ReloadTimeoutPub CErr; ReloadTimeoutFirst; LateComplete 0 CErr; Release 2; Shutdown; Use 0; Release 0].

Example example_history_wf :
  wf_hist init example_history = true /\
  length example_history = 31%nat /\
  nb (run example_history init) = 7%nat /\
  quiescent (run example_history init) /\
  map (closes (log (run example_history init))) (seq 0 7) = [1; 1; 1; 1; 1; 1; 1].
Proof. vm_compute. repeat split; reflexivity. Qed.
