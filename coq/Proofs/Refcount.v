(* Proofs/Refcount: the invariant of Model/Refcount and the C06 theorems. *)
From DnsV Require Import Base.Bytes Spec.Handles Model.Refcount.
From Coq Require Import ZifyN ZifyNat ZifyBool.
Open Scope N_scope.

(* ------------------------------------------------------------------ basics *)
Ltac feq :=
  repeat match goal with
  | |- context[Nat.eqb ?a ?b] => destruct (Nat.eqb_spec a b); subst
  | H : context[Nat.eqb ?a ?b] |- _ => destruct (Nat.eqb_spec a b); subst
  end.

Lemma fupd_eq : forall A (f : nat -> A) i v, fupd f i v i = v.
Proof. intros. unfold fupd. now rewrite Nat.eqb_refl. Qed.
Lemma fupd_neq : forall A (f : nat -> A) i v j, j <> i -> fupd f i v j = f j.
Proof. intros. unfold fupd. destruct (Nat.eqb_spec j i); congruence. Qed.

(* number of held readers that pin wrapper i *)
Fixpoint nheld (i : nat) (rs : list (nat * nat)) : N :=
  match rs with
  | [] => 0
  | (_, j) :: t => (if Nat.eqb j i then 1 else 0) + nheld i t
  end.

Lemma nheld_in : forall i rs r, In (r, i) rs -> 1 <= nheld i rs.
Proof.
  induction rs as [|[r' j] t IH]; cbn; intros r H; [easy|].
  destruct H as [H|H]. { inversion H; subst. rewrite Nat.eqb_refl. lia. }
  specialize (IH _ H). destruct (Nat.eqb j i); lia.
Qed.

Lemma nheld_pos_in : forall i rs, 1 <= nheld i rs -> exists r, In (r, i) rs.
Proof.
  induction rs as [|[r' j] t IH]; cbn; intros H; [lia|].
  destruct (Nat.eqb_spec j i).
  - subst. exists r'. now left.
  - destruct IH as [r Hr]; [lia|]. exists r. now right.
Qed.

Lemma lookup_in : forall r rs i, lookup r rs = Some i -> In (r, i) rs.
Proof.
  induction rs as [|[r' j] t IH]; cbn; intros i H; [easy|].
  destruct (Nat.eqb_spec r' r).
  - inversion H; subst. now left.
  - right. auto.
Qed.

Lemma in_remove_r : forall r rs p, In p (remove_r r rs) -> In p rs.
Proof.
  induction rs as [|[r' j] t IH]; cbn; intros p H; [easy|].
  destruct (Nat.eqb r' r); [now right|].
  destruct H; [now left|right; auto].
Qed.

Lemma nheld_remove_r : forall r rs i, lookup r rs = Some i ->
  forall j, nheld j rs = (if Nat.eqb i j then 1 else 0) + nheld j (remove_r r rs).
Proof.
  induction rs as [|[r' k] t IH]; cbn; intros i H j; [easy|].
  destruct (Nat.eqb_spec r' r).
  - inversion H; subst. reflexivity.
  - cbn. rewrite (IH _ H j). lia.
Qed.

Lemma in_remove_nth : forall A (l : list A) i x, In x (remove_nth i l) -> In x l.
Proof.
  induction l as [|a t IH]; intros [|i] x H; cbn in *; auto.
  destruct H; [now left|right; eauto].
Qed.

(* ------------------------------------------------------------------ the log *)
Definition LogInv (lg : list event) (bk : nat -> N) (n : nat) : Prop :=
  (forall b, closes lg b = bk b) /\
  (forall b, openedb lg b = true <-> (b < n)%nat) /\
  no_use_after_close lg /\
  (forall b, (n <= b)%nat -> bk b = 0).

Lemma LI_touch : forall lg bk n b o, LogInv lg bk n ->
  bk b = 0 -> is_close o = false -> is_open o = false -> LogInv ((b, o) :: lg) bk n.
Proof.
  intros lg bk n b o (Hc & Ho & Hu & Hf) Hb Hcl Hop. repeat split.
  - intro b'. cbn. rewrite Hcl, andb_false_r. apply Hc.
  - cbn. rewrite Hop, andb_false_r. apply Ho.
  - cbn. rewrite Hop, andb_false_r. apply Ho.
  - intros _. now rewrite Hc.
  - exact Hu.
  - exact Hf.
Qed.

Lemma LI_close : forall lg bk n b, LogInv lg bk n -> (b < n)%nat ->
  LogInv ((b, OpClose) :: lg) (fupd bk b (bk b + 1)) n.
Proof.
  intros lg bk n b (Hc & Ho & Hu & Hf) Hb. repeat split.
  - intro b'. cbn [closes]. change (is_close OpClose) with true. unfold fupd. rewrite Hc.
    destruct (Nat.eqb_spec b b'); destruct (Nat.eqb_spec b' b); subst; try congruence; cbn [andb]; lia.
  - cbn. rewrite andb_false_r. apply Ho.
  - cbn. rewrite andb_false_r. apply Ho.
  - cbn. discriminate.
  - exact Hu.
  - intros b' Hb'. unfold fupd. destruct (Nat.eqb_spec b' b); [lia|]. auto.
Qed.

Lemma LI_alloc : forall lg bk n, LogInv lg bk n ->
  LogInv ((n, OpOpen) :: lg) (fupd bk n 0) (S n).
Proof.
  intros lg bk n (Hc & Ho & Hu & Hf). repeat split.
  - intro b'. cbn. rewrite andb_false_r. unfold fupd. rewrite Hc.
    destruct (Nat.eqb_spec b' n); subst; auto. rewrite Hf; lia.
  - cbn. intro H. destruct (Nat.eqb_spec n b); cbn in H; [lia|]. apply Ho in H. lia.
  - cbn. intro H. destruct (Nat.eqb_spec n b); cbn; [easy|]. apply Ho. lia.
  - intros _. rewrite Hc. apply Hf. lia.
  - exact Hu.
  - intros b' Hb'. unfold fupd. destruct (Nat.eqb_spec b' n); [lia|]. apply Hf. lia.
Qed.

(* ------------------------------------------------------------------ the invariant *)
Record Inv (s : state) : Prop := mkInv {
  I_served : (served s < nw s)%nat;
  I_bk : forall i, (i < nw s)%nat -> (w_bk (ws s i) < nb s)%nat;
  I_inj : forall i j, (i < nw s)%nat -> (j < nw s)%nat -> w_bk (ws s i) = w_bk (ws s j) -> i = j;
  I_ref : forall i, (i < nw s)%nat -> w_ref (ws s i) = nheld i (readers s);
  I_des : forall i, (i < nw s)%nat -> w_destroyable (ws s i) = negb (Nat.eqb i (served s)) || shut s;
  I_cl : forall i, (i < nw s)%nat ->
         bks s (w_bk (ws s i)) = if w_destroyable (ws s i) && (w_ref (ws s i) =? 0) then 1 else 0;
  I_orphan : forall b, (b < nb s)%nat -> (forall i, (i < nw s)%nat -> w_bk (ws s i) <> b) -> bks s b = 1;
  I_rd : forall r i, In (r, i) (readers s) -> (i < nw s)%nat;
  I_pend : forall p, In p (pending s) -> p = served s /\ shut s = false;
  I_log : LogInv (log s) (bks s) (nb s) }.

Lemma inv_init : Inv init.
Proof.
  constructor; cbn.
  - lia.
  - intros; lia.
  - intros; lia.
  - reflexivity.
  - intros i Hi. destruct i; [reflexivity|lia].
  - reflexivity.
  - intros b Hb H. exfalso. apply (H 0%nat); lia.
  - easy.
  - easy.
  - unfold LogInv. split; [|split; [|split]]; cbn; try easy.
    + intro b. now rewrite andb_false_r.
    + intro b. destruct b; cbn; split; intro H; try easy; lia.
Qed.
Lemma served_open : forall s, Inv s -> shut s = false -> bks s (w_bk (ws s (served s))) = 0.
Proof.
  intros s HI Hs. rewrite (I_cl s HI _ (I_served s HI)), (I_des s HI _ (I_served s HI)), Nat.eqb_refl, Hs.
  reflexivity.
Qed.

Lemma step_acquire : forall s r, Inv s -> ok_op s (Acquire r) = true -> Inv (step (Acquire r) s).
Proof.
  intros s r HI Hok. pose proof (served_open s HI) as Hopen.
  destruct HI as [Hsv Hbk Hinj Href Hdes Hcl Horph Hrd Hpend Hlog].
  destruct s as [sv n w m bk rd pd sh lg]. cbn in *.
  apply andb_prop in Hok. destruct Hok as [Hsh _]. apply negb_true_iff in Hsh. subst sh.
  specialize (Hopen eq_refl).
  constructor; cbn.
  - exact Hsv.
  - intros i Hi. unfold fupd. destruct (Nat.eqb_spec i sv); subst; cbn; auto.
  - intros i j Hi Hj. unfold fupd. destruct (Nat.eqb_spec i sv); destruct (Nat.eqb_spec j sv); subst; cbn; intro E; auto.
  - intros i Hi. unfold fupd. destruct (Nat.eqb_spec i sv); subst; cbn.
    + rewrite Nat.eqb_refl, Href by auto. lia.
    + destruct (Nat.eqb_spec sv i); [congruence|]. rewrite Href by auto. lia.
  - intros i Hi. rewrite <- Hdes by auto. unfold fupd. destruct (Nat.eqb_spec i sv); subst; reflexivity.
  - intros i Hi. unfold fupd. destruct (Nat.eqb_spec i sv); subst; cbn; auto.
    rewrite Hdes by auto. rewrite Nat.eqb_refl. cbn. exact Hopen.
  - intros b Hb H. apply Horph; auto. intros i Hi. specialize (H i Hi). unfold fupd in H.
    destruct (Nat.eqb_spec i sv); subst; cbn in H; auto.
  - intros r' i [H|H]; [inversion H; subst; auto|eauto].
  - exact Hpend.
  - apply LI_touch; auto. apply LI_touch; auto.
Qed.
