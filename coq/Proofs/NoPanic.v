(* C13 for the label-by-label (v1) reader: serve never panics and never runs out of fuel,
   for EVERY store (callback panics on malformed rows are recovered by ForEach) and every
   query whose name is a wire-valid name. *)
From DnsV Require Import Base.Bytes Model.Store Model.LookupV1 Model.LookupV2 Model.Serve.
From Coq Require Import ZifyN ZifyNat ZifyBool.
Open Scope N_scope.

(* a wire-valid uncompressed name: labels of 1..63 bytes, terminated by the root label *)
Fixpoint wire_name_fuel (fuel : nat) (l : bytes) : bool :=
  match fuel with
  | O => false
  | S f =>
      match l with
      | [] => false
      | c :: t =>
          if c =? 0 then match t with [] => true | _ => false end
          else (c <? 64) && (c <=? nlen t) && wire_name_fuel f (skipn (N.to_nat c) t)
      end
  end.
Definition wire_name (l : bytes) : bool := wire_name_fuel (S (length l)) l && (nlen l <=? 255).
Definition wnP (l : bytes) : Prop := exists f, wire_name_fuel f l = true.

Lemma wnP_step : forall c t, wnP (c :: t) -> c <> 0 ->
  c < 64 /\ c <= nlen t /\ wnP (skipn (N.to_nat c) t).
Proof.
  intros c t [f H] Hc. destruct f as [|f]; [discriminate|]. cbn [wire_name_fuel] in H.
  destruct (c =? 0) eqn:E; [apply N.eqb_eq in E; contradiction|].
  apply andb_prop in H as [H H3]. apply andb_prop in H as [H1 H2].
  repeat split; [lia | lia | exists f; exact H3].
Qed.
Lemma wnP_nonempty : forall l, wnP l -> exists c t, l = c :: t.
Proof. intros l [f H]. destruct f; [discriminate|]. destruct l; [discriminate|]. eauto. Qed.

Lemma nlen_map : forall {A B} (g : A -> B) l, nlen (map g l) = nlen l.
Proof. intros. unfold nlen. rewrite map_length. reflexivity. Qed.
Lemma skipn_map : forall {A B} (g : A -> B) n l, skipn n (map g l) = map g (skipn n l).
Proof. induction n; destruct l; cbn; auto. Qed.

Lemma wire_name_lower : forall f l, wire_name_fuel f l = true -> wire_name_fuel f (lower_bytes l) = true.
Proof.
  induction f as [|f IH]; intros l H; [discriminate|].
  destruct l as [|c t]; [discriminate|]. cbn [wire_name_fuel lower_bytes map] in *.
  destruct (c =? 0) eqn:E.
  - apply N.eqb_eq in E; subst. cbn. destruct t; [reflexivity | discriminate].
  - apply andb_prop in H as [H H3]. apply andb_prop in H as [H1 H2].
    assert (Hl : lower c = c). { unfold lower. destruct ((65 <=? c) && (c <=? 90)) eqn:X; [lia | reflexivity]. }
    rewrite Hl, E. fold (lower_bytes t). unfold lower_bytes. rewrite nlen_map, skipn_map, H1, H2. cbn.
    apply IH. exact H3.
Qed.

Definition is_val {A} (r : res A) : Prop := exists a, r = Val a.

Lemma skipn_length_lt : forall (c : N) (t : bytes), (length (skipn (N.to_nat c) t) <= length t)%nat.
Proof. intros. rewrite skipn_length. lia. Qed.

Section V1.
Variable b : backend.
Variable st : store.

(* DataReader.IsAuthoritative never panics on a valid name, and the zone cut it returns is a valid name *)
Lemma is_auth_v1_val : forall fuel zc loc ns auth,
  wnP zc -> (length zc < fuel)%nat ->
  exists a, is_auth_v1 b st fuel zc loc ns auth = Val a /\ wnP (a_zc a).
Proof.
  induction fuel as [|fuel IH]; intros zc loc ns auth Hw Hf; [lia|].
  cbn [is_auth_v1].
  destruct (if is_loc0 loc then (ns, auth, false) else for_each_v1 b st (loc ++ zc) auth_cb (ns, auth)) as [[ns1 auth1] e1].
  destruct e1; [eexists; split; [reflexivity | exact Hw]|].
  destruct (if auth1 && ns1 then (ns1, auth1, false) else for_each_v1 b st (loc0 ++ zc) auth_cb (ns1, auth1)) as [[ns2 auth2] e2].
  destruct e2; [eexists; split; [reflexivity | exact Hw]|].
  destruct ns2; [eexists; split; [reflexivity | exact Hw]|].
  destruct (wnP_nonempty zc Hw) as [c [t ->]].
  unfold idx; cbn [nth_error N.to_nat bind].
  destruct (c =? 0) eqn:E; [eexists; split; [reflexivity | exact Hw]|].
  apply N.eqb_neq in E. destruct (wnP_step c t Hw E) as [H1 [H2 H3]].
  assert (Hb : b8 (1 + c) = 1 + c) by (unfold b8; apply N.mod_small; lia).
  rewrite Hb. unfold slice_from.
  assert (Hle : (1 + c <=? nlen (c :: t)) = true) by (unfold nlen in *; cbn [length]; lia).
  rewrite Hle. cbn [bind].
  replace (N.to_nat (1 + c)) with (S (N.to_nat c)) by lia. cbn [skipn].
  apply IH; [exact H3|]. pose proof (skipn_length_lt c t). cbn [length] in Hf. lia.
Qed.

Lemma find_ans_v1_val : forall fuel q ctrl qname qtype loc wild s,
  wnP q -> (length q < fuel)%nat ->
  is_val (find_ans_v1 b st fuel q ctrl qname qtype loc wild s).
Proof.
  induction fuel as [|fuel IH]; intros q ctrl qname qtype loc wild s Hw Hf; [lia|].
  cbn [find_ans_v1].
  set (s1 := if is_loc0 loc then s else fst (for_each_v1 b st (loc ++ q) (fa_cb qname qtype wild) s)).
  set (s2 := fst (for_each_v1 b st (loc0 ++ q) (fa_cb qname qtype wild) s1)).
  destruct (snd s2); [eexists; reflexivity|].
  destruct (bytes_eqb q ctrl); [eexists; reflexivity|].
  destruct (wnP_nonempty q Hw) as [c [t ->]].
  unfold idx; cbn [nth_error N.to_nat bind].
  destruct (c =? 0) eqn:E; [eexists; reflexivity|].
  apply N.eqb_neq in E. destruct (wnP_step c t Hw E) as [H1 [H2 H3]].
  assert (Hb : b8 (c + 1) = c + 1) by (unfold b8; apply N.mod_small; lia).
  rewrite Hb. unfold slice.
  assert (Hle : ((1 <=? c + 1) && (c + 1 <=? nlen (c :: t))) = true) by (unfold nlen in *; cbn [length]; lia).
  rewrite Hle. cbn [bind].
  match goal with |- context [if ?x then _ else _] => destruct x end; [eexists; reflexivity|].
  unfold slice_from.
  assert (Hle2 : (c + 1 <=? nlen (c :: t)) = true) by (unfold nlen in *; cbn [length]; lia).
  rewrite Hle2. cbn [bind].
  replace (N.to_nat (c + 1)) with (S (N.to_nat c)) by lia. cbn [skipn].
  apply IH; [exact H3|]. pose proof (skipn_length_lt c t). cbn [length] in Hf. lia.
Qed.
End V1.

(* ---------------------------------------------------------------- serve over the v1 reader *)
Definition ok_outcome (o : outcome) : Prop := o <> OPanic /\ o <> OFuel.

Lemma lift_ok : forall {A} (r : res A) (k : A -> outcome),
  is_val r -> (forall a, r = Val a -> ok_outcome (k a)) -> ok_outcome (lift r k).
Proof. intros A r k [a ->] H. cbn. apply H. reflexivity. Qed.

Lemma ok_reply : forall r, ok_outcome (OReply r).
Proof. split; discriminate. Qed.
Lemma ok_servfail : forall q, ok_outcome (servfail q).
Proof. intros; apply ok_reply. Qed.

Section ServeV1.
Variable b : backend.
Variable st : store.
Let rd := reader_v1 b st.

Lemma additional_v1_val : forall recs loc qc m c, is_val (additional unit rd recs loc qc m c).
Proof.
  induction recs as [|it t IH]; intros loc qc m c; cbn [additional]; [eexists; reflexivity|].
  destruct (target_of it) as [name|]; [|apply IH].
  destruct (negb (has_record m name 1) || negb (has_record m name 28)); [|apply IH].
  unfold rd at 1, reader_v1 at 1. cbn [rd_rr].
  destruct (for_each_rr_v1 b st (lower_bytes name) loc _ wrs_empty) as [w e]. cbn [bind]. apply IH.
Qed.

Lemma serve_sections_v1_ok : forall q ecs loc auth zc an rcode c,
  ok_outcome (serve_sections unit rd q ecs loc auth zc an rcode c).
Proof.
  intros. unfold serve_sections. destruct (parse_name zc) as [[zname rest]|]; [|apply ok_servfail].
  apply lift_ok.
  - destruct (auth && (item_count an =? 0)).
    + unfold rd, reader_v1; cbn [rd_rr]. destruct (for_each_rr_v1 b st zc loc _ _) as [s e]. eexists; reflexivity.
    + destruct (negb auth && negb (has_record (mkMsg an [] []) zname 2)); [|eexists; reflexivity].
      unfold rd, reader_v1; cbn [rd_rr]. destruct (for_each_rr_v1 b st zc loc _ _) as [s e]. eexists; reflexivity.
  - intros [nsec c4] _. apply lift_ok.
    + destruct (additional_v1_val (m_an (mkMsg an nsec [])) loc (q_class q) (mkMsg an nsec []) c4) as [[m1 c5] E].
      rewrite E. cbn [bind]. apply additional_v1_val.
    + intros [m2 c6] _. apply ok_reply.
Qed.

Lemma serve_answer_v1_ok : forall q ecs loc max packed ar c,
  wnP packed -> ok_outcome (serve_answer unit rd q ecs loc max packed ar c).
Proof.
  intros q ecs loc max packed ar c Hw. unfold serve_answer. apply lift_ok.
  - destruct (a_auth ar); [|eexists; reflexivity].
    unfold rd, reader_v1; cbn [rd_answer]. unfold find_answer_v1.
    destruct (find_ans_v1_val b st (S (length packed)) packed (a_zc ar) (q_name q) (q_type q) loc false
                (wrs_empty, [], false) Hw (Nat.lt_succ_diag_r _)) as [s E].
    rewrite E. cbn [bind]. destruct (fa_finish (q_name q) max s) as [an found]. cbn [bind]. eexists; reflexivity.
  - intros [[an rcode] c3] _. apply serve_sections_v1_ok.
Qed.

Lemma serve_ds_v1_val : forall q loc packed ar c, wnP packed -> is_val (serve_ds unit rd q loc packed ar c).
Proof.
  intros q loc packed ar c Hw. unfold serve_ds.
  destruct (negb (a_auth ar) && (q_type q =? 43)); [|eexists; reflexivity].
  destruct (wnP_nonempty packed Hw) as [p0 [t ->]].
  unfold idx; cbn [nth_error N.to_nat bind].
  destruct (p0 =? 0) eqn:E; [eexists; reflexivity|].
  apply N.eqb_neq in E. destruct (wnP_step p0 t Hw E) as [H1 [H2 H3]].
  assert (Hb : b8 (p0 + 1) = p0 + 1) by (unfold b8; apply N.mod_small; lia).
  rewrite Hb. unfold slice_from.
  assert (Hle : (p0 + 1 <=? nlen (p0 :: t)) = true) by (unfold nlen in *; cbn [length]; lia).
  rewrite Hle. cbn [bind].
  replace (N.to_nat (p0 + 1)) with (S (N.to_nat p0)) by lia. cbn [skipn].
  unfold rd, reader_v1; cbn [rd_auth]. unfold is_authoritative_v1.
  destruct (is_auth_v1_val b st (S (length (skipn (N.to_nat p0) t))) (skipn (N.to_nat p0) t) loc false false H3
              (Nat.lt_succ_diag_r _)) as [a [E2 _]].
  rewrite E2. cbn [bind]. destruct (a_err a); eexists; reflexivity.
Qed.

Lemma serve_v1_ok : forall q locr ecs max,
  wnP (q_name q) -> ok_outcome (serve_with unit rd tt q locr ecs max).
Proof.
  intros q locr ecs max Hw. unfold serve_with.
  assert (Hp : wnP (lower_bytes (q_name q))).
  { destruct Hw as [f H]. exists f. apply wire_name_lower. exact H. }
  assert (main : ok_outcome
    match locr with
    | LocOk loc =>
        lift (rd_auth unit rd tt (lower_bytes (q_name q)) loc)
          (fun x => let '(ar, c1) := x in
             if a_err ar then servfail q
             else if negb (a_ns ar) && negb (a_auth ar)
                  then OReply (mkResp (q_id q) (question_of q) 5 false [] [] [] (opt_of q ecs))
                  else lift (serve_ds unit rd q loc (lower_bytes (q_name q)) ar c1)
                         (fun r => match r with
                                   | Some (ar', c2) => serve_answer unit rd q ecs loc max (lower_bytes (q_name q)) ar' c2
                                   | None => servfail q
                                   end))
    | _ => ONoReply
    end).
  { destruct locr as [| |loc]; try (split; discriminate).
    apply lift_ok.
    - unfold rd, reader_v1; cbn [rd_auth]. unfold is_authoritative_v1.
      destruct (is_auth_v1_val b st (S (length (lower_bytes (q_name q)))) (lower_bytes (q_name q)) loc false false Hp
                  (Nat.lt_succ_diag_r _)) as [a [E _]].
      rewrite E. eexists; reflexivity.
    - intros [ar c1] _. destruct (a_err ar); [apply ok_servfail|].
      destruct (negb (a_ns ar) && negb (a_auth ar)); [apply ok_reply|].
      apply lift_ok; [apply serve_ds_v1_val; exact Hp|].
      intros [[ar' c2]|] _; [apply serve_answer_v1_ok; exact Hp | apply ok_servfail]. }
  destruct (q_edns q) as [[|p]|]; [exact main | apply ok_reply | exact main].
Qed.
End ServeV1.

(* C13 for CDB and RocksDB with v1 keys *)
Theorem serve_no_panic_v1 : forall b st q locr ecs max,
  b <> RDB2 -> wire_name (q_name q) = true ->
  serve b st q locr ecs max <> OPanic /\ serve b st q locr ecs max <> OFuel.
Proof.
  intros b st q locr ecs max Hb Hw.
  assert (Hp : wnP (q_name q)).
  { unfold wire_name in Hw. apply andb_prop in Hw as [Hw _]. eexists; exact Hw. }
  destruct b; [| |contradiction]; unfold serve; apply serve_v1_ok; exact Hp.
Qed.

(* ------------------------------------------------------------------------------------------
   NOTES for C13_no_panic_v2 (not proved).  Panic sources of serve over reader_v2, and what is
   known about each:
   - reverse_zone_name / rev_into on the query name, its DS parent, and NS/MX targets: none on
     wire names (Proofs/Reverse.reverse_zone_name_pack, rev_into_key_buffer, for_each_rr_v2_val);
     targets come from parse_name, so they are wire names (needs: parse_name l = Some (n, r) ->
     wnP n, by induction on parse_name_fuel), and lower_bytes keeps wnP (wire_name_lower above).
   - callbacks: recovered by rdb.ForEach (Panicked status, never res.Panic) - nothing to prove.
   - find_loop (LookupV2): needs an invariant  I(rev, kbuf, klen, qlen) :=
       rev = rpack n  /\  1 <= qlen <= nlen rev  /\  qlen - 1 is a label boundary of rev  /\
       nlen kbuf = nlen rev + 4  /\  2 + qlen + 2 <= klen <= nlen kbuf  /\
       firstn (2 + qlen - 1) kbuf = marker ++ firstn (qlen - 1) rev
     It gives: upd / copy_at / the reslice succeed; slice_to rev (qlen - 1) succeeds.
   - the found key k: with  wf_store_v2 st := every key with prefix marker is
       marker ++ rpack m ++ [a; b] for a wf name m, or the features key (length 11) ,
     slice kk 2 (nlen kk - 2) and slice_to fl (nlen fl - 1) succeed (nlen kk >= 5).
   - get_length_without_last_label (rpack n) qlen on a boundary: idx stays below qlen - 1 < nlen rev
     (induction over the labels; byte arithmetic does not wrap because nlen rev <= 255).
   - find_common_longest_prefix (rpack n) fl: for fl = rpack m' both strings are sequences of
     complete labels, so whenever the length bytes agree the inner comparison stays inside both;
     for the features key fl = "_featur" the first bytes differ (95 > 63) and the loop returns 0.
     Statement: forall n m' wf, exists c, find_common_longest_prefix (rpack n) (rpack m') = Val c
     /\ c is a common label boundary  /\  c + 1 <= qlen when k <= probe (needs seek_prev_le and the
     order lemma of SortedStore's notes (1)), which also re-establishes I for the next iteration and
     shows the fuel (length q + 2) suffices because qlen strictly decreases.
   - is_authoritative_v2: zcl <= nlen q from I;  find_answer_v2's pre_fa_loop: i - 1 and
     [i, i + ll) stay inside rev because i runs over label boundaries between len and last.
   ------------------------------------------------------------------------------------------ *)
