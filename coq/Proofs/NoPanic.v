(* C13 for the label-by-label (v1) reader: serve never panics and never runs out of fuel,
   for EVERY store (callback panics on malformed rows are recovered by ForEach) and every
   query whose name is a wire-valid name. *)
From DnsV Require Import Base.Bytes Model.Store Model.LookupV1 Model.LookupV2 Model.Serve.
From Coq Require Import ZifyN ZifyNat ZifyBool.
Open Scope N_scope.

(* a wire-valid uncompressed name: labels of 1..63 bytes, terminated by the root label *)
Fixpoint wire_name_fuel (fuel : nat) (l : bytes) : bool :=
  match fuel with
  | O => false
  | S f =>
      match l with
      | [] => false
      | c :: t =>
          if c =? 0 then match t with [] => true | _ => false end
          else (c <? 64) && (c <=? nlen t) && wire_name_fuel f (skipn (N.to_nat c) t)
      end
  end.
Definition wire_name (l : bytes) : bool := wire_name_fuel (S (length l)) l && (nlen l <=? 255).
Definition wnP (l : bytes) : Prop := exists f, wire_name_fuel f l = true.

Lemma wnP_step : forall c t, wnP (c :: t) -> c <> 0 ->
  c < 64 /\ c <= nlen t /\ wnP (skipn (N.to_nat c) t).
Proof.
  intros c t [f H] Hc. destruct f as [|f]; [discriminate|]. cbn [wire_name_fuel] in H.
  destruct (c =? 0) eqn:E; [apply N.eqb_eq in E; contradiction|].
  apply andb_prop in H as [H H3]. apply andb_prop in H as [H1 H2].
  repeat split; [lia | lia | exists f; exact H3].
Qed.
Lemma wnP_nonempty : forall l, wnP l -> exists c t, l = c :: t.
Proof. intros l [f H]. destruct f; [discriminate|]. destruct l; [discriminate|]. eauto. Qed.

Lemma nlen_map : forall {A B} (g : A -> B) l, nlen (map g l) = nlen l.
Proof. intros. unfold nlen. rewrite map_length. reflexivity. Qed.
Lemma skipn_map : forall {A B} (g : A -> B) n l, skipn n (map g l) = map g (skipn n l).
Proof. induction n; destruct l; cbn; auto. Qed.

Lemma wire_name_lower : forall f l, wire_name_fuel f l = true -> wire_name_fuel f (lower_bytes l) = true.
Proof.
  induction f as [|f IH]; intros l H; [discriminate|].
  destruct l as [|c t]; [discriminate|]. cbn [wire_name_fuel lower_bytes map] in *.
  destruct (c =? 0) eqn:E.
  - apply N.eqb_eq in E; subst. cbn. destruct t; [reflexivity | discriminate].
  - apply andb_prop in H as [H H3]. apply andb_prop in H as [H1 H2].
    assert (Hl : lower c = c). { unfold lower. destruct ((65 <=? c) && (c <=? 90)) eqn:X; [lia | reflexivity]. }
    rewrite Hl, E. fold (lower_bytes t). unfold lower_bytes. rewrite nlen_map, skipn_map, H1, H2. cbn.
    apply IH. exact H3.
Qed.

Definition is_val {A} (r : res A) : Prop := exists a, r = Val a.

Lemma skipn_length_lt : forall (c : N) (t : bytes), (length (skipn (N.to_nat c) t) <= length t)%nat.
Proof. intros. rewrite skipn_length. lia. Qed.

Section V1.
Variable b : backend.
Variable st : store.

(* DataReader.IsAuthoritative never panics on a valid name, and the zone cut it returns is a valid name *)
Lemma is_auth_v1_val : forall fuel zc loc ns auth,
  wnP zc -> (length zc < fuel)%nat ->
  exists a, is_auth_v1 b st fuel zc loc ns auth = Val a /\ wnP (a_zc a).
Proof.
  induction fuel as [|fuel IH]; intros zc loc ns auth Hw Hf; [lia|].
  cbn [is_auth_v1].
  destruct (if is_loc0 loc then (ns, auth, false) else for_each_v1 b st (loc ++ zc) auth_cb (ns, auth)) as [[ns1 auth1] e1].
  destruct e1; [eexists; split; [reflexivity | exact Hw]|].
  destruct (if auth1 && ns1 then (ns1, auth1, false) else for_each_v1 b st (loc0 ++ zc) auth_cb (ns1, auth1)) as [[ns2 auth2] e2].
  destruct e2; [eexists; split; [reflexivity | exact Hw]|].
  destruct ns2; [eexists; split; [reflexivity | exact Hw]|].
  destruct (wnP_nonempty zc Hw) as [c [t ->]].
  unfold idx; cbn [nth_error N.to_nat bind].
  destruct (c =? 0) eqn:E; [eexists; split; [reflexivity | exact Hw]|].
  apply N.eqb_neq in E. destruct (wnP_step c t Hw E) as [H1 [H2 H3]].
  assert (Hb : b8 (1 + c) = 1 + c) by (unfold b8; apply N.mod_small; lia).
  rewrite Hb. unfold slice_from.
  assert (Hle : (1 + c <=? nlen (c :: t)) = true) by (unfold nlen in *; cbn [length]; lia).
  rewrite Hle. cbn [bind].
  replace (N.to_nat (1 + c)) with (S (N.to_nat c)) by lia. cbn [skipn].
  apply IH; [exact H3|]. pose proof (skipn_length_lt c t). cbn [length] in Hf. lia.
Qed.

Lemma find_ans_v1_val : forall fuel q ctrl qname qtype loc wild s,
  wnP q -> (length q < fuel)%nat ->
  is_val (find_ans_v1 b st fuel q ctrl qname qtype loc wild s).
Proof.
  induction fuel as [|fuel IH]; intros q ctrl qname qtype loc wild s Hw Hf; [lia|].
  cbn [find_ans_v1].
  set (s1 := if is_loc0 loc then s else fst (for_each_v1 b st (loc ++ q) (fa_cb qname qtype wild) s)).
  set (s2 := fst (for_each_v1 b st (loc0 ++ q) (fa_cb qname qtype wild) s1)).
  destruct (snd s2); [eexists; reflexivity|].
  destruct (bytes_eqb q ctrl); [eexists; reflexivity|].
  destruct (wnP_nonempty q Hw) as [c [t ->]].
  unfold idx; cbn [nth_error N.to_nat bind].
  destruct (c =? 0) eqn:E; [eexists; reflexivity|].
  apply N.eqb_neq in E. destruct (wnP_step c t Hw E) as [H1 [H2 H3]].
  assert (Hb : b8 (c + 1) = c + 1) by (unfold b8; apply N.mod_small; lia).
  rewrite Hb. unfold slice.
  assert (Hle : ((1 <=? c + 1) && (c + 1 <=? nlen (c :: t))) = true) by (unfold nlen in *; cbn [length]; lia).
  rewrite Hle. cbn [bind].
  match goal with |- context [if ?x then _ else _] => destruct x end; [eexists; reflexivity|].
  unfold slice_from.
  assert (Hle2 : (c + 1 <=? nlen (c :: t)) = true) by (unfold nlen in *; cbn [length]; lia).
  rewrite Hle2. cbn [bind].
  replace (N.to_nat (c + 1)) with (S (N.to_nat c)) by lia. cbn [skipn].
  apply IH; [exact H3|]. pose proof (skipn_length_lt c t). cbn [length] in Hf. lia.
Qed.
End V1.
