(* C13: shape of whatever serve writes (both readers). *)
From DnsV Require Import Base.Bytes Model.Store Model.LookupV1 Model.LookupV2 Model.Serve Proofs.Serve.
Open Scope N_scope.

Definition echoes (q : query) (r : response) : Prop :=
  rs_id r = q_id q /\ rs_question r = question_of q.

Lemma lift_reply : forall {A} (r : res A) (k : A -> outcome) x,
  lift r k = OReply x -> exists a, r = Val a /\ k a = OReply x.
Proof. intros A r k x H. destruct r; cbn in H; try discriminate. eauto. Qed.

Lemma servfail_echoes : forall q x, servfail q = OReply x -> echoes q x.
Proof. intros q x H. inversion H; subst. split; reflexivity. Qed.

Section Any.
Variable C : Type.
Variable rd : reader C.

Lemma serve_sections_echoes : forall q ecs loc auth zc an rcode c x,
  serve_sections C rd q ecs loc auth zc an rcode c = OReply x -> echoes q x.
Proof.
  intros q ecs loc auth zc an rcode c x H. unfold serve_sections in H.
  destruct (parse_name zc) as [[zname rest]|]; [|exact (servfail_echoes q x H)].
  apply lift_reply in H as [[nsec c4] [_ H]].
  apply lift_reply in H as [[m2 c6] [_ H]].
  inversion H; subst. split; reflexivity.
Qed.

Lemma serve_answer_echoes : forall q ecs loc max packed ar c x,
  serve_answer C rd q ecs loc max packed ar c = OReply x -> echoes q x.
Proof.
  intros q ecs loc max packed ar c x H. unfold serve_answer in H.
  apply lift_reply in H as [[[an rcode] c3] [_ H]]. exact (serve_sections_echoes _ _ _ _ _ _ _ _ _ H).
Qed.

(* every reply other than BADVERS carries the query's ID and question *)
Lemma serve_with_echoes : forall c0 q locr ecs max x,
  (q_edns q = None \/ q_edns q = Some 0) ->
  serve_with C rd c0 q locr ecs max = OReply x -> echoes q x.
Proof.
  intros c0 q locr ecs max x Hv H. unfold serve_with in H.
  assert (H' : match locr with
    | LocOk loc =>
        lift (rd_auth C rd c0 (lower_bytes (q_name q)) loc)
          (fun x => let '(ar, c1) := x in
             if a_err ar then servfail q
             else if negb (a_ns ar) && negb (a_auth ar)
                  then OReply (mkResp (q_id q) (question_of q) 5 false [] [] [] (opt_of q ecs))
                  else lift (serve_ds C rd q loc (lower_bytes (q_name q)) ar c1)
                         (fun r => match r with
                                   | Some (ar', c2) => serve_answer C rd q ecs loc max (lower_bytes (q_name q)) ar' c2
                                   | None => servfail q
                                   end))
    | _ => ONoReply
    end = OReply x).
  { destruct Hv as [E|E]; rewrite E in H; exact H. }
  clear H. destruct locr as [| |loc]; try discriminate.
  apply lift_reply in H' as [[ar c1] [_ H]].
  destruct (a_err ar); [exact (servfail_echoes q x H)|].
  destruct (negb (a_ns ar) && negb (a_auth ar)); [inversion H; subst; split; reflexivity|].
  apply lift_reply in H as [r [_ H]].
  destruct r as [[ar' c2]|]; [exact (serve_answer_echoes _ _ _ _ _ _ _ _ H) | exact (servfail_echoes q x H)].
Qed.

(* every reply, BADVERS included, carries the query's ID *)
Lemma serve_with_id : forall c0 q locr ecs max x,
  serve_with C rd c0 q locr ecs max = OReply x -> rs_id x = q_id q.
Proof.
  intros c0 q locr ecs max x H.
  destruct (q_edns q) as [[|p]|] eqn:E.
  - exact (proj1 (serve_with_echoes c0 q locr ecs max x (or_intror E) H)).
  - unfold serve_with in H. rewrite E in H. inversion H; subst. reflexivity.
  - exact (proj1 (serve_with_echoes c0 q locr ecs max x (or_introl E) H)).
Qed.
End Any.

Lemma serve_echoes : forall b st q locr ecs max x,
  (q_edns q = None \/ q_edns q = Some 0) ->
  serve b st q locr ecs max = OReply x -> rs_id x = q_id q /\ rs_question x = question_of q.
Proof. intros b st q locr ecs max x Hv H. destruct b; unfold serve in H; eapply serve_with_echoes; eauto. Qed.

Lemma serve_id : forall b st q locr ecs max x,
  serve b st q locr ecs max = OReply x -> rs_id x = q_id q.
Proof. intros b st q locr ecs max x H. destruct b; unfold serve in H; eapply serve_with_id; eauto. Qed.

(* the strict reading (every reply echoes the question) is false: a BADVERS reply has none *)
Lemma reply_shape_refuted :
  exists b st q locr ecs max x,
    serve b st q locr ecs max = OReply x /\ rs_question x <> question_of q.
Proof.
  exists CDB, [], (mkQ 7 [0] 1 1 (Some 1)), (LocOk [0; 0]), None, 1.
  eexists. split; [vm_compute; reflexivity | vm_compute; discriminate].
Qed.
