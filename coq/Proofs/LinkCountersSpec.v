(* Proofs/LinkCountersSpec: C19 x C01, second half - the outcome counters as a function of what the data
   DECLARES: Proofs/LinkCountersServe.counters_follow_serve composed with the refinement of
   Spec/Answer.spec_response (C01_response_is_spec, _v2, C01_file_level through Proofs/Compose.gen_declares). *)
From DnsV Require Import Base.Bytes Model.Store Model.LookupV1 Model.LookupV2 Model.Serve.
From DnsV Require Import Spec.Answer Spec.Rows.
From DnsV Require Import Proofs.Compile Proofs.ZoneCut Proofs.Referral Proofs.SoaAuth Proofs.AnswerItems Proofs.AuthSections Proofs.FileLevel.
From DnsV Require Model.Counters Spec.Counters Proofs.Counters.
From DnsV Require Model.Compose Proofs.Compose.
From DnsV Require Import Model.ComposeMore Proofs.LinkWrsServe Proofs.LinkCountersServe.
From Coq Require Import Lia Permutation.
Open Scope N_scope.

(* the number of answer records the declared records prescribe for a query answered from [ans] with max answer
   [max]: every selected non-address record, and min(max, positive weights) per address family (C11) *)
Definition declared_count (max : N) (ans : list record) : N :=
  nlen (filter (fun r => negb (is_addr_rec r)) ans) +
  N.min max (nlen (filter posw (of_type 1 ans))) +
  N.min max (nlen (filter posw (of_type 28 ans))).

(* (restated outside any section: the versions in Proofs/LinkWrsServe.v carry that section's hypotheses) *)
Lemma ic_app : forall a b, item_count (a ++ b) = item_count a + item_count b.
Proof.
  induction a as [|i a IH]; intros b; cbn [app item_count fold_right]; [reflexivity|].
  fold (item_count (a ++ b)). fold (item_count a). rewrite IH. destruct i; lia.
Qed.
Lemma ic_irr : forall (f : record -> rr) l, item_count (map (fun r => IRR (f r)) l) = nlen l.
Proof.
  intros f l. induction l as [|a t IH]; [reflexivity|]. cbn [map item_count fold_right].
  fold (item_count (map (fun r => IRR (f r)) t)). rewrite IH. unfold nlen. cbn [length]. lia.
Qed.
Lemma ic_wrs : forall o cls max ty c, item_count (wrs_items o cls max ty c) = npick max c.
Proof.
  intros. unfold wrs_items. destruct (npick max c =? 0) eqn:E; cbn [item_count fold_right]; [apply N.eqb_eq in E|]; lia.
Qed.
Lemma npick_cands' : forall max (rs : list record), npick max (map cand_of rs) = N.min max (nlen (filter posw rs)).
Proof. intros. unfold npick, npos, nlen. f_equal. f_equal. exact (count_cands rs). Qed.

Lemma answer_items_count : forall qname max ord,
  item_count (answer_items qname max ord) =
  nlen (filter (fun r => negb (is_addr_rec r)) ord) +
  N.min max (nlen (filter posw (filter (fun r => r_type r =? 1) ord))) +
  N.min max (nlen (filter posw (filter (fun r => r_type r =? 28) ord))).
Proof.
  intros. unfold answer_items, item_of. rewrite !ic_app.
  rewrite (ic_irr (rr_of_rec qname 1)), !ic_wrs, !npick_cands'. lia.
Qed.

Lemma declared_count_perm : forall max ord ans, Permutation ord ans ->
  item_count (answer_items [] max ord) = declared_count max ans.
Proof.
  intros max ord ans P. rewrite answer_items_count. unfold declared_count, of_type, nlen.
  rewrite (Permutation_length (perm_filter (fun r => negb (is_addr_rec r)) _ _ P)).
  rewrite (Permutation_length (perm_filter posw _ _ (perm_filter (fun r => r_type r =? 1) _ _ P))).
  rewrite (Permutation_length (perm_filter posw _ _ (perm_filter (fun r => r_type r =? 28) _ _ P))).
  reflexivity.
Qed.

Lemma answer_nx_iff : forall L recs n qtype z nx ans soa,
  spec_response L recs n qtype = Answer z nx ans soa ->
  zone_cut L recs n = Some z /\ authoritative L recs z = true /\ (nx = true <-> source_records L recs z n = []).
Proof.
  intros L recs n qtype z nx ans soa H. unfold spec_response in H.
  destruct (zone_cut L recs n) as [z'|]; [|discriminate].
  destruct (authoritative L recs z') eqn:Ea; cbn [negb] in H; [|discriminate]. inversion H; subst.
  split; [reflexivity|]. split; [exact Ea|].
  destruct (source_records L recs z n); cbn; split; intros; try reflexivity; discriminate.
Qed.

Module MC := Model.Counters.
Module SC := Spec.Counters.

(* what the counters must show for a query, by the response class the declared records prescribe *)
Definition counters_by_spec (L : bytes) (recs : list record) (n : name) (q : query) (max : N) (o : MC.outcome) : Prop :=
  let l := MC.o_incs o in
  SC.cnt MC.KQueries l = 1%nat /\ SC.cnt (MC.KType (q_type q)) l = 1%nat /\
  (forall t, t <> q_type q -> SC.cnt (MC.KType t) l = 0%nat) /\
  match spec_response L recs n (q_type q) with
  | Refused =>
      SC.cnt MC.KRefused l = 1%nat /\ SC.cnt MC.KNxdomain l = 0%nat /\ SC.cnt MC.KNodata l = 0%nat /\
      SC.cnt MC.KNotAuthoritative l = 1%nat /\ SC.cnt MC.KBadvers l = 0%nat /\ MC.o_logs o = [MC.LogSent]
  | Referral z nsr =>
      q_type q <> 43 ->
      SC.cnt MC.KRefused l = 0%nat /\ SC.cnt MC.KNxdomain l = 0%nat /\ SC.cnt MC.KNodata l = 1%nat /\
      SC.cnt MC.KNotAuthoritative l = 1%nat /\ SC.cnt MC.KBadvers l = 0%nat /\ MC.o_logs o = [MC.LogSent]
  | Answer z nx ans soa =>
      SC.cnt MC.KRefused l = 0%nat /\ SC.cnt MC.KNotAuthoritative l = 0%nat /\
      SC.cnt MC.KNxdomain l = SC.b2n nx /\
      (nx = true <-> source_records L recs z n = []) /\
      SC.cnt MC.KNodata l = SC.b2n (negb nx && (declared_count max ans =? 0)) /\
      SC.cnt MC.KBadvers l = 0%nat /\ MC.o_logs o = [MC.LogSent]
  end.

Lemma item_count_qname : forall qname max ord, item_count (answer_items qname max ord) = item_count (answer_items [] max ord).
Proof. intros. rewrite !answer_items_count. reflexivity. Qed.

(* (3) core: a written reply that refines the spec moves the counters as the spec's class says *)
Theorem counters_by_refinement : forall sd L recs n q ecs max x o,
  response_refines L recs n q ecs max x ->
  counters_follow sd q (OReply x) o -> s_write_err sd = false ->
  counters_by_spec L recs n q max o.
Proof.
  intros sd L recs n q ecs max x o (_ & _ & R) (K1 & K2 & K3 & _ & _ & K6) Hw. unfold counters_by_spec. cbn zeta.
  rewrite Hw, orb_false_r in K6.
  split; [exact K1|]. split; [exact K2|]. split; [exact K3|].
  destruct (spec_response L recs n (q_type q)) as [|z nsr|z nx ans soa] eqn:Es.
  - destruct R as (R1 & R2 & R3 & _). rewrite R1, R2, R3 in K6. cbn in K6.
    destruct K6 as (C1 & C2 & C3 & C4 & C5 & C6). repeat split; assumption.
  - intros D. destruct (R D) as (R1 & R2 & R3 & _). rewrite R1, R2, R3 in K6. cbn in K6.
    destruct K6 as (C1 & C2 & C3 & C4 & C5 & C6). repeat split; assumption.
  - destruct R as (R1 & R2 & (ord & P & R3) & _).
    destruct (answer_nx_iff _ _ _ _ _ _ _ _ Es) as (_ & _ & Hnx).
    assert (Ec : item_count (rs_an x) = declared_count max ans).
    { rewrite R3, item_count_qname. exact (declared_count_perm max ord ans P). }
    rewrite R1, R2, Ec in K6.
    destruct nx; cbn in K6; destruct K6 as (C1 & C2 & C3 & C4 & C5 & C6); cbn [negb andb];
      (split; [exact C2|]); (split; [exact C5|]); (split; [exact C1|]); (split; [exact Hnx|]);
      (split; [exact C4|]); (split; [exact C3|exact C6]).
Qed.

(* every database form of Proofs/Compose.gen_declares (rows of Spec/Rows in v1 / v2 layout; everything the
   modelled compilers produce from the text of a well-formed data file - C01_file_level) *)
Theorem counters_follow_spec : forall g L recs, Proofs.Compose.gen_declares g L recs ->
  forall sd q n ecs max x,
  wf_name n -> nlen (pack n) <= 255 -> lower_bytes (q_name q) = pack n ->
  (q_edns q = None \/ q_edns q = Some 0) ->
  serve (Model.Compose.g_backend g) (Model.Compose.g_store g) q (LocOk L) ecs max = OReply x ->
  s_write_err sd = false ->
  counters_by_spec L recs n q max
    (MC.serve (class_of sd (Model.Compose.g_backend g) (Model.Compose.g_store g) q (LocOk L) ecs max)).
Proof.
  intros g L recs D sd q n ecs max x Hn Hl Hq He Hs Hw.
  pose proof (Proofs.Compose.declares_serves g L recs D q n ecs max x Hn Hl Hq He Hs) as R.
  pose proof (counters_follow_serve sd (Model.Compose.g_backend g) (Model.Compose.g_store g) q (LocOk L) ecs max) as F.
  rewrite Hs in F. exact (counters_by_refinement sd L recs n q ecs max x _ R (F ltac:(discriminate) ltac:(discriminate)) Hw).
Qed.

(* the label-by-label reader over the compiled store, with the guards of C01_response_is_spec spelled out *)
Theorem counters_follow_spec_v1 : forall b recs L, wf_recs recs -> Forall wf_ns_rdata recs -> length L = 2%nat ->
  b <> RDB2 -> wf_view L recs = true -> forall sd q n ecs max x,
  wf_name n -> nlen (pack n) <= 255 -> lower_bytes (q_name q) = pack n ->
  (q_edns q = None \/ q_edns q = Some 0) ->
  serve b (store_v1 recs) q (LocOk L) ecs max = OReply x ->
  s_write_err sd = false ->
  counters_by_spec L recs n q max (MC.serve (class_of sd b (store_v1 recs) q (LocOk L) ecs max)).
Proof.
  intros b recs L W WN HL Hb V sd q n ecs max x Hn Hl Hq He Hs Hw.
  pose proof (response_is_spec_v1 b recs L W WN HL Hb V q n ecs max x Hn Hl Hq He Hs) as R.
  pose proof (counters_follow_serve sd b (store_v1 recs) q (LocOk L) ecs max) as F.
  rewrite Hs in F. exact (counters_by_refinement sd L recs n q ecs max x _ R (F ltac:(discriminate) ltac:(discriminate)) Hw).
Qed.
