From DnsV Require Import Base.Bytes Model.Reload Proofs.Reload Proofs.ReloadBase Proofs.ReloadVis Proofs.ReloadFlags.
From Coq Require Import Lia ZifyN ZifyNat ZifyBool.
Open Scope N_scope.
Section P.
Variable refusedf weightedf : N -> N -> bool.
Variable cfg : config.
Notation step := (step refusedf weightedf cfg).

(* without late catch-ups the served content is always the newest *)
Definition ServedMax (st : state) : Prop := no_late st -> epoch_of st (st_served st) = st_epoch st.

Lemma ServedMax_step st t st' :
  Flags st -> Idx st -> Epo st -> ServedMax st -> step st t = Some st' -> ServedMax st'.
Proof.
  intros HF [HS _ HIR] [HE _ _ _] HX H NL.
  pose proof (no_late_back _ _ _ _ _ _ HF H NL) as NL0. specialize (HX NL0). clear HF.
  unfold no_late, rat in *.
  inv_step H.
  all: unfold epoch_of, back, content, catch_up, set_backs, qread, qset_pc, rset_pc in *; cbn in *; auto.
  all: nat_eqs;
       repeat match goal with Hr : nth_error (st_rs _) _ = Some _ |- _ => pose proof (HIR _ _ Hr); revert Hr end; intros;
       pcs; cbn in *; triv_prem.
  all: try (rewrite nth_upd_same by lia; cbn; lia).
  all: try (rewrite nth_app_lt by lia; lia).
  all: try lia.
  (* late catch-up: excluded *)
  all: exfalso;
       match goal with Hr : nth_error (st_rs ?s) ?i = Some ?r |- _ =>
         specialize (NL i); cbn in NL; erewrite nth_error_upd_same in NL by eassumption;
         specialize (NL _ eq_refl); cbn in NL end;
       rewrite Bool.andb_true_iff in *; dest_and; congruence.
Qed.

(* a query that finished before another one took the read lock saw nothing newer *)
Definition Mono (st : state) : Prop :=
  no_late st ->
  forall j1 j2 q1 q2, qat st j1 q1 -> qat st j2 q2 -> q_pc q1 = QDone -> q_pc q2 <> QStart ->
  q_done_at q1 < q_acq_at q2 ->
  forall g1, In g1 (q_reads q1) ->
  (q_pc q2 = QRLocked -> g_epoch g1 <= epoch_of st (st_served st)) /\
  (q_pc q2 <> QRLocked -> g_epoch g1 <= epoch_of st (q_pin q2)) /\
  (forall g2, In g2 (q_reads q2) -> g_epoch g1 <= g_epoch g2).

Lemma Mono_step st t st' :
  Flags st -> Idx st -> Epo st -> Clk st -> ServedMax st -> Mono st -> step st t = Some st' -> Mono st'.
Proof.
  intros HF HI HE [KQ _] HX HV H NL.
  pose proof (no_late_back _ _ _ _ _ _ HF H NL) as NL0.
  pose proof (epoch_mono _ _ _ _ _ _ HE H) as HM.
  pose proof (ServedMax_step _ _ _ HF HI HE HX H NL) as SX'.
  pose proof (Epo_step _ _ _ _ _ _ HE H) as [_ _ EQ' _].
  specialize (HV NL0). clear HF HI HE HX NL NL0.
  inv_step H.
  all: unfold qat, rat, qread, qset_pc, rset_pc, epoch_of, back, content, catch_up, set_backs in *; cbn in *.
  all: intros ? ? ? ? HN1 HN2; pose proof (EQ' _ _ HN1) as F1; clear EQ'; split_upd; cbn in *; intros; pcs; cbn in *; try discriminate.
  all: repeat match goal with
       | Hq : nth_error (st_qs _) _ = Some _ |- _ => pose proof (KQ _ _ Hq); revert Hq
       end; intros;
       repeat match goal with
       | Hq1 : nth_error (st_qs _) _ = Some ?q1, Hq : nth_error (st_qs _) _ = Some ?q |- _ =>
           lazymatch goal with
           | _ : q_pc q1 = QDone -> q_pc q <> QStart -> _ |- _ => fail
           | _ => pose proof (HV _ _ _ _ Hq1 Hq)
           end
       end;
       dest_and; pcs; cbn in *; triv_prem; try lia.
  all: repeat match goal with
       | Hq1 : nth_error (st_qs _) _ = Some ?q1 |- _ =>
           lazymatch goal with
           | _ : q_pc q1 = QDone -> q_pc q1 <> QStart -> _ |- _ => fail
           | _ => pose proof (HV _ _ _ _ Hq1 Hq1)
           end
       end; pcs; cbn in *; triv_prem; try lia.
  all: repeat match goal with H : forall g, In g ?l -> _, H' : In ?x ?l |- _ => pose proof (H _ H'); revert H' end; intros; fwd; dest_and; triv_prem.
  all: repeat split; intros; split_in; subst; cbn in *; try contradiction; try congruence; fwd; dest_and; triv_prem;
       try (match goal with |- _ <= b_epoch (nth ?b _ _) => pose proof (HM b) end);
       repeat match goal with H : forall g, In g ?l -> _, H' : In ?x ?l |- _ => pose proof (H _ H'); revert H' end; intros;
       try lia.
  all: unfold back in *; try lia.
  all: do 2 (repeat match goal with H : forall g, In g ?l -> _, H' : In ?x ?l |- _ => pose proof (H _ H'); revert H' end; intros;
             dest_and; fwd; triv_prem);
       try (match goal with |- _ <= b_epoch (nth ?b _ _) => pose proof (HM b) end); try lia.
Qed.
End P.
