(* Generic facts about squash (the last loop of Rearrange) and about the predecessor
   search over range points (pt_seek_aux / pt_locate). *)
From DnsV Require Import Base.Bytes Base.Ip Model.Rearranger Model.Location.
From Coq Require Import Lia ZifyN ZifyBool.
Open Scope N_scope.

(* a point is dropped iff the next point has the same address and a mask length
   that is not longer *)
Definition shadowb (p r : point) : bool :=
  (p_ip p =? p_ip r) && (rl_mask (p_loc r) <=? rl_mask (p_loc p)).

Fixpoint squash_spec (l : list point) : list point :=
  match l with
  | [] => []
  | p :: l' =>
      match l' with
      | r :: _ => if shadowb p r then squash_spec l' else p :: squash_spec l'
      | [] => [p]
      end
  end.

Lemma squash_go_spec : forall l prev acc,
  squash_go (prev :: acc) l = rev acc ++ squash_spec (prev :: l).
Proof.
  induction l as [|t l IH]; intros prev acc.
  - simpl. reflexivity.
  - cbn [squash_go]. cbn [squash_spec]. unfold shadowb.
    destruct ((p_ip prev =? p_ip t) && (rl_mask (p_loc t) <=? rl_mask (p_loc prev))).
    + rewrite IH. reflexivity.
    + rewrite IH. cbn [rev]. rewrite <- app_assoc. reflexivity.
Qed.

Lemma squash_eq : forall l, squash l = squash_spec l.
Proof.
  destruct l as [|p l]; [reflexivity|]. unfold squash. rewrite squash_go_spec. reflexivity.
Qed.

Definition notshadowed (p : point) (l2 : list point) : Prop :=
  match l2 with [] => True | r :: _ => shadowb p r = false end.

Lemma squash_in : forall l p, In p (squash_spec l) ->
  exists l1 l2, l = l1 ++ p :: l2 /\ notshadowed p l2.
Proof.
  induction l as [|x l IH]; intros p H; [contradiction|].
  cbn [squash_spec] in H. destruct l as [|r l'].
  - destruct H as [<-|[]]. exists [], []. split; simpl; auto.
  - destruct (shadowb x r) eqn:E.
    + destruct (IH p H) as [l1 [l2 [E1 E2]]]. exists (x :: l1), l2. rewrite E1. auto.
    + destruct H as [<-|H].
      * exists [], (r :: l'). split; simpl; auto.
      * destruct (IH p H) as [l1 [l2 [E1 E2]]]. exists (x :: l1), l2. rewrite E1. auto.
Qed.

Lemma squash_keep : forall l1 p l2, notshadowed p l2 -> In p (squash_spec (l1 ++ p :: l2)).
Proof.
  induction l1 as [|x l1 IH]; intros p l2 H.
  - cbn [app squash_spec]. destruct l2 as [|r l2]; [left; auto|].
    simpl in H. rewrite H. left. auto.
  - cbn [app]. specialize (IH p l2 H).
    remember (l1 ++ p :: l2) as m eqn:Em. destruct m as [|r m'].
    + destruct l1; discriminate Em.
    + cbn [squash_spec]. destruct (shadowb x r); auto. right. auto.
Qed.

(* ---------------------------------------------------------------- predecessor search *)

Definition keyle (r p : point) : Prop := pt_leb (p_ip r) (rp_mlen r) (p_ip p) (rp_mlen p) = true.
Definition keyle_q (r : point) (a plen : N) : Prop := pt_leb (p_ip r) (rp_mlen r) a plen = true.

Lemma pt_leb_iff : forall i1 m1 i2 m2, pt_leb i1 m1 i2 m2 = true <-> i1 < i2 \/ (i1 = i2 /\ m1 <= m2).
Proof.
  intros. unfold pt_leb. rewrite Bool.orb_true_iff, Bool.andb_true_iff, N.ltb_lt, N.eqb_eq, N.leb_le. tauto.
Qed.

Lemma pt_leb_false_iff : forall i1 m1 i2 m2, pt_leb i1 m1 i2 m2 = false <-> i2 < i1 \/ (i1 = i2 /\ m2 < m1).
Proof.
  intros. destruct (pt_leb i1 m1 i2 m2) eqn:E.
  - apply pt_leb_iff in E. split; [discriminate|lia].
  - split; auto. intros _. destruct (N.lt_trichotomy i1 i2) as [L|[Eq|L]]; auto.
    + assert (pt_leb i1 m1 i2 m2 = true) by (apply pt_leb_iff; auto). congruence.
    + destruct (N.le_gt_cases m1 m2); auto.
      assert (pt_leb i1 m1 i2 m2 = true) by (apply pt_leb_iff; auto). congruence.
Qed.

Lemma pt_seek_spec : forall K a plen best,
  (match best with Some b => keyle_q b a plen | None => True end) ->
  match pt_seek_aux best K a plen with
  | Some p => (In p K \/ best = Some p) /\ keyle_q p a plen /\
              (forall r, In r K -> keyle_q r a plen -> keyle r p) /\
              (match best with Some b => keyle b p | None => True end)
  | None => best = None /\ forall r, In r K -> ~ keyle_q r a plen
  end.
Proof.
  induction K as [|x K IH]; intros a plen best Hb.
  - cbn [pt_seek_aux]. destruct best as [b|].
    + split; [right; reflexivity|]. split; [exact Hb|]. split; [intros r []|].
      unfold keyle. apply pt_leb_iff. lia.
    + split; [reflexivity|]. intros r [].
  - cbn [pt_seek_aux].
    destruct (pt_leb (p_ip x) (rp_mlen x) a plen) eqn:Ex.
    + (* x is a candidate *)
      assert (Step : forall nb, keyle_q nb a plen ->
                (match best with Some b => keyle b nb | None => True end) -> keyle x nb ->
                match pt_seek_aux (Some nb) K a plen with
                | Some p => (In p (x :: K) \/ best = Some p \/ nb = p) /\ keyle_q p a plen /\
                            (forall r, In r (x :: K) -> keyle_q r a plen -> keyle r p) /\
                            (match best with Some b => keyle b p | None => True end)
                | None => False
                end).
      { intros nb Hnb Hbn Hxn. specialize (IH a plen (Some nb) Hnb).
        destruct (pt_seek_aux (Some nb) K a plen) as [p|]; [|destruct IH as [C _]; discriminate C].
        destruct IH as [I1 [I2 [I3 I4]]]. split.
        { destruct I1 as [I1|I1]; [left; right; exact I1|]. inversion I1. right. right. reflexivity. }
        split; [exact I2|]. split.
        { intros r [<-|Hr] Hk; [|exact (I3 r Hr Hk)].
          unfold keyle in *. apply pt_leb_iff in Hxn, I4. apply pt_leb_iff. lia. }
        destruct best as [b|]; [|exact I].
        unfold keyle in *. apply pt_leb_iff in Hbn, I4. apply pt_leb_iff. lia. }
      destruct best as [b|].
      * destruct (pt_leb (p_ip x) (rp_mlen x) (p_ip b) (rp_mlen b)) eqn:Exb.
        -- assert (Hbb : keyle b b) by (unfold keyle; apply pt_leb_iff; lia).
           pose proof (Step b Hb Hbb Exb) as S.
           destruct (pt_seek_aux (Some b) K a plen) as [p|]; [|contradiction].
           destruct S as [S1 [S2 [S3 S4]]]. split; [|split; [exact S2|split; [exact S3|exact S4]]].
           destruct S1 as [S1|[S1|S1]]; [left; exact S1|right; exact S1|right; rewrite S1; reflexivity].
        -- assert (Hbx : keyle b x).
           { unfold keyle. apply pt_leb_false_iff in Exb. apply pt_leb_iff. lia. }
           assert (Hxx : keyle x x) by (unfold keyle; apply pt_leb_iff; lia).
           pose proof (Step x Ex Hbx Hxx) as S.
           destruct (pt_seek_aux (Some x) K a plen) as [p|]; [|contradiction].
           destruct S as [S1 [S2 [S3 S4]]]. split; [|split; [exact S2|split; [exact S3|exact S4]]].
           destruct S1 as [S1|[S1|S1]]; [left; exact S1|right; exact S1|left; left; exact S1].
      * assert (Hxx : keyle x x) by (unfold keyle; apply pt_leb_iff; lia).
        pose proof (Step x Ex I Hxx) as S.
        destruct (pt_seek_aux (Some x) K a plen) as [p|]; [|contradiction].
        destruct S as [S1 [S2 [S3 S4]]]. split; [|split; [exact S2|split; [exact S3|exact I]]].
        destruct S1 as [S1|[S1|S1]]; [left; exact S1|discriminate S1|left; left; exact S1].
    + specialize (IH a plen best Hb). destruct (pt_seek_aux best K a plen) as [p|].
      * destruct IH as [I1 [I2 [I3 I4]]]. split.
        { destruct I1 as [I1|I1]; [left; right; exact I1|right; exact I1]. }
        split; [exact I2|]. split; [|exact I4].
        intros r [<-|Hr] Hk; [|exact (I3 r Hr Hk)]. unfold keyle_q in Hk. congruence.
      * destruct IH as [I1 I2]. split; [exact I1|]. intros r [<-|Hr]; [|exact (I2 r Hr)].
        unfold keyle_q. congruence.
Qed.

Lemma rp_mlen_le : forall p, rp_mlen p <= rl_mask (p_loc p).
Proof. intro p. unfold rp_mlen. destruct (rl_null (p_loc p)); lia. Qed.

Lemma map_split : forall {A B} (f : A -> B) l o1 p o2, map f l = o1 ++ p :: o2 ->
  exists l1 q l2, l = l1 ++ q :: l2 /\ o1 = map f l1 /\ p = f q /\ o2 = map f l2.
Proof.
  intros A B f l. induction l as [|x l IH]; intros o1 p o2 H.
  - destruct o1; discriminate H.
  - destruct o1 as [|y o1].
    + simpl in H. inversion H; subst. exists [], x, l. auto.
    + simpl in H. inversion H as [[E1 E2]]. destruct (IH _ _ _ E2) as [l1 [q [l2 [A1 [A2 [A3 A4]]]]]].
      exists (x :: l1), q, l2. subst. auto.
Qed.

(* the last element of a list that satisfies a test *)
Lemma last_sat : forall {A} (P : A -> bool) l, existsb P l = true ->
  exists l1 q l2, l = l1 ++ q :: l2 /\ P q = true /\ existsb P l2 = false.
Proof.
  intros A P. induction l as [|x l IH]; intro H; [discriminate|].
  destruct (existsb P l) eqn:E.
  - destruct (IH eq_refl) as [l1 [q [l2 [A1 [A2 A3]]]]]. exists (x :: l1), q, l2. subst. auto.
  - simpl in H. rewrite E, Bool.orb_false_r in H. exists [], x, l. auto.
Qed.
