(* C13 for the closest-key (v2) reader, part 2: the walk of sortedDataReader.find.
   [wf_store_v2] is the decidable guard on the database: every key occurs once and every key in
   the range of the resource-record marker "\000o" is either
     marker ++ (non-zero length byte, that many bytes)* ++ \000 ++ two location bytes
   (what dnsdata.makedomainkey writes for an owner name whose labels are 1..255 bytes long), or
   has a third byte >= 64 (dnsdata.FeaturesKey "\000o_features"), which sorts behind every probe
   of a wire-valid name.  Keys outside the marker range (location maps "\000\000\000!..",
   "<map id>..=" ) are unconstrained, and so are all rows.
   Under this guard the cache-free walk [find_loop_pure] (Proofs/CtxFind: the walk with the
   per-request cache computes the same) over the reversed packed query name never panics and
   never runs out of fuel; the current length is always a label boundary of the reversed name
   and strictly decreases. *)
From DnsV Require Import Base.Bytes Model.Store Model.LookupV1 Model.LookupV2 Spec.Answer Spec.Rows.
From DnsV Require Import Proofs.Compile Proofs.ZoneCut Proofs.NxDomain Proofs.Reverse Proofs.NoPanic.
From DnsV Require Import Proofs.Store Proofs.Ctx Proofs.CtxFind Proofs.SortedStore Proofs.NoPanicV2Names.
From DnsV Require Export Spec.KeysV2.
From Coq Require Import ZifyN ZifyNat ZifyBool.
Ltac Zify.zify_post_hook ::= Z.div_mod_to_equations.
Open Scope N_scope.

(* ---------------------------------------------------------------- the guard on the database: Spec/KeysV2 *)
Lemma rr_marker_eq : rr_marker = marker.
Proof. reflexivity. Qed.

Lemma has_key_in : forall (st : store) k, has_key st k = false -> forall v, ~ In (k, v) st.
Proof.
  induction st as [|[k0 v0] t IH]; intros k H v Hin; [contradiction|]. cbn [has_key] in H.
  apply orb_false_elim in H as [H1 H2]. destruct Hin as [E|Hin]; [|exact (IH k H2 v Hin)].
  inversion E; subst. rewrite bytes_eqb_refl in H1. discriminate.
Qed.
Lemma keys_once_uniq : forall st, keys_once st = true -> uniq st.
Proof.
  induction st as [|[k0 v0] t IH]; intros H k v Hin; [contradiction|]. cbn [keys_once] in H.
  apply andb_prop in H as [H1 H2]. apply negb_true_iff in H1. cbn [get].
  destruct (bytes_eqb k0 k) eqn:E.
  - apply bytes_eqb_eq in E. subst k0. destruct Hin as [Hin|Hin]; [inversion Hin; reflexivity|].
    exfalso. exact (has_key_in t k H1 v Hin).
  - destruct Hin as [Hin|Hin]; [inversion Hin; subst; rewrite bytes_eqb_refl in E; discriminate|].
    exact (IH H2 k v Hin).
Qed.
(* what RocksDB holds (strictly ascending keys) has every key once *)
Lemma not_in_has_key : forall (t : store) k, (forall v, ~ In (k, v) t) -> has_key t k = false.
Proof.
  induction t as [|[k1 v1] t IH]; intros k H; [reflexivity|]. cbn [has_key].
  destruct (bytes_eqb k1 k) eqn:E.
  - apply bytes_eqb_eq in E. subst. exfalso. apply (H v1). left. reflexivity.
  - cbn [orb]. apply IH. intros v Hin. apply (H v). right. exact Hin.
Qed.
Lemma sorted_keys_once : forall st, sorted_keys st = true -> keys_once st = true.
Proof.
  induction st as [|[k0 v0] t IH]; intros H; [reflexivity|]. cbn [keys_once].
  rewrite (IH (sorted_tail t k0 v0 H)), andb_true_r. apply negb_true_iff.
  apply not_in_has_key. intros v Hin.
  exact (Proofs.SortedStore.klt_irrefl k0 (sorted_head_lt t k0 v0 H k0 v Hin)).
Qed.

(* the two shapes of a key in the marker range *)
Definition rr_key (k : bytes) : Prop :=
  exists (M : name) (l2 : bytes), k = marker ++ pack M ++ l2 /\ nm_ok M /\ length l2 = 2%nat.
Definition far_key (k : bytes) : Prop := exists c t, k = marker ++ c :: t /\ 64 <= c.

Lemma rname_ok_pack : forall f l, rname_ok f l = true ->
  exists (M : name) (l2 : bytes), l = pack M ++ l2 /\ nm_ok M /\ length l2 = 2%nat.
Proof.
  induction f as [|f IH]; intros l H; [discriminate|].
  destruct l as [|c t]; [discriminate|]. cbn [rname_ok] in H.
  destruct (c =? 0) eqn:E.
  - apply N.eqb_eq in E. subst c. exists [], t. split; [reflexivity|]. split; [constructor|].
    unfold nlen in H. lia.
  - apply andb_prop in H as [H1 H2]. destruct (IH _ H2) as [M [l2 [E' [O1 O2]]]].
    assert (Hl : nlen (firstn (N.to_nat c) t) = c) by (unfold nlen in *; rewrite firstn_length; lia).
    exists (firstn (N.to_nat c) t :: M), l2. split; [|split; [|exact O2]].
    + rewrite pack_cons, Hl. cbn [app]. rewrite <- app_assoc, <- E', firstn_skipn. reflexivity.
    + constructor; [|exact O1]. intros X. rewrite X in Hl. cbn in Hl. lia.
Qed.

Lemma marker_split : forall k, is_prefix marker k = true -> k = marker ++ skipn 2 k.
Proof.
  intros k H. unfold marker in *. destruct k as [|a [|b k]]; cbn [is_prefix] in H; try discriminate.
  - apply andb_prop in H as [_ H]. discriminate.
  - apply andb_prop in H as [H1 H2]. apply andb_prop in H2 as [H2 _].
    apply N.eqb_eq in H1. apply N.eqb_eq in H2. subst. reflexivity.
Qed.

Lemma key_ok_shape : forall k, key_ok k = true -> is_prefix marker k = true -> rr_key k \/ far_key k.
Proof.
  intros k H Hm. unfold key_ok in H. rewrite rr_marker_eq, Hm in H. pose proof (marker_split k Hm) as Ek.
  destruct (skipn 2 k) as [|c t]; [discriminate|].
  apply orb_prop in H as [H|H].
  - right. exists c, t. split; [exact Ek | lia].
  - left. destruct (rname_ok_pack _ _ H) as [M [l2 [E [O1 O2]]]]. exists M, l2. rewrite Ek, E. auto.
Qed.

(* ---------------------------------------------------------------- the key buffer *)
Lemma firstn_app_len : forall {A} (X Y : list A), firstn (length X) (X ++ Y) = X.
Proof. intros. rewrite firstn_app, Nat.sub_diag, firstn_all. cbn [firstn]. apply app_nil_r. Qed.
Lemma skipn_app_len : forall {A} (X Y : list A), skipn (length X) (X ++ Y) = Y.
Proof. intros. rewrite skipn_app, Nat.sub_diag, skipn_all. reflexivity. Qed.

Lemma upd_at : forall X a T v, upd (X ++ a :: T) (nlen X) v = Val (X ++ v :: T).
Proof.
  intros. unfold upd.
  assert (E : (nlen X <? nlen (X ++ a :: T)) = true) by (rewrite nlen_app, nlen_cons; lia).
  rewrite E, to_nat_nlen, firstn_app_len.
  replace (N.to_nat (nlen X + 1)) with (length (X ++ [a])) by (rewrite app_length; unfold nlen; cbn [length]; lia).
  replace (X ++ a :: T) with ((X ++ [a]) ++ T) at 1 by (rewrite <- app_assoc; reflexivity).
  rewrite skipn_app_len. reflexivity.
Qed.

Lemma copy2_at : forall X a b c F u v,
  copy_at (X ++ a :: b :: c :: F) (nlen X + 1) [u; v] = Val (X ++ a :: u :: v :: F).
Proof.
  intros. unfold copy_at.
  assert (E : (nlen X + 1 <=? nlen (X ++ a :: b :: c :: F)) = true) by (rewrite nlen_app, !nlen_cons; lia).
  rewrite E.
  assert (Em : N.min (nlen (X ++ a :: b :: c :: F) - (nlen X + 1)) (nlen [u; v]) = 2).
  { change (nlen [u; v]) with 2. rewrite nlen_app, !nlen_cons. lia. }
  rewrite Em. f_equal.
  replace (N.to_nat (nlen X + 1)) with (length (X ++ [a])) by (rewrite app_length; unfold nlen; cbn [length]; lia).
  replace (N.to_nat (nlen X + 1 + 2)) with (length (X ++ [a; b; c])) by (rewrite app_length; unfold nlen; cbn [length]; lia).
  replace (X ++ a :: b :: c :: F) with ((X ++ [a]) ++ b :: c :: F) at 1 by (rewrite <- app_assoc; reflexivity).
  rewrite firstn_app_len.
  replace (X ++ a :: b :: c :: F) with ((X ++ [a; b; c]) ++ F) by (rewrite <- app_assoc; reflexivity).
  rewrite skipn_app_len. cbn [N.to_nat Pos.to_nat Pos.iter_op Nat.add firstn]. rewrite <- app_assoc. reflexivity.
Qed.

Lemma firstn_buf : forall (X : bytes) (a b c : N) (rest : bytes) (m : nat), (m <= length rest)%nat ->
  firstn (N.to_nat (nlen X + 3 + N.of_nat m)) (X ++ a :: b :: c :: rest) = X ++ a :: b :: c :: firstn m rest.
Proof.
  intros X a b c rest m H.
  replace (N.to_nat (nlen X + 3 + N.of_nat m)) with (length (X ++ [a; b; c]) + m)%nat
    by (rewrite app_length; unfold nlen; cbn [length]; lia).
  replace (X ++ a :: b :: c :: rest) with ((X ++ [a; b; c]) ++ rest) by (rewrite <- app_assoc; reflexivity).
  rewrite firstn_app_2, <- app_assoc. reflexivity.
Qed.
Lemma skipn_buf : forall (X : bytes) (a b c : N) (rest : bytes) (m : nat),
  skipn (N.to_nat (nlen X + 3 + N.of_nat m)) (X ++ a :: b :: c :: rest) = skipn m rest.
Proof.
  intros X a b c rest m.
  replace (N.to_nat (nlen X + 3 + N.of_nat m)) with (length (X ++ [a; b; c]) + m)%nat
    by (rewrite app_length; unfold nlen; cbn [length]; lia).
  replace (X ++ a :: b :: c :: rest) with ((X ++ [a; b; c]) ++ rest) by (rewrite <- app_assoc; reflexivity).
  rewrite skipn_app, app_length.
  replace (length X + length [a; b; c] + m - (length X + length [a; b; c]))%nat with m by lia.
  rewrite skipn_all2 by (rewrite app_length; lia). reflexivity.
Qed.
Lemma firstn_key : forall (X : bytes) (a b c : N) (rest : bytes),
  firstn (N.to_nat (nlen X + 3)) (X ++ a :: b :: c :: rest) = X ++ [a; b; c].
Proof.
  intros. replace (nlen X + 3) with (nlen X + 3 + N.of_nat 0) by lia.
  rewrite firstn_buf by lia. reflexivity.
Qed.
Lemma skipn_key : forall (X : bytes) (a b c : N) (rest : bytes),
  skipn (N.to_nat (nlen X + 3)) (X ++ a :: b :: c :: rest) = rest.
Proof.
  intros. replace (nlen X + 3) with (nlen X + 3 + N.of_nat 0) by lia.
  rewrite skipn_buf. reflexivity.
Qed.

(* ---------------------------------------------------------------- order facts *)
Lemma bleb_app_l : forall p x y, bleb (p ++ x) (p ++ y) = bleb x y.
Proof. intros. unfold bleb. rewrite bcmp_app_l. reflexivity. Qed.

Lemma far_key_above : forall c t d t', 64 <= c -> d < 64 -> bleb (marker ++ c :: t) (marker ++ d :: t') = false.
Proof.
  intros c t d t' Hc Hd. rewrite bleb_app_l. unfold bleb. cbn [bcmp].
  assert (E : (c ?= d) = Gt) by (apply N.compare_gt_iff; lia). rewrite E. reflexivity.
Qed.

(* ---------------------------------------------------------------- the walk *)
Section Walk.
Variable st : store.
Hypothesis Hkeys : forall k v, In (k, v) st -> key_ok k = true.
Variable R : name.                         (* labels of the query name, outermost first *)
Hypothesis HR : nm_ok R.
Hypothesis HR64 : nm64 R.
Hypothesis Hlen : nlen (pack R) <= 255.
Variables l0 l1 : N.                        (* the client's location *)

Variable P : Type.
Variable parse : cb P.
Variable pre : P -> bytes -> N -> res (P * bool).
Variable post : P -> P * bool.
Variable J : P -> nat -> Prop.             (* invariant of the caller's state, relative to the current boundary *)
Hypothesis J_mono : forall p j j', J p j -> (j' <= j)%nat -> J p j'.
Hypothesis pre_ok : forall p j, (j <= length R)%nat -> J p j ->
  exists p1 ok, pre p (pack R) (nlen (pfx R j) + 1) = Val (p1, ok) /\ J p1 j.
Hypothesis parse_ok : forall p j r, J p j -> J (fst (parse p r)) j.
Hypothesis post_ok : forall p j, J p j -> J (fst (post p)) j.

Lemma iter_rows_J : forall rows p j, J p j -> J (fst (iter_rows parse rows p)) j.
Proof.
  induction rows as [|r t IH]; intros p j H; [exact H|]. cbn [iter_rows].
  pose proof (parse_ok p j r H) as H1. destruct (parse p r) as [s' stt]. cbn [fst] in H1.
  destruct stt; [apply IH; exact H1 | exact H1 | exact H1].
Qed.

Lemma tfe_facts : forall key p j k p2 e,
  tfe_pure st key parse p = (k, p2, e) -> J p j ->
  J p2 j /\ (forall kk, k = Some kk -> (exists v, In (kk, v) st) /\ bleb kk key = true).
Proof.
  intros key p j k p2 e H HJ. unfold tfe_pure in H.
  destruct (seek_prev st key) as [[k0 v0]|] eqn:Es.
  - destruct (seek_prev_sound st key k0 v0 Es) as [S1 S2].
    assert (K : forall kk, Some k0 = Some kk -> (exists v, In (kk, v) st) /\ bleb kk key = true).
    { intros kk X. inversion X; subst. split; [exists v0; exact S1 | exact S2]. }
    destruct (bytes_eqb key k0).
    + pose proof (iter_rows_J (get st key) p j HJ) as HI.
      destruct (iter_rows parse (get st key) p) as [s' stt]. inversion H; subst. split; [exact HI | exact K].
    + inversion H; subst. split; [exact HJ | exact K].
  - inversion H; subst. split; [exact HJ|]. intros kk X. discriminate.
Qed.

Lemma probe_third : forall j l, exists d t', pfx R j ++ 0 :: l = d :: t' /\ d < 64.
Proof.
  intros j l. destruct j as [|j]; [exists 0, l; split; [reflexivity | lia]|].
  destruct R as [|x r] eqn:ER; [exists 0, l; split; [reflexivity | lia]|].
  unfold pfx. rewrite (firstn_cons j x r), body_cons. cbn [app].
  eexists _, _. split; [reflexivity|]. inversion HR64; subst. assumption.
Qed.

Lemma pack_firstn : forall j, pack (firstn j R) = pfx R j ++ [0].
Proof. intros. reflexivity. Qed.

Theorem walk_val : forall fuel j kbuf klen p T,
  (j <= length R)%nat -> (j < fuel)%nat ->
  kbuf = (marker ++ pfx R j) ++ T -> (3 <= length T)%nat ->
  nlen (pfx R j) + 5 <= klen -> klen <= nlen kbuf -> J p j ->
  exists p' j',
    find_loop_pure st P parse pre post fuel (pack R) [l0; l1] kbuf klen (nlen (pfx R j) + 1) p = Val p' /\
    (j' <= length R)%nat /\ J p' j'.
Proof.
  induction fuel as [|fuel IH]; intros j kbuf klen p T Hj Hf Hk HT Hk1 Hk2 HJ; [lia|].
  cbn [find_loop_pure]. cbv zeta.
  destruct (pre_ok p j Hj HJ) as [p1 [ok [Epre J1]]]. rewrite Epre. cbn [bind].
  destruct ok; cbn [negb]; [|exists p1, j; auto].
  destruct T as [|a [|b [|c rest]]]; try (cbn [length] in HT; lia). clear HT.
  set (X := marker ++ pfx R j) in *.
  assert (NX : nlen X = 2 + nlen (pfx R j)) by (unfold X; rewrite nlen_app; reflexivity).
  replace (2 + (nlen (pfx R j) + 1)) with (nlen X + 1) by lia.
  replace (nlen X + 1 - 1) with (nlen X) by lia.
  replace (nlen X + 1 + 2) with (nlen X + 3) by lia.
  replace (nlen X + 3 - 2) with (nlen X + 1) by lia.
  assert (C1 : (nlen X <? klen) = true) by lia. rewrite C1. cbn [negb].
  subst kbuf. rewrite upd_at. cbn [bind].
  assert (C2 : (nlen X + 1 <=? klen) = true) by lia. rewrite C2. cbn [negb].
  assert (Hm : exists m : nat, klen = nlen X + 3 + N.of_nat m /\ (m <= length rest)%nat).
  { exists (N.to_nat (klen - nlen X - 3)). rewrite nlen_app, !nlen_cons in Hk2. unfold nlen in *. lia. }
  destruct Hm as [m [-> Hm]].
  rewrite firstn_buf by exact Hm. rewrite skipn_buf.
  rewrite copy2_at. cbn [bind].
  replace ((X ++ 0 :: l0 :: l1 :: firstn m rest) ++ skipn m rest) with (X ++ 0 :: l0 :: l1 :: rest)
    by (rewrite <- app_assoc; cbn [app]; rewrite firstn_skipn; reflexivity).
  assert (C3 : (nlen X + 3 <=? nlen (X ++ 0 :: l0 :: l1 :: rest)) = true) by (rewrite nlen_app, !nlen_cons; lia).
  rewrite C3. cbn [negb].
  rewrite firstn_key, skipn_key.
  (* what remains after the one or two probes *)
  assert (Htail : forall (k : option bytes) (a' b' : N) (p3 : P),
    (forall kk, k = Some kk -> (exists v, In (kk, v) st) /\
                               exists l, bleb kk (X ++ 0 :: l) = true) ->
    J p3 j ->
    exists p' j',
      (let '(p4, go) := post p3 in
       if negb go then Val p4 else
       match k with
       | None => Val p4
       | Some kk =>
           if negb (is_prefix marker kk) then Val p4 else
           if nlen (pfx R j) + 1 =? 1 then Val p4 else
           if nlen kk <? 2 then Panic else
           bind (slice kk 2 (nlen kk - 2)) (fun fl =>
           if nlen (pfx R j) + 1 =? 0 then Panic else
           bind (slice_to (pack R) (nlen (pfx R j) + 1 - 1)) (fun a =>
           if nlen fl =? 0 then Panic else
           bind (slice_to fl (nlen fl - 1)) (fun bb =>
           bind (if bytes_eqb a bb then get_length_without_last_label (pack R) (nlen (pfx R j) + 1)
                 else bind (find_common_longest_prefix (pack R) fl) (fun n => Val (n + 1))) (fun qlen' =>
           find_loop_pure st P parse pre post fuel (pack R) [l0; l1] (X ++ 0 :: a' :: b' :: rest) (nlen X + 3) qlen' p4))))
       end) = Val p' /\ (j' <= length R)%nat /\ J p' j').
  { intros k a' b' p3 Kk J3.
    pose proof (post_ok p3 j J3) as J4. destruct (post p3) as [p4 go]. cbn [fst] in J4.
    destruct go; cbn [negb]; [|exists p4, j; auto].
    destruct k as [kk|]; [|exists p4, j; auto].
    destruct (is_prefix marker kk) eqn:Em; cbn [negb]; [|exists p4, j; auto].
    destruct (nlen (pfx R j) + 1 =? 1) eqn:E1; [exists p4, j; auto|].
    assert (Hj0 : (1 <= j)%nat).
    { destruct j; [|lia]. rewrite pfx_0 in E1. cbn in E1. discriminate. }
    destruct (Kk kk eq_refl) as [[v Hin] [l Hle]].
    destruct (key_ok_shape kk (Hkeys kk v Hin) Em) as [[M [l2 [Ekk [OM Ol2]]]]|[c0 [t0 [Ekk Hc0]]]].
    2:{ exfalso. destruct (probe_third j l) as [d [t' [Ed Hd]]].
        unfold X in Hle. rewrite <- app_assoc, Ed, Ekk, (far_key_above c0 t0 d t' Hc0 Hd) in Hle. discriminate. }
    assert (Nk : nlen kk = 2 + nlen (pack M) + 2).
    { rewrite Ekk, !nlen_app. change (nlen marker) with 2.
      assert (N2 : nlen l2 = 2) by (unfold nlen; rewrite Ol2; reflexivity). lia. }
    assert (C4 : (nlen kk <? 2) = false) by lia. rewrite C4.
    replace (nlen kk - 2) with (nlen marker + nlen (pack M)) by (rewrite Nk; change (nlen marker) with 2; lia).
    rewrite Ekk, (slice_mid marker (pack M) l2 2) by reflexivity. cbn [bind].
    assert (C5 : (nlen (pfx R j) + 1 =? 0) = false) by lia. rewrite C5.
    replace (nlen (pfx R j) + 1 - 1) with (nlen (@nil N) + nlen (pfx R j)) by (cbn; lia).
    unfold slice_to.
    assert (S1 : slice (pack R) 0 (nlen (@nil N) + nlen (pfx R j)) = Val (pfx R j)).
    { rewrite (pack_pfx R j) at 1. apply (slice_mid [] (pfx R j) (pack (skipn j R)) 0); reflexivity. }
    rewrite S1. cbn [bind].
    assert (C6 : (nlen (pack M) =? 0) = false) by (rewrite nlen_pack; lia). rewrite C6.
    replace (nlen (pack M) - 1) with (nlen (@nil N) + nlen (body M)) by (rewrite nlen_pack; cbn; lia).
    assert (S2 : slice (pack M) 0 (nlen (@nil N) + nlen (body M)) = Val (body M)).
    { rewrite (pack_body M) at 1. apply (slice_mid [] (body M) [0] 0); reflexivity. }
    rewrite S2. cbn [bind].
    (* the buffer handed to the next round *)
    assert (Hbuf : forall cj, (cj <= j)%nat -> exists T', X ++ 0 :: a' :: b' :: rest = (marker ++ pfx R cj) ++ T' /\ (3 <= length T')%nat).
    { intros cj Hc. destruct (pfx_split R j cj Hc) as [Y EY].
      exists (Y ++ 0 :: a' :: b' :: rest). split; [unfold X; rewrite EY, <- !app_assoc; reflexivity|].
      rewrite app_length. cbn [length]. lia. }
    assert (Hnext : forall cj, (cj < j)%nat ->
      exists p' j', find_loop_pure st P parse pre post fuel (pack R) [l0; l1] (X ++ 0 :: a' :: b' :: rest)
                      (nlen X + 3) (nlen (pfx R cj) + 1) p4 = Val p' /\ (j' <= length R)%nat /\ J p' j').
    { intros cj Hc. destruct (Hbuf cj) as [T' [ET' LT']]; [lia|].
      apply (IH cj _ _ p4 T'); [lia | lia | exact ET' | exact LT' | | | apply (J_mono p4 j cj J4); lia].
      - destruct (pfx_split R j cj) as [Y EY]; [lia|]. rewrite NX, EY, nlen_app. lia.
      - rewrite nlen_app, !nlen_cons. lia. }
    destruct (bytes_eqb (pfx R j) (body M)) eqn:Eab.
    - rewrite (glwll_spec R j Hlen) by lia. cbn [bind]. apply Hnext. lia.
    - rewrite (fclp_spec R M HR OM). cbn [bind].
      destruct (fclp_below R M j l2 l HR OM Hj) as [cj [Hc Ec]].
      + intros E. unfold pfx in Eab. rewrite E, bytes_eqb_refl in Eab. discriminate.
      + unfold X in Hle. rewrite Ekk, <- !app_assoc, bleb_app_l in Hle.
        unfold bleb in Hle. rewrite pack_firstn, <- app_assoc. cbn [app].
        intros G. rewrite G in Hle. discriminate.
      + rewrite Ec. apply Hnext. exact Hc. }
  destruct (tfe_pure st (X ++ [0; l0; l1]) parse p1) as [[k p2] e] eqn:Et1.
  destruct (tfe_facts _ _ j _ _ _ Et1 J1) as [J2 K2].
  destruct e; [exists p2, j; auto|].
  match goal with |- context [if ?cnd then _ else _] => destruct cnd end.
  - change loc0 with [0; 0]. rewrite (copy2_at X 0 l0 l1 [] 0 0). cbn [bind].
    replace ((X ++ [0; 0; 0]) ++ rest) with (X ++ 0 :: 0 :: 0 :: rest) by (rewrite <- app_assoc; reflexivity).
    rewrite firstn_key.
    destruct (tfe_pure st (X ++ [0; 0; 0]) parse p2) as [[k' p3] e'] eqn:Et2.
    destruct (tfe_facts _ _ j _ _ _ Et2 J2) as [J3 K3].
    cbn [bind]. destruct e'; [exists p3, j; auto|].
    apply (Htail k' 0 0 p3); [|exact J3].
    intros kk Ek. destruct (K3 kk Ek) as [A1 A2]. split; [exact A1|]. exists [0; 0]. exact A2.
  - cbn [bind]. apply (Htail k l0 l1 p2); [|exact J2].
    intros kk Ek. destruct (K2 kk Ek) as [A1 A2]. split; [exact A1|]. exists [l0; l1]. exact A2.
Qed.
End Walk.
