(* LinkPreprocRearranger: the file level of C09 (Proofs/Preproc.v, parametric in the rearranger)
   closed with the CONCRETE rearranger of C03 (Model/Rearranger.v), and then combined with C07.

   The accumulator of the text codec is defined HERE, from Model/Text.v + Model/Rearranger.v +
   Model/Location.v (dedup_ids, nets_of), independent of any other link file:
     net_of_record     Rnet -> (map id, subnet): the 16-byte address as a number, the prefix length in
                       128-bit terms as Rnet.UnmarshalText widens it, the two location bytes
     point_record m p  the Rrangepoint{lmap: m, pt: p} that SubnetRanger.MarshalMap / OpenScanner build
     rearrange_text    SubnetRanger: one Rearranger per map, fed in file order; Rearrange of every map
                       (Err = Rearrange panicked), the maps in first-appearance order (Go: map iteration
                       order and goroutine completion order - any order is covered by the quantification
                       over permutations of the points in the theorems)
     rearrange_total   the same as a total function (nothing for a panic), the shape Model/Preproc.v takes;
                       under C03's guard wf_subnets on the subnets of every map there is no panic
   for every abstract sort satisfying Proofs/Rearranger.sort_spec (sort.Slice).

   Proof route: Proofs/Preproc.v's lemmas file_steps / compile_points / compile_go_app mention the
   rearranger only through section hypotheses they do not use; they are instantiated with the empty
   rearranger, and the last step of Proofs/Preproc.preproc_same_db is redone needing well-formed points
   only for the subnets of the file at hand (points_wf: any point Rearrange returns for subnets with
   byte-sized map and location ids is a well-formed Rrangepoint record - no geometric guard needed). *)
From DnsV Require Import Base.Bytes Base.Ip Model.Rearranger Model.Location.
From DnsV Require Import Model.Text Model.Preproc.
From DnsV Require Import Proofs.Location Proofs.Rearranger Proofs.RdbLocate.
From DnsV Require Import Proofs.TextBase Proofs.Text Proofs.Preproc.
From DnsV Require Model.Ecs.
From Coq Require Import Permutation Lia.
Open Scope N_scope.

(* ---------------------------------------------------------------- the text-level rearranger *)
Definition net_of_record (r : record) : list netline :=
  match r with
  | RNet lo ip ones lmap => [mkNetline (two_bytes lmap) (mkSubnet (Model.Ecs.be_val ip) ones (two_bytes lo))]
  | _ => []
  end.
Definition netlines (ns : list record) : list netline := flat_map net_of_record ns.
Definition net_file (ns : list record) : dfile := mkDfile [] (netlines ns).
Definition net_ids (ns : list record) : list mapid := dedup_ids (map nl_map (netlines ns)).

Definition point_record (m : mapid) (p : point) : record :=
  RRangePoint (mapid_bytes m) (ip16 (p_ip p)) (rl_mask (p_loc p)) (rl_null (p_loc p)) (loc_bytes (rl_id (p_loc p))).

Section Sort.
Variable sort : list point -> list point.

Fixpoint rearrange_maps (f : dfile) (ids : list mapid) : result (list record) :=
  match ids with
  | [] => Ok []
  | m :: ids' =>
      rbind (rearrange sort (nets_of f m)) (fun pts =>
      rbind (rearrange_maps f ids') (fun r => Ok (map (point_record m) pts ++ r)))
  end.

Definition rearrange_text (ns : list record) : result (list record) :=
  rearrange_maps (net_file ns) (net_ids ns).

Definition rearrange_total (ns : list record) : list record :=
  match rearrange_text ns with Ok l => l | Err _ => [] end.

Lemma rearrange_total_nil : rearrange_total [] = [].
Proof. reflexivity. Qed.

(* C03's guard on the subnets of every map of the file (decidable) *)
Definition nets_wfb (ns : list record) : bool :=
  forallb (fun m => wf_subnetsb (nets_of (net_file ns) m)) (net_ids ns).

Lemma rearrange_maps_ok : sort_spec sort -> forall f ids,
  forallb (fun m => wf_subnetsb (nets_of f m)) ids = true ->
  exists l, rearrange_maps f ids = Ok l.
Proof.
  intros Hs f. induction ids as [|m ids IH]; intro H; [eexists; reflexivity|].
  cbn [forallb] in H. apply andb_true_iff in H as [H1 H2]. cbn [rearrange_maps].
  destruct (rearrange_is_lpm sort (nets_of f m) 0 0 Hs H1) as (pts & E & _).
  - reflexivity.
  - lia.
  - unfold Proofs.Lpm.masked. apply N.mod_0_l. pose proof (Proofs.Lpm.blk_size_pos 0). lia.
  - rewrite E. cbn [rbind]. destruct (IH H2) as [l El]. rewrite El. cbn [rbind]. eexists. reflexivity.
Qed.

(* no panic under the guard *)
Lemma rearrange_text_ok : sort_spec sort -> forall ns, nets_wfb ns = true ->
  exists l, rearrange_text ns = Ok l /\ rearrange_total ns = l.
Proof.
  intros Hs ns H. destruct (rearrange_maps_ok Hs (net_file ns) (net_ids ns) H) as [l E].
  exists l. split; [exact E|]. unfold rearrange_total, rearrange_text. rewrite E. reflexivity.
Qed.

Lemma rearrange_maps_in : forall f ids l r, rearrange_maps f ids = Ok l -> In r l ->
  exists m pts p, In m ids /\ rearrange sort (nets_of f m) = Ok pts /\ In p pts /\ r = point_record m p.
Proof.
  intros f. induction ids as [|m ids IH]; intros l r E Hin.
  - inversion E; subst. destruct Hin.
  - cbn [rearrange_maps] in E. destruct (rearrange sort (nets_of f m)) as [pts|] eqn:Er; [|discriminate E].
    cbn [rbind] in E. destruct (rearrange_maps f ids) as [l'|] eqn:El; [|discriminate E]. cbn [rbind] in E.
    inversion E; subst l. apply in_app_or in Hin as [Hin|Hin].
    + apply in_map_iff in Hin as (p & Ep & Hp). exists m, pts, p. repeat split; auto. left. reflexivity.
    + destruct (IH l' r eq_refl Hin) as (m' & pts' & p & Hm & Er' & Hp & Ep).
      exists m', pts', p. repeat split; auto. right. exact Hm.
Qed.
End Sort.

(* ---------------------------------------------------------------- every point is a well-formed record *)
(* mask byte and location bytes are bytes *)
Definition loc_bytes_ok (l : rloc) : Prop := rl_mask l < 256 /\ fst (rl_id l) < 256 /\ snd (rl_id l) < 256.
Definition pt_ok (p : point) : Prop := loc_bytes_ok (p_loc p).

Lemma sweep_ok : forall l st r, Forall loc_bytes_ok st -> Forall pt_ok l -> sweep st l = Ok r -> Forall pt_ok r.
Proof.
  induction l as [|p l IH]; intros st r Hst Hl E.
  - inversion E; subst. constructor.
  - inversion Hl as [|? ? Hp Hl']; subst. cbn [sweep] in E. destruct (p_kind p).
    + destruct (sweep (p_loc p :: st) l) as [r'|] eqn:Es; [|discriminate E]. cbn [rbind] in E. inversion E; subst r.
      constructor; [exact Hp|]. eapply IH; [|exact Hl'|exact Es]. constructor; [exact Hp | exact Hst].
    + destruct st as [|s0 [|t st']]; try discriminate E.
      destruct (sweep (t :: st') l) as [r'|] eqn:Es; [|discriminate E]. cbn [rbind] in E. inversion E; subst r.
      inversion Hst as [|? ? _ Hst']; subst. constructor.
      * unfold pt_ok. cbn [p_loc]. inversion Hst'; assumption.
      * eapply IH; [exact Hst'|exact Hl'|exact Es].
Qed.

Lemma squash_go_ok : forall l acc, Forall pt_ok acc -> Forall pt_ok l -> Forall pt_ok (squash_go acc l).
Proof.
  induction l as [|t l IH]; intros acc Ha Hl; cbn [squash_go].
  - apply Forall_rev. exact Ha.
  - inversion Hl as [|? ? Ht Hl']; subst. destruct acc as [|prev acc'].
    + apply IH; [constructor; [exact Ht | constructor] | exact Hl'].
    + inversion Ha as [|? ? Hp Ha']; subst.
      destruct ((p_ip prev =? p_ip t) && (rl_mask (p_loc t) <=? rl_mask (p_loc prev))); apply IH; try exact Hl';
        repeat (constructor; try assumption).
Qed.

Lemma squash_ok : forall l, Forall pt_ok l -> Forall pt_ok (squash l).
Proof.
  intros [|p l] H; [constructor|]. inversion H; subst. cbn [squash]. apply squash_go_ok; [constructor; [assumption|constructor] | assumption].
Qed.

Definition subnet_bytes_ok (s : subnet) : Prop := fst (s_loc s) < 256 /\ snd (s_loc s) < 256.

Lemma mod256_lt : forall x, x mod 256 < 256.
Proof. intro x. apply N.mod_lt. discriminate. Qed.

Lemma sub_points_ok : forall s, subnet_bytes_ok s -> Forall pt_ok (sub_points s).
Proof.
  intros s [H1 H2]. pose proof (mod256_lt (s_len s)) as M. unfold sub_points, sub_rloc.
  assert (A : loc_bytes_ok (mkRloc (s_len s mod 256) false (s_loc s))) by (split; [|split]; assumption).
  assert (B : loc_bytes_ok (mkRloc (s_len s mod 256) true (0, 0))) by (split; [|split]; [assumption | reflexivity | reflexivity]).
  destruct (is_def6 s); [repeat constructor; assumption|]. destruct (is_def4 s); [repeat constructor; assumption|].
  constructor; [exact A|]. destruct (fill_unmasked (s_addr s) (s_len s) =? very_last); repeat constructor; assumption.
Qed.

Lemma null_loc_ok : loc_bytes_ok null_loc.
Proof. split; [|split]; reflexivity. Qed.

Lemma implicit_points_ok : forall r, Forall pt_ok (implicit_points r).
Proof.
  intro r. unfold implicit_points. apply Forall_app. split.
  - destruct (rr_has4 r); repeat constructor; apply null_loc_ok.
  - destruct (rr_has6 r); repeat constructor; apply null_loc_ok.
Qed.

Lemma rearrange_pts_ok : forall sort S pts, sort_spec sort -> Forall subnet_bytes_ok S ->
  rearrange sort S = Ok pts -> Forall pt_ok pts.
Proof.
  intros sort S pts Hs HS E. unfold rearrange, rearrange_rr in E. rewrite add_locations_spec in E.
  cbn [rr_points] in E. set (r := mkRR _ _ _) in E.
  destruct (flat_map sub_points S) as [|p0 ps] eqn:Ef; [inversion E; constructor|].
  destruct (sweep [] (sort ((p0 :: ps) ++ implicit_points r))) as [l|] eqn:Es; [|discriminate E].
  cbn [rbind] in E. inversion E; subst pts. apply squash_ok. eapply sweep_ok; [constructor| |exact Es].
  destruct (Hs ((p0 :: ps) ++ implicit_points r)) as [P _].
  apply Forall_forall. intros p Hp. apply Permutation_sym in P. pose proof (Permutation_in _ P Hp) as Hin.
  apply in_app_or in Hin as [Hin|Hin].
  - rewrite <- Ef in Hin. apply in_flat_map in Hin as (s & Hs' & Hp').
    rewrite Forall_forall in HS. pose proof (sub_points_ok s (HS s Hs')) as F. rewrite Forall_forall in F. apply F. exact Hp'.
  - pose proof (implicit_points_ok r) as F. rewrite Forall_forall in F. apply F. exact Hin.
Qed.

Lemma be_bytes_wf : forall n a, wf_bytes (be_bytes n a).
Proof.
  induction n as [|n IH]; intro a; cbn [be_bytes]; [constructor|].
  apply Forall_app. split; [apply IH | constructor; [apply mod256_lt | constructor]].
Qed.

Lemma wf_bytesb_of : forall l, wf_bytes l -> wf_bytesb l = true.
Proof.
  intros l H. unfold wf_bytesb. apply forallb_forall. intros b Hb. unfold wf_bytes in H. rewrite Forall_forall in H.
  specialize (H b Hb). unfold is_byte. apply N.ltb_lt. exact H.
Qed.

Lemma wf_lmapb_pair : forall a b, a < 256 -> b < 256 -> wf_lmapb [a; b] = true.
Proof.
  intros a b Ha Hb. unfold wf_lmapb. rewrite wf_bytesb_of by (repeat constructor; assumption). reflexivity.
Qed.

(* the Rrangepoint record of a point with byte-sized fields is well formed in the sense of Model/Text.v *)
Lemma point_record_wf : forall o m p, fst m < 256 -> snd m < 256 -> pt_ok p ->
  wf_recordb o (point_record m p) = true.
Proof.
  intros o m p H1 H2 (Hm & Ha & Hb). unfold point_record. cbn [wf_recordb].
  unfold mapid_bytes, loc_bytes. rewrite !wf_lmapb_pair by assumption.
  rewrite (wf_bytesb_of (ip16 (p_ip p))) by apply be_bytes_wf.
  unfold ip16. rewrite be_bytes_length. cbn [Nat.eqb andb].
  destruct (N.ltb_spec (rl_mask (p_loc p)) 256); [reflexivity | lia].
Qed.

(* the subnet records the accumulator holds: '%' records with a two-byte location, well formed *)
Definition net_rec_okb (o : toracles) (r : record) : bool :=
  match r with RNet lo _ _ _ => wf_recordb o r && (length lo =? 2)%nat | _ => false end.

Lemma is_byte_nth : forall l i, wf_bytesb l = true -> nth i l 0 < 256.
Proof.
  intros l i H. apply wf_bytesb_spec in H. unfold wf_bytes in H. rewrite Forall_forall in H.
  destruct (Nat.lt_ge_cases i (length l)) as [L|L].
  - apply H. apply nth_In. exact L.
  - rewrite nth_overflow by exact L. reflexivity.
Qed.

Lemma netlines_ok : forall o ns, forallb (net_rec_okb o) ns = true ->
  Forall (fun n => fst (nl_map n) < 256 /\ snd (nl_map n) < 256 /\ subnet_bytes_ok (nl_net n)) (netlines ns).
Proof.
  intros o. induction ns as [|r ns IH]; intro H; [constructor|]. cbn [forallb] in H. apply andb_true_iff in H as [H1 H2].
  unfold netlines. cbn [flat_map]. apply Forall_app. split; [|apply IH; exact H2].
  destruct r; try discriminate H1. cbn [net_rec_okb wf_recordb] in H1. cbn [net_of_record].
  apply andb_true_iff in H1 as [W _].
  rewrite !andb_true_iff in W. destruct W as [[[[[[Wl Wm] _] _] _] _] _].
  unfold wf_locb in Wl. apply andb_true_iff in Wl as [Wlo _]. unfold wf_lmapb in Wm. apply andb_true_iff in Wm as [Wm _].
  constructor; [|constructor]. cbn [nl_map nl_net two_bytes fst snd]. unfold subnet_bytes_ok. cbn [s_loc two_bytes fst snd].
  repeat split; apply is_byte_nth; assumption.
Qed.

Lemma nets_of_in : forall f m s, In s (nets_of f m) -> exists n, In n (f_nets f) /\ nl_map n = m /\ nl_net n = s.
Proof.
  intros f m s H. unfold nets_of in H. apply in_map_iff in H as (n & E & Hn). apply filter_In in Hn as [Hn Hm].
  exists n. split; [exact Hn|]. split; [|exact E]. unfold id_eqb in Hm. apply andb_true_iff in Hm as [A B].
  apply N.eqb_eq in A, B. destruct (nl_map n), m. cbn in *. congruence.
Qed.

Lemma dedup_ids_sub : forall x l, In x (dedup_ids l) -> In x l.
Proof.
  intros x. induction l as [|y l IH]; intro H; [destruct H|]. cbn [dedup_ids] in H.
  destruct (mem_id y l); [right; apply IH; exact H|]. destruct H as [H|H]; [left; exact H | right; apply IH; exact H].
Qed.

Theorem points_wf : forall o sort ns r, sort_spec sort -> forallb (net_rec_okb o) ns = true ->
  In r (rearrange_total sort ns) ->
  (exists lmap ip ml null locid, r = RRangePoint lmap ip ml null locid) /\ wf_recordb o r = true.
Proof.
  intros o sort ns r Hs Hn Hin. unfold rearrange_total in Hin.
  destruct (rearrange_text sort ns) as [l|] eqn:E; [|destruct Hin].
  destruct (rearrange_maps_in sort _ _ l r E Hin) as (m & pts & p & Hm & Er & Hp & ->).
  split; [unfold point_record; do 5 eexists; reflexivity|].
  pose proof (netlines_ok o ns Hn) as F. rewrite Forall_forall in F.
  assert (Hmb : fst m < 256 /\ snd m < 256).
  { unfold net_ids in Hm. apply dedup_ids_sub in Hm. apply in_map_iff in Hm as (n & En & Hn'). subst m.
    destruct (F n Hn') as (A & B & _). split; assumption. }
  destruct Hmb as [A B]. apply point_record_wf; [exact A | exact B |].
  assert (HS : Forall subnet_bytes_ok (nets_of (net_file ns) m)).
  { apply Forall_forall. intros s Hs'. destruct (nets_of_in _ _ _ Hs') as (n & Hn' & _ & <-).
    cbn [net_file f_nets] in Hn'. destruct (F n Hn') as (_ & _ & C). exact C. }
  pose proof (rearrange_pts_ok sort _ pts Hs HS Er) as G. rewrite Forall_forall in G. apply G. exact Hp.
Qed.

(* the key/value record of a point is C03's range-point key and value *)
Lemma convert_point_record : forall v2 nornet m p,
  convert v2 nornet (point_record m p) = [(rp_key m p, rp_value p)].
Proof.
  intros v2 nornet m p. unfold point_record, rp_key, rp_value, rp_mlen, rp_marker. cbn [convert].
  destruct (rl_null (p_loc p)); reflexivity.
Qed.

(* ---------------------------------------------------------------- the subnet records of a file *)
(* what the '%' lines of the file hand to the accumulator (a '%' record does not depend on the serial) *)
Definition file_nets (o : toracles) (serial : N) (f : list bytes) : list record :=
  flat_map (fun l => if is_ignored l then []
                     else if nth 0 l 0 =? 37 then match parse_line o serial l with Ok r => [r] | Err _ => [] end
                     else []) f.

(* C03's guard for the file: the subnets of every map are a well-formed set *)
Definition file_subnets_wfb (o : toracles) (serial : N) (f : list bytes) : bool := nets_wfb (file_nets o serial f).

Lemma pre_line_nets : forall o serial pserial l b n, Proofs.Preproc.line_ok o serial l ->
  pre_line o pserial l = Ok (b, n) ->
  n = file_nets o serial [l] /\ forallb (net_rec_okb o) n = true.
Proof.
  intros o serial pserial l b n H E. unfold file_nets. cbn [flat_map]. rewrite app_nil_r.
  unfold pre_line in E. destruct (is_ignored l) eqn:Ig.
  { inversion E; subst. split; reflexivity. }
  destruct H as [H|(L & Sp & r & ns & P & W & S & A & An & Fz)]; [congruence|].
  destruct (N.eqb_spec (nth 0 l 0) 37) as [E37|N37].
  - destruct l as [|c t]; [discriminate Ig|]. cbn [nth] in E37. subst c.
    destruct (parse_pct o serial t r P) as [(lo & ip & ones & lmap & ->) Ps].
    rewrite (Ps pserial) in E. rewrite P. cbn [rbind] in E. cbn [acc_update] in A, E.
    destruct (length lo =? 2)%nat eqn:L2; [|discriminate A]. cbn [rbind] in E. inversion E; subst b n.
    split; [reflexivity|]. cbn [forallb net_rec_okb]. rewrite W, L2. reflexivity.
  - destruct (nth 0 l 0 =? 90).
    + destruct (parse_line o pserial l); cbn [rbind] in E; [|discriminate E]. inversion E; subst. split; reflexivity.
    + inversion E; subst. split; reflexivity.
Qed.

Lemma file_nets_cons : forall o serial l t, file_nets o serial (l :: t) = file_nets o serial [l] ++ file_nets o serial t.
Proof. intros. unfold file_nets. cbn [flat_map]. rewrite app_nil_r. reflexivity. Qed.

Lemma pre_go_nets : forall o serial pserial f b n, wf_file o serial f -> pre_go o pserial f = Ok (b, n) ->
  n = file_nets o serial f /\ forallb (net_rec_okb o) n = true.
Proof.
  intros o serial pserial f. induction f as [|l t IH]; intros b n H E.
  - inversion E; subst. split; reflexivity.
  - inversion H as [|? ? Hl Ht]; subst. cbn [pre_go] in E.
    destruct (pre_line o pserial l) as [[b1 n1]|] eqn:E1; [|discriminate E]. cbn [rbind] in E.
    destruct (pre_go o pserial t) as [[b2 n2]|] eqn:E2; [|discriminate E]. cbn [rbind fst snd] in E.
    inversion E; subst b n. destruct (pre_line_nets o serial pserial l b1 n1 Hl E1) as [A1 A2].
    destruct (IH b2 n2 Ht eq_refl) as [B1 B2]. split.
    + rewrite file_nets_cons. congruence.
    + rewrite forallb_app, A2, B2. reflexivity.
Qed.

(* ---------------------------------------------------------------- C09, file level, closed *)
(* for every sort.Slice, under C03's guard on the subnets of every map: the preprocessor succeeds without
   a panic of Rearrange; its output - the body followed by the text of the points of the concrete
   rearranger, in any order - compiles to the same records as the original, up to order *)
Theorem preproc_same_db_closed : forall o,
  (forall a, wf_bytes a -> length a = 16%nat -> o_parse_ip o (o_print_ip o a) = Some a) ->
  o_parse_ip o [] = None ->
  (forall a, contains 44 (o_print_ip o a) = false) ->
  forall sort, sort_spec sort ->
  forall v2 serial pserial, serial <= max32 -> pserial = serial \/ pserial = 0 ->
  forall f, wf_file o serial f -> file_subnets_wfb o serial f = true ->
  exists body points kvs,
    pre_go o pserial f = Ok (body, file_nets o serial f) /\
    rearrange_text sort (file_nets o serial f) = Ok points /\
    preprocess o (rearrange_total sort) pserial f = Ok (body ++ map (marshal o) points) /\
    compile o (rearrange_total sort) v2 serial f = Ok kvs /\
    forall pts, Permutation pts points ->
      exists kvs', compile o (rearrange_total sort) v2 serial (body ++ map (marshal o) pts) = Ok kvs' /\
                   Permutation kvs' kvs /\
                   (* no subnet is left for the accumulator *)
                   exists K', compile_go o v2 serial (body ++ map (marshal o) pts) = Ok (K', []).
Proof.
  intros o H1 H2 H3 sort Hs v2 serial pserial Hser Hps f Wf Wn.
  assert (Hd : forall (ns : list record) r, In r ((fun _ : list record => @nil record) ns) ->
            (exists lmap ip ml null locid, r = RRangePoint lmap ip ml null locid) /\ wf_recordb o r = true)
    by (intros ns r []).
  destruct (file_steps o v2 serial pserial (fun _ => []) H1 H2 H3 Hser Hps Hd f Wf) as (K & N & B & C1 & P1 & C2).
  destruct (pre_go_nets o serial pserial f B N Wf P1) as [EN ON]. subst N.
  destruct (rearrange_text_ok sort Hs (file_nets o serial f) Wn) as (points & Er & Et).
  exists B, points, (K ++ flat_map (convert v2 true) points ++ [feature_kv v2]).
  split; [exact P1|]. split; [exact Er|].
  split; [unfold preprocess; rewrite P1; cbn [rbind fst snd]; rewrite Et; reflexivity|].
  split; [unfold compile; rewrite C1; cbn [rbind fst snd]; rewrite Et; reflexivity|].
  intros pts Pm.
  assert (Hp : forall r, In r pts ->
            (exists lmap ip ml null locid, r = RRangePoint lmap ip ml null locid) /\ wf_recordb o r = true).
  { intros r Hr. apply (points_wf o sort (file_nets o serial f) r Hs ON). rewrite Et.
    eapply Permutation_in; eassumption. }
  pose proof (compile_go_app o v2 serial B (map (marshal o) pts) K [] _ [] C2
               (compile_points o v2 serial pserial (fun _ => []) H1 H3 Hser Hps Hd pts Hp)) as CG.
  cbn [app] in CG.
  exists (K ++ flat_map (convert v2 true) pts ++ [feature_kv v2]). split; [|split].
  - unfold compile. rewrite CG.
    cbn [rbind fst snd app]. rewrite rearrange_total_nil. cbn [flat_map app]. rewrite <- app_assoc. reflexivity.
  - apply Permutation_app_head. apply Permutation_app_tail. apply Permutation_flat_map. assumption.
  - eexists. exact CG.
Qed.

(* the literal instance of Proofs/Preproc.preproc_stmt (= C09_preproc_same_db_outside_finding): its two
   rearranger hypotheses hold for the concrete rearranger restricted to well-formed subnet records
   (anything else never reaches it from a well-formed file, pre_go_nets) *)
Definition rearrange_guarded (o : toracles) (sort : list point -> list point) (ns : list record) : list record :=
  if forallb (net_rec_okb o) ns then rearrange_total sort ns else [].

Lemma rearrange_guarded_hyps : forall o sort, sort_spec sort ->
  rearrange_guarded o sort [] = [] /\
  forall ns r, In r (rearrange_guarded o sort ns) ->
    (exists lmap ip ml null locid, r = RRangePoint lmap ip ml null locid) /\ wf_recordb o r = true.
Proof.
  intros o sort Hs. split; [reflexivity|]. intros ns r Hin. unfold rearrange_guarded in Hin.
  destruct (forallb (net_rec_okb o) ns) eqn:G; [|destruct Hin]. exact (points_wf o sort ns r Hs G Hin).
Qed.

(* the literal instance of Proofs/Preproc.preproc_stmt for the guarded concrete rearranger *)
Theorem preproc_stmt_instance : forall o,
  (forall a, wf_bytes a -> length a = 16%nat -> o_parse_ip o (o_print_ip o a) = Some a) ->
  o_parse_ip o [] = None ->
  (forall a, contains 44 (o_print_ip o a) = false) ->
  forall sort, sort_spec sort ->
  forall v2 serial pserial, serial <= max32 -> pserial = serial \/ pserial = 0 ->
  forall f, wf_file o serial f ->
  exists body nets kvs,
    pre_go o pserial f = Ok (body, nets) /\
    preprocess o (rearrange_guarded o sort) pserial f = Ok (body ++ map (marshal o) (rearrange_guarded o sort nets)) /\
    compile o (rearrange_guarded o sort) v2 serial f = Ok kvs /\
    forall pts, Permutation pts (rearrange_guarded o sort nets) ->
      exists kvs', compile o (rearrange_guarded o sort) v2 serial (body ++ map (marshal o) pts) = Ok kvs' /\
                   Permutation kvs' kvs.
Proof.
  intros o H1 H2 H3 sort Hs v2 serial pserial Hser Hps f Wf.
  destruct (rearrange_guarded_hyps o sort Hs) as [G1 G2].
  exact (preproc_stmt o H1 H2 H3 v2 serial pserial (rearrange_guarded o sort) Hser Hps G1 G2 f Wf).
Qed.
