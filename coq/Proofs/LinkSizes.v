(* LinkSizes: the value-size guards (kvs_ok, small_valuesb, plus_smallb) of the linked theorems of
   Proofs/LinkDiffText.v and Proofs/LinkPreprocDiff.v follow from the LENGTH of the text lines
   (Proofs/TextSizes.convert_values_bounded), given that the library's ParseIP returns 16-byte addresses:
     short_lineb l      the line is at most 2^24 bytes long (bufio.Scanner hands out at most 64 KiB)
     pre_line_textb o l a line of a preprocessed file, decided on the text alone, independent of serial and
                        key layout: not a '%' line, no parse_error, short *)
From DnsV Require Import Base.Bytes Base.Ip Model.Rearranger.
From DnsV Require Import Model.Diff Spec.MapOfLists Proofs.MultiValue Proofs.MapOfLists Proofs.Batch Proofs.CompilePipe Proofs.Diff.
From DnsV Require Import Model.Text Model.Preproc.
From DnsV Require Import Proofs.Rearranger Proofs.TextSizes Proofs.LinkDiffText Proofs.LinkPreprocRearranger Proofs.LinkPreprocDiff.
From DnsV Require Proofs.Preproc Proofs.Text Proofs.Svcb.
From Coq Require Import Permutation Lia ZifyN ZifyNat ZifyBool.
Open Scope N_scope.

Definition short_lineb (l : bytes) : bool := nlen l <=? 16777216.

Definition pre_line_textb (o : toracles) (l : bytes) : bool :=
  negb (nth 0 l 0 =? 37) && match parse_error o l with None => true | Some _ => false end && short_lineb l.

Definition parse_ip_16 (o : toracles) : Prop := forall s a, o_parse_ip o s = Some a -> length a = 16%nat.

Lemma bounded_small : forall n l, n <= 16777216 -> val_bound n l -> small_valuesb l = true.
Proof.
  intros n l Hn H. unfold small_valuesb. apply forallb_forall. intros p Hp. unfold val_bound in H.
  rewrite Forall_forall in H. specialize (H p Hp). cbn beta in H. apply N.ltb_lt. lia.
Qed.

Lemma kvs_okb_ok' : forall l, small_valuesb l = true -> kvs_ok l.
Proof.
  intros l H. unfold small_valuesb in H. rewrite forallb_forall in H. unfold kvs_ok. apply Forall_forall.
  intros p Hp. specialize (H p Hp). cbn beta in H. apply N.ltb_lt in H. exact H.
Qed.

Lemma short_line_small : forall o v2 serial l r, parse_ip_16 o -> parse_line o serial l = Ok r ->
  short_lineb l = true -> small_valuesb (convert v2 true r) = true.
Proof.
  intros o v2 serial l r Hip P S. apply (bounded_small (nlen l)); [unfold short_lineb in S; apply N.leb_le in S; exact S|].
  exact (convert_values_bounded o v2 serial l r Hip P).
Qed.

(* the guard of C08 on text, decided without compiling the line *)
Lemma pre_line_text : forall o v2 serial l, parse_ip_16 o -> pre_line_textb o l = true -> pre_lineb o v2 serial l = true.
Proof.
  intros o v2 serial l Hip H. unfold pre_line_textb in H. apply andb_true_iff in H as [H S]. apply andb_true_iff in H as [T E].
  unfold pre_lineb. rewrite T. cbn [andb]. pose proof (parse_error_spec o serial l) as Sp.
  destruct (parse_line o serial l) as [r|e] eqn:P.
  - exact (short_line_small o v2 serial l r Hip P S).
  - rewrite Sp in E. discriminate E.
Qed.

Lemma pre_file_text : forall o v2 serial f, parse_ip_16 o -> forallb (pre_line_textb o) f = true -> pre_file o v2 serial f.
Proof.
  intros o v2 serial f Hip H. unfold pre_file. rewrite forallb_forall in *. intros l Hl.
  apply pre_line_text; [exact Hip | apply H; exact Hl].
Qed.

Lemma of_nat_le : forall x y : nat, (x <= y)%nat -> N.of_nat x <= N.of_nat y.
Proof. intros. lia. Qed.

Lemma short_mono : forall a b : bytes, (length a <= length b)%nat -> short_lineb b = true -> short_lineb a = true.
Proof.
  intros a b L H. unfold short_lineb in *. apply N.leb_le in H. apply N.leb_le.
  eapply N.le_trans; [|exact H]. unfold nlen. apply of_nat_le. exact L.
Qed.

Lemma short_tail : forall c arg, short_lineb (c :: arg) = true -> short_lineb arg = true.
Proof. intros c arg H. apply (short_mono arg (c :: arg)); [cbn [length]; lia | exact H]. Qed.

Lemma plus_small_short : forall o v2 serial d, parse_ip_16 o -> forallb short_lineb d = true ->
  forallb (plus_smallb o v2 serial) d = true.
Proof.
  intros o v2 serial d Hip H. rewrite forallb_forall in *. intros l Hl. specialize (H l Hl).
  destruct l as [|c arg]; [reflexivity|]. cbn [plus_smallb]. destruct (c =? 43); [|reflexivity].
  destruct (parse_line o serial arg) as [r|] eqn:P; [|reflexivity].
  apply (short_line_small o v2 serial arg r Hip P). exact (short_tail c arg H).
Qed.

(* ---------------------------------------------------------------- whole files *)
Lemma trim_spaces_len : forall l, (length (trim_spaces l) <= length l)%nat.
Proof.
  induction l as [|c t IH]; [cbn; lia|]. cbn [trim_spaces]. destruct (c =? 32); cbn [length] in *; lia.
Qed.

Lemma scan_short : forall f, forallb short_lineb f = true -> forallb short_lineb (scan f) = true.
Proof.
  intros f H. rewrite forallb_forall in *. intros l Hl. unfold scan in Hl. apply filter_In in Hl as [Hl _].
  apply in_map_iff in Hl as (l0 & <- & H0). specialize (H l0 H0).
  exact (short_mono _ _ (trim_spaces_len l0) H).
Qed.

Lemma recs_of_short : forall o v2 serial l, parse_ip_16 o -> short_lineb l = true ->
  kvs_ok (recs_of bytes (convert_ln o v2 serial) l).
Proof.
  intros o v2 serial l Hip S. unfold recs_of. pose proof (convert_error_spec o v2 serial l) as Sp.
  destruct (convert_ln o v2 serial l) as [x|]; [|constructor]. destruct Sp as (_ & r & P & ->).
  apply kvs_okb_ok'. exact (short_line_small o v2 serial l r Hip P S).
Qed.

Lemma accum_kvs_ok : forall o v2 serial sort g,
  kvs_ok (text_accum o v2 serial (rearrange_total sort) g).
Proof.
  intros o v2 serial sort g. unfold text_accum, kvs_ok. apply Forall_forall. intros p Hp.
  apply in_flat_map in Hp as (r & Hr & Hp). unfold rearrange_total in Hr.
  destruct (rearrange_text sort (nets_of_lines o serial g)) as [l|] eqn:E; [|destruct Hr].
  destruct (rearrange_maps_in sort _ _ l r E Hr) as (m & pts & q & _ & _ & _ & ->).
  rewrite convert_point_record in Hp. destruct Hp as [<-|[]]. cbn [snd]. unfold okv, rp_value, loc_bytes.
  destruct (rl_null (p_loc q)); reflexivity.
Qed.

(* the value-size guard of the file-level theorems, from the length of the lines *)
Theorem file_kvs_ok : forall o v2 serial sort f, parse_ip_16 o -> forallb short_lineb f = true ->
  kvs_ok (records bytes (convert_ln o v2 serial) (text_accum o v2 serial (rearrange_total sort)) (features v2) (scan f)).
Proof.
  intros o v2 serial sort f Hip H. unfold records, kvs_ok. apply Forall_app. split; [|apply Forall_app; split].
  - pose proof (scan_short f H) as S. rewrite forallb_forall in S.
    apply Forall_forall. intros p Hp. apply in_flat_map in Hp as (l & Hl & Hp).
    pose proof (recs_of_short o v2 serial l Hip (S l Hl)) as K. unfold kvs_ok in K. rewrite Forall_forall in K. exact (K p Hp).
  - apply accum_kvs_ok.
  - apply feature_okv.
Qed.

(* ---------------------------------------------------------------- the end-to-end theorem with syntactic guards *)
Theorem preprocessed_diff_end_to_end_short : forall o,
  (forall a, wf_bytes a -> length a = 16%nat -> o_parse_ip o (o_print_ip o a) = Some a) ->
  o_parse_ip o [] = None ->
  (forall a, contains 44 (o_print_ip o a) = false) ->
  parse_ip_16 o ->
  forall sort, sort_spec sort ->
  forall v2 serial pserial, serial <= max32 -> pserial = serial \/ pserial = 0 ->
  forall ksort, sort_ok ksort ->
  forall A B,
  Proofs.Preproc.wf_file o serial A -> file_subnets_wfb o serial A = true -> forallb short_lineb A = true ->
  Proofs.Preproc.wf_file o serial B -> file_subnets_wfb o serial B = true -> forallb short_lineb B = true ->
  exists bodyA pointsA bodyB pointsB,
    preprocess o (rearrange_total sort) pserial A = Ok (bodyA ++ map (marshal o) pointsA) /\
    preprocess o (rearrange_total sort) pserial B = Ok (bodyB ++ map (marshal o) pointsB) /\
    forall pa pb, Permutation pa pointsA -> Permutation pb pointsB ->
      let PA := bodyA ++ map (marshal o) pa in
      let PB := bodyB ++ map (marshal o) pb in
      scan PA = PA /\ scan PB = PB /\
      (forall dbA, rdb_compilation bytes (convert_ln o v2 serial) (text_accum o v2 serial (rearrange_total sort))
                     (features v2) (scan PA) dbA ->
                   compiled (convert_ln o v2 serial) (features v2) PA dbA) /\
      forall d dbA, is_line_diff PA PB d -> compiled (convert_ln o v2 serial) (features v2) PA dbA ->
        exists db', apply_diff (convert_ln o v2 serial) ksort dbA d = Ok db' /\
          compiled (convert_ln o v2 serial) (features v2) PB db' /\
          forall dbB, rdb_compilation bytes (convert_ln o v2 serial) (text_accum o v2 serial (rearrange_total sort))
                        (features v2) (scan B) dbB ->
            forall k, Permutation (vals db' k) (vals dbB k).
Proof.
  intros o H1 H2 H3 Hip sort Hs v2 serial pserial Hser Hps ksort Hk A B WA NA SA WB NB SB.
  exact (preprocessed_diff_end_to_end o H1 H2 H3 sort Hs v2 serial pserial Hser Hps ksort Hk A B
           WA NA (file_kvs_ok o v2 serial sort A Hip SA) WB NB (file_kvs_ok o v2 serial sort B Hip SB)).
Qed.

(* o_toy returns 16-byte addresses; the example files are short *)
Lemma toy_parse_ip_16 : parse_ip_16 Proofs.Text.o_toy.
Proof.
  intros s a H. cbn [o_parse_ip Proofs.Text.o_toy] in H. unfold Proofs.Svcb.ex_parse in H.
  destruct s as [|x r]; [discriminate H|]. destruct (x =? 58).
  - destruct (Proofs.Svcb.ex_unshift r) as [b|]; [|discriminate H].
    destruct (length b =? 16)%nat eqn:L; [|discriminate H]. inversion H; subst. apply Nat.eqb_eq. exact L.
  - destruct (Proofs.Svcb.ex_unshift (x :: r)) as [b|]; [|discriminate H].
    destruct (length b =? 4)%nat eqn:L; [|discriminate H]. inversion H; subst. apply Nat.eqb_eq in L.
    unfold Base.Text.v4_prefix. cbn [app length]. rewrite L. reflexivity.
Qed.
