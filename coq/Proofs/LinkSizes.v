(* LinkSizes: the value-size guards (kvs_ok, small_valuesb, plus_smallb) of the linked theorems of
   Proofs/LinkDiffText.v and Proofs/LinkPreprocDiff.v follow from the LENGTH of the text lines
   (Proofs/TextSizes.convert_values_bounded), given that the library's ParseIP returns 16-byte addresses:
     short_lineb l      the line is at most 2^24 bytes long (bufio.Scanner hands out at most 64 KiB)
     pre_line_textb o l a line of a preprocessed file, decided on the text alone, independent of serial and
                        key layout: not a '%' line, no parse_error, short *)
From DnsV Require Import Base.Bytes Base.Ip Model.Rearranger.
From DnsV Require Import Model.Diff Spec.MapOfLists Proofs.MultiValue Proofs.MapOfLists Proofs.Batch Proofs.CompilePipe Proofs.Diff.
From DnsV Require Import Model.Text Model.Preproc.
From DnsV Require Import Proofs.Rearranger Proofs.TextSizes Proofs.LinkDiffText Proofs.LinkPreprocRearranger Proofs.LinkPreprocDiff.
From DnsV Require Proofs.Preproc.
From Coq Require Import Permutation Lia ZifyN ZifyNat ZifyBool.
Open Scope N_scope.

Definition short_lineb (l : bytes) : bool := nlen l <=? 16777216.

Definition pre_line_textb (o : toracles) (l : bytes) : bool :=
  negb (nth 0 l 0 =? 37) && match parse_error o l with None => true | Some _ => false end && short_lineb l.

Definition parse_ip_16 (o : toracles) : Prop := forall s a, o_parse_ip o s = Some a -> length a = 16%nat.

Lemma bounded_small : forall n l, n <= 16777216 -> val_bound n l -> small_valuesb l = true.
Proof.
  intros n l Hn H. unfold small_valuesb. apply forallb_forall. intros p Hp. unfold val_bound in H.
  rewrite Forall_forall in H. specialize (H p Hp). cbn beta in H. apply N.ltb_lt. lia.
Qed.

Lemma kvs_okb_ok' : forall l, small_valuesb l = true -> kvs_ok l.
Proof.
  intros l H. unfold small_valuesb in H. rewrite forallb_forall in H. unfold kvs_ok. apply Forall_forall.
  intros p Hp. specialize (H p Hp). cbn beta in H. apply N.ltb_lt in H. exact H.
Qed.

Lemma short_line_small : forall o v2 serial l r, parse_ip_16 o -> parse_line o serial l = Ok r ->
  short_lineb l = true -> small_valuesb (convert v2 true r) = true.
Proof.
  intros o v2 serial l r Hip P S. apply (bounded_small (nlen l)); [unfold short_lineb in S; apply N.leb_le in S; exact S|].
  exact (convert_values_bounded o v2 serial l r Hip P).
Qed.

(* the guard of C08 on text, decided without compiling the line *)
Lemma pre_line_text : forall o v2 serial l, parse_ip_16 o -> pre_line_textb o l = true -> pre_lineb o v2 serial l = true.
Proof.
  intros o v2 serial l Hip H. unfold pre_line_textb in H. apply andb_true_iff in H as [H S]. apply andb_true_iff in H as [T E].
  unfold pre_lineb. rewrite T. cbn [andb]. pose proof (parse_error_spec o serial l) as Sp.
  destruct (parse_line o serial l) as [r|e] eqn:P.
  - exact (short_line_small o v2 serial l r Hip P S).
  - rewrite Sp in E. discriminate E.
Qed.

Lemma pre_file_text : forall o v2 serial f, parse_ip_16 o -> forallb (pre_line_textb o) f = true -> pre_file o v2 serial f.
Proof.
  intros o v2 serial f Hip H. unfold pre_file. rewrite forallb_forall in *. intros l Hl.
  apply pre_line_text; [exact Hip | apply H; exact Hl].
Qed.

Lemma short_tail : forall c arg, short_lineb (c :: arg) = true -> short_lineb arg = true.
Proof.
  intros c arg H. unfold short_lineb in *. rewrite nlen_cons in H. apply N.leb_le in H. apply N.leb_le.
  generalize dependent (nlen arg). intros x H. lia.
Qed.

Lemma plus_small_short : forall o v2 serial d, parse_ip_16 o -> forallb short_lineb d = true ->
  forallb (plus_smallb o v2 serial) d = true.
Proof.
  intros o v2 serial d Hip H. rewrite forallb_forall in *. intros l Hl. specialize (H l Hl).
  destruct l as [|c arg]; [reflexivity|]. cbn [plus_smallb]. destruct (c =? 43); [|reflexivity].
  destruct (parse_line o serial arg) as [r|] eqn:P; [|reflexivity].
  apply (short_line_small o v2 serial arg r Hip P). exact (short_tail c arg H).
Qed.

(* ---------------------------------------------------------------- whole files *)
Lemma trim_spaces_len : forall l, (length (trim_spaces l) <= length l)%nat.
Proof.
  induction l as [|c t IH]; [cbn; lia|]. cbn [trim_spaces]. destruct (c =? 32); cbn [length] in *; lia.
Qed.

Lemma scan_short : forall f, forallb short_lineb f = true -> forallb short_lineb (scan f) = true.
Proof.
  intros f H. rewrite forallb_forall in *. intros l Hl. unfold scan in Hl. apply filter_In in Hl as [Hl _].
  apply in_map_iff in Hl as (l0 & <- & H0). specialize (H l0 H0). pose proof (trim_spaces_len l0) as T.
  unfold short_lineb in *. apply N.leb_le in H. apply N.leb_le. unfold nlen in *.
  generalize dependent (length (trim_spaces l0)). generalize dependent (length l0). intros a H b T. lia.
Qed.

Lemma recs_of_short : forall o v2 serial l, parse_ip_16 o -> short_lineb l = true ->
  kvs_ok (recs_of bytes (convert_ln o v2 serial) l).
Proof.
  intros o v2 serial l Hip S. unfold recs_of. pose proof (convert_error_spec o v2 serial l) as Sp.
  destruct (convert_ln o v2 serial l) as [x|]; [|constructor]. destruct Sp as (_ & r & P & ->).
  apply kvs_okb_ok'. exact (short_line_small o v2 serial l r Hip P S).
Qed.
