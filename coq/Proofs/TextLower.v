(* TextLower: bytes.ToLower (Model/Text.v to_lower) is compositional at '.' and adds no '.',
   provided unicode.ToLower maps no rune >= 0x80 to '.'.  Discharges the two list-level
   premises of Proofs/TextNames.v (Section Lower) from that single premise. *)
From DnsV Require Import Model.Text Model.Preproc Proofs.Utf8 Proofs.Quote Proofs.TextBase Proofs.TextNames
  Proofs.TextRecords Proofs.Text Proofs.Preproc.
From Coq Require Import Permutation.
From Coq Require Import ZifyN ZifyNat ZifyBool.
Ltac Zify.zify_post_hook ::= Z.div_mod_to_equations.
Open Scope N_scope.

Lemma encode_rune_ascii : forall r, r < 128 -> encode_rune r = [r].
Proof. intros r H. unfold encode_rune. destruct (N.ltb_spec r 128); [reflexivity|lia]. Qed.

Lemma encode_rune_ne46 : forall r, r <> 46 -> Forall ne46 (encode_rune r).
Proof.
  intros r H. unfold encode_rune, ne46.
  destruct (r <? 128); [repeat constructor; assumption|].
  destruct (r <? 2048); [repeat constructor; lia|].
  destruct (negb (valid_rune r)); [repeat constructor; lia|].
  destruct (r <? 65536); repeat constructor; lia.
Qed.

Lemma ascii_lower_lt : forall c, c < 128 -> ascii_lower c < 128.
Proof. intros c H. unfold ascii_lower. destruct ((65 <=? c) && (c <=? 90)) eqn:E; lia. Qed.

Lemma ascii_lower_46 : forall c, c <> 46 -> ascii_lower c <> 46.
Proof. intros c H. unfold ascii_lower. destruct ((65 <=? c) && (c <=? 90)) eqn:E; lia. Qed.

Section Lower.
Variable g : N -> N.
Variable Hg_ascii : forall c, c < 128 -> g c = ascii_lower c.

Lemma map_runes_nil : forall f, map_runes g f [] = [].
Proof. destruct f; reflexivity. Qed.

Lemma map_runes_fuel : forall f1 f2 s, (length s <= f1)%nat -> (length s <= f2)%nat ->
  map_runes g f1 s = map_runes g f2 s.
Proof.
  induction f1; intros f2 s L1 L2.
  - destruct s; [|cbn in L1; lia]. rewrite !map_runes_nil. reflexivity.
  - destruct s as [|b0 t]; [rewrite !map_runes_nil; reflexivity|].
    destruct f2 as [|f2]; [cbn in L2; lia|]. cbn [length] in L1, L2.
    cbn [map_runes].
    destruct (N.ltb_spec b0 128).
    + rewrite (IHf1 f2 t) by lia. reflexivity.
    + destruct (decode_rune (b0 :: t)) as [r w] eqn:D.
      pose proof (decode_rune_width b0 t r w ltac:(lia) D) as [W1 W2].
      assert (length (skipn w (b0 :: t)) <= length t)%nat by (rewrite skipn_length; cbn [length]; lia).
      rewrite (IHf1 f2 (skipn w (b0 :: t))) by lia. reflexivity.
Qed.

Lemma map_runes_app46 : forall n a b, (length a <= n)%nat ->
  map_runes g (length (a ++ 46 :: b)) (a ++ 46 :: b) =
  map_runes g (length a) a ++ 46 :: map_runes g (length b) b.
Proof.
  induction n; intros a b L.
  - destruct a; [|cbn in L; lia]. cbn [app length map_runes].
    rewrite Hg_ascii by lia. reflexivity.
  - destruct a as [|b0 t].
    + cbn [app length map_runes]. rewrite Hg_ascii by lia. reflexivity.
    + cbn [length] in L. cbn [app length map_runes].
      destruct (N.ltb_spec b0 128).
      * rewrite (IHn t b) by lia. rewrite <- app_assoc. reflexivity.
      * change (b0 :: t ++ 46 :: b) with ((b0 :: t) ++ 46 :: b).
        rewrite decode_rune_app46 by discriminate.
        destruct (decode_rune (b0 :: t)) as [r w] eqn:D.
        pose proof (decode_rune_width b0 t r w ltac:(lia) D) as [W1 W2].
        rewrite <- app_assoc. f_equal.
        rewrite skipn_app. replace (w - length (b0 :: t))%nat with 0%nat by lia. cbn [skipn].
        set (a' := skipn w (b0 :: t)).
        assert (La : (length a' <= length t)%nat) by (unfold a'; rewrite skipn_length; cbn [length]; lia).
        rewrite (map_runes_fuel _ (length (a' ++ 46 :: b))) by (rewrite !app_length; cbn [length]; lia).
        rewrite (map_runes_fuel (length t) (length a') a') by lia.
        apply IHn. lia.
Qed.

Lemma map_runes_ascii : forall s, forallb (fun c => c <? 128) s = true ->
  map_runes g (length s) s = map ascii_lower s.
Proof.
  induction s as [|c s IH]; intros H; [reflexivity|].
  cbn [forallb] in H. apply andb_true_iff in H. destruct H as [H1 H2]. apply N.ltb_lt in H1.
  cbn [length map_runes map]. destruct (N.ltb_spec c 128); [|lia].
  rewrite Hg_ascii by assumption. rewrite encode_rune_ascii by (apply ascii_lower_lt; assumption).
  rewrite IH by assumption. reflexivity.
Qed.

Variable Hg_hi : forall r, 128 <= r -> g r <> 46.

Lemma map_runes_nodot : forall f s, Forall ne46 s -> Forall ne46 (map_runes g f s).
Proof.
  induction f; intros s D; [constructor|].
  destruct s as [|b0 t]; [constructor|]. inversion D as [|? ? Db Dt]; subst.
  cbn [map_runes]. destruct (N.ltb_spec b0 128).
  - apply Forall_app. split; [|apply IHf; assumption].
    apply encode_rune_ne46. rewrite Hg_ascii by assumption. apply ascii_lower_46. exact Db.
  - destruct (decode_rune (b0 :: t)) as [r w] eqn:E.
    apply Forall_app. split; [|apply IHf; apply Forall_skipn; assumption].
    apply encode_rune_ne46. apply Hg_hi.
    apply decode_rune_spec in E; [|lia]. destruct E as [[_ ->]|(_ & Hr & _)]; [unfold rune_error; lia|assumption].
Qed.

End Lower.

Section ToLower.
Variable o : toracles.
Variable Hlower_rune : forall r, 128 <= r -> o_lower_rune o r <> 46.

Let g := lower_rune o.

Lemma g_ascii : forall c, c < 128 -> g c = ascii_lower c.
Proof. intros c H. unfold g, lower_rune. destruct (N.ltb_spec c 128); [reflexivity|lia]. Qed.

Lemma g_hi : forall r, 128 <= r -> g r <> 46.
Proof. intros r H. unfold g, lower_rune. destruct (N.ltb_spec r 128); [lia|]. apply Hlower_rune. assumption. Qed.

Lemma to_lower_dot : forall a b, to_lower o (a ++ 46 :: b) = to_lower o a ++ 46 :: to_lower o b.
Proof.
  intros a b. unfold to_lower. rewrite forallb_app. cbn [forallb]. change (46 <? 128) with true. cbn [andb].
  fold g.
  destruct (forallb (fun c => c <? 128) a) eqn:A; destruct (forallb (fun c => c <? 128) b) eqn:B; cbn [andb].
  - rewrite map_app. reflexivity.
  - rewrite (map_runes_app46 g g_ascii (length a)) by lia. rewrite (map_runes_ascii g g_ascii a A). reflexivity.
  - rewrite (map_runes_app46 g g_ascii (length a)) by lia. rewrite (map_runes_ascii g g_ascii b B). reflexivity.
  - apply (map_runes_app46 g g_ascii (length a)). lia.
Qed.

Lemma to_lower_nodot : forall a, contains 46 a = false -> contains 46 (to_lower o a) = false.
Proof.
  intros a H. apply nodot_Forall. apply nodot_Forall in H. unfold to_lower.
  destruct (forallb (fun c => c <? 128) a).
  - apply Forall_map. eapply Forall_impl; [|exact H]. intros c Hc. apply ascii_lower_46. exact Hc.
  - apply (map_runes_nodot g g_ascii g_hi). assumption.
Qed.

End ToLower.

(* ------------------------------------------------------------------ C09 with the rune-level premise *)
Section Final.
Variable o : toracles.
Variable Hip_rt : forall a, wf_bytes a -> length a = 16%nat -> o_parse_ip o (o_print_ip o a) = Some a.
Variable Hip_nil : o_parse_ip o [] = None.
Variable Hip_nosep : forall a, contains 44 (o_print_ip o a) = false.
Variable Hlower_rune : forall r, 128 <= r -> o_lower_rune o r <> 46.

Theorem roundtrip_final : forall serial v2 nornet l r,
  wf_line o serial l -> parse_line o serial l = Ok r -> finding_class o serial r = false ->
  exists r', parse_line o serial (marshal o r) = Ok r' /\
             convert o v2 nornet r' = convert o v2 nornet r /\
             marshal o r' = marshal o r.
Proof.
  intros serial. apply (roundtrip_outside_finding o serial Hip_rt Hip_nil Hip_nosep (to_lower_dot o Hlower_rune) (to_lower_nodot o Hlower_rune)).
Qed.

Theorem preproc_final : forall v2 serial pserial rearrange,
  serial <= max32 ->
  pserial = serial \/ pserial = 0 ->
  rearrange [] = [] ->
  (forall ns r, In r (rearrange ns) ->
     (exists lmap ip ml null locid, r = RRangePoint lmap ip ml null locid) /\ wf_recordb o r = true) ->
  forall f, wf_file o serial f ->
  exists body nets kvs,
    pre_go o pserial f = Ok (body, nets) /\
    preprocess o rearrange pserial f = Ok (body ++ map (marshal o) (rearrange nets)) /\
    compile o rearrange v2 serial f = Ok kvs /\
    forall pts, Permutation pts (rearrange nets) ->
      exists kvs', compile o rearrange v2 serial (body ++ map (marshal o) pts) = Ok kvs' /\
                   Permutation kvs' kvs.
Proof.
  intros v2 serial pserial rearrange.
  apply (preproc_same_db o v2 serial pserial rearrange Hip_rt Hip_nil Hip_nosep (to_lower_dot o Hlower_rune) (to_lower_nodot o Hlower_rune)).
Qed.

End Final.
