(* Proofs/CdbRead: on the serialised image of a written database the byte-level reads
   (read_nums, slice) return the header entries, slots and records of the structured
   image. *)
From DnsV Require Import Base.Bytes Spec.Cdb Model.Cdb Proofs.CdbTable Proofs.CdbFind Proofs.Cdb Proofs.CdbBytes.
From Coq Require Import Lia ZifyN ZifyNat ZifyBool.
Open Scope N_scope.

Definition slot32 (s : slot) : Prop := fst s < 4294967296 /\ snd s < 4294967296.

Lemma set_nth_Forall {A} (P : A -> Prop) : forall n x l, Forall P l -> P x -> Forall P (set_nth n x l).
Proof.
  induction n; destruct l; simpl; intros; auto; inversion H; subst; constructor; auto.
Qed.

Lemma fill_Forall (P : slot -> Prop) : forall es t n t',
  Forall P t -> Forall P es -> fill t n es = Some t' -> Forall P t'.
Proof.
  induction es; simpl; intros t n t' Ht Hes Hf. inversion Hf; subst; auto.
  inversion Hes; subst.
  destruct (probe t ((fst a / 256) mod n) (length t)); try discriminate.
  apply IHes in Hf; auto. apply set_nth_Forall; auto.
Qed.

Lemma build_table_Forall (P : slot -> Prop) : forall es t,
  P empty_slot -> Forall P es -> build_table es = Some t -> Forall P t.
Proof.
  intros es t Pe Hes Hb. unfold build_table in Hb.
  apply (fill_Forall P) in Hb; auto.
  apply Forall_forall. intros x Hx. apply repeat_spec in Hx. subst. auto.
Qed.

Lemma build_tables_Forall (P : slot -> Prop) : forall ents ids pos tabs,
  P empty_slot -> Forall P ents -> build_tables ents ids pos = Ok tabs ->
  Forall (fun x => Forall P (snd x)) tabs.
Proof.
  induction ids; cbn [build_tables]; intros pos tabs Pe He Hb.
  - inversion Hb. constructor.
  - destruct (filter (in_table a) ents) as [|e0 es0] eqn:Ef.
    + destruct (build_tables ents ids pos) eqn:Eb; cbn [rbind] in Hb; inversion Hb; subst.
      constructor. simpl. constructor. eapply IHids; eauto.
    + rewrite <- Ef in *.
      destruct (build_table (filter (in_table a) ents)) as [t1|] eqn:Et; try discriminate.
      destruct (build_tables ents ids (w32 (pos + 8 * nlen t1))) eqn:Eb; cbn [rbind] in Hb; inversion Hb; subst.
      constructor.
      * simpl. apply (build_table_Forall P _ _ Pe) in Et; auto.
        apply Forall_forall. intros x Hx. apply filter_In in Hx. rewrite Forall_forall in He. apply He. tauto.
      * eapply IHids; eauto.
Qed.

Lemma rec_at_some_in : forall recs pos p, rec_at recs pos = Some p -> In (pos, p) recs.
Proof.
  induction recs as [|[q x] recs]; simpl; intros. discriminate.
  destruct (N.eqb_spec q pos). inversion H; subst. auto. right. auto.
Qed.

Lemma ser_header_app : forall l1 l2, ser_header (l1 ++ l2) = ser_header l1 ++ ser_header l2.
Proof. intros. unfold ser_header. rewrite map_app, concat_app. auto. Qed.

Section Read.
Variable H : bytes -> N.
Variable kvs : list (bytes * bytes).
Variable img : image.
Hypothesis Hrange : forall k, H k < 4294967296.
Hypothesis Hf : fits32 kvs.
Hypothesis Hw : write H kvs = Ok img.

Let data := serialize img.
Let dl := nlen data.

Lemma Lay : Layout kvs img.
Proof. apply (write_layout H); auto. Qed.

Lemma dl_eq : dl = file_size kvs.
Proof. apply (lay_size kvs img Lay). Qed.

Lemma dl_32 : nlen data < 4294967296.
Proof. fold dl. rewrite dl_eq. exact Hf. Qed.

Lemma tabs_slot32 : Forall (fun x => Forall slot32 (snd x)) (itabs img).
Proof.
  pose proof Hw as Hw'. rewrite write_unfold in Hw'.
  destruct (build_tables (map (entry_of H) (recs_from header_size kvs)) table_ids (end_from header_size kvs)) as [tabs|] eqn:Eb;
    simpl in Hw'; inversion Hw'; subst img; clear Hw'. simpl.
  apply (build_tables_Forall slot32) in Eb; auto.
  - unfold slot32, empty_slot. simpl. lia.
  - apply Forall_forall. intros e He. apply in_map_iff in He. destruct He as [r [<- Hr]].
    destruct (fits32_data kvs Hf) as [Hd _].
    apply (recs_lower kvs header_size r Hd) in Hr. destruct Hr as [_ Hr].
    unfold slot32, entry_of. cbn [fst snd]. split; auto.
Qed.

(* positions and sizes of the tables *)
Lemma tab_bounds : forall l1 x l2, itabs img = l1 ++ x :: l2 ->
  fst x = header_size + data_size kvs + lsum tsize l1 /\
  fst x + 8 * nlen (snd x) <= file_size kvs.
Proof.
  intros l1 x l2 E.
  pose proof (lay_chain kvs img Lay) as Hc. pose proof (lay_slots kvs img Lay) as Hs.
  rewrite E in Hc, Hs. apply chain_split in Hc.
  rewrite lsum_app, lsum_cons in Hs. unfold tsize at 2 in Hs.
  split; auto. unfold file_size, header_size in *. lia.
Qed.

Lemma read_header : forall i, (i < 256)%nat ->
  read_nums data dl (8 * N.of_nat i) =
  Some (fst (nth i (itabs img) (0, [])), nlen (snd (nth i (itabs img) (0, [])))).
Proof.
  intros i Hi.
  pose proof (lay_ntabs kvs img Lay) as Hn.
  destruct (nth_split (itabs img) (0, []) (n := i) ltac:(lia)) as [l1 [l2 [E Hl]]].
  set (x := nth i (itabs img) (0, [])) in *.
  destruct (tab_bounds l1 x l2 E) as [Hp Hb].
  unfold dl. apply (read_nums_at (ser_header l1) _ _
     (ser_header l2 ++ concat (map ser_rec (irecs img)) ++ concat (map ser_table (itabs img)))).
  - unfold data, serialize. rewrite E at 1. rewrite ser_header_app.
    unfold ser_header at 2. cbn [map concat]. fold (ser_header l2).
    rewrite <- !app_assoc. reflexivity.
  - rewrite ser_header_len. unfold nlen. lia.
  - unfold fits32 in Hf. lia.
  - unfold fits32 in Hf. lia.
  - apply dl_32.
Qed.

Lemma read_slot : forall i j, (i < 256)%nat ->
  let x := nth i (itabs img) (0, []) in
  (j < length (snd x))%nat ->
  read_nums data dl (fst x + 8 * N.of_nat j) = Some (nth j (snd x) empty_slot).
Proof.
  intros i j Hi x Hj.
  pose proof (lay_ntabs kvs img Lay) as Hn.
  destruct (nth_split (itabs img) (0, []) (n := i) ltac:(lia)) as [l1 [l2 [E Hl]]].
  fold x in E.
  destruct (tab_bounds l1 x l2 E) as [Hp Hb].
  destruct (nth_split (snd x) empty_slot Hj) as [s1 [s2 [Es Hs]]].
  set (s := nth j (snd x) empty_slot) in *.
  assert (H32 : slot32 s).
  { pose proof tabs_slot32 as Ht. rewrite Forall_forall in Ht.
    assert (In x (itabs img)) by (rewrite E; apply in_or_app; right; simpl; auto).
    specialize (Ht x H0). rewrite Forall_forall in Ht. apply Ht. rewrite Es. apply in_or_app. right. simpl. auto. }
  destruct s as [sh sp] eqn:Eslot. destruct H32 as [H32a H32b]. simpl in H32a, H32b.
  unfold dl.
  apply (read_nums_at
     (ser_header (itabs img) ++ concat (map ser_rec (irecs img)) ++ concat (map ser_table l1) ++ concat (map ser_slot s1))
     sh sp
     (concat (map ser_slot s2) ++ concat (map ser_table l2))); auto.
  - unfold data, serialize. rewrite E at 2. rewrite map_app, concat_app. cbn [map concat].
    unfold ser_table at 2. rewrite Es. rewrite map_app, concat_app. cbn [map concat].
    unfold ser_slot at 2. cbn [fst snd].
    rewrite <- !app_assoc. reflexivity.
  - rewrite !nlen_app. rewrite ser_header_len. rewrite !nlen_concat_map.
    rewrite (lay_recs kvs img Lay). rewrite recs_total.
    rewrite (lsum_ext (fun x0 => nlen (ser_table x0)) tsize) by (intros; apply ser_table_len).
    rewrite (lsum_ext (fun x0 => nlen (ser_slot x0)) (fun _ => 8)) by auto.
    rewrite lsum_const. rewrite Hp. unfold nlen. rewrite Hn, Hs. unfold header_size. lia.
  - apply dl_32.
Qed.

Lemma rec_bounds : forall l1 r l2, irecs img = l1 ++ r :: l2 ->
  fst r = header_size + lsum (fun x => nlen (ser_rec x)) l1 /\
  fst r + rec_size (snd r) <= header_size + data_size kvs.
Proof.
  intros l1 r l2 E. rewrite (lay_recs kvs img Lay) in E.
  destruct (fits32_data kvs Hf) as [Hd _].
  apply (recs_split_pos kvs header_size l1 r l2 Hd E).
Qed.

Lemma read_rec : forall pos k v, In (pos, (k, v)) (irecs img) ->
  nlen k < 4294967296 /\ nlen v < 4294967296 /\
  read_nums data dl pos = Some (nlen k, nlen v) /\
  slice data dl (pos + 8) (nlen k) = Some k /\
  slice data dl (pos + 8 + nlen k) (nlen v) = Some v.
Proof.
  intros pos k v Hin.
  destruct (in_split _ _ Hin) as [l1 [l2 E]].
  destruct (rec_bounds l1 _ l2 E) as [Hp Hb]. cbn [fst snd] in Hp, Hb. unfold rec_size in Hb. cbn [fst snd] in Hb.
  destruct (fits32_data kvs Hf) as [Hd _]. unfold header_size in *.
  assert (Hk : nlen k < 4294967296) by lia.
  assert (Hv : nlen v < 4294967296) by lia.
  assert (Ed : data = (ser_header (itabs img) ++ concat (map ser_rec l1)) ++
                      u32le (nlen k) ++ u32le (nlen v) ++ k ++ v ++
                      (concat (map ser_rec l2) ++ concat (map ser_table (itabs img)))).
  { unfold data, serialize. rewrite E. rewrite map_app, concat_app. cbn [map concat].
    unfold ser_rec at 2. cbn [fst snd]. rewrite !blen_small by auto.
    rewrite <- !app_assoc. reflexivity. }
  assert (Ea : nlen (ser_header (itabs img) ++ concat (map ser_rec l1)) = pos).
  { rewrite nlen_app, ser_header_len, nlen_concat_map. unfold nlen at 1.
    rewrite (lay_ntabs kvs img Lay). lia. }
  split; auto. split; auto. split; [|split].
  - unfold dl. eapply read_nums_at; eauto. apply dl_32.
  - unfold dl.
    apply (slice_at ((ser_header (itabs img) ++ concat (map ser_rec l1)) ++ u32le (nlen k) ++ u32le (nlen v))
                    k (v ++ concat (map ser_rec l2) ++ concat (map ser_table (itabs img)))).
    + rewrite Ed. rewrite <- !app_assoc. reflexivity.
    + rewrite !nlen_app. rewrite <- nlen_app. rewrite Ea.
      change (nlen (u32le (nlen k))) with 4. change (nlen (u32le (nlen v))) with 4. lia.
    + apply dl_32.
  - unfold dl.
    apply (slice_at ((ser_header (itabs img) ++ concat (map ser_rec l1)) ++ u32le (nlen k) ++ u32le (nlen v) ++ k)
                    v (concat (map ser_rec l2) ++ concat (map ser_table (itabs img)))).
    + rewrite Ed. rewrite <- !app_assoc. reflexivity.
    + rewrite !nlen_app. rewrite <- nlen_app. rewrite Ea.
      change (nlen (u32le (nlen k))) with 4. change (nlen (u32le (nlen v))) with 4. lia.
    + apply dl_32.
Qed.

End Read.
