From DnsV Require Import Base.Bytes Model.Reload Proofs.Reload.
From Coq Require Import Lia ZifyN ZifyNat ZifyBool.
Open Scope N_scope.
Section P.
Variable refusedf weightedf : N -> N -> bool.
Variable cfg : config.
Notation step := (step refusedf weightedf cfg).

Record Idx (st : state) : Prop := {
  I_served : (st_served st < length (st_backs st))%nat;
  I_q : forall j q, qat st j q -> pinned (q_pc q) = true -> (q_pin q < length (st_backs st))%nat;
  I_r : forall i r, rat st i r -> has_cand (r_pc r) = true -> (r_cand r < length (st_backs st))%nat
}.

Lemma Idx_step st t st' : Idx st -> step st t = Some st' -> Idx st'.
Proof.
  intros [HS HQ HR] H. inv_step H.
  all: constructor; unfold qat, rat, qread, qset_pc, rset_pc, catch_up, set_backs in *; cbn in *;
       rewrite ?length_upd, ?app_length; cbn.
  all: try lia.
  all: try (intros ? ? HN; split_upd; cbn; inst_q HQ; inst_r HR; pcs; cbn in *; triv_prem; intros; auto; try discriminate; try lia).
  all: try (inst_r HR; pcs; cbn in *; triv_prem; lia).
Qed.
(* ghost clocks lie in the past *)
Record Clk (st : state) : Prop := {
  K_q : forall j q, qat st j q ->
        (q_pc q <> QStart -> q_acq_at q < st_clock st) /\ (q_pc q = QDone -> q_done_at q < st_clock st);
  K_r : forall i r, rat st i r -> forall k, r_pc r = RDone k -> r_unlock_at r < st_clock st
}.

Lemma Clk_step st t st' : Clk st -> step st t = Some st' -> Clk st'.
Proof.
  intros [HQ HR] H. inv_step H.
  all: constructor; unfold qat, rat, qread, qset_pc, rset_pc, catch_up, set_backs in *; cbn in *.
  all: intros ? ? HN; split_upd; cbn; inst_q HQ; inst_r HR; dest_and; pcs; cbn in *; triv_prem;
       repeat split; intros; try discriminate; fwd; try lia.
Qed.

(* epochs handed out so far are bounded by the install counter *)
Record Epo (st : state) : Prop := {
  E_b : forall b, epoch_of st b <= st_epoch st;
  E_p : st_purged st <= st_epoch st;
  E_q : forall j q, qat st j q -> forall g, In g (q_reads q) -> g_epoch g <= st_epoch st;
  E_r : forall i r, rat st i r -> r_epoch r <= st_epoch st
}.

Lemma Epo_step st t st' : Epo st -> step st t = Some st' -> Epo st'.
Proof.
  intros [HE HP HQ HR] H. inv_step H.
  all: constructor; unfold epoch_of, content, back, qat, rat, qread, qset_pc, rset_pc, catch_up, set_backs in *; cbn in *.
  all: try (intros b; try backs_cases b; cbn; specialize (HE b); lia).
  all: try lia.
  all: intros ? ? HN; split_upd; cbn; intros; split_in; subst; cbn;
       repeat match goal with
       | Hq : nth_error (st_qs _) _ = Some _, Hi : In _ (q_reads _) |- _ => pose proof (HQ _ _ Hq _ Hi); revert Hi
       | Hr : nth_error (st_rs _) _ = Some _ |- _ => pose proof (HR _ _ Hr); revert Hr
       end; intros;
       try match goal with |- context [nth ?b _ _] => pose proof (HE b) end; try lia.
Qed.
End P.
