(* C01 for the v1 reader over the compiled store: an authoritative reply with an empty answer
   section carries exactly one SOA record of the zone in its authority section. *)
From DnsV Require Import Base.Bytes Model.Store Model.LookupV1 Model.LookupV2 Model.Serve Spec.Answer Spec.Rows.
From DnsV Require Import Proofs.Answer Proofs.Compile Proofs.Shape Proofs.ZoneCut Proofs.Refused Proofs.NxDomain.
From Coq Require Import ZifyN ZifyNat ZifyBool.
Open Scope N_scope.

Definition is_soa (r : record) : bool := negb (r_wild r) && (r_type r =? 6).
Definition soa_item (zname : bytes) (r : record) : item := IRR (mkRR zname 6 1 (r_ttl r) (r_rdata r)).

(* FindSOA's callback over the rows of declared records: keeps the first SOA only *)
Lemma iter_soa_rows : forall zname rs soa acc, Forall wf_rec rs ->
  iter_rows (soa_cb zname) (map row_of rs) (soa, acc) =
    ((soa || is_some (List.find is_soa rs),
      if soa then acc else acc ++ match List.find is_soa rs with Some r => [soa_item zname r] | None => [] end), Cont).
Proof.
  induction rs as [|r t IH]; intros soa acc Wf; cbn [map iter_rows List.find].
  - cbn [is_some]. rewrite orb_false_r, app_nil_r. destruct soa; reflexivity.
  - inversion Wf as [|? ? Wr Wt]; subst. unfold soa_cb at 1.
    destruct (extract_row_of r false Wr) as [E1 E2]. rewrite E1. unfold is_soa at 1 3.
    destruct (r_wild r); cbn [Bool.eqb negb andb].
    + rewrite IH by exact Wt. reflexivity.
    + unfold head_of at 1; cbn [h_type]. destruct soa; cbn [negb andb].
      * rewrite IH by exact Wt. cbn [orb]. reflexivity.
      * destruct (r_type r =? 6) eqn:E6.
        -- rewrite E2. unfold head_of; cbn [h_ttl]. rewrite IH by exact Wt. cbn [orb is_some]. reflexivity.
        -- rewrite IH by exact Wt. cbn [orb]. reflexivity.
Qed.

Section V1.
Variable b : backend.
Variable recs : list record.
Variable L : bytes.
Hypothesis W : wf_recs recs.
Hypothesis HL : length L = 2%nat.
Let st := store_v1 recs.

Lemma scan_soa_key : forall key zname soa acc,
  for_each_v1 b st key (soa_cb zname) (soa, acc) =
    ((soa || is_some (List.find is_soa (filter (fun r => bytes_eqb (key_v1 r) key) recs)),
      if soa then acc
      else acc ++ match List.find is_soa (filter (fun r => bytes_eqb (key_v1 r) key) recs) with
                  | Some r => [soa_item zname r] | None => [] end), false).
Proof.
  intros. unfold for_each_v1, st, store_v1. rewrite get_store_of, rows_for_v1, iter_soa_rows; [reflexivity|].
  apply Forall_filter. exact W.
Qed.

Lemma find_in_own : forall z key r, wf_name z -> (key = L ++ pack z \/ key = loc0 ++ pack z) ->
  List.find is_soa (filter (fun r => bytes_eqb (key_v1 r) key) recs) = Some r ->
  In r (of_type 6 (own_records L recs z)).
Proof.
  intros z key r Hz Hk H. apply find_some in H as [Hin Hs]. apply filter_In in Hin as [Hin Hkey].
  unfold is_soa in Hs. apply andb_prop in Hs as [Hw Ht].
  unfold of_type, own_records. apply filter_In. split; [|exact Ht]. apply filter_In. split; [exact Hin|].
  pose proof (probed_iff recs L W HL r z Hin Hz) as P.
  assert (E : bytes_eqb (key_v1 r) (L ++ pack z) || bytes_eqb (key_v1 r) (loc0 ++ pack z) = true).
  { destruct Hk as [-> | ->]; rewrite Hkey; [reflexivity | apply orb_true_r]. }
  rewrite E in P. symmetry in P. apply andb_prop in P as [P1 P2]. rewrite P1, Hw, P2. reflexivity.
Qed.

(* FindSOA over the compiled store *)
Lemma find_soa_v1 : forall z, wf_name z -> authoritative L recs z = true ->
  exists r, In r (of_type 6 (own_records L recs z)) /\
    for_each_rr_v1 b st (pack z) L (soa_cb (pack z)) (false, []) = ((true, [soa_item (pack z) r]), false).
Proof.
  intros z Hz Ha. unfold for_each_rr_v1.
  (* some visible SOA exists under one of the two keys *)
  assert (Ex : is_some (List.find is_soa (filter (fun r => bytes_eqb (key_v1 r) (L ++ pack z)) recs)) ||
               is_some (List.find is_soa (filter (fun r => bytes_eqb (key_v1 r) (loc0 ++ pack z)) recs)) = true).
  { unfold authoritative, of_type in Ha. rewrite nonempty_filter in Ha. apply existsb_exists in Ha as [r [Hin Ht]].
    unfold own_records in Hin. apply filter_In in Hin as [Hin Hc].
    apply andb_prop in Hc as [Hc Hname]. apply andb_prop in Hc as [Hv Hw].
    pose proof (probed_iff recs L W HL r z Hin Hz) as P. rewrite Hv, Hname in P. cbn in P.
    apply orb_prop in P as [P|P]; [apply orb_true_intro; left | apply orb_true_intro; right];
      match goal with |- is_some (List.find is_soa ?l) = true =>
        destruct (List.find is_soa l) eqn:F; [reflexivity|];
        assert (X : is_soa r = false) by (apply (find_none _ _ F r); apply filter_In; split; assumption);
        unfold is_soa in X; rewrite Hw, Ht in X; discriminate
      end. }
  destruct (is_loc0 L) eqn:EL.
  - apply bytes_eqb_eq in EL. rewrite EL, Bool.orb_diag in Ex. rewrite scan_soa_key. cbn [orb app].
    destruct (List.find is_soa (filter (fun r => bytes_eqb (key_v1 r) (loc0 ++ pack z)) recs)) as [r|] eqn:F; [|discriminate].
    exists r. split; [exact (find_in_own z (loc0 ++ pack z) r Hz (or_intror eq_refl) F) | reflexivity].
  - rewrite scan_soa_key. cbn [orb app].
    destruct (List.find is_soa (filter (fun r => bytes_eqb (key_v1 r) (L ++ pack z)) recs)) as [r|] eqn:F.
    + cbn [is_some]. rewrite scan_soa_key. cbn [orb].
      exists r. split; [exact (find_in_own z (L ++ pack z) r Hz (or_introl eq_refl) F) | reflexivity].
    + cbn [is_some orb] in *. rewrite scan_soa_key. cbn [orb app].
      destruct (List.find is_soa (filter (fun r => bytes_eqb (key_v1 r) (loc0 ++ pack z)) recs)) as [r|] eqn:F2; [|discriminate].
      exists r. split; [exact (find_in_own z (loc0 ++ pack z) r Hz (or_intror eq_refl) F2) | reflexivity].
Qed.
End V1.

Lemma item_count_zero : forall l, item_count l = 0 -> (forall i, In i l -> match i with IRR _ => False | IPick _ _ _ _ n => n = 0 end).
Proof.
  induction l as [|i t IH]; intros H x Hin; [contradiction|]. cbn [item_count fold_right] in H.
  destruct Hin as [->|Hin].
  - destruct x; [lia | lia].
  - apply IH; [|exact Hin]. destruct i; unfold item_count in *; lia.
Qed.

Section SOA.
Variable b : backend.
Variable recs : list record.
Variable L : bytes.
Hypothesis W : wf_recs recs.
Hypothesis HL : length L = 2%nat.
Hypothesis Hb : b <> RDB2.
Hypothesis V : wf_view L recs = true.

(* additional-section processing of records that name no target changes nothing *)
Lemma additional_no_targets : forall C (rd : reader C) recsl loc qc m c,
  (forall i, In i recsl -> target_of i = None) -> additional C rd recsl loc qc m c = Val (m, c).
Proof.
  induction recsl as [|i t IH]; intros loc qc m c H; cbn [additional]; [reflexivity|].
  rewrite (H i (or_introl eq_refl)). apply IH. intros j Hj. apply H. right. exact Hj.
Qed.

Lemma additional_keeps : forall C (rd : reader C) recsl loc qc m c m' c',
  additional C rd recsl loc qc m c = Val (m', c') -> m_an m' = m_an m /\ m_ns m' = m_ns m.
Proof.
  induction recsl as [|i t IH]; intros loc qc m c m' c' Hx; cbn [additional] in Hx; [inversion Hx; split; reflexivity|].
  destruct (target_of i) as [name|]; [|eapply IH; eauto].
  destruct (negb (has_record m name 1) || negb (has_record m name 28)); [|eapply IH; eauto].
  destruct (rd_rr C rd wrs c (lower_bytes name) loc (add_cb (negb (has_record m name 1)) (negb (has_record m name 28))) wrs_empty)
    as [[[w e] c1]| |]; cbn [bind] in Hx; try discriminate.
  apply IH in Hx. exact Hx.
Qed.

Theorem empty_auth_has_soa_v1 : forall q n z ecs max x,
  wf_name n -> nlen (pack n) <= 255 -> lower_bytes (q_name q) = pack n ->
  (q_edns q = None \/ q_edns q = Some 0) ->
  zone_cut L recs n = Some z -> authoritative L recs z = true ->
  serve b (store_v1 recs) q (LocOk L) ecs max = OReply x ->
  rs_aa x = true /\
  (item_count (rs_an x) = 0 ->
   exists r, In r (of_type 6 (own_records L recs z)) /\ rs_ns x = [soa_item (pack z) r]).
Proof.
  intros q n z ecs max x Hn Hlen Hq Hv Hz Ha H.
  destruct (ancestor_wf z n (proj1 (zone_cut_sound L recs n z Hz)) Hn) as [Hzw Hzl].
  assert (SV : serve b (store_v1 recs) q (LocOk L) ecs max =
              lift (rd_auth unit (reader_v1 b (store_v1 recs)) tt (pack n) L)
                (fun x => let '(ar, c1) := x in
                   if a_err ar then servfail q
                   else if negb (a_ns ar) && negb (a_auth ar) then refused_reply q ecs
                   else lift (serve_ds unit (reader_v1 b (store_v1 recs)) q L (pack n) ar c1)
                          (fun r => match r with
                                    | Some (ar', c2) => serve_answer unit (reader_v1 b (store_v1 recs)) q ecs L max (pack n) ar' c2
                                    | None => servfail q
                                    end))).
  { destruct b; [| |contradiction]; unfold serve, serve_with; rewrite Hq; destruct Hv as [E|E]; rewrite E; reflexivity. }
  rewrite SV in H. clear SV. unfold reader_v1 at 1 in H. cbn [rd_auth] in H. unfold is_authoritative_v1 in H.
  rewrite (is_auth_walk b recs L W HL n (S (length (pack n))) Hn V (Nat.lt_succ_diag_r _)), Hz, Ha in H.
  cbn [bind lift a_err a_ns a_auth negb andb] in H.
  unfold serve_ds in H. cbn [a_auth negb andb lift] in H.
  unfold serve_answer in H. cbn [a_auth a_zc] in H.
  apply lift_reply in H as [[[an rcode] c3] [_ H]].
  unfold serve_sections in H. rewrite (parse_name_pack z Hzw) in H by lia.
  cbn [andb] in H.
  destruct (item_count an =? 0) eqn:EC.
  - (* empty answer: FindSOA *)
    unfold reader_v1 at 1 in H. cbn [rd_rr] in H.
    destruct (find_soa_v1 b recs L W HL z Hzw Ha) as [r [Hr E]]. rewrite E in H. cbn [bind snd lift] in H.
    rewrite additional_no_targets in H.
    2:{ intros i Hi. cbn [m_an] in Hi. apply N.eqb_eq in EC. pose proof (item_count_zero an EC i Hi) as Z.
        destruct i; [contradiction | reflexivity]. }
    cbn [bind m_ns] in H. rewrite additional_no_targets in H.
    2:{ intros i [<-|[]]. reflexivity. }
    cbn [lift] in H. inversion H; subst x. cbn [rs_aa rs_an rs_ns m_an m_ns]. split; [reflexivity|].
    intros _. exists r. split; [exact Hr | reflexivity].
  - cbn [negb andb] in H.
    apply lift_reply in H as [[nsec c4] [E1 H]]. inversion E1; subst nsec c4.
    apply lift_reply in H as [[m2 c6] [E2 H]]. inversion H; subst x. cbn [rs_aa rs_an]. split; [reflexivity|].
    intros Z. exfalso.
    destruct (additional unit (reader_v1 b (store_v1 recs)) (m_an (mkMsg an [] [])) L (q_class q) (mkMsg an [] []) c3)
      as [[m1 c5]| |] eqn:E3; cbn [bind] in E2; try discriminate.
    apply additional_keeps in E3. apply additional_keeps in E2.
    destruct E3 as [E3 _], E2 as [E2 _]. rewrite E2, E3 in Z. cbn [m_an] in Z. rewrite Z in EC. discriminate.
Qed.
End SOA.
