(* Non-vacuity of the linked theorems of Proofs/LinkDiffText.v, LinkPreprocRearranger.v and
   LinkPreprocDiff.v: two small data files over the toy address syntax of Proofs/Text.o_toy (the
   oracle for which all library premises are proved), with subnet lines for two maps.
     A:  # c / %ab,,m1 / Zexample.com,a.ns.example.com,dns.example.com,,7200 / +www.example.com,<10.0.0.0>,300
     B:  %ab,,m1 / the Z line / %cd,,m2 / +www.example.com,<11.0.0.0>,300
   ("%lo,,map" is 0.0.0.0/0: the only network the toy library prints and reads back.)
   All guards hold; the preprocessed forms have 5 and 8 lines; the line diff (5 lines, shuffled: the
   address line replaced, three range points of map m2 added) applied to a builder compilation of
   preprocess A gives, key by key, what a batch compilation of the ORIGINAL B holds; malformed diff
   lines are rejected with the database unchanged. *)
From DnsV Require Import Base.Bytes Base.Ip Model.Rearranger.
From DnsV Require Import Model.Diff Spec.MapOfLists Proofs.MultiValue Proofs.MapOfLists Proofs.Batch Proofs.CompilePipe Proofs.Diff.
From DnsV Require Import Model.Text Model.Preproc.
From DnsV Require Import Proofs.Rearranger Proofs.LinkDiffText Proofs.LinkPreprocRearranger Proofs.LinkPreprocDiff.
From DnsV Require Proofs.Preproc Proofs.Location Proofs.Text.
From Coq Require Import Permutation Lia.
Open Scope N_scope.

Definition x_o : toracles := Proofs.Text.o_toy.
Definition x_ip1 : bytes := [266; 256; 256; 256].        (* toy text of 10.0.0.0 *)
Definition x_ip2 : bytes := [267; 256; 256; 256].        (* toy text of 11.0.0.0 *)
Definition x_comment : bytes := [35; 32; 99].
Definition x_net1 : bytes := [37; 97; 98; 44; 44; 109; 49].    (* %ab,,m1 *)
Definition x_net2 : bytes := [37; 99; 100; 44; 44; 109; 50].   (* %cd,,m2 *)
Definition x_soa : bytes :=
  [90;101;120;97;109;112;108;101;46;99;111;109;44;97;46;110;115;46;101;120;97;109;112;108;101;46;99;111;109;44;
   100;110;115;46;101;120;97;109;112;108;101;46;99;111;109;44;44;55;50;48;48].
Definition x_www : bytes := [43;119;119;119;46;101;120;97;109;112;108;101;46;99;111;109;44].
Definition x_a1 : bytes := x_www ++ x_ip1 ++ [44; 51; 48; 48].
Definition x_a2 : bytes := x_www ++ x_ip2 ++ [44; 51; 48; 48].
Definition x_A : list bytes := [x_comment; x_net1; x_soa; x_a1].
Definition x_B : list bytes := [x_net1; x_soa; x_net2; x_a2].

Definition x_R := rearrange_total isort.
Definition x_conv := convert_ln x_o true 7.
Definition x_acc := text_accum x_o true 7 x_R.
Definition x_feat := features true.
Definition unres {A} (r : result (list A)) : list A := match r with Ok x => x | Err _ => [] end.
Definition x_PA : list bytes := unres (preprocess x_o x_R 0 x_A).
Definition x_PB : list bytes := unres (preprocess x_o x_R 0 x_B).
(* the diff: - address 1, + second point of m2, + address 2, + third and first point of m2, a comment, an empty line *)
Definition x_d : list bytes :=
  [45 :: x_a1; 43 :: nth 6 x_PB []; [35; 120]; 43 :: x_a2; 43 :: nth 7 x_PB []; []; 43 :: nth 5 x_PB []].
Definition x_keys : list bytes :=
  map fst (records bytes x_conv x_acc x_feat (scan x_B)) ++ map fst (records bytes x_conv x_acc x_feat (scan x_A)).

Lemma perm_by_removal : forall D L : list bytes, remove_firsts D L = Some [] -> Permutation L D.
Proof. intros D L H. apply remove_firsts_some_perm in H. rewrite app_nil_r in H. exact H. Qed.

Ltac line_ok_tac :=
  right; split; [cbn; lia|]; split; [cbn; lia|]; do 2 eexists;
  split; [vm_compute; reflexivity|]; split; [vm_compute; reflexivity|]; split; [reflexivity|];
  split; [vm_compute; reflexivity|].

Lemma x_wf_A : Proofs.Preproc.wf_file x_o 7 x_A.
Proof.
  unfold Proofs.Preproc.wf_file, x_A. constructor; [|constructor; [|constructor; [|constructor; [|constructor]]]].
  - left. reflexivity.
  - line_ok_tac. split; [intros H; exfalso; apply H; reflexivity|]. intros H; discriminate H.
  - line_ok_tac. split; [reflexivity|]. intros _. vm_compute. reflexivity.
  - line_ok_tac. split; [reflexivity|]. intros H; discriminate H.
Qed.

Lemma x_wf_B : Proofs.Preproc.wf_file x_o 7 x_B.
Proof.
  unfold Proofs.Preproc.wf_file, x_B. constructor; [|constructor; [|constructor; [|constructor; [|constructor]]]].
  - line_ok_tac. split; [intros H; exfalso; apply H; reflexivity|]. intros H; discriminate H.
  - line_ok_tac. split; [reflexivity|]. intros _. vm_compute. reflexivity.
  - line_ok_tac. split; [intros H; exfalso; apply H; reflexivity|]. intros H; discriminate H.
  - line_ok_tac. split; [reflexivity|]. intros H; discriminate H.
Qed.

Lemma kvs_okb_ok : forall l, small_valuesb l = true -> kvs_ok l.
Proof.
  intros l H. unfold small_valuesb in H. rewrite forallb_forall in H. unfold kvs_ok. apply Forall_forall.
  intros p Hp. specialize (H p Hp). cbn beta in H. apply N.ltb_lt in H. exact H.
Qed.

Lemma link_example :
  (* the guards of the theorems *)
  sort_spec isort /\ sort_ok kv_isort /\
  Proofs.Preproc.wf_file x_o 7 x_A /\ Proofs.Preproc.wf_file x_o 7 x_B /\
  file_subnets_wfb x_o 7 x_A = true /\ file_subnets_wfb x_o 7 x_B = true /\
  kvs_ok (records bytes x_conv x_acc x_feat (scan x_A)) /\ kvs_ok (records bytes x_conv x_acc x_feat (scan x_B)) /\
  (* the preprocessed forms *)
  preprocess x_o x_R 0 x_A = Ok x_PA /\ preprocess x_o x_R 0 x_B = Ok x_PB /\
  length x_PA = 5%nat /\ length x_PB = 8%nat /\ length (file_nets x_o 7 x_B) = 2%nat /\
  pre_file x_o true 7 x_PA /\ pre_file x_o true 7 x_PB /\ forallb scanned_lineb x_PB = true /\
  is_line_diff x_PA x_PB (filter (fun l => match l with 43 :: _ | 45 :: _ => true | _ => false end) x_d) /\
  (* builder compilation of preprocess A, batch compilation of the original B, the diff in between *)
  exists dbA dbB db',
    compile_builder bytes x_conv kv_isort 1 2 (scan x_PA) (records bytes x_conv x_acc x_feat (scan x_PA)) = Ok dbA /\
    compile_batches bytes x_conv kv_isort (scan x_B) (rev (batches 3 (records bytes x_conv x_acc x_feat (scan x_B)))) = Ok dbB /\
    apply_diff x_conv kv_isort dbA x_d = Ok db' /\
    length x_keys = 15%nat /\
    map (vals db') x_keys = map (vals dbB) x_keys /\
    map (vals dbA) x_keys <> map (vals dbB) x_keys /\
    (* malformed diff lines: bad operator, unknown type, location that does not unquote, subnet without location *)
    apply_diff x_conv kv_isort dbA [43 :: x_a2; 42 :: x_a1] = Err E_BADOP /\
    apply_diff x_conv kv_isort dbA [43 :: x_a2; [45; 35; 120]] = Err E_CONV /\
    convert_error x_o [35; 120] = Some E_BADTYPE /\
    convert_error x_o [43; 97; 44; 44; 44; 44; 92] = Some E_QUOTE /\
    convert_error x_o [37; 44; 44; 109; 49] = Some E_LOC /\
    convert_error x_o [] = Some Model.Text.E_PANIC /\
    apply_diff x_conv kv_isort dbA [45 :: x_a2] = Err E_NXVAL.
Proof.
  split; [apply isort_spec|]. split; [apply sort_ok_isort|]. split; [apply x_wf_A|]. split; [apply x_wf_B|].
  split; [vm_compute; reflexivity|]. split; [vm_compute; reflexivity|].
  split; [apply kvs_okb_ok; vm_compute; reflexivity|]. split; [apply kvs_okb_ok; vm_compute; reflexivity|].
  split; [vm_compute; reflexivity|]. split; [vm_compute; reflexivity|].
  split; [vm_compute; reflexivity|]. split; [vm_compute; reflexivity|]. split; [vm_compute; reflexivity|].
  split; [vm_compute; reflexivity|]. split; [vm_compute; reflexivity|]. split; [vm_compute; reflexivity|].
  split.
  { exists [x_a1], [nth 6 x_PB []; x_a2; nth 7 x_PB []; nth 5 x_PB []],
           [nth 0 x_PB []; nth 2 x_PB []; nth 3 x_PB []; nth 4 x_PB []].
    split; [apply perm_by_removal; vm_compute; reflexivity|].
    split; [apply perm_by_removal; vm_compute; reflexivity|]. apply perm_by_removal. vm_compute. reflexivity. }
  eexists. eexists. eexists.
  split; [vm_compute; reflexivity|]. split; [vm_compute; reflexivity|]. split; [vm_compute; reflexivity|].
  split; [vm_compute; reflexivity|]. split; [vm_compute; reflexivity|].
  split; [vm_compute; intro H; discriminate H|].
  repeat split; vm_compute; reflexivity.
Qed.

(* the hypotheses of preprocessed_diff_end_to_end hold for x_A, x_B, and its conclusion applies to the
   concrete databases above: the instance, with the library premises discharged for o_toy *)
Lemma link_example_instance :
  exists bodyA pointsA bodyB pointsB,
    preprocess x_o x_R 0 x_A = Ok (bodyA ++ map (marshal x_o) pointsA) /\
    preprocess x_o x_R 0 x_B = Ok (bodyB ++ map (marshal x_o) pointsB) /\
    forall pa pb, Permutation pa pointsA -> Permutation pb pointsB ->
      let PA := bodyA ++ map (marshal x_o) pa in
      let PB := bodyB ++ map (marshal x_o) pb in
      scan PA = PA /\ scan PB = PB /\
      (forall dbA, rdb_compilation bytes x_conv x_acc x_feat (scan PA) dbA -> compiled x_conv x_feat PA dbA) /\
      forall d dbA, is_line_diff PA PB d -> compiled x_conv x_feat PA dbA ->
        exists db', apply_diff x_conv kv_isort dbA d = Ok db' /\ compiled x_conv x_feat PB db' /\
          forall dbB, rdb_compilation bytes x_conv x_acc x_feat (scan x_B) dbB -> forall k, Permutation (vals db' k) (vals dbB k).
Proof.
  destruct Proofs.Text.library_premises_satisfiable as (L1 & L2 & L3 & _).
  destruct link_example as (S1 & S2 & WA & WB & NA & NB & KA & KB & _).
  apply (preprocessed_diff_end_to_end x_o L1 L2 L3 isort S1 true 7 0); try assumption.
  - vm_compute. intro H; discriminate H.
  - right. reflexivity.
Qed.
