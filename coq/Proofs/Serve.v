(* Proofs about Model/Serve. *)
From DnsV Require Import Base.Bytes Model.Store Model.LookupV1 Model.LookupV2 Model.Serve.
Open Scope N_scope.

Definition badvers_reply (q : query) : outcome :=
  OReply (mkResp (q_id q) None 16 false [] [] [] (Some None)).

(* an EDNS version other than 0 gets BADVERS (16) whatever the database, client and backend *)
Lemma serve_badvers : forall b st q locr ecs max v,
  q_edns q = Some v -> v <> 0 -> serve b st q locr ecs max = badvers_reply q.
Proof.
  intros b st q locr ecs max v Hq Hv. destruct v as [|p]; [contradiction|].
  unfold serve, badvers_reply; destruct b; unfold serve_with; rewrite Hq; reflexivity.
Qed.
