(* C01 for the v1 reader over the compiled store: the answer search (DataReader.FindAnswer) finds
   a record exactly when the queried name has visible records of its own or a covering wildcard
   (Spec.Answer.source_records), hence NXDOMAIN exactly when neither exists. *)
From DnsV Require Import Base.Bytes Model.Store Model.LookupV1 Model.LookupV2 Model.Serve Spec.Answer Spec.Rows.
From DnsV Require Import Proofs.Answer Proofs.Compile Proofs.Shape Proofs.ZoneCut Proofs.Refused.
From Coq Require Import ZifyN ZifyNat ZifyBool.
Open Scope N_scope.

(* the callback of FindAnswer over the rows of declared records: never stops, and records
   "found" exactly when a row of the wanted kind (wildcard or not) is seen *)
Lemma iter_fa_rows : forall qname qtype wild rs s, Forall wf_rec rs ->
  exists s', iter_rows (fa_cb qname qtype wild) (map row_of rs) s = (s', Cont) /\
             snd s' = snd s || existsb (fun r => Bool.eqb wild (r_wild r)) rs /\
             (snd s' = false -> s' = s).
Proof.
  induction rs as [|r t IH]; intros s Wf; cbn [map iter_rows existsb].
  - exists s. rewrite orb_false_r. repeat split; reflexivity.
  - inversion Wf as [|? ? Wr Wt]; subst. destruct s as [[w an] found]. unfold fa_cb at 1.
    destruct (extract_row_of r wild Wr) as [E1 E2]. rewrite E1.
    destruct (Bool.eqb wild (r_wild r)) eqn:EW.
    + unfold wrs_add. rewrite E2. cbn [bind].
      destruct ((h_type (head_of r) =? 5) || (h_type (head_of r) =? qtype) || (qtype =? 255));
        [destruct ((h_type (head_of r) =? 1) || (h_type (head_of r) =? 28));
           [destruct (h_type (head_of r) =? 1); [|destruct (h_type (head_of r) =? 28)]|]|];
        cbv beta iota zeta;
        match goal with |- exists s', iter_rows _ _ ?s0 = _ /\ _ =>
          destruct (IH s0 Wt) as [s' [I1 [I2 I3]]]; exists s'; split;
          [exact I1 | split; [rewrite I2; cbn [snd]; rewrite ?orb_true_r; reflexivity
                             | intros X; rewrite I2 in X; cbn [snd orb] in X; discriminate]] end.
    + destruct (IH (w, an, found) Wt) as [s' [I1 [I2 I3]]]. exists s'. split; [exact I1|].
      split; [rewrite I2; cbn [snd orb]; reflexivity | exact I3].
Qed.

Section V1.
Variable b : backend.
Variable recs : list record.
Variable L : bytes.
Hypothesis W : wf_recs recs.
Hypothesis HL : length L = 2%nat.
Let st := store_v1 recs.

(* visible records of name m of the wanted kind *)
Definition kind_at (wild : bool) (m : name) : bool :=
  existsb (fun r => (visible L r && name_eqb (r_owner r) m) && Bool.eqb wild (r_wild r)) recs.

Lemma kind_own : forall m, kind_at false m = nonempty (own_records L recs m).
Proof.
  intros. unfold kind_at, own_records. rewrite nonempty_filter. apply existsb_ext_in. intros r _.
  destruct (visible L r), (r_wild r), (name_eqb (r_owner r) m); reflexivity.
Qed.
Lemma kind_wild : forall m, kind_at true m = nonempty (wild_records L recs m).
Proof.
  intros. unfold kind_at, wild_records. rewrite nonempty_filter. apply existsb_ext_in. intros r _.
  destruct (visible L r), (r_wild r), (name_eqb (r_owner r) m); reflexivity.
Qed.

Lemma scan_fa_key : forall key qname qtype wild s,
  exists s', for_each_v1 b st key (fa_cb qname qtype wild) s = (s', false) /\
             snd s' = snd s || existsb (fun r => bytes_eqb (key_v1 r) key && Bool.eqb wild (r_wild r)) recs /\
             (snd s' = false -> s' = s).
Proof.
  intros. unfold for_each_v1, st, store_v1. rewrite get_store_of, rows_for_v1.
  destruct (iter_fa_rows qname qtype wild (filter (fun r => bytes_eqb (key_v1 r) key) recs) s
              (Forall_filter _ _ _ W)) as [s' [E1 [E2 E3]]].
  rewrite E1. exists s'. split; [reflexivity|]. split; [rewrite E2, existsb_filter; reflexivity | exact E3].
Qed.

(* one iteration of the FindAnswer loop at name m *)
Lemma fa_step : forall m qname qtype wild s, wf_name m ->
  snd (fst (for_each_v1 b st (loc0 ++ pack m) (fa_cb qname qtype wild)
              (if is_loc0 L then s else fst (for_each_v1 b st (L ++ pack m) (fa_cb qname qtype wild) s)))) =
  snd s || kind_at wild m /\
  (snd (fst (for_each_v1 b st (loc0 ++ pack m) (fa_cb qname qtype wild)
              (if is_loc0 L then s else fst (for_each_v1 b st (L ++ pack m) (fa_cb qname qtype wild) s)))) = false ->
   fst (for_each_v1 b st (loc0 ++ pack m) (fa_cb qname qtype wild)
              (if is_loc0 L then s else fst (for_each_v1 b st (L ++ pack m) (fa_cb qname qtype wild) s))) = s).
Proof.
  intros m qname qtype wild s Hm.
  assert (K : existsb (fun r => bytes_eqb (key_v1 r) (L ++ pack m) && Bool.eqb wild (r_wild r)) recs ||
              existsb (fun r => bytes_eqb (key_v1 r) (loc0 ++ pack m) && Bool.eqb wild (r_wild r)) recs = kind_at wild m).
  { unfold kind_at. rewrite existsb_or. apply existsb_ext_in. intros r Hin.
    rewrite <- (probed_iff recs L W HL r m Hin Hm).
    destruct (bytes_eqb (key_v1 r) (L ++ pack m)), (bytes_eqb (key_v1 r) (loc0 ++ pack m)), (Bool.eqb wild (r_wild r)); reflexivity. }
  destruct (is_loc0 L) eqn:EL.
  - destruct (scan_fa_key (loc0 ++ pack m) qname qtype wild s) as [s2 [E1 [E2 E2u]]]. rewrite E1. cbn [fst].
    apply bytes_eqb_eq in EL. rewrite EL, Bool.orb_diag in K. split; [rewrite E2, K; reflexivity | exact E2u].
  - destruct (scan_fa_key (L ++ pack m) qname qtype wild s) as [s1 [E1 [E2 E2u]]]. rewrite E1. cbn [fst].
    destruct (scan_fa_key (loc0 ++ pack m) qname qtype wild s1) as [s2 [E3 [E4 E4u]]]. rewrite E3. cbn [fst].
    split; [rewrite E4, E2, <- K, orb_assoc; reflexivity|].
    intros X. pose proof (E4u X) as Y. subst s2. exact (E2u X).
Qed.

Definition is_some {A} (o : option A) : bool := match o with Some _ => true | None => false end.

Lemma wildsafe_same : forall l, wildsafe l = wildsafe_label l.
Proof. reflexivity. Qed.

Lemma name_eqb_pack : forall m apex, wf_name m -> wf_name apex -> bytes_eqb (pack m) (pack apex) = name_eqb m apex.
Proof.
  intros m apex Hm Ha. destruct (name_eqb m apex) eqn:E.
  - apply name_eqb_lower in E; auto. subst. apply bytes_eqb_refl.
  - apply bytes_eqb_neq. intros P. apply pack_inj in P. subst. rewrite name_eqb_refl in E. discriminate.
Qed.

(* DataReader.FindAnswer's loop: "recordFound" at the end *)
Lemma find_ans_found : forall m fuel wild apex qname qtype s,
  wf_name m -> wf_name apex -> snd s = false -> (length (pack m) < fuel)%nat ->
  exists s', find_ans_v1 b st fuel (pack m) (pack apex) qname qtype L wild s = Val s' /\
             snd s' = kind_at wild m || is_some (covering_wildcard L recs apex m) /\
             (snd s' = false -> s' = s).
Proof.
  induction m as [|l p IH]; intros fuel wild apex qname qtype s Hm Ha Hs Hf;
    (destruct fuel as [|fuel]; [lia|]); cbn [find_ans_v1].
  - pose proof (fa_step [] qname qtype wild s Hm) as [F Fu]. rewrite Hs in F. cbn [orb] in F.
    set (s2 := fst (for_each_v1 b st (loc0 ++ pack []) (fa_cb qname qtype wild)
                      (if is_loc0 L then s else fst (for_each_v1 b st (L ++ pack []) (fa_cb qname qtype wild) s)))) in *.
    destruct (snd s2) eqn:E.
    + exists s2. split; [reflexivity|]. split; [rewrite E, <- F; reflexivity | intros X; rewrite X in E; discriminate].
    + assert (C : covering_wildcard L recs apex [] = None) by (cbn; destruct apex; reflexivity).
      rewrite C, <- F. cbn [is_some]. rewrite orb_false_r.
      destruct (bytes_eqb (pack []) (pack apex)); [exists s2; split; [reflexivity | split; [exact E | intros _; exact (Fu eq_refl)]]|].
      exists s2. split; [reflexivity | split; [exact E | intros _; exact (Fu eq_refl)]].
  - pose proof (fa_step (l :: p) qname qtype wild s Hm) as [F Fu]. rewrite Hs in F. cbn [orb] in F.
    set (s2 := fst (for_each_v1 b st (loc0 ++ pack (l :: p)) (fa_cb qname qtype wild)
                      (if is_loc0 L then s else fst (for_each_v1 b st (L ++ pack (l :: p)) (fa_cb qname qtype wild) s)))) in *.
    destruct (snd s2) eqn:E.
    + exists s2. split; [reflexivity|]. split; [rewrite E, <- F; reflexivity | intros X; rewrite X in E; discriminate].
    + rewrite <- F. cbn [orb covering_wildcard].
      rewrite (name_eqb_pack (l :: p) apex Hm Ha).
      destruct (name_eqb (l :: p) apex); [exists s2; split; [reflexivity | split; [exact E | intros _; exact (Fu eq_refl)]]|].
      inversion Hm as [|? ? Hl Hp]; subst. destruct Hl as [[Hl1 Hl2] _].
      rewrite pack_cons. cbn [app]. unfold idx. cbn [N.to_nat nth_error bind].
      assert (Ez : (nlen l =? 0) = false) by lia. rewrite Ez.
      assert (Hb8 : b8 (nlen l + 1) = nlen l + 1) by (unfold b8; apply N.mod_small; lia). rewrite Hb8.
      change (nlen l :: l ++ pack p) with ([nlen l] ++ l ++ pack p).
      rewrite (slice_mid [nlen l] l (pack p)) by (unfold nlen; cbn [length]; lia). cbn [bind].
      rewrite wildsafe_same. destruct (wildsafe_label l); cbn [negb]; [|exists s2; split; [reflexivity | split; [exact E | intros _; exact (Fu eq_refl)]]].
      change ([nlen l] ++ l ++ pack p) with ((nlen l :: l) ++ pack p).
      rewrite (slice_from_app (nlen l :: l) (pack p)) by (rewrite nlen_cons; lia). cbn [bind].
      destruct (IH fuel true apex qname qtype s2 Hp Ha E) as [s' [I1 [I2 I3]]].
      { rewrite pack_cons, app_length in Hf. cbn [length] in Hf. lia. }
      exists s'. split; [exact I1|]. split.
      * rewrite I2, kind_wild. destruct (nonempty (wild_records L recs p)); reflexivity.
      * intros X. rewrite (I3 X). exact (Fu eq_refl).
Qed.
End V1.

(* ---------------------------------------------------------------- names, again *)
Lemma parse_name_fuel_pack : forall (z : name) fuel acc,
  wf_name z -> (length z < fuel)%nat ->
  parse_name_fuel fuel (pack z) acc = Some (acc ++ pack z, []).
Proof.
  induction z as [|l p IH]; intros fuel acc Hz Hf; (destruct fuel as [|fuel]; [lia|]).
  - reflexivity.
  - inversion Hz as [|? ? Hl Hp]; subst. destruct Hl as [[Hl1 Hl2] _].
    rewrite pack_cons. cbn [app parse_name_fuel].
    assert (E0 : (nlen l =? 0) = false) by lia. rewrite E0.
    assert (E1 : (64 <=? nlen l) = false) by lia. rewrite E1.
    assert (E2 : (nlen (l ++ pack p) <? nlen l) = false) by (rewrite nlen_app; lia). rewrite E2.
    rewrite to_nat_nlen, skipn_app, skipn_all, Nat.sub_diag, firstn_app, firstn_all, Nat.sub_diag.
    cbn [skipn firstn app]. rewrite app_nil_r.
    rewrite IH; [|exact Hp | cbn [length] in Hf; lia].
    rewrite <- app_assoc. reflexivity.
Qed.
Lemma length_pack_ge : forall z : name, (length z < length (pack z))%nat.
Proof.
  induction z as [|l p IH]; [cbn; lia|]. rewrite pack_cons, app_length. cbn [length]. lia.
Qed.
Lemma parse_name_pack : forall z : name, wf_name z -> nlen (pack z) <= 255 ->
  parse_name (pack z) = Some (pack z, []).
Proof.
  intros z Hz Hlen. unfold parse_name.
  rewrite (parse_name_fuel_pack z (S (length (pack z))) [] Hz) by (pose proof (length_pack_ge z); lia).
  cbn [app]. assert (E : (nlen (pack z) <=? 255) = true) by lia. rewrite E. reflexivity.
Qed.

Lemma ancestor_wf : forall z n, ancestor_or_self z n -> wf_name n -> wf_name z /\ nlen (pack z) <= nlen (pack n).
Proof.
  induction n as [|l p IH]; intros A Hn; cbn [ancestor_or_self] in A.
  - destruct A as [->|[]]. split; [exact Hn | lia].
  - destruct A as [->|A]; [split; [exact Hn | lia]|].
    inversion Hn; subst. destruct (IH A H2) as [I1 I2]. split; [exact I1|].
    rewrite pack_cons, nlen_app. lia.
Qed.

Lemma covering_has_wild : forall L recs apex n a,
  covering_wildcard L recs apex n = Some a -> nonempty (wild_records L recs a) = true.
Proof.
  induction n as [|l p IH]; intros a H; cbn [covering_wildcard] in H.
  - destruct (name_eqb [] apex); discriminate.
  - destruct (name_eqb (l :: p) apex); [discriminate|].
    destruct (negb (wildsafe_label l)); [discriminate|].
    destruct (nonempty (wild_records L recs p)) eqn:E; [inversion H; subst; exact E | exact (IH a H)].
Qed.

Lemma wrs_items_nil : forall o c m t, wrs_items o c m t [] = [].
Proof. intros. unfold wrs_items, npick, npos. cbn [filter nlen length N.of_nat]. rewrite N.min_0_r. reflexivity. Qed.

Section NX.
Variable b : backend.
Variable recs : list record.
Variable L : bytes.
Hypothesis W : wf_recs recs.
Hypothesis HL : length L = 2%nat.
Hypothesis Hb : b <> RDB2.
Hypothesis V : wf_view L recs = true.

(* inside an authoritative zone the reply is NXDOMAIN exactly when neither the name nor a
   covering wildcard has any visible record *)
Theorem nxdomain_iff_nothing_v1 : forall q n z ecs max x,
  wf_name n -> nlen (pack n) <= 255 -> lower_bytes (q_name q) = pack n ->
  (q_edns q = None \/ q_edns q = Some 0) ->
  zone_cut L recs n = Some z -> authoritative L recs z = true ->
  serve b (store_v1 recs) q (LocOk L) ecs max = OReply x ->
  (rs_rcode x = 3 <-> source_records L recs z n = []).
Proof.
  intros q n z ecs max x Hn Hlen Hq Hv Hz Ha H.
  destruct (ancestor_wf z n (proj1 (zone_cut_sound L recs n z Hz)) Hn) as [Hzw Hzl].
  assert (SV : serve b (store_v1 recs) q (LocOk L) ecs max =
              lift (rd_auth unit (reader_v1 b (store_v1 recs)) tt (pack n) L)
                (fun x => let '(ar, c1) := x in
                   if a_err ar then servfail q
                   else if negb (a_ns ar) && negb (a_auth ar) then refused_reply q ecs
                   else lift (serve_ds unit (reader_v1 b (store_v1 recs)) q L (pack n) ar c1)
                          (fun r => match r with
                                    | Some (ar', c2) => serve_answer unit (reader_v1 b (store_v1 recs)) q ecs L max (pack n) ar' c2
                                    | None => servfail q
                                    end))).
  { destruct b; [| |contradiction]; unfold serve, serve_with; rewrite Hq; destruct Hv as [E|E]; rewrite E; reflexivity. }
  rewrite SV in H. clear SV. unfold reader_v1 at 1 in H. cbn [rd_auth] in H. unfold is_authoritative_v1 in H.
  rewrite (is_auth_walk b recs L W HL n (S (length (pack n))) Hn V (Nat.lt_succ_diag_r _)), Hz, Ha in H.
  cbn [bind lift a_err a_ns a_auth negb andb] in H.
  unfold serve_ds in H. cbn [a_auth negb andb lift] in H.
  unfold serve_answer in H. cbn [a_auth a_zc] in H.
  unfold reader_v1 at 1 in H. cbn [rd_answer] in H. unfold find_answer_v1 in H.
  destruct (find_ans_found b recs L W HL n (S (length (pack n))) false z (q_name q) (q_type q) (wrs_empty, [], false)
              Hn Hzw eq_refl (Nat.lt_succ_diag_r _)) as [s' [F1 [F2 F3]]].
  rewrite F1 in H. cbn [bind] in H.
  assert (Src : nonempty (source_records L recs z n) = snd s').
  { rewrite F2, kind_own. unfold source_records.
    destruct (nonempty (own_records L recs n)) eqn:E; [rewrite E; reflexivity|]. cbn [orb].
    destruct (covering_wildcard L recs z n) as [a|] eqn:E2; [|reflexivity].
    rewrite (covering_has_wild L recs z n a E2). reflexivity. }
  destruct (fa_finish (q_name q) max s') as [an found] eqn:EF. cbn [bind lift] in H.
  assert (Hfound : found = snd s') by (destruct s' as [[w a0] f0]; cbn in EF; inversion EF; reflexivity).
  assert (Han : snd s' = false -> item_count an = 0).
  { intros X. rewrite (F3 X) in EF. unfold fa_finish in EF. cbn [w4 w6 wrs_empty] in EF.
    rewrite !wrs_items_nil in EF. inversion EF; reflexivity. }
  unfold serve_sections in H. rewrite (parse_name_pack z Hzw) in H by lia.
  apply lift_reply in H as [[nsec c4] [_ H]]. apply lift_reply in H as [[m2 c6] [_ H]].
  inversion H; subst x. cbn [rs_rcode]. clear H.
  rewrite Hfound. destruct (snd s') eqn:E.
  - rewrite andb_false_r. split; [discriminate|]. intros X. rewrite X in Src. discriminate.
  - rewrite (Han eq_refl). cbn. split; [intros _|reflexivity].
    destruct (source_records L recs z n); [reflexivity | discriminate].
Qed.
End NX.
