(* Proofs about Model/Rearranger.v: insertion sort meets the specification of
   sort.Slice; the points of a well-formed subnet set are the points of a laminar
   family of items (Proofs/Sweep.v); C03 for the range points. *)
From DnsV Require Import Base.Bytes Base.Ip Spec.Lpm Model.Rearranger Model.Location.
From DnsV Require Import Proofs.Lpm Proofs.Location Proofs.Squash Proofs.Sweep.
From Coq Require Import Lia ZifyN ZifyBool Permutation Sorted.
Open Scope N_scope.

(* ---------------------------------------------------------------- the specification of sort.Slice *)

(* what the model assumes of sort.Slice: it returns a permutation of its argument in
   which no element is less than an earlier one *)
Definition sort_spec (sort : list point -> list point) : Prop :=
  forall l, Permutation l (sort l) /\ StronglySorted (fun a b => pless b a = false) (sort l).

Lemma pinsert_perm : forall p l, Permutation (p :: l) (pinsert p l).
Proof.
  induction l as [|q l IH]; simpl; auto.
  destruct (pless q p); auto. apply perm_trans with (q :: p :: l); [apply perm_swap|]. constructor. exact IH.
Qed.

Lemma pless_false_trans : forall a b c, pless b a = false -> pless c b = false -> pless c a = false.
Proof.
  intros a b c H1 H2. destruct (pless c a) eqn:E; auto.
  (* c < a; from not (b < a) and not (c < b): a <= b <= c, contradiction *)
  destruct (pless a b) eqn:Eab.
  - pose proof (pless_trans _ _ _ E Eab) as X. congruence.
  - destruct (pless_total _ _ Eab H1) as [I1 [K1 M1]].
    destruct (pless b c) eqn:Ebc.
    + (* a ~ b < c and c < a *)
      pose proof (pless_trans _ _ _ Ebc E) as X.
      pose proof (pless_ip_le _ _ X) as L1. pose proof (pless_ip_le _ _ E) as L2. pose proof (pless_ip_le _ _ Ebc) as L3.
      assert (Ip : p_ip c = p_ip a) by lia.
      rewrite pless_same_ip in E by exact Ip. rewrite pless_same_ip in Ebc by lia.
      unfold pmask in *. rewrite K1 in E. rewrite M1 in E.
      destruct (p_kind b), (p_kind c); try discriminate; apply N.ltb_lt in E; apply N.ltb_lt in Ebc; lia.
    + destruct (pless_total _ _ Ebc H2) as [I2 [K2 M2]].
      rewrite pless_same_ip in E by lia. unfold pmask in *. rewrite <- K2, <- K1 in E. rewrite <- M2, <- M1 in E.
      destruct (p_kind a); rewrite N.ltb_irrefl in E; discriminate.
Qed.

Lemma pinsert_sorted : forall p l, StronglySorted (fun a b => pless b a = false) l ->
  StronglySorted (fun a b => pless b a = false) (pinsert p l).
Proof.
  induction l as [|q l IH]; intro H; simpl.
  - constructor; constructor.
  - inversion H as [|? ? Hs Hf]; subst. destruct (pless q p) eqn:E.
    + constructor; auto. apply Forall_forall. intros r Hr.
      apply (Permutation_in _ (Permutation_sym (pinsert_perm p l))) in Hr. destruct Hr as [<-|Hr].
      * apply pless_asym. exact E.
      * rewrite Forall_forall in Hf. auto.
    + constructor; auto. apply Forall_forall. intros r [<-|Hr]; auto.
      rewrite Forall_forall in Hf. apply (pless_false_trans _ q); auto.
Qed.

(* insertion sort is one function that meets the specification: the hypotheses of
   the theorems below are satisfiable *)
Example isort_spec : sort_spec isort.
Proof.
  intro l. induction l as [|p l [IH1 IH2]]; simpl.
  - split; auto. constructor.
  - split.
    + apply perm_trans with (p :: isort l); auto. apply pinsert_perm.
    + apply pinsert_sorted. exact IH2.
Qed.

(* ---------------------------------------------------------------- the points AddLocation collects *)

Definition is_def6 (s : subnet) : bool := (s_len s =? 0) && (s_addr s =? first_v6).
Definition is_def4 (s : subnet) : bool := (s_len s =? 96) && (s_addr s =? first_v4).

Definition sub_rloc (s : subnet) : rloc := mkRloc (s_len s mod 256) false (s_loc s).
Definition sub_end (s : subnet) : N := fill_unmasked (s_addr s) (s_len s) + 1.

Definition sub_points (s : subnet) : list point :=
  if is_def6 s then [mkPoint first_v6 (sub_rloc s) KStart; mkPoint after_v4 (sub_rloc s) KStart]
  else if is_def4 s then [mkPoint first_v4 (sub_rloc s) KStart; mkPoint after_v4 (sub_rloc s) KEnd]
  else mkPoint (clean_mask (s_addr s) (s_len s)) (sub_rloc s) KStart ::
       (if fill_unmasked (s_addr s) (s_len s) =? very_last then []
        else [mkPoint (sub_end s) (mkRloc (s_len s mod 256) true (0, 0)) KEnd]).

Lemma add_locations_spec : forall S,
  add_locations S = mkRR (existsb is_def4 S) (existsb is_def6 S) (flat_map sub_points S).
Proof.
  assert (G : forall S r, fold_left add_location S r =
            mkRR (rr_has4 r || existsb is_def4 S) (rr_has6 r || existsb is_def6 S) (rr_points r ++ flat_map sub_points S)).
  { induction S as [|s S IH]; intro r.
    - simpl. rewrite !Bool.orb_false_r, app_nil_r. destruct r; reflexivity.
    - cbn [fold_left]. rewrite IH. unfold add_location, sub_points, is_def6, is_def4, sub_rloc, sub_end.
      cbn [existsb flat_map]. unfold is_def6, is_def4.
      destruct ((s_len s =? 0) && (s_addr s =? first_v6)) eqn:E6.
      + cbn [rr_has4 rr_has6 rr_points]. rewrite <- app_assoc.
        destruct ((s_len s =? 96) && (s_addr s =? first_v4)) eqn:E4.
        * exfalso. apply Bool.andb_true_iff in E6, E4. destruct E6 as [A _], E4 as [B _].
          apply N.eqb_eq in A, B. lia.
        * cbn [orb]. rewrite Bool.orb_true_r. reflexivity.
      + destruct ((s_len s =? 96) && (s_addr s =? first_v4)) eqn:E4.
        * cbn [rr_has4 rr_has6 rr_points]. rewrite <- app_assoc. cbn [orb]. rewrite Bool.orb_true_r. reflexivity.
        * cbn [rr_has4 rr_has6 rr_points]. rewrite <- app_assoc. cbn [orb].
          destruct (fill_unmasked (s_addr s) (s_len s) =? very_last); reflexivity. }
  intro S. unfold add_locations. rewrite G. reflexivity.
Qed.

(* ---------------------------------------------------------------- blocks as intervals *)

Lemma two128_split : forall len, len <= 128 -> two128 = blk_size len * 2 ^ len.
Proof.
  intros len H. unfold two128, blk_size. rewrite <- N.pow_add_r. f_equal. lia.
Qed.

(* a masked block below 2^128 ends at or below 2^128 *)
Lemma blk_end_le : forall a len, len <= 128 -> a < two128 -> masked a len -> a + blk_size len <= two128.
Proof.
  intros a len Hl Ha Hm. unfold masked in Hm. pose proof (blk_size_pos len) as P.
  pose proof (N.div_mod a (blk_size len)) as D. rewrite Hm in D.
  rewrite (two128_split len Hl) in *.
  set (B := blk_size len) in *. set (q := a / B) in *.
  assert (q < 2 ^ len) by nia. nia.
Qed.

Lemma blk_size_mono : forall l1 l2, l1 <= l2 -> l2 <= 128 -> blk_size l2 <= blk_size l1.
Proof. intros l1 l2 H1 H2. unfold blk_size. apply N.pow_le_mono_r; lia. Qed.

Lemma blk_size_smono : forall l1 l2, l1 < l2 -> l2 <= 128 -> blk_size l2 < blk_size l1.
Proof. intros l1 l2 H1 H2. unfold blk_size. apply N.pow_lt_mono_r; lia. Qed.

Lemma blk_size_inj : forall l1 l2, l1 <= 128 -> l2 <= 128 -> blk_size l1 = blk_size l2 -> l1 = l2.
Proof.
  intros l1 l2 H1 H2 E. destruct (N.lt_trichotomy l1 l2) as [L|[Eq|L]]; auto.
  - pose proof (blk_size_smono l1 l2 L H2). lia.
  - pose proof (blk_size_smono l2 l1 L H1). lia.
Qed.

Lemma blk_size_ge1 : forall len, 1 <= len -> len <= 128 -> blk_size len <= 2 ^ 127.
Proof. intros len H1 H2. unfold blk_size. apply N.pow_le_mono_r; lia. Qed.

(* two masked blocks, the first not longer than the second: disjoint, or the second inside the first *)
Lemma blk_laminar : forall a1 l1 a2 l2, l1 <= l2 -> l2 <= 128 -> masked a1 l1 -> masked a2 l2 ->
  a1 + blk_size l1 <= a2 \/ a2 + blk_size l2 <= a1 \/ (a1 <= a2 /\ a2 + blk_size l2 <= a1 + blk_size l1).
Proof.
  intros a1 l1 a2 l2 H1 H2 M1 M2.
  pose proof (blk_size_pos l1) as P1. pose proof (blk_size_pos l2) as P2.
  destruct (N.le_gt_cases (a1 + blk_size l1) a2) as [|G1]; auto.
  destruct (N.le_gt_cases (a2 + blk_size l2) a1) as [|G2]; auto.
  right. right.
  set (s := mkSubnet a1 l1 (0, 0)). set (t := mkSubnet a2 l2 (0, 0)).
  assert (L1 : s_len s <= 128) by (cbn; lia).
  set (x := N.max a1 a2).
  assert (Cs : contains s x = true) by (apply contains_iff; cbn; auto; lia).
  assert (Ct : contains t x = true) by (apply contains_iff; cbn; auto; lia).
  pose proof (laminar s t x H1 H2 Cs Ct) as Lam.
  assert (C1 : contains s a2 = true) by (apply Lam; apply contains_iff; cbn; auto; lia).
  assert (C2 : contains s (a2 + blk_size l2 - 1) = true) by (apply Lam; apply contains_iff; cbn; auto; lia).
  apply contains_iff in C1; auto. apply contains_iff in C2; auto. cbn in C1, C2. lia.
Qed.

(* ---------------------------------------------------------------- the items of a subnet set *)

Definition blk_item (s : subnet) : item :=
  mkItem (clean_mask (s_addr s) (s_len s))
         (if fill_unmasked (s_addr s) (s_len s) =? very_last then two128 else sub_end s)
         (sub_rloc s) (mkRloc (s_len s mod 256) true (0, 0)).

Definition sub_items (s : subnet) : list item :=
  if is_def6 s then [mkItem first_v6 two128 (sub_rloc s) (sub_rloc s); mkItem after_v4 two128 (sub_rloc s) (sub_rloc s)]
  else if is_def4 s then [mkItem first_v4 after_v4 (sub_rloc s) (sub_rloc s)]
  else [blk_item s].

Definition impl_items (S : list subnet) : list item :=
  (if existsb is_def4 S then [] else [mkItem first_v4 after_v4 null_loc null_loc]) ++
  (if existsb is_def6 S then [] else [mkItem first_v6 two128 null_loc null_loc; mkItem after_v4 two128 null_loc null_loc]).

Definition items_of (S : list subnet) : list item := flat_map sub_items S ++ impl_items S.

Lemma blk_item_fields : forall s, wf_subnetb s = true ->
  i_s (blk_item s) = s_addr s /\ i_e (blk_item s) = s_addr s + blk_size (s_len s) /\
  imask (blk_item s) = s_len s /\ s_addr s + blk_size (s_len s) <= two128.
Proof.
  intros s W. destruct (wf_subnetb_spec s W) as [W1 [W2 [W3 _]]].
  pose proof (blk_end_le _ _ W1 W2 W3) as Le. pose proof (blk_size_pos (s_len s)) as P.
  unfold blk_item, imask, sub_rloc, sub_end, fill_unmasked. cbn [i_s i_e i_l rl_mask].
  rewrite (clean_mask_id _ _ W3). split; auto. split; [|split; [apply N.mod_small; lia|exact Le]].
  destruct (s_addr s + (blk_size (s_len s) - 1) =? very_last) eqn:E.
  - apply N.eqb_eq in E. unfold very_last in E. unfold two128 in *. lia.
  - lia.
Qed.

Lemma flat_map_app : forall {A B} (f : A -> list B) l1 l2, flat_map f (l1 ++ l2) = flat_map f l1 ++ flat_map f l2.
Proof. intros. induction l1; simpl; auto. rewrite IHl1, app_assoc. reflexivity. Qed.

Lemma has_end_two128 : forall s l l', has_end (mkItem s two128 l l') = false.
Proof. intros. reflexivity. Qed.

(* the points handed to sort.Slice are the points of the items *)
Lemma points_are_item_points : forall S, forallb wf_subnetb S = true ->
  rr_points (add_locations S) ++ implicit_points (add_locations S) = flat_map ipoints (items_of S).
Proof.
  intros S W. rewrite add_locations_spec. cbn [rr_points]. unfold items_of. rewrite flat_map_app. f_equal.
  - induction S as [|s S IH]; [reflexivity|].
    simpl in W. apply Bool.andb_true_iff in W. destruct W as [Ws W].
    cbn [flat_map]. rewrite flat_map_app, (IH W). f_equal.
    unfold sub_points, sub_items. destruct (is_def6 s); [|destruct (is_def4 s)].
    + cbn [flat_map]. unfold ipoints. rewrite !has_end_two128. reflexivity.
    + cbn [flat_map]. unfold ipoints. reflexivity.
    + cbn [flat_map]. rewrite app_nil_r. unfold ipoints.
      destruct (blk_item_fields s Ws) as [F1 [F2 [F3 F4]]].
      unfold has_end. rewrite F2. unfold spoint, epoint, blk_item. cbn [i_s i_e i_l i_el].
      destruct (wf_subnetb_spec s Ws) as [W1 [W2 [W3 _]]]. pose proof (blk_size_pos (s_len s)) as P.
      destruct (fill_unmasked (s_addr s) (s_len s) =? very_last) eqn:E.
      * unfold fill_unmasked in E. rewrite (clean_mask_id _ _ W3) in E. apply N.eqb_eq in E.
        assert (X : (s_addr s + blk_size (s_len s) <? two128) = false).
        { apply N.ltb_ge. unfold very_last, two128 in *. lia. }
        rewrite X. reflexivity.
      * unfold fill_unmasked in E. rewrite (clean_mask_id _ _ W3) in E. apply N.eqb_neq in E.
        assert (X : (s_addr s + blk_size (s_len s) <? two128) = true).
        { apply N.ltb_lt. unfold very_last, two128 in *. lia. }
        rewrite X. reflexivity.
  - unfold implicit_points, impl_items. cbn [rr_has4 rr_has6].
    destruct (existsb is_def4 S), (existsb is_def6 S); cbn [app flat_map]; unfold ipoints; rewrite ?has_end_two128; reflexivity.
Qed.

(* ---------------------------------------------------------------- shapes of the items *)

Inductive shape (S : list subnet) (i : item) : Prop :=
| ShBlk : forall s, In s S -> is_def6 s = false -> is_def4 s = false -> i = blk_item s -> shape S i
| ShD6a : forall s, In s S -> is_def6 s = true -> i = mkItem first_v6 two128 (sub_rloc s) (sub_rloc s) -> shape S i
| ShD6b : forall s, In s S -> is_def6 s = true -> i = mkItem after_v4 two128 (sub_rloc s) (sub_rloc s) -> shape S i
| ShD4 : forall s, In s S -> is_def4 s = true -> i = mkItem first_v4 after_v4 (sub_rloc s) (sub_rloc s) -> shape S i
| ShN6a : existsb is_def6 S = false -> i = mkItem first_v6 two128 null_loc null_loc -> shape S i
| ShN6b : existsb is_def6 S = false -> i = mkItem after_v4 two128 null_loc null_loc -> shape S i
| ShN4 : existsb is_def4 S = false -> i = mkItem first_v4 after_v4 null_loc null_loc -> shape S i.

Lemma items_shape : forall S i, In i (items_of S) -> shape S i.
Proof.
  intros S i H. unfold items_of in H. apply in_app_or in H. destruct H as [H|H].
  - apply in_flat_map in H. destruct H as [s [Hs Hi]]. unfold sub_items in Hi.
    destruct (is_def6 s) eqn:E6; [|destruct (is_def4 s) eqn:E4].
    + destruct Hi as [<-|[<-|[]]]; [eapply ShD6a|eapply ShD6b]; eauto.
    + destruct Hi as [<-|[]]. eapply ShD4; eauto.
    + destruct Hi as [<-|[]]. eapply ShBlk; eauto.
  - unfold impl_items in H. apply in_app_or in H. destruct H as [H|H].
    + destruct (existsb is_def4 S) eqn:E; [contradiction|]. destruct H as [<-|[]]. apply ShN4; auto.
    + destruct (existsb is_def6 S) eqn:E; [contradiction|]. destruct H as [<-|[<-|[]]]; [apply ShN6a|apply ShN6b]; auto.
Qed.

Lemma shape_in : forall S i, shape S i -> In i (items_of S).
Proof.
  intros S i H. unfold items_of. apply in_or_app.
  destruct H as [s Hs E6 E4 ->|s Hs E6 ->|s Hs E6 ->|s Hs E4 ->|E ->|E ->|E ->].
  - left. apply in_flat_map. exists s. split; auto. unfold sub_items. rewrite E6, E4. left; auto.
  - left. apply in_flat_map. exists s. split; auto. unfold sub_items. rewrite E6. left; auto.
  - left. apply in_flat_map. exists s. split; auto. unfold sub_items. rewrite E6. right; left; auto.
  - left. apply in_flat_map. exists s. split; auto. unfold sub_items.
    destruct (is_def6 s) eqn:E6.
    + exfalso. unfold is_def6, is_def4 in *. apply Bool.andb_true_iff in E6, E4. destruct E6 as [A _], E4 as [B _].
      apply N.eqb_eq in A, B. lia.
    + rewrite E4. left; auto.
  - right. unfold impl_items. rewrite E. apply in_or_app. right. left; auto.
  - right. unfold impl_items. rewrite E. apply in_or_app. right. right; left; auto.
  - right. unfold impl_items. rewrite E. apply in_or_app. left. left; auto.
Qed.

(* numeric content of a shape *)
Definition blk_num (i : item) : Prop :=
  exists a l, i_s i = a /\ i_e i = a + blk_size l /\ imask i = l /\ 1 <= l /\ l <= 128 /\ masked a l /\
    a + blk_size l <= two128 /\ 0 < blk_size l /\ blk_size l <= 2 ^ 127 /\
    (a + blk_size l <= first_v4 \/
     (first_v4 <= a /\ a + blk_size l <= after_v4 /\ 97 <= l /\ blk_size l <= 2 ^ 31) \/
     after_v4 <= a).
Definition d6a_num (i : item) : Prop := i_s i = 0 /\ i_e i = two128 /\ imask i = 0.
Definition d6b_num (i : item) : Prop := i_s i = after_v4 /\ i_e i = two128 /\ imask i = 0.
Definition d4_num (i : item) : Prop := i_s i = first_v4 /\ i_e i = after_v4 /\ (imask i = 96 \/ imask i = 0).

Lemma nondef_blk_num : forall s, wf_subnetb s = true -> is_def6 s = false -> is_def4 s = false -> blk_num (blk_item s).
Proof.
  intros s W E6 E4. destruct (wf_subnetb_spec s W) as [W1 [W2 [W3 W4]]].
  destruct (blk_item_fields s W) as [F1 [F2 [F3 F4]]].
  pose proof (blk_size_pos (s_len s)) as P.
  assert (L1 : 1 <= s_len s).
  { destruct (N.eq_dec (s_len s) 0) as [Z|]; [|lia]. exfalso.
    unfold masked in W3. rewrite Z in W3. change (blk_size 0) with two128 in W3.
    rewrite N.mod_small in W3 by exact W2.
    unfold is_def6 in E6. rewrite Z, W3 in E6. discriminate E6. }
  assert (M96 : masked first_v4 96) by reflexivity.
  exists (s_addr s), (s_len s). repeat split; auto.
  - apply blk_size_ge1; auto.
  - destruct (N.le_gt_cases (s_len s) 96) as [Le|Gt].
    + destruct (blk_laminar (s_addr s) (s_len s) first_v4 96 Le ltac:(lia) W3 M96) as [C|[C|[C1 C2]]].
      * left. exact C.
      * right. right. rewrite blk_size_96 in C. unfold first_v4, after_v4 in *. lia.
      * exfalso. rewrite blk_size_96 in C2.
        destruct (N.eq_dec (s_len s) 96) as [E|NE].
        -- rewrite E, blk_size_96 in C2.
           assert (H : s_addr s = first_v4) by lia.
           unfold is_def4 in E4. rewrite E, H in E4. discriminate E4.
        -- unfold overlaps_v4 in W4.
           assert (X1 : (1 <=? s_len s) = true) by (apply N.leb_le; lia).
           assert (X2 : (s_len s <=? 95) = true) by (apply N.leb_le; lia).
           rewrite X1, X2 in W4. cbn [andb] in W4. apply N.eqb_neq in W4. apply W4.
           pose proof (contains_iff s first_v4 W3) as CI. unfold contains in CI. rewrite N.eqb_eq in CI.
           apply CI. unfold first_v4 in *. change (2 ^ 32) with 4294967296 in *. lia.
    + assert (Le : 96 <= s_len s) by lia.
      destruct (blk_laminar first_v4 96 (s_addr s) (s_len s) Le W1 M96 W3) as [C|[C|[C1 C2]]].
      * right. right. rewrite blk_size_96 in C. unfold first_v4, after_v4 in *. lia.
      * left. exact C.
      * right. left. rewrite blk_size_96 in C2.
        assert (EA : first_v4 + 2 ^ 32 = after_v4) by reflexivity.
        split; [exact C1|]. split; [rewrite <- EA; exact C2|]. split; [lia|].
        unfold blk_size. apply N.pow_le_mono_r; lia.
Qed.

Lemma def6_fields : forall s, is_def6 s = true -> s_len s = 0 /\ s_addr s = 0.
Proof. unfold is_def6. intros s H. apply Bool.andb_true_iff in H. rewrite !N.eqb_eq in H. exact H. Qed.
Lemma def4_fields : forall s, is_def4 s = true -> s_len s = 96 /\ s_addr s = first_v4.
Proof. unfold is_def4. intros s H. apply Bool.andb_true_iff in H. rewrite !N.eqb_eq in H. exact H. Qed.

Lemma shape_num : forall S i, forallb wf_subnetb S = true -> shape S i ->
  blk_num i \/ d6a_num i \/ d6b_num i \/ d4_num i.
Proof.
  intros S i W H. rewrite forallb_forall in W.
  destruct H as [s Hs E6 E4 ->|s Hs E6 ->|s Hs E6 ->|s Hs E4 ->|E ->|E ->|E ->].
  - left. apply nondef_blk_num; auto.
  - right. left. destruct (def6_fields s E6) as [L _]. unfold d6a_num, imask, sub_rloc. cbn. rewrite L. auto.
  - right. right. left. destruct (def6_fields s E6) as [L _]. unfold d6b_num, imask, sub_rloc. cbn. rewrite L. auto.
  - right. right. right. destruct (def4_fields s E4) as [L _]. unfold d4_num, imask, sub_rloc. cbn. rewrite L. auto.
  - right. left. unfold d6a_num. cbn. auto.
  - right. right. left. unfold d6b_num. cbn. auto.
  - right. right. right. unfold d4_num. cbn. auto.
Qed.

(* ---------------------------------------------------------------- geometry of the items *)

Definition inum (i : item) : Prop := blk_num i \/ d6a_num i \/ d6b_num i \/ d4_num i.

Lemma c_first_v6 : first_v6 = 0. Proof. reflexivity. Qed.
Lemma c_first_v4 : first_v4 = 281470681743360. Proof. reflexivity. Qed.
Lemma c_after_v4 : after_v4 = 281474976710656. Proof. reflexivity. Qed.
Lemma c_two128 : two128 = 340282366920938463463374607431768211456. Proof. reflexivity. Qed.
Lemma c_2_127 : 2 ^ 127 = 170141183460469231731687303715884105728. Proof. reflexivity. Qed.
Lemma c_2_31 : 2 ^ 31 = 2147483648. Proof. reflexivity. Qed.

Ltac consts := rewrite ?c_first_v6, ?c_first_v4, ?c_after_v4, ?c_two128, ?c_2_127, ?c_2_31 in *.

Ltac open_num H :=
  let a := fresh "a" in let l := fresh "l" in
  let E1 := fresh "Es" in let E2 := fresh "Ee" in let E3 := fresh "Em" in
  let B1 := fresh "Bl" in let B2 := fresh "Bu" in let B3 := fresh "Bm" in let B4 := fresh "Be" in
  let B5 := fresh "Bp" in let B6 := fresh "Bh" in let B7 := fresh "Bz" in
  destruct H as [[a [l [E1 [E2 [E3 [B1 [B2 [B3 [B4 [B5 [B6 B7]]]]]]]]]]]|[[E1 [E2 E3]]|[[E1 [E2 E3]]|[E1 [E2 E3]]]]];
  rewrite ?E1, ?E2, ?E3 in *.

Lemma geo_range : forall i, inum i -> i_s i < i_e i /\ i_e i <= two128.
Proof. intros i Hi. open_num Hi; consts; lia. Qed.

Lemma geo_lam : forall i j, inum i -> inum j ->
  i_e i <= i_s j \/ i_e j <= i_s i \/ (i_s i <= i_s j /\ i_e j <= i_e i) \/ (i_s j <= i_s i /\ i_e i <= i_e j).
Proof.
  intros i j Hi Hj. open_num Hi; open_num Hj; try (consts; lia).
  destruct (N.le_ge_cases l l0) as [Le|Ge].
  - destruct (blk_laminar a l a0 l0 Le Bu0 Bm Bm0) as [C|[C|C]]; lia.
  - destruct (blk_laminar a0 l0 a l Ge Bu Bm0 Bm) as [C|[C|C]]; lia.
Qed.

Lemma geo_start : forall i j, inum i -> inum j -> i_s i = i_s j -> i_e j < i_e i -> imask i < imask j.
Proof.
  intros i j Hi Hj. open_num Hi; open_num Hj; intros Es' Ee'; try (consts; lia).
  destruct (N.lt_ge_cases l l0) as [|Ge]; auto. pose proof (blk_size_mono l0 l Ge Bu). lia.
Qed.

Lemma geo_end : forall i j, inum i -> inum j -> i_e i = i_e j -> i_e i < two128 -> i_s i < i_s j -> imask i < imask j.
Proof.
  intros i j Hi Hj. open_num Hi; open_num Hj; intros Ee' Et Es'; try (consts; lia).
  destruct (N.lt_ge_cases l l0) as [|Ge]; auto. pose proof (blk_size_mono l0 l Ge Bu). lia.
Qed.

Ltac split_hyps :=
  repeat match goal with
         | H : exists _, _ |- _ => destruct H
         | H : _ /\ _ |- _ => destruct H
         end.

(* two items of the shape of the IPv4 default are the same item: the caller shows it *)
Lemma geo_mono : forall i j, inum i -> inum j -> (d4_num i -> d4_num j -> imask i = imask j) ->
  i_s i <= i_s j -> i_e j <= i_e i -> imask i <= imask j.
Proof.
  intros i j Hi Hj U Es' Ee'.
  destruct Hi as [[a [l Fi]]|Hi]; destruct Hj as [[a' [l' Fj]]|Hj].
  - destruct Fi as [E1 [E2 [E3 [B1 [B2 [B3 [B4 [B5 [B6 B7]]]]]]]]].
    destruct Fj as [E1' [E2' [E3' [B1' [B2' [B3' [B4' [B5' [B6' B7']]]]]]]]].
    rewrite E1, E2, E3, E1', E2', E3' in *.
    destruct (N.le_gt_cases l l') as [|Gt]; auto. pose proof (blk_size_smono l' l Gt B2). lia.
  - unfold d6a_num, d6b_num, d4_num in Hj. split_hyps. consts. lia.
  - unfold d6a_num, d6b_num, d4_num in Hi. split_hyps. consts. lia.
  - destruct Hi as [Hi|[Hi|Hi]]; destruct Hj as [Hj|[Hj|Hj]];
      try (specialize (U Hi Hj)); unfold d6a_num, d6b_num, d4_num in *; split_hyps; consts; lia.
Qed.

(* ---------------------------------------------------------------- an interval determines its item *)

Lemma sub_items_num : forall s j, wf_subnetb s = true -> In j (sub_items s) -> inum j.
Proof.
  intros s j W Hj. unfold sub_items in Hj.
  destruct (is_def6 s) eqn:E6; [|destruct (is_def4 s) eqn:E4].
  - destruct (def6_fields s E6) as [L _].
    destruct Hj as [<-|[<-|[]]]; [right; left|right; right; left]; unfold d6a_num, d6b_num, imask, sub_rloc; cbn; rewrite L; auto.
  - destruct (def4_fields s E4) as [L _].
    destruct Hj as [<-|[]]. right. right. right. unfold d4_num, imask, sub_rloc. cbn. rewrite L. auto.
  - destruct Hj as [<-|[]]. left. apply nondef_blk_num; auto.
Qed.

(* which kind of subnet an interval comes from *)
Lemma sub_items_class : forall s j, wf_subnetb s = true -> In j (sub_items s) ->
  ((i_s j = 0 \/ i_s j = after_v4) -> i_e j = two128 -> is_def6 s = true) /\
  (i_s j = first_v4 -> i_e j = after_v4 -> is_def4 s = true).
Proof.
  intros s j W Hj. unfold sub_items in Hj.
  destruct (is_def6 s) eqn:E6; [|destruct (is_def4 s) eqn:E4].
  - split; auto. destruct Hj as [<-|[<-|[]]]; cbn; intros A B; exfalso; revert A B; consts; try discriminate; lia.
  - split; auto. destruct Hj as [<-|[]]. cbn. intros A B. exfalso. revert A B. consts. intros [A|A]; discriminate.
  - destruct Hj as [<-|[]]. pose proof (nondef_blk_num s W E6 E4) as Nm.
    destruct Nm as [a [l [E1 [E2 [E3 [B1 [B2 [B3 [B4 [B5 [B6 B7]]]]]]]]]]]. rewrite E1, E2. split.
    + intros A B. exfalso. revert A B B4 B6 B7 B5. consts. lia.
    + intros A B. exfalso. revert A B B4 B6 B7 B5. consts. lia.
Qed.

Lemma sub_items_interval_inj : forall s s' i j, wf_subnetb s = true -> wf_subnetb s' = true ->
  In i (sub_items s) -> In j (sub_items s') -> i_s i = i_s j -> i_e i = i_e j ->
  s_addr s = s_addr s' /\ s_len s = s_len s' /\ (s = s' -> i = j).
Proof.
  intros s s' i j W W' Hi Hj Es Ee.
  destruct (sub_items_class s i W Hi) as [Ci6 Ci4]. destruct (sub_items_class s' j W' Hj) as [Cj6 Cj4].
  unfold sub_items in Hi, Hj.
  destruct (is_def6 s) eqn:E6; [|destruct (is_def4 s) eqn:E4].
  - (* s = ::/0 *)
    destruct (def6_fields s E6) as [L A].
    assert (X : is_def6 s' = true).
    { apply Cj6; destruct Hi as [<-|[<-|[]]]; cbn in Es, Ee; auto. }
    destruct (def6_fields s' X) as [L' A']. split; [congruence|]. split; [congruence|].
    intros ->. rewrite E6 in Hj.
    destruct Hi as [<-|[<-|[]]]; destruct Hj as [<-|[<-|[]]]; auto; cbn in Es; exfalso; revert Es; consts; discriminate.
  - (* s = 0.0.0.0/0 *)
    destruct (def4_fields s E4) as [L A].
    assert (X : is_def4 s' = true).
    { apply Cj4; destruct Hi as [<-|[]]; cbn in Es, Ee; auto. }
    destruct (def4_fields s' X) as [L' A']. split; [congruence|]. split; [congruence|].
    intros ->. rewrite E6, E4 in Hj. destruct Hi as [<-|[]]. destruct Hj as [<-|[]]. reflexivity.
  - (* s is a block *)
    destruct Hi as [<-|[]].
    destruct (blk_item_fields s W) as [F1 [F2 [F3 F4]]].
    destruct (is_def6 s') eqn:E6'; [|destruct (is_def4 s') eqn:E4'].
    + exfalso. assert (X : false = true); [|discriminate X].
      apply Ci6; destruct Hj as [<-|[<-|[]]]; cbn in Es, Ee; auto.
    + exfalso. assert (X : false = true); [|discriminate X].
      apply Ci4; destruct Hj as [<-|[]]; cbn in Es, Ee; auto.
    + destruct Hj as [<-|[]].
      destruct (blk_item_fields s' W') as [F1' [F2' [F3' F4']]].
      destruct (wf_subnetb_spec s W) as [W1 _]. destruct (wf_subnetb_spec s' W') as [W1' _].
      assert (EA : s_addr s = s_addr s') by congruence.
      assert (EL : s_len s = s_len s').
      { apply blk_size_inj; auto. rewrite F2, F2', EA in Ee. lia. }
      split; auto. split; auto. intros ->. reflexivity.
Qed.

Section ItemsOf.
  Variable S : list subnet.
  Hypothesis wfS : wf_subnets S.

  Lemma wfS_all : forallb wf_subnetb S = true.
  Proof. unfold wf_subnets, wf_subnetsb in wfS. apply Bool.andb_true_iff in wfS. tauto. Qed.

  Lemma wfS_each : forall s, In s S -> wf_subnetb s = true.
  Proof. intros s Hs. pose proof wfS_all as W. rewrite forallb_forall in W. auto. Qed.

  Lemma items_inum : forall i, In i (items_of S) -> inum i.
  Proof. intros i Hi. apply (shape_num S); [apply wfS_all|apply items_shape; auto]. Qed.

  Lemma no_def : forall (p : subnet -> bool) s, existsb p S = false -> In s S -> p s = false.
  Proof.
    intros p s E Hs. destruct (p s) eqn:C; auto.
    assert (existsb p S = true) by (apply existsb_exists; eauto). congruence.
  Qed.

  Lemma items_inj : forall i j, In i (items_of S) -> In j (items_of S) -> i_s i = i_s j -> i_e i = i_e j -> i = j.
  Proof.
    intros i j Hi Hj Es Ee. unfold items_of in Hi, Hj.
    apply in_app_or in Hi. apply in_app_or in Hj.
    destruct Hi as [Hi|Hi]; destruct Hj as [Hj|Hj].
    - apply in_flat_map in Hi. destruct Hi as [s [Hs Hi]]. apply in_flat_map in Hj. destruct Hj as [s' [Hs' Hj]].
      destruct (sub_items_interval_inj s s' i j (wfS_each s Hs) (wfS_each s' Hs') Hi Hj Es Ee) as [A [B C]].
      apply C. apply (wf_same_block S); auto.
    - exfalso. apply in_flat_map in Hi. destruct Hi as [s [Hs Hi]].
      destruct (sub_items_class s i (wfS_each s Hs) Hi) as [C6 C4].
      unfold impl_items in Hj. apply in_app_or in Hj. destruct Hj as [Hj|Hj].
      + destruct (existsb is_def4 S) eqn:E; [contradiction|]. destruct Hj as [<-|[]]. cbn in Es, Ee.
        rewrite (no_def is_def4 s E Hs) in C4. specialize (C4 Es Ee). discriminate.
      + destruct (existsb is_def6 S) eqn:E; [contradiction|].
        rewrite (no_def is_def6 s E Hs) in C6.
        destruct Hj as [<-|[<-|[]]]; cbn in Es, Ee; assert (X : false = true) by (apply C6; auto); discriminate.
    - exfalso. apply in_flat_map in Hj. destruct Hj as [s [Hs Hj]].
      destruct (sub_items_class s j (wfS_each s Hs) Hj) as [C6 C4].
      unfold impl_items in Hi. apply in_app_or in Hi. destruct Hi as [Hi|Hi].
      + destruct (existsb is_def4 S) eqn:E; [contradiction|]. destruct Hi as [<-|[]]. cbn in Es, Ee.
        rewrite (no_def is_def4 s E Hs) in C4. symmetry in Es, Ee. specialize (C4 Es Ee). discriminate.
      + destruct (existsb is_def6 S) eqn:E; [contradiction|].
        rewrite (no_def is_def6 s E Hs) in C6.
        destruct Hi as [<-|[<-|[]]]; cbn in Es, Ee; assert (X : false = true) by (apply C6; auto); discriminate.
    - unfold impl_items in Hi, Hj. apply in_app_or in Hi. apply in_app_or in Hj.
      destruct (existsb is_def4 S), (existsb is_def6 S);
        destruct Hi as [Hi|Hi]; destruct Hj as [Hj|Hj]; cbn [In] in Hi, Hj;
        repeat match goal with H : _ \/ _ |- _ => destruct H | H : False |- _ => contradiction end;
        subst; auto; cbn in Es; exfalso; revert Es; consts; discriminate.
  Qed.
End ItemsOf.

(* ---------------------------------------------------------------- no item twice *)

Lemma sub_items_nodup : forall s, NoDup (sub_items s).
Proof.
  intro s. unfold sub_items. destruct (is_def6 s); [|destruct (is_def4 s)].
  - constructor; [|constructor; [intros []|constructor]].
    intros [C|[]]. apply (f_equal i_s) in C. cbn in C. revert C. consts. discriminate.
  - constructor; [intros []|constructor].
  - constructor; [intros []|constructor].
Qed.

Lemma sub_items_nonnull : forall s x, In x (sub_items s) -> rl_null (i_l x) = false.
Proof.
  intros s x H. unfold sub_items in H.
  destruct (is_def6 s); [|destruct (is_def4 s)]; cbn [In] in H;
    repeat match goal with H : _ \/ _ |- _ => destruct H | H : False |- _ => contradiction end; subst; reflexivity.
Qed.

Lemma flat_sub_items_nodup : forall T, forallb wf_subnetb T = true -> nodup_blocksb T = true ->
  NoDup (flat_map sub_items T).
Proof.
  induction T as [|s T IH]; intros W N; [constructor|].
  cbn [forallb] in W. apply Bool.andb_true_iff in W. destruct W as [Ws W].
  cbn [nodup_blocksb] in N. apply Bool.andb_true_iff in N. destruct N as [N1 N2]. apply Bool.negb_true_iff in N1.
  cbn [flat_map]. apply nodup_app_intro; auto using sub_items_nodup.
  intros x Hx C. apply in_flat_map in C. destruct C as [s' [Hs' Hx']].
  rewrite forallb_forall in W.
  destruct (sub_items_interval_inj s s' x x Ws (W s' Hs') Hx Hx' eq_refl eq_refl) as [A [B _]].
  assert (X : existsb (same_blockb s) T = true).
  { apply existsb_exists. exists s'. split; auto. unfold same_blockb. rewrite A, B, !N.eqb_refl. reflexivity. }
  congruence.
Qed.

Lemma impl_items_nodup : forall S, NoDup (impl_items S).
Proof.
  intro S. unfold impl_items.
  assert (D1 : mkItem first_v4 after_v4 null_loc null_loc <> mkItem first_v6 two128 null_loc null_loc)
    by (intro C; apply (f_equal i_s) in C; cbn in C; revert C; consts; discriminate).
  assert (D2 : mkItem first_v4 after_v4 null_loc null_loc <> mkItem after_v4 two128 null_loc null_loc)
    by (intro C; apply (f_equal i_s) in C; cbn in C; revert C; consts; discriminate).
  assert (D3 : mkItem first_v6 two128 null_loc null_loc <> mkItem after_v4 two128 null_loc null_loc)
    by (intro C; apply (f_equal i_s) in C; cbn in C; revert C; consts; discriminate).
  destruct (existsb is_def4 S), (existsb is_def6 S); cbn [app];
    repeat (constructor; [cbn [In]; intuition congruence|]); constructor.
Qed.

Lemma items_nodup : forall S, wf_subnets S -> NoDup (items_of S).
Proof.
  intros S W. unfold wf_subnets, wf_subnetsb in W. apply Bool.andb_true_iff in W. destruct W as [W1 W2].
  unfold items_of. apply nodup_app_intro.
  - apply flat_sub_items_nodup; auto.
  - apply impl_items_nodup.
  - intros x Hx C. apply in_flat_map in Hx. destruct Hx as [s [_ Hx]].
    pose proof (sub_items_nonnull s x Hx) as Nn.
    unfold impl_items in C. apply in_app_or in C.
    destruct (existsb is_def4 S), (existsb is_def6 S); cbn [In] in C;
      repeat match goal with H : _ \/ _ |- _ => destruct H | H : False |- _ => contradiction end;
      subst; discriminate Nn.
Qed.

Lemma items_emask : forall S i, In i (items_of S) -> rl_mask (i_el i) = imask i.
Proof.
  intros S i H. apply items_shape in H.
  destruct H as [s Hs E6 E4 ->|s Hs E6 ->|s Hs E6 ->|s Hs E4 ->|E ->|E ->|E ->]; reflexivity.
Qed.

Lemma items_null_mask : forall S i, In i (items_of S) -> rl_null (i_l i) = true -> imask i = 0.
Proof.
  intros S i H. apply items_shape in H.
  destruct H as [s Hs E6 E4 ->|s Hs E6 ->|s Hs E6 ->|s Hs E4 ->|E ->|E ->|E ->]; cbn; try discriminate; auto.
Qed.

(* the bottom item: the IPv6 default, declared or implicit *)
Definition bottom_of (S : list subnet) : item :=
  match find is_def6 S with
  | Some s => mkItem first_v6 two128 (sub_rloc s) (sub_rloc s)
  | None => mkItem first_v6 two128 null_loc null_loc
  end.

Lemma bottom_of_spec : forall S, In (bottom_of S) (items_of S) /\ i_s (bottom_of S) = 0 /\
  i_e (bottom_of S) = two128 /\ imask (bottom_of S) = 0.
Proof.
  intro S. unfold bottom_of. destruct (find is_def6 S) as [s|] eqn:F.
  - apply find_some in F. destruct F as [Hs E6]. destruct (def6_fields s E6) as [L _]. split.
    + apply shape_in. eapply ShD6a; eauto.
    + cbn. unfold imask, sub_rloc. cbn. rewrite L. auto.
  - assert (E : existsb is_def6 S = false).
    { destruct (existsb is_def6 S) eqn:C; auto. apply existsb_exists in C. destruct C as [s [Hs E6]].
      pose proof (find_none _ _ F s Hs). congruence. }
    split; [apply shape_in; apply ShN6a; auto|]. cbn. auto.
Qed.

(* ---------------------------------------------------------------- the innermost eligible item is the longest-prefix match *)

Section Answer.
  Variable S : list subnet.
  Hypothesis wfS : wf_subnets S.
  Variable a plen : N.
  Hypothesis a_lt : a < two128.
  Hypothesis plen_le : plen <= 128.
  Hypothesis a_masked : masked a plen.

  Let its := items_of S.
  Definition inEa (j : item) : Prop := i_s j <= a /\ a < i_e j /\ (i_s j = a -> imask j <= plen).

  (* an item that contains a-1 and a is not longer than the client prefix *)
  Lemma items_straddle : forall j, In j its -> i_s j < a -> a < i_e j -> imask j <= plen.
  Proof.
    intros j Hj L1 L2. pose proof (items_inum S wfS j Hj) as Nj.
    assert (St : forall x l, masked x l -> l <= 128 -> x < a -> a < x + blk_size l -> l < plen).
    { intros x l Mx Ll X1 X2. set (s := mkSubnet x l (0, 0)).
      apply (straddle s a plen); auto; try lia; apply contains_iff; cbn; auto; lia. }
    destruct Nj as [[x [l [E1 [E2 [E3 [B1 [B2 [B3 [B4 [B5 [B6 B7]]]]]]]]]]]|[[E1 [E2 E3]]|[[E1 [E2 E3]]|[E1 [E2 E3]]]]].
    - rewrite E1, E2, E3 in *. pose proof (St x l B3 B2 L1 L2). lia.
    - lia.
    - lia.
    - rewrite E1, E2 in *. assert (M96 : masked first_v4 96) by reflexivity.
      assert (X : 96 < plen).
      { apply (St first_v4 96 M96); try lia. rewrite blk_size_96. change (first_v4 + 2 ^ 32) with after_v4. exact L2. }
      lia.
  Qed.

  Lemma v4_plen : is_v4 a = true -> 96 <= plen.
  Proof.
    intro V. destruct (N.lt_ge_cases plen 96) as [Lt|]; auto.
    rewrite (masked_lt96_not_v4 a plen Lt a_masked) in V. discriminate.
  Qed.

  (* the item of an eligible subnet that contains a *)
  Lemma item_of_eligible : forall s, In s S -> eligible (fam a) a plen s = true ->
    exists j, In j its /\ inEa j /\ imask j = s_len s /\ rl_null (i_l j) = false /\ In j (sub_items s).
  Proof.
    intros s Hs El. pose proof (wfS_each S wfS s Hs) as W.
    destruct (wf_subnetb_spec s W) as [W1 [W2 [W3 W4]]].
    unfold eligible in El. apply Bool.andb_true_iff in El. destruct El as [El Ec].
    apply Bool.andb_true_iff in El. destruct El as [Ef Ep]. apply N.leb_le in Ep.
    assert (Hin : forall j, In j (sub_items s) -> In j its).
    { intros j Hj. unfold its, items_of. apply in_or_app. left. apply in_flat_map. eauto. }
    destruct (is_def6 s) eqn:E6; [|destruct (is_def4 s) eqn:E4].
    - destruct (def6_fields s E6) as [L A].
      exists (mkItem first_v6 two128 (sub_rloc s) (sub_rloc s)).
      assert (Hj : In (mkItem first_v6 two128 (sub_rloc s) (sub_rloc s)) (sub_items s))
        by (unfold sub_items; rewrite E6; left; auto).
      split; auto. split; [|split; [|split; auto]].
      + unfold inEa, first_v6. cbn [i_s i_e]. split; [lia|]. split; [exact a_lt|].
        intros _. unfold imask, sub_rloc. cbn. rewrite L. cbn. lia.
      + unfold imask, sub_rloc. cbn. rewrite L. reflexivity.
    - destruct (def4_fields s E4) as [L A].
      assert (Va : is_v4 a = true).
      { rewrite (sfam_masked s W3), A in Ef. change (is_v4 first_v4) with true in Ef. unfold fam in Ef.
        destruct (is_v4 a); auto. }
      apply is_v4_iff in Va.
      exists (mkItem first_v4 after_v4 (sub_rloc s) (sub_rloc s)).
      assert (Hj : In (mkItem first_v4 after_v4 (sub_rloc s) (sub_rloc s)) (sub_items s))
        by (unfold sub_items; rewrite E6, E4; left; auto).
      split; auto. split; [|split; [|split; auto]].
      + unfold inEa. cbn [i_s i_e]. split; [lia|]. split; [lia|].
        intros _. unfold imask, sub_rloc. cbn. rewrite L. cbn.
        assert (V : is_v4 a = true) by (apply is_v4_iff; auto). exact (v4_plen V).
      + unfold imask, sub_rloc. cbn. rewrite L. reflexivity.
    - exists (blk_item s).
      assert (Hj : In (blk_item s) (sub_items s)) by (unfold sub_items; rewrite E6, E4; left; auto).
      destruct (blk_item_fields s W) as [F1 [F2 [F3 F4]]].
      apply contains_iff in Ec; auto.
      split; auto. split; [|split; [|split; auto]]; auto.
      unfold inEa. rewrite F1, F2, F3. repeat split; try lia.
  Qed.

  Lemma inE_mask_le : forall j t, In j its -> In t its -> inEa j -> inEa t -> (j = t \/ ilt j t) -> imask j <= imask t.
  Proof.
    intros j t Hj Ht [J1 [J2 _]] [T1 [T2 _]] [->|Lt]; [lia|].
    destruct Lt as [Lt|[_ Lt]]; [|lia].
    pose proof (items_inum S wfS j Hj) as Nj. pose proof (items_inum S wfS t Ht) as Nt.
    apply geo_mono; auto; try lia.
    - intros Dj Dt. destruct Dj as [A1 [A2 _]]. destruct Dt as [B1 [B2 _]].
      assert (j = t) by (apply (items_inj S wfS); auto; congruence). subst. reflexivity.
    - destruct (geo_lam j t Nj Nt) as [C|[C|[C|C]]]; lia.
  Qed.

  Definition item_value (t : item) : option (locid * N) :=
    if rl_null (i_l t) then None else Some (rl_id (i_l t), rl_mask (i_l t)).

  Lemma sub_rloc_value : forall s, s_len s <= 128 ->
    (if rl_null (sub_rloc s) then None else Some (rl_id (sub_rloc s), rl_mask (sub_rloc s))) = Some (s_loc s, s_len s).
  Proof. intros s H. unfold sub_rloc. cbn. rewrite N.mod_small by lia. reflexivity. Qed.

  (* same length and both contain a: the same subnet *)
  Lemma eligible_same_len : forall s s', In s S -> In s' S -> contains s a = true -> contains s' a = true ->
    s_len s = s_len s' -> s = s'.
  Proof.
    intros s s' Hs Hs' C C' E.
    destruct (wf_subnetb_spec s (wfS_each S wfS s Hs)) as [_ [_ [W3 _]]].
    destruct (wf_subnetb_spec s' (wfS_each S wfS s' Hs')) as [_ [_ [W3' _]]].
    apply contains_clean in C; auto. apply contains_clean in C'; auto.
    apply (wf_same_block S); auto. rewrite <- C, <- C', E. reflexivity.
  Qed.

  Lemma d4_item_exists : exists d, In d its /\ i_s d = first_v4 /\ i_e d = after_v4 /\ (imask d = 96 \/ imask d = 0).
  Proof.
    destruct (existsb is_def4 S) eqn:E.
    - apply existsb_exists in E. destruct E as [s4 [Hs4 E4]]. destruct (def4_fields s4 E4) as [L _].
      exists (mkItem first_v4 after_v4 (sub_rloc s4) (sub_rloc s4)). split.
      + apply shape_in. eapply ShD4; eauto.
      + cbn. unfold imask, sub_rloc. cbn. rewrite L. auto.
    - exists (mkItem first_v4 after_v4 null_loc null_loc). split; [apply shape_in; apply ShN4; auto|]. cbn. auto.
  Qed.

  (* a default of the other family, or a null item, is never above an eligible subnet's item *)
  Lemma null_no_eligible : forall t, In t its -> inEa t -> rl_null (i_l t) = true ->
    (forall j, In j its -> inEa j -> j = t \/ ilt j t) ->
    (i_s t = 0 \/ (i_s t = after_v4 /\ existsb is_def6 S = false) \/
     (i_s t = first_v4 /\ i_e t = after_v4 /\ existsb is_def4 S = false)) -> imask t = 0 ->
    forall s', In s' S -> eligible (fam a) a plen s' = false.
  Proof.
    intros t Ht Et Nt Mx Cl Mt s' Hs'. destruct (eligible (fam a) a plen s') eqn:El; auto. exfalso.
    destruct (item_of_eligible s' Hs' El) as [j [Hj [Ej [Mj [Nj Sj]]]]].
    pose proof (wfS_each S wfS s' Hs') as W'.
    assert (Ne : j <> t) by (intro C; subst; congruence).
    destruct (Mx j Hj Ej) as [C|Lt]; [contradiction|].
    destruct Et as [T1 [T2 T3]]. destruct Ej as [J1 [J2 J3]].
    destruct (sub_items_class s' j W' Sj) as [C6 C4].
    pose proof (sub_items_num s' j W' Sj) as Nm.
    destruct Lt as [Lt|[_ Lt]]; [|lia].
    destruct Cl as [Cl|[[Cl E]|[Cl [Cl2 E]]]].
    - lia.
    - (* t is the implicit null point after the v4-mapped block *)
      destruct Nm as [[x [l [E1 [E2 [E3 [B1 [B2 [B3 [B4 [B5 [B6 B7]]]]]]]]]]]|[[E1 [E2 E3]]|[[E1 [E2 E3]]|[E1 [E2 E3]]]]].
      + rewrite E1, E2 in *. revert B7 B5 Lt J2 T1 Cl. consts. intros. lia.
      + rewrite (no_def S is_def6 s' E Hs') in C6. assert (X : false = true) by (apply C6; auto). discriminate.
      + lia.
      + rewrite E2 in J2. lia.
    - (* t is the implicit null range of the v4-mapped block *)
      destruct Nm as [[x [l [E1 [E2 [E3 [B1 [B2 [B3 [B4 [B5 [B6 B7]]]]]]]]]]]|[[E1 [E2 E3]]|[[E1 [E2 E3]]|[E1 [E2 E3]]]]].
      + rewrite E1, E2 in *. revert B7 B5 Lt J2 T1 T2 Cl Cl2. consts. intros. lia.
      + assert (D6 : is_def6 s' = true) by (apply C6; auto).
        destruct (def6_fields s' D6) as [L A].
        destruct (wf_subnetb_spec s' W') as [_ [_ [W3 _]]].
        unfold eligible in El. apply Bool.andb_true_iff in El. destruct El as [El _].
        apply Bool.andb_true_iff in El. destruct El as [Ef _].
        rewrite (sfam_masked s' W3), A in Ef. change (is_v4 0) with false in Ef. unfold fam in Ef.
        assert (V : is_v4 a = true) by (apply is_v4_iff; rewrite Cl in T1; rewrite Cl2 in T2; auto).
        rewrite V in Ef. discriminate Ef.
      + revert E1 Lt Cl. consts. intros. lia.
      + rewrite (no_def S is_def4 s' E Hs') in C4. assert (X : false = true) by (apply C4; auto). discriminate.
  Qed.

  Theorem emax_is_lpm : forall t, In t its -> inEa t ->
    (forall j, In j its -> inEa j -> j = t \/ ilt j t) ->
    item_value t = lpm S (fam a) a plen.
  Proof.
    intros t Ht Et Mx.
    assert (MaxLen : forall s', In s' S -> eligible (fam a) a plen s' = true -> s_len s' <= imask t).
    { intros s' Hs' El. destruct (item_of_eligible s' Hs' El) as [j [Hj [Ej [Mj _]]]].
      rewrite <- Mj. apply inE_mask_le; auto. }
    pose proof Et as [T1 [T2 T3]].
    assert (Tplen : imask t <= plen).
    { destruct (N.eq_dec (i_s t) a) as [E|NE]; auto. apply items_straddle; auto. lia. }
    pose proof (items_shape S t Ht) as Sh.
    destruct Sh as [s Hs E6 E4 Eq|s Hs E6 Eq|s Hs E6 Eq|s Hs E4 Eq|E Eq|E Eq|E Eq].
    - (* a declared block *)
      pose proof (wfS_each S wfS s Hs) as W. destruct (wf_subnetb_spec s W) as [W1 [W2 [W3 W4]]].
      destruct (blk_item_fields s W) as [F1 [F2 [F3 F4]]].
      pose proof (nondef_blk_num s W E6 E4) as Nm.
      assert (Iv : s_addr s <= a /\ a < s_addr s + blk_size (s_len s)).
      { rewrite <- F2, <- F1, <- Eq. lia. }
      assert (Cs : contains s a = true) by (apply contains_iff; auto).
      unfold item_value. rewrite Eq. cbn [blk_item i_l]. rewrite (sub_rloc_value s W1).
      symmetry. apply lpm_unique; auto.
      + unfold eligible. rewrite Cs, Bool.andb_true_r. apply Bool.andb_true_iff. split.
        * rewrite (sfam_masked s W3). unfold fam.
          assert (EV : is_v4 (s_addr s) = is_v4 a).
          { destruct Nm as [x [l [E1 [E2 [E3 [B1 [B2 [B3 [B4 [B5 [B6 B7]]]]]]]]]]].
            rewrite F1 in E1. rewrite F2 in E2. subst x.
            assert (El : blk_size l = blk_size (s_len s)) by lia. rewrite El in *.
            apply Bool.eq_true_iff_eq. rewrite !is_v4_iff.
            revert B7 B5 Iv. consts. intros. lia. }
          rewrite EV. destruct (is_v4 a); reflexivity.
        * apply N.leb_le. rewrite <- F3, <- Eq. exact Tplen.
      + intros s' Hs' El. rewrite <- F3, <- Eq. apply MaxLen; auto.
      + intros s' Hs' El EL. f_equal.
        unfold eligible in El. apply Bool.andb_true_iff in El. destruct El as [_ Cs'].
        apply (eligible_same_len s' s); auto.
    - (* the declared IPv6 default, first copy *)
      pose proof (wfS_each S wfS s Hs) as W. destruct (wf_subnetb_spec s W) as [W1 [W2 [W3 W4]]].
      destruct (def6_fields s E6) as [L A].
      assert (Mt : imask t = 0) by (rewrite Eq; unfold imask, sub_rloc; cbn; rewrite L; reflexivity).
      assert (Cs : contains s a = true).
      { apply contains_iff; auto. rewrite A, L. change (blk_size 0) with two128. lia. }
      assert (V : is_v4 a = false).
      { destruct (is_v4 a) eqn:V; auto. exfalso. apply is_v4_iff in V.
        destruct d4_item_exists as [d [Hd [D1 [D2 D3]]]].
        assert (Ed : inEa d).
        { unfold inEa. rewrite D1, D2. split; [lia|]. split; [lia|]. intros _.
          assert (V' : is_v4 a = true) by (apply is_v4_iff; auto). pose proof (v4_plen V'). lia. }
        destruct (Mx d Hd Ed) as [C|[C|[C _]]].
        - rewrite C, Eq in D1. cbn in D1. revert D1. consts. discriminate.
        - rewrite D1, Eq in C. cbn in C. revert C. consts. lia.
        - rewrite D1, Eq in C. cbn in C. revert C. consts. discriminate. }
      unfold item_value. rewrite Eq. cbn [i_l]. rewrite (sub_rloc_value s W1).
      symmetry. apply lpm_unique; auto.
      + unfold eligible. rewrite Cs, Bool.andb_true_r. apply Bool.andb_true_iff. split.
        * rewrite (sfam_masked s W3), A. change (is_v4 0) with false. unfold fam. rewrite V. reflexivity.
        * apply N.leb_le. lia.
      + intros s' Hs' El. rewrite L, <- Mt. apply MaxLen; auto.
      + intros s' Hs' El EL. f_equal.
        unfold eligible in El. apply Bool.andb_true_iff in El. destruct El as [_ Cs'].
        apply (eligible_same_len s' s); auto.
    - (* the declared IPv6 default, copy after the v4-mapped block *)
      pose proof (wfS_each S wfS s Hs) as W. destruct (wf_subnetb_spec s W) as [W1 [W2 [W3 W4]]].
      destruct (def6_fields s E6) as [L A].
      assert (Mt : imask t = 0) by (rewrite Eq; unfold imask, sub_rloc; cbn; rewrite L; reflexivity).
      assert (Cs : contains s a = true).
      { apply contains_iff; auto. rewrite A, L. change (blk_size 0) with two128. lia. }
      assert (V : is_v4 a = false).
      { destruct (is_v4 a) eqn:V; auto. exfalso. apply is_v4_iff in V.
        rewrite Eq in T1. cbn [i_s] in T1. lia. }
      unfold item_value. rewrite Eq. cbn [i_l]. rewrite (sub_rloc_value s W1).
      symmetry. apply lpm_unique; auto.
      + unfold eligible. rewrite Cs, Bool.andb_true_r. apply Bool.andb_true_iff. split.
        * rewrite (sfam_masked s W3), A. change (is_v4 0) with false. unfold fam. rewrite V. reflexivity.
        * apply N.leb_le. lia.
      + intros s' Hs' El. rewrite L, <- Mt. apply MaxLen; auto.
      + intros s' Hs' El EL. f_equal.
        unfold eligible in El. apply Bool.andb_true_iff in El. destruct El as [_ Cs'].
        apply (eligible_same_len s' s); auto.
    - (* the declared IPv4 default *)
      pose proof (wfS_each S wfS s Hs) as W. destruct (wf_subnetb_spec s W) as [W1 [W2 [W3 W4]]].
      destruct (def4_fields s E4) as [L A].
      assert (Mt : imask t = 96) by (rewrite Eq; unfold imask, sub_rloc; cbn; rewrite L; reflexivity).
      rewrite Eq in T1, T2. cbn [i_s i_e] in T1, T2.
      assert (Cs : contains s a = true).
      { apply contains_iff; auto. rewrite A, L, blk_size_96. change (first_v4 + 2 ^ 32) with after_v4. lia. }
      assert (V : is_v4 a = true) by (apply is_v4_iff; lia).
      unfold item_value. rewrite Eq. cbn [i_l]. rewrite (sub_rloc_value s W1).
      symmetry. apply lpm_unique; auto.
      + unfold eligible. rewrite Cs, Bool.andb_true_r. apply Bool.andb_true_iff. split.
        * rewrite (sfam_masked s W3), A. change (is_v4 first_v4) with true. unfold fam. rewrite V. reflexivity.
        * apply N.leb_le. lia.
      + intros s' Hs' El. rewrite L, <- Mt. apply MaxLen; auto.
      + intros s' Hs' El EL. f_equal.
        unfold eligible in El. apply Bool.andb_true_iff in El. destruct El as [_ Cs'].
        apply (eligible_same_len s' s); auto.
    - (* implicit null points: nothing is eligible *)
      unfold item_value. rewrite Eq. cbn [i_l null_loc rl_null]. symmetry. apply lpm_none_iff.
      apply (null_no_eligible t); auto; rewrite Eq; cbn; auto.
    - unfold item_value. rewrite Eq. cbn [i_l null_loc rl_null]. symmetry. apply lpm_none_iff.
      apply (null_no_eligible t); auto; rewrite Eq; cbn; auto.
    - unfold item_value. rewrite Eq. cbn [i_l null_loc rl_null]. symmetry. apply lpm_none_iff.
      apply (null_no_eligible t); auto; rewrite Eq; cbn; auto.
  Qed.
End Answer.

(* ---------------------------------------------------------------- C03 on the range points *)

Lemma sub_points_nonempty : forall s, sub_points s <> [].
Proof. intro s. unfold sub_points. destruct (is_def6 s); [|destruct (is_def4 s)]; discriminate. Qed.

Lemma rearrange_rr_nonempty : forall sort r, rr_points r <> [] ->
  rearrange_rr sort r = rbind (sweep [] (sort (rr_points r ++ implicit_points r))) (fun l => Ok (squash l)).
Proof.
  intros sort r H. unfold rearrange_rr. destruct (rr_points r); [contradiction|reflexivity].
Qed.

Section RearrangeWf.
  Variable sort : list point -> list point.
  Hypothesis Hsort : sort_spec sort.
  Variable S : list subnet.
  Hypothesis wfS : wf_subnets S.

  Let r := add_locations S.
  Let its := items_of S.
  Let bot := bottom_of S.
  Let L := sort (rr_points r ++ implicit_points r).

  Lemma L_perm_items : Permutation L (flat_map ipoints its).
  Proof.
    destruct (Hsort (rr_points r ++ implicit_points r)) as [Lp _]. fold L in Lp.
    apply Permutation_sym. unfold r in Lp. rewrite (points_are_item_points S (wfS_all S wfS)) in Lp. exact Lp.
  Qed.

  Lemma L_sorted_items : StronglySorted (fun a b => pless b a = false) L.
  Proof. destruct (Hsort (rr_points r ++ implicit_points r)) as [_ Ls]. exact Ls. Qed.

  Lemma Hrange : forall i, In i its -> i_s i < i_e i /\ i_e i <= two128.
  Proof. intros i Hi. apply geo_range. apply (items_inum S wfS). auto. Qed.
  Lemma Hlam : forall i j, In i its -> In j its ->
    i_e i <= i_s j \/ i_e j <= i_s i \/ (i_s i <= i_s j /\ i_e j <= i_e i) \/ (i_s j <= i_s i /\ i_e i <= i_e j).
  Proof. intros i j Hi Hj. apply geo_lam; apply (items_inum S wfS); auto. Qed.
  Lemma Hstart : forall i j, In i its -> In j its -> i_s i = i_s j -> i_e j < i_e i -> imask i < imask j.
  Proof. intros i j Hi Hj. apply geo_start; apply (items_inum S wfS); auto. Qed.
  Lemma Hend : forall i j, In i its -> In j its -> i_e i = i_e j -> i_e i < two128 -> i_s i < i_s j -> imask i < imask j.
  Proof. intros i j Hi Hj. apply geo_end; apply (items_inum S wfS); auto. Qed.
  Lemma Hinj : forall i j, In i its -> In j its -> i_s i = i_s j -> i_e i = i_e j -> i = j.
  Proof. intros i j Hi Hj. apply (items_inj S wfS); auto. Qed.
  Lemma Hmono : forall i j, In i its -> In j its -> i_s i <= i_s j -> i_e j <= i_e i -> imask i <= imask j.
  Proof.
    intros i j Hi Hj. apply geo_mono; try (apply (items_inum S wfS); auto).
    intros [A1 [A2 _]] [B1 [B2 _]]. assert (i = j) by (apply Hinj; auto; congruence). subst. reflexivity.
  Qed.
  Lemma Hemask : forall i, In i its -> rl_mask (i_el i) = imask i.
  Proof. intros i Hi. apply (items_emask S). auto. Qed.
  Lemma Hbot : In bot its /\ i_s bot = 0 /\ i_e bot = two128.
  Proof. destruct (bottom_of_spec S) as [B1 [B2 [B3 _]]]. auto. Qed.
  Lemma Hbot0 : imask bot = 0.
  Proof. destruct (bottom_of_spec S) as [_ [_ [_ B4]]]. exact B4. Qed.
  Lemma Hnull : forall j, In j its -> rl_null (i_l j) = true -> imask j = 0.
  Proof. intros j Hj. apply (items_null_mask S). auto. Qed.

  (* Rearrange does not panic; its result is the squash of the swept list *)
  Lemma rearrange_result : S <> [] ->
    rearrange sort S = Ok (squash_spec (map (asg its bot) L)).
  Proof.
    intro Hne. unfold rearrange. fold r.
    assert (Hp : rr_points r <> []).
    { unfold r. rewrite add_locations_spec. cbn [rr_points]. destruct S as [|s0 S']; [contradiction|].
      cbn [flat_map]. pose proof (sub_points_nonempty s0). destruct (sub_points s0); [contradiction|discriminate]. }
    rewrite (rearrange_rr_nonempty sort r Hp). fold L.
    rewrite (sweep_correct its (items_nodup S wfS) Hrange Hlam Hstart Hend Hinj Hmono Hemask bot Hbot L L_perm_items L_sorted_items).
    cbn [rbind]. rewrite squash_eq. reflexivity.
  Qed.

  Variable a plen : N.
  Hypothesis Ha : a < two128.
  Hypothesis Hp : plen <= 128.
  Hypothesis Hm : masked a plen.

  Lemma Hstr : forall j, In j its -> i_s j < a -> a < i_e j -> imask j <= plen.
  Proof. intros j Hj. apply (items_straddle S wfS a plen Ha Hp Hm). auto. Qed.

  Definition point_value (p : point) : option (locid * N) :=
    if rl_null (p_loc p) then None else Some (rl_id (p_loc p), rl_mask (p_loc p)).

  (* a range point that is greatest among the range points not above (a, plen) carries the longest-prefix match *)
  Lemma max_point_is_lpm : S <> [] -> forall pts p, rearrange sort S = Ok pts ->
    In p pts -> keyle_q p a plen -> (forall q, In q pts -> keyle_q q a plen -> keyle q p) ->
    point_value p = lpm S (fam a) a plen.
  Proof.
    intros Hne pts p E Hin Hle Hmax. rewrite (rearrange_result Hne) in E. inversion E. subst pts.
    destruct (sweep_locate_gen its (items_nodup S wfS) Hrange Hlam Hstart Hend Hinj Hmono Hemask bot Hbot L
                L_perm_items L_sorted_items a plen Ha Hnull Hstr Hbot0 p Hin Hle Hmax) as [t [Ht [Pl [Et Mx]]]].
    unfold point_value. rewrite Pl. exact (emax_is_lpm S wfS a plen Ha Hp Hm t Ht Et Mx).
  Qed.

  Lemma some_point_below : S <> [] -> forall pts, rearrange sort S = Ok pts ->
    pt_seek_aux None pts a plen <> None.
  Proof.
    intros Hne pts E. rewrite (rearrange_result Hne) in E. inversion E.
    exact (sweep_locate_some its (items_nodup S wfS) Hrange Hlam Hstart Hend Hinj Hmono Hemask bot Hbot L
             L_perm_items L_sorted_items a plen Ha Hnull Hstr Hbot0).
  Qed.

  Lemma points_ip_lt : S <> [] -> forall pts p, rearrange sort S = Ok pts -> In p pts -> p_ip p < two128.
  Proof.
    intros Hne pts p E Hin. rewrite (rearrange_result Hne) in E. inversion E. subst pts.
    exact (kept_ip_lt its Hrange Hlam Hstart Hend Hinj Hmono Hemask bot Hbot L L_perm_items a plen Ha Hnull Hstr Hbot0 p Hin).
  Qed.
End RearrangeWf.

Theorem rearrange_is_lpm : forall sort S a plen,
  sort_spec sort -> wf_subnets S -> a < two128 -> plen <= 128 -> masked a plen ->
  exists pts, rearrange sort S = Ok pts /\ pt_locate pts a plen = lpm S (fam a) a plen.
Proof.
  intros sort S a plen Hsort wfS Ha Hp Hm.
  destruct S as [|s0 S'].
  { exists []. split; reflexivity. }
  assert (Hne : s0 :: S' <> []) by discriminate.
  eexists. split; [apply (rearrange_result sort Hsort _ wfS Hne)|].
  set (pts := squash_spec _).
  assert (E : rearrange sort (s0 :: S') = Ok pts) by (apply (rearrange_result sort Hsort _ wfS Hne)).
  unfold pt_locate.
  pose proof (some_point_below sort Hsort _ wfS a plen Ha Hp Hm Hne pts E) as Sm.
  pose proof (pt_seek_spec pts a plen None I) as Sp.
  destruct (pt_seek_aux None pts a plen) as [p|]; [|contradiction].
  destruct Sp as [[Hin|C] [Hle [Hmax _]]]; [|discriminate C].
  exact (max_point_is_lpm sort Hsort _ wfS a plen Ha Hp Hm Hne pts p E Hin Hle Hmax).
Qed.

(* ---------------------------------------------------------------- order independence *)

Lemma nodup_blocksb_iff : forall S, nodup_blocksb S = true <-> NoDup (map (fun s => (s_addr s, s_len s)) S).
Proof.
  induction S as [|s S IH]; simpl.
  - split; auto. constructor.
  - rewrite Bool.andb_true_iff, Bool.negb_true_iff, IH. split.
    + intros [H1 H2]. constructor; auto. intro C. apply in_map_iff in C. destruct C as [t [E Ht]].
      assert (existsb (same_blockb s) S = true); [|congruence].
      apply existsb_exists. exists t. split; auto. unfold same_blockb. inversion E. rewrite !N.eqb_refl. reflexivity.
    + intro H. inversion H as [|? ? Hn Hd]; subst. split; auto.
      destruct (existsb (same_blockb s) S) eqn:E; auto. exfalso. apply Hn.
      apply existsb_exists in E. destruct E as [t [Ht Et]]. unfold same_blockb in Et.
      apply Bool.andb_true_iff in Et. destruct Et as [E1 E2]. apply N.eqb_eq in E1, E2.
      apply in_map_iff. exists t. split; auto. congruence.
Qed.

Lemma wf_subnets_perm : forall S S', Permutation S S' -> wf_subnets S -> wf_subnets S'.
Proof.
  intros S S' P W. unfold wf_subnets, wf_subnetsb in *. apply Bool.andb_true_iff in W. destruct W as [W1 W2].
  apply Bool.andb_true_iff. split.
  - rewrite forallb_forall in *. intros s Hs. apply W1. apply (Permutation_in _ (Permutation_sym P)). exact Hs.
  - apply nodup_blocksb_iff. apply nodup_blocksb_iff in W2.
    apply (Permutation_NoDup (Permutation_map _ P)). exact W2.
Qed.

(* under the guard lpm does not depend on the order of the declarations *)
Lemma lpm_perm : forall S S' f a plen, wf_subnets S -> Permutation S S' -> lpm S f a plen = lpm S' f a plen.
Proof.
  intros S S' f a plen W P. pose proof (wf_subnets_perm S S' P W) as W'.
  destruct (lpm S f a plen) as [[l k]|] eqn:R.
  - destruct (lpm_some _ _ _ _ _ _ R) as [s [Hs [Es [<- <-]]]].
    symmetry. apply lpm_unique.
    + apply (Permutation_in _ P). exact Hs.
    + exact Es.
    + intros t Ht Et. apply (lpm_max _ _ _ _ _ _ R); auto. apply (Permutation_in _ (Permutation_sym P)). exact Ht.
    + intros t Ht Et El. f_equal.
      unfold eligible in Es, Et. apply Bool.andb_true_iff in Es, Et. destruct Es as [_ Cs], Et as [_ Ct].
      pose proof (Permutation_in _ P Hs) as Hs'.
      destruct (wf_subnetb_spec t (wf_in S' t W' Ht)) as [_ [_ [Wt _]]].
      destruct (wf_subnetb_spec s (wf_in S' s W' Hs')) as [_ [_ [Ws _]]].
      apply contains_clean in Cs; auto. apply contains_clean in Ct; auto.
      apply (wf_same_block S'); auto. rewrite <- Cs, <- Ct, El. reflexivity.
  - symmetry. apply lpm_none_iff. intros t Ht. apply (lpm_none _ _ _ _ R).
    apply (Permutation_in _ (Permutation_sym P)). exact Ht.
Qed.

(* the lookup function computed from the range points does not depend on the order
   in which AddLocation received the subnets (parallel workers), nor on which sorted
   permutation sort.Slice returned *)
Theorem rearrange_order_independent : forall sort sort' S S' a plen,
  sort_spec sort -> sort_spec sort' -> wf_subnets S -> Permutation S S' ->
  a < two128 -> plen <= 128 -> masked a plen ->
  exists pts pts', rearrange sort S = Ok pts /\ rearrange sort' S' = Ok pts' /\
                   pt_locate pts a plen = pt_locate pts' a plen.
Proof.
  intros sort sort' S S' a plen H1 H2 W P Ha Hp Hm.
  destruct (rearrange_is_lpm sort S a plen H1 W Ha Hp Hm) as [pts [E1 L1]].
  destruct (rearrange_is_lpm sort' S' a plen H2 (wf_subnets_perm S S' P W) Ha Hp Hm) as [pts' [E2 L2]].
  exists pts, pts'. split; auto. split; auto. rewrite L1, L2. apply lpm_perm; auto.
Qed.

(* ---------------------------------------------------------------- outside the guard: finding F20 *)

(* every condition of wf_subnets except "no IPv6 subnet other than ::/0 overlaps ::ffff:0:0/96" *)
Definition wf_but_overlap (S : list subnet) : bool :=
  forallb (fun s => (s_len s <=? 128) && (s_addr s <? two128) && (s_addr s mod blk_size (s_len s) =? 0)) S
  && nodup_blocksb S.

(* ::/64 alone: the client ::1:0:0:1 lies inside it and gets no location *)
Theorem rearrange_lpm_refuted_inside :
  exists S a plen, wf_but_overlap S = true /\ a < two128 /\ plen <= 128 /\ masked a plen /\
    exists pts, rearrange isort S = Ok pts /\ pt_locate pts a plen = None /\
                lpm S (fam a) a plen = Some ((0, 1), 64).
Proof.
  exists [mkSubnet 0 64 (0, 1)], (2 ^ 48 + 1), 128.
  split; [vm_compute; reflexivity|]. split; [vm_compute; reflexivity|]. split; [vm_compute; discriminate|].
  split; [vm_compute; reflexivity|].
  eexists. split; [vm_compute; reflexivity|]. split; vm_compute; reflexivity.
Qed.

(* ::/1 alone: the client 8000:: lies outside every subnet and gets its location *)
Theorem rearrange_lpm_refuted_outside :
  exists S a plen, wf_but_overlap S = true /\ a < two128 /\ plen <= 128 /\ masked a plen /\
    exists pts, rearrange isort S = Ok pts /\ pt_locate pts a plen = Some ((0, 1), 1) /\
                lpm S (fam a) a plen = None.
Proof.
  exists [mkSubnet 0 1 (0, 1)], (2 ^ 127), 1.
  split; [vm_compute; reflexivity|]. split; [vm_compute; reflexivity|]. split; [vm_compute; discriminate|].
  split; [vm_compute; reflexivity|].
  eexists. split; [vm_compute; reflexivity|]. split; vm_compute; reflexivity.
Qed.
