(* Proofs/LinkWrsAdditional: C11 x C01 - the whole additional section: Model/Serve's loop over the NS / MX
   targets ([glue_step] of Proofs/Glue.v: db.AdditionalSectionForRecords as C01 characterises it over the
   declared records; want4 / want6 from HasRecord on the message built so far) IS Model/Wrs.additional_section
   (C11's model of the same loop: one Wrs{MaxAnswers: 1} per target, want4 / want6 from HasRecord on the
   message as a list of (name, type)), under an injective coding of owner names as numbers (Model/Wrs.v names
   are N) - so C11_additional_section_one_per_family applies to the realised additional section verbatim.
   The draws of a target's picks are those [realise] uses: position of the pick in the additional section. *)
From DnsV Require Import Base.Bytes Model.Store Model.LookupV1 Model.Serve.
From DnsV Require Import Spec.Answer Spec.Rows Spec.AnswerExtra.
From DnsV Require Import Proofs.Compile Proofs.ZoneCut Proofs.NxDomain Proofs.Referral Proofs.AnswerItems Proofs.Glue Proofs.AuthSections.
From DnsV Require Model.Wrs Proofs.Wrs.
From DnsV Require Import Model.ComposeMore Proofs.LinkWrsServe Proofs.LinkWrsGlue.
From Coq Require Import Lia Permutation ZifyN ZifyNat ZifyBool.
Open Scope N_scope.

Module W := Model.Wrs.

(* ------------------------------------------------------------------ an injective coding of names *)
Fixpoint gcode (l : bytes) : N :=
  match l with [] => 0 | b :: t => (2 * gcode t + 1) * 2 ^ b end.

Lemma odd_pow_inj : forall b b' c c', (2 * c + 1) * 2 ^ b = (2 * c' + 1) * 2 ^ b' -> b = b' /\ c = c'.
Proof.
  induction b as [|b IH] using N.peano_ind; intros b' c c' H.
  - destruct b' as [|b'] using N.peano_ind; [rewrite N.pow_0_r in H; lia|].
    exfalso. rewrite N.pow_0_r, N.pow_succ_r' in H.
    replace ((2 * c' + 1) * (2 * 2 ^ b')) with (2 * ((2 * c' + 1) * 2 ^ b')) in H by ring. lia.
  - destruct b' as [|b'] using N.peano_ind.
    + exfalso. rewrite N.pow_0_r, N.pow_succ_r' in H.
      replace ((2 * c + 1) * (2 * 2 ^ b)) with (2 * ((2 * c + 1) * 2 ^ b)) in H by ring. lia.
    + rewrite !N.pow_succ_r' in H.
      replace ((2 * c + 1) * (2 * 2 ^ b)) with (2 * ((2 * c + 1) * 2 ^ b)) in H by ring.
      replace ((2 * c' + 1) * (2 * 2 ^ b')) with (2 * ((2 * c' + 1) * 2 ^ b')) in H by ring.
      assert (H' : (2 * c + 1) * 2 ^ b = (2 * c' + 1) * 2 ^ b') by lia.
      destruct (IH b' c c' H') as [-> ->]. split; reflexivity.
Qed.

Lemma gcode_inj : forall a b, gcode a = gcode b -> a = b.
Proof.
  induction a as [|x a IH]; intros [|y b] H; cbn [gcode] in H; try reflexivity.
  - exfalso. assert (2 ^ y <> 0) by (apply N.pow_nonzero; lia). nia.
  - exfalso. assert (2 ^ x <> 0) by (apply N.pow_nonzero; lia). nia.
  - apply odd_pow_inj in H as [-> H]. f_equal. apply IH. exact H.
Qed.

(* ------------------------------------------------------------------ the loop, both ways *)
Section Loop.
Variable recs : list record.
Variable L : bytes.
Variable qc : N.
Variable K : Type.
Variable klt : K -> K -> bool.
Variable kpos : K -> bool.
Hypothesis klt_irrefl : forall a, klt a a = false.
Hypothesis klt_trans : forall a b c, klt a b = true -> klt b c = true -> klt a c = true.
Hypothesis kzero_below : forall z a, kpos z = false -> kpos a = true -> klt z a = true.
Variable keyof : N -> N -> K.
Hypothesis keyof_pos : forall u w, u <= W.maxU32 -> kpos (keyof u w) = W.dk_pos (u, w).
Variable code : bytes -> N.
Hypothesis code_inj : forall a b, code a = code b -> a = b.
Variable ds : nat -> nat -> N.          (* position of the pick in the additional section -> candidate -> draw *)
Hypothesis ds_range : forall i j, 0 < ds i j < W.maxU32.

(* the AAAA and the A candidates glue_step collects for a target (none for a family that is not wanted) *)
Definition tcands (m : msg) (t : bytes) : list cand * list cand :=
  let w := add_apply (negb (has_record m t 1)) (negb (has_record m t 28)) (at_keys recs L (lower_bytes t)) wrs_empty in
  (w6 w, w4 w).

Lemma glue_step_tcands : forall m t,
  glue_step recs L qc m t =
  mkMsg (m_an m) (m_ns m)
        (m_ex m ++ wrs_items t qc 1 28 (fst (tcands m t)) ++ wrs_items t qc 1 1 (snd (tcands m t))).
Proof.
  intros m t. unfold glue_step, tcands. cbn [fst snd].
  destruct (has_record m t 1) eqn:E1, (has_record m t 28) eqn:E2; cbn [negb orb]; try reflexivity.
  unfold add_apply. cbn [w4 w6 wrs_empty app]. rewrite !filter_false_r. cbn [map].
  rewrite !wrs_items_nil, !app_nil_r. destruct m; reflexivity.
Qed.

(* what Wrs.record hands out for one pick: the payloads (index, candidate) *)
Definition pick_payloads (max : Z) (d : nat -> N) (ty : N) (cands : list cand) : list payload :=
  W.recs_or_nil kpos (W.feed klt max (pick_rows K keyof d ty cands)) ty.

Definition rec_of_cand (ty : N) (c : cand) : record := mkRec [] false None ty (cand_ttl c) (cand_weight c) (cand_addr c).
Lemma cand_of_rec_of : forall ty c, map cand_of (map (rec_of_cand ty) c) = c.
Proof.
  intros ty c. rewrite map_map. rewrite <- (map_id c) at 2. apply map_ext. intros ((a, b), d). reflexivity.
Qed.

(* outside F18 a pick with MaxAnswers 1 yields exactly the number of records Model/Serve announces *)
Lemma pick_count : forall d ty c, ty = 1 \/ ty = 28 -> (forall j, 0 < d j < W.maxU32) ->
  length (pick_payloads 1 d ty c) = N.to_nat (npick 1 c).
Proof.
  intros d ty c Hty Hd.
  destruct (realise_pick_sound K klt kpos klt_irrefl klt_trans kzero_below keyof keyof_pos 1 d [] ty 0
              (map (rec_of_cand ty) c) ltac:(lia) Hty Hd) as (chosen & E & _ & _ & Ln).
  { apply Forall_forall. intros r Hr. apply in_map_iff in Hr as (x & <- & _). reflexivity. }
  rewrite cand_of_rec_of in E. unfold realise_pick in E. fold (pick_payloads 1 d ty c) in E.
  apply (f_equal (@length rr)) in E. rewrite !map_length in E. rewrite E, Ln.
  rewrite <- (cand_of_rec_of ty c) at 2. rewrite npick_c. unfold nlen. lia.
Qed.

(* the rows handed to Wrs.Add for the targets, and the records it hands back, threading the message *)
Fixpoint trows (m : msg) (ts : list bytes) : list (N * list (W.row K payload)) :=
  match ts with
  | [] => []
  | t :: ts' =>
      let c6 := fst (tcands m t) in
      let c4 := snd (tcands m t) in
      let i6 := length (m_ex m) in
      let i4 := (i6 + length (wrs_items t qc 1 28 c6))%nat in
      (code t, pick_rows K keyof (ds i6) 28 c6 ++ pick_rows K keyof (ds i4) 1 c4)
        :: trows (glue_step recs L qc m t) ts'
  end.

Fixpoint gtriples (m : msg) (ts : list bytes) : list (bytes * N * payload) :=
  match ts with
  | [] => []
  | t :: ts' =>
      let c6 := fst (tcands m t) in
      let c4 := snd (tcands m t) in
      let i6 := length (m_ex m) in
      let i4 := (i6 + length (wrs_items t qc 1 28 c6))%nat in
      map (fun p => (t, 28, p)) (pick_payloads 1 (ds i6) 28 c6) ++
      map (fun p => (t, 1, p)) (pick_payloads 1 (ds i4) 1 c4) ++
      gtriples (glue_step recs L qc m t) ts'
  end.

Fixpoint new_items (m : msg) (ts : list bytes) : list item :=
  match ts with
  | [] => []
  | t :: ts' =>
      wrs_items t qc 1 28 (fst (tcands m t)) ++ wrs_items t qc 1 1 (snd (tcands m t)) ++
      new_items (glue_step recs L qc m t) ts'
  end.

Lemma fold_glue_ex : forall ts m,
  fold_left (glue_step recs L qc) ts m =
  mkMsg (m_an m) (m_ns m) (m_ex m ++ new_items m ts).
Proof.
  induction ts as [|t ts IH]; intros m; cbn [fold_left new_items].
  - rewrite app_nil_r. destruct m; reflexivity.
  - rewrite IH. rewrite (glue_step_tcands m t) at 1 2 3. cbn [m_an m_ns m_ex]. rewrite <- !app_assoc. reflexivity.
Qed.

Definition triple_rr (x : bytes * N * payload) : rr :=
  mkRR (fst (fst x)) (snd (fst x)) qc (cand_ttl (snd (snd x))) (cand_addr (snd (snd x))).

Lemma realise_wrs_item_payloads : forall i t ty c, ty = 1 \/ ty = 28 ->
  realise_from K klt kpos keyof 1 ds i (wrs_items t qc 1 ty c) =
  map triple_rr (map (fun p => (t, ty, p)) (pick_payloads 1 (ds i) ty c)).
Proof.
  intros i t ty c Hty. unfold wrs_items. destruct (npick 1 c =? 0) eqn:E.
  - pose proof (pick_count (ds i) ty c Hty (ds_range i)) as Hc. apply N.eqb_eq in E. rewrite E in Hc.
    destruct (pick_payloads 1 (ds i) ty c); [reflexivity|discriminate].
  - cbn [realise_from realise_item]. rewrite app_nil_r, map_map. unfold realise_pick. reflexivity.
Qed.

(* the new part of the additional section, realised *)
Lemma realise_new_items : forall ts m,
  realise_from K klt kpos keyof 1 ds (length (m_ex m)) (new_items m ts) = map triple_rr (gtriples m ts).
Proof.
  induction ts as [|t ts IH]; intros m; cbn [new_items gtriples]; [reflexivity|].
  rewrite !realise_from_app, !map_app.
  rewrite (realise_wrs_item_payloads _ t 28) by (right; reflexivity).
  rewrite (realise_wrs_item_payloads _ t 1) by (left; reflexivity).
  f_equal. f_equal.
  rewrite <- IH. f_equal. rewrite (glue_step_tcands m t). cbn [m_ex]. rewrite !app_length. lia.
Qed.

(* ---------------------------------------------------------------- the two HasRecord views agree *)
Definition agree (m : msg) (msgN : list (N * N)) : Prop :=
  forall t ty, W.has_record msgN (code t) ty = has_record m t ty.

Lemma code_eqb : forall a b, (code a =? code b) = bytes_eqb a b.
Proof.
  intros a b. destruct (bytes_eqb a b) eqn:E.
  - apply bytes_eqb_eq in E. subst b. apply N.eqb_refl.
  - apply N.eqb_neq. intros H. apply code_inj in H. subst b. rewrite bytes_eqb_refl in E. discriminate.
Qed.

Lemma whas_app : forall a b n q, W.has_record (a ++ b) n q = W.has_record a n q || W.has_record b n q.
Proof. intros. unfold W.has_record. apply existsb_app. Qed.

Lemma whas_const : forall (l : list payload) n0 q0 n q,
  W.has_record (map fst (map (fun a => (n0, q0, a)) l)) n q =
  (n0 =? n) && (q0 =? q) && negb (length l =? 0)%nat.
Proof.
  intros l n0 q0 n q. unfold W.has_record. induction l as [|a l IH]; cbn [map existsb fst snd length].
  - rewrite andb_false_r. reflexivity.
  - rewrite IH. destruct ((n0 =? n) && (q0 =? q)); cbn [andb orb negb Nat.eqb]; reflexivity.
Qed.

Lemma has_wrs_items : forall t ty c t' ty',
  existsb (item_is t' ty') (wrs_items t qc 1 ty c) = bytes_eqb t t' && (ty =? ty') && negb (npick 1 c =? 0).
Proof.
  intros. unfold wrs_items. destruct (npick 1 c =? 0); cbn [existsb negb item_is]; [rewrite andb_false_r; reflexivity|].
  rewrite orb_false_r, andb_true_r, andb_comm. reflexivity.
Qed.

Lemma agree_step : forall m msgN t, agree m msgN ->
  agree (glue_step recs L qc m t)
        (msgN ++ map fst (map (fun a => (code t, W.TypeAAAA, a)) (pick_payloads 1 (ds (length (m_ex m))) 28 (fst (tcands m t))) ++
                          map (fun a => (code t, W.TypeA, a))
                              (pick_payloads 1 (ds (length (m_ex m) + length (wrs_items t qc 1 28 (fst (tcands m t))))%nat) 1
                                             (snd (tcands m t))))).
Proof.
  intros m msgN t A t' ty'. rewrite glue_step_tcands.
  destruct m as [an ns ex]. cbn [m_an m_ns m_ex]. rewrite has_record_ex_app, existsb_app, !has_wrs_items.
  rewrite map_app, !whas_app, !whas_const, (A t' ty'), !code_eqb.
  rewrite (pick_count _ 28) by (auto using ds_range). rewrite (pick_count _ 1) by (auto using ds_range).
  change W.TypeAAAA with 28. change W.TypeA with 1.
  assert (Z : forall n : N, (N.to_nat n =? 0)%nat = (n =? 0)).
  { intros n. destruct (n =? 0) eqn:E; [apply N.eqb_eq in E; subst; reflexivity|apply N.eqb_neq in E; apply Nat.eqb_neq; lia]. }
  rewrite !Z. reflexivity.
Qed.

(* the records of one target: Model/Wrs.additional on the target's rows hands back the payloads of the two picks *)
Lemma pair_payloads : forall d6 d4 c6 c4 (want4 want6 : bool) r6 r4 wt,
  W.additional klt kpos want4 want6 (pick_rows K keyof d6 28 c6 ++ pick_rows K keyof d4 1 c4) = (r6, r4, wt) ->
  r6 = (if want6 then pick_payloads 1 d6 28 c6 else []) /\ r4 = (if want4 then pick_payloads 1 d4 1 c4 else []).
Proof.
  intros d6 d4 c6 c4 want4 want6 r6 r4 wt H. unfold W.additional in H.
  destruct (want4 || want6) eqn:Ew.
  2:{ inversion H; subst. destruct want4, want6; try discriminate. split; reflexivity. }
  rewrite Proofs.Wrs.add_parse_fold in H.
  set (rows := pick_rows K keyof d6 28 c6 ++ pick_rows K keyof d4 1 c4) in *.
  set (flt := filter _ rows) in H.
  change (Proofs.Wrs.fed_from K klt payload (W.wrs_new 1) flt) with (W.feed klt 1 flt) in H.
  destruct (Proofs.Wrs.feed_spec K klt payload 1 flt) as (_ & H4 & H6 & _).
  unfold W.recs_or_nil, W.records in H. cbn [N.eqb Pos.eqb W.TypeA W.TypeAAAA] in H.
  rewrite H4, H6 in H. unfold flt in H.
  rewrite !Proofs.Wrs.fam_items_filter_want in H by (auto). cbn [N.eqb Pos.eqb W.TypeA W.TypeAAAA] in H.
  assert (E6 : W.fam_items 28 rows = W.fam_items 28 (pick_rows K keyof d6 28 c6)).
  { unfold rows. rewrite fam_items_app, (fam_items_pick_other K keyof d4 1 28 c4) by discriminate. apply app_nil_r. }
  assert (E4 : W.fam_items 1 rows = W.fam_items 1 (pick_rows K keyof d4 1 c4)).
  { unfold rows. rewrite fam_items_app, (fam_items_pick_other K keyof d6 28 1 c6) by discriminate. reflexivity. }
  change W.TypeAAAA with 28 in H. change W.TypeA with 1 in H.
  rewrite E6, E4 in H. inversion H; subst r6 r4. clear H.
  unfold pick_payloads. rewrite !(recs_feed_family K klt kpos keyof) by auto.
  split; [destruct want6|destruct want4]; reflexivity.
Qed.

Lemma pick_payloads_nil : forall max d ty, ty = 1 \/ ty = 28 -> pick_payloads max d ty [] = [].
Proof. intros max d ty [-> | ->]; reflexivity. Qed.

Lemma tcands_unwanted : forall m t,
  (has_record m t 28 = true -> fst (tcands m t) = []) /\ (has_record m t 1 = true -> snd (tcands m t) = []).
Proof.
  intros m t. unfold tcands, add_apply. cbn [fst snd w4 w6 wrs_empty app]. split; intros ->; cbn [negb];
    rewrite filter_false_r; reflexivity.
Qed.

Definition enc (x : bytes * N * payload) : N * N * payload := (code (fst (fst x)), snd (fst x), snd x).

(* C11 x C01, the loop: Model/Serve's additional-section loop over the targets is Model/Wrs.additional_section *)
Theorem glue_is_additional_section : forall ts m msgN, agree m msgN ->
  exists wt mN',
    W.additional_section klt kpos msgN (trows m ts) = (map enc (gtriples m ts), wt, mN') /\
    agree (fold_left (glue_step recs L qc) ts m) mN'.
Proof.
  induction ts as [|t ts IH]; intros m msgN A; cbn [trows gtriples W.additional_section fold_left].
  - exists false, msgN. split; [reflexivity|exact A].
  - destruct (W.additional klt kpos (negb (W.has_record msgN (code t) W.TypeA)) (negb (W.has_record msgN (code t) W.TypeAAAA)) _)
      as [[r6 r4] wt0] eqn:Eadd.
    apply pair_payloads in Eadd as [E6 E4].
    change W.TypeA with 1 in E4. change W.TypeAAAA with 28 in E6. rewrite (A t 1) in E4. rewrite (A t 28) in E6.
    destruct (tcands_unwanted m t) as (U6 & U4).
    assert (E6' : r6 = pick_payloads 1 (ds (length (m_ex m))) 28 (fst (tcands m t))).
    { rewrite E6. destruct (has_record m t 28); cbn [negb]; [|reflexivity]. rewrite (U6 eq_refl). reflexivity. }
    assert (E4' : r4 = pick_payloads 1 (ds (length (m_ex m) + length (wrs_items t qc 1 28 (fst (tcands m t))))%nat) 1 (snd (tcands m t))).
    { rewrite E4. destruct (has_record m t 1); cbn [negb]; [|reflexivity]. rewrite (U4 eq_refl). reflexivity. }
    clear E6 E4. subst r6 r4.
    destruct (IH (glue_step recs L qc m t) _ (agree_step m msgN t A)) as (wt' & mN' & Es & A').
    rewrite Es. exists (wt0 || wt'), mN'. split; [|exact A'].
    f_equal. f_equal. rewrite !map_app, !map_map, <- app_assoc. reflexivity.
Qed.
End Loop.

(* ------------------------------------------------------------------ the initial message *)
Definition msg_code (code : bytes -> N) (m : msg) : list (N * N) :=
  map (fun i => (code (fst (item_key i)), snd (item_key i))) (m_an m ++ m_ns m ++ m_ex m).

Lemma agree_init : forall code, (forall a b, code a = code b -> a = b) -> forall m, agree code m (msg_code code m).
Proof.
  intros code Hinj m t ty. unfold msg_code, W.has_record, has_record. rewrite !map_app, !existsb_app, orb_assoc.
  assert (E : forall l, existsb (fun p : N * N => (fst p =? code t) && (snd p =? ty))
                          (map (fun i => (code (fst (item_key i)), snd (item_key i))) l) = existsb (item_is t ty) l).
  { induction l as [|i l IH]; [reflexivity|]. cbn [map existsb fst snd]. rewrite IH. f_equal.
    rewrite (code_eqb code Hinj). destruct i as [r|o ty' c cs k]; cbn [item_key item_is fst snd]; apply andb_comm. }
  rewrite !E. reflexivity.
Qed.

(* ================================================================== the realised additional section *)
Section Realised.
Variable K : Type.
Variable klt : K -> K -> bool.
Variable kpos : K -> bool.
Hypothesis klt_irrefl : forall a, klt a a = false.
Hypothesis klt_trans : forall a b c, klt a b = true -> klt b c = true -> klt a c = true.
Hypothesis kzero_below : forall z a, kpos z = false -> kpos a = true -> klt z a = true.
Variable keyof : N -> N -> K.
Hypothesis keyof_pos : forall u w, u <= W.maxU32 -> kpos (keyof u w) = W.dk_pos (u, w).
Variable code : bytes -> N.
Hypothesis code_inj : forall a b, code a = code b -> a = b.

(* core: a response whose additional section is the glue fold over targets ts of a message without additional
   records (C01_referral_glue; Proofs/AuthSections.additional_targets for authoritative answers) *)
Theorem realised_additional_is_wrs : forall recs L qc an ns ts (x : response) (dr : draws) max,
  rs_ex x = m_ex (fold_left (glue_step recs L qc) ts (mkMsg an ns [])) ->
  (forall s i j, 0 < dr s i j < W.maxU32) ->
  let m0 := mkMsg an ns [] in
  let tr := gtriples recs L qc K klt kpos keyof (dr sec_ex) m0 ts in
  c_ex (realise K klt kpos keyof dr max x) = map (triple_rr qc) tr /\
  exists wt mN',
    W.additional_section klt kpos (msg_code code m0) (trows recs L qc K keyof code (dr sec_ex) m0 ts) =
      (map (enc code) tr, wt, mN').
Proof.
  intros recs L qc an ns ts x dr max Hex Hd m0 tr. split.
  - cbn [realise c_ex]. rewrite Hex, (fold_glue_ex recs L qc ts (mkMsg an ns [])). cbn [m_ex app].
    exact (realise_new_items recs L qc K klt kpos klt_irrefl klt_trans kzero_below keyof keyof_pos code code_inj (dr sec_ex) (Hd sec_ex) ts m0).
  - destruct (glue_is_additional_section recs L qc K klt kpos klt_irrefl klt_trans kzero_below keyof keyof_pos code code_inj
                (dr sec_ex) (Hd sec_ex) ts m0 (msg_code code m0) (agree_init code code_inj m0)) as (wt & mN' & E & _).
    exists wt, mN'. exact E.
Qed.

(* composed with C01_referral_glue: the realised glue of a referral is what Model/Wrs.additional_section returns for
   the NS targets of the cut *)
Theorem referral_additional_is_wrs_v1 : forall b recs L, wf_recs recs -> Forall wf_ns_rdata recs ->
  length L = 2%nat -> b <> RDB2 -> wf_view L recs = true -> forall q n z ecs max x (dr : draws),
  wf_name n -> nlen (pack n) <= 255 -> lower_bytes (q_name q) = pack n ->
  (q_edns q = None \/ q_edns q = Some 0) -> q_type q <> 43 ->
  zone_cut L recs n = Some z -> authoritative L recs z = false ->
  serve b (store_v1 recs) q (LocOk L) ecs max = OReply x ->
  (forall s i j, 0 < dr s i j < W.maxU32) ->
  let m0 := mkMsg [] (map (ns_item (pack z) (q_class q)) (ns_of_cut recs L z)) [] in
  let ts := map r_rdata (ns_of_cut recs L z) in
  let tr := gtriples recs L (q_class q) K klt kpos keyof (dr sec_ex) m0 ts in
  c_ex (realise K klt kpos keyof dr max x) = map (triple_rr (q_class q)) tr /\
  exists wt mN',
    W.additional_section klt kpos (msg_code code m0) (trows recs L (q_class q) K keyof code (dr sec_ex) m0 ts) =
      (map (enc code) tr, wt, mN').
Proof.
  intros b recs L Wf WN HL Hb V q n z ecs max x dr Hn Hl Hq He Hds Hz Ha Hs Hd.
  pose proof (referral_glue_v1 b recs L Wf WN HL Hb V q n z ecs max x Hn Hl Hq He Hds Hz Ha Hs) as Rex.
  exact (realised_additional_is_wrs recs L (q_class q) [] _ _ x dr max Rex Hd).
Qed.
End Realised.
