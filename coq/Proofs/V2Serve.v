(* V2Serve (C02): lifting the reader simulation to the handler.  For records [recs] that are well
   formed, a client location L whose view is well formed (every visible SOA comes with a visible NS)
   and a wire-valid query name, the model of ServeDNSWithRCODE over ANY v2-keyed database holding
   the records (closest-key reader, context cache included) returns the same outcome as over the
   v1-keyed RocksDB database (label-by-label reader). *)
From DnsV Require Import Base.Bytes Model.Store Model.LookupV1 Model.LookupV2 Model.Serve Spec.Answer Spec.Rows.
From DnsV Require Import Proofs.Answer Proofs.Compile Proofs.ZoneCut Proofs.NxDomain Proofs.Store Proofs.Ctx Proofs.CtxFind.
From DnsV Require Import Proofs.Reverse Proofs.RevOrder Proofs.V2Funcs Proofs.SeekSkip Proofs.V2Store Proofs.V2Sim Proofs.NoPanic Proofs.V2Readers.
From DnsV Require Import Proofs.Shape Proofs.Reads Proofs.SoaAuth.
From Coq Require Import ZifyN ZifyNat ZifyBool.
Open Scope N_scope.

(* ---------------------------------------------------------------- invariants of callbacks *)
Lemma iter_rows_inv : forall {S} (P : S -> Prop) (f : cb S) rows s,
  (forall s r, P s -> P (fst (f s r))) -> P s -> P (fst (iter_rows f rows s)).
Proof.
  intros S P f rows. induction rows as [|r t IH]; intros s Hf Hs; [exact Hs|]. cbn [iter_rows].
  pose proof (Hf s r Hs) as H1. destruct (f s r) as [s' stt]. cbn [fst] in H1.
  destruct stt; [apply IH; assumption | exact H1 | exact H1].
Qed.
Lemma for_each_v1_inv : forall {S} (P : S -> Prop) b st key (f : cb S) s,
  (forall s r, P s -> P (fst (f s r))) -> P s -> P (fst (for_each_v1 b st key f s)).
Proof.
  intros S P b st key f s Hf Hs. unfold for_each_v1.
  pose proof (iter_rows_inv P f (get st key) s Hf Hs) as H. destruct (iter_rows f (get st key) s) as [s' stt]. exact H.
Qed.
Lemma for_each_rr_v1_inv : forall {S} (P : S -> Prop) b st name loc (f : cb S) s,
  (forall s r, P s -> P (fst (f s r))) -> P s -> P (fst (for_each_rr_v1 b st name loc f s)).
Proof.
  intros S P b st name loc f s Hf Hs. unfold for_each_rr_v1.
  assert (H1 : P (fst (if is_loc0 loc then (s, false) else for_each_v1 b st (loc ++ name) f s))).
  { destruct (is_loc0 loc); [exact Hs | apply for_each_v1_inv; assumption]. }
  destruct (if is_loc0 loc then (s, false) else for_each_v1 b st (loc ++ name) f s) as [s1 e1]. cbn [fst] in H1.
  destruct e1; [exact H1|]. apply for_each_v1_inv; assumption.
Qed.

Definition owners (o : bytes) (l : list item) : Prop := forall r, In (IRR r) l -> rr_owner r = o.
Lemma owners_app : forall o a b, owners o a -> owners o b -> owners o (a ++ b).
Proof. intros o a b Ha Hb r Hin. apply in_app_or in Hin as [H|H]; [apply Ha | apply Hb]; exact H. Qed.
Lemma owners_nil : forall o, owners o [].
Proof. intros o r []. Qed.
Lemma owners_wrs_items : forall o ow cls max ty c, owners o (wrs_items ow cls max ty c).
Proof.
  intros. unfold wrs_items. destruct (npick max c =? 0); [apply owners_nil|].
  intros r [H|[]]. discriminate.
Qed.

Lemma fa_cb_owner : forall qname qtype wild s r,
  owners qname (snd (fst s)) -> owners qname (snd (fst (fst (fa_cb qname qtype wild s r)))).
Proof.
  intros qname qtype wild [[w an] found] r H. unfold fa_cb. cbn [fst snd] in *.
  destruct (extract_rr r wild) as [[h|]| |]; cbn [fst snd]; try exact H.
  destruct ((h_type h =? 5) || (h_type h =? qtype) || (qtype =? 255)); cbn [fst snd]; [|exact H].
  destruct ((h_type h =? 1) || (h_type h =? 28)).
  - destruct (wrs_add h r w); cbn [fst snd]; exact H.
  - destruct (slice_from r (h_off h)); cbn [fst snd]; try exact H.
    apply owners_app; [exact H|]. intros r0 [E|[]]. inversion E; subst. reflexivity.
Qed.

Lemma find_ans_v1_owner : forall b st fuel q ctrl qname qtype loc wild s s',
  owners qname (snd (fst s)) ->
  find_ans_v1 b st fuel q ctrl qname qtype loc wild s = Val s' -> owners qname (snd (fst s')).
Proof.
  induction fuel as [|fuel IH]; intros q ctrl qname qtype loc wild s s' Hs H; [discriminate|].
  cbn [find_ans_v1] in H.
  set (P := fun x : fa_state => owners qname (snd (fst x))) in *.
  assert (Hf : forall w0 (x : fa_state) r, P x -> P (fst (fa_cb qname qtype w0 x r))) by (intros; apply fa_cb_owner; assumption).
  assert (H1 : P (if is_loc0 loc then s else fst (for_each_v1 b st (loc ++ q) (fa_cb qname qtype wild) s))).
  { destruct (is_loc0 loc); [exact Hs | apply for_each_v1_inv; [apply Hf | exact Hs]]. }
  assert (H2 : P (fst (for_each_v1 b st (loc0 ++ q) (fa_cb qname qtype wild)
                        (if is_loc0 loc then s else fst (for_each_v1 b st (loc ++ q) (fa_cb qname qtype wild) s))))).
  { apply for_each_v1_inv; [apply Hf | exact H1]. }
  revert H H2.
  generalize (fst (for_each_v1 b st (loc0 ++ q) (fa_cb qname qtype wild)
                        (if is_loc0 loc then s else fst (for_each_v1 b st (loc ++ q) (fa_cb qname qtype wild) s)))).
  intros s2 H H2.
  destruct (snd s2); [inversion H; subst; exact H2|].
  destruct (bytes_eqb q ctrl); [inversion H; subst; exact H2|].
  destruct (idx q 0) as [q0| |]; cbn [bind] in H; try discriminate.
  destruct (q0 =? 0); [inversion H; subst; exact H2|].
  destruct (slice q 1 (b8 (q0 + 1))) as [lab| |]; cbn [bind] in H; try discriminate.
  destruct (negb (wildsafe lab)); [inversion H; subst; exact H2|].
  destruct (slice_from q (b8 (q0 + 1))) as [q'| |]; cbn [bind] in H; try discriminate.
  eapply IH; [exact H2 | exact H].
Qed.

Lemma find_answer_v1_owner : forall b st q ctrl qname qtype loc max an found,
  find_answer_v1 b st q ctrl qname qtype loc max = Val (an, found) -> owners qname an.
Proof.
  intros b st q ctrl qname qtype loc max an found H. unfold find_answer_v1 in H.
  destruct (find_ans_v1 b st (S (length q)) q ctrl qname qtype loc false (wrs_empty, [], false)) as [s'| |] eqn:E;
    cbn [bind] in H; try discriminate.
  apply find_ans_v1_owner in E; [|apply owners_nil].
  destruct s' as [[w an0] f0]. cbn [fa_finish fst snd] in *. inversion H; subst.
  apply owners_app; [exact E|]. apply owners_app; apply owners_wrs_items.
Qed.

Lemma soa_cb_owner : forall zname (s : bool * list item) r,
  owners zname (snd s) -> owners zname (snd (fst (soa_cb zname s r))).
Proof.
  intros zname [soa acc] r H. unfold soa_cb. cbn [fst snd] in *.
  destruct (extract_rr r false) as [[h|]| |]; cbn [fst snd]; try exact H.
  destruct (negb soa && (h_type h =? 6)); cbn [fst snd]; [|exact H].
  destruct (slice_from r (h_off h)); cbn [fst snd]; try exact H.
  apply owners_app; [exact H|]. intros r0 [E|[]]. inversion E; subst. reflexivity.
Qed.
Lemma ns_cb_owner : forall zname cls (acc : list item) r,
  owners zname acc -> owners zname (fst (ns_cb zname cls acc r)).
Proof.
  intros zname cls acc r H. unfold ns_cb.
  destruct (extract_rr r false) as [[h|]| |]; cbn [fst snd]; try exact H.
  destruct (h_type h =? 2); cbn [fst]; [|exact H].
  destruct (parse_name (skipn (N.to_nat (h_off h)) r)) as [[nm rest]|]; cbn [fst]; [|exact H].
  apply owners_app; [exact H|]. intros r0 [E|[]]. inversion E; subst. reflexivity.
Qed.

(* ---------------------------------------------------------------- targets of the additional section *)
Definition tname_ok (nm : bytes) : Prop :=
  exists t, name_ok t /\ nlen (pack t) <= 255 /\ lower_bytes nm = pack t.
Definition item_ok (it : item) : Prop := forall nm, target_of it = Some nm -> tname_ok nm.

Lemma parse_tname : forall l nm r, parse_name l = Some (nm, r) -> tname_ok nm.
Proof.
  intros l nm r H. apply parse_name_valid in H as (t & Ht & -> & Hl).
  exists (map lower_bytes t). split; [apply name_ok_map_lower; exact Ht|].
  rewrite <- (lower_pack t Ht). split; [rewrite nlen_lower; exact Hl | reflexivity].
Qed.
Lemma item_ok_owner : forall r, tname_ok (rr_owner r) -> item_ok (IRR r).
Proof.
  intros r Ho nm H. unfold target_of in H.
  destruct (rr_type r =? 2).
  - destruct (parse_name (rr_rdata r)) as [[n0 r0]|] eqn:E; cbn in H; [|discriminate]. inversion H; subst.
    eapply parse_tname; eauto.
  - destruct (rr_type r =? 15).
    + destruct (parse_name (skipn 2 (rr_rdata r))) as [[n0 r0]|] eqn:E; cbn in H; [|discriminate]. inversion H; subst.
      eapply parse_tname; eauto.
    + destruct (rr_type r =? 65); [|discriminate]. inversion H; subst. exact Ho.
Qed.
Lemma items_ok_owners : forall o l, tname_ok o -> owners o l -> forall it, In it l -> item_ok it.
Proof.
  intros o l Ho H it Hin. destruct it as [r|ow ty cls cs k]; [|intros nm X; discriminate].
  apply item_ok_owner. rewrite (H r Hin). exact Ho.
Qed.

Section Serve2.
Variable recs : list record.
Variable L : bytes.
Variable st2 : store.
Hypothesis W : wf_recs recs.
Hypothesis HL : length L = 2%nat.
Hypothesis V2 : v2_store recs st2.
Hypothesis V : wf_view L recs = true.
Let st1 := store_v1 recs.
Let rd1 := reader_v1 RDB1 st1.
Let rd2 := reader_v2 st2.
Let U := v2_uniq recs st2 V2.

Lemma additional_sim : forall items qc m c, (forall it, In it items -> item_ok it) -> get_sound st2 c ->
  exists m' c', additional ctx rd2 items L qc m c = Val (m', c') /\
                additional unit rd1 items L qc m tt = Val (m', tt) /\ get_sound st2 c'.
Proof.
  induction items as [|it t IH]; intros qc m c Hok Hc; cbn [additional].
  - exists m, c. split; [reflexivity | split; [reflexivity | exact Hc]].
  - assert (Hok' : forall it0, In it0 t -> item_ok it0) by (intros; apply Hok; right; assumption).
    destruct (target_of it) as [name|] eqn:Et; [|apply IH; assumption].
    destruct (negb (has_record m name 1) || negb (has_record m name 28)); [|apply IH; assumption].
    destruct (Hok it (or_introl eq_refl) name Et) as (tn & Htn & Hlen & Elow).
    unfold rd2 at 1, rd1 at 1, reader_v2 at 1, reader_v1 at 1. cbn [rd_rr]. rewrite Elow.
    destruct (rr_sim recs L st2 W HL V2 tn c (add_cb (negb (has_record m name 1)) (negb (has_record m name 28))) wrs_empty Htn Hlen Hc)
      as (c1 & E & Hc1).
    rewrite E. fold st1.
    destruct (for_each_rr_v1 RDB1 st1 (pack tn) L (add_cb (negb (has_record m name 1)) (negb (has_record m name 28))) wrs_empty) as [w e].
    cbn [bind fst snd]. apply IH; assumption.
Qed.

(* the NS lookup at a name whose scan found no NS returns nothing *)
Lemma iter_ns_none : forall zname cls rs acc, Forall wf_rec rs ->
  existsb (fun r => negb (r_wild r) && (r_type r =? 2)) rs = false ->
  iter_rows (ns_cb zname cls) (map row_of rs) acc = (acc, Cont).
Proof.
  induction rs as [|r t IH]; intros acc Wf H; [reflexivity|]. cbn [map iter_rows existsb] in *.
  inversion Wf as [|? ? Wr Wt]; subst. apply orb_false_elim in H as [H1 H2].
  unfold ns_cb at 1. rewrite (proj1 (extract_row_of r false Wr)).
  destruct (r_wild r); cbn [Bool.eqb negb andb] in *.
  - apply IH; assumption.
  - unfold head_of. cbn [h_type]. rewrite H1. apply IH; assumption.
Qed.

Lemma ns_none_key : forall key zname cls acc, kns recs key = false ->
  for_each_v1 RDB1 st1 key (ns_cb zname cls) acc = (acc, false).
Proof.
  intros key zname cls acc H. unfold for_each_v1, st1, store_v1. rewrite get_store_of, rows_for_v1.
  rewrite iter_ns_none; [reflexivity | apply Forall_filter; exact W | exact H].
Qed.

Lemma no_ns_lookup : forall y zname cls, no_ns RDB1 recs L y ->
  for_each_rr_v1 RDB1 st1 (pack y) L (ns_cb zname cls) [] = ([], false).
Proof.
  intros y zname cls H. unfold no_ns in H. rewrite (scan_auth_eq RDB1 recs L W) in H. cbn [fst orb] in H.
  unfold for_each_rr_v1. destruct (is_loc0 L).
  - cbn [orb] in H. apply ns_none_key. exact H.
  - apply orb_false_elim in H as [H1 H2]. rewrite (ns_none_key _ _ _ _ H1). apply ns_none_key. exact H2.
Qed.

(* what the two handlers hold as zone cut after IsAuthoritative (and its DS re-evaluation) *)
Definition zc_rel (n : name) (auth : bool) (zc1 zc2 : bytes) : Prop :=
  (zc1 = zc2 /\ exists zz z, n = zz ++ z /\ zc1 = pack z) \/
  (auth = false /\ zc1 = [0] /\ no_ns RDB1 recs L [] /\
   exists zz y, n = zz ++ y /\ zc2 = pack y /\ no_ns RDB1 recs L y).

Lemma sections_sim : forall n q ecs auth zc1 zc2 an rcode c,
  wf_name n -> nlen (pack n) <= 255 -> lower_bytes (q_name q) = pack n ->
  get_sound st2 c -> zc_rel n auth zc1 zc2 -> owners (q_name q) an -> (auth = false -> an = []) ->
  serve_sections ctx rd2 q ecs L auth zc2 an rcode c = serve_sections unit rd1 q ecs L auth zc1 an rcode tt.
Proof.
  intros n q ecs auth zc1 zc2 an rcode c Hn Hlen Hq Hc Hz Han Hna.
  assert (Tq : tname_ok (q_name q)).
  { exists n. split; [apply wf_name_ok; exact Hn|]. split; [exact Hlen | exact Hq]. }
  assert (Tz : forall zz z, n = zz ++ z -> wf_name z /\ nlen (pack z) <= 255 /\ tname_ok (pack z)).
  { intros zz z E. assert (Hz' : wf_name z) by (rewrite E in Hn; eapply wf_name_suffix; eauto).
    assert (Hl : nlen (pack z) <= 255) by (pose proof (nlen_pack_suffix zz z); rewrite <- E in *; lia).
    split; [exact Hz'|]. split; [exact Hl|].
    exists (map lower_bytes z). split; [apply name_ok_map_lower, wf_name_ok; exact Hz'|].
    rewrite <- (lower_pack z (wf_name_ok z Hz')). split; [rewrite nlen_lower; exact Hl | reflexivity]. }
  (* the tail shared by all cases: additional sections over equal messages *)
  assert (Tail : forall nsec c4 zn, get_sound st2 c4 -> tname_ok zn -> owners zn nsec ->
            lift ('(m1, c5) <- additional ctx rd2 (m_an (mkMsg an nsec [])) L (q_class q) (mkMsg an nsec []) c4 ;;
                  additional ctx rd2 (m_ns m1) L (q_class q) m1 c5)
              (fun y => let '(m2, _) := y in
                 OReply (mkResp (q_id q) (question_of q) rcode auth (m_an m2) (m_ns m2) (m_ex m2) (opt_of q ecs))) =
            lift ('(m1, c5) <- additional unit rd1 (m_an (mkMsg an nsec [])) L (q_class q) (mkMsg an nsec []) tt ;;
                  additional unit rd1 (m_ns m1) L (q_class q) m1 c5)
              (fun y => let '(m2, _) := y in
                 OReply (mkResp (q_id q) (question_of q) rcode auth (m_an m2) (m_ns m2) (m_ex m2) (opt_of q ecs)))).
  { intros nsec c4 zn Hc4 Tzn Hns. cbn [m_an].
    destruct (additional_sim an (q_class q) (mkMsg an nsec []) c4 (items_ok_owners _ _ Tq Han) Hc4) as (m1 & c5 & A1 & A2 & Hc5).
    rewrite A1, A2. cbn [bind].
    assert (Ens : m_ns m1 = nsec) by (apply (additional_keeps _ _ _ _ _ _ _ _ _ A2)).
    rewrite Ens.
    destruct (additional_sim nsec (q_class q) m1 c5 (items_ok_owners _ _ Tzn Hns) Hc5) as (m2 & c6 & B1 & B2 & _).
    rewrite B1, B2. reflexivity. }
  unfold serve_sections.
  destruct Hz as [[Ezc (zz & z & En & Ez)]|(Ea & Ez1 & Hr & zz & y & En & Ez2 & Hy)].
  - (* same zone cut *)
    subst zc2. rewrite Ez. destruct (Tz zz z En) as (Hzw & Hzl & Tzn).
    rewrite (parse_name_pack z Hzw Hzl).
    destruct (auth && (item_count an =? 0)).
    + unfold rd2 at 1, rd1 at 1, reader_v2 at 1, reader_v1 at 1. cbn [rd_rr].
      destruct (rr_sim recs L st2 W HL V2 z c (soa_cb (pack z)) (false, []) (wf_name_ok z Hzw) Hzl Hc) as (c4 & E & Hc4).
      rewrite E. fold st1.
      pose proof (for_each_rr_v1_inv (fun s : bool * list item => owners (pack z) (snd s)) RDB1 st1 (pack z) L (soa_cb (pack z)) (false, [])
                    (fun s r H => soa_cb_owner (pack z) s r H) (owners_nil _)) as Ho.
      destruct (for_each_rr_v1 RDB1 st1 (pack z) L (soa_cb (pack z)) (false, [])) as [s e]. cbn [bind lift fst snd] in *.
      apply (Tail (snd s) c4 (pack z) Hc4 Tzn Ho).
    + destruct (negb auth && negb (has_record (mkMsg an [] []) (pack z) 2)).
      * unfold rd2 at 1, rd1 at 1, reader_v2 at 1, reader_v1 at 1. cbn [rd_rr].
        destruct (rr_sim recs L st2 W HL V2 z c (ns_cb (pack z) (q_class q)) [] (wf_name_ok z Hzw) Hzl Hc) as (c4 & E & Hc4).
        rewrite E. fold st1.
        pose proof (for_each_rr_v1_inv (fun s : list item => owners (pack z) s) RDB1 st1 (pack z) L (ns_cb (pack z) (q_class q)) []
                      (fun s r H => ns_cb_owner (pack z) (q_class q) s r H) (owners_nil _)) as Ho.
        destruct (for_each_rr_v1 RDB1 st1 (pack z) L (ns_cb (pack z) (q_class q)) []) as [s e]. cbn [bind lift fst snd] in *.
        apply (Tail (if e then [] else s) c4 (pack z) Hc4 Tzn). destruct e; [apply owners_nil | exact Ho].
      * cbn [lift]. apply (Tail [] c (pack z) Hc Tzn (owners_nil _)).
  - (* no NS anywhere on the walk: the v1 reader reports the root, the v2 reader the last name it probed;
       neither has an NS record, the reply is the same empty NOERROR *)
    subst auth zc1 zc2. rewrite (Hna eq_refl). destruct (Tz zz y En) as (Hyw & Hyl & Tyn).
    rewrite (parse_name_pack y Hyw Hyl).
    change [0] with (pack []). rewrite (parse_name_pack [] ltac:(constructor) ltac:(cbn; lia)).
    cbn [andb negb]. unfold has_record. cbn [m_an m_ns m_ex existsb orb negb].
    unfold rd2 at 1, rd1 at 1, reader_v2 at 1, reader_v1 at 1. cbn [rd_rr].
    destruct (rr_sim recs L st2 W HL V2 y c (ns_cb (pack y) (q_class q)) [] (wf_name_ok y Hyw) Hyl Hc) as (c4 & E & Hc4).
    rewrite E. fold st1. rewrite (no_ns_lookup y (pack y) (q_class q) Hy), (no_ns_lookup [] (pack []) (q_class q) Hr).
    cbn [bind lift fst snd additional m_an m_ns m_ex]. reflexivity.
Qed.

(* wf_view: a name with a visible SOA has a visible NS, so "authoritative" implies "NS found" *)
Lemma auth_implies_ns : forall n a1, wf_name n ->
  is_authoritative_v1 RDB1 st1 (pack n) L = Val a1 -> a_ns a1 = false -> a_auth a1 = false.
Proof.
  intros n a1 Hn H Hns. unfold is_authoritative_v1, st1 in H.
  rewrite (is_auth_walk RDB1 recs L W HL n (S (length (pack n))) Hn V (Nat.lt_succ_diag_r _)) in H.
  inversion H; subst. destruct (zone_cut L recs n); cbn [a_ns a_auth] in *; [discriminate | reflexivity].
Qed.

Lemma zc_rel_of_auth : forall n m zz0 a1 a2, n = zz0 ++ m -> wf_name m ->
  is_authoritative_v1 RDB1 st1 (pack m) L = Val a1 -> auth_rel recs L m a1 a2 ->
  zc_rel n (a_auth a1) (a_zc a1) (a_zc a2).
Proof.
  intros n m zz0 a1 a2 En Hm H1 (R1 & R2 & _ & _ & R5 & R6).
  destruct (a_ns a1) eqn:Ens.
  - left. destruct (R5 eq_refl) as (E & zz & z & Em & Ez). split; [exact E|].
    exists (zz0 ++ zz), z. split; [rewrite En, Em, app_assoc; reflexivity | exact Ez].
  - right. destruct (R6 eq_refl) as (E1 & Hr & zz & y & Em & E2 & Hy).
    split; [exact (auth_implies_ns m a1 Hm H1 Ens)|]. split; [exact E1|]. split; [exact Hr|].
    exists (zz0 ++ zz), y. split; [rewrite En, Em, app_assoc; reflexivity|]. split; assumption.
Qed.

Lemma answer_sim : forall n q ecs max a1 a2 c,
  wf_name n -> nlen (pack n) <= 255 -> lower_bytes (q_name q) = pack n ->
  closest_sound st2 c -> a_auth a1 = a_auth a2 -> zc_rel n (a_auth a1) (a_zc a1) (a_zc a2) ->
  serve_answer ctx rd2 q ecs L max (pack n) a2 c = serve_answer unit rd1 q ecs L max (pack n) a1 tt.
Proof.
  intros n q ecs max a1 a2 c Hn Hlen Hq Hc Ea Hz. unfold serve_answer. rewrite <- Ea.
  destruct (a_auth a1) eqn:Eauth.
  - destruct Hz as [[Ezc (zz & z & En & Ez)]|(X & _)]; [|discriminate].
    rewrite <- Ezc, Ez.
    unfold rd2 at 1, rd1 at 1, reader_v2 at 1, reader_v1 at 1. cbn [rd_answer].
    destruct (find_answer_sim recs L st2 W HL V2 n z zz c (q_name q) (q_type q) max Hn Hlen En Hc) as (an & found & c3 & F1 & F2 & Hc3).
    fold st1 in F1. rewrite F1, F2. cbn [bind lift].
    rewrite <- Ez. rewrite Ezc at 1.
    apply (sections_sim n); auto.
    + apply (closest_get_sound st2 c3 U Hc3).
    + left. split; [exact Ezc|]. exists zz, z. split; assumption.
    + eapply find_answer_v1_owner; eauto.
    + discriminate.
  - cbn [lift]. apply (sections_sim n); auto.
    + apply (closest_get_sound st2 c U Hc).
    + apply owners_nil.
Qed.

Lemma ds_sim : forall n q a1 a2 c, wf_name n -> nlen (pack n) <= 255 ->
  closest_sound st2 c -> is_authoritative_v1 RDB1 st1 (pack n) L = Val a1 -> auth_rel recs L n a1 a2 ->
  exists a1' a2' c',
    serve_ds unit rd1 q L (pack n) a1 tt = Val (Some (a1', tt)) /\
    serve_ds ctx rd2 q L (pack n) a2 c = Val (Some (a2', c')) /\
    closest_sound st2 c' /\ a_auth a1' = a_auth a2' /\ zc_rel n (a_auth a1') (a_zc a1') (a_zc a2').
Proof.
  intros n q a1 a2 c Hn Hlen Hc H1 R. pose proof R as (R1 & R2 & _).
  unfold serve_ds. rewrite <- R2.
  destruct (negb (a_auth a1) && (q_type q =? 43)).
  2:{ exists a1, a2, c. repeat split; try reflexivity; [exact Hc | exact R2|].
      apply (zc_rel_of_auth n n [] a1 a2 eq_refl Hn H1 R). }
  destruct n as [|l p].
  - (* the root has no parent *)
    cbn [pack flat_map app idx nth_error N.to_nat bind N.eqb].
    exists a1, a2, c. repeat split; try reflexivity; [exact Hc | exact R2|].
    apply (zc_rel_of_auth [] [] [] a1 a2 eq_refl Hn H1 R).
  - inversion Hn as [|? ? Hl Hp]; subst. destruct Hl as [[Hl1 Hl2] _].
    rewrite pack_cons. cbn [app]. unfold idx. cbn [N.to_nat nth_error bind].
    assert (Ez : (nlen l =? 0) = false) by lia. rewrite Ez.
    assert (Hb8 : b8 (nlen l + 1) = nlen l + 1) by (unfold b8; apply N.mod_small; lia). rewrite Hb8.
    change (nlen l :: l ++ pack p) with ((nlen l :: l) ++ pack p).
    rewrite (slice_from_app (nlen l :: l) (pack p)) by (rewrite nlen_cons; lia). cbn [bind].
    assert (Hpl : nlen (pack p) <= 255) by (rewrite pack_cons, nlen_app in Hlen; lia).
    destruct (is_auth_sim recs L st2 W HL V2 p c Hp Hpl Hc) as (b1 & b2 & c' & B1 & B2 & Hc' & RB).
    unfold rd1 at 1, rd2 at 1, reader_v1 at 1, reader_v2 at 1. cbn [rd_auth]. fold st1 in B1. rewrite B1, B2. cbn [bind].
    pose proof RB as (_ & RB2 & RB3 & RB4 & _). rewrite RB3, RB4.
    do 3 eexists. split; [reflexivity|]. split; [reflexivity|]. split; [exact Hc'|]. cbn [a_auth a_zc].
    split; [exact RB2|]. apply (zc_rel_of_auth (l :: p) p [l] b1 b2 eq_refl Hp B1 RB).
Qed.

Theorem serve_v2_equals_v1 : forall q n ecs max,
  wf_name n -> nlen (pack n) <= 255 -> lower_bytes (q_name q) = pack n ->
  serve RDB2 st2 q (LocOk L) ecs max = serve RDB1 st1 q (LocOk L) ecs max.
Proof.
  intros q n ecs max Hn Hlen Hq. unfold serve. fold rd1 rd2. unfold serve_with. rewrite Hq.
  assert (main :
    lift (rd_auth ctx rd2 [] (pack n) L)
      (fun x => let '(ar, c1) := x in
         if a_err ar then servfail q else
         if negb (a_ns ar) && negb (a_auth ar) then
           OReply (mkResp (q_id q) (question_of q) 5 false [] [] [] (opt_of q ecs))
         else
           lift (serve_ds ctx rd2 q L (pack n) ar c1)
             (fun r => match r with
                       | None => servfail q
                       | Some (ar', c2) => serve_answer ctx rd2 q ecs L max (pack n) ar' c2
                       end)) =
    lift (rd_auth unit rd1 tt (pack n) L)
      (fun x => let '(ar, c1) := x in
         if a_err ar then servfail q else
         if negb (a_ns ar) && negb (a_auth ar) then
           OReply (mkResp (q_id q) (question_of q) 5 false [] [] [] (opt_of q ecs))
         else
           lift (serve_ds unit rd1 q L (pack n) ar c1)
             (fun r => match r with
                       | None => servfail q
                       | Some (ar', c2) => serve_answer unit rd1 q ecs L max (pack n) ar' c2
                       end))).
  { destruct (is_auth_sim recs L st2 W HL V2 n [] Hn Hlen (closest_sound_nil st2)) as (a1 & a2 & c1 & A1 & A2 & Hc1 & R).
    unfold rd1 at 1, rd2 at 1, reader_v1 at 1, reader_v2 at 1. cbn [rd_auth]. fold st1 in A1. rewrite A1, A2. cbn [bind lift].
    pose proof R as (R1 & R2 & R3 & R4 & _). rewrite R3, R4, <- R1, <- R2.
    destruct (negb (a_ns a1) && negb (a_auth a1)); [reflexivity|].
    destruct (ds_sim n q a1 a2 c1 Hn Hlen Hc1 A1 R) as (a1' & a2' & c2 & D1 & D2 & Hc2 & Ea & Hz).
    rewrite D1, D2. cbn [lift]. apply answer_sim; auto. }
  destruct (q_edns q) as [[|p]|]; [exact main | reflexivity | exact main].
Qed.
End Serve2.
