(* Proofs about Model/Location.v: the CDB lookup is longest-prefix match; the
   name-to-map step picks the exact map, else the nearest enclosing wildcard map. *)
From DnsV Require Import Base.Bytes Base.Ip Spec.Lpm Model.Rearranger Model.Location Proofs.Lpm.
From Coq Require Import Lia ZifyN ZifyBool Sorted.
Open Scope N_scope.

(* ---------------------------------------------------------------- well-formed subnet sets *)

(* an IPv6 subnet other than ::/0 that overlaps the v4-mapped block ::ffff:0:0/96
   (known finding F20: the Rearranger's pseudo points break on it) *)
Definition overlaps_v4 (s : subnet) : bool :=
  (1 <=? s_len s) && (s_len s <=? 95) && (first_v4 / blk_size (s_len s) =? s_addr s / blk_size (s_len s)).

Definition wf_subnetb (s : subnet) : bool :=
  (s_len s <=? 128) && (s_addr s <? two128) && (s_addr s mod blk_size (s_len s) =? 0) && negb (overlaps_v4 s).

Definition same_blockb (s t : subnet) : bool := (s_addr s =? s_addr t) && (s_len s =? s_len t).
Fixpoint nodup_blocksb (S : list subnet) : bool :=
  match S with
  | [] => true
  | s :: S' => negb (existsb (same_blockb s) S') && nodup_blocksb S'
  end.

(* the guard of the C03 theorems, decidable: every subnet has a length <= 128, a
   16-byte network address without host bits, is not an IPv6 subnet of length 1..95
   containing ::ffff:0:0, and no subnet (address, length) is declared twice *)
Definition wf_subnetsb (S : list subnet) : bool := forallb wf_subnetb S && nodup_blocksb S.
Definition wf_subnets (S : list subnet) : Prop := wf_subnetsb S = true.

Example wf_subnets_example :
  wf_subnets [mkSubnet 0 0 (0, 1);                                   (* ::/0 *)
              mkSubnet first_v4 96 (0, 2);                           (* 0.0.0.0/0 *)
              mkSubnet (first_v4 + 10 * 2 ^ 24) 104 (0, 3);          (* 10.0.0.0/8 *)
              mkSubnet (first_v4 + 10 * 2 ^ 24 + 2 ^ 8) 120 (0, 4);  (* 10.0.1.0/24 *)
              mkSubnet (first_v4 + 10 * 2 ^ 24) 112 (0, 5);          (* 10.0.0.0/16: same network address *)
              mkSubnet (first_v4 + 11 * 2 ^ 24) 104 (0, 6);          (* 11.0.0.0/8: adjacent *)
              mkSubnet (2 ^ 128 - 1) 128 (0, 7);                     (* the last address *)
              mkSubnet (2 ^ 127) 1 (0, 8);                           (* 8000::/1 *)
              mkSubnet 0 96 (0, 9);                                  (* ::/96: network address ::, not a default *)
              mkSubnet (first_v4) 104 (0, 10)].                      (* 0.0.0.0/8 *)
Proof. vm_compute. reflexivity. Qed.

Lemma wf_subnetb_spec : forall s, wf_subnetb s = true ->
  s_len s <= 128 /\ s_addr s < two128 /\ masked (s_addr s) (s_len s) /\ overlaps_v4 s = false.
Proof.
  unfold wf_subnetb, masked. intros s H.
  repeat (apply Bool.andb_true_iff in H; destruct H as [H ?]).
  rewrite N.leb_le in H. rewrite N.ltb_lt in H2. rewrite N.eqb_eq in H1.
  apply Bool.negb_true_iff in H0. auto.
Qed.

Lemma wf_in : forall S s, wf_subnets S -> In s S -> wf_subnetb s = true.
Proof.
  unfold wf_subnets, wf_subnetsb. intros S s H Hin. apply Bool.andb_true_iff in H. destruct H as [H _].
  rewrite forallb_forall in H. auto.
Qed.

Lemma nodup_blocks_same : forall S s t, nodup_blocksb S = true -> In s S -> In t S ->
  s_addr s = s_addr t -> s_len s = s_len t -> s = t.
Proof.
  induction S as [|u S IH]; simpl; intros s t H Hs Ht Ea El; [contradiction|].
  apply Bool.andb_true_iff in H. destruct H as [H1 H2]. apply Bool.negb_true_iff in H1.
  assert (Hno : forall v, In v S -> same_blockb u v = false).
  { intros v Hv. destruct (same_blockb u v) eqn:E; auto.
    assert (existsb (same_blockb u) S = true) by (apply existsb_exists; eauto). congruence. }
  destruct Hs as [->|Hs], Ht as [->|Ht]; auto.
  - pose proof (Hno t Ht) as N. unfold same_blockb in N. rewrite Ea, El, !N.eqb_refl in N. discriminate.
  - pose proof (Hno s Hs) as N. unfold same_blockb in N. rewrite <- Ea, <- El, !N.eqb_refl in N. discriminate.
Qed.

Lemma wf_same_block : forall S s t, wf_subnets S -> In s S -> In t S ->
  s_addr s = s_addr t -> s_len s = s_len t -> s = t.
Proof.
  unfold wf_subnets, wf_subnetsb. intros S s t H. apply Bool.andb_true_iff in H. destruct H as [_ H].
  apply nodup_blocks_same; auto.
Qed.

(* ---------------------------------------------------------------- CDB: descending prefix lengths *)

Section CdbLoop.
  Variable S : list subnet.
  Hypothesis wfS : wf_subnets S.
  Variable lookup : N -> N -> option bytes.
  (* the records of the map: exactly its subnets, under (network address, length) *)
  Hypothesis lookup_hit : forall s, In s S -> lookup (s_addr s) (s_len s) = Some (loc_bytes (s_loc s)).
  Hypothesis lookup_miss : forall x l, x < two128 ->
    (forall s, In s S -> ~ (s_addr s = x /\ s_len s = l)) -> lookup x l = None.

  Variable isv4 : bool.
  Variable maxmask a : N.
  Hypothesis a_lt : a < two128.

  Definition elig (t : subnet) : Prop :=
    s_len t <= maxmask /\ (isv4 = true -> 96 <= s_len t) /\ contains t a = true.

  Definition cdb_result (r : option bytes * N) : Prop :=
    (exists s, In s S /\ elig s /\ (forall t, In t S -> elig t -> s_len t <= s_len s) /\
               r = (Some (loc_bytes (s_loc s)), s_len s))
    \/ ((forall t, In t S -> ~ elig t) /\ r = (None, 0)).

  Lemma cdb_loop_spec : forall masks cur,
    StronglySorted (fun x y => y < x) masks ->
    (forall mk, In mk masks -> mk <= 128) ->
    (forall mk, In mk masks -> clean_mask cur mk = clean_mask a mk) ->
    (forall t, In t S -> elig t -> In (s_len t) masks) ->
    exists r, cdb_loop lookup isv4 maxmask cur masks = Ok r /\ cdb_result r.
  Proof.
    induction masks as [|mk rest IH]; intros cur Hs Hle Hc Hall.
    - simpl. exists (None, 0). split; [reflexivity|]. right. split; [|reflexivity].
      intros t Ht He. exact (Hall t Ht He).
    - inversion Hs as [|? ? Hs' Hlt]; subst.
      rewrite Forall_forall in Hlt.
      assert (Hc' : forall mk', In mk' rest -> clean_mask cur mk' = clean_mask a mk') by (intros; apply Hc; right; auto).
      assert (Hle' : forall mk', In mk' rest -> mk' <= 128) by (intros; apply Hle; right; auto).
      cbn [cdb_loop].
      destruct (maxmask <? mk) eqn:C1.
      { apply IH; auto. intros t Ht He. destruct (Hall t Ht He) as [E|]; auto.
        destruct He as [He _]. apply N.ltb_lt in C1. lia. }
      destruct (isv4 && (mk <? 96)) eqn:C2.
      { apply IH; auto. intros t Ht He. destruct (Hall t Ht He) as [E|]; auto.
        apply Bool.andb_true_iff in C2. destruct C2 as [V L]. apply N.ltb_lt in L.
        destruct He as [_ [He _]]. specialize (He V). lia. }
      destruct (128 <? mk) eqn:C3.
      { exfalso. apply N.ltb_lt in C3. specialize (Hle mk (or_introl eq_refl)). lia. }
      assert (Hmk : mk <= 128) by (apply N.ltb_ge in C3; auto).
      assert (Ecur : clean_mask cur mk = clean_mask a mk) by (apply Hc; left; auto).
      rewrite Ecur.
      destruct (lookup (clean_mask a mk) mk) as [v|] eqn:L.
      + (* hit: the record of a subnet with this block *)
        assert (Hex : exists s, In s S /\ s_addr s = clean_mask a mk /\ s_len s = mk).
        { destruct (List.existsb (fun s => (s_addr s =? clean_mask a mk) && (s_len s =? mk)) S) eqn:Ex.
          - apply existsb_exists in Ex. destruct Ex as [s [Hs1 Hs2]].
            apply Bool.andb_true_iff in Hs2. destruct Hs2 as [E1 E2]. apply N.eqb_eq in E1, E2. eauto.
          - rewrite lookup_miss in L; [discriminate| |].
            { pose proof (clean_mask_le a mk). lia. }
            intros s Hs1 [E1 E2].
            assert (existsb (fun s => (s_addr s =? clean_mask a mk) && (s_len s =? mk)) S = true).
            { apply existsb_exists. exists s. split; auto. rewrite E1, E2, !N.eqb_refl. reflexivity. }
            congruence. }
        destruct Hex as [s [Hs1 [Ea El]]].
        pose proof (lookup_hit s Hs1) as Lh. rewrite Ea, El in Lh. rewrite L in Lh. inversion Lh; subst v.
        exists (Some (loc_bytes (s_loc s)), mk). split; auto. left. exists s.
        destruct (wf_subnetb_spec s (wf_in S s wfS Hs1)) as [W1 [W2 [W3 W4]]].
        split; auto. split.
        * unfold elig. rewrite El. split; [apply N.ltb_ge in C1; auto|]. split.
          -- intro V. rewrite V in C2. simpl in C2. apply N.ltb_ge in C2. auto.
          -- apply contains_clean; auto. rewrite El. auto.
        * split; [|rewrite El; auto].
          intros t Ht He. rewrite El. destruct (Hall t Ht He) as [E|Hin]; [lia|].
          specialize (Hlt _ Hin). lia.
      + (* miss: no subnet of this length contains a *)
        apply IH; auto.
        * intros mk' Hin. rewrite (clean_mask_twice a mk mk'); auto.
          specialize (Hlt _ Hin). lia.
        * intros t Ht He. destruct (Hall t Ht He) as [E|]; auto. exfalso.
          destruct (wf_subnetb_spec t (wf_in S t wfS Ht)) as [W1 [W2 [W3 W4]]].
          destruct He as [_ [_ Hcont]]. apply contains_clean in Hcont; auto.
          pose proof (lookup_hit t Ht) as Lh. rewrite <- Hcont, <- E in Lh. congruence.
  Qed.
End CdbLoop.

(* ---------------------------------------------------------------- the CDB result is lpm *)

Definition lpm_result (r : option (locid * N)) : option bytes * N :=
  match r with Some (l, k) => (Some (loc_bytes l), k) | None => (None, 0) end.

Lemma elig_eligible : forall S a plen t, wf_subnets S -> In t S -> plen <= 128 ->
  (elig (is_v4 a && (96 <=? plen)) plen a t <->
   eligible (fam (clean_mask a plen)) (clean_mask a plen) plen t = true).
Proof.
  intros S a plen t wfS Ht Hp.
  destruct (wf_subnetb_spec t (wf_in S t wfS Ht)) as [W1 [W2 [W3 W4]]].
  unfold elig, eligible. rewrite (sfam_masked t W3). unfold fam.
  destruct (N.le_gt_cases 96 plen) as [Hge|Hlt].
  - rewrite (is_v4_clean_ge a plen Hge Hp).
    assert (E96 : (96 <=? plen) = true) by (apply N.leb_le; auto). rewrite E96, Bool.andb_true_r.
    rewrite !Bool.andb_true_iff, N.leb_le.
    split.
    + intros [H1 [H2 H3]]. rewrite (contains_masked_client t a plen H1 Hp). split; [split|]; auto.
      destruct (is_v4 a) eqn:Va.
      * specialize (H2 eq_refl). apply contains_clean in H3; auto.
        rewrite <- H3, (is_v4_clean_ge a (s_len t) H2 W1), Va. reflexivity.
      * destruct (is_v4 (s_addr t)) eqn:Vt; auto.
        pose proof (v4_addr_len t W3 Vt) as L. apply contains_clean in H3; auto.
        rewrite <- H3, (is_v4_clean_ge a (s_len t) L W1), Va in Vt. discriminate.
    + intros [[H1 H2] H3]. rewrite (contains_masked_client t a plen H2 Hp) in H3. split; [|split]; auto.
      intro Va. rewrite Va in H1. destruct (is_v4 (s_addr t)) eqn:Vt; [|discriminate].
      apply (v4_addr_len t W3 Vt).
  - assert (E96 : (96 <=? plen) = false) by (apply N.leb_gt; auto). rewrite E96, Bool.andb_false_r.
    rewrite (masked_lt96_not_v4 (clean_mask a plen) plen Hlt (clean_mask_masked a plen)).
    rewrite !Bool.andb_true_iff, N.leb_le.
    split.
    + intros [H1 [_ H3]]. rewrite (contains_masked_client t a plen H1 Hp). split; [split|]; auto.
      destruct (is_v4 (s_addr t)) eqn:Vt; auto.
      pose proof (v4_addr_len t W3 Vt). lia.
    + intros [[H1 H2] H3]. rewrite (contains_masked_client t a plen H2 Hp) in H3. split; [|split]; auto.
      discriminate.
Qed.

Lemma cdb_result_lpm : forall S a plen r, wf_subnets S -> plen <= 128 ->
  cdb_result S (is_v4 a && (96 <=? plen)) plen a r ->
  r = lpm_result (lpm S (fam (clean_mask a plen)) (clean_mask a plen) plen).
Proof.
  intros S a plen r wfS Hp [[s [Hs [He [Hmax Hr]]]]|[Hnone Hr]]; subst r.
  - rewrite (lpm_unique S _ _ _ s); auto.
    + apply (elig_eligible S a plen s wfS Hs Hp). exact He.
    + intros t Ht Et. apply Hmax; auto. apply (elig_eligible S a plen t wfS Ht Hp). exact Et.
    + intros t Ht Et El.
      apply (elig_eligible S a plen t wfS Ht Hp) in Et.
      destruct He as [_ [_ Cs]]. destruct Et as [_ [_ Ct]].
      destruct (wf_subnetb_spec t (wf_in S t wfS Ht)) as [_ [_ [Wt _]]].
      destruct (wf_subnetb_spec s (wf_in S s wfS Hs)) as [_ [_ [Ws _]]].
      apply contains_clean in Cs; auto. apply contains_clean in Ct; auto.
      assert (t = s) by (apply (wf_same_block S); auto; congruence). congruence.
  - rewrite lpm_none_iff; auto.
    intros t Ht. destruct (eligible _ _ plen t) eqn:E; auto.
    apply (elig_eligible S a plen t wfS Ht Hp) in E. exfalso. exact (Hnone t Ht E).
Qed.

(* ---------------------------------------------------------------- bytes, keys *)

Lemma bytes_eqb_eq : forall a b, bytes_eqb a b = true <-> a = b.
Proof.
  induction a as [|x a IH]; destruct b as [|y b]; simpl; split; intro H; try discriminate; auto.
  - apply Bool.andb_true_iff in H. destruct H as [H1 H2]. apply N.eqb_eq in H1. apply IH in H2. congruence.
  - inversion H; subst. rewrite N.eqb_refl. simpl. apply IH. reflexivity.
Qed.

Lemma bytes_eqb_refl : forall a, bytes_eqb a a = true.
Proof. intro a. apply bytes_eqb_eq. reflexivity. Qed.

Lemma bytes_eqb_neq : forall a b, a <> b -> bytes_eqb a b = false.
Proof. intros a b H. destruct (bytes_eqb a b) eqn:E; auto. apply bytes_eqb_eq in E. contradiction. Qed.

Lemma id_eqb_eq : forall x y : N * N, id_eqb x y = true <-> x = y.
Proof.
  intros [a b] [c d]. unfold id_eqb. simpl. rewrite Bool.andb_true_iff, !N.eqb_eq. split.
  - intros [-> ->]. reflexivity.
  - intro H. inversion H. auto.
Qed.

Lemma get_app : forall l1 l2 k,
  get (l1 ++ l2) k = match get l1 k with Some v => Some v | None => get l2 k end.
Proof.
  induction l1 as [|[k' v] l1 IH]; simpl; intros l2 k; auto.
  destruct (bytes_eqb k' k); auto.
Qed.

Lemma get_none : forall l k, (forall k' v, In (k', v) l -> k' <> k) -> get l k = None.
Proof.
  induction l as [|[k' v] l IH]; simpl; intros k H; auto.
  rewrite bytes_eqb_neq; [|apply (H k' v); auto]. apply IH. intros k'' v' Hin. apply (H k'' v'). auto.
Qed.

(* big-endian encoding is injective below 256^n *)
Fixpoint be_val (l : bytes) (acc : N) : N :=
  match l with [] => acc | b :: r => be_val r (acc * 256 + b) end.

Lemma be_val_snoc : forall l b acc, be_val (l ++ [b]) acc = be_val l acc * 256 + b.
Proof. induction l as [|x l IH]; simpl; intros; auto. Qed.

Lemma be_val_be_bytes : forall n a acc, be_val (be_bytes n a) acc = acc * 256 ^ N.of_nat n + a mod 256 ^ N.of_nat n.
Proof.
  induction n as [|n IH]; intros a acc.
  - simpl. rewrite N.mod_1_r. lia.
  - cbn [be_bytes]. rewrite be_val_snoc, IH.
    rewrite Nnat.Nat2N.inj_succ, N.pow_succ_r'.
    set (P := 256 ^ N.of_nat n).
    assert (HP : P <> 0) by (apply N.pow_nonzero; discriminate).
    rewrite (N.mod_mul_r a 256 P); [|discriminate|exact HP]. lia.
Qed.

Lemma ip16_inj : forall a b, a < two128 -> b < two128 -> ip16 a = ip16 b -> a = b.
Proof.
  intros a b Ha Hb H. unfold ip16 in H.
  apply (f_equal (fun l => be_val l 0)) in H. rewrite !be_val_be_bytes in H.
  change (256 ^ N.of_nat 16) with two128 in H.
  rewrite !N.mod_small in H by assumption. lia.
Qed.

Lemma net_key_inj : forall m a l m' a' l', a < two128 -> a' < two128 ->
  net_key m a l = net_key m' a' l' -> m = m' /\ a = a' /\ l = l'.
Proof.
  intros [m1 m2] a l [m1' m2'] a' l' Ha Ha' H. unfold net_key, mapid_bytes in H. cbn [fst snd app] in H.
  remember (ip16 a) as X eqn:EX. remember (ip16 a') as Y eqn:EY.
  injection H as E1 E2 E3. apply app_inj_tail in E3. destruct E3 as [E3 E4].
  subst X Y. apply ip16_inj in E3; auto. subst. auto.
Qed.

(* ---------------------------------------------------------------- the CDB database of a data file *)

Definition wf_kinds (f : dfile) : bool :=
  forallb (fun m => (ml_kind m =? 77) || (ml_kind m =? 56)) (f_maps f).
Definition wf_addrs (f : dfile) : bool :=
  forallb (fun n => s_addr (nl_net n) <? two128) (f_nets f).

Definition nk (n : netline) : kv :=
  (net_key (nl_map n) (s_addr (nl_net n)) (s_len (nl_net n)), loc_bytes (s_loc (nl_net n))).

Lemma map_kvs_v1 : forall ms, exists kvs, map_kvs false false ms = Some kvs /\
  forall k v, In (k, v) kvs -> exists m, In m ms /\ k = [0; ml_kind m] ++ ml_name m ++ [suffix_of (ml_wild m)] /\ v = mapid_bytes (ml_id m).
Proof.
  induction ms as [|m ms [kvs [E H]]].
  - exists []. split; auto. intros k v [].
  - simpl. rewrite E. eexists. split; [reflexivity|].
    intros k v [Hin|Hin].
    + inversion Hin; subst. exists m. auto.
    + destruct (H k v Hin) as [m' [Hm' R]]. exists m'. auto.
Qed.

Section CdbDb.
  Variable f : dfile.
  Variable m : mapid.
  Hypothesis Hkinds : wf_kinds f = true.
  Hypothesis Haddrs : wf_addrs f = true.
  Hypothesis wfS : wf_subnets (nets_of f m).
  Variable db : list kv.
  Hypothesis Hdb : cdb_db f = Some db.

  Let S := nets_of f m.

  Lemma nets_of_in : forall s, In s S <-> exists n, In n (f_nets f) /\ nl_map n = m /\ nl_net n = s.
  Proof.
    intro s. unfold S, nets_of. rewrite in_map_iff. split.
    - intros [n [E Hn]]. apply filter_In in Hn. destruct Hn as [Hn Hm]. apply id_eqb_eq in Hm. eauto.
    - intros [n [Hn [Hm E]]]. exists n. split; auto. apply filter_In. split; auto. apply id_eqb_eq. auto.
  Qed.

  Lemma addr_lt : forall n, In n (f_nets f) -> s_addr (nl_net n) < two128.
  Proof.
    intros n Hn. unfold wf_addrs in Haddrs. rewrite forallb_forall in Haddrs.
    apply N.ltb_lt. auto.
  Qed.

  Lemma db_shape : exists ms,
    (forall k v, In (k, v) ms -> exists ml, In ml (f_maps f) /\ k = [0; ml_kind ml] ++ ml_name ml ++ [suffix_of (ml_wild ml)]) /\
    db = map nk (f_nets f) ++ ms ++
         [([0; 47], prefix_set (fun _ => true) f);
          ([0; 52], prefix_set (fun s => is_v4 (s_addr s)) f);
          ([0; 54], prefix_set (fun s => negb (is_v4 (s_addr s))) f);
          (features_key, [1; 0; 0; 0])].
  Proof.
    unfold cdb_db in Hdb. destruct (map_kvs_v1 (f_maps f)) as [kvs [E H]]. rewrite E in Hdb.
    inversion Hdb. exists kvs. split; auto.
    intros k v Hin. destruct (H k v Hin) as [ml [G1 [G2 _]]]. eauto.
  Qed.

  Lemma kind_of : forall ml, In ml (f_maps f) -> ml_kind ml = 77 \/ ml_kind ml = 56.
  Proof.
    intros ml H. unfold wf_kinds in Hkinds. rewrite forallb_forall in Hkinds. specialize (Hkinds ml H).
    apply Bool.orb_true_iff in Hkinds. rewrite !N.eqb_eq in Hkinds. auto.
  Qed.

  Lemma second_net_key : forall mm x l, nth 1 (net_key mm x l) 0 = 37.
  Proof. reflexivity. Qed.
  Lemma second_map_key : forall ml, nth 1 ([0; ml_kind ml] ++ ml_name ml ++ [suffix_of (ml_wild ml)]) 0 = ml_kind ml.
  Proof. reflexivity. Qed.
  Lemma neq_by_second : forall k1 k2 : bytes, nth 1 k1 0 <> nth 1 k2 0 -> k1 <> k2.
  Proof. intros k1 k2 H E. apply H. rewrite E. reflexivity. Qed.

  (* the prefix-length sets are found under their keys *)
  Lemma get_prefix_set : forall k, k = 47 \/ k = 52 \/ k = 54 ->
    get db [0; k] = Some (if k =? 47 then prefix_set (fun _ => true) f
                          else if k =? 52 then prefix_set (fun s => is_v4 (s_addr s)) f
                          else prefix_set (fun s => negb (is_v4 (s_addr s))) f).
  Proof.
    intros k Hk. destruct db_shape as [ms [Hms ->]].
    rewrite get_app, get_none.
    2:{ intros k' v Hin. apply in_map_iff in Hin. destruct Hin as [n [E _]]. unfold nk in E. inversion E.
        apply neq_by_second. rewrite second_net_key. cbn [nth]. destruct Hk as [ -> | [ -> | -> ] ]; discriminate. }
    rewrite get_app, get_none.
    2:{ intros k' v Hin. destruct (Hms k' v Hin) as [ml [Hml ->]].
        apply neq_by_second. rewrite second_map_key. cbn [nth].
        destruct (kind_of ml Hml) as [K|K]; rewrite K; destruct Hk as [ -> | [ -> | -> ] ]; discriminate. }
    generalize (prefix_set (fun _ => true) f) (prefix_set (fun s => is_v4 (s_addr s)) f)
               (prefix_set (fun s => negb (is_v4 (s_addr s))) f).
    intros P0 P4 P6.
    destruct Hk as [ -> | [ -> | -> ] ]; reflexivity.
  Qed.

  (* the % records of the map *)
  Lemma get_net_hit : forall s, In s S -> get db (net_key m (s_addr s) (s_len s)) = Some (loc_bytes (s_loc s)).
  Proof.
    intros s Hs. destruct db_shape as [ms [Hms ->]]. rewrite get_app.
    assert (G : forall nets, (forall n, In n nets -> In n (f_nets f)) ->
                (exists n, In n nets /\ nl_map n = m /\ nl_net n = s) ->
                get (map nk nets) (net_key m (s_addr s) (s_len s)) = Some (loc_bytes (s_loc s))).
    { induction nets as [|n nets IH]; intros Hsub [n0 [Hn0 [Em Es]]]; [contradiction|].
      cbn [map]. unfold nk at 1. cbn [get]. destruct (bytes_eqb _ _) eqn:E.
      - apply bytes_eqb_eq in E. apply net_key_inj in E.
        + destruct E as [E1 [E2 E3]].
          assert (In (nl_net n) S) by (apply nets_of_in; exists n; auto using in_eq).
          assert (nl_net n = s) by (apply (wf_same_block S); auto). congruence.
        + apply addr_lt. apply Hsub. left; auto.
        + apply nets_of_in in Hs. destruct Hs as [n1 [Hn1 [_ <-]]]. apply addr_lt; auto.
      - apply IH; [intros; apply Hsub; right; auto|].
        destruct Hn0 as [->|Hn0]; [|eauto].
        subst. rewrite bytes_eqb_refl in E. discriminate. }
    rewrite G; auto. apply nets_of_in in Hs. destruct Hs as [n [H1 [H2 H3]]]. eauto.
  Qed.

  Lemma get_net_miss : forall x l, x < two128 ->
    (forall s, In s S -> ~ (s_addr s = x /\ s_len s = l)) -> get db (net_key m x l) = None.
  Proof.
    intros x l Hx Hno. destruct db_shape as [ms [Hms ->]].
    rewrite get_app, get_none.
    2:{ intros k' v Hin. apply in_map_iff in Hin. destruct Hin as [n [E Hn]]. unfold nk in E. inversion E.
        intro C. apply net_key_inj in C; auto; [|apply addr_lt; auto].
        destruct C as [C1 [C2 C3]]. apply (Hno (nl_net n)); auto. apply nets_of_in. eauto. }
    rewrite get_app, get_none.
    2:{ intros k' v Hin. destruct (Hms k' v Hin) as [ml [Hml ->]].
        apply neq_by_second. rewrite second_map_key, second_net_key.
        destruct (kind_of ml Hml) as [K|K]; rewrite K; discriminate. }
    assert (F : forall k : bytes, nth 1 k 0 <> 37 -> bytes_eqb k (net_key m x l) = false).
    { intros k Hk. apply bytes_eqb_neq. apply neq_by_second. rewrite second_net_key. exact Hk. }
    cbn [get]. rewrite !F by (cbn [nth features_key]; discriminate). reflexivity.
  Qed.
End CdbDb.

(* ---------------------------------------------------------------- prefix-length sets *)

Lemma in_desc_from : forall n i, In i (desc_from n) <-> i <= N.of_nat n.
Proof.
  induction n as [|n IH]; intro i.
  - simpl. split; [intros [<-|[]]; lia | intro; left; lia].
  - cbn [desc_from In]. rewrite IH. rewrite Nnat.Nat2N.inj_succ. lia.
Qed.

Lemma desc_from_sorted : forall n, StronglySorted (fun x y => y < x) (desc_from n).
Proof.
  induction n as [|n IH].
  - simpl. constructor; constructor.
  - cbn [desc_from]. constructor; auto. apply Forall_forall. intros y Hy. apply in_desc_from in Hy.
    rewrite Nnat.Nat2N.inj_succ. lia.
Qed.

Lemma filter_sorted : forall {A} (R : A -> A -> Prop) p l, StronglySorted R l -> StronglySorted R (filter p l).
Proof.
  induction l as [|x l IH]; simpl; intro H; [constructor|].
  inversion H; subst. destruct (p x); auto. constructor; auto.
  rewrite Forall_forall in *. intros y Hy. apply filter_In in Hy. destruct Hy; auto.
Qed.

(* the unfolding is used through this equation: converting prefix_set against its
   129-fold filter makes the kernel explore both branches of every test *)
Lemma prefix_set_unfold : forall p f,
  prefix_set p f = filter (fun i => existsb (fun n => p (nl_net n) && (s_len (nl_net n) =? i)) (f_nets f)) (desc_from 128).
Proof. intros. unfold prefix_set. reflexivity. Qed.

Lemma prefix_set_sorted : forall p f, StronglySorted (fun x y => y < x) (prefix_set p f).
Proof. intros. rewrite prefix_set_unfold. apply filter_sorted. apply desc_from_sorted. Qed.

Lemma n128 : N.of_nat 128 = 128. Proof. reflexivity. Qed.

Lemma prefix_set_le : forall p f mk, In mk (prefix_set p f) -> mk <= 128.
Proof.
  intros p f mk H. rewrite prefix_set_unfold in H. apply filter_In in H. destruct H as [H _].
  apply in_desc_from in H. rewrite n128 in H. exact H.
Qed.

Lemma prefix_set_in : forall p f n, In n (f_nets f) -> p (nl_net n) = true -> s_len (nl_net n) <= 128 ->
  In (s_len (nl_net n)) (prefix_set p f).
Proof.
  intros p f n Hn Hp Hl. rewrite prefix_set_unfold. apply filter_In. split.
  - apply in_desc_from. rewrite n128. exact Hl.
  - apply existsb_exists. exists n. split; auto. rewrite Hp, N.eqb_refl. reflexivity.
Qed.

(* ---------------------------------------------------------------- C03, CDB side *)

(* the two forms of net.IPNet the callers build: a 128-bit mask (IPv6 resolver, ECS
   family 2) or a 32-bit mask on a v4-mapped address (IPv4 resolver, ECS family 1);
   plen is the client's prefix length in 128-bit terms *)
Definition client_plen (a bits ones plen : N) : Prop :=
  (bits = 128 /\ ones <= 128 /\ plen = ones) \/
  (bits = 32 /\ ones <= 32 /\ is_v4 a = true /\ plen = 96 + ones).

Theorem cdb_is_lpm : forall sep f m db a bits ones plen,
  wf_kinds f = true -> wf_addrs f = true -> wf_subnets (nets_of f m) -> cdb_db f = Some db ->
  a < two128 -> client_plen a bits ones plen ->
  cdb_get_location sep db m (mkClient (Some a) bits ones) =
  Ok (lpm_result (lpm (nets_of f m) (fam (clean_mask a plen)) (clean_mask a plen) plen)).
Proof.
  intros sep f m db a bits ones plen Hk Ha wfS Hdb Halt Hc.
  assert (Hp : plen <= 128) by (destruct Hc as [[_ [? ->]]|[_ [? [_ ->]]]]; lia).
  unfold cdb_get_location.
  assert (Emax : cdb_maxmask (mkClient (Some a) bits ones) = plen).
  { unfold cdb_maxmask, c_size, c_maskbits, c_isv4. cbn [c_ip c_bits c_ones].
    destruct Hc as [[-> [H1 ->]]|[-> [H1 [H2 ->]]]].
    - assert (E : (128 <? ones) = false) by (apply N.ltb_ge; auto). rewrite E.
      rewrite Bool.andb_false_r. rewrite N.add_0_r, N.mod_mod by discriminate. apply N.mod_small. lia.
    - assert (E : (32 <? ones) = false) by (apply N.ltb_ge; lia). rewrite E, H2. cbn [andb N.eqb Pos.eqb].
      rewrite (N.mod_small ones 256) by lia. rewrite N.mod_small by lia. lia. }
  cbv zeta. rewrite Emax. cbn [c_isv4 c_ip c_addr].
  set (isv4 := is_v4 a && (96 <=? plen)).
  set (S := nets_of f m) in *.
  (* the list of prefix lengths that is read *)
  match goal with |- context [get db ?k] => set (bk := k) end.
  assert (Hlist : exists masks,
            get db bk = Some masks /\
            StronglySorted (fun x y => y < x) masks /\ (forall mk, In mk masks -> mk <= 128) /\
            (forall t, In t S -> elig isv4 plen a t -> In (s_len t) masks)).
  { assert (Hin : forall t, In t S -> exists n, In n (f_nets f) /\ nl_map n = m /\ nl_net n = t)
      by (intros t Ht; apply (nets_of_in f m); auto).
    unfold bk. destruct sep; [destruct isv4 eqn:V|].
    - rewrite (get_prefix_set f Hk db Hdb 52) by auto. cbn [N.eqb Pos.eqb]. eexists. split; [reflexivity|].
      split; [apply prefix_set_sorted|]. split; [apply prefix_set_le|].
      intros t Ht [E1 [E2 E3]]. destruct (Hin t Ht) as [n [Hn [_ <-]]].
      destruct (wf_subnetb_spec _ (wf_in S _ wfS Ht)) as [W1 [W2 [W3 W4]]].
      apply prefix_set_in; auto.
      unfold isv4 in V. apply Bool.andb_true_iff in V. destruct V as [V1 V2].
      specialize (E2 eq_refl). apply contains_clean in E3; auto.
      rewrite <- E3, (is_v4_clean_ge a _ E2 W1). exact V1.
    - rewrite (get_prefix_set f Hk db Hdb 54) by auto. cbn [N.eqb Pos.eqb]. eexists. split; [reflexivity|].
      split; [apply prefix_set_sorted|]. split; [apply prefix_set_le|].
      intros t Ht [E1 [E2 E3]]. destruct (Hin t Ht) as [n [Hn [_ <-]]].
      destruct (wf_subnetb_spec _ (wf_in S _ wfS Ht)) as [W1 [W2 [W3 W4]]].
      apply prefix_set_in; auto. apply Bool.negb_true_iff.
      destruct (is_v4 (s_addr (nl_net n))) eqn:Vt; auto. exfalso.
      pose proof (v4_addr_len _ W3 Vt) as L. apply contains_clean in E3; auto.
      rewrite <- E3, (is_v4_clean_ge a _ L W1) in Vt.
      unfold isv4 in V. rewrite Vt in V. cbn [andb] in V. apply N.leb_gt in V. lia.
    - rewrite (get_prefix_set f Hk db Hdb 47) by auto. cbn [N.eqb Pos.eqb]. eexists. split; [reflexivity|].
      split; [apply prefix_set_sorted|]. split; [apply prefix_set_le|].
      intros t Ht _. destruct (Hin t Ht) as [n [Hn [_ <-]]].
      destruct (wf_subnetb_spec _ (wf_in S _ wfS Ht)) as [W1 _].
      apply prefix_set_in; auto. }
  destruct Hlist as [masks [G [Hs [Hle Hall]]]]. rewrite G.
  destruct (cdb_loop_spec S wfS (fun x len => get db (net_key m x len))
              (get_net_hit f m Ha wfS db Hdb) (get_net_miss f m Hk Ha db Hdb)
              isv4 plen a Halt masks a Hs Hle (fun _ _ => eq_refl) Hall) as [r [Er Hr]].
  rewrite Er. f_equal. apply cdb_result_lpm; auto.
Qed.

(* ---------------------------------------------------------------- names *)

Definition wf_labelsb (ls : list bytes) : bool := forallb (fun l => negb (length l =? 0)%nat) ls.

Lemma labels_eqb_eq : forall a b, labels_eqb a b = true <-> a = b.
Proof.
  induction a as [|x a IH]; destruct b as [|y b]; simpl; split; intro H; try discriminate; auto.
  - apply Bool.andb_true_iff in H. destruct H as [H1 H2]. apply bytes_eqb_eq in H1. apply IH in H2. congruence.
  - inversion H; subst. rewrite bytes_eqb_refl. simpl. apply IH. reflexivity.
Qed.

Lemma app_inj_len : forall {A} (l l' x y : list A), length l = length l' -> l ++ x = l' ++ y -> l = l' /\ x = y.
Proof.
  induction l as [|a l IH]; destruct l' as [|b l']; simpl; intros x y Hl H; try discriminate; auto.
  inversion H; subst. destruct (IH l' x y) as [-> ->]; auto.
Qed.

Lemma pack_labels_inj : forall ls ls', wf_labelsb ls = true -> wf_labelsb ls' = true ->
  pack_labels ls = pack_labels ls' -> ls = ls'.
Proof.
  induction ls as [|l ls IH]; destruct ls' as [|l' ls']; simpl; intros W W' H; auto.
  - apply Bool.andb_true_iff in W'. destruct W' as [W1 _]. inversion H as [[E _]].
    unfold blen in E. destruct l'; [discriminate W1|discriminate E].
  - apply Bool.andb_true_iff in W. destruct W as [W1 _]. inversion H as [[E _]].
    unfold blen in E. destruct l; [discriminate W1|discriminate E].
  - apply Bool.andb_true_iff in W, W'. destruct W as [W1 W2], W' as [W1' W2'].
    inversion H as [[E1 E2]]. unfold blen in E1. apply Nnat.Nat2N.inj in E1.
    destruct (app_inj_len _ _ _ _ E1 E2) as [-> E3]. f_equal. apply IH; auto.
Qed.

(* the candidate keys of the v1 / CDB map search: the exact name, then the wildcard of every strict ancestor *)
Fixpoint cand_keys (mtype : bytes) (ls : list bytes) (first : bool) : list bytes :=
  (mtype ++ pack_labels ls ++ [suffix_of (negb first)]) ::
  match ls with [] => [] | _ :: p => cand_keys mtype p false end.

Lemma skipn_app_exact : forall {A} (l x : list A), skipn (length l) (l ++ x) = x.
Proof. induction l; simpl; auto. Qed.

Lemma map_keys_pack : forall ls fuel mtype first, wf_labelsb ls = true -> (length ls < fuel)%nat ->
  map_keys fuel mtype (pack_labels ls) first = Ok (cand_keys mtype ls first).
Proof.
  induction ls as [|l ls IH]; intros fuel mtype first W Hf; (destruct fuel as [|fuel]; [lia|]).
  - reflexivity.
  - simpl in W. apply Bool.andb_true_iff in W. destruct W as [W1 W2].
    cbn [pack_labels map_keys cand_keys].
    assert (E0 : (blen l =? 0) = false).
    { unfold blen. destruct l; [discriminate W1|reflexivity]. }
    rewrite E0. unfold blen. rewrite Nnat.Nat2N.id.
    assert (E1 : (length l <=? length (l ++ pack_labels ls))%nat = true).
    { apply Nat.leb_le. rewrite app_length. lia. }
    rewrite E1, skipn_app_exact, IH; auto. simpl in Hf. lia.
Qed.

Lemma pack_labels_length : forall ls, (length ls < length (pack_labels ls))%nat.
Proof. induction ls as [|l ls IH]; simpl; [lia|]. rewrite app_length. lia. Qed.

(* ---------------------------------------------------------------- map choice: v1 keys and CDB *)

Section MapChoiceExact.
  Variable decls : list mapdecl.
  Variable kind : N.
  Variable db : list kv.
  Variable enc : bytes -> bytes.     (* how a value is stored: mv1 for RocksDB, identity for CDB *)
  (* the map records of the database are exactly the declarations *)
  Hypothesis Hget : forall n wild, wf_labelsb n = true ->
    get db ([0; kind] ++ pack_labels n ++ [suffix_of wild]) =
    option_map (fun id => enc (mapid_bytes id)) (lookup_decl decls kind wild n).

  Lemma wf_tail : forall l ls, wf_labelsb (l :: ls) = true -> wf_labelsb ls = true.
  Proof. simpl. intros l ls H. apply Bool.andb_true_iff in H. tauto. Qed.

  Lemma cdb_find_map_wild : forall ls fuel, wf_labelsb ls = true -> (length ls < fuel)%nat ->
    enc = (fun v => v) ->
    cdb_find_map fuel db [0; kind] (pack_labels ls) false =
    Ok (option_map mapid_bytes (match lookup_decl decls kind true ls with Some m => Some m | None => nearest_wild decls kind ls end)).
  Proof.
    induction ls as [|l ls IH]; intros fuel W Hf He; (destruct fuel as [|fuel]; [lia|]).
    - cbn [cdb_find_map]. change (negb false) with true. rewrite (Hget [] true W), He.
      destruct (lookup_decl decls kind true []); reflexivity.
    - cbn [cdb_find_map]. change (negb false) with true. rewrite (Hget (l :: ls) true W), He.
      destruct (lookup_decl decls kind true (l :: ls)) eqn:L; [reflexivity|].
      cbn [option_map pack_labels nearest_wild].
      simpl in W. apply Bool.andb_true_iff in W. destruct W as [W1 W2].
      assert (E0 : (blen l =? 0) = false) by (unfold blen; destruct l; [discriminate W1|reflexivity]).
      rewrite E0. unfold blen. rewrite Nnat.Nat2N.id.
      assert (E1 : (length l <=? length (l ++ pack_labels ls))%nat = true)
        by (apply Nat.leb_le; rewrite app_length; lia).
      rewrite E1, skipn_app_exact. rewrite IH; auto; try (simpl in Hf; lia).
  Qed.

  (* CDB: exact-name map first, else the nearest enclosing wildcard map *)
  Lemma cdb_find_map_choice : forall ls, wf_labelsb ls = true -> enc = (fun v => v) ->
    cdb_find_map (S (length (pack_labels ls))) db [0; kind] (pack_labels ls) true =
    Ok (option_map mapid_bytes (map_choice decls kind ls)).
  Proof.
    intros ls W He. unfold map_choice. cbn [cdb_find_map]. change (negb true) with false.
    rewrite (Hget ls false W), He.
    destruct (lookup_decl decls kind false ls) eqn:L; [reflexivity|]. cbn [option_map].
    destruct ls as [|l ls].
    - reflexivity.
    - cbn [pack_labels nearest_wild].
      pose proof W as W'. simpl in W. apply Bool.andb_true_iff in W. destruct W as [W1 W2].
      assert (E0 : (blen l =? 0) = false) by (unfold blen; destruct l; [discriminate W1|reflexivity]).
      rewrite E0. unfold blen. rewrite Nnat.Nat2N.id.
      assert (E1 : (length l <=? length (l ++ pack_labels ls))%nat = true)
        by (apply Nat.leb_le; rewrite app_length; lia).
      rewrite E1, skipn_app_exact. rewrite cdb_find_map_wild; auto.
      pose proof (pack_labels_length ls). cbn [length]. rewrite app_length. lia.
  Qed.

  Lemma rdb_find_first_hit : forall k ks id, get db k = Some (mv1 (mapid_bytes id)) ->
    rdb_find_first db (k :: ks) = Ok (Some (mapid_bytes id)).
  Proof. intros k ks [x y] H. cbn [rdb_find_first]. rewrite H. reflexivity. Qed.

  Lemma rdb_find_first_miss : forall k ks, get db k = None -> rdb_find_first db (k :: ks) = rdb_find_first db ks.
  Proof. intros k ks H. cbn [rdb_find_first]. rewrite H. reflexivity. Qed.

  Lemma rdb_find_first_wild : forall ls, wf_labelsb ls = true -> enc = mv1 ->
    rdb_find_first db (cand_keys [0; kind] ls false) =
    Ok (option_map mapid_bytes (match lookup_decl decls kind true ls with Some m => Some m | None => nearest_wild decls kind ls end)).
  Proof.
    induction ls as [|l ls IH]; intros W He.
    - cbn [cand_keys]. change (negb false) with true.
      pose proof (Hget [] true W) as G. rewrite He in G.
      destruct (lookup_decl decls kind true []) as [id|]; cbn [option_map] in G.
      + rewrite (rdb_find_first_hit _ _ id G). reflexivity.
      + rewrite (rdb_find_first_miss _ _ G). reflexivity.
    - cbn [cand_keys]. change (negb false) with true.
      pose proof (Hget (l :: ls) true W) as G. rewrite He in G.
      destruct (lookup_decl decls kind true (l :: ls)) as [id|] eqn:L; cbn [option_map] in G.
      + rewrite (rdb_find_first_hit _ _ id G). reflexivity.
      + rewrite (rdb_find_first_miss _ _ G). cbn [nearest_wild].
        rewrite IH; [reflexivity|apply (wf_tail l ls W)|exact He].
  Qed.

  (* RocksDB v1 keys: exact-name map first, else the nearest enclosing wildcard map *)
  Lemma v1_find_map_choice : forall ls, wf_labelsb ls = true -> enc = mv1 ->
    v1_find_map db [0; kind] (pack_labels ls) = Ok (option_map mapid_bytes (map_choice decls kind ls)).
  Proof.
    intros ls W He. unfold v1_find_map.
    rewrite map_keys_pack; auto; [|pose proof (pack_labels_length ls); lia].
    cbn [rbind]. unfold map_choice.
    pose proof (Hget ls false W) as G. rewrite He in G.
    destruct ls as [|l ls].
    - cbn [cand_keys]. change (negb true) with false.
      destruct (lookup_decl decls kind false []) as [id|]; cbn [option_map] in G.
      + rewrite (rdb_find_first_hit _ _ id G). reflexivity.
      + rewrite (rdb_find_first_miss _ _ G). reflexivity.
    - cbn [cand_keys]. change (negb true) with false.
      destruct (lookup_decl decls kind false (l :: ls)) as [id|]; cbn [option_map] in G.
      + rewrite (rdb_find_first_hit _ _ id G). reflexivity.
      + rewrite (rdb_find_first_miss _ _ G). cbn [nearest_wild].
        rewrite rdb_find_first_wild; [reflexivity|apply (wf_tail l ls W)|exact He].
  Qed.
End MapChoiceExact.

(* ---------------------------------------------------------------- the map records of a CDB database *)

Definition decl_line (d : mapdecl) : mapline :=
  mkMapline (md_kind d) (pack_labels (md_name d)) (md_wild d) (md_id d).
Definition wf_declb (d : mapdecl) : bool :=
  ((md_kind d =? 77) || (md_kind d =? 56)) && wf_labelsb (md_name d).
Definition v1_map_key (kind : N) (n : list bytes) (wild : bool) : bytes :=
  [0; kind] ++ pack_labels n ++ [suffix_of wild].

Lemma map_kvs_v1_decls : forall decls,
  map_kvs false false (map decl_line decls) =
  Some (map (fun d => (v1_map_key (md_kind d) (md_name d) (md_wild d), mapid_bytes (md_id d))) decls).
Proof.
  induction decls as [|d decls IH]; [reflexivity|].
  cbn [map map_kvs]. rewrite IH. reflexivity.
Qed.

Lemma v1_map_key_inj : forall k n w k' n' w', wf_labelsb n = true -> wf_labelsb n' = true ->
  v1_map_key k n w = v1_map_key k' n' w' -> k = k' /\ n = n' /\ w = w'.
Proof.
  unfold v1_map_key. intros k n w k' n' w' W W' H. cbn [app] in H.
  injection H as E1 E2. apply app_inj_tail in E2. destruct E2 as [E2 E3].
  apply pack_labels_inj in E2; auto. split; auto. split; auto.
  destruct w, w'; auto; discriminate E3.
Qed.

Lemma get_decls : forall decls kind n wild, forallb wf_declb decls = true -> wf_labelsb n = true ->
  get (map (fun d => (v1_map_key (md_kind d) (md_name d) (md_wild d), mapid_bytes (md_id d))) decls)
      (v1_map_key kind n wild) = option_map mapid_bytes (lookup_decl decls kind wild n)
  \/ False.
Proof.
  intros decls kind n wild Wd Wn. left.
  induction decls as [|d decls IH]; [reflexivity|].
  simpl in Wd. apply Bool.andb_true_iff in Wd. destruct Wd as [Wd1 Wd2].
  unfold wf_declb in Wd1. apply Bool.andb_true_iff in Wd1. destruct Wd1 as [_ Wl].
  cbn [map get lookup_decl].
  destruct (bytes_eqb _ _) eqn:E.
  - apply bytes_eqb_eq in E. apply v1_map_key_inj in E; auto. destruct E as [E1 [E2 E3]].
    rewrite E1, E3, N.eqb_refl, Bool.eqb_reflx. cbn [andb].
    assert (L : labels_eqb (md_name d) n = true) by (apply labels_eqb_eq; auto). rewrite L. reflexivity.
  - destruct ((md_kind d =? kind) && Bool.eqb (md_wild d) wild && labels_eqb (md_name d) n) eqn:C.
    + apply Bool.andb_true_iff in C. destruct C as [C C3]. apply Bool.andb_true_iff in C. destruct C as [C1 C2].
      apply N.eqb_eq in C1. apply Bool.eqb_prop in C2. apply labels_eqb_eq in C3. subst.
      rewrite bytes_eqb_refl in E. discriminate.
    + apply IH; auto.
Qed.

Theorem cdb_map_records : forall f decls db kind n wild,
  f_maps f = map decl_line decls -> forallb wf_declb decls = true -> cdb_db f = Some db ->
  kind = 77 \/ kind = 56 -> wf_labelsb n = true ->
  get db (v1_map_key kind n wild) = option_map (fun id => mapid_bytes id) (lookup_decl decls kind wild n).
Proof.
  intros f decls db kind n wild Hm Wd Hdb Hk Wn.
  unfold cdb_db in Hdb. rewrite Hm, map_kvs_v1_decls in Hdb. inversion Hdb as [Edb]. clear Hdb.
  rewrite get_app, get_none.
  2:{ intros k' v Hin. apply in_map_iff in Hin. destruct Hin as [x [E _]]. inversion E.
      intro C. apply (f_equal (fun k => nth 1 k 0)) in C. cbn [nth net_key app v1_map_key] in C.
      destruct Hk; subst; discriminate C. }
  rewrite get_app.
  destruct (get_decls decls kind n wild Wd Wn) as [G|[]]. rewrite G.
  destruct (lookup_decl decls kind wild n); [reflexivity|]. cbn [option_map].
  apply get_none. intros k' v Hin.
  intro C. apply (f_equal (fun k => nth 1 k 0)) in C. cbn [nth app v1_map_key] in C.
  cbn [In] in Hin. destruct Hin as [Hin|[Hin|[Hin|[Hin|[]]]]]; inversion Hin; subst k';
    cbn [nth features_key] in C; destruct Hk; subst; discriminate C.
Qed.
