(* ClientExample: the hypotheses of C01_file_level_client hold on a concrete data file and the composed
   statement is not vacuous.  Twelve lines: a zone (Z, &), www with an address tagged ab, one tagged cd
   and an untagged one; map m1 (resolver map of example.com and, as wildcard map, of the names below it)
   with 10.0.0.0/8 -> ab and, nested, 10.1.0.0/16 -> cd; map e1 (client-subnet map of the names below
   example.com) with 192.168.0.0/16 -> cd and, nested, 192.168.1.0/24 -> ab.  Compiled by the builder with
   v2 keys (24 records; Rearrange with insertion sort as sort.Slice) and as a reversed CDB stream, and
   served by the handler model with its own location lookup to four clients. *)
From DnsV Require Import Base.Bytes Base.Ip Spec.Lpm Model.Rearranger Model.Location Model.Ecs.
From DnsV Require Import Model.Compile Spec.MapOfLists Proofs.MultiValue Proofs.MapOfLists Proofs.Batch Proofs.CompilePipe.
From DnsV Require Import Model.Text Model.Preproc Model.Accum Model.Handler Spec.ClientLocation.
From DnsV Require Import Model.Store Model.LookupV1 Model.LookupV2 Model.Serve Spec.Answer Spec.Rows Spec.AnswerExtra Spec.Declared.
From DnsV Require Import Proofs.ZoneCut Proofs.RevOrder Proofs.V2Store Proofs.ReadsNames.
From DnsV Require Import Proofs.Lpm Proofs.Location Proofs.Rearranger Proofs.RdbLocate Proofs.SquashKeys Proofs.MapV2.
From DnsV Require Import Proofs.Ecs Proofs.LinkEcsLpm Proofs.LinkRdbDb Proofs.LinkRdbModel.
From DnsV Require Import Proofs.DeclaredLink Proofs.DeclaredWf Proofs.FileLevel Proofs.AccumLink.
From DnsV Require Import Proofs.ClientSpecLink Proofs.ClientDbFacts.
From Coq Require Import Lia Permutation Sorted ZifyN ZifyNat ZifyBool.
From DnsV Require Import Proofs.ClientLink Proofs.ClientCdbLpm Proofs.ClientLookups Proofs.ClientFileLevel Proofs.Compile.
Open Scope N_scope.

Definition y_ips : list (bytes * bytes) :=
  [([49; 48; 46; 48; 46; 48; 46; 49], [10; 0; 0; 1]); ([49; 48; 46; 48; 46; 48; 46; 50], [10; 0; 0; 2]);
   ([49; 48; 46; 48; 46; 48; 46; 51], [10; 0; 0; 3]); ([49; 48; 46; 48; 46; 48; 46; 57], [10; 0; 0; 9])].
Definition y_cidrs : list (bytes * (bytes * N * N)) :=
  [([49; 48; 46; 48; 46; 48; 46; 48; 47; 56], ([10; 0; 0; 0], 8, 32));                          (* 10.0.0.0/8 *)
   ([49; 48; 46; 49; 46; 48; 46; 48; 47; 49; 54], ([10; 1; 0; 0], 16, 32));                     (* 10.1.0.0/16 *)
   ([49; 57; 50; 46; 49; 54; 56; 46; 48; 46; 48; 47; 49; 54], ([192; 168; 0; 0], 16, 32));      (* 192.168.0.0/16 *)
   ([49; 57; 50; 46; 49; 54; 56; 46; 49; 46; 48; 47; 50; 52], ([192; 168; 1; 0], 24, 32))].     (* 192.168.1.0/24 *)
Fixpoint y_assoc {A} (l : list (bytes * A)) (k : bytes) : option A :=
  match l with [] => None | (k', v) :: t => if bytes_eqb k' k then Some v else y_assoc t k end.
(* the library oracles of Model/Text (net.ParseIP, net.ParseCIDR) on the texts of this file *)
Definition y_o : toracles :=
  mkTO (fun _ => false)
       (fun s => match y_assoc y_ips s with Some a => Some (v4pre ++ a) | None => None end)
       (fun _ => [])
       (fun s => y_assoc y_cidrs s)
       (fun _ _ => []) (fun _ => None) (fun _ => []).

Definition y_file : list bytes := [
  (* Zexample.com,a.ns.example.com,dns.example.com,1,7200,1800,604800,120,60 *)
  [90; 101; 120; 97; 109; 112; 108; 101; 46; 99; 111; 109; 44; 97; 46; 110; 115; 46; 101; 120; 97; 109; 112; 108; 101; 46; 99; 111; 109; 44; 100; 110; 115; 46; 101; 120; 97; 109; 112; 108; 101; 46; 99; 111; 109; 44; 49; 44; 55; 50; 48; 48; 44; 49; 56; 48; 48; 44; 54; 48; 52; 56; 48; 48; 44; 49; 50; 48; 44; 54; 48];
  (* &example.com,10.0.0.1,a.ns.example.com,3600 *)
  [38; 101; 120; 97; 109; 112; 108; 101; 46; 99; 111; 109; 44; 49; 48; 46; 48; 46; 48; 46; 49; 44; 97; 46; 110; 115; 46; 101; 120; 97; 109; 112; 108; 101; 46; 99; 111; 109; 44; 51; 54; 48; 48];
  (* +www.example.com,10.0.0.2,300,,ab *)
  [43; 119; 119; 119; 46; 101; 120; 97; 109; 112; 108; 101; 46; 99; 111; 109; 44; 49; 48; 46; 48; 46; 48; 46; 50; 44; 51; 48; 48; 44; 44; 97; 98];
  (* +www.example.com,10.0.0.3,300,,cd *)
  [43; 119; 119; 119; 46; 101; 120; 97; 109; 112; 108; 101; 46; 99; 111; 109; 44; 49; 48; 46; 48; 46; 48; 46; 51; 44; 51; 48; 48; 44; 44; 99; 100];
  (* +www.example.com,10.0.0.9,300 *)
  [43; 119; 119; 119; 46; 101; 120; 97; 109; 112; 108; 101; 46; 99; 111; 109; 44; 49; 48; 46; 48; 46; 48; 46; 57; 44; 51; 48; 48];
  (* %ab,10.0.0.0/8,m1 *)
  [37; 97; 98; 44; 49; 48; 46; 48; 46; 48; 46; 48; 47; 56; 44; 109; 49];
  (* %cd,10.1.0.0/16,m1      nested in the subnet above *)
  [37; 99; 100; 44; 49; 48; 46; 49; 46; 48; 46; 48; 47; 49; 54; 44; 109; 49];
  (* %cd,192.168.0.0/16,e1 *)
  [37; 99; 100; 44; 49; 57; 50; 46; 49; 54; 56; 46; 48; 46; 48; 47; 49; 54; 44; 101; 49];
  (* %ab,192.168.1.0/24,e1   nested in the subnet above *)
  [37; 97; 98; 44; 49; 57; 50; 46; 49; 54; 56; 46; 49; 46; 48; 47; 50; 52; 44; 101; 49];
  (* Mexample.com,m1 *)
  [77; 101; 120; 97; 109; 112; 108; 101; 46; 99; 111; 109; 44; 109; 49];
  (* M*.example.com,m1 *)
  [77; 42; 46; 101; 120; 97; 109; 112; 108; 101; 46; 99; 111; 109; 44; 109; 49];
  (* 8*.example.com,e1 *)
  [56; 42; 46; 101; 120; 97; 109; 112; 108; 101; 46; 99; 111; 109; 44; 101; 49]].

Definition y_www : label := [119; 119; 119].
Definition y_example : label := [101; 120; 97; 109; 112; 108; 101].
Definition y_com : label := [99; 111; 109].
Definition y_n : Answer.name := [y_www; y_example; y_com].
Definition y_qname : bytes := [3; 87; 87; 87; 7; 101; 120; 97; 109; 112; 108; 101; 3; 99; 111; 109; 0].   (* WWW.example.com *)
(* A WWW.example.com without OPT, and with an OPT of EDNS version 0 *)
Definition y_q0 : Serve.query := mkQ 1 y_qname 1 1 None.
Definition y_q1 : Serve.query := mkQ 2 y_qname 1 1 (Some 0).
Definition y_ip4 (a b c d : N) : N := first_v4 + a * 2 ^ 24 + b * 2 ^ 16 + c * 2 ^ 8 + d.
(* client 1: resolver 10.1.2.3, no OPT                                    -> M map m1, 10.1.0.0/16: location cd *)
Definition y_c1 : Ecs.query := mkQuery None (Some (y_ip4 10 1 2 3)).
(* client 2: resolver 8.8.8.8, ECS 192.168.1.0/24 (family 1, source 24)      -> 8 map e1, 192.168.1.0/24: location ab, scope 24 *)
Definition y_c2 : Ecs.query := mkQuery (Some (mkEdns 0 false 1232 [OEcs (mkEcs 1 24 0 (y_ip4 192 168 1 0))])) (Some (y_ip4 8 8 8 8)).
(* client 3: resolver 10.9.9.9, ECS 172.16.0.0/12: no subnet of e1 matches -> default scope 24, resolver decides: 10.0.0.0/8, location ab *)
Definition y_c3 : Ecs.query := mkQuery (Some (mkEdns 0 false 1232 [OEcs (mkEcs 1 12 0 (y_ip4 172 16 0 0))])) (Some (y_ip4 10 9 9 9)).
(* client 4: resolver 8.8.8.8, no OPT: nothing matches                     -> location \000\000, untagged records only *)
Definition y_c4 : Ecs.query := mkQuery None (Some (y_ip4 8 8 8 8)).
(* the echoed option as family, source, scope *)
Definition y_enc (e : ecs) : ecsval := [e_fam e; e_src e; e_scope e].

Definition y_rs := parsed y_o 7 y_file.
Definition y_R2 := records bytes (conv_line y_o 7 true true) (accum_rdb isort y_o 7) [feature_kv true] y_file.
Definition y_R1 := records bytes (conv_line y_o 7 true false) (accum_rdb isort y_o 7) [feature_kv false] y_file.
Definition y_Rc := records bytes (conv_line y_o 7 false false) (accum_cdb y_o 7) [feature_kv false] y_file.
(* a listing of a store over the given keys *)
Definition listing_of_keys (db : Model.Batch.store) (keys : list bytes) : list (bytes * bytes) :=
  flat_map (fun k => match db k with Some v => [(k, v)] | None => [] end) keys.

Lemma listing_of_keys_ok : forall (db : Model.Batch.store) keys, (forall k, db k <> None -> In k keys) ->
  lists_store (listing_of_keys db keys) db.
Proof.
  intros db keys H k v. unfold listing_of_keys. rewrite in_flat_map. split.
  - intros (k' & _ & Hin). destruct (db k') as [d|] eqn:E; [|destruct Hin]. destruct Hin as [X|[]]. inversion X; subst. exact E.
  - intros E. exists k. split; [apply H; congruence|]. rewrite E. left. reflexivity.
Qed.

(* wf_subnets for every map is decidable: only the maps with subnet lines have subnets *)
Lemma wf_subnets_by_ids : forall rs,
  forallb (fun m => wf_subnetsb (declared_subnets rs m)) (ranger_ids rs) = true ->
  forall m, wf_subnets (declared_subnets rs m).
Proof.
  intros rs H m. destruct (in_dec mapid_eq_dec m (ranger_ids rs)) as [Hin|Hn].
  - rewrite forallb_forall in H. exact (H m Hin).
  - rewrite declared_subnets_nets, (proj2 (ranger_ids_ok rs) m Hn). reflexivity.
Qed.

Definition y_reply (id : N) (addrs : list (N * N * bytes)) (k : N) (opt : option (option ecsval)) : outcome :=
  OReply (mkResp id (Some (y_qname, 1, 1)) 0 true [IPick y_qname 1 1 addrs k] [] [] opt).

Lemma client_example :
  (* the guards on the file *)
  wf_file y_o 7 y_file = true /\ loc_file_okb y_o 7 y_file = true /\ subnet_locs_okb y_o 7 y_file = true /\
  maps_once y_rs /\ (forall m, wf_subnets (declared_subnets y_rs m)) /\ sort_spec isort /\
  kvs_ok (flat_map (recs_of bytes (conv_line y_o 7 false true)) y_file) /\
  kvs_ok (flat_map (recs_of bytes (conv_line y_o 7 false false)) y_file) /\
  wf_name y_n /\ lower_bytes y_qname = pack y_n /\
  (* what the spec reads off the M / 8 / % lines for the four clients *)
  view_of y_rs y_n (y_ip4 10 1 2 3) y_c1 = [99; 100] /\ view_of y_rs y_n (y_ip4 8 8 8 8) y_c2 = [97; 98] /\
  view_of y_rs y_n (y_ip4 10 9 9 9) y_c3 = [97; 98] /\ view_of y_rs y_n (y_ip4 8 8 8 8) y_c4 = [0; 0] /\
  echo_view y_rs y_n y_enc y_c2 = Some [1; 24; 24] /\ echo_view y_rs y_n y_enc y_c3 = Some [1; 12; 24] /\
  wf_view [99; 100] (declared_file y_o 7 y_file) = true /\ wf_view [97; 98] (declared_file y_o 7 y_file) = true /\
  wf_view [0; 0] (declared_file y_o 7 y_file) = true /\
  (* RocksDB, v2 keys, builder: the handler with its own lookup *)
  (exists db st dbl,
     compile_builder bytes (conv_line y_o 7 true true) kv_isort 1 2 y_file y_R2 = Ok db /\
     rdb_dump db st /\ lists_store dbl db /\ (length y_R2 = 24)%nat /\
     handle BV2 RDB2 dbl st y_q0 y_c1 y_enc 8 = y_reply 1 [(300, 1, [10; 0; 0; 3]); (300, 1, [10; 0; 0; 9])] 2 None /\
     handle BV2 RDB2 dbl st y_q1 y_c2 y_enc 8 = y_reply 2 [(300, 1, [10; 0; 0; 2]); (300, 1, [10; 0; 0; 9])] 2 (Some (Some [1; 24; 24])) /\
     handle BV2 RDB2 dbl st y_q1 y_c3 y_enc 8 = y_reply 2 [(300, 1, [10; 0; 0; 2]); (300, 1, [10; 0; 0; 9])] 2 (Some (Some [1; 12; 24])) /\
     handle BV2 RDB2 dbl st y_q0 y_c4 y_enc 8 = y_reply 1 [(300, 1, [10; 0; 0; 9])] 1 None /\
     forall q cq n rip enc max x, wf_name n -> nlen (pack n) <= 255 -> lower_bytes (q_name q) = pack n ->
       (Serve.q_edns q = None \/ Serve.q_edns q = Some 0) -> q_rip cq = Some rip -> rip < two128 ->
       (forall e, query_ecs cq = Some e -> wf_ecs e) ->
       wf_view (view_of y_rs n rip cq) (declared_file y_o 7 y_file) = true ->
       handle BV2 RDB2 dbl st q cq enc max = OReply x ->
       response_refines (view_of y_rs n rip cq) (declared_file y_o 7 y_file) n q (echo_view y_rs n enc cq) max x) /\
  (* CDB: the stream reversed, per-family prefix sets *)
  (let stream := rev y_Rc in
   compile_cdb bytes (conv_line y_o 7 false false) y_file stream = Ok stream /\
   handle (BCdb true) CDB stream (store_of stream) y_q1 y_c2 y_enc 8 =
     y_reply 2 [(300, 1, [10; 0; 0; 2]); (300, 1, [10; 0; 0; 9])] 2 (Some (Some [1; 24; 24])) /\
   forall q cq n rip enc max x, wf_name n -> nlen (pack n) <= 255 -> lower_bytes (q_name q) = pack n ->
     (Serve.q_edns q = None \/ Serve.q_edns q = Some 0) -> q_rip cq = Some rip -> rip < two128 ->
     (forall e, query_ecs cq = Some e -> wf_ecs e) ->
     wf_view (view_of y_rs n rip cq) (declared_file y_o 7 y_file) = true ->
     handle (BCdb true) CDB stream (store_of stream) q cq enc max = OReply x ->
     response_refines (view_of y_rs n rip cq) (declared_file y_o 7 y_file) n q (echo_view y_rs n enc cq) max x).
Proof.
  assert (WF : wf_file y_o 7 y_file = true) by (vm_compute; reflexivity).
  assert (LOK : loc_file_okb y_o 7 y_file = true) by (vm_compute; reflexivity).
  assert (LS : subnet_locs_okb y_o 7 y_file = true) by (vm_compute; reflexivity).
  assert (ONCE : maps_once y_rs).
  { unfold maps_once.
    assert (E : map decl_key (declared_maps y_rs) =
                [(77, false, [y_example; y_com]); (77, true, [y_example; y_com]); (56, true, [y_example; y_com])]) by (vm_compute; reflexivity).
    rewrite E. repeat (constructor; [cbn [In]; intuition discriminate|]). constructor. }
  assert (Hw : forall m, wf_subnets (declared_subnets y_rs m)) by (apply wf_subnets_by_ids; vm_compute; reflexivity).
  assert (KVb : forall v2, kvs_ok (flat_map (recs_of bytes (conv_line y_o 7 false v2)) y_file)).
  { intros v2. unfold kvs_ok. apply Forall_forall. intros p Hp.
    assert (A : forallb (fun p : bytes * bytes => nlen (snd p) <? 4294967296)
                  (flat_map (recs_of bytes (conv_line y_o 7 false v2)) y_file) = true) by (destruct v2; vm_compute; reflexivity).
    rewrite forallb_forall in A. specialize (A p Hp). unfold okv. lia. }
  assert (Hn : wf_name y_n).
  { unfold wf_name, y_n. repeat (constructor; [split; [unfold nlen; cbn; lia | split; [intros c Hc; cbn in Hc; lia | repeat constructor; lia]]|]). constructor. }
  split; [exact WF|]. split; [exact LOK|]. split; [exact LS|]. split; [exact ONCE|]. split; [exact Hw|].
  split; [exact isort_spec|]. split; [exact (KVb true)|]. split; [exact (KVb false)|]. split; [exact Hn|].
  split; [vm_compute; reflexivity|].
  split; [vm_compute; reflexivity|]. split; [vm_compute; reflexivity|]. split; [vm_compute; reflexivity|]. split; [vm_compute; reflexivity|].
  split; [vm_compute; reflexivity|]. split; [vm_compute; reflexivity|].
  split; [vm_compute; reflexivity|]. split; [vm_compute; reflexivity|]. split; [vm_compute; reflexivity|]. split.
  - eexists. eexists. eexists. split; [vm_compute; reflexivity|].
    match goal with |- rdb_dump ?db _ /\ _ =>
      assert (C : rdb_compilation bytes (conv_line y_o 7 true true) (accum_rdb isort y_o 7) [feature_kv true] y_file db)
    end.
    { eapply (by_builder _ _ _ _ _ _ kv_isort 1 2); [apply sort_ok_isort | lia | lia | apply Permutation_refl | vm_compute; reflexivity]. }
    assert (NF : [feature_kv true] <> []) by discriminate.
    pose proof (kvs_ok_rdb' isort y_o 7 true y_file (KVb true)) as KV.
    split; [apply (rdb_dump_exists bytes _ _ _ _ _ NF KV C)|].
    split.
    { apply (listing_of_keys_ok _ (map fst y_R2)).
      destruct (rdb_compilation_lossless bytes _ _ _ y_file _ NF KV C) as [OK Hv].
      exact (compiled_support bytes _ _ _ y_file _ OK Hv). }
    split; [vm_compute; reflexivity|].
    split; [vm_compute; reflexivity|]. split; [vm_compute; reflexivity|]. split; [vm_compute; reflexivity|]. split; [vm_compute; reflexivity|].
    intros q cq n rip enc max x Hn' Hl Hq He Hr Hlt Hecs V Hs.
    exact (file_level_client_rdb_v2 isort isort_spec y_o 7 y_file WF LOK ONCE Hw q cq n rip enc max Hn' Hl Hq He Hr Hlt Hecs V
             _ _ _ x (KVb true) C (rdb_dump_exists bytes _ _ _ _ _ NF KV C)
             (listing_of_keys_ok _ (map fst y_R2)
                (compiled_support bytes _ _ _ y_file _ (proj1 (rdb_compilation_lossless bytes _ _ _ y_file _ NF KV C))
                   (proj2 (rdb_compilation_lossless bytes _ _ _ y_file _ NF KV C)))) Hs).
  - cbv zeta. split; [vm_compute; reflexivity|]. split; [vm_compute; reflexivity|].
    intros q cq n rip enc max x Hn' Hl Hq He Hr Hlt Hecs V Hs.
    exact (file_level_client_cdb y_o 7 y_file WF LOK ONCE Hw q cq n rip enc max Hn' Hl Hq He Hr Hlt Hecs V
             true (rev y_Rc) (rev y_Rc) (store_of (rev y_Rc)) x (KVb false) LS (Permutation_sym (Permutation_rev _))
             ltac:(vm_compute; reflexivity) (store_of_rows _) Hs).
Qed.

(* ---------------------------------------------------------------- the guard maps_once is needed *)
(* two M lines for the same name with different maps: both map records land under one key, and which one
   FindMap returns depends on the order in which the compiler's stream delivers them - two CDB streams of
   the SAME file (both permutations of the codec's records) locate the same client differently *)
Definition z_file : list bytes := [
  (* Mexample.com,m1 *)
  [77; 101; 120; 97; 109; 112; 108; 101; 46; 99; 111; 109; 44; 109; 49];
  (* Mexample.com,m2 *)
  [77; 101; 120; 97; 109; 112; 108; 101; 46; 99; 111; 109; 44; 109; 50];
  (* %ab,10.0.0.0/8,m1 *)
  [37; 97; 98; 44; 49; 48; 46; 48; 46; 48; 46; 48; 47; 56; 44; 109; 49];
  (* %cd,10.0.0.0/8,m2 *)
  [37; 99; 100; 44; 49; 48; 46; 48; 46; 48; 46; 48; 47; 56; 44; 109; 50]].
Definition z_Rc := records bytes (conv_line y_o 7 false false) (accum_cdb y_o 7) [feature_kv false] z_file.
Definition found_loc (r : result (option ecs * location)) : option locid :=
  match r with Ok (_, l) => Some (l_loc l) | Err _ => None end.

Lemma maps_once_needed :
  wf_file y_o 7 z_file = true /\ loc_file_okb y_o 7 z_file = true /\ subnet_locs_okb y_o 7 z_file = true /\
  (forall m, wf_subnets (declared_subnets (parsed y_o 7 z_file) m)) /\
  ~ maps_once (parsed y_o 7 z_file) /\
  compile_cdb bytes (conv_line y_o 7 false false) z_file z_Rc = Ok z_Rc /\
  compile_cdb bytes (conv_line y_o 7 false false) z_file (rev z_Rc) = Ok (rev z_Rc) /\
  found_loc (client_location (BCdb true) z_Rc (pack [y_example; y_com]) y_c1) = Some (97, 98) /\
  found_loc (client_location (BCdb true) (rev z_Rc) (pack [y_example; y_com]) y_c1) = Some (99, 100).
Proof.
  split; [vm_compute; reflexivity|]. split; [vm_compute; reflexivity|]. split; [vm_compute; reflexivity|].
  split; [apply wf_subnets_by_ids; vm_compute; reflexivity|]. split.
  - unfold maps_once.
    assert (E : map decl_key (declared_maps (parsed y_o 7 z_file)) =
                [(77, false, [y_example; y_com]); (77, false, [y_example; y_com])]) by (vm_compute; reflexivity).
    rewrite E. intros H. inversion H as [|? ? N1 _]; subst. apply N1. left. reflexivity.
  - split; [vm_compute; reflexivity|]. split; [vm_compute; reflexivity|]. split; vm_compute; reflexivity.
Qed.
