From DnsV Require Import Base.Bytes Model.Reload Proofs.Reload Proofs.ReloadBase.
From Coq Require Import Lia ZifyN ZifyNat ZifyBool.
Open Scope N_scope.
Section P.
Variable refusedf weightedf : N -> N -> bool.
Variable cfg : config.
Notation step := (step refusedf weightedf cfg).

Definition succ_track (pc : rpc) : bool :=
  match pc with RSwapPtr | RSwapped | RPurged | RDone None => true | _ => false end.

(* the served content is at least as new as what any reload past its swap installed *)
Definition ServedGe (st : state) : Prop :=
  forall i r, rat st i r -> succ_track (r_pc r) = true -> r_epoch r <= epoch_of st (st_served st).

Lemma ServedGe_step st t st' : Epo st -> Idx st -> ServedGe st -> step st t = Some st' -> ServedGe st'.
Proof.
  intros [HE HP HQ HR] [HS _ HIR] HG H. inv_step H.
  all: unfold ServedGe, epoch_of, content, back, qat, rat, qread, qset_pc, rset_pc, catch_up, set_backs in *; cbn in *.
  all: intros ? ? HN; split_upd; cbn; intros; pcs; cbn in *; try discriminate;
       repeat match goal with
       | Hr : nth_error (st_rs _) _ = Some _ |- _ => pose proof (HR _ _ Hr); pose proof (HG _ _ Hr); pose proof (HIR _ _ Hr); revert Hr
       end; intros; pcs; cbn in *; triv_prem; fwd;
       nat_eqs;
       try match goal with |- context [nth ?c (upd ?c ?x ?l) ?d] => rewrite (nth_upd_same c x d l) by (auto; lia) end;
       try match goal with E : ?a = st_served _ |- _ => rewrite E in * end;
       try match goal with |- context [nth ?b (upd ?c ?x ?l) ?d] => destruct (nth_upd_cases c b x d l) as [->|(?&->)] end;
       try match goal with |- context [nth ?b (?l ++ [?x]) ?d] => rewrite (nth_app_lt b x d l) by assumption end;
       cbn; try lia.
Qed.

(* backend epochs never decrease *)
Lemma epoch_mono st t st' : Epo st -> step st t = Some st' -> forall b, epoch_of st b <= epoch_of st' b.
Proof.
  intros [HE HP HQ HR] H. inv_step H.
  all: unfold epoch_of, content, back, catch_up, set_backs in *; cbn in *; intros b; try lia.
  all: try (backs_cases b; cbn; specialize (HE b); try lia).
  all: subst; rewrite nth_overflow by lia; cbn; lia.
Qed.

(* a query that took the read lock after a successful reload returned pins and reads
   content at least as new as what that reload installed *)
Definition Vis (st : state) : Prop :=
  forall i j r q, rat st i r -> qat st j q -> r_pc r = RDone None -> q_pc q <> QStart ->
  r_unlock_at r < q_acq_at q ->
  (q_pc q = QRLocked -> r_epoch r <= epoch_of st (st_served st)) /\
  (q_pc q <> QRLocked -> r_epoch r <= epoch_of st (q_pin q)) /\
  (forall g, In g (q_reads q) -> r_epoch r <= g_epoch g).

Lemma Vis_step st t st' : Epo st -> Idx st -> Clk st -> ServedGe st -> Vis st -> step st t = Some st' -> Vis st'.
Proof.
  intros HE HI [KQ KR] HG HV H.
  pose proof (epoch_mono _ _ _ HE H) as HM.
  pose proof (ServedGe_step _ _ _ HE HI HG H) as HG'.
  clear HE HI.
  inv_step H.
  all: unfold Vis, ServedGe, qat, rat, qread, qset_pc, rset_pc, epoch_of, back, content, catch_up, set_backs in *; cbn in *.
  all: intros ? ? ? ? HN1 HN2; pose proof (HG' _ _ HN1) as F1; clear HG'; split_upd; cbn in *; intros; pcs; cbn in *; try discriminate.
  all: repeat match goal with
       | Hq : nth_error (st_qs _) _ = Some _ |- _ => pose proof (KQ _ _ Hq); revert Hq
       end; intros;
       repeat match goal with
       | Hr : nth_error (st_rs _) _ = Some _ |- _ => pose proof (KR _ _ Hr); revert Hr
       end; intros;
       repeat match goal with
       | Hr : nth_error (st_rs _) _ = Some ?r, Hq : nth_error (st_qs _) _ = Some ?q |- _ =>
           lazymatch goal with
           | _ : r_pc r = RDone None -> q_pc q <> QStart -> _ |- _ => fail
           | _ => pose proof (HV _ _ _ _ Hr Hq)
           end
       end;
       dest_and; pcs; cbn in *; triv_prem; try lia.
  all: repeat split; intros; split_in; subst; cbn in *; try contradiction; try congruence; fwd; dest_and; triv_prem;
       try (match goal with |- _ <= b_epoch (nth ?b _ _) => pose proof (HM b) end);
       repeat match goal with H : forall g, In g ?l -> _, H' : In ?x ?l |- _ => pose proof (H _ H'); revert H' end; intros;
       try lia.
  all: unfold back; lia.
Qed.
End P.
