(* Lemmas about the specification Spec/MapOfLists.v alone: a batch acts on every
   key separately, the order of the deletions is irrelevant, the order of the
   additions matters only behind the surviving old values, and a step respects
   pointwise equality of maps. *)
From DnsV Require Import Spec.MapOfLists Proofs.MultiValue.
From Coq Require Import Permutation.
Open Scope N_scope.

Definition smap_eq (m1 m2 : smap) : Prop := forall k, m1 k = m2 k.

(* ---------------------------------------------------------------- remove_first *)

Lemma remove_first_app : forall v l1 l2,
  remove_first v (l1 ++ l2) =
  match remove_first v l1 with
  | Some l1' => Some (l1' ++ l2)
  | None => option_map (app l1) (remove_first v l2)
  end.
Proof.
  induction l1 as [|x l1 IH]; intro l2; simpl.
  - destruct (remove_first v l2); reflexivity.
  - destruct (bytes_eqb x v); [reflexivity|]. rewrite IH.
    destruct (remove_first v l1); simpl; [reflexivity|]. destruct (remove_first v l2); reflexivity.
Qed.

Definition obind {A B} (o : option A) (f : A -> option B) : option B :=
  match o with Some a => f a | None => None end.

Lemma remove_first_comm : forall x y l,
  obind (remove_first x l) (remove_first y) = obind (remove_first y l) (remove_first x).
Proof.
  induction l as [|z l IH]; simpl; [reflexivity|].
  destruct (bytes_eqb z x) eqn:Ex, (bytes_eqb z y) eqn:Ey; simpl.
  - apply bytes_eqb_eq in Ex. apply bytes_eqb_eq in Ey. subst. reflexivity.
  - destruct (remove_first y l); simpl; [rewrite Ex|]; reflexivity.
  - destruct (remove_first x l); simpl; [rewrite Ey|]; reflexivity.
  - destruct (remove_first x l) as [l1|] eqn:E1, (remove_first y l) as [l2|] eqn:E2; simpl in *; rewrite ?Ex, ?Ey.
    + rewrite <- IH. destruct (remove_first y l1); reflexivity.
    + rewrite IH. reflexivity.
    + rewrite <- IH. reflexivity.
    + reflexivity.
Qed.

Lemma remove_firsts_cons : forall v vs l,
  remove_firsts (v :: vs) l = obind (remove_first v l) (remove_firsts vs).
Proof. intros. simpl. destruct (remove_first v l); reflexivity. Qed.

Lemma remove_firsts_cons2 : forall a b vs l,
  remove_firsts (a :: b :: vs) l = obind (obind (remove_first a l) (remove_first b)) (remove_firsts vs).
Proof.
  intros. simpl. destruct (remove_first a l) as [l1|]; simpl; [|reflexivity].
  destruct (remove_first b l1); reflexivity.
Qed.

(* the deletions of a batch may be taken in any order *)
Lemma remove_firsts_perm : forall vs vs', Permutation vs vs' -> forall l, remove_firsts vs l = remove_firsts vs' l.
Proof.
  induction 1; intro l0.
  - reflexivity.
  - rewrite !remove_firsts_cons. destruct (remove_first x l0); simpl; auto.
  - rewrite !remove_firsts_cons2. rewrite remove_first_comm. reflexivity.
  - rewrite IHPermutation1. apply IHPermutation2.
Qed.

Lemma remove_first_Forall : forall (P : bytes -> Prop) v l l',
  Forall P l -> remove_first v l = Some l' -> Forall P l'.
Proof.
  intros P v l l' H R. destruct (remove_first_split v l l' R) as [a [b [A [B _]]]]. subst.
  apply Forall_app in H. destruct H as [Ha Hb]. inversion Hb; subst. apply Forall_app. split; assumption.
Qed.

Lemma remove_firsts_Forall : forall (P : bytes -> Prop) vs l l',
  Forall P l -> remove_firsts vs l = Some l' -> Forall P l'.
Proof.
  induction vs as [|v vs IH]; simpl; intros l l' H R.
  - inversion R; subst. assumption.
  - destruct (remove_first v l) as [l1|] eqn:E; [|discriminate].
    eapply IH; [|exact R]. eapply remove_first_Forall; eassumption.
Qed.

(* removing one v from two lists with the same elements leaves the same elements *)
Lemma remove_first_perm : forall v A A' A1, Permutation A A' -> remove_first v A = Some A1 ->
  exists A1', remove_first v A' = Some A1' /\ Permutation A1 A1'.
Proof.
  intros v A A' A1 P R.
  destruct (remove_first_split v A A1 R) as [a [b [E1 [E2 _]]]]. subst.
  assert (I : In v A') by (eapply Permutation_in; [exact P | apply in_elt]).
  apply remove_first_in in I. destruct (remove_first v A') as [A1'|] eqn:R'; [|congruence].
  exists A1'. split; [reflexivity|].
  destruct (remove_first_split v A' A1' R') as [a' [b' [E1' [E2' _]]]]. subst.
  eapply Permutation_app_inv. exact P.
Qed.

(* ---------------------------------------------------------------- per-key view of a batch *)

Lemma vals_of_cons : forall k k0 v r,
  vals_of k ((k0, v) :: r) = if bytes_eqb k0 k then v :: vals_of k r else vals_of k r.
Proof. intros. unfold vals_of. simpl. destruct (bytes_eqb k0 k); reflexivity. Qed.

Lemma vals_of_app : forall k a b, vals_of k (a ++ b) = vals_of k a ++ vals_of k b.
Proof. intros. unfold vals_of. rewrite filter_app, map_app. reflexivity. Qed.

Lemma vals_of_perm : forall k l l', Permutation l l' -> Permutation (vals_of k l) (vals_of k l').
Proof.
  induction 1.
  - constructor.
  - destruct x as [k0 v]. rewrite !vals_of_cons. destruct (bytes_eqb k0 k); [constructor|]; assumption.
  - destruct x as [k1 v1], y as [k2 v2]. rewrite !vals_of_cons.
    destruct (bytes_eqb k1 k), (bytes_eqb k2 k); try apply Permutation_refl. constructor.
  - eapply Permutation_trans; eassumption.
Qed.

Lemma m_set_eq : forall m k l, m_set m k l k = l.
Proof. intros. unfold m_set. rewrite bytes_eqb_refl. reflexivity. Qed.

Lemma m_set_neq : forall m k l k', k' <> k -> m_set m k l k' = m k'.
Proof. intros. unfold m_set. apply bytes_eqb_neq in H. rewrite H. reflexivity. Qed.

Lemma m_adds_perkey : forall adds m k, m_adds m adds k = m k ++ vals_of k adds.
Proof.
  unfold m_adds. induction adds as [|[k0 v] r IH]; intros m k; simpl fold_left.
  - unfold vals_of. simpl. symmetry. apply app_nil_r.
  - rewrite IH. rewrite vals_of_cons. unfold m_add.
    destruct (bytes_eqb k0 k) eqn:E.
    + apply bytes_eqb_eq in E. subst. rewrite m_set_eq. rewrite <- app_assoc. reflexivity.
    + apply bytes_eqb_neq in E. rewrite m_set_neq by congruence. reflexivity.
Qed.

Lemma m_dels_perkey_some : forall dels m m', m_dels m dels = Some m' ->
  forall k, remove_firsts (vals_of k dels) (m k) = Some (m' k).
Proof.
  induction dels as [|[k0 v] r IH]; simpl; intros m m' H k.
  - inversion H; subst. reflexivity.
  - unfold m_del in H. destruct (remove_first v (m k0)) as [l'|] eqn:E; [|discriminate].
    rewrite vals_of_cons. specialize (IH _ _ H k).
    destruct (bytes_eqb k0 k) eqn:Ek.
    + apply bytes_eqb_eq in Ek. subst. simpl. rewrite E. rewrite m_set_eq in IH. exact IH.
    + apply bytes_eqb_neq in Ek. rewrite m_set_neq in IH by congruence. exact IH.
Qed.

Lemma m_dels_perkey_none : forall dels m, m_dels m dels = None ->
  exists k, remove_firsts (vals_of k dels) (m k) = None.
Proof.
  induction dels as [|[k0 v] r IH]; simpl; intros m H; [discriminate|].
  unfold m_del in H. destruct (remove_first v (m k0)) as [l'|] eqn:E.
  - destruct (IH _ H) as [k Hk]. exists k. rewrite vals_of_cons.
    destruct (bytes_eqb k0 k) eqn:Ek.
    + apply bytes_eqb_eq in Ek. subst. simpl. rewrite E. rewrite m_set_eq in Hk. exact Hk.
    + apply bytes_eqb_neq in Ek. rewrite m_set_neq in Hk by congruence. exact Hk.
  - exists k0. rewrite vals_of_cons. rewrite bytes_eqb_refl. simpl. rewrite E. reflexivity.
Qed.

(* a batch acts on every key by itself: its additions to that key, then its deletions from it *)
Definition batch_key (old : list bytes) (k : bytes) (adds dels : list (bytes * bytes)) : option (list bytes) :=
  remove_firsts (vals_of k dels) (old ++ vals_of k adds).

Lemma m_batch_perkey_some : forall m adds dels m', m_batch m adds dels = Some m' ->
  forall k, batch_key (m k) k adds dels = Some (m' k).
Proof.
  unfold m_batch, batch_key. intros m adds dels m' H k.
  rewrite <- m_adds_perkey. apply m_dels_perkey_some. exact H.
Qed.

Lemma m_batch_perkey_none : forall m adds dels, m_batch m adds dels = None ->
  exists k, batch_key (m k) k adds dels = None.
Proof.
  unfold m_batch, batch_key. intros m adds dels H.
  destruct (m_dels_perkey_none _ _ H) as [k Hk]. exists k. rewrite <- m_adds_perkey. exact Hk.
Qed.

Lemma m_batch_of_perkey : forall m adds dels (f : smap),
  (forall k, batch_key (m k) k adds dels = Some (f k)) ->
  exists m', m_batch m adds dels = Some m' /\ smap_eq m' f.
Proof.
  intros m adds dels f H. destruct (m_batch m adds dels) as [m'|] eqn:E.
  - exists m'. split; [reflexivity|]. intro k.
    pose proof (m_batch_perkey_some _ _ _ _ E k) as P. rewrite H in P. congruence.
  - destruct (m_batch_perkey_none _ _ _ E) as [k Hk]. rewrite H in Hk. discriminate.
Qed.

Lemma m_batch_none_of_perkey : forall m adds dels k,
  batch_key (m k) k adds dels = None -> m_batch m adds dels = None.
Proof.
  intros m adds dels k H. destruct (m_batch m adds dels) as [m'|] eqn:E; [|reflexivity].
  rewrite (m_batch_perkey_some _ _ _ _ E k) in H. discriminate.
Qed.

(* ---------------------------------------------------------------- order of the deletions / additions *)

Lemma batch_key_perm_dels : forall old k adds dels dels', Permutation dels dels' ->
  batch_key old k adds dels = batch_key old k adds dels'.
Proof. intros. unfold batch_key. apply remove_firsts_perm. apply vals_of_perm. assumption. Qed.

(* the deletions of a batch may be taken in any order: same failure, same map *)
Lemma m_batch_perm_dels : forall m adds dels dels', Permutation dels dels' ->
  match m_batch m adds dels, m_batch m adds dels' with
  | Some m1, Some m2 => smap_eq m1 m2
  | None, None => True
  | _, _ => False
  end.
Proof.
  intros m adds dels dels' P.
  destruct (m_batch m adds dels) as [m1|] eqn:E1, (m_batch m adds dels') as [m2|] eqn:E2.
  - intro k. pose proof (m_batch_perkey_some _ _ _ _ E1 k) as A. pose proof (m_batch_perkey_some _ _ _ _ E2 k) as B.
    rewrite (batch_key_perm_dels _ _ _ _ _ P) in A. congruence.
  - destruct (m_batch_perkey_none _ _ _ E2) as [k Hk].
    rewrite <- (batch_key_perm_dels _ _ _ _ _ P) in Hk. rewrite (m_batch_perkey_some _ _ _ _ E1 k) in Hk. discriminate.
  - destruct (m_batch_perkey_none _ _ _ E1) as [k Hk].
    rewrite (batch_key_perm_dels _ _ _ _ _ P) in Hk. rewrite (m_batch_perkey_some _ _ _ _ E2 k) in Hk. discriminate.
  - exact I.
Qed.

(* two results that differ only in the order of the additions: same first p values,
   same values behind them *)
Definition upto_new (p : nat) (l1 l2 : list bytes) : Prop :=
  firstn p l1 = firstn p l2 /\ Permutation (skipn p l1) (skipn p l2).

Lemma firstn_len_app : forall {A} (a b : list A), firstn (length a) (a ++ b) = a.
Proof. induction a; simpl; intros; [destruct b; reflexivity | f_equal; auto]. Qed.
Lemma skipn_len_app : forall {A} (a b : list A), skipn (length a) (a ++ b) = b.
Proof. induction a; simpl; intros; auto. Qed.

(* p = number of old values that survive the deletions *)
Lemma remove_firsts_app_perm : forall D old A A' r, Permutation A A' ->
  remove_firsts D (old ++ A) = Some r ->
  exists r', remove_firsts D (old ++ A') = Some r' /\ upto_new (length (remove_avail D old)) r r'.
Proof.
  induction D as [|v D IH]; simpl; intros old A A' r P R.
  - inversion R; subst. exists (old ++ A'). split; [reflexivity|]. unfold upto_new.
    rewrite !firstn_len_app, !skipn_len_app. split; [reflexivity | assumption].
  - rewrite remove_first_app in R. rewrite remove_first_app.
    destruct (remove_first v old) as [old1|] eqn:E.
    + eapply IH; eassumption.
    + destruct (remove_first v A) as [A1|] eqn:EA; simpl in R; [|discriminate].
      destruct (remove_first_perm v A A' A1 P EA) as [A1' [EA' P1]]. rewrite EA'. simpl.
      eapply IH; eassumption.
Qed.

Lemma remove_firsts_app_perm_none : forall D old A A', Permutation A A' ->
  remove_firsts D (old ++ A) = None -> remove_firsts D (old ++ A') = None.
Proof.
  intros D old A A' P R. destruct (remove_firsts D (old ++ A')) as [r'|] eqn:E; [|reflexivity].
  destruct (remove_firsts_app_perm D old A' A r' (Permutation_sym P) E) as [r [R' _]]. congruence.
Qed.

(* the additions of a batch in another order: same failure; on success every key
   keeps its surviving old values in place and holds the same values behind them *)
Lemma m_batch_perm_adds : forall m adds adds' dels, Permutation adds adds' ->
  match m_batch m adds dels, m_batch m adds' dels with
  | Some m1, Some m2 => forall k, upto_new (length (remove_avail (vals_of k dels) (m k))) (m1 k) (m2 k)
  | None, None => True
  | _, _ => False
  end.
Proof.
  intros m adds adds' dels P.
  destruct (m_batch m adds dels) as [m1|] eqn:E1, (m_batch m adds' dels) as [m2|] eqn:E2.
  - intro k. pose proof (m_batch_perkey_some _ _ _ _ E1 k) as A. pose proof (m_batch_perkey_some _ _ _ _ E2 k) as B.
    unfold batch_key in A, B.
    destruct (remove_firsts_app_perm _ _ _ _ _ (vals_of_perm k _ _ P) A) as [r' [R U]]. congruence.
  - destruct (m_batch_perkey_none _ _ _ E2) as [k Hk]. unfold batch_key in Hk.
    apply (remove_firsts_app_perm_none _ _ _ _ (Permutation_sym (vals_of_perm k _ _ P))) in Hk.
    pose proof (m_batch_perkey_some _ _ _ _ E1 k) as A. unfold batch_key in A. congruence.
  - destruct (m_batch_perkey_none _ _ _ E1) as [k Hk]. unfold batch_key in Hk.
    apply (remove_firsts_app_perm_none _ _ _ _ (vals_of_perm k _ _ P)) in Hk.
    pose proof (m_batch_perkey_some _ _ _ _ E2 k) as A. unfold batch_key in A. congruence.
  - exact I.
Qed.

(* if the additions to every single key keep their order (a stable sort), nothing changes at all *)
Lemma m_batch_same_key_order : forall m adds adds' dels,
  (forall k, vals_of k adds' = vals_of k adds) ->
  match m_batch m adds dels, m_batch m adds' dels with
  | Some m1, Some m2 => smap_eq m1 m2
  | None, None => True
  | _, _ => False
  end.
Proof.
  intros m adds adds' dels H.
  assert (K : forall k, batch_key (m k) k adds' dels = batch_key (m k) k adds dels)
    by (intro k; unfold batch_key; rewrite H; reflexivity).
  destruct (m_batch m adds dels) as [m1|] eqn:E1, (m_batch m adds' dels) as [m2|] eqn:E2.
  - intro k. pose proof (m_batch_perkey_some _ _ _ _ E1 k). pose proof (m_batch_perkey_some _ _ _ _ E2 k). rewrite K in *. congruence.
  - destruct (m_batch_perkey_none _ _ _ E2) as [k Hk]. rewrite K in Hk. rewrite (m_batch_perkey_some _ _ _ _ E1 k) in Hk. discriminate.
  - destruct (m_batch_perkey_none _ _ _ E1) as [k Hk]. rewrite <- K in Hk. rewrite (m_batch_perkey_some _ _ _ _ E2 k) in Hk. discriminate.
  - exact I.
Qed.

(* ---------------------------------------------------------------- steps respect pointwise equality *)

Lemma m_batch_ext : forall m1 m2 adds dels, smap_eq m1 m2 ->
  match m_batch m1 adds dels, m_batch m2 adds dels with
  | Some a, Some b => smap_eq a b
  | None, None => True
  | _, _ => False
  end.
Proof.
  intros m1 m2 adds dels H.
  destruct (m_batch m1 adds dels) as [a|] eqn:E1, (m_batch m2 adds dels) as [b|] eqn:E2.
  - intro k. pose proof (m_batch_perkey_some _ _ _ _ E1 k) as A. pose proof (m_batch_perkey_some _ _ _ _ E2 k) as B.
    rewrite H in A. congruence.
  - destruct (m_batch_perkey_none _ _ _ E2) as [k Hk]. rewrite <- H in Hk. rewrite (m_batch_perkey_some _ _ _ _ E1 k) in Hk. discriminate.
  - destruct (m_batch_perkey_none _ _ _ E1) as [k Hk]. rewrite H in Hk. rewrite (m_batch_perkey_some _ _ _ _ E2 k) in Hk. discriminate.
  - exact I.
Qed.

Lemma spec_step_ext : forall ord m1 m2 o, smap_eq m1 m2 ->
  snd (spec_step ord m1 o) = snd (spec_step ord m2 o) /\
  smap_eq (fst (spec_step ord m1 o)) (fst (spec_step ord m2 o)).
Proof.
  intros ord m1 m2 o H. destruct o as [k v|k v|adds dels| | | |c]; simpl.
  - split; [reflexivity|]. intro k'. unfold m_add, m_set. rewrite !H. reflexivity.
  - unfold m_del. rewrite <- H. destruct (remove_first v (m1 k)); simpl.
    + split; [reflexivity|]. intro k'. unfold m_set. rewrite H. reflexivity.
    + split; [reflexivity | assumption].
  - pose proof (m_batch_ext m1 m2 (ord adds) dels H) as P.
    destruct (m_batch m1 (ord adds) dels), (m_batch m2 (ord adds) dels); simpl; try contradiction; split; auto.
  - split; [reflexivity | assumption].
  - split; [reflexivity | assumption].
  - split; [reflexivity | assumption].
  - split; [reflexivity | assumption].
Qed.

(* ---------------------------------------------------------------- the boolean relation used by Run/C15.v *)

Lemma vlist_eqb_eq : forall l1 l2, vlist_eqb l1 l2 = true <-> l1 = l2.
Proof.
  induction l1 as [|x l1 IH]; destruct l2 as [|y l2]; simpl; split; intro H; try reflexivity; try discriminate.
  - apply andb_true_iff in H. destruct H as [A B]. apply bytes_eqb_eq in A. apply IH in B. congruence.
  - inversion H; subst. rewrite bytes_eqb_refl. simpl. apply IH. reflexivity.
Qed.

Lemma perm_b_iff : forall l1 l2, perm_b l1 l2 = true <-> Permutation l1 l2.
Proof.
  induction l1 as [|x r IH]; intro l2; simpl.
  - destruct l2 as [|y l2]; split; intro H; try reflexivity; try discriminate.
    apply Permutation_nil in H. discriminate.
  - destruct (remove_first x l2) as [l2'|] eqn:E.
    + destruct (remove_first_split x l2 l2' E) as [a [b [A [B _]]]]. subst. rewrite IH. split; intro H.
      * apply Permutation_cons_app. assumption.
      * eapply Permutation_cons_app_inv. eassumption.
    + split; [discriminate|]. intro H. exfalso.
      assert (I : In x l2) by (eapply Permutation_in; [exact H | left; reflexivity]).
      apply remove_first_in in I. congruence.
Qed.

Lemma upto_new_b_iff : forall p l1 l2, upto_new_b p l1 l2 = true <-> upto_new p l1 l2.
Proof.
  intros. unfold upto_new_b, upto_new. rewrite andb_true_iff, vlist_eqb_eq, perm_b_iff. tauto.
Qed.
