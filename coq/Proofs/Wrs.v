(* Proofs/Wrs: C11 - the weighted sample is bounded and sound for every key
   assignment.  Invariant: the slots hold the top-k keys seen so far
   (no dropped candidate has a key above a kept one). *)
From Coq Require Import List NArith ZArith Bool Lia Permutation.
From DnsV Require Import Base.Bytes Model.Wrs.
Import ListNotations.
Open Scope N_scope.

(* ------------------------------------------------------------------ *)
(* generic list facts *)

Lemma filter_length_perm {X} (p : X -> bool) (l l' : list X) :
  Permutation l l' -> length (filter p l) = length (filter p l').
Proof.
  induction 1; simpl; auto.
  - destruct (p x); simpl; auto.
  - destruct (p x), (p y); simpl; auto.
  - congruence.
Qed.

Lemma filter_all_true {X} (p : X -> bool) (l : list X) :
  (forall x, In x l -> p x = true) -> filter p l = l.
Proof.
  induction l as [|a l IH]; simpl; intros H; auto.
  rewrite (H a) by auto. f_equal. apply IH. intros; apply H; auto.
Qed.

Lemma filter_all_false {X} (p : X -> bool) (l : list X) :
  (forall x, In x l -> p x = false) -> filter p l = [].
Proof.
  induction l as [|a l IH]; simpl; intros H; auto.
  rewrite (H a) by auto. apply IH. intros; apply H; auto.
Qed.

Lemma filter_length_le {X} (p : X -> bool) (l : list X) : (length (filter p l) <= length l)%nat.
Proof. induction l; simpl; auto. destruct (p a); simpl; lia. Qed.

Lemma NoDup_app_l {X} (l r : list X) : NoDup (l ++ r) -> NoDup l.
Proof.
  induction l as [|a l IH]; simpl; intros H; [constructor|].
  inversion H; subst. constructor; auto. intros Hin. apply H2. apply in_or_app; auto.
Qed.

Section WrsProofs.
  Variable K : Type.
  Variable klt : K -> K -> bool.
  Variable kpos : K -> bool.
  Variable A : Type.

  (* the key order is a strict order (Go < on non-NaN float64) ... *)
  Hypothesis klt_irrefl : forall a, klt a a = false.
  Hypothesis klt_trans : forall a b c, klt a b = true -> klt b c = true -> klt a c = true.
  (* ... and keys are >= 0: a key that is not > 0 lies below every key that is *)
  Hypothesis kzero_below : forall z a, kpos z = false -> kpos a = true -> klt z a = true.

  Notation item := (item K A).
  Notation kof := (fun it : item => kpos (fst it)).

  Lemma klt_asym : forall a b, klt a b = true -> klt b a = false.
  Proof.
    intros a b H. destruct (klt b a) eqn:E; auto.
    rewrite <- (klt_irrefl a). symmetry. eapply klt_trans; eauto.
  Qed.

  (* ---------------------------------------------------------------- *)
  (* scan_min returns the first slot holding the strict minimum below the start key *)

  Lemma scan_min_spec : forall (items : list item) i m idx,
    (scan_min klt items i m idx = idx /\ forall v, In v items -> klt (fst v) m = false)
    \/ (exists j z, scan_min klt items i m idx = Some (i + j)%nat /\ nth_error items j = Some z
                    /\ klt (fst z) m = true /\ forall v, In v items -> klt (fst v) (fst z) = false).
  Proof.
    induction items as [|v t IH]; intros i m idx; simpl.
    - left; split; auto. intros ? [].
    - destruct (klt (fst v) m) eqn:E.
      + right. destruct (IH (S i) (fst v) (Some i)) as [[Hr Hall] | (j & z & Hr & Hn & Hlt & Hall)].
        * exists 0%nat, v. rewrite Hr.
          split; [f_equal; lia|]. split; [reflexivity|]. split; [exact E|].
          intros v' [<- | Hin]; auto.
        * exists (S j), z. rewrite Hr.
          split; [f_equal; lia|]. split; [exact Hn|]. split; [eapply klt_trans; eauto|].
          intros v' [<- | Hin]; auto. apply klt_asym; auto.
      + destruct (IH (S i) m idx) as [[Hr Hall] | (j & z & Hr & Hn & Hlt & Hall)].
        * left. split; auto. intros v' [<- | Hin]; auto.
        * right. exists (S j), z. rewrite Hr.
          split; [f_equal; lia|]. split; [exact Hn|]. split; [exact Hlt|].
          intros v' [<- | Hin]; auto.
          destruct (klt (fst v) (fst z)) eqn:E2; auto.
          rewrite <- E. symmetry. eapply klt_trans; eauto.
  Qed.

  Lemma scan_min_top : forall (items : list item) k,
    (scan_min klt items 0 k None = None /\ forall v, In v items -> klt (fst v) k = false)
    \/ (exists j z, scan_min klt items 0 k None = Some j /\ nth_error items j = Some z
                    /\ klt (fst z) k = true /\ forall v, In v items -> klt (fst v) (fst z) = false).
  Proof. intros. apply (scan_min_spec items 0 k None). Qed.

  (* ---------------------------------------------------------------- *)
  (* replace_nth *)

  Lemma replace_nth_perm : forall (l : list item) j z n,
    nth_error l j = Some z -> Permutation (z :: replace_nth j n l) (n :: l).
  Proof.
    induction l as [|h t IH]; intros j z n H.
    - destruct j; discriminate.
    - destruct j; simpl in *.
      + inversion H; subst. apply perm_swap.
      + eapply perm_trans. apply perm_swap.
        eapply perm_trans. apply perm_skip. apply IH; eauto. apply perm_swap.
  Qed.

  Lemma replace_nth_length : forall (l : list item) j n, length (replace_nth j n l) = length l.
  Proof. induction l; intros [|j] n; simpl; auto. Qed.

  Lemma replace_nth_in : forall (l : list item) j n x, In x (replace_nth j n l) -> x = n \/ In x l.
  Proof.
    induction l as [|h t IH]; intros [|j] n x; simpl; auto.
    - intros [<- | H]; auto.
    - intros [<- | H]; auto. destruct (IH _ _ _ H); auto.
  Qed.

  (* ---------------------------------------------------------------- *)
  (* the top-k invariant *)

  Definition topk (max : Z) (p items : list item) : Prop :=
    exists rest, Permutation p (items ++ rest)
      /\ (forall x y, In x items -> In y rest -> klt (fst x) (fst y) = false)
      /\ length items = Nat.min (Z.to_nat max) (length p).

  Lemma topk_step : forall max p items n, (1 <= max)%Z ->
    topk max p items -> topk max (p ++ [n]) (add_items klt max items n).
  Proof.
    intros max p items n Hmax (rest & Hperm & Htop & Hlen).
    assert (Hpl : length p = (length items + length rest)%nat).
    { rewrite (Permutation_length Hperm), app_length; auto. }
    unfold add_items. destruct (max =? 1)%Z eqn:E1.
    - (* MaxAnswers == 1: checkAndReplaceRecord *)
      apply Z.eqb_eq in E1. subst max. change (Z.to_nat 1) with 1%nat in *.
      unfold check_and_replace. destruct items as [|h t].
      + assert (rest = []) by (destruct rest, p; simpl in *; try lia; auto). subst rest.
        destruct p; simpl in Hpl; try lia.
        exists []. simpl. repeat split; auto.
      + assert (t = []) by (destruct t; simpl in *; auto; destruct p; simpl in *; lia). subst t.
        destruct (klt (fst h) (fst n)) eqn:E.
        * exists (h :: rest). repeat split.
          -- eapply perm_trans. apply Permutation_app_tail; exact Hperm.
             simpl. eapply perm_trans. apply perm_skip. apply Permutation_app_comm.
             simpl. apply perm_swap.
          -- intros x y [<- | []] [<- | Hy]; [apply klt_asym; auto|].
             destruct (klt (fst n) (fst y)) eqn:E2; auto.
             rewrite <- (Htop h y); [|simpl; auto|auto]. symmetry. eapply klt_trans; eauto.
          -- rewrite app_length. simpl. destruct p; simpl in *; lia.
        * exists (n :: rest). repeat split.
          -- eapply perm_trans. apply Permutation_app_tail; exact Hperm.
             simpl. apply perm_skip. apply Permutation_app_comm.
          -- intros x y [<- | []] [<- | Hy]; auto. apply Htop; simpl; auto.
          -- rewrite app_length. simpl. destruct p; simpl in *; lia.
    - (* addRecord *)
      apply Z.eqb_neq in E1. unfold add_record.
      destruct (Z.of_nat (length items) <? max)%Z eqn:E2.
      + apply Z.ltb_lt in E2.
        assert (rest = []) by (destruct rest; auto; simpl in *; lia). subst rest.
        exists []. repeat split.
        * rewrite !app_nil_r in *. apply Permutation_app_tail; auto.
        * intros ? ? ? [].
        * rewrite !app_length. simpl. lia.
      + apply Z.ltb_ge in E2.
        assert (Hfull : length items = Z.to_nat max) by lia.
        destruct (scan_min_top items (fst n)) as [[Hr Hall] | (j & z & Hr & Hn & Hlt & Hall)]; rewrite Hr.
        * exists (rest ++ [n]). repeat split.
          -- rewrite app_assoc. apply Permutation_app_tail; auto.
          -- intros x y Hx Hy. apply in_app_or in Hy. destruct Hy as [Hy | [<- | []]]; auto.
          -- rewrite app_length. simpl. lia.
        * exists (z :: rest). repeat split.
          -- apply perm_trans with (n :: items ++ rest).
             { eapply perm_trans. apply Permutation_app_tail; exact Hperm.
               apply Permutation_sym. apply Permutation_cons_append. }
             apply perm_trans with (z :: replace_nth j n items ++ rest).
             { apply Permutation_sym.
               apply (Permutation_app_tail rest (replace_nth_perm items j z n Hn)). }
             apply Permutation_middle.
          -- intros x y Hx [<- | Hy].
             ++ apply replace_nth_in in Hx. destruct Hx as [-> | Hx]; auto. apply klt_asym; auto.
             ++ apply replace_nth_in in Hx. destruct Hx as [-> | Hx]; auto.
                destruct (klt (fst n) (fst y)) eqn:E3; auto.
                assert (Hz : In z items) by (eapply nth_error_In; eauto).
                rewrite <- (Htop z y Hz Hy). symmetry. eapply klt_trans; eauto.
          -- rewrite replace_nth_length, app_length. simpl. lia.
  Qed.

  Lemma topk_fold : forall max (cs p items : list item), (1 <= max)%Z ->
    topk max p items -> topk max (p ++ cs) (fold_left (add_items klt max) cs items).
  Proof.
    intros max cs. induction cs as [|c cs IH]; intros p items Hmax H; simpl.
    - rewrite app_nil_r; auto.
    - replace (p ++ c :: cs) with ((p ++ [c]) ++ cs) by (rewrite <- app_assoc; auto).
      apply IH; auto. apply topk_step; auto.
  Qed.

  Theorem run_topk : forall max (cs : list item), (1 <= max)%Z -> topk max cs (run klt max cs).
  Proof.
    intros. unfold run. apply (topk_fold max cs [] []); auto.
    exists []. simpl. split; [constructor|]. split; [intros ? ? []|]. destruct (Z.to_nat max); auto.
  Qed.

  (* MaxAnswers <= 0: nothing is ever stored (len(items) < MaxAnswers is false, no slot to replace) *)
  Theorem run_nonpositive_max : forall max (cs : list item), (max <= 0)%Z -> run klt max cs = [].
  Proof.
    intros max cs Hmax. unfold run.
    assert (forall l : list item, fold_left (add_items klt max) l [] = []) as H.
    { induction l; simpl; auto. unfold add_items at 2.
      replace (max =? 1)%Z with false by (symmetry; apply Z.eqb_neq; lia).
      unfold add_record. simpl.
      replace (0 <? max)%Z with false by (symmetry; apply Z.ltb_ge; lia). auto. }
    apply H.
  Qed.

  (* ---------------------------------------------------------------- *)
  (* consequences of the invariant *)

  Definition npos (l : list item) : nat := length (filter kof l).

  Lemma topk_count : forall max p items, topk max p items ->
    npos items = Nat.min (Z.to_nat max) (npos p).
  Proof.
    intros max p items (rest & Hperm & Htop & Hlen). unfold npos.
    rewrite (filter_length_perm kof _ _ Hperm), filter_app, app_length.
    assert (Hpl : length p = (length items + length rest)%nat).
    { rewrite (Permutation_length Hperm), app_length; auto. }
    pose proof (filter_length_le kof items) as Hle.
    destruct (filter kof rest) as [|y fr] eqn:Ef.
    - simpl. lia.
    - (* a positive key was dropped: every kept key is positive *)
      assert (Hy : In y rest /\ kpos (fst y) = true).
      { apply (filter_In kof). rewrite Ef. simpl; auto. }
      destruct Hy as [Hy Hyp].
      assert (Hall : filter kof items = items).
      { apply filter_all_true. intros x Hx. destruct (kpos (fst x)) eqn:Ex; auto.
        pose proof (Htop x y Hx Hy) as Hc. rewrite (kzero_below _ _ Ex Hyp) in Hc. discriminate Hc. }
      rewrite Hall. simpl.
      assert (length rest <> 0)%nat by (destruct rest; [destruct Hy|simpl; lia]).
      lia.
  Qed.

  Lemma topk_incl : forall max p items, topk max p items -> incl items p.
  Proof.
    intros max p items (rest & Hperm & _) x Hx.
    eapply Permutation_in. apply Permutation_sym; eauto. apply in_or_app; auto.
  Qed.

  Lemma topk_nodup : forall {X} max p items (f : item -> X), topk max p items ->
    NoDup (map f p) -> NoDup (map f items).
  Proof.
    intros X max p items f (rest & Hperm & _) Hnd.
    apply (Permutation_map f) in Hperm. rewrite map_app in Hperm.
    apply (Permutation_NoDup Hperm) in Hnd. eapply NoDup_app_l; eauto.
  Qed.

  Lemma live_in : forall (l : list item) x, In x (live kpos l) <-> In x l /\ kpos (fst x) = true.
  Proof. intros. unfold live. apply filter_In. Qed.

  Lemma live_nodup : forall {X} (l : list item) (f : item -> X), NoDup (map f l) -> NoDup (map f (live kpos l)).
  Proof.
    intros X. induction l as [|a l IH]; simpl; intros f H; auto.
    inversion H; subst. destruct (kpos (fst a)); simpl; auto.
    constructor; auto. intros Hin. apply H2.
    apply in_map_iff in Hin. destruct Hin as (x & Hx & Hin). apply live_in in Hin.
    apply in_map_iff. exists x. tauto.
  Qed.
End WrsProofs.


(* ------------------------------------------------------------------ *)
(* the two address families of one Wrs *)

Section Families.
  Variable K : Type.
  Variable klt : K -> K -> bool.
  Variable kpos : K -> bool.
  Variable A : Type.
  Hypothesis klt_irrefl : forall a, klt a a = false.
  Hypothesis klt_trans : forall a b c, klt a b = true -> klt b c = true -> klt a c = true.
  Hypothesis kzero_below : forall z a, kpos z = false -> kpos a = true -> klt z a = true.

  Notation item := (item K A).
  Notation row := (row K A).
  Notation wrs := (wrs K A).

  Definition itm (r : row) : item := (rkey r, rpay r).

  Lemma fam_items_cons : forall q (r : row) rows,
    fam_items q (r :: rows) = if rq r =? q then itm r :: fam_items q rows else fam_items q rows.
  Proof. intros. unfold fam_items. simpl. destruct (rq r =? q); auto. Qed.

  Lemma add_row_spec : forall (w : wrs) (r : row),
    let w' := add_row klt w r in
    max_answers w' = max_answers w
    /\ v4 w' = (if rq r =? TypeA then add_items klt (max_answers w) (v4 w) (itm r) else v4 w)
    /\ v6 w' = (if rq r =? TypeAAAA then add_items klt (max_answers w) (v6 w) (itm r) else v6 w)
    /\ v4count w' = (if rq r =? TypeA then inc32 (v4count w) else v4count w)
    /\ v6count w' = (if rq r =? TypeAAAA then inc32 (v6count w) else v6count w).
  Proof.
    intros w r. unfold add_row, add, itm.
    destruct (rq r =? TypeA) eqn:E4; destruct (rq r =? TypeAAAA) eqn:E6; simpl; auto.
  Qed.

  Definition fed_from (w : wrs) (rows : list row) : wrs := fold_left (add_row klt) rows w.

  Lemma fed_from_spec : forall rows (w : wrs),
    v4count w < two32 -> v6count w < two32 ->
    let w' := fed_from w rows in
    max_answers w' = max_answers w
    /\ v4 w' = fold_left (add_items klt (max_answers w)) (fam_items TypeA rows) (v4 w)
    /\ v6 w' = fold_left (add_items klt (max_answers w)) (fam_items TypeAAAA rows) (v6 w)
    /\ v4count w' = (v4count w + N.of_nat (length (fam_items TypeA rows))) mod two32
    /\ v6count w' = (v6count w + N.of_nat (length (fam_items TypeAAAA rows))) mod two32.
  Proof.
    induction rows as [|r rows IH]; intros w H4 H6; cbn zeta.
    - cbn [fed_from fold_left fam_items filter map length N.of_nat]. rewrite !N.add_0_r, !N.mod_small; auto.
    - unfold fed_from. cbn [fold_left]. fold (fed_from (add_row klt w r) rows).
      destruct (add_row_spec w r) as (Hm & Hv4 & Hv6 & Hc4 & Hc6).
      assert (Hlt : forall c, inc32 c < two32) by (intros; unfold inc32; apply N.mod_lt; discriminate).
      assert (H4' : v4count (add_row klt w r) < two32) by (rewrite Hc4; destruct (rq r =? TypeA); auto).
      assert (H6' : v6count (add_row klt w r) < two32) by (rewrite Hc6; destruct (rq r =? TypeAAAA); auto).
      destruct (IH _ H4' H6') as (Im & I4 & I6 & J4 & J6).
      rewrite Im, I4, I6, J4, J6, Hm, Hv4, Hv6, Hc4, Hc6, !fam_items_cons.
      repeat split; auto.
      + destruct (rq r =? TypeA); auto.
      + destruct (rq r =? TypeAAAA); auto.
      + destruct (rq r =? TypeA); auto. cbn [length]. rewrite Nat2N.inj_succ. unfold inc32.
        rewrite N.add_mod_idemp_l by discriminate. f_equal. lia.
      + destruct (rq r =? TypeAAAA); auto. cbn [length]. rewrite Nat2N.inj_succ. unfold inc32.
        rewrite N.add_mod_idemp_l by discriminate. f_equal. lia.
  Qed.

  Lemma feed_spec : forall max (rows : list row),
    let w := feed klt max rows in
    max_answers w = max
    /\ v4 w = run klt max (fam_items TypeA rows)
    /\ v6 w = run klt max (fam_items TypeAAAA rows)
    /\ v4count w = N.of_nat (length (fam_items TypeA rows)) mod two32
    /\ v6count w = N.of_nat (length (fam_items TypeAAAA rows)) mod two32.
  Proof.
    intros max rows. unfold feed, run.
    assert (H0 : (0 : N) < two32) by reflexivity.
    apply (fed_from_spec rows (wrs_new max) H0 H0).
  Qed.

  Definition slots (w : wrs) (q : N) : list item := if q =? TypeA then v4 w else v6 w.

  Lemma feed_slots : forall max (rows : list row) q, q = TypeA \/ q = TypeAAAA ->
    slots (feed klt max rows) q = run klt max (fam_items q rows)
    /\ records kpos (feed klt max rows) q = Ok (live kpos (run klt max (fam_items q rows))).
  Proof.
    intros max rows q Hq. destruct (feed_spec max rows) as (_ & H4 & H6 & _).
    unfold slots, records. destruct Hq; subst q; simpl; rewrite ?H4, ?H6; auto.
  Qed.

  Lemma fam_items_in : forall q (rows : list row) (it : item), In it (fam_items q rows) ->
    exists r, In r rows /\ rq r = q /\ rkey r = fst it /\ rpay r = snd it.
  Proof.
    intros q rows it H. unfold fam_items in H. apply in_map_iff in H.
    destruct H as (r & <- & Hr). apply filter_In in Hr. destruct Hr as [Hr Hq].
    apply N.eqb_eq in Hq. exists r; simpl; auto.
  Qed.

  Lemma fam_items_pay_nodup : forall q (rows : list row), NoDup (map rpay rows) -> NoDup (map snd (fam_items q rows)).
  Proof.
    intros q rows. induction rows as [|r rows IH]; intros H; [constructor|].
    inversion H; subst. rewrite fam_items_cons. destruct (rq r =? q); auto.
    simpl. constructor; auto. intros Hin. apply H2.
    apply in_map_iff in Hin. destruct Hin as (it & Hs & Hin).
    apply fam_items_in in Hin. destruct Hin as (r' & Hr' & _ & _ & Hp).
    apply in_map_iff. exists r'. split; congruence.
  Qed.

  Lemma fam_items_npos : forall q (rows : list row),
    length (filter (fun it : item => kpos (fst it)) (fam_items q rows))
    = length (filter (fun r : row => (rq r =? q) && kpos (rkey r)) rows).
  Proof.
    intros q rows. induction rows as [|r rows IH]; auto.
    rewrite fam_items_cons. simpl. destruct (rq r =? q); simpl; auto.
    destruct (kpos (rkey r)); simpl; auto.
  Qed.

  (* ---------------------------------------------------------------- *)
  (* C11: bounded and sound *)

  Theorem bounded_sound : forall (rows : list row) max q,
    (1 <= max)%Z -> q = TypeA \/ q = TypeAAAA -> NoDup (map rpay rows) ->
    exists res, records kpos (feed klt max rows) q = Ok res
      /\ (forall it, In it res -> exists r, In r rows /\ rq r = q /\ rkey r = fst it /\ rpay r = snd it)
      /\ NoDup (map snd res)
      /\ (forall it, In it res -> kpos (fst it) = true)
      /\ length res = Nat.min (Z.to_nat max)
                        (length (filter (fun r : row => (rq r =? q) && kpos (rkey r)) rows)).
  Proof.
    intros rows max q Hmax Hq Hnd.
    destruct (feed_slots max rows q Hq) as [_ Hrec].
    pose proof (run_topk K klt A klt_irrefl klt_trans max (fam_items q rows) Hmax) as Htop.
    exists (live kpos (run klt max (fam_items q rows))). split; auto. repeat split.
    - intros it Hit. apply live_in in Hit. destruct Hit as [Hit _].
      apply (topk_incl _ _ _ _ _ _ Htop) in Hit. apply fam_items_in; auto.
    - apply live_nodup. eapply topk_nodup; eauto. apply fam_items_pay_nodup; auto.
    - intros it Hit. apply live_in in Hit. tauto.
    - rewrite <- fam_items_npos.
      apply (topk_count K klt kpos A kzero_below _ _ _ Htop).
  Qed.

  (* the kept items are the top ones: no candidate of the family that is not
     returned has a key above a returned one *)
  Theorem topk_selected : forall (rows : list row) max q res,
    (1 <= max)%Z -> q = TypeA \/ q = TypeAAAA -> NoDup (map rpay rows) ->
    records kpos (feed klt max rows) q = Ok res ->
    forall r it, In r rows -> rq r = q -> ~ In (rpay r) (map snd res) -> In it res ->
      klt (fst it) (rkey r) = false.
  Proof.
    intros rows max q res Hmax Hq Hnd Hrec r it Hr Hrq Hnot Hit.
    destruct (feed_slots max rows q Hq) as [_ Hrec']. rewrite Hrec' in Hrec. inversion Hrec; subst res. clear Hrec Hrec'.
    pose proof (run_topk K klt A klt_irrefl klt_trans max (fam_items q rows) Hmax) as (rest & Hperm & Htop & _).
    apply live_in in Hit. destruct Hit as [Hit Hpos].
    destruct (kpos (rkey r)) eqn:Ep.
    - assert (Hin : In (itm r) (fam_items q rows)).
      { unfold fam_items. apply in_map_iff. exists r. split; auto. apply filter_In. split; auto. apply N.eqb_eq; auto. }
      apply (Permutation_in _ Hperm) in Hin. apply in_app_or in Hin. destruct Hin as [Hin | Hin].
      + exfalso. apply Hnot. apply in_map_iff. exists (itm r). split; auto. apply live_in. split; auto.
      + apply (Htop it (itm r) Hit Hin).
    - apply (klt_asym K klt klt_irrefl klt_trans). apply kzero_below; auto.
  Qed.

  (* ---------------------------------------------------------------- *)
  (* FindAnswer for an address query *)

  Definition cnames (rows : list row) : list A := map rpay (filter (fun r => rq r =? TypeCNAME) rows).

  Lemma parse_fold_addr : forall q (lv : list row) (s : fstate K A),
    q = TypeA \/ q = TypeAAAA ->
    let s' := fold_left (parse_result klt q) lv s in
    fw s' = fed_from (fw s) (filter (fun r => rq r =? q) lv)
    /\ fans s' = fans s ++ cnames lv
    /\ ffound s' = (ffound s || negb (length lv =? 0)%nat).
  Proof.
    intros q lv. induction lv as [|r lv IH]; intros s Hq; cbn zeta.
    - simpl. rewrite app_nil_r, orb_false_r. auto.
    - cbn [fold_left]. destruct (IH (parse_result klt q s r) Hq) as (Hw & Ha & Hf).
      rewrite Hw, Ha, Hf. unfold parse_result, cnames. cbn [filter].
      assert (HqA : (q =? TypeANY) = false) by (destruct Hq; subst; auto).
      assert (HqC : (q =? TypeCNAME) = false) by (destruct Hq; subst; auto).
      rewrite HqA, orb_false_r.
      destruct (rq r =? TypeCNAME) eqn:EC.
      + apply N.eqb_eq in EC. rewrite EC. rewrite (N.eqb_sym TypeCNAME q), HqC.
        cbn [orb is_addr N.eqb TypeCNAME TypeA TypeAAAA Pos.eqb fw fans ffound map].
        unfold is_addr. cbn. rewrite <- app_assoc. repeat split; auto. rewrite orb_true_r. auto.
      + cbn [orb]. destruct (rq r =? q) eqn:EQ.
        * apply N.eqb_eq in EQ.
          assert (Hia : is_addr (rq r) = true) by (rewrite EQ; destruct Hq; subst; auto).
          rewrite Hia. cbn [fw fans ffound fed_from fold_left]. repeat split; auto. rewrite orb_true_r; auto.
        * cbn [fw fans ffound]. repeat split; auto. rewrite orb_true_r; auto.
  Qed.

  Lemma fam_items_filter_same : forall q (lv : list row),
    fam_items q (filter (fun r => rq r =? q) lv) = fam_items q lv.
  Proof.
    intros q lv. induction lv as [|r lv IH]; auto. simpl.
    destruct (rq r =? q) eqn:E; rewrite !fam_items_cons, ?E, IH; auto.
  Qed.

  Lemma fam_items_filter_other : forall q q' (lv : list row), q <> q' ->
    fam_items q' (filter (fun r => rq r =? q) lv) = [].
  Proof.
    intros q q' lv Hne. induction lv as [|r lv IH]; auto. simpl.
    destruct (rq r =? q) eqn:E; auto. rewrite fam_items_cons, IH.
    apply N.eqb_eq in E. rewrite E. apply N.eqb_neq in Hne. rewrite Hne. auto.
  Qed.

  Lemma feed_filter_records : forall max q (lv : list row), q = TypeA \/ q = TypeAAAA ->
    let w := feed klt max (filter (fun r => rq r =? q) lv) in
    recs_or_nil kpos w TypeA ++ recs_or_nil kpos w TypeAAAA = map snd (live kpos (run klt max (fam_items q lv)))
    /\ weighted w = (1 <? N.of_nat (length (fam_items q lv)) mod two32).
  Proof.
    intros max q lv Hq. cbn zeta.
    destruct (feed_spec max (filter (fun r => rq r =? q) lv)) as (_ & H4 & H6 & C4 & C6).
    unfold recs_or_nil, records, weighted. cbn [N.eqb TypeA TypeAAAA Pos.eqb].
    rewrite H4, H6, C4, C6. destruct Hq; subst q.
    - rewrite fam_items_filter_same, fam_items_filter_other by discriminate.
      cbn. rewrite app_nil_r, orb_false_r. auto.
    - rewrite fam_items_filter_same, fam_items_filter_other by discriminate.
      cbn. auto.
  Qed.

  (* an address query at a level that has rows: the answer is the CNAME rows
     followed by the sample of the family; recordFound is set *)
  Theorem find_answer_addr : forall q max (lv : list row) rest,
    q = TypeA \/ q = TypeAAAA -> lv <> [] ->
    find_answer klt kpos q max (lv :: rest)
    = (cnames lv ++ map snd (live kpos (run klt max (fam_items q lv))),
       (1 <? N.of_nat (length (fam_items q lv)) mod two32), true).
  Proof.
    intros q max lv rest Hq Hne. unfold find_answer. cbn [find_levels].
    destruct (parse_fold_addr q lv (mkF (wrs_new max) [] false) Hq) as (Hw & Ha & Hf).
    cbn [fw fans ffound] in *. rewrite Hf.
    assert (Hl : negb (length lv =? 0)%nat = true) by (destruct lv; [congruence|auto]).
    rewrite Hl. cbn [orb fw fans ffound]. rewrite Ha, Hw.
    change (fed_from (wrs_new max) (filter (fun r => rq r =? q) lv)) with (feed klt max (filter (fun r => rq r =? q) lv)).
    destruct (feed_filter_records max q lv Hq) as [Hr Hwt]. cbn zeta in Hr, Hwt.
    rewrite Hr, Hwt. auto.
  Qed.

  Lemma pay_inj : forall (lv : list row) r r', NoDup (map rpay lv) ->
    In r lv -> In r' lv -> rpay r' = rpay r -> r' = r.
  Proof.
    induction lv as [|a lv IH]; intros r r' Hnd Hr Hr' Hp; [destruct Hr|].
    simpl in Hnd. inversion Hnd; subst.
    destruct Hr as [-> | Hr], Hr' as [-> | Hr']; auto.
    - exfalso. apply H1. apply in_map_iff. exists r'; auto.
    - exfalso. apply H1. apply in_map_iff. exists r; auto.
  Qed.

  Lemma run_in_rows : forall max q (lv : list row) it, In it (run klt max (fam_items q lv)) ->
    exists r, In r lv /\ rq r = q /\ rkey r = fst it /\ rpay r = snd it.
  Proof.
    intros max q lv it Hit. destruct (Z_le_gt_dec 1 max) as [Hmax | Hmax].
    - apply fam_items_in.
      apply (topk_incl _ _ _ _ _ _ (run_topk K klt A klt_irrefl klt_trans max _ Hmax)); auto.
    - rewrite (run_nonpositive_max K klt A) in Hit by lia. destruct Hit.
  Qed.

  (* a visible address record whose key is 0 is never part of the answer, and
     the name is still reported as existing (no NXDOMAIN) *)
  Theorem zero_key_not_served_but_found : forall q max (lv : list row) rest r,
    q = TypeA \/ q = TypeAAAA -> NoDup (map rpay lv) ->
    In r lv -> rq r = q -> kpos (rkey r) = false ->
    let res := find_answer klt kpos q max (lv :: rest) in
    ~ In (rpay r) (fst (fst res)) /\ snd res = true /\ nxdomain res = false.
  Proof.
    intros q max lv rest r Hq Hnd Hr Hrq Hz. cbn zeta.
    assert (Hne : lv <> []) by (intros ->; destruct Hr).
    rewrite (find_answer_addr q max lv rest Hq Hne). cbn [fst snd nxdomain negb andb].
    rewrite andb_false_r. repeat split; auto.
    intros Hin. apply in_app_or in Hin. destruct Hin as [Hin | Hin].
    - (* a CNAME row with the same payload would be the same row *)
      unfold cnames in Hin. apply in_map_iff in Hin. destruct Hin as (r' & Hp & Hr').
      apply filter_In in Hr'. destruct Hr' as [Hr' Hc]. apply N.eqb_eq in Hc.
      assert (r' = r) by (eapply pay_inj; eauto).
      subst r'. rewrite Hrq in Hc. destruct Hq; subst q; discriminate.
    - apply in_map_iff in Hin. destruct Hin as (it & Hp & Hit).
      apply live_in in Hit. destruct Hit as [Hit Hpos].
      apply run_in_rows in Hit. destruct Hit as (r' & Hr' & _ & Hk & Hp').
      assert (r' = r) by (eapply pay_inj; eauto; congruence).
      subst r'. congruence.
  Qed.

  (* ---------------------------------------------------------------- *)
  (* additional section: one NS/MX target, Wrs{MaxAnswers: 1} *)

  Lemma add_parse_fold : forall want4 want6 (rows : list row) (w : wrs),
    fold_left (add_parse klt want4 want6) rows w
    = fed_from w (filter (fun r => ((rq r =? TypeA) && want4) || ((rq r =? TypeAAAA) && want6)) rows).
  Proof.
    intros want4 want6 rows. induction rows as [|r rows IH]; intros w; auto.
    cbn [fold_left filter]. rewrite IH. unfold add_parse.
    destruct (((rq r =? TypeA) && want4) || ((rq r =? TypeAAAA) && want6)); auto.
  Qed.

  Lemma fam_items_filter_want : forall q (want4 want6 : bool) (rows : list row),
    q = TypeA \/ q = TypeAAAA ->
    fam_items q (filter (fun r => ((rq r =? TypeA) && want4) || ((rq r =? TypeAAAA) && want6)) rows)
    = if (if q =? TypeA then want4 else want6) then fam_items q rows else [].
  Proof.
    intros q want4 want6 rows Hq. induction rows as [|r rows IH].
    - destruct (if q =? TypeA then want4 else want6); auto.
    - cbn [filter]. rewrite (fam_items_cons q r rows).
      destruct (rq r =? q) eqn:E.
      + apply N.eqb_eq in E. rewrite E.
        destruct Hq; subst q; cbn [N.eqb TypeA TypeAAAA Pos.eqb andb orb] in *.
        * destruct want4, want6; cbn [andb orb]; rewrite ?fam_items_cons, ?E, ?IH; cbn; auto.
        * destruct want4, want6; cbn [andb orb]; rewrite ?fam_items_cons, ?E, ?IH; cbn; auto.
      + destruct (((rq r =? TypeA) && want4) || ((rq r =? TypeAAAA) && want6)); auto.
        rewrite fam_items_cons, E. auto.
  Qed.

  (* at most one AAAA and one A record per target, each a declared visible
     record of the target with a positive key; exactly one when the family is
     wanted and has a positive key *)
  Theorem additional_max_one : forall want4 want6 (rows : list row) r6 r4 wt,
    additional klt kpos want4 want6 rows = (r6, r4, wt) ->
    length r4 = (if want4 then Nat.min 1 (length (filter (fun r : row => (rq r =? TypeA) && kpos (rkey r)) rows)) else 0%nat)
    /\ length r6 = (if want6 then Nat.min 1 (length (filter (fun r : row => (rq r =? TypeAAAA) && kpos (rkey r)) rows)) else 0%nat)
    /\ (forall a, In a r4 -> exists r, In r rows /\ rq r = TypeA /\ rpay r = a /\ kpos (rkey r) = true)
    /\ (forall a, In a r6 -> exists r, In r rows /\ rq r = TypeAAAA /\ rpay r = a /\ kpos (rkey r) = true).
  Proof.
    intros want4 want6 rows r6 r4 wt Hadd. unfold additional in Hadd.
    destruct (want4 || want6) eqn:Ew.
    2:{ inversion Hadd; subst. destruct want4, want6; try discriminate. simpl. repeat split; auto; intros ? []. }
    rewrite add_parse_fold in Hadd.
    set (flt := filter _ rows) in Hadd.
    change (fed_from (wrs_new 1) flt) with (feed klt 1 flt) in Hadd.
    destruct (feed_spec 1 flt) as (_ & H4 & H6 & _).
    unfold recs_or_nil, records in Hadd. cbn [N.eqb TypeA TypeAAAA Pos.eqb] in Hadd.
    rewrite H4, H6 in Hadd. unfold flt in Hadd.
    rewrite !fam_items_filter_want in Hadd by auto. cbn [N.eqb TypeA TypeAAAA Pos.eqb] in Hadd.
    inversion Hadd; subst r6 r4. clear Hadd.
    assert (Hone : (1 <= 1)%Z) by lia.
    assert (Hcnt : forall q, length (live kpos (run klt 1 (fam_items q rows)))
                    = Nat.min 1 (length (filter (fun r : row => (rq r =? q) && kpos (rkey r)) rows))).
    { intros q. rewrite <- fam_items_npos.
      apply (topk_count K klt kpos A kzero_below 1 _ _ (run_topk K klt A klt_irrefl klt_trans 1 _ Hone)). }
    assert (Hsnd : forall q a, In a (map snd (live kpos (run klt 1 (fam_items q rows)))) ->
                    exists r, In r rows /\ rq r = q /\ rpay r = a /\ kpos (rkey r) = true).
    { intros q a Ha. apply in_map_iff in Ha. destruct Ha as (it & <- & Hit).
      apply live_in in Hit. destruct Hit as [Hit Hpos].
      apply run_in_rows in Hit. destruct Hit as (r & Hr & Hq & Hk & Hp).
      exists r. repeat split; auto. congruence. }
    repeat split.
    - destruct want4; [rewrite map_length; apply Hcnt|auto].
    - destruct want6; [rewrite map_length; apply Hcnt|auto].
    - intros a Ha. destruct want4; [apply Hsnd; auto|destruct Ha].
    - intros a Ha. destruct want6; [apply Hsnd; auto|destruct Ha].
  Qed.

  (* ---------------------------------------------------------------- *)
  (* the whole additional section: want4/want6 from HasRecord *)

  Definition cnt (msg : list (N * N)) (name q : N) : nat :=
    length (filter (fun p => (fst p =? name) && (snd p =? q)) msg).

  Lemma has_record_false : forall msg name q, has_record msg name q = false -> cnt msg name q = 0%nat.
  Proof.
    unfold has_record, cnt. induction msg as [|p msg IH]; intros name q H; auto.
    simpl in *. apply orb_false_elim in H. destruct H as [H1 H2]. rewrite H1. auto.
  Qed.

  Lemma cnt_app : forall a b name q, cnt (a ++ b) name q = (cnt a name q + cnt b name q)%nat.
  Proof. intros. unfold cnt. rewrite filter_app, app_length. auto. Qed.

  Lemma cnt_map_const : forall (l : list A) (n t name q : N),
    cnt (map fst (map (fun a => (n, t, a)) l)) name q = if (n =? name) && (t =? q) then length l else 0%nat.
  Proof.
    intros l n t name q. unfold cnt. induction l as [|a l IH]; simpl.
    - destruct ((n =? name) && (t =? q)); auto.
    - destruct ((n =? name) && (t =? q)); simpl; auto.
  Qed.

  Theorem additional_section_one_per_family : forall (targets : list (N * list row)) msg es wt m,
    additional_section klt kpos msg targets = (es, wt, m) ->
    m = msg ++ map fst es
    /\ forall name q, q = TypeA \/ q = TypeAAAA ->
         (cnt m name q <= Nat.max 1 (cnt msg name q))%nat.
  Proof.
    induction targets as [|[tn rows] t IH]; intros msg es wt m H.
    - simpl in H. inversion H; subst. rewrite app_nil_r. split; auto. intros. lia.
    - cbn [additional_section] in H.
      destruct (additional klt kpos (negb (has_record msg tn TypeA)) (negb (has_record msg tn TypeAAAA)) rows)
        as [[r6 r4] wt0] eqn:Eadd.
      set (e := map (fun a => (tn, TypeAAAA, a)) r6 ++ map (fun a => (tn, TypeA, a)) r4) in *.
      destruct (additional_section klt kpos (msg ++ map fst e) t) as [[es' wt'] m'] eqn:Erec.
      inversion H; subst es wt m. clear H.
      destruct (IH _ _ _ _ Erec) as [Hm Hb]. split.
      + rewrite Hm, map_app, app_assoc. auto.
      + intros name q Hq. specialize (Hb name q Hq).
        destruct (additional_max_one _ _ _ _ _ _ Eadd) as (L4 & L6 & _).
        assert (Hstep : (cnt (msg ++ map fst e) name q <= Nat.max 1 (cnt msg name q))%nat).
        { rewrite cnt_app. unfold e. rewrite map_app, cnt_app, !cnt_map_const.
          destruct (tn =? name) eqn:En; cbn [andb]; [|lia].
          apply N.eqb_eq in En. subst tn.
          destruct Hq; subst q; unfold TypeA, TypeAAAA in *; simpl N.eqb.
          - destruct (has_record msg name 1) eqn:Eh; cbn [negb] in L4.
            + rewrite L4. lia.
            + apply has_record_false in Eh. rewrite Eh, L4. lia.
          - destruct (has_record msg name 28) eqn:Eh; cbn [negb] in L6.
            + rewrite L6. lia.
            + apply has_record_false in Eh. rewrite Eh, L6. lia. }
        lia.
  Qed.
End Families.

(* ------------------------------------------------------------------ *)
(* keys as a function of (draw, weight): weight 0 and the corner draws (F18) *)

Section Draws.
  Variable K : Type.
  Variable klt : K -> K -> bool.
  Variable kpos : K -> bool.
  Variable A : Type.
  Hypothesis klt_irrefl : forall a, klt a a = false.
  Hypothesis klt_trans : forall a b c, klt a b = true -> klt b c = true -> klt a c = true.
  Hypothesis kzero_below : forall z a, kpos z = false -> kpos a = true -> klt z a = true.

  (* keyof u w stands for math.Pow(float64(u)*float64(1.0/MaxUint32), 1.0/float64(w));
     all that is assumed about it is when it is > 0.0 (checked on every Add of
     the correspondence run): weight 0 gives Pow(x, +Inf) = 0 unless x = 1 (u = M);
     a positive weight gives 0 only for u = 0 *)
  Variable keyof : N -> N -> K.
  Hypothesis keyof_pos : forall u w, u <= maxU32 -> kpos (keyof u w) = dk_pos (u, w).

  (* a declared visible record with its draw *)
  Record drow := mkD { dq : N; du : N; dw : N; dpay : A }.
  Definition to_row (d : drow) : row K A := mkRow (dq d) (keyof (du d) (dw d)) (dpay d).

  Lemma map_rpay_to_row : forall l, map rpay (map to_row l) = map dpay l.
  Proof. induction l; simpl; congruence. Qed.

  Theorem zero_weight_not_served_but_found : forall q max (lv : list drow) rest d,
    q = TypeA \/ q = TypeAAAA -> NoDup (map dpay lv) ->
    In d lv -> dq d = q -> dw d = 0 -> du d < maxU32 ->
    let res := find_answer klt kpos q max (map to_row lv :: rest) in
    ~ In (dpay d) (fst (fst res)) /\ snd res = true /\ nxdomain res = false.
  Proof.
    intros q max lv rest d Hq Hnd Hd Hdq Hw Hu.
    apply (zero_key_not_served_but_found K klt kpos A klt_irrefl klt_trans q max (map to_row lv) rest (to_row d)); auto.
    - rewrite map_rpay_to_row; auto.
    - apply in_map; auto.
    - simpl. rewrite keyof_pos by lia. rewrite Hw. simpl.
      apply N.eqb_neq. lia.
  Qed.

  (* F18, first half: the draw 2^32-1 gives a weight-0 record the key 1 and it is served *)
  Theorem zero_weight_served_refuted : forall a : A,
    exists (lv : list drow) d, In d lv /\ dw d = 0 /\ dq d = TypeA /\
      In (dpay d) (fst (fst (find_answer klt kpos TypeA 1 [map to_row lv]))).
  Proof.
    intros a. exists [mkD TypeA maxU32 0 a], (mkD TypeA maxU32 0 a).
    split; [left; reflexivity|]. split; [reflexivity|]. split; [reflexivity|].
    rewrite (find_answer_addr K klt kpos A TypeA 1 _ [] (or_introl eq_refl)) by discriminate.
    cbn. rewrite keyof_pos by (cbn; discriminate). cbn. auto.
  Qed.

  Definition in_open_range (d : drow) : Prop := 0 < du d < maxU32.

  Lemma pos_by_weight : forall d, in_open_range d -> kpos (keyof (du d) (dw d)) = (0 <? dw d).
  Proof.
    intros d [H0 HM]. rewrite keyof_pos by lia. unfold dk_pos.
    destruct (dw d =? 0) eqn:E.
    - apply N.eqb_eq in E. rewrite E. cbn. apply N.eqb_neq. lia.
    - apply N.eqb_neq in E. transitivity true; [apply N.ltb_lt; lia|symmetry; apply N.ltb_lt; lia].
  Qed.

  (* outside F18 (no draw is 0 or 2^32-1): the number of served addresses is
     min(max, number of positive-weight candidates) *)
  Theorem count_by_weight_outside_F18 : forall (lv : list drow) max q,
    (1 <= max)%Z -> q = TypeA \/ q = TypeAAAA -> NoDup (map dpay lv) ->
    Forall in_open_range lv ->
    exists res, records kpos (feed klt max (map to_row lv)) q = Ok res
      /\ length res = Nat.min (Z.to_nat max)
                        (length (filter (fun d : drow => (dq d =? q) && (0 <? dw d)) lv)).
  Proof.
    intros lv max q Hmax Hq Hnd Hall.
    destruct (bounded_sound K klt kpos A klt_irrefl klt_trans kzero_below (map to_row lv) max q Hmax Hq)
      as (res & Hrec & _ & _ & _ & Hlen).
    { rewrite map_rpay_to_row; auto. }
    exists res. split; auto. rewrite Hlen. f_equal.
    clear - Hall keyof_pos. induction lv as [|d lv IH]; auto.
    inversion Hall; subst. cbn [map filter to_row rq rkey].
    rewrite (pos_by_weight d H1). destruct ((dq d =? q) && (0 <? dw d)); simpl; auto.
  Qed.

  (* the whole clause at the level of weights, outside F18: served records are
     distinct declared records of the family with a positive weight, and there
     are exactly min(max, number of positive-weight candidates) of them *)
  Theorem bounded_sound_outside_F18 : forall (lv : list drow) max q,
    (1 <= max)%Z -> q = TypeA \/ q = TypeAAAA -> NoDup (map dpay lv) ->
    Forall in_open_range lv ->
    exists res, records kpos (feed klt max (map to_row lv)) q = Ok res
      /\ (forall it, In it res -> exists d, In d lv /\ dq d = q /\ dpay d = snd it /\ 0 < dw d)
      /\ NoDup (map snd res)
      /\ length res = Nat.min (Z.to_nat max)
                        (length (filter (fun d : drow => (dq d =? q) && (0 <? dw d)) lv)).
  Proof.
    intros lv max q Hmax Hq Hnd Hall.
    destruct (bounded_sound K klt kpos A klt_irrefl klt_trans kzero_below (map to_row lv) max q Hmax Hq)
      as (res & Hrec & Hsound & Hnodup & Hpos & Hlen).
    { rewrite map_rpay_to_row; auto. }
    destruct (count_by_weight_outside_F18 lv max q Hmax Hq Hnd Hall) as (res' & Hrec' & Hlen').
    rewrite Hrec in Hrec'. inversion Hrec'; subst res'.
    exists res. repeat split; auto.
    intros it Hit. destruct (Hsound it Hit) as (r & Hr & Hrq & Hk & Hp).
    apply in_map_iff in Hr. destruct Hr as (d & <- & Hd).
    exists d. repeat split; auto.
    apply N.ltb_lt. rewrite <- (pos_by_weight d).
    - simpl in Hk. rewrite Hk. apply Hpos; auto.
    - rewrite Forall_forall in Hall. apply Hall; auto.
  Qed.

  (* F18, second half: the draw 0 gives a positive-weight record the key 0:
     the only candidate is dropped, the answer is empty *)
  Theorem positive_weight_dropped_refuted : forall a : A,
    exists (lv : list drow) max, (1 <= max)%Z /\ NoDup (map dpay lv) /\
      records kpos (feed klt max (map to_row lv)) TypeA = Ok []
      /\ length (filter (fun d : drow => (dq d =? TypeA) && (0 <? dw d)) lv) = 1%nat.
  Proof.
    intros a. exists [mkD TypeA 0 1 a], 1%Z. repeat split; simpl; auto; try lia.
    - constructor; auto. constructor.
    - cbn. rewrite keyof_pos by discriminate. cbn. auto.
  Qed.
End Draws.

(* ------------------------------------------------------------------ *)
(* the hypotheses are satisfiable: ranks (N with <, positive = non-zero), and a
   non-trivial evaluation *)

Lemma rk_irrefl : forall a, rk_lt a a = false.
Proof. intros. apply N.ltb_irrefl. Qed.
Lemma rk_trans : forall a b c, rk_lt a b = true -> rk_lt b c = true -> rk_lt a c = true.
Proof. unfold rk_lt. intros a b c H1 H2. apply N.ltb_lt in H1, H2. apply N.ltb_lt. lia. Qed.
Lemma rk_zero_below : forall z a, rk_pos z = false -> rk_pos a = true -> rk_lt z a = true.
Proof.
  unfold rk_lt, rk_pos. intros z a H1 H2. apply N.ltb_ge in H1. apply N.ltb_lt in H2. apply N.ltb_lt. lia.
Qed.

(* six A candidates (keys 5 0 9 2 9 7) and one AAAA, max 3: slots end as 7 9 9 *)
Example wrs_example :
  records rk_pos (feed rk_lt 3 [mkRow 1 5 10; mkRow 1 0 11; mkRow 28 4 20; mkRow 1 9 12; mkRow 1 2 13; mkRow 1 9 14; mkRow 1 7 15]) 1
  = Ok [(7, 15); (9, 14); (9, 12)].
Proof. vm_compute. reflexivity. Qed.

(* exact keys: weight 0 with draw 2^32-1 beats weight 1 with draw 2^32-2 (F18);
   weight 0 with any other draw is never served *)
Example F18_exact_keys :
  find_answer dk_lt dk_pos 1 1 [[mkRow 1 (maxU32, 0) 100; mkRow 1 (4294967294, 1) 101]] = ([100], true, true)
  /\ find_answer dk_lt dk_pos 1 1 [[mkRow 1 (4294967294, 0) 100; mkRow 1 (1, 1) 101]] = ([101], true, true)
  /\ find_answer dk_lt dk_pos 1 3 [[mkRow 1 (0, 1) 100]] = ([], false, true).
Proof. vm_compute. auto. Qed.
